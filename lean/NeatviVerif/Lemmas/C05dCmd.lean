import NeatviVerif.Lemmas.C05dEd
import NeatviVerif.Lemmas.C05dDecomp
/-!
# C05d lemmas, part 3: every handler of the dispatcher keeps the position invariant

`runCmd_pos`: one call of a handler.  With a cap `M = some m` on the rows the length of the current buffer after the
call has to be under the cap (`LenLe M ed'.len`); without a cap (`M = none`) there is no side condition.
-/
namespace Neatvi.Lemmas.C05d
open Neatvi Neatvi.Lbuf Neatvi.Ex Neatvi.Rset Neatvi.Spec Neatvi.Lemmas.ExFrame Neatvi.Lemmas.C02Ex
open Neatvi.Lemmas.Hist

variable {M : Option Int}

theorem some_pair_inj {α β} {a a' : α} {b b' : β} (h : some (a, b) = some (a', b')) : a = a' ∧ b = b' := by
  cases h; exact ⟨rfl, rfl⟩

/-- a row inside a buffer whose length is under the cap -/
theorem rowOk_in {ed' ed1 : Ed} {r : Int} (hb : ed'.bufs = ed1.bufs) (hl : LenLe M ed'.len) (h0 : -1 ≤ r)
    (h1 : r ≤ ed1.len) : RowOk M r :=
  RowOk.of_le h0 (by rw [len_of_bufs hb]; exact h1) hl

/-! ### `:w` -/

theorem posOk_unmodelled_if {ed : Ed} (c : Prop) [Decidable c] (h : PosOk M ed) :
    PosOk M (if c then { ed with unmodelled := true } else ed) := by
  split
  · exact h.to rfl rfl rfl
  · exact h

theorem ecWrite_pos {ed ed' : Ed} {loc cmd arg : Bytes} {r : Int} (h : PosOk M ed)
    (hw : ecWrite ed loc cmd arg = some (r, ed')) : PosOk M ed' := by
  unfold ecWrite at hw
  simp only [] at hw
  split at hw
  · cases hw
  · rename_i path ed1 hp
    have h1 : PosOk M ed1 := by
      split at hp
      · exact h.fr (fr_pathExpand hp)
      · cases hp; exact h
    have hxx : ∀ (m : Bool) (ed2 : Ed), (if (List.headD cmd 0 == 120) = true then some (ed1.modifiedAt 0) else some (true, ed1)) = some (m, ed2) → PosOk M ed2 := by
      intro m ed2 hx
      split at hx
      · have e := (some_pair_inj (b := (ed1.modifiedAt 0).2) hx).2
        rw [← e]; exact (posOk_modifiedAt 0 h1).1
      · cases hx; exact h1
    split at hw
    · cases hw
    · rename_i ed2 hx
      cases hw
      exact hxx _ _ hx
    · rename_i ed2 hx
      have h2 : PosOk M ed2 := hxx _ _ hx
      split at hw
      · cases hw
      · rename_i rc b e ed3 hr
        have h3 : PosOk M ed3 := h2.reg (exRegion_ok hr).1
        split at hw
        · cases hw; exact h3
        · split at hw
          · cases hw
          · rename_i cur hcur
            split at hw
            · split at hw
              · cases hw; exact h3
              · cases hw
                exact posOk_unmodelled_if _ (h3.fr (fr_show _ _))
            · split at hw
              · cases hw
              · rename_i err ed4 hs
                have h4 : PosOk M ed4 := h3.fr (fr_lbufSaveP hs)
                cases hw
                exact h4.fr (fr_show _ _)
              · rename_i ed4 hs
                have h4 : PosOk M ed4 := h3.fr (fr_lbufSaveP hs)
                generalize hE : Ed.show ed4 _ = ed5 at hw
                have h5 : PosOk M ed5 := by rw [← hE]; exact h4.fr (fr_show _ _)
                split at hw
                · cases hw
                · rename_i cur2 hcur2
                  have hg : BufPos M cur2 := h5.curPos hcur2
                  generalize hX : (if cur2.path.isEmpty = true then _ else (cur2, ed5) : Buf × Ed) = X at hw
                  have hX1 : X.1.lb = cur2.lb ∧ X.1.row = cur2.row ∧ X.1.off = cur2.off := by
                    rw [← hX]; split <;> exact ⟨rfl, rfl, rfl⟩
                  have hX2 : PosOk M X.2 := by rw [← hX]; split <;> first | exact h5 | exact h5.to rfl rfl rfl
                  obtain ⟨c3, ed6⟩ := X
                  simp only [] at hw hX1 hX2
                  obtain ⟨x1, x2, x3⟩ := hX1
                  repeat' (split at hw)
                  all_goals
                    cases hw
                    apply posOk_setCur hX2
                    refine ⟨?_, by show RowOk M c3.row; rw [x2]; exact hg.row, by show 0 ≤ c3.off; rw [x3]; exact hg.off⟩
                    first
                      | (show LbPos (modified (savedCore c3.lb false)).2; rw [x1]
                         exact lbPos_modified (lbPos_savedCore hg.lb false))
                      | (show LbPos (unsavedMark c3.lb); rw [x1]; exact lbPos_unsavedMark hg.lb)
                      | (rw [x1]; exact hg.lb)

/-! ### `:s` -/

theorem sLoop_pos (re : RStr) (g : Bool) (b : Int) : ∀ (n : Nat) (ed : Ed) (p : Ed × Int), PosOk M ed →
    sLoop re g b n ed = some p → PosOk M p.1 := by
  intro n
  induction n with
  | zero => intro ed p hi h; cases h; exact hi
  | succ n ih =>
    intro ed p hi h
    rw [sLoop_succ] at h
    cases hm : sLoop re g b n ed with
    | none => rw [hm] at h; cases h
    | some em =>
      rw [hm] at h
      have hm' := ih _ _ hi hm
      obtain ⟨e0, sh⟩ := em
      unfold sStep at h
      simp only [] at h
      repeat' (split at h)
      all_goals (first | cases h | skip)
      · exact hm'
      · rename_i hed
        exact (posOk_edit hm' hed).1

/-! ### `:p` and the empty command -/

theorem foldl_print_fr (b : Int) (l : List Nat) (ed : Ed) :
    Fr ed (l.foldl (fun (ed : Ed) (k : Nat) => match ed.line (b + (k : Int)) with | some l => ed.print l | none => ed) ed) := by
  induction l generalizing ed with
  | nil => exact Fr.refl _
  | cons k l ih =>
    rw [List.foldl_cons]
    refine Fr.trans ?_ (ih _)
    split
    · exact fr_print _ _
    · exact Fr.refl _

theorem runCmd_print_bufs (f : Nat) (ed ed' : Ed) (loc cmd arg : Bytes) (txt : Option Bytes) (r : Int)
    (h : runCmd f ed "ec_print" loc cmd arg txt = some (r, ed')) : ed'.bufs = ed.bufs := by
  cases f with
  | zero => rw [runCmd] at h; cases h
  | succ f =>
    rw [runCmd] at h
    rw [if_neg (by decide), if_pos (by decide)] at h
    split at h
    · cases h; rfl
    · split at h
      · cases h
      · rename_i rc b e ed1 hr
        have hreg := (exRegion_ok hr).1
        split at h
        · cases h; exact hreg.1
        · cases h
          exact (foldl_print_fr b (List.range (e - b).toNat) ed1).1.trans hreg.1

theorem runCmd_print_pos (f : Nat) (ed ed' : Ed) (loc cmd arg : Bytes) (txt : Option Bytes) (r : Int) (hi : PosOk M ed)
    (h : runCmd f ed "ec_print" loc cmd arg txt = some (r, ed')) (hl : LenLe M ed'.len) : PosOk M ed' := by
  cases f with
  | zero => rw [runCmd] at h; cases h
  | succ f =>
    rw [runCmd] at h
    rw [if_neg (by decide), if_pos (by decide)] at h
    split at h
    · cases h; exact hi
    · split at h
      · cases h
      · rename_i rc b e ed1 hr
        obtain ⟨hreg, hbe, _⟩ := exRegion_ok hr
        have e1 := hi.reg hreg
        split at h
        · cases h; exact e1
        · rename_i hrc
          cases h
          have hf := foldl_print_fr b (List.range (e - b).toNat) ed1
          obtain ⟨b0, b1, b2⟩ := hbe (by simpa using hrc)
          exact (e1.fr hf).row0 rfl (rowOk_in (ed1 := ed1) hf.1 hl (by show -1 ≤ max b (e - 1); omega)
            (by show max b (e - 1) ≤ ed1.len; omega)) rfl

/-! ### `:q` -/

theorem each_pos (cmd : Bytes) (all : Bool) : ∀ (g i : Nat) (ed ed' : Ed) (r : Bool), PosOk M ed →
    runCmd.each cmd all g i ed = some (r, ed') → PosOk M ed' := by
  intro g
  induction g with
  | zero => intro i ed ed' r hi h; rw [runCmd.each.eq_1] at h; cases h; exact hi
  | succ g ih =>
    intro i ed ed' r hi h
    rw [runCmd.each.eq_2] at h
    split at h
    · cases h; exact hi
    · split at h
      · exact ih _ _ _ _ hi h
      · simp only [] at h
        split at h
        · cases h
        · rename_i ed1 hchk
          have h1 : PosOk M ed1 := by
            split at hchk
            · exact (posOk_bufsModified hi hchk).1
            · cases hchk
          cases h
          exact posOk_bufsSwitch _ h1
        · rename_i ed1 hchk
          have h1 : PosOk M ed1 := by
            split at hchk
            · exact (posOk_bufsModified hi hchk).1
            · cases hchk; exact hi
          split at h
          · split at h
            · cases h
            · split at h
              · cases h
              · rename_i hs
                have h2 := h1.fr (fr_lbufSaveP hs)
                cases h
                exact (posOk_bufsSwitch _ h2).fr (fr_show _ _)
              · rename_i hs
                have h2 := h1.fr (fr_lbufSaveP hs)
                exact ih _ _ _ _ h2 h
          · exact ih _ _ _ _ h1 h

theorem foldl_inv {α β} (P : β → Prop) (F : β → α → β) (hF : ∀ s a, P s → P (F s a)) :
    ∀ (l : List α) (s : β), P s → P (l.foldl F s) := by
  intro l
  induction l with
  | nil => intro s hs; exact hs
  | cons a l ih => intro s hs; exact ih _ (hF s a hs)

/-! ### an insertion or a replacement followed by `xrow = MIN(len - 1, end + len - n - 1)` -/

theorem posOk_edit_row {ed1 ed2 ed' : Ed} {s : Option Bytes} {b e : Int} (h : PosOk M ed1)
    (he : ed1.edit s b e = some ed2) (hb : ed'.bufs = ed2.bufs)
    (hr : ed'.xrow = min (ed2.len - 1) (e + ed2.len - ed1.len - 1)) (ho : ed'.xoff = ed2.xoff)
    (hl : LenLe M ed'.len) : PosOk M ed' := by
  obtain ⟨p, _, po, hb0, he0, hmin, hlen⟩ := posOk_edit h he
  have l1 := len_nonneg ed1
  have l2 := len_nonneg ed2
  have hn : (0 : Int) ≤ (optLines s).length := by omega
  refine p.row hb ?_ ho
  rw [hr]
  exact rowOk_in hb hl (by omega) (by omega)

/-- `lbuf_rd` at a point (`beg = end`) only adds lines -/
theorem rd_len_ge {lb lb' : Lb} {chunks : List Bytes} {fe : Bool} {b rc : Nat}
    (hr : LbufIo.rd lb chunks fe b b = some (rc, lb')) : lb.lines.length ≤ lb'.lines.length := by
  unfold LbufIo.rd at hr
  split at hr
  · cases hr
  · split at hr
    · cases hr; exact Nat.le_refl _
    · split at hr
      · cases hr
      · split at hr
        · cases hr
        · rename_i hed
          cases hr
          have := (lbuf_edit_len hed).2
          omega

/-! ### the dispatcher -/

/-- every branch of the dispatcher keeps the invariant, given that the three recursive handlers do -/
theorem runCmd_pos (f : Nat) (ed ed' : Ed) (hd : String) (loc cmd arg : Bytes) (txt : Option Bytes) (r : Int)
    (hat : hd = "ec_at" → ∀ r ed', ecAt f ed loc cmd arg = some (r, ed') → PosOk M ed')
    (hglob : hd = "ec_glob" → ∀ r ed', ecGlob f ed loc cmd arg = some (r, ed') → PosOk M ed')
    (hedit : hd = "ec_edit" → ∀ r ed', ecEdit f ed cmd arg = some (r, ed') → PosOk M ed')
    (hi : PosOk M ed)
    (h : runCmd (f + 1) ed hd loc cmd arg txt = some (r, ed')) (hl : LenLe M ed'.len) : PosOk M ed' := by
  by_cases hs : hd = "ec_substitute"
  · subst hs
    rw [runCmd_subst_eq'] at h
    split at h
    · cases h
    · rename_i ed1 hr
      have e1 := hi.reg (exRegion_ok hr).1
      have e2 : PosOk M (sPrep ed1 arg).1 := by
        refine e1.to ?_ ?_ ?_
        all_goals
          unfold sPrep
          simp only []
          repeat' split
          all_goals rfl
      repeat' (split at h)
      all_goals (first | cases h | skip)
      · exact e1
      · exact e2
      · exact e2
      · rename_i hlp
        exact sLoop_pos _ _ _ _ _ _ e2 hlp
  by_cases hq : hd = "ec_quit"
  · subst hq
    rw [runCmd_quit] at h
    split at h
    · cases h
    · rename_i rc ed1 hw
      have h1 : PosOk M ed1 := by
        split at hw
        · exact ecWrite_pos hi hw
        · cases hw; exact hi
      split at h
      · cases h; exact h1
      · split at h
        · cases h
        · rename_i he; cases h; exact each_pos _ _ _ _ _ _ _ h1 he
        · rename_i he; cases h; exact (each_pos _ _ _ _ _ _ _ h1 he).to rfl rfl rfl
  by_cases hw : hd = "ec_write"
  · subst hw
    rw [runCmd_write] at h
    exact ecWrite_pos hi h
  by_cases he : hd = "ec_edit"
  · subst he
    rw [runCmd_edit] at h
    exact hedit rfl _ _ h
  rw [runCmd] at h
  by_cases c : (hd == "ec_insert") = true
  · rw [if_pos c] at h
    simp only [] at h
    split at h
    · cases h
    · rename_i hr
      have e1 := hi.reg (exRegion_ok hr).1
      split at h
      · cases h; exact e1
      · split at h
        · cases h
        · rename_i ed2 hed
          cases h
          exact posOk_edit_row (ed2 := ed2) e1 hed rfl rfl rfl hl
  rw [if_neg c] at h; clear c
  by_cases c : (hd == "ec_print") = true
  · have : hd = "ec_print" := by simpa using c
    subst this
    have h' : runCmd (f + 1) ed "ec_print" loc cmd arg txt = some (r, ed') := by
      rw [runCmd, if_neg (by decide), if_pos (by decide)]
      rw [if_pos c] at h
      exact h
    exact runCmd_print_pos _ _ _ _ _ _ _ _ hi h' hl
  rw [if_neg c] at h; clear c
  by_cases c : (hd == "ec_null") = true
  · rw [if_pos c] at h
    split at h
    · simp only [] at h
      refine runCmd_print_pos _ { ed with xrow := if ed.xrow + 1 < ed.len then ed.xrow + 1 else ed.xrow }
        _ _ _ _ _ _ (hi.row rfl ?_ rfl) h hl
      show RowOk M (if ed.xrow + 1 < ed.len then ed.xrow + 1 else ed.xrow)
      split
      · rename_i hlt
        have := hi.xrow.1
        have hbufs : ed'.bufs = ed.bufs := runCmd_print_bufs _ { ed with xrow := if ed.xrow + 1 < ed.len then ed.xrow + 1 else ed.xrow } _ _ _ _ _ _ h
        have hlen : ed'.len = ed.len := len_of_bufs hbufs
        exact ⟨by omega, fun m hm => by
          have a := hl m hm
          omega⟩
      · exact hi.xrow
    · split at h
      · cases h
      · rename_i rc b e ed1 hr
        obtain ⟨hreg, hbe, _⟩ := exRegion_ok hr
        have e1 := hi.reg hreg
        split at h
        · cases h; exact e1
        · rename_i hrc
          cases h
          obtain ⟨b0, b1, b2⟩ := hbe (by simpa using hrc)
          exact e1.row0 rfl (rowOk_in (ed1 := ed1) rfl hl (by show -1 ≤ max b (e - 1); omega)
            (by show max b (e - 1) ≤ ed1.len; omega)) rfl
  rw [if_neg c] at h; clear c
  by_cases c : (hd == "ec_delete" || hd == "ec_yank") = true
  · rw [if_pos c] at h
    simp only [] at h
    split at h
    · cases h
    · rename_i rc b e ed1 hr
      obtain ⟨hreg, hbe, _⟩ := exRegion_ok hr
      have e1 := hi.reg hreg
      split at h
      · cases h; exact e1
      · rename_i hrc
        simp only [Bool.or_eq_true, bne_iff_ne, ne_eq, beq_iff_eq, not_or, Decidable.not_not] at hrc
        obtain ⟨b0, b1, b2⟩ := hbe hrc.1
        split at h
        · cases h; exact e1.to rfl rfl rfl
        · split at h
          · cases h
          · rename_i ed2 hed
            cases h
            have e1' : PosOk M { ed1 with regs := ed1.regs.put (regName arg) (ed1.cp b e) 1 } := e1.to rfl rfl rfl
            obtain ⟨p, _, po, _, _, _, hlen⟩ := posOk_edit e1' hed
            have hlen' : ed2.len = ed1.len - (min e ed1.len - min b ed1.len) + ((optLines none).length : Int) := hlen
            simp only [optLines, List.length_nil] at hlen'
            exact p.row rfl (rowOk_in (ed1 := ed2) rfl hl (by show -1 ≤ b; omega) (by show b ≤ ed2.len; omega)) rfl
  rw [if_neg c] at h; clear c
  by_cases c : (hd == "ec_put") = true
  · rw [if_pos c] at h
    simp only [] at h
    split at h
    · cases h; exact hi
    · split at h
      · cases h
      · rename_i hr
        have e1 := hi.reg (exRegion_ok hr).1
        split at h
        · cases h; exact e1
        · split at h
          · cases h
          · rename_i ed2 hed
            cases h
            exact posOk_edit_row (ed2 := ed2) e1 hed rfl rfl rfl hl
  rw [if_neg c] at h; clear c
  by_cases c : (hd == "ec_lnum") = true
  · rw [if_pos c] at h
    split at h
    · cases h
    · rename_i hr
      have e1 := hi.reg (exRegion_ok hr).1
      split at h
      · cases h; exact e1
      · cases h; exact e1.fr (fr_print _ _)
  rw [if_neg c] at h; clear c
  by_cases c : (hd == "ec_undo") = true
  · rw [if_pos c] at h
    split at h
    · cases h
    · rename_i rc lb hu
      cases h
      cases hlb : ed.lb with
      | none => rw [hlb] at hu; cases hu
      | some lb0 =>
        rw [hlb] at hu
        exact posOk_setLb hi (lbPos_undo (hi.lbPos hlb) hu)
  rw [if_neg c] at h; clear c
  by_cases c : (hd == "ec_redo") = true
  · rw [if_pos c] at h
    split at h
    · cases h
    · rename_i rc lb hu
      cases h
      cases hlb : ed.lb with
      | none => rw [hlb] at hu; cases hu
      | some lb0 =>
        rw [hlb] at hu
        exact posOk_setLb hi (lbPos_redo (hi.lbPos hlb) hu)
  rw [if_neg c] at h; clear c
  by_cases c : (hd == "ec_mark") = true
  · rw [if_pos c] at h
    split at h
    · cases h
    · rename_i rc b e ed1 hr
      obtain ⟨hreg, hbe, _⟩ := exRegion_ok hr
      have e1 := hi.reg hreg
      split at h
      · cases h; exact e1
      · rename_i hrc
        simp only [Bool.or_eq_true, bne_iff_ne, ne_eq, decide_eq_true_eq, not_or, Decidable.not_not, Int.not_le] at hrc
        obtain ⟨b0, b1, b2⟩ := hbe hrc.1
        split at h
        · cases h
        · rename_i lb hlb
          cases h
          have hlen : ed1.len = lb.lines.length := by unfold Ed.len; rw [hlb]
          exact posOk_setLb e1 (lbPos_setMark (e1.lbPos hlb) _ _ _ ⟨by omega, by omega⟩)
  rw [if_neg c] at h; clear c
  by_cases c : (hd == "ec_rs") = true
  · rw [if_pos c] at h
    cases h; exact hi.to rfl rfl rfl
  rw [if_neg c] at h; clear c
  by_cases c : (hd == "ec_at") = true
  · rw [if_pos c] at h
    exact hat (by simpa using c) _ _ h
  rw [if_neg c] at h; clear c
  by_cases c : (hd == "ec_glob") = true
  · rw [if_pos c] at h
    exact hglob (by simpa using c) _ _ h
  rw [if_neg c] at h; clear c
  by_cases c : (hd == "ec_edit") = true
  · exact absurd (by simpa using c) he
  rw [if_neg c] at h; clear c
  by_cases c : (hd == "ec_substitute") = true
  · exact absurd (by simpa using c) hs
  rw [if_neg c] at h; clear c
  by_cases c : (hd == "ec_exec") = true
  · rw [if_pos c] at h
    simp only [] at h
    split at h
    · cases h
    · rename_i ed1 hg
      cases h
      exact (posOk_guard hi hg).1
    · rename_i ed1 hg
      have e0 : PosOk M ed1 := (posOk_guard hi hg).1
      split at h
      · cases h
      · rename_i ed2 hp
        cases h
        exact e0.fr (fr_pathExpand hp)
      · rename_i ecmd ed2 hp
        have e1 : PosOk M ed2 := e0.fr (fr_pathExpand hp)
        split at h
        · cases h; exact e1.to rfl rfl rfl
        · split at h
          · cases h
          · rename_i hr
            have e2 := e1.reg (exRegion_ok hr).1
            repeat' (split at h)
            all_goals (first | cases h | skip)
            all_goals (first | exact e2 | exact e2.to rfl rfl rfl | skip)
            · rename_i hm
              cases hx : Ed.edit _ _ _ _ with
              | none => rw [hx] at h; cases h
              | some edx =>
                rw [hx] at h
                cases h
                exact (posOk_edit e2 hx).1
  rw [if_neg c] at h; clear c
  by_cases c : (hd == "ec_read") = true
  · rw [if_pos c] at h
    simp only [] at h
    split at h
    · cases h
    · rename_i path ed1 hp
      have f0 : Fr ed ed1 := by
        split at hp
        · exact fr_pathExpand hp
        · cases hp; exact Fr.refl _
      have e0 : PosOk M ed1 := hi.fr f0
      split at h
      · cases h
      · rename_i rc b e edr hr
        obtain ⟨hreg, hbe, _⟩ := exRegion_ok hr
        have e1 := e0.reg hreg
        have hn : ed.len = edr.len := by rw [hreg.len, f0.len]
        have lr := len_nonneg edr
        split at h
        · cases h; exact e1
        · rename_i hrc
          simp only [Bool.or_eq_true, bne_iff_ne, ne_eq, not_or, Decidable.not_not] at hrc
          obtain ⟨b0, b1, b2⟩ := hbe hrc.1
          split at h
          · split at h
            · cases h; exact e1
            · split at h
              · cases h; exact e1.to rfl rfl rfl
              · split at h
                · cases h
                · rename_i obuf _ ed3 hm
                  cases h
                  have key : PosOk M ed3 ∧ ed3.xoff = edr.xoff ∧ edr.len ≤ ed3.len := by
                    split at hm
                    · obtain ⟨p, _, po, _, _, _, hlen⟩ := posOk_edit e1 hm
                      exact ⟨p, po, by omega⟩
                    · cases hm; exact ⟨e1, rfl, Int.le_refl _⟩
                  obtain ⟨p, po, hge⟩ := key
                  have l3 := len_nonneg ed3
                  refine (p.row (ed' := { ed3 with xrow := e + ed3.len - ed.len - 1 }) rfl ?_ rfl).fr (fr_show _ _)
                  exact rowOk_in (ed1 := ed3) rfl hl (by show -1 ≤ e + ed3.len - ed.len - 1; omega)
                    (by show e + ed3.len - ed.len - 1 ≤ ed3.len; omega)
          · split at h
            · cases h; exact e1.fr (fr_show _ _)
            · split at h
              · cases h
              · rename_i lb1 hrd
                cases h
                cases hlb : edr.lb with
                | none => rw [hlb] at hrd; cases hrd
                | some lb0 =>
                  rw [hlb] at hrd
                  simp only [Option.bind_some] at hrd
                  have p : PosOk M (edr.setLb lb1) := posOk_setLb e1 (lbPos_rd (e1.lbPos hlb) _ _ _ _ _ hrd)
                  have hge : edr.len ≤ (edr.setLb lb1).len := by
                    rw [setLb_len hlb]
                    have : edr.len = lb0.lines.length := by unfold Ed.len; rw [hlb]
                    rw [this]
                    exact_mod_cast rd_len_ge hrd
                  have l3 := len_nonneg (edr.setLb lb1)
                  refine (p.row (ed' := { edr.setLb lb1 with xrow := e + (edr.setLb lb1).len - ed.len - 1 }) rfl ?_ rfl).fr
                    (fr_show _ _)
                  exact rowOk_in (ed1 := edr.setLb lb1) rfl hl (by show -1 ≤ e + (edr.setLb lb1).len - ed.len - 1; omega)
                    (by show e + (edr.setLb lb1).len - ed.len - 1 ≤ (edr.setLb lb1).len; omega)
  rw [if_neg c] at h; clear c
  by_cases c : (hd == "ec_write") = true
  · exact absurd (by simpa using c) hw
  rw [if_neg c] at h; clear c
  by_cases c : (hd == "ec_quit") = true
  · exact absurd (by simpa using c) hq
  rw [if_neg c] at h; clear c
  by_cases c : (hd == "ec_buffer") = true
  · rw [if_pos c] at h
    split at h
    · simp only [] at h
      cases h
      refine foldl_inv (fun st : Bool × Ed => PosOk M st.2) _ ?_ _ _ hi
      intro st i hst
      obtain ⟨go, ed0⟩ := st
      simp only [] at hst ⊢
      split
      · exact hst
      · split
        · exact hst
        · have hm := (posOk_modifiedAt i hst).1
          generalize ed0.modifiedAt i = p at hm
          obtain ⟨m, ed1⟩ := p
          exact hm.fr (fr_print _ _)
    · split at h
      · simp only [] at h
        have e1 := posOk_bufsShift hi
        split at h
        · cases h
          exact ⟨e1.cap, e1.xrow, e1.xoff, tabPos_set e1.tab (bufPos_fresh e1 _ _)⟩
        · cases h; exact e1
      · split at h
        · simp only [] at h
          cases h
          exact ⟨hi.cap, hi.xrow, hi.xoff, renumber_tabPos ed.bufs [] 0 (by intro b hb; cases hb) hi.tab⟩
        · simp only [] at h
          repeat' (split at h)
          all_goals (try cases h)
          all_goals first
            | exact hi
            | exact hi.fr (fr_show _ _)
            | exact (posOk_guard hi (by assumption)).1
            | exact posOk_bufsSwitch _ (posOk_guard hi (by assumption)).1
  rw [if_neg c] at h; clear c
  by_cases c : (hd == "ec_set") = true
  · rw [if_pos c] at h
    simp only [] at h
    repeat' (split at h)
    all_goals (first | cases h | skip)
    all_goals (first | exact hi | exact hi.fr (fr_setOpt _ _ _) | exact hi.fr (fr_show _ _))
  rw [if_neg c] at h; clear c
  by_cases c : (hd == "ec_echo") = true
  · rw [if_pos c] at h
    cases h; exact hi.fr (fr_print _ _)
  rw [if_neg c] at h; clear c
  cases h; exact hi.to rfl rfl rfl

end Neatvi.Lemmas.C05d
