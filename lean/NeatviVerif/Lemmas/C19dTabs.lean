import NeatviVerif.Lemmas.C19dCells
import NeatviVerif.Lemmas.C19cEmit
import NeatviVerif.Lemmas.Ren
/-!
# C19d lemmas, part 4: lines of printable ASCII, tabs and newlines laid out left to right

The tab-expanded line `tabExpand s col` and how the left-to-right layout of `s` tiles it.
-/
namespace Neatvi.Lemmas.C19d
open Neatvi Neatvi.Uc Neatvi.Ren Neatvi.Render Neatvi.Lemmas.C19c

/-- the bytes handled here: the tab, printable ASCII and the newline -/
def tabByte (b : Nat) : Bool := b == 9 || lineByte b

/-- every byte of the line is a tab, printable ASCII or the newline -/
def TabBytes (s : Bytes) : Prop := ∀ b ∈ s, tabByte b = true

/-- what a cell of the byte `b` shows: a blank for the tab and the newline -/
def vis (b : Nat) : Nat := if b = 9 ∨ b = 10 then 32 else b

/-- the number of cells of byte `b` at column `col` -/
def cwb (b col : Nat) : Nat := if b = 9 then 8 - col % 8 else 1

/-- the line with every tab expanded to the next multiple of 8 (and the newline shown as a blank),
    starting at column `col` -/
def tabExpand : Bytes → Nat → Bytes
  | [], _ => []
  | b :: r, col =>
    if b = 9 then List.replicate (8 - col % 8) 32 ++ tabExpand r (col + (8 - col % 8))
    else disp b :: tabExpand r (col + 1)

theorem tabExpand_cons (b : Nat) (r : Bytes) (col : Nat) :
    tabExpand (b :: r) col = List.replicate (cwb b col) (vis b) ++ tabExpand r (col + cwb b col) := by
  unfold cwb vis
  rw [tabExpand]
  by_cases h9 : b = 9
  · rw [if_pos h9, if_pos h9, if_pos (Or.inl h9)]
  · rw [if_neg h9, if_neg h9]
    unfold disp
    by_cases h10 : b = 10
    · rw [if_pos h10, if_pos (Or.inr h10)]; rfl
    · rw [if_neg h10, if_neg (by omega)]; rfl

theorem tabByte_cases {b : Nat} (h : tabByte b = true) : b = 9 ∨ lineByte b = true := by
  unfold tabByte at h
  simpa using h

theorem tabByte_lt {b : Nat} (h : tabByte b = true) : 0 < b ∧ b < 128 := by
  rcases tabByte_cases h with h | h
  · omega
  · exact lineByte_lt h

theorem cwb_pos (b col : Nat) : 1 ≤ cwb b col := by
  unfold cwb; split <;> omega

private theorem tabFacts : renPlaceholder [9] = none ∧ ucIsPrint 9 = false ∧ ucR2L 9 = false := by decide +kernel

theorem tabByte_facts {b : Nat} (h : tabByte b = true) :
    renPlaceholder [b] = none ∧ ucR2L b = false ∧ ucIsPrint b = (b != 10 && b != 9) ∧ ucLen b = 1 := by
  rcases tabByte_cases h with h | h
  · subst h
    exact ⟨tabFacts.1, tabFacts.2.2, tabFacts.2.1, by decide⟩
  · have hf := lineByte_facts h
    refine ⟨hf.1, hf.2.2.2.1, ?_, hf.2.2.1⟩
    rw [hf.2.2.2.2.1]
    have : (b != 9) = true := by simpa using hf.2.2.2.2.2
    rw [this, Bool.and_true]

theorem renCwid_tab (c : Bytes) (h : tabByte (Bytes.hd c) = true) (col : Nat) :
    renCwid c col = cwb (Bytes.hd c) col := by
  unfold cwb
  rcases tabByte_cases h with h9 | hl
  · unfold renCwid
    rw [if_pos (by simpa using h9), if_pos h9]
    have : col &&& 7 = col % 8 := Nat.and_two_pow_sub_one_eq_mod col 3
    rw [this]
  · rw [renCwid_line c hl col, if_neg (lineByte_facts hl).2.2.2.2.2]

/-! ### the characters -/

theorem chrs_cons_low (b : Nat) (r : Bytes) (h : ∀ x ∈ b :: r, 0 < x ∧ x < 128) :
    chrs (b :: r) = (b :: r) :: chrs r := by
  rw [chrs_low (b :: r) h, chrs_low r (fun x hx => h x (List.mem_cons_of_mem _ hx)), List.length_cons,
    List.range_succ_eq_map, List.map_cons, List.map_map]
  rfl

/-- column of character `i` of `s` laid out from `col` -/
def P (s : Bytes) (col i : Nat) : Nat := (layout (chrs s) col).getD i 0
/-- its width -/
def W (s : Bytes) (col i : Nat) : Nat := renCwid ((chrs s).getD i []) (P s col i)

theorem P_zero (b : Nat) (r : Bytes) (h : TabBytes (b :: r)) (col : Nat) : P (b :: r) col 0 = col := by
  unfold P
  rw [chrs_cons_low b r (fun x hx => tabByte_lt (h x hx))]
  rfl

theorem P_succ (b : Nat) (r : Bytes) (h : TabBytes (b :: r)) (col i : Nat) :
    P (b :: r) col (i + 1) = P r (col + cwb b col) i := by
  unfold P
  rw [chrs_cons_low b r (fun x hx => tabByte_lt (h x hx)), layout, List.getD_cons_succ,
    renCwid_tab (b :: r) (h b (List.mem_cons_self)) col]
  rfl

theorem W_zero (b : Nat) (r : Bytes) (h : TabBytes (b :: r)) (col : Nat) : W (b :: r) col 0 = cwb b col := by
  unfold W
  rw [P_zero b r h col, chrs_cons_low b r (fun x hx => tabByte_lt (h x hx))]
  exact renCwid_tab (b :: r) (h b (List.mem_cons_self)) col

theorem W_succ (b : Nat) (r : Bytes) (h : TabBytes (b :: r)) (col i : Nat) :
    W (b :: r) col (i + 1) = W r (col + cwb b col) i := by
  unfold W
  rw [P_succ b r h col i, chrs_cons_low b r (fun x hx => tabByte_lt (h x hx)), List.getD_cons_succ]

/-- the left-to-right layout of the line tiles the tab-expanded line: every character lies inside,
    is one cell wide unless it is a tab, the characters follow each other, and every cell of the
    expanded line belongs to a character and shows its byte -/
theorem tab_layout (s : Bytes) (hs : TabBytes s) : ∀ col,
    (∀ i, i < s.length → col ≤ P s col i ∧ P s col i + W s col i ≤ col + (tabExpand s col).length ∧
      1 ≤ W s col i ∧ (s.getD i 0 ≠ 9 → W s col i = 1)) ∧
    (∀ i j, i < j → j < s.length → P s col i + W s col i ≤ P s col j) ∧
    (∀ x, col ≤ x → x < col + (tabExpand s col).length →
      ∃ i, i < s.length ∧ P s col i ≤ x ∧ x < P s col i + W s col i ∧
        (tabExpand s col)[x - col]? = some (vis (s.getD i 0))) := by
  induction s with
  | nil =>
    intro col
    refine ⟨fun i hi => absurd hi (Nat.not_lt_zero _), fun i j _ hj => absurd hj (Nat.not_lt_zero _), ?_⟩
    intro x h1 h2
    simp [tabExpand] at h2
    omega
  | cons b r ih =>
    intro col
    have hr : TabBytes r := fun x hx => hs x (List.mem_cons_of_mem _ hx)
    obtain ⟨ih1, ih2, ih3⟩ := ih hr (col + cwb b col)
    have hcw := cwb_pos b col
    have hlen : (tabExpand (b :: r) col).length = cwb b col + (tabExpand r (col + cwb b col)).length := by
      rw [tabExpand_cons, List.length_append, List.length_replicate]
    refine ⟨?_, ?_, ?_⟩
    · intro i hi
      cases i with
      | zero =>
        rw [P_zero b r hs, W_zero b r hs, hlen]
        refine ⟨Nat.le_refl _, by omega, hcw, ?_⟩
        intro h9
        rw [List.getD_cons_zero] at h9
        unfold cwb; rw [if_neg h9]
      | succ i =>
        rw [P_succ b r hs, W_succ b r hs, hlen, List.getD_cons_succ]
        obtain ⟨a1, a2, a3, a4⟩ := ih1 i (by simpa using hi)
        exact ⟨by omega, by omega, a3, a4⟩
    · intro i j hij hj
      cases j with
      | zero => omega
      | succ j =>
        rw [P_succ b r hs col j]
        cases i with
        | zero =>
          rw [P_zero b r hs, W_zero b r hs]
          exact (ih1 j (by simpa using hj)).1
        | succ i =>
          rw [P_succ b r hs, W_succ b r hs]
          exact ih2 i j (by omega) (by simpa using hj)
    · intro x h1 h2
      rw [hlen] at h2
      by_cases hx : x < col + cwb b col
      · refine ⟨0, by simp, ?_, ?_, ?_⟩
        · rw [P_zero b r hs]; exact h1
        · rw [P_zero b r hs, W_zero b r hs]; exact hx
        · rw [tabExpand_cons, List.getElem?_append_left (by rw [List.length_replicate]; omega),
            List.getElem?_replicate, if_pos (by omega), List.getD_cons_zero]
      · obtain ⟨i, hi, a1, a2, a3⟩ := ih3 x (by omega) (by omega)
        refine ⟨i + 1, by simpa using hi, ?_, ?_, ?_⟩
        · rw [P_succ b r hs]; exact a1
        · rw [P_succ b r hs, W_succ b r hs]; exact a2
        · rw [tabExpand_cons, List.getElem?_append_right (by rw [List.length_replicate]; omega),
            List.length_replicate, List.getD_cons_succ, ← a3]
          congr 1
          omega

/-- the entries of the left-to-right table -/
theorem fast_getD (s : Bytes) (hs : TabBytes s) (i : Nat) (hi : i < s.length) :
    (renPositionFast s).getD i 0 = P s 0 i := by
  have hlow : ∀ b ∈ s, 0 < b ∧ b < 128 := fun b hb => tabByte_lt (hs b hb)
  unfold renPositionFast P
  simp only []
  rw [List.getD_eq_getElem?_getD, List.getD_eq_getElem?_getD,
    List.getElem?_append_left (by rw [layout_length, chrs_low_length s hlow]; exact hi)]

/-! ### translation -/

theorem translate_tab (shape : Bool) (s : Bytes) (hs : TabBytes s) (k : Nat) (hk : k < s.length) :
    translate shape (chrs s) ((chrs s).map (fun c => (ucCode c).getD 0)) k = none := by
  have hlow : ∀ b ∈ s, 0 < b ∧ b < 128 := fun b hb => tabByte_lt (hs b hb)
  have hb : tabByte (s.getD k 0) = true := hs _ (getD_mem hk)
  have hf := tabByte_facts hb
  unfold translate
  rw [chrs_low_getD s hlow k hk, renPlaceholder_low _ (by rw [hd_drop_getD]; exact (tabByte_lt hb).2), hd_drop_getD,
    hf.1]
  simp only []
  cases shape with
  | false => rfl
  | true =>
    simp only [if_true]
    have hcode : ((chrs s).map (fun c => (ucCode c).getD 0)).getD k 0 = s.getD k 0 := by
      rw [List.getD_eq_getElem?_getD, List.getElem?_map,
        List.getElem?_eq_getElem (by rw [chrs_low_length s hlow]; exact hk)]
      simp only [Option.map_some, Option.getD_some]
      have : (chrs s)[k]'(by rw [chrs_low_length s hlow]; exact hk) = s.drop k := by
        have := chrs_low_getD s hlow k hk
        rw [List.getD_eq_getElem?_getD, List.getElem?_eq_getElem (by rw [chrs_low_length s hlow]; exact hk)] at this
        exact this
      rw [this, ucCode_lt (by rw [hd_drop_getD]; exact (tabByte_lt hb).2), hd_drop_getD]
      rfl
    unfold ucShapeAt
    simp only [hcode, hf.2.1]
    simp

/-- the text of character `i` of such a line over `n` columns: `n` times what its cells show,
    provided a character that is not a tab stands for one column -/
theorem charText_tab (shape : Bool) (s : Bytes) (hs : TabBytes s) (i n : Nat) (hi : i < s.length)
    (hn : s.getD i 0 ≠ 9 → n = 1) :
    charText shape (chrs s) ((chrs s).map (fun c => (ucCode c).getD 0)) i n = List.replicate n (vis (s.getD i 0)) := by
  have hlow : ∀ b ∈ s, 0 < b ∧ b < 128 := fun b hb => tabByte_lt (hs b hb)
  have hb : tabByte (s.getD i 0) = true := hs _ (getD_mem hi)
  have hf := tabByte_facts hb
  unfold charText
  rw [translate_tab shape s hs i hi]
  simp only []
  rw [chrs_low_getD s hlow i hi, hd_drop_getD, hf.2.2.1, hf.2.2.2]
  unfold vis
  by_cases h9 : s.getD i 0 = 9
  · rw [h9]; simp
  · by_cases h10 : s.getD i 0 = 10
    · rw [h10]; simp
    · have hp : (s.getD i 0 != 10 && s.getD i 0 != 9) = true := by
        rw [Bool.and_eq_true]; exact ⟨by simpa using h10, by simpa using h9⟩
      rw [hp, if_pos rfl, if_neg (by omega), hn h9]
      show List.take 1 (s.drop i) = [s.getD i 0]
      rw [List.drop_eq_getElem_cons hi, List.take_succ_cons, List.take_zero, List.getD_eq_getElem?_getD,
        List.getElem?_eq_getElem hi]
      rfl

/-- what a column of the table shows for such a line -/
def cellByte (s : Bytes) : Option Nat → Nat
  | none => 32
  | some i => vis (s.getD i 0)

/-- the text of runs in which every character's text is its cells' bytes is the cells' bytes -/
theorem rowText_cells (shape : Bool) (chs : List Bytes) (codes : List Nat) (s : Bytes)
    (rs : List (Option Nat × Nat))
    (h : ∀ i n, (some i, n) ∈ rs → charText shape chs codes i n = List.replicate n (vis (s.getD i 0))) :
    rowText shape chs codes rs = (expand rs).map (cellByte s) := by
  induction rs with
  | nil => rfl
  | cons p t ih =>
    rw [rowText_cons, expand_cons, List.map_append, ih (fun i n hm => h i n (List.mem_cons_of_mem _ hm))]
    congr 1
    obtain ⟨a, n⟩ := p
    cases a with
    | none => simp [runText, cellByte]
    | some i =>
      show charText shape chs codes i n = _
      rw [h i n (List.mem_cons_self)]
      simp [cellByte]

end Neatvi.Lemmas.C19d
