import NeatviVerif.Lemmas.C13bF
import NeatviVerif.Props.C14
/-!
# C13b, part H: the per-line scan of `:s` under the whole-line reading

`ec_substitute` cuts the line: after each match it goes on with the *rest* of the line and tells the
matcher only "not at the beginning" (`Props.C14.scan` over `rsFind re`).  The whole-line reading keeps
the line and moves an offset: `scanW` over `wholeFind re`, the matcher that sees the whole line and
reports the first match at or after the offset, in absolute offsets.

`scan_eq_whole` / `substLine_whole`: for a pattern without word-boundary tests the two scans cut the
same pieces and produce the same line.
-/
namespace Neatvi.Lemmas.C13b
open Neatvi Neatvi.Regex Neatvi.Rset Neatvi.Ex Neatvi.Props.C14

/-- a matcher that sees the whole line: `find line pos` is the first match that starts at byte `pos`
    or later, as (start, end, group offsets), all absolute -/
abbrev WMatcher := Bytes → Nat → Option (Option (Nat × Nat × List Int))

/-- `rstr_find` as the whole-line reading of `ec_substitute` would call it: on the whole line, from
    byte `pos`.  A start or end offset before `pos` (an unset group) is read as `pos`. -/
def wholeFind (re : RStr) : WMatcher := fun line pos =>
  match rstrFindFrom re line pos 16 0 ND NG with
  | none => none
  | some (res, offs, _) =>
    if res < 0 then some none
    else some (some (max pos (offs.getD 0 0).toNat, max pos (offs.getD 1 0).toNat, offs))

/-- a match on the rest of the line from `pos`, in absolute offsets -/
def liftM (pos : Nat) (x : Nat × Nat × List Int) : Nat × Nat × List Int :=
  (x.1 + pos, x.2.1 + pos, x.2.2.map (shiftI pos))

theorem shift_getD_max (k : Nat) (offs : List Int) (i : Nat) :
    max k ((offs.map (shiftI k)).getD i 0).toNat = (offs.getD i 0).toNat + k := by
  rw [List.getD_eq_getElem?_getD, List.getD_eq_getElem?_getD, List.getElem?_map]
  cases offs[i]? with
  | none => simp
  | some v =>
    simp only [Option.map_some, Option.getD_some]
    unfold shiftI
    split <;> omega

theorem map_shiftI_zero (offs : List Int) : offs.map (shiftI 0) = offs := shiftM_zero offs

/-- **the matcher of `ec_substitute` is the whole-line matcher**, read in absolute offsets -/
theorem wholeFind_eq (re : RStr) (line : Bytes) (pos : Nat) (hpos : pos ≤ line.length)
    (hcf : ReCF re) (hbeg : ReNoBeg re ∨ LineNl line) :
    wholeFind re line pos = (rsFind re (line.drop pos) (pos != 0)).map (·.map (liftM pos)) := by
  unfold wholeFind rsFind
  by_cases h0 : pos = 0
  · subst h0
    rw [rstrFindFrom_zero]
    simp only [List.drop_zero, bne_self_eq_false, Bool.false_eq_true, if_false]
    cases rstrFind re line 16 0 ND NG with
    | none => rfl
    | some x =>
      obtain ⟨res, offs, c⟩ := x
      simp only []
      split
      · rfl
      · simp only [Option.map_some, liftM, map_shiftI_zero, Nat.add_zero, Nat.zero_max]
  · have hne : (pos != 0) = true := by simpa using h0
    rw [hne, if_pos rfl]
    have hb : ReBegOk re line pos := by
      rcases hbeg with hbeg | hbeg
      · exact Or.inl hbeg
      · by_cases hlt : pos < line.length
        · exact Or.inr (Or.inl (hbeg (pos - 1) (by omega)))
        · exact Or.inr (Or.inr (by omega))
    rw [rstrFind_shift re line pos 16 ND NG hpos (by omega) hcf hb]
    cases rstrFind re (line.drop pos) 16 RE_NOTBOL ND NG with
    | none => rfl
    | some x =>
      obtain ⟨res, offs, c⟩ := x
      simp only [Option.map_some, shiftF]
      split
      · rfl
      · simp only [Option.map_some, liftM, shift_getD_max]

/-! ### the expansion of the replacement does not depend on the reading -/

theorem grpSo_shift (k : Nat) (offs : List Int) (d : Nat) :
    grpSo (offs.map (shiftI k)) d = shiftI k (grpSo offs d) := shiftM_getD k offs _

theorem grpEo_shift (k : Nat) (offs : List Int) (d : Nat) :
    grpEo (offs.map (shiftI k)) d = shiftI k (grpEo offs d) := shiftM_getD k offs _

theorem grpOk_shift (line : Bytes) (k : Nat) (hk : k ≤ line.length) (offs : List Int) (d : Nat) :
    GrpOk (line.drop k) offs d ↔ GrpOk line (offs.map (shiftI k)) d := by
  unfold GrpOk
  rw [grpSo_shift, grpEo_shift, List.length_drop]
  generalize grpSo offs d = so
  generalize grpEo offs d = eo
  unfold shiftI
  split <;> split <;> omega

theorem grpText_shift (line : Bytes) (k : Nat) (_hk : k ≤ line.length) (offs : List Int) (d : Nat)
    (h : GrpOk (line.drop k) offs d) :
    grpText (line.drop k) offs d = grpText line (offs.map (shiftI k)) d := by
  unfold grpText
  rw [grpSo_shift, grpEo_shift]
  unfold GrpOk at h
  rw [List.length_drop] at h
  generalize grpSo offs d = so at h ⊢
  generalize grpEo offs d = eo at h ⊢
  by_cases he : so = eo
  · subst he
    simp
  · have h1 : 0 ≤ so ∧ so ≤ eo := by omega
    have e1 : shiftI k so = so + k := by unfold shiftI; rw [if_pos h1.1]
    have e2 : shiftI k eo = eo + k := by unfold shiftI; rw [if_pos (by omega)]
    rw [e1, e2, drop_drop', show (so + (k : Int)).toNat = so.toNat + k by omega,
      show eo + (k : Int) - (so + k) = eo - so by omega]

theorem expandRef_shift (line : Bytes) (k : Nat) (hk : k ≤ line.length) (offs : List Int) :
    ∀ (n : Nat) (rep : Bytes), rep.length ≤ n → (∀ d ∈ refs rep, GrpOk (line.drop k) offs d) →
      expandRef rep (line.drop k) offs = expandRef rep line (offs.map (shiftI k)) := by
  intro n
  induction n with
  | zero =>
    intro rep hl _
    have : rep = [] := List.eq_nil_of_length_eq_zero (by omega)
    subst this; rfl
  | succ n ih =>
    intro rep hl h
    cases rep with
    | nil => rfl
    | cons c r =>
      by_cases hc : c = 92
      · subst hc
        cases r with
        | nil => rw [expandRef_lone, expandRef_lone]
        | cons d r' =>
          have hl' : r'.length ≤ n := by simp at hl; omega
          by_cases hd : isDigit d
          · rw [expandRef_group _ _ _ _ hd, expandRef_group _ _ _ _ hd,
              grpText_shift line k hk offs _ (h _ (by rw [refs_group _ _ hd]; exact List.mem_cons_self)),
              ih r' hl' (fun d' hd' => h d' (by rw [refs_group _ _ hd]; exact List.mem_cons_of_mem _ hd'))]
          · rw [expandRef_esc _ _ _ _ hd, expandRef_esc _ _ _ _ hd,
              ih r' hl' (fun d' hd' => h d' (by rw [refs_esc _ _ hd]; exact hd'))]
      · rw [expandRef_other _ _ _ _ hc, expandRef_other _ _ _ _ hc,
          ih r (by simp at hl; omega) (fun d' hd' => h d' (by rw [refs_other _ _ hc]; exact hd'))]

theorem expandOpt_shift (rep line : Bytes) (k : Nat) (hk : k ≤ line.length) (offs : List Int) :
    expandOpt rep (line.drop k) offs = expandOpt rep line (offs.map (shiftI k)) := by
  unfold expandOpt
  by_cases h : ∀ d ∈ refs rep, GrpOk (line.drop k) offs d
  · have h' : ∀ d ∈ refs rep, GrpOk line (offs.map (shiftI k)) d :=
      fun d hd => (grpOk_shift line k hk offs d).mp (h d hd)
    rw [if_pos h, if_pos h', expandRef_shift line k hk offs _ rep (Nat.le_refl _) h]
  · have h' : ¬ ∀ d ∈ refs rep, GrpOk line (offs.map (shiftI k)) d :=
      fun hh => h (fun d hd => (grpOk_shift line k hk offs d).mpr (hh d hd))
    rw [if_neg h, if_neg h']

/-! ### the whole-line scan -/

/-- the reference scan of the whole-line reading: the line stays, the offset `pos` moves; the pieces
    are cut at the absolute offsets the matcher reports.  The first argument is a budget of rounds;
    every round advances `pos`, so `line.length - pos + 1` rounds always suffice (`scan_eq_whole`). -/
def scanW (find : WMatcher) (rep : Bytes) (g : Bool) (line : Bytes) : Nat → Nat → Option (List Piece × Bytes)
  | 0, _ => none
  | f + 1, pos =>
    match find line pos with
    | none => none
    | some none => some ([], line.drop pos)
    | some (some (so, eo, offs)) =>
      match expandOpt rep line offs with
      | none => none
      | some x =>
        let rest := line.drop eo
        -- after an empty match one character is copied, at most what is left of the line
        let l := if eo ≤ so then min (Uc.ucLen (rest.headD 0)) rest.length else 0
        let p : Piece := ⟨(line.take so).drop pos, (line.take eo).drop so, x, rest.take l⟩
        let rest' := line.drop (eo + l)
        if rest' = [] ∨ rest'.headD 0 = 10 ∨ g = false then some ([p], rest')
        else if rest'.length < (line.drop pos).length then
          match scanW find rep g line f (eo + l) with
          | none => none
          | some (ps, r) => some (p :: ps, r)
        else none

/-- reference for `substLine` under the whole-line reading -/
def substRefW (find : WMatcher) (rep : Bytes) (g : Bool) (line : Bytes) : Option (Option Bytes) :=
  match scanW find rep g line (line.length + 1) 0 with
  | none => none
  | some ([], _) => some none
  | some (ps, rest) => some (some (outOf ps rest))

/-- **scan_eq_whole**: the scan of `ec_substitute` on the rest of the line from `pos` cuts the pieces
    the whole-line scan cuts from `pos` -/
theorem scan_eq_whole (re : RStr) (rep : Bytes) (g : Bool) (line : Bytes)
    (hcf : ReCF re) (hbeg : ReNoBeg re ∨ LineNl line) :
    ∀ (n pos : Nat), line.length - pos < n → pos ≤ line.length →
      scan (rsFind re) rep g (line.drop pos) (pos != 0) = scanW (wholeFind re) rep g line n pos := by
  intro n
  induction n with
  | zero => intro pos h; omega
  | succ n ih =>
    intro pos hn hpos
    rw [scan, scanW, wholeFind_eq re line pos hpos hcf hbeg]
    cases rsFind re (line.drop pos) (pos != 0) with
    | none => rfl
    | some y =>
      cases y with
      | none => rfl
      | some m =>
        obtain ⟨so, eo, offs⟩ := m
        simp only [Option.map_some, liftM]
        rw [← expandOpt_shift rep line pos hpos offs]
        cases expandOpt rep (line.drop pos) offs with
        | none => rfl
        | some x =>
          simp only []
          have e1 : (line.drop pos).drop eo = line.drop (eo + pos) := drop_drop' line pos eo
          have e2 : ∀ l, ((line.drop pos).drop eo).drop l = line.drop (eo + pos + l) := by
            intro l; rw [e1, List.drop_drop]
          have e3 : (line.drop pos).take so = (line.take (so + pos)).drop pos := by
            rw [List.take_drop, Nat.add_comm]
          have e4 : ((line.drop pos).take eo).drop so = (line.take (eo + pos)).drop (so + pos) := by
            rw [List.take_drop, List.drop_drop, Nat.add_comm pos eo, Nat.add_comm pos so]
          have e5 : (eo + pos ≤ so + pos) = (eo ≤ so) := by
            apply propext; omega
          simp only [e2, e3, e4, e5]
          rw [e1]
          generalize hl : (if eo ≤ so then
              min (Uc.ucLen ((line.drop (eo + pos)).headD 0)) (line.drop (eo + pos)).length else 0) = l
          split
          · rfl
          · split
            · rename_i h2 hlt
              have hnil : line.drop (eo + pos + l) ≠ [] := fun e => h2 (Or.inl e)
              have hlen : (line.drop (eo + pos + l)).length ≠ 0 :=
                fun e => hnil (List.eq_nil_of_length_eq_zero e)
              simp only [List.length_drop] at hlt hlen
              have hp' : pos < eo + pos + l := by omega
              have hle : eo + pos + l ≤ line.length := by omega
              have := ih (eo + pos + l) (by omega) hle
              have hne : (eo + pos + l != 0) = true := by simp; omega
              rw [hne] at this
              rw [this]
              rfl
            · rfl

/-- **substLine_whole**: on a line without NUL bytes, the per-line loop of `ec_substitute` with a
    pattern without word-boundary tests is the whole-line reference scan -/
theorem substLine_whole (re : RStr) (rep : Bytes) (g : Bool) (line : Bytes) (h0 : ∀ b ∈ line, b ≠ 0)
    (hcf : ReCF re) (hbeg : ReNoBeg re ∨ LineNl line) :
    substLine re rep g line = substRefW (wholeFind re) rep g line := by
  rw [subst_scan_spec re rep g line h0]
  unfold Props.C14.substRef substRefW
  have := scan_eq_whole re rep g line hcf hbeg (line.length + 1) 0 (by omega) (by omega)
  simp only [List.drop_zero, bne_self_eq_false] at this
  rw [this]
  rfl

end Neatvi.Lemmas.C13b
