import NeatviVerif.Lemmas.C09cViOps
/-!
# C09c, part 10: one iteration of `vi()` on related states
-/
namespace Neatvi.Lemmas.C09c
open Neatvi Neatvi.Uc Neatvi.Lbuf Neatvi.Ex Neatvi.Vi Neatvi.Mot
open Neatvi.Lemmas.C09 (exCommandV_eq exSet exTail)

theorem exSet_rel (ln : Bytes) {s t : VS} (h : Sim false s t) : Sim false (exSet ln s) (exSet ln t) := by
  unfold exSet
  cases setOf ln with
  | none => exact h
  | some p =>
    obtain ⟨v, val⟩ := p
    dsimp only
    split
    · exact { h with xai := rfl }
    · split
      · exact h
      · exact { h with unmodelled := rfl }

theorem exTail_rel (ln : Bytes) {E : Int → Int → Prop} {s t : VS} (h : Sim false s t) : RR false E (exTail ln s) (exTail ln t) := by
  unfold exTail
  have h0 : EdRel false { s.ed with out := [], msg := [], input := [], xvis := true }
      { t.ed with out := [], msg := [], input := [], xvis := true } :=
    { h.ed with out := rfl, msg := rfl, input := rfl, xvis := rfl }
  rrel_cases exCommand_rel_all 64 h0 ln with rc a b hab
  · exact RR.trap
  · simp only []
    exact RR.ok _ _ _ { h with ed := hab, unmodelled := by show (s.unmodelled || a.unmodelled) = (t.unmodelled || b.unmodelled); rw [h.unmodelled, hab.unmodelled] }

theorem rel2_exCommandV {E : Int → Int → Prop} (ln : Bytes) : Rel2 false E (exCommandV ln) (exCommandV ln) := by
  intro s t h
  rw [exCommandV_eq, exCommandV_eq]
  split
  · exact RR.ok _ _ _ { h with unmodelled := rfl }
  · exact exTail_rel ln (exSet_rel ln h)
macro_rules | `(tactic| rel_step) => `(tactic| with_reducible exact rel2_exCommandV _)

theorem rel2_viPre : Rel2 false NoEsc viPre viPre := by
  unfold viPre
  rel_tac

theorem rel2_motionTail {E : Option Nat → Option Nat → Prop} (mv nrow noff : Int) :
    Rel2 false E (motionTail mv nrow noff) (motionTail mv nrow noff) := by
  unfold motionTail
  rel_tac

theorem rel2_viPost {E : Unit → Unit → Prop} (cont : Option Nat) : Rel2 false E (viPost cont) (viPost cont) := by
  unfold viPost
  rel_tac

end Neatvi.Lemmas.C09c
