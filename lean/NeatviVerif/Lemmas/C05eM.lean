import NeatviVerif.Lemmas.C05eH
/-!
# C05e lemmas, part M: the step budget of the `:g` scan suffices unless the command list adds marks

`markCnt dep ed`: the number of lines of the *current* buffer that carry the mark of depth `dep`.  Every round of the
scan that does not end it clears one mark; so the scan ends within `markCnt + 2` rounds when the command list it runs
never raises that number.  At the start of a scan the number is at most the length of the buffer (`glob` is never
longer than `lines` in a buffer built by the lbuf API), far below the budget `4 (len + 4)² + 64` of the model.
(The number can rise when the command list switches to a buffer in which an earlier `:g` left marks: that is the one way
the budget is exceeded in the model — the C loop ends all the same.)
-/
namespace Neatvi.Lemmas.C05e
open Neatvi Neatvi.Lbuf Neatvi.LbufIo Neatvi.Ex Neatvi.Rset
open Neatvi.Lemmas.ExFrame Neatvi.Lemmas.C02Ex Neatvi.Lemmas.C02b Neatvi.Lemmas.C06 Neatvi.Props.C01

/-! ### the mark table is never longer than the text -/

def GlobLen (lb : Lb) : Prop := lb.glob.length ≤ lb.lines.length

theorem setMark_glob (lb : Lb) (c : Nat) (p o : Int) : (setMark lb c p o).glob = lb.glob := by
  unfold setMark; split <;> rfl

theorem replace_globLen {lb lb' : Lb} {s : Option Bytes} {pos nDel : Nat} (h : GlobLen lb)
    (hr : replace lb s pos nDel = some lb') : GlobLen lb' := by
  unfold replace at hr
  dsimp only at hr
  split at hr
  · rename_i hb
    cases hr
    unfold GlobLen at h ⊢
    rw [setMark_glob, setMark_glob, setMark_lines, setMark_lines]
    simp only [List.length_append, List.length_take, List.length_drop, List.length_replicate]
    omega
  · cases hr

theorem replace_globLen' {lb lb' : Lb} {s : Option Bytes} {pos nDel : Nat} (hr : replace lb s pos nDel = some lb')
    (h : lb.glob.length ≤ lb.lines.length) : GlobLen lb' := replace_globLen h hr

theorem edit_globLen {lb lb' : Lb} {buf : Option Bytes} {b e : Nat} (h : GlobLen lb) (he : Lbuf.edit lb buf b e = some lb') :
    GlobLen lb' := by
  unfold Lbuf.edit at he
  dsimp only at he
  split at he
  · cases he
  · split at he
    · cases he; exact h
    · exact replace_globLen (lb := opt lb buf _ _) h he

theorem loadPos_glob (lb : Lb) (e : Entry) : (loadPos lb e).glob = lb.glob ∧ (loadPos lb e).lines = lb.lines := ⟨rfl, rfl⟩

theorem loadMarks_glob (lb : Lb) (e : Entry) : (loadMarks lb e).glob = lb.glob ∧ (loadMarks lb e).lines = lb.lines := by
  unfold loadMarks; split <;> exact ⟨rfl, rfl⟩

theorem undoGo_globLen (seq : Nat) : ∀ (f : Nat) (lb lb' : Lb), GlobLen lb → undoGo seq f lb = some lb' → GlobLen lb' := by
  intro f
  induction f with
  | zero => intro lb lb' h hu; rw [undoGo] at hu; cases hu; exact h
  | succ f ih =>
    intro lb lb' h hu
    rw [undoGo] at hu
    split at hu
    · cases hu; exact h
    · split at hu
      · cases hu
      · split at hu
        · split at hu
          · cases hu
          · rename_i e _ _ lb1 hr
            refine ih _ _ ?_ hu
            have h1 : GlobLen lb1 := replace_globLen' hr h
            unfold GlobLen
            rw [(loadMarks_glob _ _).1, (loadMarks_glob _ _).2, (loadPos_glob _ _).1, (loadPos_glob _ _).2]
            exact h1
        · cases hu; exact h

theorem redoGo_globLen (seq : Nat) : ∀ (f : Nat) (lb lb' : Lb), GlobLen lb → redoGo seq f lb = some lb' → GlobLen lb' := by
  intro f
  induction f with
  | zero => intro lb lb' h hu; rw [redoGo] at hu; cases hu; exact h
  | succ f ih =>
    intro lb lb' h hu
    rw [redoGo] at hu
    split at hu
    · split at hu
      · cases hu
      · split at hu
        · split at hu
          · cases hu
          · rename_i e _ _ lb1 hr
            refine ih _ _ ?_ hu
            have h1 : GlobLen lb1 := replace_globLen' hr h
            unfold GlobLen
            rw [(loadPos_glob _ _).1, (loadPos_glob _ _).2]
            exact h1
        · cases hu; exact h
    · cases hu; exact h

theorem lbReach_globLen {lb : Lb} {d : Option Spec.Text} (h : LbReach lb d) : GlobLen lb := by
  induction h with
  | make => unfold GlobLen; simp [Lbuf.make]
  | edit buf b e _ he ih => exact edit_globLen ih he
  | undo _ hu ih =>
    unfold Lbuf.undo at hu
    split at hu
    · cases hu; exact ih
    · split at hu
      · cases hu
      · simp only [Option.map_eq_some_iff] at hu
        obtain ⟨l, hl, he⟩ := hu
        cases he
        exact undoGo_globLen _ _ _ _ ih hl
  | redo _ hu ih =>
    unfold Lbuf.redo at hu
    split at hu
    · cases hu; exact ih
    · split at hu
      · cases hu
      · simp only [Option.map_eq_some_iff] at hu
        obtain ⟨l, hl, he⟩ := hu
        cases he
        exact redoGo_globLen _ _ _ _ ih hl
  | bump _ ih => exact ih
  | saved _ ih => exact ih
  | savedClear _ ih => exact ih
  | partialWrite _ ih => exact ih
  | setMark c p o _ ih =>
    unfold GlobLen; rw [setMark_glob, setMark_lines]; exact ih
  | globSet pos dep _ ih =>
    unfold GlobLen globSet; simp only [List.length_set]; exact ih
  | globGet pos dep _ ih =>
    unfold GlobLen globGet; simp only [List.length_set]; exact ih

theorem goodLb_globLen {lb : Lb} (h : GoodLb lb) : GlobLen lb := by
  obtain ⟨d, hr⟩ := h
  exact lbReach_globLen hr


/-! ### counting the marks of one depth -/

theorem countP_set {α : Type} (p : α → Bool) : ∀ (l : List α) (i : Nat) (hi : i < l.length) (y : α),
    (l.set i y).countP p + (if p l[i] then 1 else 0) = l.countP p + (if p y then 1 else 0) := by
  intro l
  induction l with
  | nil => intro i hi; simp at hi
  | cons a l ih =>
    intro i hi y
    cases i with
    | zero =>
      simp only [List.set_cons_zero, List.getElem_cons_zero, List.countP_cons]
      omega
    | succ i =>
      simp only [List.length_cons] at hi
      have := ih i (by omega) y
      simp only [List.set_cons_succ, List.getElem_cons_succ, List.countP_cons]
      omega

theorem mask_clears (dep : Nat) (h : dep ≤ 7) (x : Nat) : hasBit dep (x &&& ((255 : Nat) ^^^ (1 <<< dep))) = false := by
  unfold hasBit
  have hm : ((255 : Nat) ^^^ (1 <<< dep)) &&& (1 <<< dep) = 0 := by
    have : dep = 0 ∨ dep = 1 ∨ dep = 2 ∨ dep = 3 ∨ dep = 4 ∨ dep = 5 ∨ dep = 6 ∨ dep = 7 := by omega
    rcases this with rfl | rfl | rfl | rfl | rfl | rfl | rfl | rfl <;> decide
  rw [Nat.and_assoc, hm, Nat.and_zero]
  decide

/-- `lbuf_globget` never adds a mark, and takes one away when it reports one -/
theorem globGet_cnt (lb : Lb) (pos dep : Nat) (h : dep ≤ 7) :
    cnt dep (globGet lb pos dep).2.glob ≤ cnt dep lb.glob ∧
    ((globGet lb pos dep).1 = true → cnt dep (globGet lb pos dep).2.glob + 1 ≤ cnt dep lb.glob) := by
  unfold globGet
  dsimp only
  by_cases hp : pos < lb.glob.length
  · have hc := countP_set (hasBit dep) lb.glob pos hp (lb.glob.getD pos 0 &&& ((255 : Nat) ^^^ (1 <<< dep)))
    rw [mask_clears dep h] at hc
    simp only [Bool.false_eq_true, if_false, Nat.add_zero] at hc
    have hg : lb.glob.getD pos 0 = lb.glob[pos] := by
      rw [List.getD_eq_getElem?_getD, List.getElem?_eq_getElem hp]; rfl
    unfold cnt
    constructor
    · omega
    · intro hm
      have : hasBit dep lb.glob[pos] = true := by
        unfold hasBit; rw [← hg]; exact hm
      rw [this] at hc
      simp only [if_true] at hc
      omega
  · have hs : lb.glob.set pos (lb.glob.getD pos 0 &&& ((255 : Nat) ^^^ (1 <<< dep))) = lb.glob :=
      List.set_eq_of_length_le (by omega)
    have hg : lb.glob.getD pos 0 = 0 := by
      rw [List.getD_eq_getElem?_getD, List.getElem?_eq_none (by omega)]; rfl
    rw [hs, hg]
    exact ⟨Nat.le_refl _, fun hm => by simp at hm⟩

theorem markCnt_setLb {ed : Ed} {lb0 : Lb} (h : ed.lb = some lb0) (lb : Lb) (dep : Nat) :
    markCnt dep (ed.setLb lb) = cnt dep lb.glob := by
  unfold markCnt
  rw [Lemmas.C06.setLb_lb ed lb0 lb h]

theorem len_setLb_glob {ed : Ed} {lb0 : Lb} (h : ed.lb = some lb0) (lb : Lb) (hl : lb.lines = lb0.lines) :
    (ed.setLb lb).len = ed.len := by
  unfold Ed.len
  rw [Lemmas.C06.setLb_lb ed lb0 lb h, h]
  dsimp only
  rw [hl]

/-- the advance to the next marked line: it ends past the buffer or on a line whose mark it has just cleared -/
theorem adv_marks (dep : Nat) (hdep : dep ≤ 7) : ∀ (h : Nat) (ed : Ed) (i : Int), 0 ≤ i → (ed.len - i).toNat + 1 ≤ h →
    markCnt dep (ecGlob.scan.adv dep h ed i).1 ≤ markCnt dep ed ∧
    ((ecGlob.scan.adv dep h ed i).2 ≥ (ecGlob.scan.adv dep h ed i).1.len ∨
      markCnt dep (ecGlob.scan.adv dep h ed i).1 + 1 ≤ markCnt dep ed) := by
  intro h
  induction h with
  | zero => intro ed i _ hf; omega
  | succ h ih =>
    intro ed i hi hf
    rw [ecGlob.scan.adv]
    split
    · rename_i hge
      exact ⟨Nat.le_refl _, Or.inl hge⟩
    · rename_i hlt
      cases hl : ed.lb with
      | none =>
        exfalso
        have : ed.len = 0 := by unfold Ed.len; rw [hl]
        omega
      | some lb =>
        dsimp only
        obtain ⟨g1, g2⟩ := globGet_cnt lb i.toNat dep hdep
        have hmc : markCnt dep ed = cnt dep lb.glob := by unfold markCnt; rw [hl]
        have hm' := markCnt_setLb hl (globGet lb i.toNat dep).2 dep
        split
        · rename_i hm
          rw [hm', hmc]
          exact ⟨g1, Or.inr (g2 hm)⟩
        · have hlen : (ed.setLb (globGet lb i.toNat dep).2).len = ed.len := len_setLb_glob hl _ rfl
          obtain ⟨a1, a2⟩ := ih (ed.setLb (globGet lb i.toNat dep).2) (i + 1) (by omega) (by rw [hlen]; omega)
          rw [hm'] at a1 a2
          rw [hmc]
          refine ⟨by omega, ?_⟩
          rcases a2 with a2 | a2
          · exact Or.inl a2
          · exact Or.inr (by omega)

/-- **the budget suffices**: the scan ends within `markCnt + 2` rounds when the command line it runs never raises the
    number of marked lines of the current buffer -/
theorem scanT_within (f : Nat) (neg : Bool) (s : Bytes) (re : RStr) (dep d : Nat) (hdep : dep ≤ 7)
    (hmu : ∀ (ed' : Ed) (i' : Int) (r : Int) (ed'' : Ed), Safe ed' → ed'.atDepth = d →
      exExec f { ed' with xrow := i' } s = some (r, ed'') → Safe ed'' ∧ ed''.atDepth = d ∧ markCnt dep ed'' ≤ markCnt dep ed') :
    ∀ (g : Nat) (ed : Ed) (i : Int), Safe ed → ed.atDepth = d → 0 ≤ i →
      ((i ≥ ed.len ∧ 1 ≤ g) ∨ markCnt dep ed + 2 ≤ g) → scanT f neg s re dep g ed i ≠ ScanRes.budget := by
  intro g
  induction g with
  | zero => intro ed i _ _ _ hg; omega
  | succ g ih =>
    intro ed i hs hd hi hg
    rw [scanT]
    split
    · intro h; cases h
    · rename_i hlt
      have hg2 : markCnt dep ed + 2 ≤ g + 1 := by
        rcases hg with ⟨h1, _⟩ | h2
        · exact absurd h1 hlt
        · exact h2
      cases ed.line i with
      | none => intro h; cases h
      | some ln =>
        dsimp only
        cases rstrFind re ln 16 0 ND NG with
        | none => intro h; cases h
        | some p =>
          obtain ⟨res, o, c⟩ := p
          dsimp only
          have hsr : ∀ t, (if ((res < 0) == neg) = true then
                (match exExec f { ed with xrow := i } s with
                | none => none
                | some (r, ed) => if (r != 0) = true then some (true, ed, i) else some (false, ed, max 0 (min i ed.xrow)))
              else some (false, ed, i) : Option (Bool × Ed × Int)) = some t →
              Safe t.2.1 ∧ t.2.1.atDepth = d ∧ markCnt dep t.2.1 ≤ markCnt dep ed ∧ 0 ≤ t.2.2 := by
            intro t ht
            split at ht
            · cases he : exExec f { ed with xrow := i } s with
              | none => rw [he] at ht; cases ht
              | some x =>
                obtain ⟨r, ed1⟩ := x
                rw [he] at ht
                dsimp only at ht
                obtain ⟨a1, a2, a3⟩ := hmu ed i r ed1 hs hd he
                split at ht
                · cases ht; exact ⟨a1, a2, a3, hi⟩
                · cases ht; exact ⟨a1, a2, a3, by show 0 ≤ max 0 (min i ed1.xrow); omega⟩
            · cases ht; exact ⟨hs, hd, Nat.le_refl _, hi⟩
          cases hsre : (if ((res < 0) == neg) = true then
                (match exExec f { ed with xrow := i } s with
                | none => none
                | some (r, ed) => if (r != 0) = true then some (true, ed, i) else some (false, ed, max 0 (min i ed.xrow)))
              else some (false, ed, i) : Option (Bool × Ed × Int)) with
          | none => intro h; cases h
          | some t =>
            obtain ⟨b, ed1, i1⟩ := t
            obtain ⟨a1, a2, a3, a4⟩ := hsr _ hsre
            dsimp only at a1 a2 a3 a4
            cases b with
            | true => intro h; cases h
            | false =>
              dsimp only
              rw [if_neg (by omega)]
              obtain ⟨s1, s2, s3⟩ := adv_safe dep (ed1.len.toNat + 1) ed1 i1 a1 a4
              obtain ⟨m1, m2⟩ := adv_marks dep hdep (ed1.len.toNat + 1) ed1 i1 a4 (by omega)
              refine ih _ _ s1 (s2.trans a2) s3 ?_
              rcases m2 with m2 | m2
              · exact Or.inl ⟨m2, by omega⟩
              · exact Or.inr (by omega)


theorem markCnt_le_len {ed : Ed} (h : Safe ed) (dep : Nat) : markCnt dep ed ≤ ed.len.toNat := by
  obtain ⟨lb, hl, hg⟩ := h.lb
  unfold markCnt Ed.len
  rw [hl]
  dsimp only
  have h1 := cnt_le_length dep lb.glob
  have h2 : lb.glob.length ≤ lb.lines.length := goodLb_globLen hg
  omega

theorem budget_ge (n : Nat) : n + 2 ≤ 4 * (n + 4) * (n + 4) + 64 := by
  have h1 : n ≤ 4 * (n + 4) := by omega
  have h2 : 4 * (n + 4) ≤ 4 * (n + 4) * (n + 4) := Nat.le_mul_of_pos_right _ (by omega)
  omega

/-- **`:g` with a command list that adds no marks**: no trap, no budget — the scan ends -/
theorem run_glob_marks (hre : ReSafe) (f : Nat) {ed : Ed} (h : Safe ed) (loc cmd arg : Bytes) (txt : Option Bytes)
    (hloc : 0 ∉ loc) (harg : 0 ∉ arg)
    (hbody : ∀ (ed' : Ed) (i' : Int), Safe ed' → ed'.atDepth = ed.atDepth →
      Ret ed.atDepth (exExec f { ed' with xrow := i' } (reRead arg).2))
    (hmu : ∀ (dep : Nat) (ed' : Ed) (i' : Int) (r : Int) (ed'' : Ed), dep ≤ 7 → Safe ed' → ed'.atDepth = ed.atDepth →
      exExec f { ed' with xrow := i' } (reRead arg).2 = some (r, ed'') → markCnt dep ed'' ≤ markCnt dep ed') :
    Ret ed.atDepth (runCmd (f + 2) ed "ec_glob" loc cmd arg txt) := by
  refine run_glob hre f h loc cmd arg txt hloc harg hbody ?_
  intro re dep ed0 b hs0 hd0 hdep hb
  refine scanT_within f _ _ re dep ed.atDepth hdep ?_ _ ed0 b hs0 hd0 hb (Or.inr ?_)
  · intro ed' i' r ed'' hs' hd' he
    obtain ⟨r2, ed2, he2, h2, hd2⟩ := hbody ed' i' hs' hd'
    rw [he] at he2
    cases he2
    exact ⟨h2, hd2, hmu dep ed' i' r ed'' hdep hs' hd' he⟩
  · have := markCnt_le_len hs0 dep
    have := budget_ge ed0.len.toNat
    unfold gBudget
    omega

end Neatvi.Lemmas.C05e
