import NeatviVerif.Model.Render
/-!
# C19c lemmas, part 1: the table `off[]` of `led_render` (left-to-right context)

`offTable` enters character `i` in the columns of its cell range iff the whole range lies inside
the window; with pairwise disjoint ranges no entry is overwritten.
-/
namespace Neatvi.Lemmas.C19c
open Neatvi Neatvi.Uc Neatvi.Ren Neatvi.Render

/-! ### writing a run of cells -/

theorem setRun_length {α : Type} (v : α) (f : Nat → Nat) (c : Nat) (off : List α) :
    ((List.range c).foldl (fun off j => off.set (f j) v) off).length = off.length := by
  induction c with
  | zero => rfl
  | succ c ih => rw [List.range_succ, List.foldl_append]; simp [ih]

theorem setRun_getD {α : Type} (v d : α) (base c : Nat) (off : List α) (k : Nat) :
    ((List.range c).foldl (fun off j => off.set (base + j) v) off).getD k d =
      if base ≤ k ∧ k < base + c ∧ k < off.length then v else off.getD k d := by
  induction c with
  | zero =>
    have : ¬ (base ≤ k ∧ k < base + 0 ∧ k < off.length) := by omega
    rw [if_neg this]; rfl
  | succ c ih =>
    rw [List.range_succ, List.foldl_append]
    simp only [List.foldl_cons, List.foldl_nil]
    rw [List.getD_eq_getElem?_getD, List.getElem?_set, setRun_length]
    by_cases hk : base + c = k
    · subst hk
      rw [if_pos rfl]
      by_cases hl : base + c < off.length
      · rw [if_pos hl, if_pos ⟨by omega, by omega, hl⟩]; rfl
      · rw [if_neg hl, if_neg (by omega)]
        rw [List.getD_eq_getElem?_getD, List.getElem?_eq_none (by omega)]
    · rw [if_neg hk, ← List.getD_eq_getElem?_getD, ih]
      by_cases h1 : base ≤ k ∧ k < base + c ∧ k < off.length
      · rw [if_pos h1, if_pos (by omega)]
      · rw [if_neg h1, if_neg (by omega)]

/-! ### one character -/

/-- the body of the loop of `offTable` -/
def offStep (chs : List Bytes) (pos : List Nat) (ctx : Int) (cbeg cend : Int)
    (off : List (Option Nat)) (i : Nat) : List (Option Nat) :=
  let w := (cend - cbeg).toNat
  let p : Int := pos.getD i 0
  let cw : Int := renCwid (chs.getD i []) (pos.getD i 0)
  let b := ledPos ctx p cbeg cend
  let e := ledPos ctx (p + cw - 1) cbeg cend
  if b ≥ 0 && b < w && e ≥ 0 && e < w then
    (List.range cw.toNat).foldl (fun off (j : Nat) => off.set (ledPos ctx (p + (j : Int)) cbeg cend).toNat (some i)) off
  else off

theorem offTable_eq (chs : List Bytes) (pos : List Nat) (ctx : Int) (cbeg cend : Int) :
    offTable chs pos ctx cbeg cend =
      (List.range chs.length).foldl (offStep chs pos ctx cbeg cend) (List.replicate (cend - cbeg).toNat none) := rfl

theorem offStep_length (chs : List Bytes) (pos : List Nat) (ctx : Int) (cbeg cend : Int)
    (off : List (Option Nat)) (i : Nat) : (offStep chs pos ctx cbeg cend off i).length = off.length := by
  unfold offStep
  simp only []
  split
  · exact setRun_length _ _ _ _
  · rfl

/-- character `i` covers window column `k` -/
def Covers (chs : List Bytes) (pos : List Nat) (cbeg : Int) (i k : Nat) : Prop :=
  (pos.getD i 0 : Int) ≤ cbeg + k ∧ cbeg + k < (pos.getD i 0 : Int) + (renCwid (chs.getD i []) (pos.getD i 0) : Int)

/-- all cells of character `i` are inside the window -/
def InWin (chs : List Bytes) (pos : List Nat) (cbeg cend : Int) (i : Nat) : Prop :=
  cbeg ≤ (pos.getD i 0 : Int) ∧ (pos.getD i 0 : Int) + (renCwid (chs.getD i []) (pos.getD i 0) : Int) ≤ cend

instance (chs : List Bytes) (pos : List Nat) (cbeg : Int) (i k : Nat) : Decidable (Covers chs pos cbeg i k) := by
  unfold Covers; exact inferInstance
instance (chs : List Bytes) (pos : List Nat) (cbeg cend : Int) (i : Nat) : Decidable (InWin chs pos cbeg cend i) := by
  unfold InWin; exact inferInstance

theorem offStep_core (p cw : Nat) (cbeg cend : Int) (hwin : cbeg < cend) (off : List (Option Nat))
    (hoff : off.length = (cend - cbeg).toNat) (i : Nat) (hw : 1 ≤ cw) (k : Nat) (hk : k < (cend - cbeg).toNat) :
    (if (decide ((p : Int) - cbeg ≥ 0) && decide ((p : Int) - cbeg < ((cend - cbeg).toNat : Int)) &&
        decide ((p : Int) + (cw : Int) - 1 - cbeg ≥ 0) && decide ((p : Int) + (cw : Int) - 1 - cbeg < ((cend - cbeg).toNat : Int))) = true
      then (List.range (cw : Int).toNat).foldl (fun (off : List (Option Nat)) (j : Nat) =>
        off.set ((p : Int) + (j : Int) - cbeg).toNat (some i)) off
      else off).getD k none =
      if ((p : Int) ≤ cbeg + k ∧ cbeg + k < (p : Int) + (cw : Int)) ∧ (cbeg ≤ (p : Int) ∧ (p : Int) + (cw : Int) ≤ cend)
      then some i else off.getD k none := by
  by_cases hin : cbeg ≤ (p : Int) ∧ (p : Int) + (cw : Int) ≤ cend
  · have hc : (decide ((p : Int) - cbeg ≥ 0) && decide ((p : Int) - cbeg < ((cend - cbeg).toNat : Int)) &&
        decide ((p : Int) + (cw : Int) - 1 - cbeg ≥ 0) && decide ((p : Int) + (cw : Int) - 1 - cbeg < ((cend - cbeg).toNat : Int))) = true := by
      simp only [Bool.and_eq_true, decide_eq_true_eq]; omega
    rw [if_pos hc]
    have hfun : (fun (off : List (Option Nat)) (j : Nat) => off.set ((p : Int) + (j : Int) - cbeg).toNat (some i)) =
        (fun off j => off.set (((p : Int) - cbeg).toNat + j) (some i)) := by
      funext off j
      congr 1
      omega
    rw [hfun, setRun_getD]
    by_cases hcov : (p : Int) ≤ cbeg + k ∧ cbeg + k < (p : Int) + (cw : Int)
    · rw [if_pos (by omega), if_pos ⟨hcov, hin⟩]
    · rw [if_neg (by omega), if_neg (fun h => hcov h.1)]
  · have hc : ¬ (decide ((p : Int) - cbeg ≥ 0) && decide ((p : Int) - cbeg < ((cend - cbeg).toNat : Int)) &&
        decide ((p : Int) + (cw : Int) - 1 - cbeg ≥ 0) && decide ((p : Int) + (cw : Int) - 1 - cbeg < ((cend - cbeg).toNat : Int))) = true := by
      simp only [Bool.and_eq_true, decide_eq_true_eq]; omega
    rw [if_neg hc, if_neg (fun h => hin h.2)]

theorem offStep_getD (chs : List Bytes) (pos : List Nat) (ctx : Int) (hctx : ctx ≥ 0) (cbeg cend : Int)
    (hwin : cbeg < cend) (off : List (Option Nat)) (hoff : off.length = (cend - cbeg).toNat) (i : Nat)
    (hw : 1 ≤ renCwid (chs.getD i []) (pos.getD i 0)) (k : Nat) (hk : k < (cend - cbeg).toNat) :
    (offStep chs pos ctx cbeg cend off i).getD k none =
      if Covers chs pos cbeg i k ∧ InWin chs pos cbeg cend i then some i else off.getD k none := by
  have h := offStep_core (pos.getD i 0) (renCwid (chs.getD i []) (pos.getD i 0)) cbeg cend hwin off hoff i hw k hk
  unfold offStep
  simp only [ledPos, if_pos hctx]
  rw [h]
  by_cases hc : Covers chs pos cbeg i k ∧ InWin chs pos cbeg cend i
  · rw [if_pos hc]; exact if_pos hc
  · rw [if_neg hc]; exact if_neg hc

/-! ### the whole table -/

theorem offFold_length (chs : List Bytes) (pos : List Nat) (ctx : Int) (cbeg cend : Int) (l : List Nat)
    (off : List (Option Nat)) : (l.foldl (offStep chs pos ctx cbeg cend) off).length = off.length := by
  induction l generalizing off with
  | nil => rfl
  | cons a l ih => rw [List.foldl_cons, ih, offStep_length]

theorem offTable_length (chs : List Bytes) (pos : List Nat) (ctx : Int) (cbeg cend : Int) :
    (offTable chs pos ctx cbeg cend).length = (cend - cbeg).toNat := by
  rw [offTable_eq, offFold_length, List.length_replicate]

/-- pairwise disjoint cell ranges -/
def Disjoint (chs : List Bytes) (pos : List Nat) : Prop :=
  ∀ i j, i < chs.length → j < chs.length → i ≠ j →
    pos.getD i 0 + renCwid (chs.getD i []) (pos.getD i 0) ≤ pos.getD j 0 ∨
    pos.getD j 0 + renCwid (chs.getD j []) (pos.getD j 0) ≤ pos.getD i 0

theorem offFold_spec (chs : List Bytes) (pos : List Nat) (ctx : Int) (hctx : ctx ≥ 0) (cbeg cend : Int)
    (hwin : cbeg < cend) (hw : ∀ i, i < chs.length → 1 ≤ renCwid (chs.getD i []) (pos.getD i 0))
    (hd : Disjoint chs pos) (m : Nat) (hm : m ≤ chs.length) (k : Nat) (hk : k < (cend - cbeg).toNat) (i : Nat) :
    ((List.range m).foldl (offStep chs pos ctx cbeg cend) (List.replicate (cend - cbeg).toNat none)).getD k none = some i ↔
      i < m ∧ Covers chs pos cbeg i k ∧ InWin chs pos cbeg cend i := by
  induction m with
  | zero =>
    simp only [List.range_zero, List.foldl_nil]
    rw [List.getD_eq_getElem?_getD, List.getElem?_replicate, if_pos hk]
    simp
  | succ m ih =>
    rw [List.range_succ, List.foldl_append]
    simp only [List.foldl_cons, List.foldl_nil]
    rw [offStep_getD chs pos ctx hctx cbeg cend hwin _ (by rw [offFold_length, List.length_replicate]) m
      (hw m (by omega)) k hk]
    by_cases hc : Covers chs pos cbeg m k ∧ InWin chs pos cbeg cend m
    · rw [if_pos hc]
      constructor
      · intro h
        have : m = i := Option.some.inj h
        subst this
        exact ⟨by omega, hc⟩
      · rintro ⟨hi, hcov, _⟩
        by_cases him : i = m
        · rw [him]
        · exfalso
          have := hd i m (by omega) (by omega) him
          unfold Covers at hcov hc
          omega
    · rw [if_neg hc, ih (by omega)]
      constructor
      · rintro ⟨hi, h⟩
        exact ⟨by omega, h⟩
      · rintro ⟨hi, h⟩
        refine ⟨?_, h⟩
        by_cases him : i = m
        · subst him; exact absurd h hc
        · omega

/-! ### right-to-left context: the window is mirrored -/

theorem setRun_getD_hit {α : Type} (v d : α) (f : Nat → Nat) (c : Nat) (off : List α) (k : Nat)
    (h : ∃ j, j < c ∧ f j = k) (hk : k < off.length) :
    ((List.range c).foldl (fun off j => off.set (f j) v) off).getD k d = v := by
  induction c with
  | zero => obtain ⟨j, hj, _⟩ := h; omega
  | succ c ih =>
    rw [List.range_succ, List.foldl_append]
    simp only [List.foldl_cons, List.foldl_nil]
    rw [List.getD_eq_getElem?_getD, List.getElem?_set, setRun_length]
    by_cases hc : f c = k
    · rw [if_pos hc, if_pos (by rw [hc]; exact hk)]; rfl
    · rw [if_neg hc, ← List.getD_eq_getElem?_getD]
      apply ih
      obtain ⟨j, hj, hjk⟩ := h
      refine ⟨j, ?_, hjk⟩
      by_cases hjc : j = c
      · subst hjc; exact absurd hjk hc
      · omega

theorem setRun_getD_miss {α : Type} (v d : α) (f : Nat → Nat) (c : Nat) (off : List α) (k : Nat)
    (h : ∀ j, j < c → f j ≠ k) :
    ((List.range c).foldl (fun off j => off.set (f j) v) off).getD k d = off.getD k d := by
  induction c with
  | zero => rfl
  | succ c ih =>
    rw [List.range_succ, List.foldl_append]
    simp only [List.foldl_cons, List.foldl_nil]
    rw [List.getD_eq_getElem?_getD, List.getElem?_set, if_neg (h c (by omega)), ← List.getD_eq_getElem?_getD]
    exact ih (fun j hj => h j (by omega))

/-- character `i` covers the mirrored window column `k` (screen column `cend - 1 - k`) -/
def CoversR (chs : List Bytes) (pos : List Nat) (cend : Int) (i k : Nat) : Prop :=
  (pos.getD i 0 : Int) ≤ cend - 1 - k ∧ cend - 1 - k < (pos.getD i 0 : Int) + (renCwid (chs.getD i []) (pos.getD i 0) : Int)

instance (chs : List Bytes) (pos : List Nat) (cend : Int) (i k : Nat) : Decidable (CoversR chs pos cend i k) := by
  unfold CoversR; exact inferInstance

theorem offStep_core_rtl (p cw : Nat) (cbeg cend : Int) (hwin : cbeg < cend) (off : List (Option Nat))
    (hoff : off.length = (cend - cbeg).toNat) (i : Nat) (hw : 1 ≤ cw) (k : Nat) (hk : k < (cend - cbeg).toNat) :
    ((if (decide (cend - (p : Int) - 1 ≥ 0) && decide (cend - (p : Int) - 1 < ((cend - cbeg).toNat : Int)) &&
        decide (cend - ((p : Int) + (cw : Int) - 1) - 1 ≥ 0) &&
        decide (cend - ((p : Int) + (cw : Int) - 1) - 1 < ((cend - cbeg).toNat : Int))) = true
      then (List.range (cw : Int).toNat).foldl (fun (off : List (Option Nat)) (j : Nat) =>
        off.set (cend - ((p : Int) + (j : Int)) - 1).toNat (some i)) off
      else off).getD k none = some i ↔
        ((((p : Int) ≤ cend - 1 - k ∧ cend - 1 - k < (p : Int) + (cw : Int)) ∧ (cbeg ≤ (p : Int) ∧ (p : Int) + (cw : Int) ≤ cend)) ∨
         off.getD k none = some i)) ∧
    (¬ (((p : Int) ≤ cend - 1 - k ∧ cend - 1 - k < (p : Int) + (cw : Int)) ∧ (cbeg ≤ (p : Int) ∧ (p : Int) + (cw : Int) ≤ cend)) →
      (if (decide (cend - (p : Int) - 1 ≥ 0) && decide (cend - (p : Int) - 1 < ((cend - cbeg).toNat : Int)) &&
        decide (cend - ((p : Int) + (cw : Int) - 1) - 1 ≥ 0) &&
        decide (cend - ((p : Int) + (cw : Int) - 1) - 1 < ((cend - cbeg).toNat : Int))) = true
      then (List.range (cw : Int).toNat).foldl (fun (off : List (Option Nat)) (j : Nat) =>
        off.set (cend - ((p : Int) + (j : Int)) - 1).toNat (some i)) off
      else off).getD k none = off.getD k none) := by
  by_cases hin : cbeg ≤ (p : Int) ∧ (p : Int) + (cw : Int) ≤ cend
  · have hc : (decide (cend - (p : Int) - 1 ≥ 0) && decide (cend - (p : Int) - 1 < ((cend - cbeg).toNat : Int)) &&
        decide (cend - ((p : Int) + (cw : Int) - 1) - 1 ≥ 0) &&
        decide (cend - ((p : Int) + (cw : Int) - 1) - 1 < ((cend - cbeg).toNat : Int))) = true := by
      simp only [Bool.and_eq_true, decide_eq_true_eq]; omega
    rw [if_pos hc]
    by_cases hcov : (p : Int) ≤ cend - 1 - k ∧ cend - 1 - k < (p : Int) + (cw : Int)
    · have hit := setRun_getD_hit (some i) none (fun j => (cend - ((p : Int) + (j : Int)) - 1).toNat) (cw : Int).toNat off k
        ⟨(cend - 1 - k - p).toNat, by omega, by omega⟩ (by omega)
      rw [hit]
      exact ⟨⟨fun _ => Or.inl ⟨hcov, hin⟩, fun _ => rfl⟩, fun h => absurd ⟨hcov, hin⟩ h⟩
    · have miss := setRun_getD_miss (some i) none (fun j => (cend - ((p : Int) + (j : Int)) - 1).toNat) (cw : Int).toNat off k
        (fun j hj => by omega)
      rw [miss]
      exact ⟨⟨fun h => Or.inr h, fun h => h.elim (fun h => absurd h.1 hcov) id⟩, fun _ => rfl⟩
  · have hc : ¬ (decide (cend - (p : Int) - 1 ≥ 0) && decide (cend - (p : Int) - 1 < ((cend - cbeg).toNat : Int)) &&
        decide (cend - ((p : Int) + (cw : Int) - 1) - 1 ≥ 0) &&
        decide (cend - ((p : Int) + (cw : Int) - 1) - 1 < ((cend - cbeg).toNat : Int))) = true := by
      simp only [Bool.and_eq_true, decide_eq_true_eq]; omega
    rw [if_neg hc]
    exact ⟨⟨fun h => Or.inr h, fun h => h.elim (fun h => absurd h.2 hin) id⟩, fun _ => rfl⟩

theorem offStep_getD_rtl (chs : List Bytes) (pos : List Nat) (ctx : Int) (hctx : ctx < 0) (cbeg cend : Int)
    (hwin : cbeg < cend) (off : List (Option Nat)) (hoff : off.length = (cend - cbeg).toNat) (i : Nat)
    (hw : 1 ≤ renCwid (chs.getD i []) (pos.getD i 0)) (k : Nat) (hk : k < (cend - cbeg).toNat) :
    (offStep chs pos ctx cbeg cend off i).getD k none =
      if CoversR chs pos cend i k ∧ InWin chs pos cbeg cend i then some i else off.getD k none := by
  have h := offStep_core_rtl (pos.getD i 0) (renCwid (chs.getD i []) (pos.getD i 0)) cbeg cend hwin off hoff i hw k hk
  have hn : ¬ ctx ≥ 0 := by omega
  unfold offStep
  simp only [ledPos, if_neg hn]
  by_cases hc : CoversR chs pos cend i k ∧ InWin chs pos cbeg cend i
  · rw [if_pos hc]
    exact h.1.mpr (Or.inl hc)
  · rw [if_neg hc]
    exact h.2 hc

theorem offFold_spec_rtl (chs : List Bytes) (pos : List Nat) (ctx : Int) (hctx : ctx < 0) (cbeg cend : Int)
    (hwin : cbeg < cend) (hw : ∀ i, i < chs.length → 1 ≤ renCwid (chs.getD i []) (pos.getD i 0))
    (hd : Disjoint chs pos) (m : Nat) (hm : m ≤ chs.length) (k : Nat) (hk : k < (cend - cbeg).toNat) (i : Nat) :
    ((List.range m).foldl (offStep chs pos ctx cbeg cend) (List.replicate (cend - cbeg).toNat none)).getD k none = some i ↔
      i < m ∧ CoversR chs pos cend i k ∧ InWin chs pos cbeg cend i := by
  induction m with
  | zero =>
    simp only [List.range_zero, List.foldl_nil]
    rw [List.getD_eq_getElem?_getD, List.getElem?_replicate, if_pos hk]
    simp
  | succ m ih =>
    rw [List.range_succ, List.foldl_append]
    simp only [List.foldl_cons, List.foldl_nil]
    rw [offStep_getD_rtl chs pos ctx hctx cbeg cend hwin _ (by rw [offFold_length, List.length_replicate]) m
      (hw m (by omega)) k hk]
    by_cases hc : CoversR chs pos cend m k ∧ InWin chs pos cbeg cend m
    · rw [if_pos hc]
      constructor
      · intro h
        have : m = i := Option.some.inj h
        subst this
        exact ⟨by omega, hc⟩
      · rintro ⟨hi, hcov, _⟩
        by_cases him : i = m
        · rw [him]
        · exfalso
          have := hd i m (by omega) (by omega) him
          unfold CoversR at hcov hc
          omega
    · rw [if_neg hc, ih (by omega)]
      constructor
      · rintro ⟨hi, h⟩
        exact ⟨by omega, h⟩
      · rintro ⟨hi, h⟩
        refine ⟨?_, h⟩
        by_cases him : i = m
        · subst him; exact absurd h hc
        · omega

end Neatvi.Lemmas.C19c
