import NeatviVerif.Lemmas.C08bOpen
/-!
# C08 (insert mode): `led_input` over two lines (text, newline, text, ESC)
-/
set_option linter.unusedSimpArgs false
namespace Neatvi.Lemmas.C08b
open Neatvi Neatvi.Uc Neatvi.Vi Neatvi.Ex Neatvi.Spec Neatvi.Lemmas.C08 Neatvi.Lemmas.C09

theorem takeWhile_blank_text (c : Nat) (t : List Nat) (hc : ValidCp c) (h32 : c ≠ 32) (h9 : c ≠ 9) :
    (encStr (c :: t)).takeWhile isBlankC = [] := by
  obtain ⟨a, u, he, hch⟩ := enc_chr hc
  have ha : isBlankC a = false := by
    unfold isBlankC
    unfold enc at he
    split at he
    · injection he with he1 _; subst he1; simp [h32, h9]
    split at he
    · injection he with he1 _; subst he1; simp; omega
    split at he
    · injection he with he1 _; subst he1; simp; omega
    · injection he with he1 _; subst he1; simp; omega
  rw [encStr_cons, he]
  simp [List.takeWhile_cons, ha]

theorem ReadsEd.trans {u1 u2 : Bytes} {s s1 s2 : VS} (h1 : ReadsEd u1 s s1) (h2 : ReadsEd u2 s1 s2) :
    ReadsEd (u1 ++ u2) s s2 := by
  obtain ⟨ib, ip, ty, hs1⟩ := h1
  obtain ⟨ib', ip', ty', hs2⟩ := h2
  refine ⟨ib', ip', ty', ?_⟩
  rw [hs2, hs1]
  simp only [icmdAfterL_append]

/-- the post text and the auto-indent `led_input` continues with after a newline -/
def postAfterNl (s : VS) (post : Bytes) : Bytes := post.drop (if s.xai then (post.takeWhile isBlankC).length else 0)
def aiAfterNl (s : VS) (pref : Bytes) : Bytes := if s.xai then aiOf pref else []

/-- the core: `led_input` given what the two calls of `led_line` return -/
theorem ledInput_two_of_ledLine (pref0 post0 : Bytes) (s s1 s2 : VS) (c1 c2 : Nat) (t1 t2 : List Nat)
    (hv1 : ValidCp c1) (hv2 : ValidCp c2) (h1a : c1 ≠ 32) (h1b : c1 ≠ 9) (h2a : c2 ≠ 32) (h2b : c2 ≠ 9)
    (hn1 : nlCount (encStr (c1 :: t1)) = 0) (hn2 : nlCount (encStr (c2 :: t2)) = 0)
    (hL1 : ledLine (prefRest pref0) post0 (aiOf pref0) 127 true false s =
      Res.ok (encStr (c1 :: t1), ((10 : Nat) : Int), aiOf pref0) s1)
    (hL2 : ledLine [] (postAfterNl s post0) (aiAfterNl s pref0) 127 true false (nextlineSt s1) =
      Res.ok (encStr (c2 :: t2), ((27 : Nat) : Int), aiAfterNl s pref0) s2) :
    ledInput pref0 post0 s =
      Res.ok (pref0 ++ encStr (c1 :: t1) ++ [10] ++ aiAfterNl s pref0 ++ encStr (c2 :: t2) ++ postAfterNl s post0,
        postAfterNl s post0) s2 := by
  have hpre := aiOf_append_prefRest pref0
  unfold postAfterNl aiAfterNl at *
  unfold prefRest aiOf at hL1 hpre
  unfold aiOf at hL2 ⊢
  have tw1 := takeWhile_blank_text c1 t1 hv1 h1a h1b
  have tw2 := takeWhile_blank_text c2 t2 hv2 h2a h2b
  unfold ledInput
  simp only [bind_apply, get_apply]
  rw [ledInput.loop]
  simp only [bind_apply, Option.getD_some, hL1, hn1, tw1, List.length_nil,
    show ((((10 : Nat) : Int)) == 10) = true from rfl, show ((((10 : Nat) : Int)) != 10) = false from rfl, if_true,
    Vi.repeatM, viNextlineR_apply, pure_apply, Bool.false_eq_true, if_false]
  have hai : ∀ (A X : Bytes) (b : Bool), (if (!s.xai) = true then [] else
      if (!!b) = true then A ++ List.take (min 0 (127 - A.length)) X else A) = (if s.xai = true then A else []) := by
    intro A X b; cases s.xai <;> cases b <;> simp
  have hpos : decide (0 < (encStr (c1 :: t1)).length) = true := by
    have := enc_length_pos c1
    rw [encStr_cons, List.length_append]; simp; omega
  have hpos2 : decide (0 < (encStr (c2 :: t2)).length) = true := by
    have := enc_length_pos c2
    rw [encStr_cons, List.length_append]; simp; omega
  rw [hai, hpos]
  rw [ledInput.loop]
  simp only [bind_apply, Option.getD_none, hL2, tw2, List.length_nil, hpos2, Bool.true_or, if_true,
    show ((((27 : Nat) : Int)) == 10) = false from rfl, show ((((27 : Nat) : Int)) != 10) = true from rfl,
    Bool.false_eq_true, if_false, Nat.add_zero, Vi.repeatM, pure_apply, List.nil_append, List.append_nil, hn2, hpre]

/-- **text, newline, text, ESC**: `led_input` returns the two lines, the second one after the
auto-indent; the rest of the line loses its leading blanks (both only with `autoindent` set); the cursor
row moves down by one -/
theorem ledInput_two_lines (pref post : Bytes) (s : VS) (cs1 cs2 : List Nat) (rest : Bytes)
    (hp : pending s = encStr cs1 ++ [10] ++ encStr cs2 ++ [27] ++ rest)
    (hpl : ∀ c ∈ cs1 ++ cs2, ValidCp c ∧ 32 ≤ c ∧ c ≠ 127)
    (hne1 : cs1.head? ≠ none ∧ cs1.head? ≠ some 32) (hne2 : cs2.head? ≠ none ∧ cs2.head? ≠ some 32)
    (hlen1 : cs1.length < 100000) (hlen2 : cs2.length < 100000) (hk : s.xkmap = 0) :
    ∃ s', ledInput pref post s =
        Res.ok (pref ++ encStr cs1 ++ [10] ++ aiAfterNl s pref ++ encStr cs2 ++ postAfterNl s post, postAfterNl s post) s' ∧
      pending s' = rest ∧ ReadsEd (encStr cs1 ++ [10] ++ encStr cs2 ++ [27]) s s' ∧
      Vi.lines s' = Vi.lines s ∧ s'.ed.xrow = s.ed.xrow + 1 ∧ s'.ed.regs = s.ed.regs := by
  obtain ⟨c1, t1, rfl⟩ : ∃ c t, cs1 = c :: t := by
    cases cs1 with
    | nil => exact absurd rfl hne1.1
    | cons c t => exact ⟨c, t, rfl⟩
  obtain ⟨c2, t2, rfl⟩ : ∃ c t, cs2 = c :: t := by
    cases cs2 with
    | nil => exact absurd rfl hne2.1
    | cons c t => exact ⟨c, t, rfl⟩
  have hp1 : ∀ c ∈ c1 :: t1, ValidCp c ∧ 32 ≤ c ∧ c ≠ 127 := fun c hc => hpl c (List.mem_append_left _ hc)
  have hp2 : ∀ c ∈ c2 :: t2, ValidCp c ∧ 32 ≤ c ∧ c ≠ 127 := fun c hc => hpl c (List.mem_append_right _ hc)
  have hc1 := hp1 c1 (by simp)
  have hc2 := hp2 c2 (by simp)
  have h10a : 10 ∉ c1 :: t1 := fun h => by have := hp1 10 h; omega
  have h10b : 10 ∉ c2 :: t2 := fun h => by have := hp2 10 h; omega
  obtain ⟨s1, hL1, hq1, hr1⟩ := ledLine_script (prefRest pref) post (aiOf pref) 127 true false s [Ev.text (c1 :: t1)] 10
    (encStr (c2 :: t2) ++ [27] ++ rest) (by rw [hp]; simp [scriptKeys, Ev.keys])
    (by intro ev hev; simp at hev; subst hev; exact hp1) (Or.inl rfl)
    (by simpa [scriptSteps, Ev.steps] using hlen1) hk
  have hL1' : ledLine (prefRest pref) post (aiOf pref) 127 true false s =
      Res.ok (encStr (c1 :: t1), ((10 : Nat) : Int), aiOf pref) s1 := by
    simpa [runScript, Ev.apply] using hL1
  obtain ⟨edn, hen, hxn, hbn, hrn⟩ := nextlineSt_eq s1
  have hkn : (nextlineSt s1).xkmap = 0 := by
    rw [hen]; show s1.xkmap = 0
    have := hr1.kmap false; simpa [hk] using this
  have hpn : pending (nextlineSt s1) = encStr (c2 :: t2) ++ [27] ++ rest := by rw [hen]; exact hq1
  obtain ⟨s2, hL2, hq2, hr2⟩ := ledLine_script [] (postAfterNl s post) (aiAfterNl s pref) 127 true false (nextlineSt s1)
    [Ev.text (c2 :: t2)] 27 rest (by rw [hpn]; simp [scriptKeys, Ev.keys])
    (by intro ev hev; simp at hev; subst hev; exact hp2) (Or.inr (Or.inl rfl))
    (by simpa [scriptSteps, Ev.steps] using hlen2) hkn
  have hL2' : ledLine [] (postAfterNl s post) (aiAfterNl s pref) 127 true false (nextlineSt s1) =
      Res.ok (encStr (c2 :: t2), ((27 : Nat) : Int), aiAfterNl s pref) s2 := by
    simpa [runScript, Ev.apply] using hL2
  refine ⟨s2, ?_, hq2, ?_, ?_, ?_, ?_⟩
  · exact ledInput_two_of_ledLine pref post s s1 s2 c1 c2 t1 t2 hc1.1 hc2.1 (fun h => hne1.2 (by simp [h])) (by omega)
      (fun h => hne2.2 (by simp [h])) (by omega) (nlCount_encStr h10a) (nlCount_encStr h10b) hL1' hL2'
  · have e1 : ReadsEd (scriptKeys [Ev.text (c1 :: t1)] ++ [10]) s (nextlineSt s1) := by
      rw [hen]; exact (hr1.readsEd).withEd _
    have := e1.trans hr2.readsEd
    simpa [scriptKeys, Ev.keys] using this
  · rw [hr2.lines, hen, lines_of_bufs s1 edn hbn, hr1.lines]
  · rw [hr2.xrow, hen]; show edn.xrow = _; rw [hxn, hr1.xrow]
  · rw [hr2.ed]; show (nextlineSt s1).ed.regs = _; rw [hen]; show edn.regs = _; rw [hrn, hr1.ed]

end Neatvi.Lemmas.C08b
