import NeatviVerif.Lemmas.C02cEdit
/-!
# C02c lemmas, part 4: the command line `b !|b !|b !` through `ex_command`

The mutual block `ecEdit` / `runCmd` / `exExec` / `exCommand` is compiled by well-founded recursion, so
closed terms do not evaluate in the kernel past one unfolding.  For the counterexample of C02c (what a
`+cmd` can do after `:e`) the line `b !|b !|b !` is run here symbolically, for every state.
-/
namespace Neatvi.Lemmas.C02c
open Neatvi Neatvi.Lbuf Neatvi.Ex Neatvi.Lemmas.C02Ex

theorem cmds_nil (f g : Nat) (ed : Ed) (ret : Int) : exExec.cmds f g ed [] ret = some (ret, ed) := by
  cases g <;> simp [exExec.cmds]

/-- `:b !` as `ec_buffer` runs it: `bufs_shift()` — the current buffer is dropped, no question asked —
    and a fresh unnamed buffer if the table is empty then -/
def bangShift (ed : Ed) : Ed :=
  let ed := ed.bufsShift
  if ed.cur.isNone then
    let b : Buf := { path := [], lb := Lbuf.make, id := ed.bufsCnt + 1 }
    { ed with bufs := ed.bufs.set 0 (some b), bufsCnt := ed.bufsCnt + 1 }
  else ed

theorem runCmd_b_bang (f : Nat) (ed : Ed) :
    runCmd (f + 1) ed "ec_buffer" [] [98] [33] none = some (0, bangShift ed) := by
  rw [runCmd.eq_2]
  simp only [String.reduceBEq, Bool.false_eq_true, if_false, if_true, Bool.or_self]
  unfold bangShift
  simp only [List.isEmpty_cons, List.headD_cons, beq_self_eq_true, if_true, Bool.false_eq_true, if_false]
  split <;> rfl

/-- one `b !` at the head of a command line, the parsing results given -/
theorem cmds_b_bang_step (f g : Nat) (ed : Ed) (ln l1 l2 rest : Bytes) (ret : Int)
    (hne : ln.isEmpty = false) (h1 : exLoc ln = ([], l1)) (h2 : exCmd l1 = ([98], l2))
    (h4 : exArg l2 [98] = ([33], rest)) :
    exExec.cmds (f + 1) (g + 1) ed ln ret = exExec.cmds (f + 1) g (bangShift ed) rest 0 := by
  have h3 : exIdx [98] = some ([98], "ec_buffer") := by decide +kernel
  have h5 : exTxt ed rest [98] = ((none, rest), ed) := by
    unfold exTxt
    simp
  rw [exExec.cmds]
  simp only [hne, Bool.false_eq_true, if_false, h1, h2, h3, h4, h5, runCmd_b_bang]

/-- the line `b !|b !|b !` -/
def bang3 : Bytes := [98, 32, 33, 124, 98, 32, 33, 124, 98, 32, 33]

theorem exCommand_bang3 (f : Nat) (ed : Ed) :
    exCommand (f + 3) ed bang3 = some (0, ((bangShift (bangShift (bangShift ed))).modifiedAt 0).2) := by
  rw [exCommand, exExec]
  have hl : ¬ bang3.length ≥ Gen.EXLEN := by decide +kernel
  rw [if_neg hl]
  have hlen : bang3.length + 1 = 8 + 1 + 1 + 1 + 1 := by decide
  rw [hlen]
  rw [cmds_b_bang_step f _ ed bang3 bang3 [32, 33, 124, 98, 32, 33, 124, 98, 32, 33] [98, 32, 33, 124, 98, 32, 33] 0
    (by decide) (by decide +kernel) (by decide +kernel) (by decide +kernel)]
  rw [cmds_b_bang_step f _ _ [98, 32, 33, 124, 98, 32, 33] [98, 32, 33, 124, 98, 32, 33] [32, 33, 124, 98, 32, 33]
    [98, 32, 33] 0 (by decide) (by decide +kernel) (by decide +kernel) (by decide +kernel)]
  rw [cmds_b_bang_step f _ _ [98, 32, 33] [98, 32, 33] [32, 33] [] 0
    (by decide) (by decide +kernel) (by decide +kernel) (by decide +kernel)]
  rw [cmds_nil]

end Neatvi.Lemmas.C02c
