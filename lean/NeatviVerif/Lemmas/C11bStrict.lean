import NeatviVerif.Lemmas.C11bLit
/-!
# C11b, part 6: the strict invariant — patterns without `{`

Without the brace branch of `rnode_atom` the parser never leaves the character boundaries of the
pattern: every literal and every bracket expression is the encoding of whole characters.
-/
namespace Neatvi.Props.C11b
open Neatvi Neatvi.Uc Neatvi.Regex Neatvi.Spec

/-! ## `brk_len` ends on a boundary -/

theorem getD_lt {s : Bytes} {n : Nat} (h : s.getD n 0 ≠ 0) : n < s.length := by
  by_cases hlt : n < s.length
  · exact hlt
  · rw [List.getD_eq_getElem?_getD, List.getElem?_eq_none (by omega)] at h
    simp at h

theorem brkLenLoop_zero (s : Bytes) : ∀ f n, s.getD n 0 = 0 → brkLenLoop s f n = n := by
  intro f n h
  cases f with
  | zero => rfl
  | succ f => rw [brkLenLoop]; simp only [h]; simp

/-- the scan stopped on the terminator or on a `]` -/
def Stop (s : Bytes) (r : Nat) : Prop := s.getD r 0 = 0 ∨ s.getD r 0 = 93

theorem brkLenLoop_spec (s : Bytes) : ∀ f n, n ≤ s.length →
    brkLenLoop s f n ≤ s.length ∧ (Stop s (brkLenLoop s f n) ∨ n + f ≤ brkLenLoop s f n) := by
  intro f
  induction f with
  | zero => intro n hn; exact ⟨hn, Or.inr (Nat.le_refl _)⟩
  | succ f ih =>
    intro n hn
    rw [brkLenLoop]
    dsimp only
    split
    · generalize hn1 : (if (s.getD n 0 == 91 && (s.getD (n + 1) 0 == 58 || s.getD (n + 1) 0 == 61)) = true
        then n + ((s.drop n).takeWhile (fun b => b != 93)).length else n) = n1
      have hb : n ≤ n1 ∧ n1 ≤ s.length := by
        subst hn1
        split
        · have := (List.takeWhile_sublist (l := s.drop n) (fun b => b != 93)).length_le
          simp only [List.length_drop] at this
          omega
        · omega
      by_cases hz : s.getD n1 0 = 0
      · simp only [hz, bne_self_eq_false, Bool.false_eq_true, if_false]
        rw [brkLenLoop_zero s f n1 hz]
        exact ⟨hb.2, Or.inl (Or.inl hz)⟩
      · have hlt := getD_lt hz
        have hne : (s.getD n1 0 != 0) = true := by simpa using hz
        simp only [hne, if_true]
        have := ih (n1 + 1) (by omega)
        refine ⟨this.1, ?_⟩
        rcases this.2 with h | h
        · exact Or.inl h
        · exact Or.inr (by omega)
    · rename_i hc
      refine ⟨hn, Or.inl ?_⟩
      simp at hc
      unfold Stop
      by_cases h0 : s.getD n 0 = 0
      · exact Or.inl h0
      · exact Or.inr (hc h0)

theorem brkLen_spec (s : Bytes) (hs : 1 ≤ s.length) :
    brkLen s ≤ s.length ∧ (Stop s (brkLen s) ∨ (0 < brkLen s ∧ s.getD (brkLen s - 1) 0 = 93)) := by
  unfold brkLen
  dsimp only
  generalize hn1 : (if (s.getD 1 0 == 94) = true then 1 + 1 else 1) = n1
  have h1 : n1 ≤ s.length := by
    subst hn1
    split
    · rename_i h
      have : s.getD 1 0 ≠ 0 := by rw [eq_of_beq h]; decide
      have := getD_lt this; omega
    · exact hs
  generalize hn2 : (if (s.getD n1 0 == 93) = true then n1 + 1 else n1) = n2
  have h2 : n2 ≤ s.length := by
    subst hn2
    split
    · rename_i h
      have : s.getD n1 0 ≠ 0 := by rw [eq_of_beq h]; decide
      have := getD_lt this; omega
    · exact h1
  have h3 := brkLenLoop_spec s (s.length + 1) n2 h2
  generalize brkLenLoop s (s.length + 1) n2 = n3 at h3
  have hstop : Stop s n3 := by
    rcases h3.2 with h | h
    · exact h
    · have := h3.1; omega
  split
  · rename_i h
    have he : s.getD n3 0 = 93 := eq_of_beq h
    have : s.getD n3 0 ≠ 0 := by rw [he]; decide
    have := getD_lt this
    exact ⟨by omega, Or.inr ⟨by omega, by rw [Nat.add_sub_cancel]; exact he⟩⟩
  · exact ⟨h3.1, Or.inl hstop⟩

/-- on valid UTF-8 `brk_len` ends on a character boundary: it stops on the terminator, on `]`, or
    just after a `]`, none of which is inside a multi-byte character -/
theorem brkLen_boundary {ls : List Nat} (hv : Valid ls) (hne : 1 ≤ (encStr ls).length) :
    Boundary ls (brkLen (encStr ls)) := by
  obtain ⟨hle, hst⟩ := brkLen_spec (encStr ls) hne
  have hnc : ¬ C12.IsCont ((encStr ls).getD (brkLen (encStr ls)) 0) := by
    intro hc
    unfold C12.IsCont at hc
    rcases hst with (h | h) | ⟨h0, h⟩
    · rw [h] at hc; omega
    · rw [h] at hc; omega
    · have hlt : brkLen (encStr ls) < (encStr ls).length := by
        apply getD_lt; omega
      have := C12.contPrev_encStr ls hv _ hlt hc
      rw [h] at this; omega
  obtain ⟨pre, post, e1, e2⟩ := C12.boundary_of_noncont ls hv _ hle hnc
  exact boundary_split.mpr ⟨pre, post, e1, e2⟩

/-! ## the strict invariant -/

/-- the remaining pattern is valid UTF-8 and contains no `{` -/
def NoBrace (p : Bytes) : Prop := StrictLit p ∧ 123 ∉ p

/-- literals and bracket expressions are encodings of whole characters -/
def StrictAtom2 (a : Atom) : Prop :=
  (a.k = AK.chr → StrictLit a.s) ∧ (a.k = AK.brk → StrictLit a.s)

theorem strict_take_drop {ls : List Nat} (hv : Valid ls) {n : Nat} (hb : Boundary ls n) :
    StrictLit ((encStr ls).take n) ∧ StrictLit ((encStr ls).drop n) := by
  obtain ⟨pre, post, h1, h2⟩ := boundary_split.mp hb
  have hv' := valid_append.mp (h1 ▸ hv)
  rw [h1, encStr_append, h2]
  exact ⟨⟨pre, hv'.1, by rw [List.take_left']; rfl⟩, ⟨post, hv'.2, by rw [List.drop_left']; rfl⟩⟩

theorem strict_drop_one {p : Bytes} (h : StrictLit p) (ha : p.headD 0 < 128) : StrictLit (p.drop 1) := by
  obtain ⟨ls, hv, e⟩ := h
  subst e
  cases ls with
  | nil => exact ⟨[], valid_nil, rfl⟩
  | cons c ls =>
    obtain ⟨a, t, he, hch⟩ := enc_chr (valid_cons.mp hv).1
    rw [encStr_cons, he] at ha ⊢
    simp at ha
    rcases hch.lead with ⟨_, ht⟩ | h2
    · subst ht
      exact ⟨ls, (valid_cons.mp hv).2, by simp⟩
    · omega

theorem noBrace_drop {p : Bytes} (h : NoBrace p) {k : Nat} (hs : StrictLit (p.drop k)) :
    NoBrace (p.drop k) := ⟨hs, fun hm => h.2 (List.mem_of_mem_drop hm)⟩

theorem noBrace_ascii {p : Bytes} (h : NoBrace p) (ha : p.headD 0 < 128) : NoBrace (p.drop 1) :=
  noBrace_drop h (strict_drop_one h.1 ha)

theorem strictAtom2_of_ne {k : AK} {s : Bytes} (h1 : k ≠ AK.chr) (h2 : k ≠ AK.brk) :
    StrictAtom2 ⟨k, s⟩ := ⟨fun hk => absurd hk h1, fun hk => absurd hk h2⟩

theorem lit_atom_strict {q : Bytes} (hq : StrictLit q) {f : Nat} {a : Atom} {rest : Bytes}
    (h : (litLoop q f 0).map (fun n => ((⟨AK.chr, q.take n⟩ : Atom), q.drop n)) = some (a, rest)) :
    StrictAtom2 a ∧ ∃ n, rest = q.drop n ∧ StrictLit rest := by
  obtain ⟨ls, hv, e⟩ := hq
  subst e
  cases hl : litLoop (encStr ls) f 0 with
  | none => rw [hl] at h; simp at h
  | some n =>
    rw [hl] at h
    simp only [Option.map_some, Option.some.injEq, Prod.mk.injEq] at h
    obtain ⟨ha, hr⟩ := h
    subst ha; subst hr
    have := lit_take_strict hv hl
    exact ⟨⟨fun _ => this.1, fun hk => by simp at hk⟩, n, rfl, this.2⟩

theorem beq_lt' {x : Nat} {c : Nat} (h : (x == c) = true) (hc : c < 128) : x < 128 := by
  have := eq_of_beq h; omega

/-- `ratom_read` on a pattern position without `{` -/
theorem ratomRead_noBrace {p : Bytes} {a : Atom} {rest : Bytes} (hp : NoBrace p)
    (h : ratomRead p = some (a, rest)) : StrictAtom2 a ∧ NoBrace rest := by
  unfold ratomRead at h
  split at h
  · rw [litLoop_nil_none] at h; simp at h
  · rename_i c r
    have hr1 : ∀ x, (c == x) = true → x < 128 → NoBrace r := fun x hx hlt =>
      noBrace_ascii (p := c :: r) hp (beq_lt' hx hlt)
    split at h
    · rename_i hc
      simp only [Option.some.injEq, Prod.mk.injEq] at h
      obtain ⟨ha, hr'⟩ := h; subst ha; subst hr'
      exact ⟨strictAtom2_of_ne (by decide) (by decide), hr1 _ hc (by decide)⟩
    · split at h
      · rename_i hc
        simp only [Option.some.injEq, Prod.mk.injEq] at h
        obtain ⟨ha, hr'⟩ := h; subst ha; subst hr'
        exact ⟨strictAtom2_of_ne (by decide) (by decide), hr1 _ hc (by decide)⟩
      · split at h
        · rename_i hc
          simp only [Option.some.injEq, Prod.mk.injEq] at h
          obtain ⟨ha, hr'⟩ := h; subst ha; subst hr'
          exact ⟨strictAtom2_of_ne (by decide) (by decide), hr1 _ hc (by decide)⟩
        · split at h
          · simp only [Option.some.injEq, Prod.mk.injEq] at h
            obtain ⟨ha, hr'⟩ := h; subst ha; subst hr'
            obtain ⟨ls, hv, e⟩ := hp.1
            have hb : Boundary ls (brkLen (c :: r)) := by
              rw [e]; exact brkLen_boundary hv (by rw [← e]; simp)
            have := strict_take_drop hv hb
            rw [← e] at this
            exact ⟨⟨fun hk => by simp at hk, fun _ => this.1⟩, noBrace_drop hp this.2⟩
          · split at h
            · rename_i hc
              have hr : NoBrace r := hr1 _ hc (by decide)
              split at h
              · rename_i hc2
                simp only [Option.some.injEq, Prod.mk.injEq] at h
                obtain ⟨ha, hr'⟩ := h; subst ha; subst hr'
                exact ⟨strictAtom2_of_ne (by decide) (by decide),
                  noBrace_ascii hr (beq_lt' hc2 (by decide))⟩
              · split at h
                · rename_i hc2
                  simp only [Option.some.injEq, Prod.mk.injEq] at h
                  obtain ⟨ha, hr'⟩ := h; subst ha; subst hr'
                  exact ⟨strictAtom2_of_ne (by decide) (by decide),
                    noBrace_ascii hr (beq_lt' hc2 (by decide))⟩
                · obtain ⟨hq, n, e, hs⟩ := lit_atom_strict hr.1 h
                  subst e
                  exact ⟨hq, noBrace_drop hr hs⟩
            · obtain ⟨hq, n, e, hs⟩ := lit_atom_strict hp.1 h
              subst e
              exact ⟨hq, noBrace_drop hp hs⟩

theorem parseInv_noBrace : ParseInv NoBrace StrictAtom2 where
  ascii := fun _ hp ha => noBrace_ascii hp ha
  brace := fun p hp hb k => by
    exfalso
    apply hp.2
    cases p with
    | nil => simp at hb
    | cons x r => simp at hb; subst hb; simp
  atom := fun _ _ _ hp h => ratomRead_noBrace hp h

end Neatvi.Props.C11b
