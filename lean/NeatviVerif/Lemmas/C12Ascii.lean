import NeatviVerif.Lemmas.C12Main
import NeatviVerif.Lemmas.UcBits
/-!
# C12 lemmas, part 9: ASCII subjects and literals satisfy `SubjOk`
-/
namespace Neatvi.C12
open Neatvi Neatvi.Uc Neatvi.Regex Neatvi.Rset

/-- every byte is a non-NUL ASCII byte -/
def Ascii (s : Bytes) : Prop := ∀ c ∈ s, 0 < c ∧ c < 128

theorem rxLen_ascii {s : Bytes} (hs : Ascii s) {i : Nat} (hi : i < s.length) : rxLen s i = 1 := by
  have hc := hs _ (getD_mem hi)
  unfold rxLen
  rw [ucLen_ascii hc.1 hc.2]
  omega

theorem starts_ascii {s : Bytes} (hs : Ascii s) : ∀ r, r ≤ s.length → Starts s r := by
  intro r
  induction r with
  | zero => intro _; exact Starts.zero
  | succ r ih =>
    intro hr
    have := Starts.step (ih (by omega)) (by omega : r < s.length)
    rw [rxLen_ascii hs (by omega)] at this
    exact this

theorem contB_ascii {c : Nat} (h : c < 128) : contB c = false := by
  rw [contB_eq c (by omega)]
  simp; omega

theorem prevLead_ascii {s : Bytes} (hs : Ascii s) {p : Nat} (h0 : 0 < p) (hp : p ≤ s.length) :
    prevLead s p = s.getD (p - 1) 0 := by
  obtain ⟨q, rfl⟩ : ∃ q, p = q + 1 := ⟨p - 1, by omega⟩
  have hq : q < s.length := by omega
  have hc := hs _ (getD_mem hq)
  unfold prevLead
  rw [List.take_add_one, List.getElem?_eq_getElem hq]
  simp only [Option.toList_some, List.reverse_append, List.reverse_cons, List.reverse_nil, List.nil_append,
    List.cons_append, List.headD_cons, List.drop_succ_cons, List.drop_zero, Nat.add_sub_cancel]
  have hg : s.getD q 0 = s[q] := by
    rw [List.getD_eq_getElem?_getD, List.getElem?_eq_getElem hq]; rfl
  rw [hg] at hc ⊢
  have hk : ucBeg s[q] (s.take q).reverse = 0 := by
    cases (s.take q).reverse with
    | nil => rfl
    | cons x t => simp [ucBeg, contB_ascii hc.2]
  rw [hk]
  rfl

theorem ucCode_low {t : Bytes} (h : Bytes.hd t < 128) : ucCode t = some (Bytes.hd t) := by
  unfold ucCode
  have := andc0n (Bytes.hd t) (by omega)
  simp only [this]
  simp; omega

theorem foldc_true (c : Nat) : foldc true c = lowerB c := by
  unfold foldc lowerB isUpperB
  by_cases h : 65 ≤ c ∧ c ≤ 90
  · have : c < 128 := by omega
    simp [h, this]
  · by_cases h1 : 65 ≤ c <;> by_cases h2 : c ≤ 90 <;> simp [h1, h2] <;> omega

theorem lowerB_pos {c : Nat} (h : 0 < c) : 0 < lowerB c := by
  unfold lowerB; split <;> omega

theorem hd_drop (s : Bytes) (i : Nat) : Bytes.hd (s.drop i) = s.getD i 0 := by
  unfold Bytes.hd
  rw [List.headD_eq_head?_getD, List.head?_drop, List.getD_eq_getElem?_getD]

theorem drop_eq_cons {s : Bytes} {i : Nat} (h : i < s.length) : s.drop i = s.getD i 0 :: s.drop (i + 1) := by
  rw [List.getD_eq_getElem?_getD, List.getElem?_eq_getElem h]
  simp

theorem nat_bne_false {a b : Nat} (h : a = b) : (a != b) = false := by subst h; simp
theorem nat_bne_true {a b : Nat} (h : a ≠ b) : (a != b) = true := by simp [h]

theorem chrIcase_step {lit subj : Bytes} {f k r b : Nat} (h : rdb lit k = some b) (hb : b ≠ 0) :
    chrIcase lit subj (f + 1) k r =
      match decAt lit k, decAt subj r with
      | some c1, some c2 =>
        if foldc true c1 != foldc true c2 || foldc true c2 == 0 then AR.fail
        else chrIcase lit subj f (k + rxLen lit k) (r + rxLen subj r)
      | _, _ => AR.trap := by
  rw [chrIcase, h]
  cases b with
  | zero => exact absurd rfl hb
  | succ b' => rfl

theorem nat_beq_zero_false {a : Nat} (h : 0 < a) : (a == 0) = false := by
  cases a with
  | zero => omega
  | succ n => rfl

/-- with ICASE on ASCII, the engine's folding comparison is the fast path's `tolower` comparison -/
theorem chrIcase_ascii {s lit : Bytes} (hs : Ascii s) (hl : Ascii lit) :
    ∀ (f k p : Nat), k ≤ lit.length → lit.length - k + 1 ≤ f → p ≤ s.length →
      chrIcase lit s f k p =
        if matchCase (s.drop p) (lit.drop k) true = true then AR.ok (p + (lit.length - k)) else AR.fail := by
  intro f
  induction f with
  | zero => intro k p _ hf _; omega
  | succ f ih =>
    intro k p hk hf hp
    by_cases hkl : k = lit.length
    · subst hkl
      rw [chrIcase, rdb_le hk, getD_eq_zero_of_ge (Nat.le_refl _)]
      simp [matchCase_nil]
    · have hklt : k < lit.length := by omega
      have hc1 := hl _ (getD_mem hklt)
      rw [chrIcase_step (rdb_le hk) (by omega)]
      have hd1 : decAt lit k = some (lit.getD k 0) := by
        unfold decAt
        rw [if_pos hk, ucCode_low (by rw [hd_drop]; omega), hd_drop]
      have hc2 : s.getD p 0 < 128 := by
        by_cases h : p < s.length
        · exact (hs _ (getD_mem h)).2
        · rw [getD_eq_zero_of_ge (by omega)]; omega
      have hd2 : decAt s p = some (s.getD p 0) := by
        unfold decAt
        rw [if_pos hp, ucCode_low (by rw [hd_drop]; omega), hd_drop]
      rw [hd1, hd2]
      dsimp only
      rw [foldc_true, foldc_true, rxLen_ascii hl hklt, drop_eq_cons hklt]
      by_cases hlt : p < s.length
      · rw [drop_eq_cons hlt, matchCase_cons, rxLen_ascii hs hlt]
        simp only [if_true]
        have hz := nat_beq_zero_false (lowerB_pos (hs _ (getD_mem hlt)).1)
        rw [hz, Bool.or_false]
        by_cases heq : lowerB (lit.getD k 0) = lowerB (s.getD p 0)
        · have e1 : (lowerB (lit.getD k 0) != lowerB (s.getD p 0)) = false := nat_bne_false heq
          have e2 : (lowerB (s.getD p 0) != lowerB (lit.getD k 0)) = false := nat_bne_false heq.symm
          rw [e1, e2]
          simp only [Bool.false_eq_true, if_false]
          rw [ih (k + 1) (p + 1) (by omega) (by omega) (by omega),
            show p + 1 + (lit.length - (k + 1)) = p + (lit.length - k) by omega]
        · have e1 : (lowerB (lit.getD k 0) != lowerB (s.getD p 0)) = true := nat_bne_true heq
          have e2 : (lowerB (s.getD p 0) != lowerB (lit.getD k 0)) = true :=
            nat_bne_true (fun h => heq h.symm)
          rw [e1, e2]
          simp
      · have hz : s.getD p 0 = 0 := getD_eq_zero_of_ge (by omega)
        have hdz : s.drop p = [] := List.drop_eq_nil_of_le (by omega)
        rw [hz, hdz, matchCase_nil_left]
        have h0 : (lowerB 0 == 0) = true := by decide
        rw [h0, Bool.or_true]
        simp

/-- **ASCII instance**: an ASCII subject and a non-empty ASCII literal satisfy the hypotheses of the
    agreement theorem, with or without ICASE -/
theorem subjOk_ascii {s lit : Bytes} (hs : Ascii s) (hl : Ascii lit) (hne : lit ≠ []) (ic : Bool) :
    SubjOk s lit ic := by
  refine ⟨?_, ?_, ?_⟩
  · intro r h
    have h1 := matchCase_length _ _ h
    have hpos : 0 < lit.length := by cases lit <;> simp_all
    rw [List.length_drop] at h1
    exact starts_ascii hs r (by omega)
  · intro p h0 hp
    rw [prevLead_ascii hs h0 hp]
  · intro _ r hst
    have := chrIcase_ascii hs hl (lit.length + 2) 0 r (by omega) (by omega) hst.le
    simpa using this

end Neatvi.C12
