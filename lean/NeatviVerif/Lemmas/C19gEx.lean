import NeatviVerif.Lemmas.C19gLocal
/-!
# C19g helper lemmas, part 3: every ex command line keeps `LOk` (`ExKeepsLeft`)

The table commands — `:q` (switches to the first modified buffer), `:b` in all its forms, `:e` in all
its forms (also with a `+cmd`) — and the commands that run other command lines (`:g`, `:@`), then
`runCmd`, `exExec`, `exCommand` by induction on the fuel of the mutual block.  The scheme is that of
`Lemmas/C20cRun.lean` (`StepClosed`), instantiated by hand for the relation `LK`: `StepClosed` itself
cannot be used because its local steps (`Loc`) say nothing about `xleft`.
-/
set_option linter.unusedSimpArgs false
set_option linter.unusedVariables false
set_option linter.unusedSectionVars false

namespace Neatvi.Lemmas.C19g
open Neatvi Neatvi.Lbuf Neatvi.Ex Neatvi.Rset Neatvi.Props.C20 Neatvi.Props.C20b Neatvi.Lemmas.C20b
open Neatvi.Lemmas.C19f (LOk ExKeepsLeft)
open Neatvi.Lemmas.C20c (tableHandler lbufSaveP_io runCmd_b_list listEd quiet_listEd runCmd_at runCmd_glob)
open Neatvi.Lemmas.ExFrame Neatvi.Lemmas.C02Ex Neatvi.Lemmas.C02b Neatvi.Lemmas.C02c

variable {P : Int → Prop} [HasZero P]

/-! ### `:q` -/

theorem each_lk (cmd : Bytes) (all : Bool) : ∀ (g i : Nat) (ed ed' : Ed) (r : Bool),
    runCmd.each cmd all g i ed = some (r, ed') → LK P ed ed' := by
  intro g
  induction g with
  | zero => intro i ed ed' r h; rw [runCmd.each.eq_1] at h; cases h; exact LK.refl _
  | succ g ih =>
    intro i ed ed' r h
    rw [runCmd.each.eq_2] at h
    split at h
    · cases h; exact LK.refl _
    · split at h
      · exact ih _ _ _ _ h
      · rename_i b0 hb0
        simp only [] at h
        split at h
        · cases h
        · rename_i ed1 hchk
          have q1 : LK P ed ed1 := by
            split at hchk
            · exact lk_bufsModified hchk
            · cases hchk
          cases h
          exact q1.trans (lk_bufsSwitch _ _)
        · rename_i ed1 hchk
          have h1 : LK P ed ed1 := by
            split at hchk
            · exact lk_bufsModified hchk
            · cases hchk; exact LK.refl _
          split at h
          · split at h
            · cases h
            · rename_i b1 hb1
              split at h
              · cases h
              · rename_i err ed2 hs
                have io := lbufSaveP_io _ _ _ _ _ _ _ _ _ hs
                cases h
                exact ((h1.trans (lk_io io)).trans (lk_bufsSwitch _ _)).to rfl rfl
              · rename_i ed2 hs
                have io := lbufSaveP_io _ _ _ _ _ _ _ _ _ hs
                exact (h1.trans (lk_io io)).trans (ih _ _ _ _ h)
          · exact h1.trans (ih _ _ _ _ h)

theorem quit_lk (f : Nat) (ed ed' : Ed) (loc cmd arg : Bytes) (txt : Option Bytes) (r : Int)
    (h : runCmd (f + 1) ed "ec_quit" loc cmd arg txt = some (r, ed')) : LK P ed ed' := by
  rw [runCmd_quit] at h
  split at h
  · cases h
  · rename_i rc ed1 hw
    have h1 : LK P ed ed1 := by
      split at hw
      · exact ecWrite_lk hw
      · cases hw; exact LK.refl _
    split at h
    · cases h; exact h1
    · split at h
      · cases h
      · rename_i he; cases h; exact h1.trans (each_lk _ _ _ _ _ _ _ he)
      · rename_i he; cases h; exact (h1.trans (each_lk _ _ _ _ _ _ _ he)).to rfl rfl

/-! ### `:b` -/

theorem switchTo_lk (ed ed' : Ed) (cmd : Bytes) (idx r : Int) (h : switchTo ed cmd idx = some (r, ed')) : LK P ed ed' := by
  unfold switchTo at h
  split at h
  · split at h
    · cases h
    · next ed1 hg =>
      cases h
      unfold bufferGuard at hg
      exact lk_guard hg
    · next ed1 hg =>
      cases h
      unfold bufferGuard at hg
      exact (lk_guard hg).trans (lk_bufsSwitch _ _)
  · cases h
    exact LK.of_same ⟨rfl, rfl⟩

theorem buffer_lk (f : Nat) (ed ed' : Ed) (loc cmd arg : Bytes) (txt : Option Bytes) (r : Int)
    (h : runCmd (f + 1) ed "ec_buffer" loc cmd arg txt = some (r, ed')) : LK P ed ed' := by
  cases h0 : arg.isEmpty
  · by_cases h33 : arg.headD 0 = 33
    · rw [runCmd_b_delete f ed loc cmd arg txt h33] at h
      cases h
      exact lk_delEd ed
    · by_cases h126 : arg.headD 0 = 126
      · rw [runCmd_b_renumber f ed loc cmd arg txt h126] at h
        cases h
        exact lk_renum ed
      · obtain ⟨idx, hs⟩ := runCmd_b_switch f ed loc cmd arg txt h0 h33 h126
        rw [hs] at h
        exact switchTo_lk ed ed' cmd idx r h
  · rw [runCmd_b_list f ed loc cmd arg txt h0] at h
    cases h
    exact lk_quiet (quiet_listEd ed)

/-! ### `:e` -/

theorem editOpen_lk (ed : Ed) (path : Bytes) : LK P ed (editOpen ed path) := by
  unfold editOpen
  split
  · simp only []
    exact (lk_bufsOpen ed path).trans (lk_bufsSwitch _ _)
  · exact LK.refl _

theorem ewPre_lk (ed : Ed) (cmd path : Bytes) : LK P ed (ewPre ed cmd path) := by
  unfold ewPre
  split
  · exact lk_bufsSwitch _ _
  · exact LK.refl _

theorem editFinish_lk (ed ed' : Ed) (path : Bytes) (h : editFinish ed path = some ed') : LK P ed ed' := by
  unfold editFinish at h
  split at h
  · cases h
  · rename_i b hb
    split at h
    · cases h
    · rename_i ed1 hrd
      have l1 : LK P ed ed1 := by
        unfold editRead at hrd
        split at hrd
        · split at hrd
          · cases hrd; exact LK.refl _
          · split at hrd
            · cases hrd
            · cases hrd
              exact (lk_setLb _ _).to rfl rfl
        · cases hrd; exact LK.refl _
      split at h
      · cases h
      · rename_i b1 hb1
        cases h
        exact LK.trans l1 (LK.to
          (b := ed1.setCur { b1 with lb := (modified (savedCore b1.lb (!path.isEmpty))).2, mtime := ed1.mtimeOf b1.path })
          (lk_setCur hb1 rfl) rfl rfl)

theorem editPlus_lk (f : Nat) (hcmd : ∀ ed ln r ed', exCommand f ed ln = some (r, ed') → LK P ed ed')
    (pls : Bytes) (ed ed' : Ed) (r : Int) (h : editPlus f pls ed = some (r, ed')) : LK P ed ed' := by
  unfold editPlus at h
  split at h
  · exact hcmd _ _ _ _ h
  · cases h; exact LK.refl _

theorem ecEdit_lk (f : Nat) (hcmd : ∀ ed ln r ed', exCommand f ed ln = some (r, ed') → LK P ed ed')
    (ed ed' : Ed) (cmd arg : Bytes) (r : Int)
    (h : ecEdit (f + 1) ed cmd arg = some (r, ed')) : LK P ed ed' := by
  rw [ecEdit_stages] at h
  split at h
  · cases h
  · rename_i ed1 hg
    cases h
    unfold editGuard at hg
    exact lk_guard hg
  · rename_i ed1 hg
    unfold editGuard at hg
    have e1 : LK P ed ed1 := lk_guard hg
    split at h
    · cases h
    · rename_i ed2 hp
      cases h
      exact e1.same (pathExpand_sameL hp)
    · rename_i path ed2 hp
      have e2 : LK P ed ed2 := e1.same (pathExpand_sameL hp)
      have e3 : LK P ed (ewPre ed2 cmd path) := e2.trans (ewPre_lk ed2 cmd path)
      split at h
      · exact (e3.trans (lk_bufsSwitch _ _)).trans (editPlus_lk f hcmd _ _ _ _ h)
      · split at h
        · cases h
        · rename_i ed3 hg2
          cases h
          unfold editGuard2 at hg2
          exact e3.trans (lk_guard hg2)
        · rename_i ed3 hg2
          unfold editGuard2 at hg2
          have e4 : LK P ed ed3 := e3.trans (lk_guard hg2)
          split at h
          · cases h
          · rename_i ed5 hfin
            have e5 : LK P ed ed5 := (e4.trans (editOpen_lk ed3 path)).trans (editFinish_lk _ _ _ hfin)
            exact e5.trans (editPlus_lk f hcmd _ _ _ _ h)

/-! ### `:@` and `:g` -/

theorem ecAt_lk (f : Nat) (hcmd : ∀ ed ln r ed', exCommand f ed ln = some (r, ed') → LK P ed ed')
    (ed ed' : Ed) (loc cmd arg : Bytes) (r : Int)
    (h : ecAt (f + 1) ed loc cmd arg = some (r, ed')) : LK P ed ed' := by
  rw [ecAt] at h
  split at h
  · cases h; exact LK.refl _
  · split at h
    · cases h
    · rename_i hr
      have e1 : LK P ed _ := LK.of_same (exRegion_sameL hr)
      split at h
      · cases h; exact e1
      · split at h
        · cases h; exact e1.to rfl rfl
        · simp only [] at h
          split at h
          · cases h; exact e1.to rfl rfl
          · split at h
            · cases h
            · rename_i hx
              cases h
              have e2 := hcmd _ _ _ _ hx
              exact LK.to (LK.trans (LK.to e1 rfl rfl) e2) rfl rfl

theorem adv_lk (dep : Nat) : ∀ (h : Nat) (ed : Ed) (i : Int), LK P ed (ecGlob.scan.adv dep h ed i).1 := by
  intro h
  induction h with
  | zero => intro ed i; rw [ecGlob.scan.adv]; exact LK.refl _
  | succ h ih =>
    intro ed i
    rw [ecGlob.scan.adv]
    split
    · exact LK.refl _
    · split
      · exact LK.refl _
      · rename_i lb hlb
        simp only []
        have e1 : LK P ed (ed.setLb (globGet lb i.toNat dep).2) := lk_setLb _ _
        split
        · exact e1
        · exact e1.trans (ih _ _)

theorem foldl_lk {α} (F : Ed → α → Ed) (hF : ∀ s a, LK P s (F s a)) : ∀ (l : List α) (s : Ed), LK P s (l.foldl F s) := by
  intro l
  induction l with
  | nil => intro s; exact LK.refl _
  | cons a l ih => intro s; exact (hF s a).trans (ih _)

theorem scan_lk (f : Nat) (neg : Bool) (s : Bytes) (re : RStr) (dep : Nat)
    (hbody : ∀ ed ln r ed', exExec f ed ln = some (r, ed') → LK P ed ed') :
    ∀ (g : Nat) (ed : Ed) (i : Int) (ed' : Ed), ecGlob.scan f neg s re dep g ed i = some ed' → LK P ed ed' := by
  intro g
  induction g with
  | zero => intro ed i ed' h; rw [ecGlob.scan] at h; cases h
  | succ g ih =>
    intro ed i ed' h
    rw [ecGlob.scan] at h
    split at h
    · cases h; exact LK.refl _
    · split at h
      · cases h
      · split at h
        · cases h
        · simp only [] at h
          split at h
          · cases h
          · rename_i edx _ hstep
            cases h
            split at hstep
            · split at hstep
              · cases hstep
              · rename_i hx
                split at hstep
                · cases hstep
                  refine LK.trans ?_ (hbody _ _ _ _ hx)
                  exact LK.of_same ⟨rfl, rfl⟩
                · cases hstep
            · cases hstep
          · rename_i edx ix hstep
            have e1 : LK P ed edx := by
              split at hstep
              · split at hstep
                · cases hstep
                · rename_i hx
                  split at hstep
                  · cases hstep
                  · cases hstep
                    refine LK.trans ?_ (hbody _ _ _ _ hx)
                    exact LK.of_same ⟨rfl, rfl⟩
              · cases hstep; exact LK.refl _
            split at h
            · cases h
            · exact (e1.trans (adv_lk _ _ _ _)).trans (ih _ _ _ h)

open Neatvi.Props.C15 in
theorem ecGlob_lk (f : Nat) (hbody : ∀ ed ln r ed', exExec f ed ln = some (r, ed') → LK P ed ed')
    (ed ed' : Ed) (loc cmd arg : Bytes) (r : Int)
    (h : ecGlob (f + 1) ed loc cmd arg = some (r, ed')) : LK P ed ed' := by
  rw [ecGlob_eq] at h
  split at h
  · cases h; exact LK.of_same ⟨rfl, rfl⟩
  split at h
  · cases h
  · rename_i rc b e ed1 hr
    have e1 : LK P ed ed1 := LK.of_same (exRegion_sameL hr)
    have e2 : LK P ed (globPrep ed1 arg) := e1.same (globPrep_sameL ed1 arg)
    split at h
    · cases h; exact e1
    · split at h
      · cases h; exact e2
      · split at h
        · cases h
        · cases h; exact e2
        · split at h
          · cases h
          · rename_i ed2 hscan
            cases h
            have e4 : LK P ed (globMark (globPrep ed1 arg) b e ((globPrep ed1 arg).xgdep + 1)) := by
              unfold globMark
              refine LK.trans (b := { globPrep ed1 arg with xgdep := (globPrep ed1 arg).xgdep + 1 }) (e2.to rfl rfl)
                (foldl_lk _ ?_ _ _)
              intro s k
              split
              · exact lk_setLb _ _
              · exact LK.refl _
            have e3 := e4.trans (scan_lk f _ _ _ _ hbody _ _ _ _ hscan)
            have e5 : LK P ed (globSweep ed2 ((globPrep ed1 arg).xgdep + 1)) := by
              refine e3.trans ?_
              unfold globSweep
              split
              · exact lk_setLb _ _
              · exact LK.refl _
            exact e5.to rfl rfl

/-! ### the dispatcher, command lines, the induction on the fuel -/

def ExecL (P : Int → Prop) (f : Nat) : Prop := ∀ ed ln r ed', exExec f ed ln = some (r, ed') → LK P ed ed'
def CmdL (P : Int → Prop) (f : Nat) : Prop := ∀ ed ln r ed', exCommand f ed ln = some (r, ed') → LK P ed ed'
def RunL (P : Int → Prop) (f : Nat) : Prop := ∀ ed h loc cmd arg txt r ed',
  runCmd f ed h loc cmd arg txt = some (r, ed') → LK P ed ed'

theorem runCmd_lk (f : Nat)
    (hat : ∀ ed loc cmd arg r ed', ecAt f ed loc cmd arg = some (r, ed') → LK P ed ed')
    (hglob : ∀ ed loc cmd arg r ed', ecGlob f ed loc cmd arg = some (r, ed') → LK P ed ed')
    (hedit : ∀ ed cmd arg r ed', ecEdit f ed cmd arg = some (r, ed') → LK P ed ed') : RunL P (f + 1) := by
  intro ed hd loc cmd arg txt r ed' h
  cases hl : tableHandler hd
  · exact runCmd_local_lk f ed ed' hd loc cmd arg txt r hl h
  · simp only [tableHandler, Bool.or_eq_true, beq_iff_eq] at hl
    rcases hl with (((he | hb) | hq) | hg) | ha
    · subst he; rw [runCmd_edit] at h; exact hedit _ _ _ _ _ h
    · subst hb; exact buffer_lk f ed ed' loc cmd arg txt r h
    · subst hq; exact quit_lk f ed ed' loc cmd arg txt r h
    · subst hg; rw [runCmd_glob] at h; exact hglob _ _ _ _ _ _ h
    · subst ha; rw [runCmd_at] at h; exact hat _ _ _ _ _ _ h

theorem cmds_lk (f : Nat) (hrun : RunL P f) :
    ∀ (g : Nat) (ed : Ed) (ln : Bytes) (ret r : Int) (ed' : Ed),
      exExec.cmds f g ed ln ret = some (r, ed') → LK P ed ed' := by
  intro g
  induction g with
  | zero => intro ed ln ret r ed' h; rw [exExec.cmds] at h; cases h; exact LK.refl _
  | succ g ih =>
    intro ed ln ret r ed' h
    rw [exExec.cmds] at h
    split at h
    · cases h; exact LK.refl _
    · generalize exLoc ln = p1 at h
      obtain ⟨loc, l1⟩ := p1
      simp only [] at h
      generalize exCmd l1 = p2 at h
      obtain ⟨cmd, l2⟩ := p2
      simp only [] at h
      generalize exIdx cmd = idx at h
      cases idx with
      | none =>
        simp only [] at h
        generalize exArg l2 (strOf "unknown") = p3 at h
        obtain ⟨arg, l3⟩ := p3
        simp only [] at h
        have hb := exTxt_sameL ed l3 (strOf "unknown")
        generalize exTxt ed l3 (strOf "unknown") = X at h hb
        obtain ⟨⟨txt, l4⟩, edT⟩ := X
        simp only [] at h hb
        refine LK.trans ?_ (ih _ _ _ _ _ h)
        exact (LK.of_same hb).to rfl rfl
      | some ah =>
        obtain ⟨a, hh⟩ := ah
        simp only [] at h
        generalize exArg l2 a = p3 at h
        obtain ⟨arg, l3⟩ := p3
        simp only [] at h
        have hb := exTxt_sameL ed l3 a
        generalize exTxt ed l3 a = X at h hb
        obtain ⟨⟨txt, l4⟩, edT⟩ := X
        simp only [] at h hb
        split at h
        · cases h
        · rename_i r1 ed1 hr
          exact ((LK.of_same hb).trans (hrun _ _ _ _ _ _ _ _ hr)).trans (ih _ _ _ _ _ h)

theorem exExec_lk' (f : Nat) (hrun : RunL P f) : ExecL P (f + 1) := by
  intro ed ln r ed' h
  rw [exExec] at h
  split at h
  · cases h; exact LK.of_same ⟨rfl, rfl⟩
  · exact cmds_lk f hrun _ _ _ _ _ _ h

theorem exCommand_lk' (f : Nat) (hx : ExecL P f) : CmdL P (f + 1) := by
  intro ed ln r ed' h
  rw [exCommand] at h
  split at h
  · cases h
  · rename_i r1 ed1 he
    cases h
    exact (hx _ _ _ _ he).trans (lk_modifiedAt _ 0)

theorem all_lk : ∀ f : Nat, ExecL P f ∧ CmdL P f ∧ RunL P f ∧ RunL P (f + 1) := by
  intro f
  induction f with
  | zero =>
    refine ⟨?_, ?_, ?_, ?_⟩
    · intro ed ln r ed' h; rw [exExec] at h; cases h
    · intro ed ln r ed' h; rw [exCommand] at h; cases h
    · intro ed hd loc cmd arg txt r ed' h; rw [runCmd] at h; cases h
    · refine runCmd_lk 0 ?_ ?_ ?_
      · intro ed loc cmd arg r ed' h; rw [ecAt] at h; cases h
      · intro ed loc cmd arg r ed' h; rw [ecGlob] at h; cases h
      · intro ed cmd arg r ed' h; rw [ecEdit] at h; cases h
  | succ f ih =>
    obtain ⟨hx, hc, hr0, hr1⟩ := ih
    refine ⟨exExec_lk' f hr0, exCommand_lk' f hx, hr1, ?_⟩
    refine runCmd_lk (f + 1) ?_ ?_ ?_
    · intro ed loc cmd arg r ed' h; exact ecAt_lk f hc ed ed' loc cmd arg r h
    · intro ed loc cmd arg r ed' h; exact ecGlob_lk f hx ed ed' loc cmd arg r h
    · intro ed cmd arg r ed' h; exact ecEdit_lk f hc ed ed' cmd arg r h

/-- a command line `c1|c2|…` keeps `LOk`, whatever it contains and whatever the fuel -/
theorem exExec_lk {f : Nat} {ed ed' : Ed} {ln : Bytes} {r : Int} (h : exExec f ed ln = some (r, ed')) : LK P ed ed' :=
  (all_lk f).1 _ _ _ _ h

/-- `ex_command` keeps `LOk` -/
theorem exCommand_lk {f : Nat} {ed ed' : Ed} {ln : Bytes} {r : Int} (h : exCommand f ed ln = some (r, ed')) : LK P ed ed' :=
  (all_lk f).2.1 _ _ _ _ h

/-- every `ec_*` handler keeps `LOk` -/
theorem runCmd_lk_all {f : Nat} {ed ed' : Ed} {hd : String} {loc cmd arg : Bytes} {txt : Option Bytes} {r : Int}
    (h : runCmd f ed hd loc cmd arg txt = some (r, ed')) : LK P ed ed' :=
  (all_lk f).2.2.1 _ _ _ _ _ _ _ _ h

/-- `ec_edit`, also with a `+cmd` -/
theorem ecEdit_lk_all {f : Nat} {ed ed' : Ed} {cmd arg : Bytes} {r : Int}
    (h : ecEdit f ed cmd arg = some (r, ed')) : LK P ed ed' := by
  cases f with
  | zero => rw [ecEdit] at h; cases h
  | succ f => exact ecEdit_lk f (all_lk f).2.1 ed ed' cmd arg r h

/-- one round of the `ex()` loop -/
theorem exStep_lk {ed ed' : Ed} {r : Int} (h : exStep ed = some (r, ed')) : LK P ed ed' := by
  unfold exStep at h
  split at h
  · cases h
  · rename_i ln rest hin
    simp only [] at h
    split at h
    · cases h
    · rename_i r1 ed1 hc
      cases h
      refine LK.to (LK.trans ?_ (exCommand_lk hc)) rfl rfl
      exact LK.of_same ⟨rfl, rfl⟩

/-- `ex_init` -/
theorem exInit_lk {ed ed' : Ed} {files : List Bytes} {r : Int} (h : exInit ed files = some (r, ed')) : LK P ed ed' :=
  ecEdit_lk_all h

/-- **`ExKeepsLeft`**: the hypothesis of `C19f.col_invariant_reachable_of_ex` -/
theorem exKeepsLeft : ExKeepsLeft := fun _ _ _ _ h hl => exCommand_lk (P := fun x : Int => 0 ≤ x) h hl

end Neatvi.Lemmas.C19g
