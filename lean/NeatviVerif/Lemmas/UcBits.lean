import NeatviVerif.Model.Uc
import NeatviVerif.Spec.Utf8
/-! Byte-level facts about the masks used in `uc.c`, by kernel evaluation over all 256 bytes,
and the arithmetic of `enc`. -/
namespace Neatvi.Uc
open Neatvi Neatvi.Spec

theorem byte_facts : ∀ a : Fin 256,
    ((a.val &&& 0x80 == 0) = decide (a.val < 128)) ∧
    ((a.val &&& 0xc0 == 0xc0) = decide (192 ≤ a.val)) ∧
    ((a.val &&& 0xc0 != 0xc0) = decide (a.val < 192)) ∧
    (contB a.val = decide (128 ≤ a.val ∧ a.val < 192)) ∧
    ((a.val &&& 0x20 == 0) = decide (a.val % 64 < 32)) ∧
    ((a.val &&& 0x10 == 0) = decide (a.val % 32 < 16)) ∧
    ((a.val &&& 0x08 == 0) = decide (a.val % 16 < 8)) := by decide +kernel

theorem ucLen_spec_fin : ∀ a : Fin 256, ucLen a.val = specLen a.val := by decide +kernel

theorem ucLen_spec (b : Nat) (h : b < 256) : ucLen b = specLen b := ucLen_spec_fin ⟨b, h⟩

theorem and80 (a : Nat) (h : a < 256) : (a &&& 0x80 == 0) = decide (a < 128) := (byte_facts ⟨a, h⟩).1
theorem andc0 (a : Nat) (h : a < 256) : (a &&& 0xc0 == 0xc0) = decide (192 ≤ a) := (byte_facts ⟨a, h⟩).2.1
theorem andc0n (a : Nat) (h : a < 256) : (a &&& 0xc0 != 0xc0) = decide (a < 192) := (byte_facts ⟨a, h⟩).2.2.1
theorem contB_eq (a : Nat) (h : a < 256) : contB a = decide (128 ≤ a ∧ a < 192) := (byte_facts ⟨a, h⟩).2.2.2.1
theorem and20 (a : Nat) (h : a < 256) : (a &&& 0x20 == 0) = decide (a % 64 < 32) := (byte_facts ⟨a, h⟩).2.2.2.2.1
theorem and10 (a : Nat) (h : a < 256) : (a &&& 0x10 == 0) = decide (a % 32 < 16) := (byte_facts ⟨a, h⟩).2.2.2.2.2.1
theorem and08 (a : Nat) (h : a < 256) : (a &&& 0x08 == 0) = decide (a % 16 < 8) := (byte_facts ⟨a, h⟩).2.2.2.2.2.2

end Neatvi.Uc
