import NeatviVerif.Lemmas.C13bF
import NeatviVerif.Lemmas.C11bParse
/-!
# C13b, part L: a criterion on the pattern text

`patCF_of_no_angle`: a pattern that does not contain the bytes `<` and `>` makes no word-boundary
test (`PatCF`): neither the literal fast path nor the parser can produce `\<` / `\>` without reading
one of these bytes.  The parser is followed with the generic invariant of C11b (`ParseInv`).
-/
namespace Neatvi.Lemmas.C13b
open Neatvi Neatvi.Regex Neatvi.Rset Neatvi.Props.C11b

/-- the text contains neither `<` nor `>` -/
def NoAngle (p : Bytes) : Prop := 60 ∉ p ∧ 62 ∉ p

instance (p : Bytes) : Decidable (NoAngle p) := by unfold NoAngle; infer_instance

theorem noAngle_drop {p : Bytes} (h : NoAngle p) (k : Nat) : NoAngle (p.drop k) :=
  ⟨fun hm => h.1 (List.mem_of_mem_drop hm), fun hm => h.2 (List.mem_of_mem_drop hm)⟩

theorem noAngle_tail {c : Nat} {r : Bytes} (h : NoAngle (c :: r)) : NoAngle r :=
  ⟨fun hm => h.1 (List.mem_cons_of_mem _ hm), fun hm => h.2 (List.mem_cons_of_mem _ hm)⟩

theorem mem_of_headD {l : Bytes} {c : Nat} (h : (l.headD 0 == c) = true) (hc : c ≠ 0) : c ∈ l := by
  cases l with
  | nil => simp at h; omega
  | cons a l => simp at h; subst h; exact List.mem_cons_self

theorem mem_of_getD {l : Bytes} {i c : Nat} (h : (l.getD i 0 == c) = true) (hc : c ≠ 0) : c ∈ l := by
  rw [List.getD_eq_getElem?_getD] at h
  cases hi : l[i]? with
  | none => rw [hi] at h; simp at h; omega
  | some v =>
    rw [hi] at h; simp at h; subst h
    exact List.mem_of_getElem? hi

/-- `ratom_read` on a text without `<`, `>` never yields `\<` or `\>`, and leaves such a text -/
theorem ratomRead_noAngle (p : Bytes) (a : Atom) (rest : Bytes) (hp : NoAngle p)
    (h : ratomRead p = some (a, rest)) : CFAtom a = true ∧ NoAngle rest := by
  unfold ratomRead at h
  cases p with
  | nil =>
    simp only [Option.map_eq_some_iff] at h
    obtain ⟨n, _, hn⟩ := h
    injection hn with h1 h2
    subst h1; subst h2
    exact ⟨rfl, noAngle_drop hp _⟩
  | cons c r =>
    simp only [] at h
    have hr := noAngle_tail hp
    split at h
    · injection h with h; injection h with h1 h2; subst h1; subst h2; exact ⟨rfl, hr⟩
    · split at h
      · injection h with h; injection h with h1 h2; subst h1; subst h2; exact ⟨rfl, hr⟩
      · split at h
        · injection h with h; injection h with h1 h2; subst h1; subst h2; exact ⟨rfl, hr⟩
        · split at h
          · injection h with h; injection h with h1 h2; subst h1; subst h2
            exact ⟨rfl, noAngle_drop hp _⟩
          · split at h
            · split at h
              · rename_i h60
                exact absurd (mem_of_headD h60 (by decide)) hr.1
              · split at h
                · rename_i h62
                  exact absurd (mem_of_headD h62 (by decide)) hr.2
                · simp only [Option.map_eq_some_iff] at h
                  obtain ⟨n, _, hn⟩ := h
                  injection hn with h1 h2
                  subst h1; subst h2
                  exact ⟨rfl, noAngle_drop hr _⟩
            · simp only [Option.map_eq_some_iff] at h
              obtain ⟨n, _, hn⟩ := h
              injection hn with h1 h2
              subst h1; subst h2
              exact ⟨rfl, noAngle_drop hp _⟩

theorem parseInv_noAngle : ParseInv NoAngle (fun a => CFAtom a = true) where
  ascii := fun _ hp _ => noAngle_drop hp 1
  brace := fun _ hp _ k => noAngle_drop hp k
  atom := fun p a rest hp h => ratomRead_noAngle p a rest hp h

theorem cf_of_allAtoms : ∀ (t : RNode), AllAtoms (fun a => CFAtom a = true) t → ContextFree t = true := by
  intro t
  induction t with
  | nul => intro _; rfl
  | atom a mn mx => intro h; exact h
  | cat a b iha ihb => intro h; simp only [ContextFree, Bool.and_eq_true]; exact ⟨iha h.1, ihb h.2⟩
  | alt a b iha ihb => intro h; simp only [ContextFree, Bool.and_eq_true]; exact ⟨iha h.1, ihb h.2⟩
  | grp a g mn mx iha => intro h; exact iha h

/-- the tree of a text without `<`, `>` is `ContextFree` -/
theorem parse_cf_of_noAngle {p : Bytes} {t : RNode} (hp : NoAngle p) (h : parse p = some (some t)) :
    ContextFree t = true :=
  cf_of_allAtoms t (parse_inv parseInv_noAngle hp h)

theorem combined_one (kw : Bytes) : combined [some kw] = [40, 40] ++ kw ++ [41, 41] := by
  simp [combined]

/-- **a pattern without the characters `<` and `>` makes no word-boundary test** -/
theorem patCF_of_no_angle (kw : Bytes) (h : NoAngle kw) : PatCF kw = true := by
  unfold PatCF
  split
  · rename_i lbeg wbeg wend lend lit hs
    simp only [simple, Option.ite_none_right_eq_some, Option.some.injEq, Prod.mk.injEq] at hs
    obtain ⟨-, -, hwb, hwe, -, -⟩ := hs
    have hre1 : NoAngle (if (kw.headD 0 == 94) = true then kw.drop 1 else kw) := by
      split
      · exact noAngle_drop h 1
      · exact h
    generalize (if (kw.headD 0 == 94) = true then kw.drop 1 else kw) = re1 at hre1 hwb hwe
    have hwb' : wbeg = false := by
      cases wbeg with
      | false => rfl
      | true =>
        simp only [Bool.and_eq_true] at hwb
        exact absurd (mem_of_getD hwb.2 (by decide)) hre1.1
    subst hwb'
    rw [hwb] at hwe
    simp only [Bool.false_eq_true, if_false] at hwe
    have hre3 : NoAngle (re1.drop (re1.takeWhile (fun c => !isStop c)).length) := noAngle_drop hre1 _
    have hwe' : wend = false := by
      cases wend with
      | false => rfl
      | true =>
        simp only [Bool.and_eq_true] at hwe
        exact absurd (mem_of_getD hwe.2 (by decide)) hre3.2
    subst hwe'
    rfl
  · split
    · rename_i t ht
      apply parse_cf_of_noAngle _ ht
      rw [combined_one]
      unfold NoAngle
      simp only [List.mem_append, List.mem_cons, List.not_mem_nil, or_false, not_or]
      exact ⟨⟨⟨by decide, h.1⟩, by decide⟩, ⟨⟨by decide, h.2⟩, by decide⟩⟩
    · rfl

end Neatvi.Lemmas.C13b
