import NeatviVerif.Model.RegexVM
/-!
# C10 lemmas, part 1: unfolding lemmas of the VM, code layout, sound code segments

`SegSound cx R b e`: every successful run of the VM that enters the code at address `b` passes
through the address `e`, in a state that is `R`-related to the entry state, and finishes from there
with the same result.  Segments compose; the repetition wrapper `emitRep` is handled once, for an
arbitrary body, here.
-/
namespace Neatvi.Lemmas.C10
open Neatvi Neatvi.Regex

/-- a matcher state: position in the subject and the group marks -/
abbrev St := Nat × Marks

/-- what `Inst.mark k` does to the marks at position `pos` -/
def setMk (ngrps : Nat) (m : Marks) (k pos : Nat) : Marks :=
  if k < ngrps then m.set k (pos : Int) else m

theorem get_mid {prog p q : List Inst} {x : Inst} (h : prog = p ++ [x] ++ q) :
    prog[p.length]? = some x := by
  subst h; simp

/-! ### unfolding lemmas -/
section unfold
variable (cx : Ctx)

theorem loop_atom {dep pc pos m cuts a} (h : cx.prog[pc]? = some (Inst.atom a)) :
    loop cx dep pc pos m cuts =
      match atomMatch a cx.subj cx.flg pos with
      | AR.fail => Res.fail cuts
      | AR.trap => Res.trap
      | AR.ok pos' => loop cx dep (pc + 1) pos' m cuts := by
  rw [loop]; split <;> simp_all
  rfl

theorem loop_mark {dep pc pos m cuts k} (h : cx.prog[pc]? = some (Inst.mark k)) :
    loop cx dep pc pos m cuts = loop cx dep (pc + 1) pos (setMk cx.ngrps m k pos) cuts := by
  rw [loop]; split <;> simp_all [setMk]

theorem loop_jump {dep pc pos m cuts a} (h : cx.prog[pc]? = some (Inst.jump a)) :
    loop cx dep pc pos m cuts = if a > pc then loop cx dep a pos m cuts else Res.trap := by
  rw [loop]; split <;> simp_all

theorem loop_fork {dep pc pos m cuts a1 a2} (h : cx.prog[pc]? = some (Inst.fork a1 a2)) :
    loop cx dep pc pos m cuts =
      match act cx dep a1 pos m cuts with
      | Res.ok p' m' c' => Res.ok p' m' c'
      | Res.trap => Res.trap
      | Res.fail c' => if a2 > pc then loop cx dep a2 pos m c' else Res.trap := by
  rw [loop]; split <;> simp_all
  rfl

theorem loop_mtch {dep pc pos m cuts} (h : cx.prog[pc]? = some Inst.mtch) :
    loop cx dep pc pos m cuts = Res.ok pos m cuts := by
  rw [loop]; split <;> simp_all

theorem act_eq (dep pc pos : Nat) (m : Marks) (cuts : Nat) :
    act cx dep pc pos m cuts =
      if dep ≥ cx.nd then Res.fail (cuts + 1) else loop cx (dep + 1) pc pos m cuts := by
  rw [act]

theorem act_ok {dep pc pos m cuts p' m' c'} (h : act cx dep pc pos m cuts = Res.ok p' m' c') :
    dep < cx.nd ∧ loop cx (dep + 1) pc pos m cuts = Res.ok p' m' c' := by
  rw [act_eq] at h; split at h
  · cases h
  · exact ⟨by omega, h⟩

/-- the two ways a `fork` can succeed -/
theorem fork_ok {dep pc pos m cuts a1 a2 p' m' c'} (h : cx.prog[pc]? = some (Inst.fork a1 a2))
    (hr : loop cx dep pc pos m cuts = Res.ok p' m' c') :
    (dep < cx.nd ∧ loop cx (dep + 1) a1 pos m cuts = Res.ok p' m' c') ∨
    (∃ c'', loop cx dep a2 pos m c'' = Res.ok p' m' c') := by
  rw [loop_fork cx h] at hr
  split at hr
  · rename_i p1 m1 c1 hact
    cases hr
    exact Or.inl (act_ok cx hact)
  · cases hr
  · split at hr
    · exact Or.inr ⟨_, hr⟩
    · cases hr

end unfold

/-! ### code layout -/

theorem emitCopies_length {body : Nat → List Inst} {bl : Nat} (hl : ∀ b, (body b).length = bl) :
    ∀ k base, (emitCopies body bl k base).length = k * bl := by
  intro k
  induction k with
  | zero => intro base; simp [emitCopies]
  | succ k ih => intro base; simp [emitCopies, hl, ih, Nat.succ_mul]; omega

theorem emitOpts_length {body : Nat → List Inst} {bl : Nat} (hl : ∀ b, (body b).length = bl) (endA : Nat) :
    ∀ k base, (emitOpts body bl endA k base).length = k * (1 + bl) := by
  intro k
  induction k with
  | zero => intro base; simp [emitOpts]
  | succ k ih => intro base; simp [emitOpts, hl, ih, Nat.succ_mul]; omega

theorem emitCopies_snoc (body : Nat → List Inst) (bl : Nat) :
    ∀ k base, emitCopies body bl (k + 1) base = emitCopies body bl k base ++ body (base + k * bl) := by
  intro k
  induction k with
  | zero => intro base; simp [emitCopies]
  | succ k ih =>
    intro base
    rw [emitCopies, ih (base + bl), emitCopies, List.append_assoc]
    rw [show base + bl + k * bl = base + (k + 1) * bl by rw [Nat.succ_mul]; omega]

/-- the pieces of the general repetition wrapper -/
def repLead (mn : Int) (base endA : Nat) : List Inst := if mn == 0 then [Inst.fork (base + 1) endA] else []
def repStar (mx : Int) (last nxt : Nat) : List Inst := if mx < 0 then [Inst.fork last nxt] else []

theorem repLead_length (mn : Int) (base endA : Nat) :
    (repLead mn base endA).length = if mn = 0 then 1 else 0 := by
  unfold repLead; split <;> simp_all

theorem repStar_length (mx : Int) (a b : Nat) :
    (repStar mx a b).length = if mx < 0 then 1 else 0 := by
  unfold repStar; split <;> simp_all

theorem repLen_general {bl : Nat} {mn mx : Int} (h00 : ¬(mn = 0 ∧ mx = 0)) (h11 : ¬(mn = 1 ∧ mx = 1)) :
    repLen bl mn mx = (if mn = 0 then 1 else 0) + (max 1 mn).toNat * bl + (if mx < 0 then 1 else 0)
      + (mx - max 1 mn).toNat * (1 + bl) := by
  unfold repLen
  have e0 : (mn == 0 && mx == 0) = false := by simp; omega
  have e1 : (mn == 1 && mx == 1) = false := by simp; omega
  simp [e0, e1]

theorem emitRep_general (body : Nat → List Inst) {bl : Nat} {mn mx : Int} (base : Nat)
    (h00 : ¬(mn = 0 ∧ mx = 0)) (h11 : ¬(mn = 1 ∧ mx = 1)) :
    emitRep body bl mn mx base =
      repLead mn base (base + repLen bl mn mx) ++
      emitCopies body bl (max 1 mn).toNat (base + (repLead mn base (base + repLen bl mn mx)).length) ++
      repStar mx (base + (repLead mn base (base + repLen bl mn mx)).length + (max 1 mn).toNat * bl - bl)
        (base + (repLead mn base (base + repLen bl mn mx)).length + (max 1 mn).toNat * bl + 1) ++
      emitOpts body bl (base + repLen bl mn mx) (mx - max 1 mn).toNat
        (base + (repLead mn base (base + repLen bl mn mx)).length + (max 1 mn).toNat * bl +
          (repStar mx (base + (repLead mn base (base + repLen bl mn mx)).length + (max 1 mn).toNat * bl - bl)
            (base + (repLead mn base (base + repLen bl mn mx)).length + (max 1 mn).toNat * bl + 1)).length) := by
  have e0 : (mn == 0 && mx == 0) = false := by simp; omega
  have e1 : (mn == 1 && mx == 1) = false := by simp; omega
  unfold emitRep repLead repStar
  simp only [e0, e1]
  rfl

theorem emitRep_length {body : Nat → List Inst} {bl : Nat} (hl : ∀ b, (body b).length = bl)
    (mn mx : Int) (base : Nat) : (emitRep body bl mn mx base).length = repLen bl mn mx := by
  by_cases h00 : mn = 0 ∧ mx = 0
  · simp [emitRep, repLen, h00]
  · by_cases h11 : mn = 1 ∧ mx = 1
    · simp [emitRep, repLen, h11, hl]
    · rw [emitRep_general body base h00 h11, repLen_general h00 h11]
      simp only [List.length_append, emitCopies_length hl, emitOpts_length hl, repLead_length, repStar_length]

theorem emit_length (t : RNode) : ∀ base, (emit t base).length = emitLen t := by
  induction t with
  | nul => intro base; simp [emit, emitLen]
  | atom a mn mx => intro base; simp only [emit, emitLen]; exact emitRep_length (by simp) mn mx base
  | cat a b iha ihb => intro base; simp [emit, emitLen, iha, ihb]
  | alt a b iha ihb => intro base; simp [emit, emitLen, iha, ihb]; omega
  | grp a g mn mx iha =>
    intro base; simp only [emit, emitLen]
    exact emitRep_length (by intro b; simp [iha]) mn mx base

end Neatvi.Lemmas.C10
