import NeatviVerif.Lemmas.C02dScript
/-!
# C02d lemmas, part 7: the quit corollary for scripts; what a write does to the other buffers of the same
path; the concrete sessions that refute the stronger statements
-/
namespace Neatvi.Lemmas.C02d
open Neatvi Neatvi.Lbuf Neatvi.LbufIo Neatvi.Ex Neatvi.Props Neatvi.Lemmas.C02b Neatvi.Lemmas.C02Ex Neatvi.Lemmas.C02c

/-! ### the quit corollary, one round of the `ex()` loop -/

/-- clean, or held by the file byte for byte -/
def Settled (ed : Ed) (b : Buf) : Prop := (modified b.lb).1 = false ∨ Held ed b

theorem SavedAt.settled {ed : Ed} {b : Buf} (h : SavedAt ed b) : Settled ed b := by
  rcases h with h | h
  · exact Or.inl h.1
  · exact Or.inr h

theorem settled_savedAt {ed : Ed} (hi : Inv ed) {b : Buf} (hb : some b ∈ ed.bufs) (h : Settled ed b) : SavedAt ed b := by
  rcases h with h | h
  · exact Or.inl (cleanSync_of_inv hi hb h)
  · exact Or.inr h

theorem modifiedAt_files (ed : Ed) (idx : Nat) : (ed.modifiedAt idx).2.files = ed.files := by
  unfold Ed.modifiedAt; split <;> rfl

/-- the bump of `lbuf_modified` changes the sequence counter of one record and nothing else -/
theorem modifiedAt_slot (ed : Ed) (idx j : Nat) (b : Buf) (h : (ed.modifiedAt idx).2.bufs.getD j none = some b) :
    ∃ b0, ed.bufs.getD j none = some b0 ∧ b.path = b0.path ∧ b.mtime = b0.mtime ∧ b.lb.lines = b0.lb.lines ∧
      (modified b.lb).1 = (modified b0.lb).1 := by
  unfold Ed.modifiedAt at h
  cases hi : ed.bufs.getD idx none with
  | none =>
    rw [hi] at h
    exact ⟨b, h, rfl, rfl, rfl, rfl⟩
  | some bi =>
    rw [hi] at h
    obtain ⟨hlt, _⟩ := getD_some hi
    have h' : (ed.bufs.set idx (some { bi with lb := (modified bi.lb).2 })).getD j none = some b := h
    by_cases hij : idx = j
    · subst hij
      rw [getD_set_self _ _ _ hlt] at h'
      cases h'
      exact ⟨bi, hi, rfl, rfl, rfl, rfl⟩
    · rw [getD_set_ne _ _ _ _ hij] at h'
      exact ⟨b, h', rfl, rfl, rfl, rfl⟩

theorem hasBang_quitWords {ln : Bytes} (h : ln ∈ quitWords) : hasBang ln = false := by
  simp only [quitWords, List.mem_cons, List.not_mem_nil, or_false] at h
  rcases h with rfl | rfl | rfl | rfl <;> decide

/-- **the final `q` of a script**: one round of the `ex()` loop on the line `q` (or `wq`, `x`, `xa`), from a
    state that satisfies the invariant and has not quit yet.  If the editor quits, every buffer of the
    table is `SavedAt`. -/
theorem exStep_quit_saved (ed ed' : Ed) (r : Int) (ln : Bytes) (rest : List Bytes) (hi : Inv ed)
    (hq0 : ed.xquit = false) (hin : ed.input = ln :: rest) (hln : ln ∈ quitWords)
    (h : exStep ed = some (r, ed')) (hq : ed'.xquit = true) :
    ∀ j b, ed'.bufs.getD j none = some b → SavedAt ed' b := by
  have hinv' : Inv ed' := exStep_keeps hi h
  obtain ⟨e1, hr, he⟩ := exStep_quit ed ed' r ln rest hin hln h
  have hq1 : e1.xquit = true := by
    rw [he] at hq
    have : (e1.modifiedAt 0).2.xquit = true := hq
    rw [modifiedAt_xquit] at this
    exact this
  obtain ⟨_, hsaved⟩ := quit_saved (FUEL - 3) { ed with input := rest, out := [], msg := [], calls := 0, fired := 0 } e1 [] ln []
    none r (hi.to (by rfl) (by rfl) (by rfl)) (hasBang_quitWords hln) hq0 hr hq1
  intro j b hb
  refine settled_savedAt hinv' (C20.mem_of_getD _ _ _ hb).1 ?_
  have hb' : (e1.modifiedAt 0).2.bufs.getD j none = some b := by rw [he] at hb; exact hb
  obtain ⟨b0, hb0, hp, _, hl, hm⟩ := modifiedAt_slot e1 0 j b hb'
  have hfiles : ed'.files = e1.files := by rw [he]; exact modifiedAt_files e1 0
  rcases (hsaved j b0 hb0).settled with hc | ⟨fl, hfl, hd⟩
  · exact Or.inl (hm.trans hc)
  · refine Or.inr ⟨fl, ?_, by rw [hl]; exact hd⟩
    unfold Ed.findFile
    rw [hfiles, hp]
    exact hfl

/-! ### a write is visible to every other buffer of the same path -/

/-- whenever `lbuf_save(…, path, …)` changes the file system, the file at `path` carries a time stamp newer
    than the one any buffer of the table recorded: for a buffer of that path, `mtime(path) = b.mtime` is
    false from then on (until the buffer itself is loaded or written again) -/
theorem save_makes_stale {ed ed' : Ed} {lb : Lb} {b0 : Nat} {e : Int} {path : Bytes} {force : Bool} {ts : Int}
    {r : Option Bytes} (hi : Inv ed) (h : lbufSave ed lb b0 e path force ts = some (r, ed'))
    (hch : ed'.files ≠ ed.files) : ∀ b, some b ∈ ed'.bufs → b.mtime < ed'.mtimeOf path := by
  have he := lbufSave_eff _ _ _ _ _ _ _ _ _ h
  intro b hb
  rw [he.bufs] at hb
  rcases he.self with ⟨hf, _⟩ | ⟨fl, hfl, hgt⟩
  · exact absurd hf hch
  · have h1 : ed'.mtimeOf path = fl.mtime := mtimeF_some hfl
    have := (hi.mem hb).1
    omega

/-! ### `q` on a table of clean buffers -/

theorem exStep_q (ed : Ed) (rest : List Bytes) (hin : ed.input = [113] :: rest) (r : Int) (e1 : Ed)
    (hr : runCmd (FUEL - 2) { ed with input := rest, out := [], msg := [], calls := 0, fired := 0 } "ec_quit" [] [113] [] none
      = some (r, e1)) :
    exStep ed = some (r, { (e1.modifiedAt 0).2 with regs := (e1.modifiedAt 0).2.regs.put 58 [113] 1, faults := [] }) := by
  unfold exStep
  rw [hin]
  simp only []
  have hF : exCommand FUEL = exCommand ((FUEL - 2) + 2) := rfl
  rw [hF, exCommand_single (FUEL - 2) _ _ [113] [] [113] [113] [] [113] [] [] none "ec_quit" (by decide) (by decide)
    (by decide +kernel) (by decide +kernel) (by decide +kernel) (by decide +kernel)
    (exTxt_none _ _ (by decide) (by decide) (by decide)), hr]
  rfl

def allClean (ed : Ed) : Bool :=
  ed.bufs.all (fun o => match o with | some b => !(modified b.lb).1 | none => true)

theorem allClean_spec {ed : Ed} (h : allClean ed = true) :
    ∀ j b, ed.bufs.getD j none = some b → (modified b.lb).1 = false := by
  intro j b hb
  unfold allClean at h
  rw [List.all_eq_true] at h
  have := h (some b) (C20.mem_of_getD _ _ _ hb).1
  simpa using this

theorem modifiedAt_keys (ed : Ed) (idx : Nat) : (ed.modifiedAt idx).2.bufs.map bufKey = ed.bufs.map bufKey := by
  unfold Ed.modifiedAt
  cases hi : ed.bufs.getD idx none with
  | none => rfl
  | some b => exact map_key_set _ _ b _ hi rfl

/-- with every buffer clean, the line `q` makes the editor quit; no file changes and the table holds the
    same (path, text) pairs -/
theorem q_quits_when_all_clean (ed : Ed) (rest : List Bytes) (hin : ed.input = [113] :: rest)
    (hcl : allClean ed = true) :
    ∃ ed', exStep ed = some (0, ed') ∧ ed'.xquit = true ∧ ed'.files = ed.files ∧
      (ed'.bufs.map bufKey).Perm (ed.bufs.map bufKey) := by
  obtain ⟨e1, hr, hk⟩ := C02.Ex.quit_allowed_when_clean (FUEL - 3)
    { ed with input := rest, out := [], msg := [], calls := 0, fired := 0 } [] [113] [] none
    (by decide) (by decide) (by decide) (by decide) (allClean_spec hcl)
  refine ⟨_, exStep_q ed rest hin 0 _ hr, ?_, ?_, ?_⟩
  · show (Ed.modifiedAt _ 0).2.xquit = true
    rw [modifiedAt_xquit]
  · show (Ed.modifiedAt _ 0).2.files = ed.files
    rw [modifiedAt_files]
    exact hk.files
  · show ((Ed.modifiedAt _ 0).2.bufs.map bufKey).Perm _
    rw [modifiedAt_keys]
    exact hk.bufs

/-! ### three sessions

All start from the default editor state (no files on disk, clock 1000) and use only single-command lines
the partial evaluator `stepS` runs. -/

instance : DecidableEq (Option (Bytes × List Bytes × Bool × Int)) := inferInstance
instance : DecidableEq (List (Option (Bytes × List Bytes × Bool × Int))) := inferInstance

/-- what the witnesses look at: (path, text, dirty, time stamp) of the first three slots -/
def obsB (ed : Ed) : List (Option (Bytes × List Bytes × Bool × Int)) :=
  (ed.bufs.take 3).map (·.map (fun b => (b.path, b.lb.lines, (modified b.lb).1, b.mtime)))
/-- … and (path, bytes, time stamp) of the files -/
def obsF (ed : Ed) : List (Bytes × Bytes × Int) := ed.files.map (fun f => (f.path, f.data, f.mtime))

/-- session 1, no `!` anywhere: `vi` (no file); `:e p` (a new file); `:b #` (back to the unnamed buffer);
    `:a` / `x` / `.`; `:w p` — the unnamed buffer is written to `p` and takes that name -/
def script1 : List Bytes := [[101, 32, 112], [98, 32, 35], [97], [120], [46], [119, 32, 112]]

/-- session 2: `vi p` (a new file); `:a` / `x` / `.`; `:w`; `:e r`; `:w! p` (the empty buffer `r` written over
    `p`); then `q` is next in the queue -/
def script2 : List Bytes := [[97], [120], [46], [119], [101, 32, 114], [119, 33, 32, 112], [113]]

/-- session 3: `vi p` (a new file); `:a` / `x` / `.`; `:e!` (re-read the file — there is none); then `q` -/
def script3 : List Bytes := [[97], [120], [46], [101, 33], [113]]

theorem session1_obs : (sessionS { input := script1 } [] 4).map
      (fun ed => decide (obsB ed = [some ([112], [[120, 10]], false, 1002), some ([112], [], false, -1), none] ∧
        obsF ed = [([112], [120, 10], 1002)])) = some true := by
  decide +kernel

theorem session2_obs : (sessionS { input := script2 } [[112]] 4).map
      (fun ed => decide (obsB ed = [some ([114], [], false, -1), some ([112], [[120, 10]], false, 1002), none] ∧
        obsF ed = [([112], [], 1003)] ∧ ed.input = [[113]] ∧ allClean ed = true ∧ ed.xquit = false)) = some true := by
  decide +kernel

theorem session3_obs : (sessionS { input := script3 } [[112]] 2).map
      (fun ed => decide (obsB ed = [some ([112], [[120, 10]], false, -1), none, none] ∧
        obsF ed = [] ∧ ed.input = [[113]] ∧ allClean ed = true ∧ ed.xquit = false)) = some true := by
  decide +kernel

/-! ### reading the observations -/

theorem obsB_slot {ed : Ed} {L : List (Option (Bytes × List Bytes × Bool × Int))} (h : obsB ed = L) (i : Nat) (hi : i < 3)
    {p : Bytes} {t : List Bytes} {d : Bool} {m : Int} (hL : L[i]? = some (some (p, t, d, m))) :
    ∃ b, ed.bufs.getD i none = some b ∧ b.path = p ∧ b.lb.lines = t ∧ (modified b.lb).1 = d ∧ b.mtime = m := by
  subst h
  unfold obsB at hL
  rw [List.getElem?_map, List.getElem?_take_of_lt hi] at hL
  cases hx : ed.bufs[i]? with
  | none => rw [hx] at hL; cases hL
  | some o =>
    rw [hx] at hL
    cases o with
    | none => simp at hL
    | some b =>
      simp only [Option.map_some, Option.some.injEq, Prod.mk.injEq] at hL
      refine ⟨b, ?_, hL.1, hL.2.1, hL.2.2.1, hL.2.2.2⟩
      rw [List.getD_eq_getElem?_getD, hx]; rfl

theorem obsF_single {ed : Ed} {p d : Bytes} {m : Int} (h : obsF ed = [(p, d, m)]) :
    ∃ fl, ed.findFile p = some fl ∧ fl.data = d ∧ fl.mtime = m ∧ ed.files = [fl] := by
  unfold obsF at h
  cases hf : ed.files with
  | nil => rw [hf] at h; cases h
  | cons fl r =>
    rw [hf] at h
    simp only [List.map_cons, List.cons.injEq, Prod.mk.injEq, List.map_eq_nil_iff] at h
    obtain ⟨⟨h1, h2, h3⟩, h4⟩ := h
    subst h4
    refine ⟨fl, ?_, h2, h3, rfl⟩
    unfold Ed.findFile
    rw [hf]
    simp [h1]

theorem obsF_nil {ed : Ed} (h : obsF ed = []) (p : Bytes) : ed.findFile p = none := by
  unfold obsF at h
  have : ed.files = [] := by simpa using h
  unfold Ed.findFile
  rw [this]; rfl

theorem fsOk_default : FsOk ([] : List File) 1000 := ⟨by decide, fun f hf => by cases hf⟩

/-! ### what the three sessions show -/

/-- **session 1** (no `!`): a reachable state in which slot 1 holds a buffer named `p` that reports clean
    and has the empty text, while the file `p` exists and holds `x\n` — the unnamed buffer was written
    to `p` (which did not exist, so no guard objected) and took that name.  The buffer in slot 1 recorded
    the time stamp -1, the file carries 1002. -/
theorem session1 :
    ∃ rc ed1 ed b fl, exInit { input := script1 } [] = some (rc, ed1) ∧ C02.Ex.exRun 4 ed1 = some ed ∧
      ed.bufs.getD 1 none = some b ∧ b.path = [112] ∧ b.lb.lines = [] ∧ (modified b.lb).1 = false ∧ b.mtime = -1 ∧
      ed.findFile [112] = some fl ∧ fl.data = [120, 10] ∧ fl.mtime = 1002 := by
  obtain ⟨rc, ed1, ed, h1, h2, hP⟩ := sessionS_obs _ _ _ _ session1_obs
  simp only [decide_eq_true_eq] at hP
  obtain ⟨hB, hF⟩ := hP
  obtain ⟨b, hb, hp, hl, hd, hm⟩ := obsB_slot hB 1 (by decide) (p := [112]) (t := []) (d := false) (m := -1) rfl
  obtain ⟨fl, hfl, hdat, hmt, _⟩ := obsF_single hF
  exact ⟨rc, ed1, ed, b, fl, h1, h2, hb, hp, hl, hd, hm, hfl, hdat, hmt⟩

/-- **session 2** (`:w! p` from another buffer): a reachable state, `q` next in the queue, the quit flag not
    set, in which slot 1 holds the buffer `p`, clean, with the text `x\n` it was written with (time stamp
    1002), while the file `p` is empty (time stamp 1003): the forced write of the empty buffer `r` went over
    it.  The line `q` then quits: all buffers report clean. -/
theorem session2 :
    ∃ rc ed1 ed b fl ed', exInit { input := script2 } [[112]] = some (rc, ed1) ∧ C02.Ex.exRun 4 ed1 = some ed ∧
      ed.xquit = false ∧ ed.input = [[113]] ∧
      ed.bufs.getD 1 none = some b ∧ b.path = [112] ∧ b.lb.lines = [[120, 10]] ∧ (modified b.lb).1 = false ∧
      b.mtime = 1002 ∧ ed.findFile [112] = some fl ∧ fl.data = [] ∧ fl.mtime = 1003 ∧
      exStep ed = some (0, ed') ∧ ed'.xquit = true ∧ ed'.files = ed.files ∧
      (ed'.bufs.map bufKey).Perm (ed.bufs.map bufKey) := by
  obtain ⟨rc, ed1, ed, h1, h2, hP⟩ := sessionS_obs _ _ _ _ session2_obs
  simp only [decide_eq_true_eq] at hP
  obtain ⟨hB, hF, hin, hcl, hq⟩ := hP
  obtain ⟨b, hb, hp, hl, hd, hm⟩ := obsB_slot hB 1 (by decide) (p := [112]) (t := [[120, 10]]) (d := false) (m := 1002) rfl
  obtain ⟨fl, hfl, hdat, hmt, _⟩ := obsF_single hF
  obtain ⟨ed', hs, hq', hf', hperm⟩ := q_quits_when_all_clean ed [] hin hcl
  exact ⟨rc, ed1, ed, b, fl, ed', h1, h2, hq, hin, hb, hp, hl, hd, hm, hfl, hdat, hmt, hs, hq', hf', hperm⟩

/-- **session 3** (`:e!` on a buffer whose file does not exist): a reachable state, `q` next in the queue,
    in which the current buffer `p` reports clean with the text `x\n`, recorded time stamp -1, and there is
    no file at all.  The line `q` then quits. -/
theorem session3 :
    ∃ rc ed1 ed b ed', exInit { input := script3 } [[112]] = some (rc, ed1) ∧ C02.Ex.exRun 2 ed1 = some ed ∧
      ed.xquit = false ∧ ed.input = [[113]] ∧
      ed.bufs.getD 0 none = some b ∧ b.path = [112] ∧ b.lb.lines = [[120, 10]] ∧ (modified b.lb).1 = false ∧
      b.mtime = -1 ∧ ed.mtimeOf [112] = -1 ∧ ed.files = [] ∧
      exStep ed = some (0, ed') ∧ ed'.xquit = true ∧ ed'.files = [] := by
  obtain ⟨rc, ed1, ed, h1, h2, hP⟩ := sessionS_obs _ _ _ _ session3_obs
  simp only [decide_eq_true_eq] at hP
  obtain ⟨hB, hF, hin, hcl, hq⟩ := hP
  obtain ⟨b, hb, hp, hl, hd, hm⟩ := obsB_slot hB 0 (by decide) (p := [112]) (t := [[120, 10]]) (d := false) (m := -1) rfl
  have hfiles : ed.files = [] := by unfold obsF at hF; simpa using hF
  have hmt : ed.mtimeOf [112] = -1 := by unfold Ed.mtimeOf; rw [obsF_nil hF]
  obtain ⟨ed', hs, hq', hf', _⟩ := q_quits_when_all_clean ed [] hin hcl
  exact ⟨rc, ed1, ed, b, ed', h1, h2, hq, hin, hb, hp, hl, hd, hm, hmt, hfiles, hs, hq', by rw [hf', hfiles]⟩

/-! ### two sessions in which the invariant has something to say -/

/-- session 4: `vi p` (a new file); `:a` / `x` / `.`; `:w`; then `q` -/
def script4 : List Bytes := [[97], [120], [46], [119], [113]]

theorem session4_obs : (sessionS { input := script4 } [[112]] 2).map
      (fun ed => decide (obsB ed = [some ([112], [[120, 10]], false, 1002), none, none] ∧
        obsF ed = [([112], [120, 10], 1002)] ∧ ed.input = [[113]] ∧ allClean ed = true ∧ ed.xquit = false)) = some true := by
  decide +kernel

/-- session 5: the file `p` exists and holds `abc` without a final newline; `vi p`; then `q` -/
def ed5 : Ed := { files := [⟨[112], [97, 98, 99], 5⟩], input := [[113]] }

theorem session5_obs : (sessionS ed5 [[112]] 0).map
      (fun ed => decide (obsB ed = [some ([112], [[97, 98, 99, 10]], false, 5), none, none] ∧
        obsF ed = [([112], [97, 98, 99], 5)] ∧ ed.input = [[113]] ∧ allClean ed = true ∧ ed.xquit = false)) = some true := by
  decide +kernel

theorem fsOk_ed5 : FsOk ed5.files ed5.clock :=
  ⟨by decide, fun f hf => by
    have : f = ⟨[112], [97, 98, 99], 5⟩ := List.mem_singleton.1 hf
    subst this
    exact ⟨by decide, by decide⟩⟩

/-- **session 4**: after `:w` the buffer `p` is clean, its recorded time stamp is the file's, and the file
    holds `x\n` -/
theorem session4 :
    ∃ rc ed1 ed b fl, exInit { input := script4 } [[112]] = some (rc, ed1) ∧ C02.Ex.exRun 2 ed1 = some ed ∧
      ed.xquit = false ∧ ed.input = [[113]] ∧ allClean ed = true ∧
      ed.bufs.getD 0 none = some b ∧ b.path = [112] ∧ b.lb.lines = [[120, 10]] ∧ (modified b.lb).1 = false ∧
      ed.mtimeOf b.path = b.mtime ∧ ed.findFile b.path = some fl ∧ fl.data = [120, 10] := by
  obtain ⟨rc, ed1, ed, h1, h2, hP⟩ := sessionS_obs _ _ _ _ session4_obs
  simp only [decide_eq_true_eq] at hP
  obtain ⟨hB, hF, hin, hcl, hq⟩ := hP
  obtain ⟨b, hb, hp, hl, hd, hm⟩ := obsB_slot hB 0 (by decide) (p := [112]) (t := [[120, 10]]) (d := false) (m := 1002) rfl
  obtain ⟨fl, hfl, hdat, hmt, _⟩ := obsF_single hF
  refine ⟨rc, ed1, ed, b, fl, h1, h2, hq, hin, hcl, hb, hp, hl, hd, ?_, by rw [hp]; exact hfl, hdat⟩
  rw [hp, hm, mtimeOf_eq, mtimeF_some hfl, hmt]

/-- **session 5**: a file without a final newline, loaded: the buffer is clean with the text `abc\n` -/
theorem session5 :
    ∃ rc ed1 ed b fl, exInit ed5 [[112]] = some (rc, ed1) ∧ C02.Ex.exRun 0 ed1 = some ed ∧
      ed.bufs.getD 0 none = some b ∧ b.path = [112] ∧ b.lb.lines = [[97, 98, 99, 10]] ∧ (modified b.lb).1 = false ∧
      ed.mtimeOf b.path = b.mtime ∧ ed.findFile b.path = some fl ∧ fl.data = [97, 98, 99] := by
  obtain ⟨rc, ed1, ed, h1, h2, hP⟩ := sessionS_obs _ _ _ _ session5_obs
  simp only [decide_eq_true_eq] at hP
  obtain ⟨hB, hF, hin, hcl, hq⟩ := hP
  obtain ⟨b, hb, hp, hl, hd, hm⟩ := obsB_slot hB 0 (by decide) (p := [112]) (t := [[97, 98, 99, 10]]) (d := false) (m := 5) rfl
  obtain ⟨fl, hfl, hdat, hmt, _⟩ := obsF_single hF
  refine ⟨rc, ed1, ed, b, fl, h1, h2, hb, hp, hl, hd, ?_, by rw [hp]; exact hfl, hdat⟩
  rw [hp, hm, mtimeOf_eq, mtimeF_some hfl, hmt]

/-- session 6: `vi p` (a new file); `:a` / `x` / `.`; `:w`; `:a` / `y` / `.` -/
def script6 : List Bytes := [[97], [120], [46], [119], [97], [121], [46]]

theorem session6_obs : (sessionS { input := script6 } [[112]] 3).map
      (fun ed => decide (obsB ed = [some ([112], [[120, 10], [121, 10]], true, 1002), none, none] ∧
        obsF ed = [([112], [120, 10], 1002)])) = some true := by
  decide +kernel

/-- **session 6**: text and file differ, the buffer is fresh, and the flag says dirty -/
theorem session6 :
    ∃ rc ed1 ed b fl, exInit { input := script6 } [[112]] = some (rc, ed1) ∧ C02.Ex.exRun 3 ed1 = some ed ∧
      ed.bufs.getD 0 none = some b ∧ b.path = [112] ∧ b.lb.lines = [[120, 10], [121, 10]] ∧ (modified b.lb).1 = true ∧
      ed.mtimeOf b.path = b.mtime ∧ ed.findFile b.path = some fl ∧ fl.data = [120, 10] := by
  obtain ⟨rc, ed1, ed, h1, h2, hP⟩ := sessionS_obs _ _ _ _ session6_obs
  simp only [decide_eq_true_eq] at hP
  obtain ⟨hB, hF⟩ := hP
  obtain ⟨b, hb, hp, hl, hd, hm⟩ := obsB_slot hB 0 (by decide) (p := [112]) (t := [[120, 10], [121, 10]]) (d := true)
    (m := 1002) rfl
  obtain ⟨fl, hfl, hdat, hmt, _⟩ := obsF_single hF
  refine ⟨rc, ed1, ed, b, fl, h1, h2, hb, hp, hl, hd, ?_, by rw [hp]; exact hfl, hdat⟩
  rw [hp, hm, mtimeOf_eq, mtimeF_some hfl, hmt]

/-- session 7: the file `p` carries a stamp (1001) beyond the clock (1000); `vi p`; `:e r`; `:w! p` -/
def ed7 : Ed := { files := [⟨[112], [97, 10], 1001⟩], input := [[101, 32, 114], [119, 33, 32, 112]] }

theorem session7_obs : (sessionS ed7 [[112]] 2).map
      (fun ed => decide (obsB ed = [some ([114], [], false, -1), some ([112], [[97, 10]], false, 1001), none] ∧
        obsF ed = [([112], [], 1001)])) = some true := by
  decide +kernel

/-- **session 7**: the forced write of the empty buffer `r` stamps `p` with 1001 again — the stamp buffer `p`
    recorded when it loaded the file -/
theorem session7 :
    ∃ rc ed1 ed b fl, exInit ed7 [[112]] = some (rc, ed1) ∧ C02.Ex.exRun 2 ed1 = some ed ∧
      ed.bufs.getD 1 none = some b ∧ b.path = [112] ∧ b.lb.lines = [[97, 10]] ∧ (modified b.lb).1 = false ∧
      ed.mtimeOf b.path = b.mtime ∧ ed.findFile b.path = some fl ∧ fl.data = [] := by
  obtain ⟨rc, ed1, ed, h1, h2, hP⟩ := sessionS_obs _ _ _ _ session7_obs
  simp only [decide_eq_true_eq] at hP
  obtain ⟨hB, hF⟩ := hP
  obtain ⟨b, hb, hp, hl, hd, hm⟩ := obsB_slot hB 1 (by decide) (p := [112]) (t := [[97, 10]]) (d := false) (m := 1001) rfl
  obtain ⟨fl, hfl, hdat, hmt, _⟩ := obsF_single hF
  refine ⟨rc, ed1, ed, b, fl, h1, h2, hb, hp, hl, hd, ?_, by rw [hp]; exact hfl, hdat⟩
  rw [hp, hm, mtimeOf_eq, mtimeF_some hfl, hmt]

/-! ### how a buffer becomes clean and fresh: loading, and a whole write to its own path -/

theorem savedBump_clean (lb : Lb) (c : Bool) : (modified (modified (savedCore lb c)).2).1 = false := by
  cases c <;> simp [modified, savedCore, seqAt]

/-- **loading establishes the premises**: after the read-and-`lbuf_saved` stage of `:e` (a new buffer, or the
    current one re-read) the current buffer reports clean, its recorded stamp is the file's, and if it has a
    name and the file exists its text is what `lbuf_rd` makes of the file -/
theorem editFinish_establishes {ed ed' : Ed} {path : Bytes} (h : Inv ed) (hf : editFinish ed path = some ed') :
    ∃ b, ed'.cur = some b ∧ (modified b.lb).1 = false ∧ ed'.mtimeOf b.path = b.mtime ∧
      (b.path ≠ [] → ∀ fl, ed'.findFile b.path = some fl → b.lb.lines = splitLines (cstr fl.data)) := by
  unfold editFinish at hf
  split at hf
  · cases hf
  · rename_i b hb
    split at hf
    · cases hf
    · rename_i ed5 hrd
      obtain ⟨e5, hfl5, hcl5, b', hb', hp', hlines⟩ := editRead_spec h hb hrd
      split at hf
      · cases hf
      · rename_i b5 hb5
        rw [hb'] at hb5
        cases hb5
        cases hf
        refine ⟨{ b' with lb := (modified (savedCore b'.lb (!path.isEmpty))).2, mtime := ed5.mtimeOf b'.path }, ?_,
          savedBump_clean _ _, rfl, ?_⟩
        · exact Lemmas.ExFrame.cur_some_set ed5 b' _ hb'
        · intro hne fl hfl
          have hne' : b.path ≠ [] := by rw [← hp']; exact hne
          have hfl' : ed.findFile b.path = some fl := by
            rw [← hp']
            unfold Ed.findFile
            rw [← hfl5]
            exact hfl
          have hl : (modified (savedCore b'.lb (!path.isEmpty))).2.lines = b'.lb.lines := by
            cases (!path.isEmpty) <;> rfl
          show (modified (savedCore b'.lb (!path.isEmpty))).2.lines = _
          rw [hl]
          exact hlines hne' fl hfl'

/-- **a whole write to the own path establishes the premises**: the tail of `ec_write` after a successful
    `lbuf_save` of the whole buffer (`b = 0`, `e = len`) to the path the buffer has, or takes if it had none:
    the current buffer reports clean and its recorded stamp is the file's -/
theorem writeFinish_establishes (ed : Ed) (cur : Buf) (path : Bytes) (r : Int) (ed' : Ed)
    (hcur : ed.cur = some cur) (hown : cur.path = path ∨ cur.path = [])
    (hw : writeFinish ed cur path 0 ed.len = some (r, ed')) :
    ∃ c, ed'.cur = some c ∧ c.path = path ∧ c.lb.lines = cur.lb.lines ∧ (modified c.lb).1 = false ∧
      ed'.mtimeOf c.path = c.mtime ∧ ed'.files = ed.files := by
  unfold writeFinish at hw
  by_cases hp : cur.path.isEmpty = true
  · have hlen : Ed.len { ed with regs := ed.regs.put 37 path 0 } = ed.len := rfl
    simp only [hp, if_true, beq_self_eq_true, Bool.true_and, hlen] at hw
    cases hw
    exact ⟨_, Lemmas.ExFrame.cur_some_set _ cur _ hcur, rfl, rfl, savedBump_clean _ false, rfl, rfl⟩
  · have hne : cur.path ≠ [] := fun h => hp (List.isEmpty_iff.2 h)
    have hpp : cur.path = path := by
      rcases hown with h | h
      · exact h
      · exact absurd h hne
    subst hpp
    simp only [hp, Bool.false_eq_true, if_false, beq_self_eq_true, Bool.and_self, if_true] at hw
    cases hw
    exact ⟨_, Lemmas.ExFrame.cur_some_set _ cur _ hcur, rfl, rfl, savedBump_clean _ false, rfl, rfl⟩

end Neatvi.Lemmas.C02d
