import NeatviVerif.Lemmas.C19fSticky
import NeatviVerif.Props.C05c
/-!
# C19f helper lemmas: the column window is an invariant of the command loop

`ColWin s`: `xleft ≤ xcol < xleft + xcols`.  One iteration of `viStep` from a state with `Good c`
(`c > 0`) and `ColWin` ends, unless the editor is then quitting, in a state with `ColWin`: either the
iteration went through the end of the loop body (`viPost (some mod)`), which establishes it, or the
command switch returned `none` (the `continue` of the C loop), and then `xcol`, `xleft`, `xcols` are
untouched (`nk_stepCont`).
-/
set_option linter.unusedSimpArgs false
set_option linter.unusedVariables false

namespace Neatvi.Lemmas.C19f
open Neatvi Neatvi.Uc Neatvi.Lbuf Neatvi.Ex Neatvi.Mot Neatvi.Vi
open Neatvi.Lemmas.C05b (CountsFit bind_apply)
open Neatvi.Lemmas.C05c (bind_inv)
open Neatvi.Props.C05c (iterate iterate_succ)

/-- the sticky column is inside the horizontal window -/
def ColWin (s : VS) : Prop := s.ed.xleft ≤ s.xcol ∧ s.xcol < s.ed.xleft + s.xcols

instance (s : VS) : Decidable (ColWin s) := by unfold ColWin; exact inferInstance

theorem colWin_of_hsnap {s s' : VS} (h : hsnap s' = hsnap s) (hw : ColWin s) : ColWin s' := by
  obtain ⟨a, b, c, _, _⟩ := hsnap_fields h
  unfold ColWin at *
  rw [a, b, c]
  exact hw

/-- the end of the loop body establishes the window, whatever `xleft` was -/
theorem viPost_colWin (mod : Nat) (s s' : VS) (hc : 0 < s.xcols) (hx : mod ≠ 0 ∨ 0 ≤ s.xcol)
    (h : viPost (some mod) s = Res.ok () s') (hq : s'.ed.xquit = false) :
    ColWin s' ∧ 0 ≤ s'.xcol ∧ s'.xcols = s.xcols := by
  have hq0 := viPost_quit_before mod s s' h hq
  obtain ⟨_, a2, _, _, _, _, a7, a8⟩ := (viPost_run mod s s' h).2 hq0
  have hx0 : 0 ≤ s'.xcol := by
    rw [a7]
    unfold postCol
    split
    · exact off2col_nonneg _ _ _
    · rename_i hm
      rcases hx with hx | hx
      · exact absurd (by simpa using hx) hm
      · exact hx
  obtain ⟨w1, w2⟩ := postLeft_window s'.xcol s.ed.xleft s.xcols hc hx0
  refine ⟨⟨by rw [a8]; exact w1, by rw [a8, a2]; exact w2⟩, hx0, a2⟩

theorem good_stepCont (bl : Bool) (c : Int) (hX : bl = true → ExKeepsLeft) (mv nrow noff : Int) :
    Pres (GoodB bl c) (C07.stepCont mv nrow noff) := by
  unfold C07.stepCont
  exact Pres.ite (good_motionTail bl c _ _ _) (Pres.ite (good_commandTail bl c hX) (Pres.pure _))

/-- **one iteration of the command loop keeps the column window** (and `Good c`) -/
theorem viStep_colWin (c : Int) (hc : 0 < c) (s s' : VS) (hg : Good c s) (hw : ColWin s)
    (h : viStep s = Res.ok () s') (hq : s'.ed.xquit = false) : ColWin s' := by
  rw [viStep_unfold] at h
  obtain ⟨r, s1, hpre, h⟩ := bind_inv _ _ _ _ _ h
  obtain ⟨cont, s2, hcont, hpost⟩ := bind_inv _ _ _ _ _ h
  have g1 : Good c s1 := pres_viPre (HG.good false c) s r s1 hg hpre
  have g2 : Good c s2 := good_stepCont false c (fun h => by cases h) r.1 r.2.1 r.2.2 s1 cont s2 g1 hcont
  have w1 : ColWin s1 := colWin_of_hsnap (viPre_hsnap s r s1 hpre) hw
  cases cont with
  | none =>
    cases hpost
    rcases nk_stepCont r.1 r.2.1 r.2.2 s1 none s' hcont rfl with hquit | hk
    · rw [hquit] at hq; cases hq
    · exact colWin_of_hsnap hk w1
  | some mod =>
    exact (viPost_colWin mod s2 s' (by rw [g2.1]; exact hc) (Or.inr g2.2.1) hpost hq).1

/-! ### every state of a run -/

/-- the loop of `vi()` runs an iteration only when the editor is not quitting: none of the first
    `n` states reached from `s₀` (itself aside) has `xquit` set -/
def Alive (n : Nat) (s₀ : VS) : Prop := ∀ k t, 0 < k → k ≤ n → iterate k s₀ = some t → t.ed.xquit = false

theorem alive_step (n : Nat) (s₀ s1 : VS) (h1 : viStep s₀ = Res.ok () s1) (ha : Alive (n + 1) s₀) :
    s1.ed.xquit = false ∧ Alive n s1 := by
  refine ⟨ha 1 s1 (by omega) (by omega) ?_, fun k t hk0 hk ht => ha (k + 1) t (by omega) (by omega) ?_⟩
  · rw [iterate_succ 0 s₀ s1 () h1]; rfl
  · rw [iterate_succ k s₀ s1 () h1]; exact ht

/-- **the column window holds after every iteration**: from a state with `Good c`, `c > 0`, and the
    sticky column inside the window, every state reached by iterating `viStep` while the editor is
    not quitting has the sticky column inside the window (and `Good c`) -/
theorem colWin_reachable (c : Int) (hc : 0 < c) : ∀ (n : Nat) (s₀ s : VS), Good c s₀ → ColWin s₀ →
    iterate n s₀ = some s → Alive n s₀ → ColWin s ∧ Good c s := by
  intro n
  induction n with
  | zero =>
    intro s₀ s hg hw h _
    unfold iterate at h
    cases h
    exact ⟨hw, hg⟩
  | succ n ih =>
    intro s₀ s hg hw h ha
    unfold iterate at h
    split at h
    · rename_i u s1 h1
      obtain ⟨hq1, ha1⟩ := alive_step n s₀ s1 h1 ha
      exact ih s1 s (good_viStep c s₀ u s1 hg h1) (viStep_colWin c hc s₀ s1 hg hw h1 hq1) h ha1
    · cases h

/-- the initial state of `vi()` has `Good cols` -/
theorem good_viInit (ed : Ed) (keys : Bytes) (rows cols : Int) : Good cols (viInit ed keys rows cols) :=
  ⟨rfl, off2col_nonneg _ _ _, Int.le_refl 0, Props.C05c.countsFit_viInit ed keys rows cols, fun h => by cases h⟩

/-! ### `0 ≤ xleft`, given that the ex layer keeps it -/

/-- `GoodB true c` from `Good c`, `0 ≤ c` and `LOk` -/
theorem goodB_of (c : Int) (s : VS) (hg : Good c s) (hc : 0 ≤ c) (hl : LOk s.ed) : GoodB true c s :=
  ⟨hg.1, hg.2.1, hg.2.2.1, hg.2.2.2.1, fun _ => ⟨by rw [hg.1]; exact hc, hl⟩⟩

/-- if the ex layer keeps `LOk` (`ExKeepsLeft`), every state reached by iterating `viStep` from a state
    with `Good c`, `0 ≤ c` and `LOk` has `LOk`: `0 ≤ xleft`, and no negative `left` in the buffer table -/
theorem lOk_reachable (hX : ExKeepsLeft) (c : Int) (hc : 0 ≤ c) : ∀ (n : Nat) (s₀ s : VS), Good c s₀ → LOk s₀.ed →
    iterate n s₀ = some s → LOk s.ed := by
  have key : ∀ (n : Nat) (s₀ s : VS), GoodB true c s₀ → iterate n s₀ = some s → GoodB true c s := by
    intro n
    induction n with
    | zero =>
      intro s₀ s hg h
      unfold iterate at h
      cases h
      exact hg
    | succ n ih =>
      intro s₀ s hg h
      unfold iterate at h
      split at h
      · rename_i u s1 h1
        exact ih s1 s (goodB_viStep true c (fun _ => hX) s₀ u s1 hg h1) h
      · cases h
  intro n s₀ s hg hl h
  exact ((key n s₀ s (goodB_of c s₀ hg hc hl) h).2.2.2.2 rfl).2

/-! ### the loop of the driver -/

open Neatvi.Drive.ViD in
theorem colWin_loop (n : Nat) (c : Int) (hc : 0 < c) : ∀ (f : Nat) (s : VS) (bds : List Bd) (sts : List VS) (um : Option Nat),
    Good c s → ColWin s → (∀ t ∈ sts, ColWin t) → ∀ t ∈ (runModel.loop n f s bds sts um).states, ColWin t := by
  intro f
  induction f with
  | zero =>
    intro s bds sts um hg hs hst t ht
    unfold runModel.loop at ht
    exact hst t (List.mem_reverse.mp ht)
  | succ f ih =>
    intro s bds sts um hg hs hst t ht
    have hall : ∀ t ∈ (s :: sts).reverse, ColWin t := by
      intro t ht
      rcases List.mem_cons.mp (List.mem_reverse.mp ht) with e | e
      · exact e ▸ hs
      · exact hst t e
    unfold runModel.loop at ht
    dsimp only at ht
    split at ht
    · rename_i u s' h1
      split at ht
      · exact hall t ht
      · rename_i hq
        have hq' : s'.ed.xquit = false := by simpa using hq
        exact ih s' _ _ _ (good_viStep c s u s' hg h1) (viStep_colWin c hc s s' hg hs h1 hq')
          (fun t ht => hall t (List.mem_reverse.mpr ht)) t ht
    · exact hall t ht
    · exact hall t ht

end Neatvi.Lemmas.C19f
