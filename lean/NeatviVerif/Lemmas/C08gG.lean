import NeatviVerif.Lemmas.C08gF
/-!
# C08g: the change commands by name, at the level of `vc_motion` (after the operator letter was read)

`cw ce c$ c SPC cl c0 cfc ctc` on one row, `cc cj ck` line-wise.  `TypedText K cs`: the keys `K` type the text
`cs` (one line, not starting with a blank) and leave insert mode.
-/
set_option linter.unusedSimpArgs false
set_option linter.unusedVariables false
namespace Neatvi.Lemmas.C08g
open Neatvi Neatvi.Uc Neatvi.Vi Neatvi.Ex Neatvi.Lbuf Neatvi.Mot Neatvi.Spec
open Neatvi.Lemmas.C08 Neatvi.Lemmas.C08b Neatvi.Lemmas.C08f
open Neatvi.Lemmas.C09 (finRec pending)
open Neatvi.Props.C07c (Utf8Buf refBufU)
open Neatvi.Props.C08f

/-- the keys `K` type the one-line text `cs` — valid code points, no newline, not empty, not starting with a
blank — and leave insert mode (`Inputs`, C08b: plain text and ESC, or any script of editing keys and ESC) -/
structure TypedText (K : Bytes) (cs : List Nat) : Prop where
  inputs : Inputs K cs
  valid : ∀ c ∈ cs, ValidCp c
  no10 : 10 ∉ cs
  head : cs.head? ≠ none ∧ cs.head? ≠ some 32 ∧ cs.head? ≠ some 9

/-- plain text (valid code points ≥ 32, not DEL) followed by ESC -/
theorem typedText_plain (cs : List Nat) (hpl : ∀ c ∈ cs, ValidCp c ∧ 32 ≤ c ∧ c ≠ 127) (hlen : cs.length < 100000)
    (hne : cs.head? ≠ none ∧ cs.head? ≠ some 32) : TypedText (encStr cs ++ [27]) cs := by
  refine ⟨inputs_text cs hpl hlen, fun c hc => (hpl c hc).1, fun h => by have := hpl 10 h; omega, hne.1, hne.2, ?_⟩
  intro h
  cases cs with
  | nil => simp at h
  | cons c t =>
    simp at h
    have := hpl c (by simp)
    omega

/-- `pending` does not look at `arg2` -/
theorem pending_setArg2 (a2 : Int) (s : VS) : pending (setArg2 a2 s) = pending s := rfl

section row
variable (s s1 : VS) (a2 : Int) (body cs : List Nat) (o : Nat) (K rest : Bytes)

/-- **`cw`** (`[count]cw`): the span `dw` deletes — from the cursor to the start of the `c`-th next word, when that
is on the row; the blanks before that word included: unlike in POSIX vi, `cw` is not `ce` — is replaced by the
typed text -/
theorem cw_spec (t : Nat) (hk : Prefixed s a2 119 s1) (hrow : OnRow s body o) (hu : Utf8Buf (lines s))
    (href : Motion.wordFwdRaw false (refBufU (lines s)) ⟨s.ed.xrow.toNat, o⟩ (opCount s a2).toNat = ⟨s.ed.xrow.toNat, t⟩)
    (ht : TypedText K cs) (hp : pending s1 = K ++ rest) (hkm : s.xkmap = 0) :
    ∃ s', vcMotion 99 s = Res.ok VC_OK s' ∧ pending s' = rest ∧
      RowChanged K s (setArg2 a2 s1) s' s.ed.xrow body cs (min o t) (max o t) := by
  obtain ⟨s', e1, e2, e3⟩ := row_change s s1 _ a2 119 119 body cs o t K rest hrow (lands_w s s1 a2 body o t hk hrow hu href)
    ht.inputs hp ht.valid ht.no10 ht.head hkm
  rw [inclusive_false _ 119 (by simp), span_excl] at e3
  exact ⟨s', e1, e2, e3⟩

/-- **`ce`**: the span from the cursor to the end of the `c`-th word, inclusive -/
theorem ce_spec (t : Nat) (hk : Prefixed s a2 101 s1) (hrow : OnRow s body o) (hu : Utf8Buf (lines s))
    (href : Motion.wordEndFwdRaw false (refBufU (lines s)) ⟨s.ed.xrow.toNat, o⟩ (opCount s a2).toNat = ⟨s.ed.xrow.toNat, t⟩)
    (ht : TypedText K cs) (hp : pending s1 = K ++ rest) (hkm : s.xkmap = 0) :
    ∃ s', vcMotion 99 s = Res.ok VC_OK s' ∧ pending s' = rest ∧
      RowChanged K s (setArg2 a2 s1) s' s.ed.xrow body cs (span true o t body.length).1 (span true o t body.length).2 := by
  obtain ⟨s', e1, e2, e3⟩ := row_change s s1 _ a2 101 101 body cs o t K rest hrow (lands_e s s1 a2 body o t hk hrow hu href)
    ht.inputs hp ht.valid ht.no10 ht.head hkm
  rw [inclusive_true _ 101 (by simp)] at e3
  exact ⟨s', e1, e2, e3⟩

/-- … in the usual case `o ≤ t < |body|`: the characters `[o, t + 1)` -/
theorem ce_spec_fwd (t : Nat) (hk : Prefixed s a2 101 s1) (hrow : OnRow s body o) (hu : Utf8Buf (lines s))
    (href : Motion.wordEndFwdRaw false (refBufU (lines s)) ⟨s.ed.xrow.toNat, o⟩ (opCount s a2).toNat = ⟨s.ed.xrow.toNat, t⟩)
    (hot : o ≤ t) (htl : t < body.length)
    (ht : TypedText K cs) (hp : pending s1 = K ++ rest) (hkm : s.xkmap = 0) :
    ∃ s', vcMotion 99 s = Res.ok VC_OK s' ∧ pending s' = rest ∧
      RowChanged K s (setArg2 a2 s1) s' s.ed.xrow body cs o (t + 1) := by
  obtain ⟨s', e1, e2, e3⟩ := ce_spec s s1 a2 body cs o K rest t hk hrow hu href ht hp hkm
  rw [span_incl o t body.length (by omega), show min o t = o by omega, show max o t = t by omega] at e3
  exact ⟨s', e1, e2, e3⟩

/-- **`c$`** (= `C`): from the cursor to the end of the line -/
theorem c_dollar_spec (hk : Prefixed s a2 36 s1) (hrow : OnRow s body o)
    (ht : TypedText K cs) (hp : pending s1 = K ++ rest) (hkm : s.xkmap = 0) :
    ∃ s', vcMotion 99 s = Res.ok VC_OK s' ∧ pending s' = rest ∧
      RowChanged K s (setArg2 a2 s1) s' s.ed.xrow body cs o body.length := by
  obtain ⟨s', e1, e2, e3⟩ := row_change s s1 _ a2 36 36 body cs o _ K rest hrow (lands_dollar s s1 a2 body o hk hrow)
    ht.inputs hp ht.valid ht.no10 ht.head hkm
  rw [inclusive_false _ 36 (by simp), span_excl] at e3
  have ho := hrow.onChar
  rw [show min o body.length = o by omega, show max o body.length = body.length by omega] at e3
  exact ⟨s', e1, e2, e3⟩

/-- **`c SPC`** (= `s`; `[count]s`): `min c (|body| - o)` characters from the cursor on -/
theorem c_spc_spec (hk : Prefixed s a2 32 s1) (hrow : OnRow s body o)
    (ht : TypedText K cs) (hp : pending s1 = K ++ rest) (hkm : s.xkmap = 0) :
    ∃ s', vcMotion 99 s = Res.ok VC_OK s' ∧ pending s' = rest ∧
      RowChanged K s (setArg2 a2 s1) s' s.ed.xrow body cs o (min (o + (opCount s a2).toNat) body.length) := by
  obtain ⟨s', e1, e2, e3⟩ := row_change s s1 _ a2 32 32 body cs o _ K rest hrow (lands_spc s s1 a2 body o hk hrow)
    ht.inputs hp ht.valid ht.no10 ht.head hkm
  rw [inclusive_false _ 32 (by simp), span_excl] at e3
  have ho := hrow.onChar
  rw [show min o (min (o + (opCount s a2).toNat) body.length) = o by omega,
    show max o (min (o + (opCount s a2).toNat) body.length) = min (o + (opCount s a2).toNat) body.length by omega] at e3
  exact ⟨s', e1, e2, e3⟩

/-- **`cl`** on a row displayed left to right: the characters `[o, min (o + c) (|body| - 1))` — `l` never moves
onto the newline, so the last character of the line is never part of the span: `cl` is `s` only when
`o + c < |body|` (`cl_eq_s`, `cl_last_char`) -/
theorem cl_spec (hk : Prefixed s a2 108 s1) (hrow : OnRow s body o) (hltr : LeftToRight s body)
    (ht : TypedText K cs) (hp : pending s1 = K ++ rest) (hkm : s.xkmap = 0) :
    ∃ s', vcMotion 99 s = Res.ok VC_OK s' ∧ pending s' = rest ∧
      RowChanged K s (setArg2 a2 s1) s' s.ed.xrow body cs o (min (o + (opCount s a2).toNat) (body.length - 1)) := by
  obtain ⟨s', e1, e2, e3⟩ := row_change s s1 _ a2 108 108 body cs o _ K rest hrow (lands_l s s1 a2 body o hk hrow hltr)
    ht.inputs hp ht.valid ht.no10 ht.head hkm
  rw [inclusive_false _ 108 (by simp), span_excl] at e3
  have ho := hrow.onChar
  rw [show min o (min (o + (opCount s a2).toNat) (body.length - 1)) = o by omega,
    show max o (min (o + (opCount s a2).toNat) (body.length - 1)) = min (o + (opCount s a2).toNat) (body.length - 1) by omega] at e3
  exact ⟨s', e1, e2, e3⟩

/-- **`c0`**: the characters before the cursor -/
theorem c0_spec (hk : Prefixed s a2 48 s1) (hrow : OnRow s body o)
    (ht : TypedText K cs) (hp : pending s1 = K ++ rest) (hkm : s.xkmap = 0) :
    ∃ s', vcMotion 99 s = Res.ok VC_OK s' ∧ pending s' = rest ∧
      RowChanged K s (setArg2 a2 s1) s' s.ed.xrow body cs 0 o := by
  obtain ⟨s', e1, e2, e3⟩ := row_change s s1 _ a2 48 48 body cs o 0 K rest hrow (lands_zero s s1 a2 body o hk)
    ht.inputs hp ht.valid ht.no10 ht.head hkm
  rw [inclusive_false _ 48 (by simp), span_excl] at e3
  rw [show min o 0 = 0 by omega, show max o 0 = o by omega] at e3
  exact ⟨s', e1, e2, e3⟩

/-- **`cf c`**: the characters from the cursor up to and including the `n`-th `c` to its right, `[o, t + 1)` with
`t` the reference `findChar`, are replaced by the typed text (when there is such a `c`) -/
theorem cfc_spec (c t : Nat) (hk : Prefixed s a2 102 s1) (hrow : OnRow s body o) (ha : 0 ≤ s.arg1)
    (hc : ValidCp c ∧ 32 ≤ c ∧ c ≠ 127) (hp : pending s1 = enc c ++ (K ++ rest)) (hkm : s.xkmap = 0)
    (hfind : Motion.findChar body o c true false (opCount s a2).toNat = some t) (ht : TypedText K cs) :
    ∃ s2 s', Reads false (enc c) (setArg2 a2 s1) s2 ∧ vcMotion 99 s = Res.ok VC_OK s' ∧ pending s' = rest ∧
      o ≤ t ∧ t < body.length ∧
      RowChanged K s { s2 with charlast := enc c, charcmd := 102 } s' s.ed.xrow body cs o (t + 1) := by
  obtain ⟨s2, h1, h2, h3⟩ := lands_f s s1 a2 body o c (K ++ rest) hk hrow ha hc hp (by rw [hk.frame.xkmap]; exact hkm)
  obtain ⟨b1, b2, hl⟩ := h3 t hfind
  obtain ⟨s', e1, e2, e3⟩ := row_change s s1 _ a2 102 102 body cs o t K rest hrow hl
    ht.inputs h2 ht.valid ht.no10 ht.head hkm
  rw [inclusive_true _ 102 (by simp), span_incl o t body.length (by omega), show min o t = o by omega,
    show max o t = t by omega] at e3
  exact ⟨s2, s', h1, e1, e2, b1, b2, e3⟩

/-- **`ct c`**: as `cf c`, up to the character before that `c` -/
theorem ctc_spec (c t : Nat) (hk : Prefixed s a2 116 s1) (hrow : OnRow s body o) (ha : 0 ≤ s.arg1)
    (hc : ValidCp c ∧ 32 ≤ c ∧ c ≠ 127) (hp : pending s1 = enc c ++ (K ++ rest)) (hkm : s.xkmap = 0)
    (hfind : Motion.findChar body o c true true (opCount s a2).toNat = some t) (ht : TypedText K cs) :
    ∃ s2 s', Reads false (enc c) (setArg2 a2 s1) s2 ∧ vcMotion 99 s = Res.ok VC_OK s' ∧ pending s' = rest ∧
      o ≤ t ∧ t < body.length ∧
      RowChanged K s { s2 with charlast := enc c, charcmd := 116 } s' s.ed.xrow body cs o (t + 1) := by
  obtain ⟨s2, h1, h2, h3⟩ := lands_t s s1 a2 body o c (K ++ rest) hk hrow ha hc hp (by rw [hk.frame.xkmap]; exact hkm)
  obtain ⟨b1, b2, hl⟩ := h3 t hfind
  obtain ⟨s', e1, e2, e3⟩ := row_change s s1 _ a2 116 116 body cs o t K rest hrow hl
    ht.inputs h2 ht.valid ht.no10 ht.head hkm
  rw [inclusive_true _ 116 (by simp), span_incl o t body.length (by omega), show min o t = o by omega,
    show max o t = t by omega] at e3
  exact ⟨s2, s', h1, e1, e2, b1, b2, e3⟩

end row

section line
variable (s s1 : VS) (a2 : Int) (body cs : List Nat) (K rest : Bytes)

/-- **`cc`** (= `S`; `[count]cc`): the rows `r .. min (r + c - 1) (n - 1)` are replaced by one row: the
indentation of the cursor row (with `autoindent`) and the typed text -/
theorem cc_spec (hk : Prefixed s a2 99 s1) (ha : 0 ≤ s.arg1) (h0 : 0 ≤ s.ed.xrow) (h1 : s.ed.xrow < lenOf s)
    (hline : (lines s)[s.ed.xrow.toNat]? = some (encStr (body ++ [10])))
    (hb : ∀ c ∈ body, ValidCp c) (hb10 : 10 ∉ body)
    (ht : TypedText K cs) (hp : pending s1 = K ++ rest) (hkm : s.xkmap = 0) :
    ∃ s', vcMotion 99 s = Res.ok VC_OK s' ∧ pending s' = rest ∧
      LineChanged K s (setArg2 a2 s1) s' s.ed.xrow (min (s.ed.xrow + opCount s a2 - 1) (lenOf s - 1)) body cs := by
  have hc := opCount_pos s a2 ha hk.nonneg
  have hmin : min s.ed.xrow (min (s.ed.xrow + opCount s a2 - 1) (lenOf s - 1)) = s.ed.xrow := by omega
  obtain ⟨s', e1, e2, e3⟩ := line_change s s1 a2 99 (min (s.ed.xrow + opCount s a2 - 1) (lenOf s - 1)) body cs K rest hk
    (by decide) rfl h0 h1 (by omega) (by omega) (by rw [hmin]; exact hline) hb hb10 ht.inputs hp ht.valid ht.no10 ht.head hkm
  rw [hmin, show max s.ed.xrow (min (s.ed.xrow + opCount s a2 - 1) (lenOf s - 1)) =
    min (s.ed.xrow + opCount s a2 - 1) (lenOf s - 1) by omega] at e3
  exact ⟨s', e1, e2, e3⟩

/-- **`cj`**: the rows `r .. min (r + c) (n - 1)` -/
theorem cj_spec (hk : Prefixed s a2 106 s1) (ha : 0 ≤ s.arg1) (h0 : 0 ≤ s.ed.xrow) (h1 : s.ed.xrow < lenOf s)
    (hline : (lines s)[s.ed.xrow.toNat]? = some (encStr (body ++ [10])))
    (hb : ∀ c ∈ body, ValidCp c) (hb10 : 10 ∉ body)
    (ht : TypedText K cs) (hp : pending s1 = K ++ rest) (hkm : s.xkmap = 0) :
    ∃ s', vcMotion 99 s = Res.ok VC_OK s' ∧ pending s' = rest ∧
      LineChanged K s (setArg2 a2 s1) s' s.ed.xrow (min (s.ed.xrow + opCount s a2) (lenOf s - 1)) body cs := by
  have hc := opCount_pos s a2 ha hk.nonneg
  have hmin : min s.ed.xrow (min (s.ed.xrow + opCount s a2) (lenOf s - 1)) = s.ed.xrow := by omega
  obtain ⟨s', e1, e2, e3⟩ := line_change s s1 a2 106 (min (s.ed.xrow + opCount s a2) (lenOf s - 1)) body cs K rest hk
    (by decide) rfl h0 h1 (by omega) (by omega) (by rw [hmin]; exact hline) hb hb10 ht.inputs hp ht.valid ht.no10 ht.head hkm
  rw [hmin, show max s.ed.xrow (min (s.ed.xrow + opCount s a2) (lenOf s - 1)) =
    min (s.ed.xrow + opCount s a2) (lenOf s - 1) by omega] at e3
  exact ⟨s', e1, e2, e3⟩

/-- **`ck`**: the rows `max (r - c) 0 .. r`; the indentation is that of the first of them (`body` is the row
`max (r - c) 0`) -/
theorem ck_spec (hk : Prefixed s a2 107 s1) (ha : 0 ≤ s.arg1) (h0 : 0 ≤ s.ed.xrow) (h1 : s.ed.xrow < lenOf s)
    (hline : (lines s)[(max (s.ed.xrow - opCount s a2) 0).toNat]? = some (encStr (body ++ [10])))
    (hb : ∀ c ∈ body, ValidCp c) (hb10 : 10 ∉ body)
    (ht : TypedText K cs) (hp : pending s1 = K ++ rest) (hkm : s.xkmap = 0) :
    ∃ s', vcMotion 99 s = Res.ok VC_OK s' ∧ pending s' = rest ∧
      LineChanged K s (setArg2 a2 s1) s' (max (s.ed.xrow - opCount s a2) 0) s.ed.xrow body cs := by
  have hc := opCount_pos s a2 ha hk.nonneg
  have hmin : min s.ed.xrow (max (s.ed.xrow - opCount s a2) 0) = max (s.ed.xrow - opCount s a2) 0 := by omega
  obtain ⟨s', e1, e2, e3⟩ := line_change s s1 a2 107 (max (s.ed.xrow - opCount s a2) 0) body cs K rest hk
    (by decide) rfl h0 h1 (by omega) (by omega) (by rw [hmin]; exact hline) hb hb10 ht.inputs hp ht.valid ht.no10 ht.head hkm
  rw [hmin, show max s.ed.xrow (max (s.ed.xrow - opCount s a2) 0) = s.ed.xrow by omega] at e3
  exact ⟨s', e1, e2, e3⟩

end line

end Neatvi.Lemmas.C08g
