import NeatviVerif.Lemmas.C02cTable
/-!
# C02c lemmas, part 3: `ec_edit` never loses a modified buffer other than the current one
-/
namespace Neatvi.Lemmas.C02c
open Neatvi Neatvi.Lbuf Neatvi.LbufIo Neatvi.Ex Neatvi.Lemmas.C02Ex Neatvi.Props

/-! ### `:ew`'s preliminary switch -/

theorem ewPre_held {ed : Ed} {v : View} (cmd path : Bytes) (h : Held ed v) : Held (C20.ewPre ed cmd path) v := by
  unfold C20.ewPre
  split
  · exact held_bufsSwitch 1 h
  · exact h

theorem ewPre_xaw (ed : Ed) (cmd path : Bytes) :
    (C20.ewPre ed cmd path).xaw = ed.xaw ∧ (C20.ewPre ed cmd path).xwa = ed.xwa := by
  unfold C20.ewPre
  split
  · exact bufsSwitch_xaw ed 1
  · exact ⟨rfl, rfl⟩

theorem ewPre_of_empty (ed : Ed) (cmd path : Bytes) (h : path.isEmpty = true) : C20.ewPre ed cmd path = ed := by
  unfold C20.ewPre
  simp only [h, Bool.not_true, Bool.false_and, Bool.false_eq_true, if_false]

/-- without a path to look for, nothing is switched -/
theorem ewPre_of_notFound (ed : Ed) (cmd path : Bytes) (h : ed.bufsFind path < 0) : C20.ewPre ed cmd path = ed := by
  unfold C20.ewPre
  have : decide (ed.bufsFind path > 1) = false := by
    rw [decide_eq_false_iff_not]; omega
  simp only [this, Bool.and_false, Bool.false_eq_true, if_false]

/-! ### the stage `bufs_switch(bufs_open(path))` after the second guard has passed -/

/-- the second guard passed, so the slot `bufs_open` reuses shows no dirty buffer: every dirty view
    is still shown after the new buffer has been opened and made current, by a slot other than slot 0 -/
theorem editOpen_heldTail (ed3 ed3g : Ed) (path : Bytes) (v : View) (haw : ed3.xaw = 0) (hwa : ed3.xwa = 0)
    (hv : v.2.2.2 = true) (hg2 : editGuard2 ed3 path = some (false, ed3g))
    (hheld : Held ed3 v) (htail : path.isEmpty = true → HeldTail ed3 v) :
    HeldTail (editOpen ed3g path) v := by
  have T : SameTable ed3 ed3g := editGuard2_sameTable _ _ _ _ haw hg2
  unfold editOpen
  by_cases hc : (!path.isEmpty || ed3g.cur.isNone) = true
  · rw [if_pos hc]
    show HeldTail ((ed3g.bufsOpen path).2.bufsSwitch ed3g.findRoom) v
    obtain ⟨k, hk⟩ := (T.held hheld).getD
    have hc3 : (!path.isEmpty || ed3.cur.isNone) = true := by rw [← T.cur_isNone]; exact hc
    have hne : k ≠ ed3g.findRoom := by
      intro hkf
      unfold editGuard2 at hg2
      simp only [hc3, hwa, beq_self_eq_true, Bool.and_self, if_true] at hg2
      have hk3 : slotView (ed3.bufs.getD ed3.findRoom none) = some v := by
        rw [← T.findRoom, ← hkf, ← T.slots k]; exact hk
      have := bufsModified_false _ _ _ _ haw hg2 v hk3
      rw [hv] at this; cases this
    apply heldTail_bufsSwitch_ne _ k hne
    rw [(C20.open_uses_free_slot ed3g path).2.2.2.2.2.2.1 k hne]
    exact hk
  · rw [if_neg hc]
    have hp : path.isEmpty = true := by
      cases hpe : path.isEmpty with
      | true => rfl
      | false => simp [hpe] at hc
    exact T.heldTail (htail hp)

/-! ### the whole command, up to the `+cmd` -/

/-- `:e` in all its forms, `writeany` and `autowrite` off: a dirty view `v` shown by a slot other than
    the current one is still shown by the state `edm` in which `ec_edit` either returns or hands over to
    the `+cmd` -/
theorem ecEdit_core (f : Nat) (ed ed' : Ed) (cmd arg : Bytes) (rc : Int) (v : View)
    (hwa : ed.xwa = 0) (haw : ed.xaw = 0) (hv : v.2.2.2 = true) (hheld : HeldTail ed v)
    (h : ecEdit (f + 1) ed cmd arg = some (rc, ed')) :
    ∃ edm, Held edm v ∧ (ed' = edm ∨ editPlus f (plusSplit arg).1 edm = some (rc, ed')) := by
  rw [ecEdit_stages] at h
  split at h
  · cases h
  · rename_i ed1 hg
    cases h
    exact ⟨_, (editGuard_sameTable _ _ _ _ haw hg).held hheld.held, Or.inl rfl⟩
  · rename_i ed1 hg
    have T1 : SameTable ed ed1 := editGuard_sameTable _ _ _ _ haw hg
    split at h
    · cases h
    · rename_i ed2 hp
      cases h
      exact ⟨_, (T1.trans (pathExpand_sameTable _ _ _ _ _ hp)).held hheld.held, Or.inl rfl⟩
    · rename_i path ed2 hp
      have T2 : SameTable ed ed2 := T1.trans (pathExpand_sameTable _ _ _ _ _ hp)
      have h3 : Held (C20.ewPre ed2 cmd path) v := ewPre_held cmd path (T2.held hheld.held)
      have haw3 : (C20.ewPre ed2 cmd path).xaw = 0 := by rw [(ewPre_xaw ed2 cmd path).1, T2.xaw, haw]
      have hwa3 : (C20.ewPre ed2 cmd path).xwa = 0 := by rw [(ewPre_xaw ed2 cmd path).2, T2.xwa, hwa]
      split at h
      · exact ⟨_, held_bufsSwitch _ h3, Or.inr h⟩
      · split at h
        · cases h
        · rename_i ed3g hg2
          cases h
          exact ⟨_, (editGuard2_sameTable _ _ _ _ haw3 hg2).held h3, Or.inl rfl⟩
        · rename_i ed3g hg2
          split at h
          · cases h
          · rename_i ed5 hfin
            have h4 : HeldTail (editOpen ed3g path) v :=
              editOpen_heldTail _ _ path v haw3 hwa3 hv hg2 h3 (by
                intro hp
                rw [ewPre_of_empty _ _ _ hp]
                exact T2.heldTail hheld)
            exact ⟨ed5, (heldTail_of_drop (editFinish_drop _ _ _ hfin) h4).held, Or.inr h⟩

/-- no `+` in front of the argument: no `+cmd` -/
theorem plusSplit_noplus (arg : Bytes) (h : (arg.dropWhile (· == 32)).headD 0 ≠ 43) : (plusSplit arg).1 = [] := by
  unfold plusSplit
  have : ((arg.dropWhile (· == 32)).headD 0 == 43) = false := beq_eq_false_iff_ne.2 h
  simp only [this, Bool.false_eq_true, if_false]

theorem editPlus_nil (f : Nat) (ed : Ed) : editPlus f [] ed = some (0, ed) := rfl

/-! ### the second guard refuses -/

/-- the state in which the second guard refuses: the bump of the buffer it tested and the message -/
theorem editGuard2_refuses (ed : Ed) (path : Bytes) (b : Buf) (hwa : ed.xwa = 0) (haw : ed.xaw = 0)
    (hc : path ≠ [] ∨ ed.cur = none)
    (hb : ed.bufs.getD ed.findRoom none = some b) (hd : (modified b.lb).1 = true) :
    editGuard2 ed path = some (true, (bumpAt ed ed.findRoom b).show (strOf "last buffer modified")) := by
  unfold editGuard2
  have hc' : (!path.isEmpty || ed.cur.isNone) = true := by
    rcases hc with hc | hc
    · cases path with
      | nil => exact absurd rfl hc
      | cons _ _ => rfl
    · rw [hc]; simp
  simp only [hc', hwa, beq_self_eq_true, Bool.and_self, if_true]
  exact guard_refuses_at ed ed.findRoom b _ hb hd haw

end Neatvi.Lemmas.C02c
