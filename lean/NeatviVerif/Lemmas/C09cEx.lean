import NeatviVerif.Lemmas.C09cEd
import NeatviVerif.Props.C20c
/-!
# C09c, part 4: the address parser, path expansion, `ex_txt`, `:w` on related states

The decompositions of the long functions of `ex.c` are those of `Lemmas/C20cSolo*.lean`, `Lemmas/C02cStages.lean`,
`Lemmas/C05dDecomp.lean`.
-/
namespace Neatvi.Lemmas.C09c
open Neatvi Neatvi.Lbuf Neatvi.LbufIo Neatvi.Ex Neatvi.Rset
open Neatvi.Lemmas.C20c (searchPrep searchRun exSearch_eq linenoBase linenoFin exLineno_eq regionFin exRegion_eq
  pathExpand_eq pathFin writeSave writeRegion writeAfterX writeAfterPath ecWrite_eq)
open Neatvi.Lemmas.C02Ex (writeFinish)

/-- read the result of a related call: both fail, or both return the same value and related states -/
macro "rrel_cases " t:term " with " v:rcasesPat a:rcasesPat b:rcasesPat h:rcasesPat : tactic =>
  `(tactic| (rcases RRel.cases $t with ⟨r1, r2⟩ | ⟨$v:rcasesPat, $a:rcasesPat, $b:rcasesPat, r1, r2, $h:rcasesPat⟩ <;> rw [r1, r2]))

theorem EdRel.ite {w : Bool} {c c' : Bool} (hc : c = c') {x x' y y' : Ed} (h1 : EdRel w x x') (h2 : EdRel w y y') :
    EdRel w (if c = true then x else y) (if c' = true then x' else y') := by
  subst hc; split <;> assumption

/-! ### `ex_search` -/

theorem searchPrep_rel {a b : Ed} (h : EdRel false a b) (loc : Bytes) :
    EdRel false (searchPrep a loc) (searchPrep b loc) := by
  unfold searchPrep
  cases (reRead loc).1 with
  | none => exact h
  | some k =>
    simp only []
    split
    · exact kwdSet_rel h _ _
    · exact h

theorem exSearch_scan_rel {a b : Ed} (h : EdRel false a b) (re : RStr) (dir len : Int) :
    ∀ (f : Nat) (x : Int), exSearch.scan a re dir len f x = exSearch.scan b re dir len f x := by
  intro f
  induction f with
  | zero => intro x; rw [exSearch.scan.eq_1, exSearch.scan.eq_1]
  | succ f ih =>
    intro x
    rw [exSearch.scan.eq_2, exSearch.scan.eq_2, h.line_eq]
    simp only [ih]

theorem searchRun_rel {a b : Ed} (h : EdRel false a b) (rest : Bytes) : RRel (searchRun a rest) (searchRun b rest) := by
  unfold searchRun
  rw [h.xkwddir, h.xkwd, h.xrow, h.mkRe_eq, h.len_eq]
  split
  · exact RRel.some h
  · cases b.mkRe b.xkwd with
    | none => trivial
    | some o =>
      cases o with
      | none => exact RRel.some h
      | some re =>
        simp only [exSearch_scan_rel h]
        cases exSearch.scan b re b.xkwddir b.len (b.len.toNat + 1) (b.xrow + b.xkwddir) with
        | none => trivial
        | some row => exact RRel.some h

theorem exSearch_rel {a b : Ed} (h : EdRel false a b) (loc : Bytes) : RRel (exSearch a loc) (exSearch b loc) := by
  rw [exSearch_eq, exSearch_eq]
  exact searchRun_rel (searchPrep_rel h loc) _

/-! ### `ex_lineno` -/

theorem linenoBase_rel {a b : Ed} (h : EdRel false a b) (loc : Bytes) : RRel (linenoBase a loc) (linenoBase b loc) := by
  unfold linenoBase
  simp only []
  rw [h.xrow, h.len_eq, h.jump_eq]
  split
  · exact RRel.some h
  · split
    · exact RRel.some h
    · split
      · cases b.lb.bind (fun l => jump l (loc.getD 1 0)) with
        | none => exact RRel.some h
        | some p => exact RRel.some h
      · split
        · rrel_cases exSearch_rel h loc with v a1 b1 h1
          · trivial
          · obtain ⟨n, rest⟩ := v
            simp only []
            split
            · exact RRel.some h1
            · exact RRel.some h1
        · split
          · exact RRel.some h
          · exact RRel.some h

theorem linenoFin_rel {x y : R (Int × Bytes)} (h : RRel x y) : RRel (linenoFin x) (linenoFin y) := by
  rrel_cases h with v a1 b1 h1
  · trivial
  · obtain ⟨n, rest⟩ := v
    unfold linenoFin
    simp only []
    split
    · exact RRel.some h1
    · exact RRel.some h1

theorem exLineno_rel {a b : Ed} (h : EdRel false a b) (loc : Bytes) : RRel (exLineno a loc) (exLineno b loc) := by
  rw [exLineno_eq, exLineno_eq]
  exact linenoFin_rel (linenoBase_rel h loc)

/-! ### `ex_region` -/

theorem exRegion_go_rel : ∀ (f : Nat) (a b : Ed), EdRel false a b → ∀ (loc : Bytes) (na : Nat) (x y : Int),
    RRel (exRegion.go f a loc na x y) (exRegion.go f b loc na x y) := by
  intro f
  induction f with
  | zero => intro a b h loc na x y; rw [exRegion.go, exRegion.go]; exact RRel.some h
  | succ f ih =>
    intro a b h loc na x y
    rw [exRegion.go, exRegion.go]
    simp only []
    split
    · exact RRel.some h
    · rrel_cases exLineno_rel h loc with v a1 b1 h1
      · trivial
      · obtain ⟨n, rest⟩ := v
        simp only []
        split
        · exact RRel.some h1
        · split
          · exact RRel.some h1
          · refine ih _ _ ?_ _ _ _ _
            split
            · exact { h1 with xrow := rfl }
            · exact h1

theorem regionFin_rel {x y : R (Int × Int)} (h : RRel x y) : RRel (regionFin x) (regionFin y) := by
  rrel_cases h with v a1 b1 h1
  · trivial
  · obtain ⟨p, q⟩ := v
    unfold regionFin
    simp only []
    rw [h1.len_eq]
    repeat' split
    all_goals exact RRel.some h1

theorem exRegion_rel {a b : Ed} (h : EdRel false a b) (loc : Bytes) : RRel (exRegion a loc) (exRegion b loc) := by
  rw [exRegion_eq, exRegion_eq, h.len_eq, h.xrow]
  split
  · exact RRel.some h
  · split
    · exact RRel.some h
    · exact regionFin_rel (exRegion_go_rel _ _ _ h _ _ _ _)

/-! ### `ex_pathexpand` -/

theorem pathExpand_go_rel {a b : Ed} (h : EdRel false a b) (sp : Bool) :
    ∀ (f : Nat) (src dst : Bytes), pathExpand.go a sp f src dst = pathExpand.go b sp f src dst := by
  intro f
  induction f with
  | zero => intro src dst; rw [pathExpand.go, pathExpand.go]
  | succ f ih =>
    intro src dst
    cases src with
    | nil => rw [pathExpand.go, pathExpand.go]
    | cons c r =>
      rw [pathExpand.go, pathExpand.go]
      simp only [ih]
      split
      · rfl
      · split
        · rcases (h.getD (if (c == 35) = true then 1 else 0)).cases with ⟨r1, r2⟩ | ⟨p, q, r1, r2, hpq⟩
          · rw [r1, r2]
          · rw [r1, r2]
            simp only []
            rw [hpq.path]
        · split
          · rcases h.cur_cases with ⟨r1, r2⟩ | ⟨p, q, r1, r2, hpq⟩
            · rw [r1, r2]
            · rw [r1, r2]
              simp only []
              rw [hpq.path]
          · rfl

theorem pathFin_rel {a b : Ed} (h : EdRel false a b) (x : Option (Option Bytes)) : RRel (pathFin a x) (pathFin b x) := by
  unfold pathFin
  cases x with
  | none => trivial
  | some o =>
    cases o with
    | none => exact RRel.some (show_rel h _)
    | some p =>
      simp only []
      split
      · trivial
      · exact RRel.some h

theorem pathExpand_rel {a b : Ed} (h : EdRel false a b) (src : Bytes) (sp : Bool) :
    RRel (pathExpand a src sp) (pathExpand b src sp) := by
  rw [pathExpand_eq, pathExpand_eq, pathExpand_go_rel h]
  exact pathFin_rel h _

/-! ### `ex_txt` -/

theorem exTxt_rel {a b : Ed} (h : EdRel false a b) (src excmd : Bytes) :
    (exTxt a src excmd).1 = (exTxt b src excmd).1 ∧ EdRel false (exTxt a src excmd).2 (exTxt b src excmd).2 := by
  unfold exTxt
  simp only []
  rw [h.input]
  repeat' split
  all_goals first | exact ⟨rfl, h⟩ | exact ⟨rfl, { h with input := rfl }⟩ | (exfalso; contradiction)

/-! ### `ec_write` -/

theorem writeFinish_rel {a b : Ed} (h : EdRel false a b) {ca cb : Buf} (hc : BufRel false ca cb) (path : Bytes)
    (x e : Int) : RRel (writeFinish a ca path x e) (writeFinish b cb path x e) := by
  unfold writeFinish
  simp only []
  rw [hc.path]
  have key : ∀ (a' b' : Ed) (ca' cb' : Buf), EdRel false a' b' → BufRel false ca' cb' →
      RRel (if (ca'.path == path && x == 0 && e == a'.len) = true then
          some ((0 : Int), a'.setCur { ca' with lb := (modified (savedCore ca'.lb false)).2, mtime := a'.mtimeOf path })
        else if (ca'.path == path) = true then some (0, a'.setCur { ca' with lb := unsavedMark ca'.lb, mtime := a'.mtimeOf path })
        else some (0, a'.setCur ca'))
        (if (cb'.path == path && x == 0 && e == b'.len) = true then
          some ((0 : Int), b'.setCur { cb' with lb := (modified (savedCore cb'.lb false)).2, mtime := b'.mtimeOf path })
        else if (cb'.path == path) = true then some (0, b'.setCur { cb' with lb := unsavedMark cb'.lb, mtime := b'.mtimeOf path })
        else some (0, b'.setCur cb')) := by
    intro a' b' ca' cb' h' hc'
    rw [hc'.path, h'.len_eq, h'.mtimeOf_eq]
    split
    · exact RRel.some (setCur_rel h' { hc' with path := rfl, lb := (modified_rel (savedCore_rel hc'.lb false)).2, mtime := rfl })
    · split
      · exact RRel.some (setCur_rel h' { hc' with path := rfl, lb := unsavedMark_rel hc'.lb, mtime := rfl })
      · exact RRel.some (setCur_rel h' hc')
  split
  · exact key _ _ _ _ { h with regs := by show a.regs.put 37 path 0 = b.regs.put 37 path 0; rw [h.regs] }
      { hc with path := rfl }
  · exact key _ _ _ _ h hc

theorem writeSave_rel {a b : Ed} (h : EdRel false a b) {ca cb : Buf} (hc : BufRel false ca cb) (cmd path : Bytes)
    (be : Int × Int) : RRel (writeSave a ca cmd path be) (writeSave b cb cmd path be) := by
  obtain ⟨x, e⟩ := be
  unfold writeSave
  simp only []
  split
  · split
    · exact RRel.some h
    · refine RRel.some ?_
      have hs := show_rel h ([34] ++ path ++ strOf "\"  [=" ++ intStr (e - x) ++ strOf "]  [w]")
      exact EdRel.ite hs.xvis { hs with unmodelled := rfl } hs
  · rw [hc.path, hc.mtime]
    rrel_cases lbufSaveP_rel h hc.lb.lines x.toNat e path (hasBang cmd) (if (cb.path == path) = true then cb.mtime else 0)
      with v a1 b1 h1
    · trivial
    · cases v with
      | some err => exact RRel.some (show_rel h1 err)
      | none =>
        simp only []
        have hs := show_rel h1 ([34] ++ path ++ strOf "\"  [=" ++ intStr (e - x) ++ strOf "]  [w]")
        rcases hs.cur_cases with ⟨s1, s2⟩ | ⟨p, q, s1, s2, hpq⟩
        · rw [s1, s2]; trivial
        · rw [s1, s2]
          exact writeFinish_rel hs hpq path x e

theorem writeRegion_rel {a b : Ed} (h : EdRel false a b) (loc cmd : Bytes) (path : Option Bytes) :
    RRel (writeRegion a loc cmd path) (writeRegion b loc cmd path) := by
  unfold writeRegion
  rrel_cases exRegion_rel h loc with v a1 b1 h1
  · trivial
  · obtain ⟨rc, x, e⟩ := v
    simp only []
    split
    · exact RRel.some h1
    · rcases h1.cur_cases with ⟨s1, s2⟩ | ⟨p, q, s1, s2, hpq⟩
      · rw [s1, s2]; trivial
      · rw [s1, s2]
        simp only []
        rw [h1.len_eq]
        exact writeSave_rel h1 hpq cmd _ _

theorem writeAfterX_rel {x y : R Bool} (h : RRel x y) (loc cmd : Bytes) (path : Option Bytes) :
    RRel (writeAfterX loc cmd path x) (writeAfterX loc cmd path y) := by
  rrel_cases h with v a1 b1 h1
  · trivial
  · unfold writeAfterX
    cases v with
    | false => exact RRel.some h1
    | true => exact writeRegion_rel h1 loc cmd path

theorem ecWrite_rel {a b : Ed} (h : EdRel false a b) (loc cmd arg : Bytes) :
    RRel (ecWrite a loc cmd arg) (ecWrite b loc cmd arg) := by
  rw [ecWrite_eq, ecWrite_eq]
  have hp : RRel (if (!arg.isEmpty) = true then pathExpand a arg true else some (a.cur.map (·.path), a))
      (if (!arg.isEmpty) = true then pathExpand b arg true else some (b.cur.map (·.path), b)) := by
    split
    · exact pathExpand_rel h arg true
    · rw [h.cur_path]; exact RRel.some h
  unfold writeAfterPath
  rrel_cases hp with path a1 b1 h1
  · trivial
  · simp only []
    apply writeAfterX_rel
    split
    · exact ⟨(modifiedAt_rel h1 0).1, (modifiedAt_rel h1 0).2⟩
    · exact RRel.some h1

end Neatvi.Lemmas.C09c
