import NeatviVerif.Spec.RegexSem
/-!
# C13b, part A: context-free patterns and the matching of one atom on a suffix of the line

`lbuf_search` and `ec_substitute` hand the matcher the rest `line.drop k` of the line together with
the flag "not at the beginning of the line".  An atom of the pattern that only looks at the text from
the current position on gives the same answer on the rest as on the whole line, shifted by `k`:
`atomMatch_shift`.  The atoms that look *behind* the current position are

* `\<` and `\>` (they read the character before the position: `prevLead`): excluded by `ContextFree`;
* `^`: at the start of the rest the flag `REG_NOTBOL` makes it fail, which is what the whole line says
  at an offset `k > 0` — except that with `REG_NEWLINE` the whole line lets `^` match after a newline
  byte.  So `^` is harmless when the byte before the rest is not a newline (`NlFree`), which is the case
  for every line of the line buffer (a newline is the last byte of a line only).
-/
namespace Neatvi.Lemmas.C13b
open Neatvi Neatvi.Regex Neatvi.Spec.RegexSem

/-- the atom does not look behind the position it is tried at: not `\<`, not `\>` -/
def CFAtom (a : Atom) : Bool := a.k != AK.wbeg && a.k != AK.wend

/-- **ContextFree**: the pattern contains no word-boundary atom `\<`, `\>` -/
def ContextFree : RNode → Bool
  | .nul => true
  | .atom a _ _ => CFAtom a
  | .cat a b => ContextFree a && ContextFree b
  | .alt a b => ContextFree a && ContextFree b
  | .grp a _ _ _ => ContextFree a

/-- the pattern contains no `^` -/
def NoBeg : RNode → Bool
  | .nul => true
  | .atom a _ _ => a.k != AK.beg
  | .cat a b => NoBeg a && NoBeg b
  | .alt a b => NoBeg a && NoBeg b
  | .grp a _ _ _ => NoBeg a

/-- the rest of the line from byte `k` does not begin right after a newline byte inside the line: the
    byte before offset `k` is not a newline, or nothing is left.  With `REG_NEWLINE` a `^` at offset
    `k > 0` of the whole line then fails, as it does at the start of the rest under `REG_NOTBOL`. -/
def NlFree (line : Bytes) (k : Nat) : Prop := line.getD (k - 1) 0 ≠ 10 ∨ line.length ≤ k

instance (line : Bytes) (k : Nat) : Decidable (NlFree line k) := by unfold NlFree; infer_instance

/-- the flags of the match on the rest (`fs`) against those of the match on the whole line (`fw`):
    the same but for `REG_NOTBOL`, which is set for the rest -/
structure FlagsRest (fw fs : Nat) : Prop where
  icase : hasFlag fs REG_ICASE = hasFlag fw REG_ICASE
  nl : hasFlag fs REG_NEWLINE = hasFlag fw REG_NEWLINE
  noteol : hasFlag fs REG_NOTEOL = hasFlag fw REG_NOTEOL
  notbol : hasFlag fs REG_NOTBOL = true

theorem and_or_pow (x : Nat) {y z : Nat} (h : y &&& z = 0) : (x ||| y) &&& z = x &&& z := by
  rw [Nat.and_or_distrib_right, h, Nat.or_zero]

/-- adding `REG_NOTBOL` to any flags gives flags of the rest -/
theorem flagsRest_or (f : Nat) : FlagsRest f (f ||| REG_NOTBOL) := by
  refine ⟨?_, ?_, ?_, ?_⟩
  · unfold hasFlag; rw [and_or_pow f (by decide)]
  · unfold hasFlag; rw [and_or_pow f (by decide)]
  · unfold hasFlag; rw [and_or_pow f (by decide)]
  · unfold hasFlag REG_NOTBOL
    have h1 : ((f ||| 16) &&& 16).testBit 4 = true := by
      rw [Nat.testBit_and, Nat.testBit_or, show Nat.testBit 16 4 = true from by decide]; simp
    have : (f ||| 16) &&& 16 ≠ 0 := by
      intro h; rw [h] at h1; simp at h1
    simpa using this

/-! ## reading the rest -/

theorem getD_drop (l : Bytes) (k i : Nat) : (l.drop k).getD i 0 = l.getD (i + k) 0 := by
  rw [List.getD_eq_getElem?_getD, List.getD_eq_getElem?_getD, List.getElem?_drop, Nat.add_comm]

theorem drop_drop' (l : Bytes) (k i : Nat) : (l.drop k).drop i = l.drop (i + k) := by
  rw [List.drop_drop, Nat.add_comm]

theorem rdb_drop (l : Bytes) (k i : Nat) (hk : k ≤ l.length) : rdb (l.drop k) i = rdb l (i + k) := by
  unfold rdb
  rw [List.length_drop, List.getElem?_drop, Nat.add_comm k i]
  by_cases h1 : i + k < l.length
  · rw [if_pos h1, if_pos (show i < l.length - k by omega)]
  · rw [if_neg h1, if_neg (show ¬ i < l.length - k by omega)]
    by_cases h2 : i + k = l.length
    · rw [if_pos h2, if_pos (show i = l.length - k by omega)]
    · rw [if_neg h2, if_neg (show ¬ i = l.length - k by omega)]

theorem rxLen_drop (l : Bytes) (k i : Nat) : rxLen (l.drop k) i = rxLen l (i + k) := by
  unfold rxLen
  rw [getD_drop, List.length_drop]
  congr 1
  omega

theorem decAt_drop (l : Bytes) (k i : Nat) (hk : k ≤ l.length) : decAt (l.drop k) i = decAt l (i + k) := by
  unfold decAt
  rw [List.length_drop, drop_drop']
  by_cases h : i ≤ l.length - k
  · rw [if_pos h, if_pos (by omega)]
  · rw [if_neg h, if_neg (by omega)]

/-! ## one atom -/

/-- the outcome of an atom on the rest, read as an outcome on the whole line -/
def shiftAR (k : Nat) : AR → AR
  | AR.ok j => AR.ok (j + k)
  | AR.fail => AR.fail
  | AR.trap => AR.trap

theorem chrIcase_drop (lit l : Bytes) (k : Nat) (hk : k ≤ l.length) : ∀ (f i r : Nat),
    chrIcase lit l f i (r + k) = shiftAR k (chrIcase lit (l.drop k) f i r) := by
  intro f
  induction f with
  | zero => intro i r; rfl
  | succ f ih =>
    intro i r
    rw [chrIcase, chrIcase]
    cases rdb lit i with
    | none => rfl
    | some c =>
      cases c with
      | zero => rfl
      | succ c =>
        simp only []
        rw [decAt_drop l k r hk, rxLen_drop]
        cases decAt lit i with
        | none => rfl
        | some c1 =>
          cases decAt l (r + k) with
          | none => rfl
          | some c2 =>
            simp only []
            split
            · rfl
            · rw [show r + k + rxLen l (r + k) = (r + rxLen l (r + k)) + k by omega]
              exact ih _ _

/-- **one atom on the rest of the line.**  For an atom other than `\<`, `\>`, an offset `k > 0` inside
    the line whose preceding byte is not a newline (needed for `^` only), and the flags of the rest
    (`REG_NOTBOL` set), matching the atom at position `pos` of the rest `line.drop k` gives what matching
    it at position `pos + k` of the whole line gives, positions shifted by `k`. -/
theorem atomMatch_shift (a : Atom) (line : Bytes) (k : Nat) (fw fs : Nat) (pos : Nat)
    (hcf : CFAtom a = true) (hk : k ≤ line.length) (hk0 : 0 < k) (hfl : FlagsRest fw fs)
    (hbol : a.k = AK.beg → NlFree line k) :
    atomMatch a line fw (pos + k) = shiftAR k (atomMatch a (line.drop k) fs pos) := by
  unfold atomMatch
  rw [rdb_drop line k pos hk, hfl.icase, hfl.nl, hfl.noteol, hfl.notbol]
  cases hr : rdb line (pos + k) with
  | none => rfl
  | some cur =>
    simp only []
    obtain ⟨ak, as⟩ := a
    cases ak with
    | chr =>
      simp only []
      by_cases hic : hasFlag fw REG_ICASE = true
      · simp only [hic, Bool.not_true, Bool.false_eq_true, if_false]
        exact chrIcase_drop as line k hk _ 0 pos
      · simp only [hic, Bool.not_false, if_true]
        rw [drop_drop']
        split
        · simp only [shiftAR]; congr 1; omega
        · rfl
    | beg =>
      simp only []
      have hb := hbol rfl
      have hp : (pos + k == 0) = false := by simp; omega
      rw [hp]
      by_cases hp0 : pos = 0
      · subst hp0
        have e : line.getD (0 + k - 1) 0 = line.getD (k - 1) 0 := by rw [Nat.zero_add]
        simp only [Bool.false_eq_true, if_false, e, beq_self_eq_true, if_true]
        have : (line.getD (k - 1) 0 == 10 && cur != 0) = false := by
          rcases hb with hb | hb
          · have : (line.getD (k - 1) 0 == 10) = false := by simpa using hb
            rw [this]; rfl
          · -- nothing is left: the current byte is the terminator
            have hc : cur = 0 := by
              rw [Nat.zero_add] at hr
              unfold rdb at hr
              rw [if_neg (by omega), if_pos (by omega)] at hr
              injection hr with hr; exact hr.symm
            subst hc; simp
        rw [this]
        simp [shiftAR]
      · have hp1 : (pos == 0) = false := by simpa using hp0
        rw [hp1, getD_drop, show pos - 1 + k = pos + k - 1 by omega]
        simp only [Bool.false_eq_true, if_false]
        split
        · split <;> simp [shiftAR]
        · rfl
    | end_ =>
      simp only []
      split
      · split <;> simp [shiftAR]
      · split
        · split <;> simp [shiftAR]
        · rfl
    | any =>
      simp only []
      rw [rxLen_drop]
      split
      · rfl
      · simp only [shiftAR]; congr 1; omega
    | brk =>
      simp only []
      rw [decAt_drop line k pos hk, rxLen_drop]
      cases decAt line (pos + k) with
      | none => rfl
      | some c =>
        simp only []
        split
        · rfl
        · cases brkMatch (as.drop 1) c (hasFlag fw REG_ICASE) with
          | none => rfl
          | some b =>
            cases b
            · rfl
            · simp only [shiftAR]; congr 1; omega
    | wbeg => simp [CFAtom] at hcf
    | wend => simp [CFAtom] at hcf

end Neatvi.Lemmas.C13b
