import NeatviVerif.Lemmas.C16cCmd
/-!
# C16c, part 7: the dispatcher `runCmd`, `:g`, `:e`, command lines, `ex_command`; the induction on the fuel
-/
set_option linter.unusedSimpArgs false
set_option linter.unusedVariables false
namespace Neatvi.Lemmas.C16c
open Neatvi Neatvi.Uc Neatvi.Spec Neatvi.Lbuf Neatvi.LbufIo Neatvi.Ex Neatvi.Rset Neatvi.Props.C11b Neatvi.Props.C16b
open Neatvi.Lemmas.C02Ex (runCmd_quit runCmd_edit runCmd_write)

theorem renumber_ok : ∀ (l acc : List (Option Buf)) (n : Int),
    (∀ b ∈ acc, ∀ x, b = some x → LbOk x.lb ∧ IsU8 x.path) → (∀ b ∈ l, ∀ x, b = some x → LbOk x.lb ∧ IsU8 x.path) →
    ∀ b ∈ (l.foldl (fun (acc : List (Option Buf) × Int) b =>
          match b with
          | some x => (acc.1 ++ [some { x with id := acc.2 + 1 }], acc.2 + 1)
          | none => (acc.1 ++ [none], acc.2)) (acc, n)).1, ∀ x, b = some x → LbOk x.lb ∧ IsU8 x.path := by
  intro l
  induction l with
  | nil => intro acc n ha _; exact ha
  | cons a l ih =>
    intro acc n ha hl
    rw [List.foldl_cons]
    have hl' : ∀ b ∈ l, ∀ x, b = some x → LbOk x.lb ∧ IsU8 x.path := fun b hb => hl b (by simp [hb])
    cases a with
    | none =>
      apply ih _ _ _ hl'
      intro b hb x hx
      simp only [List.mem_append, List.mem_singleton] at hb
      rcases hb with hb | hb
      · exact ha b hb x hx
      · subst hb; cases hx
    | some y =>
      apply ih _ _ _ hl'
      intro b hb x hx
      simp only [List.mem_append, List.mem_singleton] at hb
      rcases hb with hb | hb
      · exact ha b hb x hx
      · subst hb; injection hx with hx; subst hx
        exact hl (some y) (by simp) y rfl

theorem EdOk.edit3 {ed ed1 ed' : Ed} {s : Option Bytes} {b e : Int} (he : ed.edit s b e = some ed1) (h : EdOk ed)
    (hs : OptValid s) (hb : core ed' = core ed1) : EdOk ed' := (h.edit hs he).to hb

/-- every branch of the dispatcher keeps the state valid, given that the two recursive handlers do -/
theorem runCmd_ok1 (f : Nat) (body : Bytes → Bool) (ed ed' : Ed) (hd : String) (loc cmd arg : Bytes) (txt : Option Bytes) (r : Int)
    (hglob : hd = "ec_glob" → ∀ ed r ed', EdOk ed → ecGlob f ed loc cmd arg = some (r, ed') → EdOk ed')
    (hedit : hd = "ec_edit" → ∀ ed r ed', EdOk ed → ecEdit f ed cmd arg = some (r, ed') → EdOk ed')
    (hok : okH body hd arg = true) (htxt : OptValid txt) (hi : EdOk ed)
    (h : runCmd (f + 1) ed hd loc cmd arg txt = some (r, ed')) : EdOk ed' := by
  by_cases hs : hd = "ec_substitute"
  · subst hs
    exact runCmd_subst_ok f ed ed' loc cmd arg txt r (okH_subst hok) hi h
  by_cases hq : hd = "ec_quit"
  · subst hq
    rw [runCmd_quit] at h
    split at h
    · cases h
    · rename_i rc ed1 hw
      have h1 : EdOk ed1 := by
        split at hw
        · exact ecWrite_ok hi (okH_quit hok) hw
        · cases hw; exact hi
      split at h
      · cases h; exact h1
      · split at h
        · cases h
        · rename_i he; cases h; exact (each_ok _ _ _ _ _ _ _ h1 he).to rfl
        · rename_i he; cases h; exact (each_ok _ _ _ _ _ _ _ h1 he).to rfl
  by_cases hw : hd = "ec_write"
  · subst hw
    rw [runCmd_write] at h
    exact ecWrite_ok hi (okH_write hok) h
  by_cases he : hd = "ec_edit"
  · subst he
    rw [runCmd_edit] at h
    exact hedit rfl _ _ _ hi h
  rw [runCmd] at h
  by_cases c : (hd == "ec_insert") = true
  · rw [if_pos c] at h
    simp only [] at h
    split at h
    · cases h
    · rename_i hr
      have e1 := hi.region hr
      repeat' (split at h)
      all_goals (first | cases h | skip)
      all_goals (first | exact e1 | exact EdOk.edit3 (by assumption) e1 htxt (by rfl))
  rw [if_neg c] at h; clear c
  by_cases c : (hd == "ec_print") = true
  · have : hd = "ec_print" := by simpa using c
    subst this
    have h' : runCmd (f + 1) ed "ec_print" loc cmd arg txt = some (r, ed') := by
      rw [runCmd, if_neg (by decide), if_pos (by decide)]
      rw [if_pos c] at h
      exact h
    exact runCmd_print_ok _ _ _ _ _ _ _ _ hi h'
  rw [if_neg c] at h; clear c
  by_cases c : (hd == "ec_null") = true
  · rw [if_pos c] at h
    split at h
    · simp only [] at h
      exact runCmd_print_ok _ _ _ _ _ _ _ _ (h := h) (hi := hi.to (by rfl))
    · split at h
      · cases h
      · rename_i hr
        have e1 := hi.region hr
        split at h
        · cases h; exact e1
        · cases h; exact e1.to rfl
  rw [if_neg c] at h; clear c
  by_cases c : (hd == "ec_delete" || hd == "ec_yank") = true
  · rw [if_pos c] at h
    simp only [] at h
    split at h
    · cases h
    · rename_i rc b e ed1 hr
      have e1 := hi.region hr
      have e2 : EdOk { ed1 with regs := ed1.regs.put (regName arg) (ed1.cp b e) 1 } := e1.withRegs (e1.regs.put _ (e1.cp b e) _)
      repeat' (split at h)
      all_goals (first | cases h | skip)
      all_goals (first | exact e1 | exact e2 | exact EdOk.edit3 (by assumption) e2 optValid_none (by rfl))
  rw [if_neg c] at h; clear c
  by_cases c : (hd == "ec_put") = true
  · have hd' : hd = "ec_put" := by simpa using c
    subst hd'
    rw [if_pos c] at h
    simp only [] at h
    have hreg := regGet_valid hi (regName arg)
    split at h
    · cases h; exact hi
    · rename_i buf hbuf
      rw [hbuf] at hreg
      split at h
      · cases h
      · rename_i hr
        have e1 := hi.region hr
        repeat' (split at h)
        all_goals (first | cases h | skip)
        all_goals (first | exact e1 | exact EdOk.edit3 (by assumption) e1 hreg (by rfl))
  rw [if_neg c] at h; clear c
  by_cases c : (hd == "ec_lnum") = true
  · rw [if_pos c] at h
    split at h
    · cases h
    · rename_i hr
      have e1 := hi.region hr
      split at h
      · cases h; exact e1
      · cases h; exact e1.print _
  rw [if_neg c] at h; clear c
  by_cases c : (hd == "ec_undo") = true
  · rw [if_pos c] at h
    split at h
    · cases h
    · rename_i rc lb hu
      cases h
      cases hl : ed.lb with
      | none => rw [hl] at hu; cases hu
      | some lb0 =>
        rw [hl] at hu
        exact hi.setLb (undo_ok (hi.lb hl) hu)
  rw [if_neg c] at h; clear c
  by_cases c : (hd == "ec_redo") = true
  · rw [if_pos c] at h
    split at h
    · cases h
    · rename_i rc lb hu
      cases h
      cases hl : ed.lb with
      | none => rw [hl] at hu; cases hu
      | some lb0 =>
        rw [hl] at hu
        exact hi.setLb (redo_ok (hi.lb hl) hu)
  rw [if_neg c] at h; clear c
  by_cases c : (hd == "ec_mark") = true
  · rw [if_pos c] at h
    split at h
    · cases h
    · rename_i hr
      have e1 := hi.region hr
      split at h
      · cases h; exact e1
      · split at h
        · cases h
        · rename_i lb hlb
          cases h
          exact e1.setLb (setMark_ok (e1.lb hlb) _ _ _)
  rw [if_neg c] at h; clear c
  by_cases c : (hd == "ec_rs") = true
  · rw [if_pos c] at h
    cases h
    refine hi.withRegs (hi.regs.put _ ?_ _)
    cases txt with
    | none => exact isU8_nil
    | some x => exact htxt x rfl
  rw [if_neg c] at h; clear c
  by_cases c : (hd == "ec_at") = true
  · have hd' : hd = "ec_at" := by simpa using c
    subst hd'
    exact absurd hok (by rw [okH_at]; decide)
  rw [if_neg c] at h; clear c
  by_cases c : (hd == "ec_glob") = true
  · rw [if_pos c] at h
    exact hglob (by simpa using c) _ _ _ hi h
  rw [if_neg c] at h; clear c
  by_cases c : (hd == "ec_edit") = true
  · exact absurd (by simpa using c) he
  rw [if_neg c] at h; clear c
  by_cases c : (hd == "ec_substitute") = true
  · exact absurd (by simpa using c) hs
  rw [if_neg c] at h; clear c
  by_cases c : (hd == "ec_exec") = true
  · have hd' : hd = "ec_exec" := by simpa using c
    subst hd'
    have harg := okH_exec hok
    rw [if_pos c] at h
    simp only [] at h
    split at h
    · cases h
    · rename_i ed1 hg
      cases h
      exact guard_ok hi hg
    · rename_i ed1 hg
      have e0 : EdOk ed1 := guard_ok hi hg
      split at h
      · cases h
      · rename_i ed2 hp
        cases h
        exact e0.to (pathExpand_core hp)
      · rename_i ecmd ed2 hp
        have e1 : EdOk ed2 := e0.to (pathExpand_core hp)
        split at h
        · cases h; exact e1.to rfl
        · split at h
          · cases h
          · rename_i rc b e ed3 hr
            have e2 := e1.region hr
            split at h
            · cases h; exact e2
            · split at h
              · cases h; exact e2.to rfl
              · cases h; exact e2
              · rename_i rep hpipe
                have hv := e2.pipe ecmd (e2.cp b e) hpipe
                cases hx : Ed.edit ed3 (some rep) b e with
                | none => rw [hx] at h; cases h
                | some edx =>
                  rw [hx] at h
                  cases h
                  exact e2.edit hv hx
  rw [if_neg c] at h; clear c
  by_cases c : (hd == "ec_read") = true
  · have hd' : hd = "ec_read" := by simpa using c
    subst hd'
    have harg := okH_read hok
    rw [if_pos c] at h
    simp only [] at h
    split at h
    · cases h
    · rename_i path ed1 hp
      have e0 : EdOk ed1 ∧ OptValid path := by
        split at hp
        · obtain ⟨a, b⟩ := pathExpand_ok hi harg hp
          exact ⟨hi.to b, a⟩
        · cases hp
          refine ⟨hi, ?_⟩
          intro x hx
          cases hc : ed.cur with
          | none => rw [hc] at hx; cases hx
          | some b => rw [hc] at hx; simp only [Option.map_some] at hx; injection hx with hx; subst hx; exact (hi.cur hc).2
      obtain ⟨e0, hpath⟩ := e0
      have hpv : IsU8 (path.getD []) := by
        cases path with
        | none => exact isU8_nil
        | some x => exact hpath x rfl
      split at h
      · cases h
      · rename_i edr hr
        have e1 := e0.region hr
        split at h
        · cases h; exact e1
        · split at h
          · split at h
            · cases h; exact e1
            · split at h
              · cases h; exact e1.to rfl
              · rename_i obuf hpipe
                have hv := e1.pipe _ isU8_nil hpipe
                split at h
                · cases h
                · rename_i edx hm
                  cases h
                  have hx : EdOk edx := by
                    split at hm
                    · rename_i o
                      exact e1.edit (optValid_some.mpr (hv o rfl)) hm
                    · cases hm; exact e1
                  exact EdOk.show (hx.to (by rfl)) _
          · split at h
            · cases h; exact e1.show _
            · rename_i fl hfl
              split at h
              · cases h
              · rename_i lb1 hrd
                cases h
                have hx : EdOk (edr.setLb lb1) := by
                  apply e1.setLb
                  cases hl : edr.lb with
                  | none => rw [hl] at hrd; cases hrd
                  | some lb0 =>
                    rw [hl] at hrd
                    simp only [Option.bind_some] at hrd
                    exact rd_ok (e1.lb hl) (by simpa using e1.findFile hfl) hrd
                exact EdOk.show (hx.to (by rfl)) _
  rw [if_neg c] at h; clear c
  by_cases c : (hd == "ec_write") = true
  · exact absurd (by simpa using c) hw
  rw [if_neg c] at h; clear c
  by_cases c : (hd == "ec_quit") = true
  · exact absurd (by simpa using c) hq
  rw [if_neg c] at h; clear c
  by_cases c : (hd == "ec_buffer") = true
  · rw [if_pos c] at h
    split at h
    · simp only [] at h
      cases h
      refine foldl_ok (fun st : Bool × Ed => EdOk st.2) _ ?_ _ _ hi
      intro st i hst
      obtain ⟨go, ed0⟩ := st
      simp only [] at hst ⊢
      split
      · exact hst
      · split
        · exact hst
        · have hm := hst.modifiedAt i
          generalize ed0.modifiedAt i = p at hm
          obtain ⟨m, ed1⟩ := p
          exact hm.print _
    · split at h
      · simp only [] at h
        have e1 := hi.bufsShift
        split at h
        · cases h
          exact (e1.setAt 0 (b := { path := [], lb := Lbuf.make, id := ed.bufsShift.bufsCnt + 1 }) lbOk_make isU8_nil).to rfl
        · cases h; exact e1
      · split at h
        · simp only [] at h
          cases h
          exact (hi.withBufs (renumber_ok ed.bufs [] 0 (by intro b hb; simp at hb) hi.bufs)).to (by rfl)
        · simp only [] at h
          repeat' (split at h)
          all_goals (try cases h)
          all_goals first
            | exact hi
            | exact hi.show _
            | exact guard_ok hi (by assumption)
            | exact (guard_ok hi (by assumption)).bufsSwitch _
  rw [if_neg c] at h; clear c
  by_cases c : (hd == "ec_set") = true
  · rw [if_pos c] at h
    simp only [] at h
    repeat' (split at h)
    all_goals (first | cases h | skip)
    all_goals (first | exact hi | exact hi.to (setOpt_core _ _ _) | exact hi.show _)
  rw [if_neg c] at h; clear c
  by_cases c : (hd == "ec_echo") = true
  · rw [if_pos c] at h
    cases h; exact hi.print _
  rw [if_neg c] at h; clear c
  cases h; exact hi.to rfl

end Neatvi.Lemmas.C16c
