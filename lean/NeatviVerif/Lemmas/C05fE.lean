import NeatviVerif.Lemmas.C05fD
import NeatviVerif.Lemmas.C09Queue
/-!
# C05f, part E: reading keys — `term_read`, `vi_read`, `vi_back`, the prefixes, `led_readchar`, `led_line`

Readers never trap.  They change the key queue (and the keymap, the horizontal scroll) only; the texts they
return (`led_readchar`, `led_line`) hold no NUL, whatever is typed.
-/
set_option linter.unusedSimpArgs false
set_option linter.unusedVariables false
namespace Neatvi.Lemmas.C05f
open Neatvi Neatvi.Uc Neatvi.Lbuf Neatvi.Ex Neatvi.Mot Neatvi.Vi Neatvi.Spec
open Neatvi.Lemmas.C09 (pending)

/-- the part of the `ex.c` state the safety argument reads: unchanged -/
def EdF (e e' : Ed) : Prop :=
  e'.bufs = e.bufs ∧ e'.regs = e.regs ∧ e'.xrow = e.xrow ∧ e'.xoff = e.xoff ∧ e'.xkwd = e.xkwd ∧ e'.xquit = e.xquit

theorem EdF.refl (e : Ed) : EdF e e := ⟨rfl, rfl, rfl, rfl, rfl, rfl⟩
theorem EdF.of_eq {e e' : Ed} (h : e' = e) : EdF e e' := h ▸ EdF.refl e
theorem EdF.trans {a b c : Ed} (h1 : EdF a b) (h2 : EdF b c) : EdF a c :=
  ⟨h2.1.trans h1.1, h2.2.1.trans h1.2.1, h2.2.2.1.trans h1.2.2.1, h2.2.2.2.1.trans h1.2.2.2.1,
    h2.2.2.2.2.1.trans h1.2.2.2.2.1, h2.2.2.2.2.2.trans h1.2.2.2.2.2⟩
theorem EdF.bufs {e e' : Ed} (h : EdF e e') : e'.bufs = e.bufs := h.1
theorem EdF.regs {e e' : Ed} (h : EdF e e') : e'.regs = e.regs := h.2.1
theorem EdF.xrow {e e' : Ed} (h : EdF e e') : e'.xrow = e.xrow := h.2.2.1
theorem EdF.xoff {e e' : Ed} (h : EdF e e') : e'.xoff = e.xoff := h.2.2.2.1
theorem EdF.xkwd {e e' : Ed} (h : EdF e e') : e'.xkwd = e.xkwd := h.2.2.2.2.1
theorem EdF.xquit {e e' : Ed} (h : EdF e e') : e'.xquit = e.xquit := h.2.2.2.2.2

theorem EdF.lb {e e' : Ed} (h : EdF e e') : e'.lb = e.lb := by unfold Ed.lb Ed.cur; rw [h.bufs]
theorem EdF.lines {s s' : VS} (h : EdF s.ed s'.ed) : lines s' = lines s := by unfold Vi.lines; rw [h.lb]
theorem EdF.lenOf {s s' : VS} (h : EdF s.ed s'.ed) : lenOf s' = lenOf s := by unfold Vi.lenOf; rw [h.lines]
theorem EdF.lineOf {s s' : VS} (h : EdF s.ed s'.ed) (r : Int) : lineOf s' r = lineOf s r := by
  unfold Vi.lineOf; rw [h.lines]
theorem EdF.line {e e' : Ed} (h : EdF e e') (r : Int) : e'.line r = e.line r := by unfold Ed.line; rw [h.lb]

/-- all keys still to come, in the order `vi_read` delivers them -/
def allQ (s : VS) : List Int := s.vibuf ++ (pending s).map Int.ofNat

theorem allQ_viBack (s : VS) (c : Int) : allQ { s with vibuf := c :: s.vibuf } = c :: allQ s := rfl

/-! ### `term_read`, `vi_read` -/

/-- **`term_read()`** never traps and touches the key queue only -/
theorem wp_termRead (s : VS) (Q : Int → VS → Prop)
    (hQ : ∀ (k : Nat) s', s'.ed = s.ed → s'.vibuf = s.vibuf → pending s = k :: pending s' → Q k s') :
    wp termRead Q s := by
  cases hp : pending s with
  | nil => unfold wp; rw [Lemmas.C09.termRead_eof s hp]; trivial
  | cons k rest =>
    obtain ⟨ib, ip, ty, h1, h2, _⟩ := Lemmas.C09.termRead_ok s k rest hp
    unfold wp; rw [h1]
    refine hQ k _ rfl rfl ?_
    show _ = k :: (ib.drop ip ++ ty)
    rw [h2]; exact hp

/-- **`vi_read()`** never traps; the key is the head of the keys to come -/
theorem wp_viRead (s : VS) (Q : Int → VS → Prop)
    (hQ : ∀ c s', s'.ed = s.ed → allQ s = c :: allQ s' → Q c s') : wp viRead Q s := by
  cases hv : s.vibuf with
  | nil =>
    have he : viRead s = termRead s := by unfold viRead; rw [hv]
    unfold wp; rw [he]
    refine wp_termRead s Q (fun k s' he hvb hp => hQ k s' he ?_)
    unfold allQ
    rw [hvb, hv, hp]; simp
  | cons c r =>
    have he : viRead s = Res.ok c { s with vibuf := r } := by unfold viRead; rw [hv]
    unfold wp; rw [he]
    refine hQ c _ rfl ?_
    unfold allQ; rw [hv]; rfl

/-! ### the prefixes -/

/-- what the prefix readers guarantee: the `ex.c` state is as before and the keys to come are a rest of those before -/
def PfxPost (s s' : VS) : Prop := s'.ed = s.ed ∧ allQ s' <:+ allQ s

theorem PfxPost.refl (s : VS) : PfxPost s s := ⟨rfl, List.suffix_refl _⟩
theorem PfxPost.trans {a b c : VS} (h1 : PfxPost a b) (h2 : PfxPost b c) : PfxPost a c :=
  ⟨h2.1.trans h1.1, h2.2.trans h1.2⟩
theorem pfx_read {s s' : VS} {c : Int} (he : s'.ed = s.ed) (hq : allQ s = c :: allQ s') : PfxPost s s' :=
  ⟨he, by rw [hq]; exact List.suffix_cons _ _⟩
theorem pfx_read_back {s s' : VS} {c : Int} (he : s'.ed = s.ed) (hq : allQ s = c :: allQ s') :
    PfxPost s { s' with vibuf := c :: s'.vibuf } := ⟨he, by rw [allQ_viBack, hq]; exact List.suffix_refl _⟩

/-- **`vi_yankbuf()`** -/
theorem wp_viYankbuf (s : VS) (Q : Nat → VS → Prop) (hQ : ∀ a s', PfxPost s s' → Q a s') : wp viYankbuf Q s := by
  unfold viYankbuf
  simp only [wp_bind]
  refine wp_viRead s _ (fun c s1 e1 q1 => ?_)
  split
  · wps
    refine wp_viRead s1 _ (fun c2 s2 e2 q2 => ?_)
    have p2 : PfxPost s s2 := (pfx_read e1 q1).trans (pfx_read e2 q2)
    split
    · simp only [wp_bind]
      refine wp_viRead s2 _ (fun c3 s3 e3 q3 => ?_)
      exact hQ _ _ (p2.trans (pfx_read e3 q3))
    · exact hQ _ _ p2
  · simp only [wp_bind, wp_viBack, wp_pure]
    exact hQ _ _ (pfx_read_back e1 q1)

theorem wp_digits (f : Nat) : ∀ (n c : Int) (s0 s : VS) (Q : Int → VS → Prop),
    PfxPost s0 { s with vibuf := c :: s.vibuf } → (∀ a s', PfxPost s0 s' → Q a s') →
    wp (viPrefix.digits f n c) Q s := by
  induction f with
  | zero =>
    intro n c s0 s Q hp hQ
    unfold viPrefix.digits
    simp only [wp_bind, wp_viBack, wp_pure]
    exact hQ _ _ hp
  | succ f ih =>
    intro n c s0 s Q hp hQ
    unfold viPrefix.digits
    split
    · simp only [wp_bind]
      refine wp_viRead s _ (fun c' s1 e1 q1 => ?_)
      refine ih _ _ s0 s1 Q ?_ hQ
      refine hp.trans ⟨e1, ?_⟩
      rw [allQ_viBack, allQ_viBack, q1]
      exact (List.suffix_cons _ _)
    · simp only [wp_bind, wp_viBack, wp_pure]
      exact hQ _ _ hp

/-- **`vi_prefix()`** -/
theorem wp_viPrefix (s : VS) (Q : Int → VS → Prop) (hQ : ∀ a s', PfxPost s s' → Q a s') : wp viPrefix Q s := by
  unfold viPrefix
  simp only [wp_bind]
  refine wp_viRead s _ (fun c s1 e1 q1 => ?_)
  split
  · exact wp_digits 64 0 c s s1 Q (pfx_read_back e1 q1) hQ
  · simp only [wp_bind, wp_viBack, wp_pure]
    exact hQ _ _ (pfx_read_back e1 q1)

end Neatvi.Lemmas.C05f
