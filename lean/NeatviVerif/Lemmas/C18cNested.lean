import NeatviVerif.Props.C10
/-!
# C18c helpers: the order of the group offsets, from the declarative semantics `C10.Matches`

* `matches_pairs`: a match keeps every group pair `(2g, 2g+1)` "unset/unset or `so ≤ eo`";
* `top_choice`: on a tree of the shape `((p0)|(p1)|…)` exactly one alternative's group is written,
  with the entry and exit positions of the whole match.
-/
namespace Neatvi.Props.C18c
open Neatvi Neatvi.Regex Neatvi.Lemmas.C10 Neatvi.Props.C10

/-- mark `i` as `regexec` reads it -/
def mk (m : Marks) (i : Nat) : Int := m.getD i (-1)

theorem mk_eq (m : Marks) (i : Nat) : mk m i = (m[i]?).getD (-1) := List.getD_eq_getElem?_getD ..

theorem mk_congr {m m' : Marks} {i : Nat} (h : m'[i]? = m[i]?) : mk m' i = mk m i := by
  rw [mk_eq, mk_eq, h]

/-- the pair of group `g` is unset or ordered -/
def PairOk (m : Marks) (g : Nat) : Prop :=
  (mk m (2 * g) = -1 ∧ mk m (2 * g + 1) = -1) ∨ (0 ≤ mk m (2 * g) ∧ mk m (2 * g) ≤ mk m (2 * g + 1))

section pairs
variable {subj : Bytes} {flg ngrps : Nat}

theorem iter_pres {t : RNode} {Q : Nat × Marks → Prop}
    (hone : ∀ r s, One subj flg ngrps t r s → Q r → Q s) :
    ∀ k r r', Iter subj flg ngrps t k r r' → Q r → Q r' := by
  intro k
  induction k with
  | zero => intro r r' h; cases h; exact id
  | succ k ih => intro r r' h hq; cases h with | succ h1 h2 => exact ih _ _ h2 (hone _ _ h1 hq)

theorem mk_setMk_ne (m : Marks) (k pos i : Nat) (h : i ≠ k) : mk (setMk ngrps m k pos) i = mk m i :=
  mk_congr (setMk_get_ne _ _ _ _ _ h)

theorem mk_setMk_self (m : Marks) (k pos : Nat) (h1 : k < ngrps) (h2 : k < m.length) :
    mk (setMk ngrps m k pos) k = (pos : Int) := by
  rw [mk_eq, setMk_get_self _ _ _ _ h1 h2]; rfl

theorem setMk_big (m : Marks) (k pos : Nat) (h : ¬ k < ngrps) : setMk ngrps m k pos = m := by
  unfold setMk; rw [if_neg h]

/-- a match keeps every group pair unset or ordered (`ngrps` even, at least `ngrps` mark slots: the
    VM allocates `2 * ngrps` and records marks `< ngrps` only) -/
theorem matches_pairs (hev : ngrps % 2 = 0) (t : RNode) : GrpFresh t → ∀ r r',
    Matches subj flg ngrps t r r' → ngrps ≤ r.2.length → ∀ g, PairOk r.2 g → PairOk r'.2 g := by
  induction t with
  | nul => intro _ r r' h; cases h; intro _ _ hp; exact hp
  | atom a mn mx =>
    intro _ r r' h hl g hp
    cases h with
    | atom hk hi =>
      refine iter_pres (Q := fun r => PairOk r.2 g) ?_ _ _ _ hi hp
      intro r s h1 hq
      cases h1 with
      | atom hm => exact hq
  | cat a b iha ihb =>
    intro hf r r' h hl g hp
    cases h with
    | cat h1 h2 =>
      have hs := matches_span a _ _ h1
      exact ihb hf.2 _ _ h2 (by rw [hs.2.1]; exact hl) g (iha hf.1 _ _ h1 hl g hp)
  | alt a b iha ihb =>
    intro hf r r' h hl g hp
    cases h with
    | altl h1 => exact iha hf.1 _ _ h1 hl g hp
    | altr h1 => exact ihb hf.2 _ _ h1 hl g hp
  | grp a g' mn mx iha =>
    intro hf r r' h hl g hp
    cases h with
    | grp hk hi =>
      have := iter_pres (Q := fun r => ngrps ≤ r.2.length ∧ PairOk r.2 g) ?_ _ _ _ hi ⟨hl, hp⟩
      · exact this.2
      intro r s h1 ⟨hl1, hq⟩
      cases h1 with
      | grp hm =>
        rename_i pos pos' m m'
        have hs := matches_span a _ _ hm
        have hlen : m'.length = m.length := by
          have := hs.2.1; simp only [setMk_length] at this; exact this
        refine ⟨by rw [setMk_length, hlen]; exact hl1, ?_⟩
        show PairOk (setMk ngrps m' (2 * g' + 1) pos') g
        by_cases hg : g = g'
        · subst hg
          -- the pair of the group itself
          have e0 : mk (setMk ngrps m' (2 * g + 1) pos') (2 * g) = mk (setMk ngrps m (2 * g) pos) (2 * g) := by
            rw [mk_setMk_ne _ _ _ _ (by omega)]
            exact mk_congr (matches_frame a _ _ hm _ hf.1)
          by_cases hb : 2 * g + 1 < ngrps
          · have e1 : mk (setMk ngrps m' (2 * g + 1) pos') (2 * g + 1) = (pos' : Int) :=
              mk_setMk_self _ _ _ hb (by rw [hlen]; exact Nat.lt_of_lt_of_le hb hl1)
            have e2 : mk (setMk ngrps m (2 * g) pos) (2 * g) = (pos : Int) :=
              mk_setMk_self _ _ _ (by omega) (by simp only at hl1; omega)
            right
            rw [e0, e1, e2]
            have := hs.1
            simp only at this
            omega
          · have hb0 : ¬ 2 * g < ngrps := by omega
            rw [setMk_big _ _ _ hb]
            have f0 : mk m' (2 * g) = mk m (2 * g) := by
              have := mk_congr (matches_frame a _ _ hm _ hf.1)
              rw [setMk_big _ _ _ hb0] at this; exact this
            have f1 : mk m' (2 * g + 1) = mk m (2 * g + 1) := by
              have := mk_congr (matches_frame a _ _ hm _ hf.2.1)
              rw [setMk_big _ _ _ hb0] at this; exact this
            unfold PairOk
            rw [f0, f1]
            exact hq
        · have hq1 : PairOk (setMk ngrps m (2 * g') pos) g := by
            unfold PairOk
            rw [mk_setMk_ne _ _ _ _ (by omega), mk_setMk_ne _ _ _ _ (by omega)]
            exact hq
          have hq2 := iha hf.2.2 _ _ hm (by simp only [setMk_length]; exact hl1) g hq1
          simp only at hq2
          unfold PairOk
          rw [mk_setMk_ne _ _ _ _ (by omega), mk_setMk_ne _ _ _ _ (by omega)]
          exact hq2

end pairs

/-! ### patterns that cannot match the empty string -/

theorem ucCode_hd_zero (s : Bytes) (h : Bytes.hd s = 0) : Uc.ucCode s = some 0 := by
  simp [Uc.ucCode, h]

theorem ucLen_pos' {c : Nat} (h : 0 < c) : 0 < Uc.ucLen c := by
  unfold Uc.ucLen
  split
  · simp
  · split
    · omega
    · split
      · omega
      · split <;> omega

theorem rxLen_pos {subj : Bytes} {pos : Nat} (hp : pos < subj.length) (hx : subj[pos]'hp ≠ 0) :
    0 < rxLen subj pos := by
  unfold rxLen
  have : subj.getD pos 0 = subj[pos] := by
    rw [List.getD_eq_getElem?_getD, List.getElem?_eq_getElem hp]; rfl
  rw [this]
  have := ucLen_pos' (c := subj[pos]) (by omega)
  omega

/-- `.` and bracket expressions consume at least one byte -/
theorem atomMatch_lt {a : Atom} {subj : Bytes} {flg pos pos' : Nat} (hk : a.k = AK.any ∨ a.k = AK.brk)
    (h : atomMatch a subj flg pos = AR.ok pos') : pos < pos' := by
  unfold atomMatch at h
  simp only [] at h
  split at h
  · cases h
  · next cur hcur =>
    -- the byte under the cursor
    have hcur' : cur ≠ 0 → ∃ hp : pos < subj.length, subj[pos]'hp = cur := by
      intro hc
      unfold rdb at hcur
      split at hcur
      · next hp =>
        rw [List.getElem?_eq_getElem hp] at hcur
        exact ⟨hp, Option.some.inj hcur⟩
      · split at hcur
        · cases hcur; exact absurd rfl hc
        · cases hcur
    rcases hk with hk | hk
    · rw [hk] at h
      simp only at h
      split at h
      · cases h
      · next hc =>
        simp only [Bool.or_eq_true, beq_iff_eq, not_or] at hc
        obtain ⟨hp, hx⟩ := hcur' hc.1
        injection h with h
        have := rxLen_pos hp (by rw [hx]; exact hc.1)
        omega
    · rw [hk] at h
      simp only at h
      split at h
      · cases h
      · next c hdec =>
        split at h
        · cases h
        · next hc =>
          simp only [Bool.or_eq_true, beq_iff_eq, not_or] at hc
          have hcne : cur ≠ 0 := by
            intro h0
            subst h0
            -- then the decoded character is 0
            have hd0 : Bytes.hd (subj.drop pos) = 0 := by
              unfold rdb at hcur
              unfold Bytes.hd
              split at hcur
              · next hp =>
                rw [List.getElem?_eq_getElem hp] at hcur
                have : subj[pos] = 0 := Option.some.inj hcur
                rw [List.drop_eq_getElem_cons hp, this]; rfl
              · next hp => rw [List.drop_eq_nil_of_le (by omega)]; rfl
            unfold decAt at hdec
            split at hdec
            · rw [ucCode_hd_zero _ hd0] at hdec
              exact hc.1 (Option.some.inj hdec).symm
            · cases hdec
          obtain ⟨hp, hx⟩ := hcur' hcne
          have hpos := rxLen_pos hp (by rw [hx]; exact hcne)
          split at h
          · cases h
          · injection h with h; omega
          · cases h

/-- the tree cannot match the empty string: on every path there is a `.` or a bracket expression
    taken at least once -/
def consumes : RNode → Bool
  | .nul => false
  | .atom a mn _ => (a.k == AK.any || a.k == AK.brk) && decide (1 ≤ mn)
  | .cat a b => consumes a || consumes b
  | .alt a b => consumes a && consumes b
  | .grp a _ mn _ => decide (1 ≤ mn) && consumes a

theorem repOk_pos {mn mx : Int} {k : Nat} (h : RepOk mn mx k) (hmn : 1 ≤ mn) : 1 ≤ k := by
  unfold RepOk at h
  split at h
  · omega
  · split at h
    · omega
    · rcases h with h | h
      · omega
      · omega

section consume
variable {subj : Bytes} {flg ngrps : Nat}

theorem iter_lt {t : RNode} (hle : ∀ r s, One subj flg ngrps t r s → r.1 ≤ s.1)
    (hlt : ∀ r s, One subj flg ngrps t r s → r.1 < s.1) :
    ∀ k r r', Iter subj flg ngrps t (k + 1) r r' → r.1 < r'.1 := by
  intro k r r' h
  cases h with
  | succ h1 h2 =>
    have h3 := iter_pres (Q := fun q => r.1 < q.1) (fun a b hab hq => Nat.lt_of_lt_of_le hq (hle a b hab)) _ _ _ h2
      (hlt _ _ h1)
    exact h3

theorem matches_lt (t : RNode) : consumes t = true → ∀ r r', Matches subj flg ngrps t r r' → r.1 < r'.1 := by
  induction t with
  | nul => intro hc; simp [consumes] at hc
  | atom a mn mx =>
    intro hc r r' h
    simp only [consumes, Bool.and_eq_true, Bool.or_eq_true, beq_iff_eq, decide_eq_true_eq] at hc
    cases h with
    | atom hk hi =>
      rename_i k
      obtain ⟨k', rfl⟩ : ∃ k', k = k' + 1 := ⟨k - 1, by have := repOk_pos hk hc.2; omega⟩
      refine iter_lt ?_ ?_ _ _ _ hi
      · intro r s h1; cases h1 with | atom hm => exact atomMatch_le hm
      · intro r s h1; cases h1 with | atom hm => exact atomMatch_lt hc.1 hm
  | cat a b iha ihb =>
    intro hc r r' h
    simp only [consumes, Bool.or_eq_true] at hc
    cases h with
    | cat h1 h2 =>
      have s1 := (matches_span a _ _ h1).1
      have s2 := (matches_span b _ _ h2).1
      rcases hc with hc | hc
      · have := iha hc _ _ h1; omega
      · have := ihb hc _ _ h2; omega
  | alt a b iha ihb =>
    intro hc r r' h
    simp only [consumes, Bool.and_eq_true] at hc
    cases h with
    | altl h1 => exact iha hc.1 _ _ h1
    | altr h1 => exact ihb hc.2 _ _ h1
  | grp a g mn mx iha =>
    intro hc r r' h
    simp only [consumes, Bool.and_eq_true, decide_eq_true_eq] at hc
    cases h with
    | grp hk hi =>
      rename_i k
      obtain ⟨k', rfl⟩ : ∃ k', k = k' + 1 := ⟨k - 1, by have := repOk_pos hk hc.1; omega⟩
      refine iter_lt ?_ ?_ _ _ _ hi
      · intro r s h1; exact (one_grp_span h1).le
      · intro r s h1
        cases h1 with
        | grp hm =>
          have := iha hc.2 _ _ hm
          exact this

end consume

/-! ### the shape `((p0)|(p1)|…)` -/

/-- the alternatives of `(p0)|(p1)|…`: each a group taken exactly once; `(number, body)` -/
def altGroups : RNode → Option (List (Nat × RNode))
  | .alt a b =>
    match altGroups a, altGroups b with
    | some x, some y => some (x ++ y)
    | _, _ => none
  | .grp a g mn mx => if mn = 1 ∧ mx = 1 then some [(g, a)] else none
  | _ => none

/-- the alternatives of `((p0)|(p1)|…)` numbered from 1 -/
def topGroups : RNode → Option (List (Nat × RNode))
  | .grp A g mn mx => if g = 1 ∧ mn = 1 ∧ mx = 1 then altGroups A else none
  | _ => none

/-- the numbers are at least 2 and fit, and no alternative writes the marks of another one -/
def altsOk (ngrps : Nat) (l : List (Nat × RNode)) : Bool :=
  l.all (fun x => decide (2 ≤ x.1) && decide (2 * x.1 + 1 < ngrps) &&
    l.all (fun y => y.1 == x.1 || !(markIdx x.2).contains (2 * y.1)))

section top
variable {subj : Bytes} {flg ngrps : Nat}

theorem matches_once {a : RNode} {g : Nat} {r r' : Nat × Marks}
    (h : Matches subj flg ngrps (RNode.grp a g 1 1) r r') : One subj flg ngrps (RNode.grp a g 1 1) r r' := by
  cases h with
  | grp hk hi =>
    rename_i k
    have : k = 1 := by simpa [RepOk] using hk
    subst this
    cases hi with
    | succ h1 h2 => cases h2; exact h1

theorem alt_choice : ∀ (t : RNode) (l : List (Nat × RNode)), altGroups t = some l → ∀ r r',
    Matches subj flg ngrps t r r' → ∃ x ∈ l, One subj flg ngrps (RNode.grp x.2 x.1 1 1) r r' := by
  intro t
  induction t with
  | nul => intro l h; simp [altGroups] at h
  | atom a mn mx => intro l h; simp [altGroups] at h
  | cat a b _ _ => intro l h; simp [altGroups] at h
  | alt a b iha ihb =>
    intro l h r r' hm
    simp only [altGroups] at h
    split at h
    · next x y hx hy =>
      cases h
      cases hm with
      | altl h1 =>
        obtain ⟨z, hz, ho⟩ := iha x hx _ _ h1
        exact ⟨z, List.mem_append_left _ hz, ho⟩
      | altr h1 =>
        obtain ⟨z, hz, ho⟩ := ihb y hy _ _ h1
        exact ⟨z, List.mem_append_right _ hz, ho⟩
    · cases h
  | grp a g mn mx _ =>
    intro l h r r' hm
    simp only [altGroups] at h
    split at h
    · next hc =>
      cases h
      obtain ⟨rfl, rfl⟩ := hc
      exact ⟨(g, a), List.mem_singleton.mpr rfl, matches_once hm⟩
    · cases h

theorem altGroups_fresh : ∀ (t : RNode) (l : List (Nat × RNode)), altGroups t = some l → GrpFresh t →
    ∀ x ∈ l, 2 * x.1 ∉ markIdx x.2 ∧ 2 * x.1 + 1 ∉ markIdx x.2 ∧ GrpFresh x.2 := by
  intro t
  induction t with
  | nul => intro l h; simp [altGroups] at h
  | atom a mn mx => intro l h; simp [altGroups] at h
  | cat a b _ _ => intro l h; simp [altGroups] at h
  | alt a b iha ihb =>
    intro l h hf z hz
    simp only [altGroups] at h
    split at h
    · next x y hx hy =>
      cases h
      rcases List.mem_append.mp hz with hz | hz
      · exact iha x hx hf.1 z hz
      · exact ihb y hy hf.2 z hz
    · cases h
  | grp a g mn mx _ =>
    intro l h hf z hz
    simp only [altGroups] at h
    split at h
    · cases h
      cases List.mem_singleton.mp hz
      exact hf
    · cases h

theorem mk_set_ne (m : Marks) (k i : Nat) (v : Int) (h : i ≠ k) : mk (m.set k v) i = mk m i :=
  mk_congr (List.getElem?_set_ne (by omega))

theorem mk_marks0 (n i : Nat) : mk (marks0 n) i = -1 := by
  rw [mk_eq]
  unfold marks0
  rw [List.getElem?_replicate]
  split <;> rfl

/-- **the marks of a match of `((p0)|(p1)|…)`** from the initial marks of `regexec`: one alternative `G`
    carries the entry and exit positions of the whole match, the groups of the other alternatives
    are unset, every mark is unset or inside the match, every group pair is unset or ordered -/
theorem top_marks (hev : ngrps % 2 = 0) {t : RNode} {l : List (Nat × RNode)} (hf : GrpFresh t)
    (ht : topGroups t = some l) (hok : altsOk ngrps l = true) {s p : Nat} {m1 : Marks}
    (h : Matches subj flg ngrps t (s, (marks0 ngrps).set 0 (s : Int)) (p, m1)) :
    ∃ G, G ∈ l.map Prod.fst ∧ s ≤ p ∧
      mk (m1.set 1 (p : Int)) (2 * G) = (s : Int) ∧ mk (m1.set 1 (p : Int)) (2 * G + 1) = (p : Int) ∧
      (∀ G' ∈ l.map Prod.fst, G' ≠ G → mk (m1.set 1 (p : Int)) (2 * G') = -1) ∧
      (∀ i, mk (m1.set 1 (p : Int)) i = -1 ∨ ((s : Int) ≤ mk (m1.set 1 (p : Int)) i ∧ mk (m1.set 1 (p : Int)) i ≤ (p : Int))) ∧
      (∀ g, 1 ≤ g → PairOk (m1.set 1 (p : Int)) g) ∧
      (l.all (fun x => consumes x.2) = true → s < p) := by
  have hsp := matches_span t _ _ h
  have hl0 : ((marks0 ngrps).set 0 (s : Int)).length = 2 * ngrps := by simp [marks0]
  have hl1 : m1.length = 2 * ngrps := by have := hsp.2.1; simp only at this; omega
  have hm0 : ∀ i, i ≠ 0 → mk ((marks0 ngrps).set 0 (s : Int)) i = -1 := by
    intro i hi; rw [mk_set_ne _ _ _ _ hi, mk_marks0]
  -- M3, M4 first
  have M3 : ∀ i, mk (m1.set 1 (p : Int)) i = -1 ∨
      ((s : Int) ≤ mk (m1.set 1 (p : Int)) i ∧ mk (m1.set 1 (p : Int)) i ≤ (p : Int)) := by
    intro i
    have hsle := hsp.1
    simp only at hsle
    by_cases hi : i = 1
    · subst hi
      by_cases h1 : 1 < m1.length
      · right
        rw [mk_eq, List.getElem?_set_self h1]
        show (s : Int) ≤ (p : Int) ∧ (p : Int) ≤ (p : Int)
        omega
      · left
        rw [mk_eq, List.getElem?_eq_none (by simp; omega)]; rfl
    · rw [mk_set_ne _ _ _ _ hi]
      rcases hsp.2.2 i with e | ⟨v, e, h1, h2⟩
      · simp only at e
        rw [mk_congr e]
        by_cases h0 : i = 0
        · subst h0
          by_cases hz : 0 < (marks0 ngrps).length
          · right
            rw [mk_eq, List.getElem?_set_self hz]
            show (s : Int) ≤ (s : Int) ∧ (s : Int) ≤ (p : Int)
            omega
          · left
            rw [mk_eq, List.getElem?_eq_none (by rw [List.length_set]; omega)]; rfl
        · exact Or.inl (hm0 i h0)
      · simp only at e h1 h2
        right
        rw [mk_eq, e]
        show (s : Int) ≤ (v : Int) ∧ (v : Int) ≤ (p : Int)
        omega
  have M4 : ∀ g, 1 ≤ g → PairOk (m1.set 1 (p : Int)) g := by
    intro g hg
    have h0 : PairOk ((marks0 ngrps).set 0 (s : Int)) g :=
      Or.inl ⟨hm0 _ (by omega), hm0 _ (by omega)⟩
    have := matches_pairs hev t hf _ _ h (by simp only; omega) g h0
    simp only at this
    unfold PairOk at this ⊢
    rw [mk_set_ne _ _ _ _ (by omega), mk_set_ne _ _ _ _ (by omega)]
    exact this
  -- peel the outer group and the alternative
  cases t with
  | grp A g mn mx =>
    simp only [topGroups] at ht
    split at ht
    · next hc =>
      obtain ⟨rfl, rfl, rfl⟩ := hc
      have ho := matches_once h
      cases ho with
      | grp hA =>
        rename_i m'
        obtain ⟨x, hx, hone⟩ := alt_choice A l ht _ _ hA
        obtain ⟨G, a⟩ := x
        obtain ⟨fr0, fr1, _⟩ := altGroups_fresh A l ht hf.2.2 (G, a) hx
        simp only at fr0 fr1
        have hchk := List.all_eq_true.mp hok (G, a) hx
        simp only [Bool.and_eq_true, decide_eq_true_eq] at hchk
        obtain ⟨⟨hG2, hGn⟩, hdis⟩ := hchk
        cases hone with
        | grp ha =>
          rename_i m''
          have hsa := matches_span a _ _ ha
          have hlen'' : m''.length = 2 * ngrps := by
            have := hsa.2.1
            simp only [setMk_length] at this
            omega
          refine ⟨G, List.mem_map.mpr ⟨(G, a), hx, rfl⟩, hsp.1, ?_, ?_, ?_, M3, M4,
            fun hcons => matches_lt a (List.all_eq_true.mp hcons (G, a) hx) _ _ ha⟩
          · -- mark 2G = s
            rw [mk_set_ne _ _ _ _ (by omega)]
            show mk (setMk ngrps (setMk ngrps m'' (2 * G + 1) p) (2 * 1 + 1) p) (2 * G) = _
            rw [mk_setMk_ne _ _ _ _ (by omega), mk_setMk_ne _ _ _ _ (by omega),
              mk_congr (matches_frame a _ _ ha _ fr0)]
            exact mk_setMk_self _ _ _ (by omega) (by simp only [setMk_length]; omega)
          · rw [mk_set_ne _ _ _ _ (by omega)]
            show mk (setMk ngrps (setMk ngrps m'' (2 * G + 1) p) (2 * 1 + 1) p) (2 * G + 1) = _
            rw [mk_setMk_ne _ _ _ _ (by omega)]
            exact mk_setMk_self _ _ _ hGn (by omega)
          · intro G' hG' hne
            obtain ⟨y, hy, rfl⟩ := List.mem_map.mp hG'
            have hd := List.all_eq_true.mp hdis y hy
            simp only [Bool.or_eq_true, beq_iff_eq, Bool.not_eq_true', List.contains_eq_mem,
              decide_eq_false_iff_not] at hd
            have hnm : 2 * y.1 ∉ markIdx a := by
              rcases hd with hd | hd
              · exact absurd hd hne
              · exact hd
            have hy2 : 2 ≤ y.1 := by
              have := List.all_eq_true.mp hok y hy
              simp only [Bool.and_eq_true, decide_eq_true_eq] at this
              exact this.1.1
            rw [mk_set_ne _ _ _ _ (by omega)]
            show mk (setMk ngrps (setMk ngrps m'' (2 * G + 1) p) (2 * 1 + 1) p) (2 * y.1) = _
            rw [mk_setMk_ne _ _ _ _ (by omega), mk_setMk_ne _ _ _ _ (by omega),
              mk_congr (matches_frame a _ _ ha _ hnm),
              mk_setMk_ne _ _ _ _ (by omega), mk_setMk_ne _ _ _ _ (by omega)]
            exact hm0 _ (by omega)
    · cases ht
  | _ => simp [topGroups] at ht

end top

end Neatvi.Props.C18c
