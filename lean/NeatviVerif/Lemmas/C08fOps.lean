import NeatviVerif.Lemmas.C08fKeys
import NeatviVerif.Props.C08
/-!
# C08f: the operator functions never trap on a valid region (totality), with their effect
-/
set_option linter.unusedSimpArgs false
set_option linter.unusedVariables false
namespace Neatvi.Lemmas.C08f
open Neatvi Neatvi.Uc Neatvi.Vi Neatvi.Ex Neatvi.Lbuf Neatvi.Mot Neatvi.Spec Neatvi.Lemmas.C08 Neatvi.Lemmas.C09 Neatvi.Lemmas.C08b

/-- the lines `lo..hi` as one text -/
def rowsText (ls : List Bytes) (lo hi : Int) : Bytes := ((ls.drop lo.toNat).take (hi.toNat - lo.toNat + 1)).flatten

/-- line-wise `vi_delete` over the rows `r1..r2` of the buffer: total -/
theorem viDelete_line_total (s : VS) (r1 o1 r2 o2 : Int) (lb : Lb) (hlb : s.ed.lb = some lb)
    (h0 : 0 ≤ r1) (h12 : r1 ≤ r2) (h2 : r2 < lenOf s) :
    ∃ s', viDelete r1 o1 r2 o2 true s = Res.ok VC_OK s' ∧
      lines s' = (lines s).take r1.toNat ++ (lines s).drop (r2.toNat + 1) ∧
      s'.ed.regs = s.ed.regs.put s.ybuf (rowsText (lines s) r1 r2) 1 ∧
      s'.ed.xrow = min r1 (max 0 (lenOf s' - 1)) ∧ s'.ed.xoff = Mot.indents (lines s') s'.ed.xrow ∧
      s' = { s with ed := s'.ed } := by
  have hreg := Lemmas.C08.lbufRegion_lines s r1 r2 h0 h12 h2
  obtain ⟨ed', he⟩ := Lemmas.C06.ed_edit_total
    ({ s.ed with regs := s.ed.regs.put s.ybuf (rowsText (lines s) r1 r2) 1 } : Ed) lb none r1 (r2 + 1) hlb h0 (by omega)
  have hrun : viDelete r1 o1 r2 o2 true s = Res.ok VC_OK
      { s with ed := { ed' with xrow := min r1 (max 0 (((C06.lines ed').length : Int) - 1)),
                                xoff := Mot.indents (C06.lines ed') (min r1 (max 0 (((C06.lines ed').length : Int) - 1))) } } := by
    unfold viDelete
    simp only [bind_apply, get_apply]
    simp only [if_true, Bool.not_true, Bool.false_eq_true, if_false]
    rw [hreg]
    simp only [liftO_some, regPut_apply, bind_apply, edEdit_apply]
    unfold rowsText at he
    rw [he]
    rfl
  obtain ⟨a1, a2, a3, a4, _, _, _⟩ := Props.C08.viDelete_line_spec r1 o1 r2 o2 s _ _ hrun h0 h12 h2
  exact ⟨_, hrun, a1, a2, a3, a4, rfl⟩

/-- `vi_yank` in line mode over the rows `r1..r2`: total -/
theorem viYank_line_total (s : VS) (r1 o1 r2 o2 : Int) (h0 : 0 ≤ r1) (h12 : r1 ≤ r2) (h2 : r2 < lenOf s) :
    viYank r1 o1 r2 o2 true s = Res.ok VC_COL
      { s with ed := { s.ed with regs := s.ed.regs.put s.ybuf (rowsText (lines s) r1 r2) 1, xrow := r1 } } := by
  have hreg := Lemmas.C08.lbufRegion_lines s r1 r2 h0 h12 h2
  unfold viYank
  simp only [bind_apply, get_apply, if_true]
  rw [hreg]
  rfl

/-- character-wise `vi_delete` of the characters `[a, b)` of the row `r` whose line is
`encStr (body ++ [10])`: total -/
theorem viDelete_row_total (s : VS) (r : Int) (body : List Nat) (a b : Nat) (lb : Lb) (hlb : s.ed.lb = some lb)
    (hr0 : 0 ≤ r) (hline : (lines s)[r.toNat]? = some (encStr (body ++ [10])))
    (hb : ∀ c ∈ body, ValidCp c) (hb10 : 10 ∉ body) (hab : a ≤ b) (hbl : b ≤ body.length) :
    ∃ s', viDelete r a r b false s = Res.ok VC_OK s' ∧
      lines s' = (lines s).take r.toNat ++ [encStr (body.take a ++ body.drop b ++ [10])] ++ (lines s).drop (r.toNat + 1) ∧
      s'.ed.regs = s.ed.regs.put s.ybuf (encStr ((body.take b).drop a)) 0 ∧
      s'.ed.xrow = r ∧ s'.ed.xoff = a ∧ s' = { s with ed := s'.ed } := by
  have hlE : lineE s r = encStr (body ++ [10]) := lineE_eq s r hr0 _ hline
  have hrlt : r.toNat < (lines s).length := (List.getElem?_eq_some_iff.mp hline).1
  have hv := valid_snoc_ten hb
  have hreg : lbufRegion s r a r b = some (encStr ((body.take b).drop a)) := by
    rw [Lemmas.C08.lbufRegion_single, hlE, subI_enc hv a b hab (by simp; omega),
      List.take_append_of_le_length hbl]
  obtain ⟨e1, -⟩ := subI_line body hb a (by omega)
  obtain ⟨-, e2⟩ := subI_line body hb b hbl
  obtain ⟨ed', he⟩ := Lemmas.C06.ed_edit_total
    ({ s.ed with regs := s.ed.regs.put s.ybuf (encStr ((body.take b).drop a)) 0 } : Ed) lb
    (some (encStr (body.take a) ++ encStr (body.drop b ++ [10]))) r (r + 1) hlb hr0 (by omega)
  have hrun : viDelete r a r b false s = Res.ok VC_OK { s with ed := { ed' with xrow := r, xoff := a } } := by
    unfold viDelete
    simp only [bind_apply, get_apply]
    simp only [Bool.false_eq_true, if_false, Bool.not_false, if_true]
    rw [hreg]
    simp only [liftO_some, regPut_apply, bind_apply]
    rw [hlE, e1, e2]
    simp only [liftO_some, edEdit_apply]
    rw [he]
    rfl
  have hlen : r < lenOf s := by show r < ((lines s).length : Int); omega
  obtain ⟨region, pref, post, h1, h2, h3, h4, h5, h6, h7, _⟩ :=
    Props.C08.viDelete_char_spec r a r b s _ _ hrun hr0 (Int.le_refl _) hlen
  rw [hlE, e1] at h2
  rw [hlE, e2] at h3
  rw [hreg] at h1
  cases h1; cases h2; cases h3
  refine ⟨_, hrun, ?_, h5, h6, h7, rfl⟩
  rw [h4, ← encStr_append, ← List.append_assoc, splitLines_wf _ (wfLine_enc ?_)]
  intro hm
  rcases List.mem_append.mp hm with hm | hm
  · exact hb10 (List.mem_of_mem_take hm)
  · exact hb10 (List.mem_of_mem_drop hm)

/-- character-wise `vi_yank` of the characters `[a, b)` of the row `r`: total -/
theorem viYank_row_total (s : VS) (r : Int) (body : List Nat) (a b : Nat)
    (hr0 : 0 ≤ r) (hline : (lines s)[r.toNat]? = some (encStr (body ++ [10])))
    (hb : ∀ c ∈ body, ValidCp c) (hab : a ≤ b) (hbl : b ≤ body.length) :
    viYank r a r b false s = Res.ok VC_COL
      { s with ed := { s.ed with regs := s.ed.regs.put s.ybuf (encStr ((body.take b).drop a)) 0, xrow := r, xoff := a } } := by
  have hlE : lineE s r = encStr (body ++ [10]) := lineE_eq s r hr0 _ hline
  have hv := valid_snoc_ten hb
  have hreg : lbufRegion s r a r b = some (encStr ((body.take b).drop a)) := by
    rw [Lemmas.C08.lbufRegion_single, hlE, subI_enc hv a b hab (by simp; omega),
      List.take_append_of_le_length hbl]
  unfold viYank
  simp only [bind_apply, get_apply, Bool.false_eq_true, if_false]
  rw [hreg]
  rfl

end Neatvi.Lemmas.C08f
