import NeatviVerif.Lemmas.C05eI
/-!
# C05e lemmas, part J: no command line traps — the induction over the fuel

`exec_ret`: for every line satisfying the side condition, from every safe state, `ex_exec` returns (in a safe state,
at the same `:@` depth) as soon as the fuel covers `need K d ln = 4 * nest ln + 3 + (16 - d) * K`.
-/
namespace Neatvi.Lemmas.C05e
open Neatvi Neatvi.Lbuf Neatvi.LbufIo Neatvi.Ex Neatvi.Rset Neatvi.Lemmas.C06b
open Neatvi.Lemmas.ExFrame Neatvi.Lemmas.C02Ex Neatvi.Lemmas.C02b Neatvi.Lemmas.C06

/-- every scan of `:g` started from a safe state ends within the step budget the model gives it -/
def ScanFin : Prop :=
  ∀ (f : Nat) (neg : Bool) (s : Bytes) (re : RStr) (dep : Nat) (ed0 : Ed) (b : Int), Safe ed0 →
    scanT f neg s re dep (gBudget ed0) ed0 b ≠ ScanRes.budget

/-- what is asked of the text of command lines -/
structure LineCond (A : Bytes → Prop) (K : Nat) : Prop where
  sub : ∀ {l l' : Bytes}, l'.Sublist l → A l → A l'
  nul : ∀ (l : Bytes), A l → 0 ∉ l
  path : ∀ (ed : Ed) (arg : Bytes) (sp : Bool), Safe ed → A arg → arg.length < Gen.EXLEN → PathFits ed arg sp
  at_ : (∀ ln, A ln → 64 ∉ ln) ∨ (4 * Gen.EXLEN ≤ K ∧ ∀ buf : Bytes, A buf)
  glob : (∀ ln, A ln → 103 ∉ ln ∧ 118 ∉ ln) ∨ ScanFin

/-- the fuel `ex_exec` needs for a line at `:@` depth `d` -/
def need (K d : Nat) (ln : Bytes) : Nat := 4 * nest ln + 3 + (16 - d) * K

theorem exTxt_safe {ed : Ed} (h : Safe ed) (src a : Bytes) :
    Safe (exTxt ed src a).2 ∧ (exTxt ed src a).2.atDepth = ed.atDepth := by
  unfold exTxt
  simp only []
  generalize (if (a.headD 0 != 0) = true then a.getD 1 0 else 0) = c1
  repeat' split
  all_goals first | exact ⟨h, rfl⟩ | exact ⟨h.of_bufs rfl, rfl⟩

theorem exCommand_of_exec {d f : Nat} {ed : Ed} {ln : Bytes} (h : Ret d (exExec f ed ln)) :
    Ret d (exCommand (f + 1) ed ln) := by
  obtain ⟨r, ed1, he, h1, hd1⟩ := h
  rw [exCommand, he]
  exact Ret.mk (h1.paths (edInv_modifiedAt 0 h1.inv) (modifiedAt_pathsEq ed1 0) (modifiedAt_xkwd ed1 0)) ((modifiedAt_atDepth ed1 0).trans hd1)

theorem exExec_long (f : Nat) {ed : Ed} (h : Safe ed) {ln : Bytes} (hl : ln.length ≥ Gen.EXLEN) :
    Ret ed.atDepth (exExec (f + 1) ed ln) := by
  rw [exExec, if_pos hl]
  exact Ret.mk (h.show _) rfl

/-- **the dispatcher**: a parsed command of a line `ln`, with fuel `k + 2`, given the command lines one level down -/
theorem runCmd_ret (hre : ReSafe) (hgr : ReGroups) {A : Bytes → Prop} {K : Nat} (hA : LineCond A K) (k : Nat) {ed : Ed}
    (h : Safe ed) (ln : Bytes) (hAl : A ln) (hlen : ln.length < Gen.EXLEN) (a : Bytes) (hd : String)
    (hi : (parse1 ln).idx = some (a, hd)) (txt : Option Bytes)
    (hE : ∀ (ed' : Ed) (ln' : Bytes), Safe ed' → ed'.atDepth = ed.atDepth → A ln' → ln'.length < Gen.EXLEN →
      nest ln' + 1 ≤ nest ln → Ret ed.atDepth (exExec k ed' ln') ∧ Ret ed.atDepth (exCommand k ed' ln'))
    (hAt : ∀ (ed' : Ed) (buf : Bytes), Safe ed' → ed'.atDepth = ed.atDepth + 1 → ed.atDepth < 16 → A buf → 4 * Gen.EXLEN ≤ K →
      Ret (ed.atDepth + 1) (exCommand k ed' buf)) :
    Ret ed.atDepth (runCmd (k + 2) ed hd (parse1 ln).loc (parse1 ln).cmd (parse1 ln).arg txt) := by
  have hcs := parse1_cmd_sublist ln
  have has := parse1_arg_sublist ln
  have hAa : A (parse1 ln).arg := hA.sub has hAl
  have hla : (parse1 ln).arg.length < Gen.EXLEN := Nat.lt_of_le_of_lt has.length_le hlen
  have hpf : ∀ sp, PathFits ed (parse1 ln).arg sp := fun sp => hA.path ed _ sp h hAa hla
  have hloc : 0 ∉ (parse1 ln).loc := hA.nul _ (hA.sub (parse1_loc_sublist ln) hAl)
  have harg : 0 ∉ (parse1 ln).arg := hA.nul _ hAa
  by_cases c1 : hd = "ec_insert"
  · subst c1; exact run_insert hre (k + 1) h _ _ _ _ hloc
  by_cases c2 : hd = "ec_print"
  · subst c2; exact run_print hre (k + 1) h _ _ _ _ hloc
  by_cases c3 : hd = "ec_null"
  · subst c3; exact run_null hre k h _ _ _ _ hloc
  by_cases c4 : hd = "ec_delete"
  · subst c4; exact run_delete hre (k + 1) h _ _ _ _ hloc
  by_cases c5 : hd = "ec_yank"
  · subst c5; exact run_yank hre (k + 1) h _ _ _ _ hloc
  by_cases c6 : hd = "ec_put"
  · subst c6; exact run_put hre (k + 1) h _ _ _ _ hloc
  by_cases c7 : hd = "ec_lnum"
  · subst c7; exact run_lnum hre (k + 1) h _ _ _ _ hloc
  by_cases c8 : hd = "ec_undo"
  · subst c8; exact run_undo (k + 1) h _ _ _ _
  by_cases c9 : hd = "ec_redo"
  · subst c9; exact run_redo (k + 1) h _ _ _ _
  by_cases c10 : hd = "ec_mark"
  · subst c10; exact run_mark hre (k + 1) h _ _ _ _ hloc
  by_cases c11 : hd = "ec_rs"
  · subst c11; exact run_rs (k + 1) h _ _ _ _
  by_cases c12 : hd = "ec_at"
  · subst c12
    refine run_at hre k h _ _ _ _ hloc ?_
    intro ed' buf hs' hd' hlt hra
    have hi' : exIdx (parse1 ln).cmd = some (a, "ec_at") := hi
    rcases exIdx_at hi' with hc | hc
    · exact absurd (by rw [hc]; rfl) hra
    · have h64 : 64 ∈ ln := hcs.subset (by rw [hc]; simp)
      rcases hA.at_ with hno | ⟨hK, hall⟩
      · exact absurd h64 (hno ln hAl)
      · exact hAt ed' buf hs' hd' hlt (hall buf) hK
  by_cases c13 : hd = "ec_glob"
  · subst c13
    have hbody := nest_glob_body hi
    have hAs : A (reRead (parse1 ln).arg).2 := hA.sub (reRead_suffix _).sublist hAa
    have hls : (reRead (parse1 ln).arg).2.length < Gen.EXLEN :=
      Nat.lt_of_le_of_lt (reRead_suffix _).sublist.length_le hla
    refine run_glob hre k h _ _ _ _ hloc harg ?_ ?_
    · intro ed' i' hs' hd'
      exact (hE { ed' with xrow := i' } _ (hs'.of_bufs rfl) hd' hAs hls hbody).1
    · rcases hA.glob with hno | hfin
      · have hi' : exIdx (parse1 ln).cmd = some (a, "ec_glob") := hi
        rcases exIdx_glob hi' with hm | hm
        · exact absurd (hcs.subset hm) (hno ln hAl).1
        · exact absurd (hcs.subset hm) (hno ln hAl).2
      · intro re dep ed0 b hs0 _ _ _
        exact hfin _ _ _ _ _ _ _ hs0
  by_cases c14 : hd = "ec_edit"
  · subst c14
    obtain ⟨hp1, hp2⟩ := plusOf_sublist (parse1 ln).arg
    refine run_edit k h _ _ _ _ ?_ ?_
    · exact hA.path ed _ false h (hA.sub hp2 hAa) (Nat.lt_of_le_of_lt hp2.length_le hla)
    · intro hplus ed' hs' hd'
      have hn := nest_plus hplus
      have hn2 := nest_sublist has
      exact (hE ed' _ hs' hd' (hA.sub ((List.drop_sublist 1 _).trans hp1) hAa)
        (Nat.lt_of_le_of_lt ((List.drop_sublist 1 _).trans hp1).length_le hla) (by omega)).2
  by_cases c15 : hd = "ec_substitute"
  · subst c15; exact run_subst hre hgr (k + 1) h _ _ _ _ hloc harg
  by_cases c16 : hd = "ec_exec"
  · subst c16; exact run_exec hre (k + 1) h _ _ _ _ hloc (hpf true)
  by_cases c17 : hd = "ec_read"
  · subst c17; exact run_read hre (k + 1) h _ _ _ _ hloc (hpf true)
  by_cases c18 : hd = "ec_write"
  · subst c18; exact run_write hre (k + 1) h _ _ _ _ hloc (hpf true)
  by_cases c19 : hd = "ec_quit"
  · subst c19; exact run_quit hre (k + 1) h _ _ _ _ (hpf true)
  by_cases c20 : hd = "ec_buffer"
  · subst c20; exact run_buffer (k + 1) h _ _ _ _
  by_cases c21 : hd = "ec_set"
  · subst c21; exact run_set (k + 1) h _ _ _ _
  by_cases c22 : hd = "ec_echo"
  · subst c22; exact run_echo (k + 1) h _ _ _ _
  rw [run_other (k + 1) ed hd (by simp [modelled, c1, c2, c3, c4, c5, c6, c7, c8, c9, c10, c11, c12, c13, c14, c15, c16, c17,
    c18, c19, c20, c21, c22])]
  exact Ret.mk (h.of_bufs rfl) rfl


/-- **the loop of `ex_exec`** over a line, given the command lines one level down -/
theorem cmds_ret (hre : ReSafe) (hgr : ReGroups) {A : Bytes → Prop} {K : Nat} (hA : LineCond A K) (k d N : Nat)
    (hE : ∀ (ed' : Ed) (ln' : Bytes), Safe ed' → ed'.atDepth = d → A ln' → ln'.length < Gen.EXLEN →
      nest ln' + 1 ≤ N → Ret d (exExec k ed' ln') ∧ Ret d (exCommand k ed' ln'))
    (hAt : ∀ (ed' : Ed) (buf : Bytes), Safe ed' → ed'.atDepth = d + 1 → d < 16 → A buf → 4 * Gen.EXLEN ≤ K →
      Ret (d + 1) (exCommand k ed' buf)) :
    ∀ (g : Nat) (ed : Ed) (ln : Bytes) (ret : Int), Safe ed → ed.atDepth = d → A ln → ln.length < Gen.EXLEN →
      nest ln ≤ N → Ret d (exExec.cmds (k + 2) g ed ln ret) := by
  intro g
  induction g with
  | zero => intro ed ln ret h hd _ _ _; rw [exExec.cmds]; exact Ret.mk h hd
  | succ g ih =>
    intro ed ln ret h hd hAl hlen hn
    rw [cmds_succ]
    split
    · exact Ret.mk h hd
    · have hrs := restOf_sublist ln
      have hrest : ∀ (ed1 : Ed) (r : Int), Safe ed1 → ed1.atDepth = d → Ret d (exExec.cmds (k + 2) g ed1 (restOf ln) r) :=
        fun ed1 r h1 hd1 => ih ed1 (restOf ln) r h1 hd1 (hA.sub hrs hAl) (Nat.lt_of_le_of_lt hrs.length_le hlen)
          (Nat.le_trans (nest_sublist hrs) hn)
      obtain ⟨hT, hdT⟩ := exTxt_safe h (parse1 ln).rest (abbrOf (parse1 ln).idx)
      cases hi : (parse1 ln).idx with
      | none =>
        have hro : runOne (k + 2) ed (parse1 ln) ret =
            some ((ret, (exTxt ed (parse1 ln).rest (abbrOf (parse1 ln).idx)).2.show (strOf "unknown command")),
              (exTxt ed (parse1 ln).rest (abbrOf (parse1 ln).idx)).1.2) := by
          unfold runOne; rw [hi]
        rw [hro]
        dsimp only
        rw [show (exTxt ed (parse1 ln).rest (abbrOf (parse1 ln).idx)).1.2 = restOf ln from
          exTxt_rest_indep ed {} _ _]
        exact hrest _ _ (hT.show _) (by rw [← hd]; exact hdT)
      | some ah =>
        obtain ⟨a, hh⟩ := ah
        have hrun := runCmd_ret hre hgr hA k hT ln hAl hlen a hh hi
          (exTxt ed (parse1 ln).rest (abbrOf (parse1 ln).idx)).1.1
          (by
            intro ed' ln' hs' hd' hA' hl' hn'
            rw [hdT, hd]
            exact hE ed' ln' hs' (by rw [hd', hdT, hd]) hA' hl' (by omega))
          (by
            intro ed' buf hs' hd' hlt hAb hK
            rw [hdT, hd]
            exact hAt ed' buf hs' (by rw [hd', hdT, hd]) (by rw [← hd, ← hdT]; exact hlt) hAb hK)
        obtain ⟨r, ed1, he, h1, hd1⟩ := hrun
        have hro : runOne (k + 2) ed (parse1 ln) ret =
            some ((r, ed1), (exTxt ed (parse1 ln).rest (abbrOf (parse1 ln).idx)).1.2) := by
          unfold runOne; rw [hi]; dsimp only; rw [hi] at he; rw [he]
        rw [hro]
        dsimp only
        rw [show (exTxt ed (parse1 ln).rest (abbrOf (parse1 ln).idx)).1.2 = restOf ln from
          exTxt_rest_indep ed {} _ _]
        exact hrest _ _ h1 (by rw [hd1, hdT, hd])


theorem exlen_eq : Gen.EXLEN = 512 := rfl

/-- **no command line traps**: `ex_exec` on a line satisfying the side condition returns, from every safe state, with
    every fuel `f ≥ need K d ln` -/
theorem exec_ret (hre : ReSafe) (hgr : ReGroups) {A : Bytes → Prop} {K : Nat} (hA : LineCond A K) :
    ∀ (n f : Nat) (ed : Ed) (ln : Bytes), Safe ed → A ln → need K ed.atDepth ln ≤ n → n ≤ f →
      Ret ed.atDepth (exExec f ed ln) := by
  intro n
  induction n using Nat.strongRecOn with
  | _ n ih =>
    intro f ed ln h hAl hneed hf
    have hn3 : 3 ≤ n := by unfold need at hneed; omega
    obtain ⟨k, rfl⟩ : ∃ k, f = k + 3 := ⟨f - 3, by omega⟩
    by_cases hlong : ln.length ≥ Gen.EXLEN
    · exact exExec_long (k + 2) h hlong
    · rw [exExec, if_neg hlong]
      refine cmds_ret hre hgr hA k ed.atDepth (nest ln) ?_ ?_ (ln.length + 1) ed ln 0 h rfl hAl (by omega) (Nat.le_refl _)
      · intro ed' ln' hs' hd' hA' hl' hn'
        have hm : need K ed'.atDepth ln' ≤ n - 4 := by
          unfold need at hneed ⊢
          rw [hd']; omega
        refine ⟨?_, ?_⟩
        · have := ih (n - 4) (by omega) k ed' ln' hs' hA' hm (by omega)
          rw [hd'] at this; exact this
        · obtain ⟨k', rfl⟩ : ∃ k', k = k' + 1 := ⟨k - 1, by unfold need at hm; omega⟩
          have := ih (n - 4) (by omega) k' ed' ln' hs' hA' hm (by omega)
          rw [hd'] at this
          exact exCommand_of_exec this
      · intro ed' buf hs' hd' hlt hAb hK
        have hbig : 3 + (15 - ed.atDepth) * K + K ≤ n := by
          unfold need at hneed
          have : (16 - ed.atDepth) * K = (15 - ed.atDepth) * K + K := by
            rw [show 16 - ed.atDepth = (15 - ed.atDepth) + 1 by omega, Nat.add_mul, Nat.one_mul]
          omega
        rw [exlen_eq] at hK
        obtain ⟨k', rfl⟩ : ∃ k', k = k' + 1 := ⟨k - 1, by omega⟩
        refine exCommand_of_exec ?_
        by_cases hbl : buf.length ≥ Gen.EXLEN
        · obtain ⟨k'', rfl⟩ : ∃ k'', k' = k'' + 1 := ⟨k' - 1, by omega⟩
          have := exExec_long k'' hs' hbl
          rw [hd'] at this; exact this
        · have hnb := nest_le_length buf
          rw [exlen_eq] at hbl
          have hm : need K ed'.atDepth buf ≤ n - 4 := by
            unfold need
            rw [hd', show 16 - (ed.atDepth + 1) = 15 - ed.atDepth by omega]
            omega
          have := ih (n - 4) (by omega) k' ed' buf hs' hAb hm (by omega)
          rw [hd'] at this; exact this

/-- `ex_command` needs one more -/
theorem command_ret (hre : ReSafe) (hgr : ReGroups) {A : Bytes → Prop} {K : Nat} (hA : LineCond A K)
    (f : Nat) {ed : Ed} (ln : Bytes) (h : Safe ed) (hAl : A ln) (hf : need K ed.atDepth ln + 1 ≤ f) :
    Ret ed.atDepth (exCommand f ed ln) := by
  obtain ⟨k, rfl⟩ : ∃ k, f = k + 1 := ⟨f - 1, by omega⟩
  exact exCommand_of_exec (exec_ret hre hgr hA (need K ed.atDepth ln) k ed ln h hAl (Nat.le_refl _) (by omega))

end Neatvi.Lemmas.C05e
