import NeatviVerif.Lemmas.C05eQ
import NeatviVerif.Props.C02
/-!
# C05e lemmas, part L: rounds of the `ex()` loop, scripts, `ex_init`; the traps that are left, with witnesses
-/
namespace Neatvi.Lemmas.C05e
open Neatvi Neatvi.Lbuf Neatvi.LbufIo Neatvi.Ex Neatvi.Rset Neatvi.Lemmas.C06b
open Neatvi.Lemmas.ExFrame Neatvi.Lemmas.C02Ex Neatvi.Lemmas.C02b Neatvi.Lemmas.C06
open Neatvi.Props.C02.Ex (exRun)

/-- a command line the theorems cover with the fuel of the `ex()` loop: flat; or flat commands mixed with `:g` over
    local flat command lists; or plain with `4 * nest l + 4 ≤ FUEL` (at most 49 `+`) -/
def LineOk (l : Bytes) : Prop :=
  flatLine (l.length + 1) l = true ∨ gflatLine (l.length + 1) l = true ∨ (Plain l ∧ 4 * nest l + 4 ≤ FUEL)

theorem command_ok {ed : Ed} (h : Safe ed) (hd : ed.atDepth = 0) (l : Bytes) (hl : LineOk l) :
    Ret 0 (exCommand FUEL ed l) := by
  rcases hl with hfl | hfl | ⟨hp, hn⟩
  · have := exec_flat (FUEL - 4) h l hfl
    rw [hd] at this
    exact exCommand_of_exec this
  · have := exec_gflat (FUEL - 7) h l hfl
    rw [hd] at this
    exact exCommand_of_exec this
  · have := command_ret reSafe reGroups lineCond_plain FUEL l h hp (by unfold need; rw [hd]; simp only [Nat.mul_zero, Nat.add_zero]; omega)
    rw [hd] at this
    exact this

/-- **one round of the `ex()` loop** on a covered line: it returns, in a safe state -/
theorem step_ok {ed : Ed} (h : Safe ed) (hd : ed.atDepth = 0) (l : Bytes) (rest : List Bytes) (hin : ed.input = l :: rest)
    (hl : LineOk l) : ∃ r ed', exStep ed = some (r, ed') ∧ Safe ed' ∧ ed'.atDepth = 0 := by
  unfold exStep
  rw [hin]
  dsimp only
  obtain ⟨r, ed1, he, h1, hd1⟩ := command_ok (ed := { ed with input := rest, out := [], msg := [], calls := 0, fired := 0 })
    (h.of_bufs rfl) hd l hl
  rw [he]
  exact ⟨_, _, rfl, h1.of_bufs rfl, hd1⟩

/-- **a script**: `n` rounds, every line the loop reads being covered -/
theorem run_ok : ∀ (n : Nat) (ed : Ed), Safe ed → ed.atDepth = 0 →
    (∀ k edk l rest, k < n → exRun k ed = some edk → edk.input = l :: rest → LineOk l) →
    ∃ ed', exRun n ed = some ed' ∧ Safe ed' ∧ ed'.atDepth = 0 := by
  intro n
  induction n with
  | zero => intro ed h hd _; exact ⟨ed, rfl, h, hd⟩
  | succ n ih =>
    intro ed h hd hl
    rw [exRun]
    cases hin : ed.input with
    | nil => exact ⟨ed, by simp, h, hd⟩
    | cons l rest =>
      rw [if_neg (by simp)]
      obtain ⟨r, ed1, hs, h1, hd1⟩ := step_ok h hd l rest hin (hl 0 ed l rest (by omega) rfl hin)
      rw [hs]
      dsimp only
      refine ih ed1 h1 hd1 ?_
      intro k edk l' rest' hk hr hi
      refine hl (k + 1) edk l' rest' (by omega) ?_ hi
      rw [exRun, hin, if_neg (by simp), hs]
      exact hr

/-! ### `ex_init` -/

theorem escape_id : ∀ (p : Bytes), (∀ c ∈ p, c ≠ 32 ∧ c ≠ 37 ∧ c ≠ 35 ∧ c ≠ 61) →
    p.flatMap (fun c => if c == 32 || c == 37 || c == 35 || c == 61 then [92, c] else [c]) = p := by
  intro p
  induction p with
  | nil => intro _; rfl
  | cons c r ih =>
    intro h
    have hc := h c (by simp)
    rw [List.flatMap_cons, ih (fun x hx => h x (by simp [hx]))]
    rw [if_neg (by simp [hc.1, hc.2.1, hc.2.2.1, hc.2.2.2])]
    rfl

/-- the file name `ex_init` is given: none, or one without blank, `%`, `#`, `=`, NUL, not starting with `+`, shorter than
    the path buffer -/
def NameOk (files : List Bytes) : Prop :=
  match files with
  | [] => True
  | p :: _ => (∀ c ∈ p, c ≠ 32 ∧ c ≠ 37 ∧ c ≠ 35 ∧ c ≠ 61) ∧ p.headD 0 ≠ 43 ∧ p.length < 1000

/-- **`ex_init`** from the empty buffer table: it returns, and leaves a safe state -/
theorem init_ok (ed0 : Ed) (files : List Bytes) (h0 : ed0.bufs = List.replicate Gen.NBUFS none) (hk : 0 ∉ ed0.xkwd)
    (hd : ed0.atDepth = 0) (hn : NameOk files) : ∃ rc ed1, exInit ed0 files = some (rc, ed1) ∧ Safe ed1 ∧ ed1.atDepth = 0 := by
  have hpre : Pre ed0 := ⟨by unfold EdInv; rw [h0]; exact tabInv_replicate _, by rw [h0]; simp [Gen.NBUFS], hk⟩
  have hcur : ed0.cur = none := by
    unfold Ed.cur; rw [h0]; rfl
  have key : ∀ arg : Bytes, (∀ c ∈ arg, c ≠ 32 ∧ c ≠ 37 ∧ c ≠ 35 ∧ c ≠ 61) → arg.headD 0 ≠ 43 → arg.length < 1000 →
      ∃ rc ed1, ecEdit FUEL ed0 (strOf "e") arg = some (rc, ed1) ∧ Safe ed1 ∧ ed1.atDepth = 0 := by
    intro arg ha hplus hlen
    have hdw : arg.dropWhile (· == 32) = arg := by
      cases arg with
      | nil => rfl
      | cons c r =>
        have := (ha c (by simp)).1
        simp [this]
    have hpl : plusOf arg = ([], arg) := by
      unfold plusOf
      dsimp only
      rw [hdw, if_neg (by simpa using hplus)]
    have := ecEdit_init (FUEL - 1) hpre hcur (strOf "e") arg
      (by rw [hpl]; exact pathFits_plain ed0 arg false (fun c hc => ⟨(ha c hc).2.1, (ha c hc).2.2.1, (ha c hc).2.2.2⟩) hlen)
      (by rw [hpl]; exact fun c hc => ⟨(ha c hc).2.1, (ha c hc).2.2.1⟩)
      (by rw [hpl]; intro hp; simp at hp)
    obtain ⟨rc, ed1, he, h1, hd1⟩ := this
    exact ⟨rc, ed1, he, h1, by rw [hd1, hd]⟩
  unfold exInit
  cases files with
  | nil => exact key [] (by intro c hc; cases hc) (by decide) (by decide)
  | cons p rest =>
    obtain ⟨hp1, hp2, hp3⟩ := hn
    dsimp only
    rw [escape_id p hp1]
    exact key p hp1 hp2 hp3

end Neatvi.Lemmas.C05e
