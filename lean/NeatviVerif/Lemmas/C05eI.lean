import NeatviVerif.Lemmas.C05eH
/-!
# C05e lemmas, part I: the dispatcher and the loop of `ex_exec`, given the command lines one level down

`nest l` counts the bytes of a line that can open a nested command line: `g`, `v` (every name of the `:g` family
holds one) and `+` (`:e +cmd`).  `LineCond A K` collects what is asked of the text of the lines: a predicate `A`
inherited by sublists, under which path expansions fit, `@` is either absent or paid for with `K` units of fuel per
level (16 levels at most), and `:g` is either absent or its scans end within the model's step budget.
-/
namespace Neatvi.Lemmas.C05e
open Neatvi Neatvi.Lbuf Neatvi.LbufIo Neatvi.Ex Neatvi.Rset Neatvi.Lemmas.C06b
open Neatvi.Lemmas.ExFrame Neatvi.Lemmas.C02Ex Neatvi.Lemmas.C02b Neatvi.Lemmas.C06

/-! ### the table of commands -/

theorem glob_table : ∀ e ∈ Gen.excmds, e.2.2 = "ec_glob" →
    (e.1.contains 103 || e.1.contains 118) = true ∧ (e.2.1.contains 103 || e.2.1.contains 118) = true := by
  decide

theorem at_table : ∀ e ∈ Gen.excmds, e.2.2 = "ec_at" →
    (e.1 = [114, 97] ∧ e.2.1 = [114, 97]) ∨ (e.1 = [64] ∧ e.2.1 = [64]) := by
  decide

theorem exIdx_entry {cmd a : Bytes} {h : String} (hi : exIdx cmd = some (a, h)) :
    ∃ e ∈ Gen.excmds, (e.1 = cmd ∨ e.2.1 = cmd) ∧ e.2.2 = h := by
  unfold exIdx at hi
  simp only [Option.map_eq_some_iff] at hi
  obtain ⟨e, hf, he⟩ := hi
  have h1 := List.find?_some hf
  have h2 := List.mem_of_find?_eq_some hf
  simp only [Bool.or_eq_true, beq_iff_eq] at h1
  cases he
  exact ⟨e, h2, h1, rfl⟩

/-- the name of a command of the `:g` family holds a `g` or a `v` -/
theorem exIdx_glob {cmd a : Bytes} (hi : exIdx cmd = some (a, "ec_glob")) : 103 ∈ cmd ∨ 118 ∈ cmd := by
  obtain ⟨e, hm, hc, hh⟩ := exIdx_entry hi
  obtain ⟨h1, h2⟩ := glob_table e hm hh
  simp only [Bool.or_eq_true, List.contains_iff_mem] at h1 h2
  rcases hc with rfl | rfl
  · exact h1
  · exact h2

/-- a command dispatched to `ec_at` is `ra` or `@` -/
theorem exIdx_at {cmd a : Bytes} (hi : exIdx cmd = some (a, "ec_at")) : cmd = [114, 97] ∨ cmd = [64] := by
  obtain ⟨e, hm, hc, hh⟩ := exIdx_entry hi
  rcases at_table e hm hh with ⟨h1, h2⟩ | ⟨h1, h2⟩
  · left; rcases hc with rfl | rfl <;> assumption
  · right; rcases hc with rfl | rfl <;> assumption

/-! ### the measure -/

/-- the bytes that can open a nested command line -/
def nestB (c : Nat) : Bool := c == 103 || c == 118 || c == 43

def nest (l : Bytes) : Nat := l.countP nestB

theorem nest_sublist {l l' : Bytes} (h : l'.Sublist l) : nest l' ≤ nest l := h.countP_le

theorem nest_append (a b : Bytes) : nest (a ++ b) = nest a + nest b := List.countP_append

theorem nest_le_length (l : Bytes) : nest l ≤ l.length := List.countP_le_length

theorem nest_pos_of_mem {l : Bytes} {c : Nat} (hc : nestB c = true) (h : c ∈ l) : 1 ≤ nest l :=
  List.countP_pos_iff.mpr ⟨c, h, hc⟩

theorem nest_drop1 {l : Bytes} (h : nestB (l.headD 0) = true) (hne : l ≠ []) : nest (l.drop 1) + 1 = nest l := by
  cases l with
  | nil => exact absurd rfl hne
  | cons c r =>
    simp only [List.headD_cons] at h
    show nest r + 1 = nest (c :: r)
    unfold nest
    rw [List.countP_cons_of_pos h]

/-! ### the pieces of a line -/

theorem parse1_sublist (ln : Bytes) :
    ((parse1 ln).cmd ++ ((parse1 ln).arg ++ (parse1 ln).rest)).Sublist ln := by
  unfold parse1
  dsimp only
  have h1 := (exLoc_suffix ln).sublist
  have h2 := exCmd_sublist (exLoc ln).2
  have h3 := exArg_sublist (exCmd (exLoc ln).2).2 (abbrOf (exIdx (exCmd (exLoc ln).2).1))
  exact ((List.Sublist.append_left h3 _).trans h2).trans h1

theorem parse1_loc_sublist (ln : Bytes) : (parse1 ln).loc.Sublist ln := by
  unfold parse1
  exact exLoc_loc_sublist ln

theorem parse1_cmd_sublist (ln : Bytes) : (parse1 ln).cmd.Sublist ln :=
  (List.sublist_append_left _ _).trans (parse1_sublist ln)

theorem parse1_arg_sublist (ln : Bytes) : (parse1 ln).arg.Sublist ln :=
  ((List.sublist_append_left _ _).trans (List.sublist_append_right _ _)).trans (parse1_sublist ln)

theorem restOf_sublist (ln : Bytes) : (restOf ln).Sublist ln := by
  have h1 : (restOf ln).Sublist (parse1 ln).rest := (exTxt_suffix _ _ _).sublist
  exact ((h1.trans (List.sublist_append_right _ _)).trans (List.sublist_append_right _ _)).trans (parse1_sublist ln)

/-- the body of a `:g`: one `g` or `v` fewer than the line -/
theorem nest_glob_body {ln : Bytes} {a : Bytes} (hi : (parse1 ln).idx = some (a, "ec_glob")) :
    nest (reRead (parse1 ln).arg).2 + 1 ≤ nest ln := by
  have hs := nest_sublist (parse1_sublist ln)
  rw [nest_append, nest_append] at hs
  have hb : nest (reRead (parse1 ln).arg).2 ≤ nest (parse1 ln).arg := nest_sublist (reRead_suffix _).sublist
  have hc : 1 ≤ nest (parse1 ln).cmd := by
    have hi' : exIdx (parse1 ln).cmd = some (a, "ec_glob") := hi
    rcases exIdx_glob hi' with h | h
    · exact nest_pos_of_mem (by decide) h
    · exact nest_pos_of_mem (by decide) h
  omega

theorem plusOf_sublist (arg : Bytes) : (plusOf arg).1.Sublist arg ∧ (plusOf arg).2.Sublist arg := by
  unfold plusOf
  dsimp only
  have hd : (arg.dropWhile (· == 32)).Sublist arg := (List.dropWhile_suffix _).sublist
  split
  · obtain ⟨x, h1, h2⟩ := copyUntilPlus_split ((arg.dropWhile (· == 32)).length + 1) (arg.dropWhile (· == 32)) []
    generalize copyUntilPlus ((arg.dropWhile (· == 32)).length + 1) (arg.dropWhile (· == 32)) [] = q at h1 h2
    obtain ⟨p, r⟩ := q
    simp only [List.nil_append] at h1 h2 ⊢
    subst h1
    exact ⟨((List.sublist_append_left _ _).trans h2).trans hd,
      (((List.dropWhile_suffix _).sublist.trans (List.sublist_append_right _ _)).trans h2).trans hd⟩
  · exact ⟨List.nil_sublist _, hd⟩

/-- the `+cmd` of a `:e`: one `+` fewer than the argument -/
theorem nest_plus {arg : Bytes} (hp : ((plusOf arg).1.headD 0 == 43) = true) :
    nest ((plusOf arg).1.drop 1) + 1 ≤ nest arg := by
  have hne : (plusOf arg).1 ≠ [] := by
    intro h0; rw [h0] at hp; simp at hp
  have h1 := nest_drop1 (l := (plusOf arg).1) (by simp only [beq_iff_eq] at hp; rw [hp]; decide) hne
  have h2 := nest_sublist (plusOf_sublist arg).1
  omega

end Neatvi.Lemmas.C05e
