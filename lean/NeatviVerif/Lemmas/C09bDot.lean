import NeatviVerif.Lemmas.C09bStep
/-!
# C09b: the `.` and `@` commands under the simulation relation, and the proviso `stepOk`
-/
namespace Neatvi.Lemmas.C09b
open Neatvi Neatvi.Vi Neatvi.Ex Neatvi.Lemmas.C09

/-! ### pushes -/

/-- the condition under which a push is the same as typing: no pushed key is unread, and `ibuf` has room
for `n` copies of `x` -/
def pushOk (s : VS) (n : Nat) (x : Bytes) : Bool :=
  decide (s.ibuf.length ≤ s.ibufPos) && decide (max 1 s.ibuf.length + n * x.length ≤ 4096)

theorem pushOk_iff (s : VS) (n : Nat) (x : Bytes) :
    pushOk s n x = true ↔ s.ibuf.length ≤ s.ibufPos ∧ max 1 s.ibuf.length + n * x.length ≤ 4096 := by
  simp [pushOk]

theorem pushN_frame (n : Nat) (x : Bytes) (s : VS) :
    (pushN n x s).repCmd = s.repCmd ∧ (pushN n x s).icmd = s.icmd ∧ (pushN n x s).ibufPos = s.ibufPos ∧
    (pushN n x s).typed = s.typed := by
  induction n generalizing s with
  | zero => exact ⟨rfl, rfl, rfl, rfl⟩
  | succ n ih =>
    obtain ⟨a, b, c, d⟩ := ih (push x s)
    exact ⟨a, b, c, d⟩

theorem inv_pushN (n : Nat) (x : Bytes) (s : VS) (h : Inv s) : Inv (pushN n x s) := by
  obtain ⟨a, b, -, -⟩ := pushN_frame n x s
  exact ⟨pushN_qwf n x s h.wf, by rw [a]; exact h.rep, by rw [b]; exact h.icm⟩

/-- pushing on two related states that have no unread pushed key -/
theorem K_pushN (n : Nat) (x : Bytes) (s t : VS) (h : K s t) (hok : pushOk s n x = true ∨ s = t) :
    K (pushN n x s) (pushN n x t) := by
  rcases hok with hok | rfl
  · obtain ⟨hd, hroom⟩ := (pushOk_iff s n x).mp hok
    have hws := h.wfs
    have hwt := h.wft
    have hu := h.unr
    have hl := h.len
    unfold QWf unread at *
    have hdt : t.ibuf.length ≤ t.ibufPos := by omega
    have hrs : s.ibuf.length + n * x.length ≤ 4096 := by omega
    have hrt : t.ibuf.length + n * x.length ≤ 4096 := by omega
    have hty : s.typed = t.typed := by
      have hp := h.keq.pending
      unfold pending at hp
      rwa [List.drop_eq_nil_of_le hd, List.drop_eq_nil_of_le hdt, List.nil_append, List.nil_append] at hp
    rw [pushN_room n x s hrs, pushN_room n x t hrt]
    refine ⟨?_, ?_, ?_, ?_, ?_, ?_, h.rep, h.icm⟩
    · obtain ⟨h1, h4, h0, h5, h6, h7, h8, h9, h10, h11, h12, h13, h14, h15, h16, h17, h18, h19, h20,
        h21, h22, h23, h24, h25⟩ := (keyEq_iff s t).mp h.keq
      refine (keyEq_iff _ _).mpr ⟨?_, h4, h0, h5, h6, h7, h8, h9, h10, h11, h12, h13, h14, h15, h16, h17,
        h18, h19, h20, h21, h22, h23, h24, h25⟩
      simp only [pending, List.drop_append]
      rw [List.drop_eq_nil_of_le hd, List.drop_eq_nil_of_le hdt, hty,
        show s.ibufPos - s.ibuf.length = 0 by omega, show t.ibufPos - t.ibuf.length = 0 by omega]
    · show s.ibufPos ≤ (s.ibuf ++ _).length
      simp only [List.length_append]; omega
    · show t.ibufPos ≤ (t.ibuf ++ _).length
      simp only [List.length_append]; omega
    · show (t.ibuf ++ _).length - t.ibufPos ≤ (s.ibuf ++ _).length - s.ibufPos
      simp only [List.length_append]; omega
    · show (t.ibuf ++ _).length ≤ max 1 (s.ibuf ++ _).length
      simp only [List.length_append]
      by_cases he : s.ibuf = []
      · rw [h.emp he, he]; simp; omega
      · have : 0 < s.ibuf.length := List.length_pos_iff.mpr he
        omega
    · show s.ibuf ++ _ = [] → t.ibuf ++ _ = []
      intro he
      obtain ⟨e1, e2⟩ := List.append_eq_nil_iff.mp he
      rw [h.emp e1, e2]; rfl
  · exact K.refl (inv_pushN n x s h.inv_left)

/-! ### the `.` and `@` branches of the command switch -/

/-- the state after `lbuf_mark(xb, '^', xrow, xoff)` -/
def marked (s : VS) : VS :=
  { s with ed := match s.ed.lb with
      | some lb => s.ed.setLb (Lbuf.setMark lb 94 s.ed.xrow s.ed.xoff)
      | none => s.ed }

theorem markSet_marked (s : VS) : markSet 94 s.ed.xrow s.ed.xoff s = Res.ok () (marked s) := rfl

theorem frame_marked : Frame marked := fun _ => ⟨rfl, rfl, rfl, rfl, rfl⟩

theorem commandTail_dot' (s1 s2 : VS) (h : viRead s1 = Res.ok 46 s2) :
    commandTail s1 = finRec 46 0 0 (pushN (cnt1 s2) s2.repCmd (marked s2)) := by
  have e : commandTail s1 = (do markSet 94 s2.ed.xrow s2.ed.xoff; vcRepeat; finRec 46 0 0 : M (Option Nat)) s2 := by
    unfold commandTail
    simp only [bind_apply, h]
    simp [Vi.get, bind_apply, finRec]
  rw [e]
  simp only [bind_apply, markSet_marked, vcRepeat_eq]
  rfl

/-- the reads of `vc_execute()` and the choice of the register: `some (n, x)` when the text `x` is going
to be pushed `n` times -/
def execHead : M (Option (Nat × Bytes)) := do
  let c0 ← viRead
  let c ← (if c0 == 92 then do let d ← viRead; pure (((128 ||| d.toNat : Nat) : Int)) else pure c0)
  if tkInt c then pure none else
  let s ← Vi.get
  let reg := if c == 64 then s.execReg else c
  Vi.modify fun s => { s with execReg := reg }
  if reg < 0 then pure none else
  match regGet s.ed reg.toNat with
  | none => pure none
  | some buf => pure (some ((max 1 s.arg1).toNat, buf.takeWhile (· != 0)))

/-- the pushes of `vc_execute()` -/
def execPush : Option (Nat × Bytes) → M Unit
  | none => pure ()
  | some (n, x) => repeatM n (termPush x)

/-- `vc_execute()` once the register name is known -/
def execTailU (c : Int) : M Unit :=
  if tkInt c then pure () else do
    let s ← Vi.get
    let reg := if c == 64 then s.execReg else c
    Vi.modify fun s => { s with execReg := reg }
    if reg < 0 then pure () else
    match regGet s.ed reg.toNat with
    | none => pure ()
    | some buf => repeatM (max 1 s.arg1).toNat (termPush (buf.takeWhile (· != 0)))

def execTailH (c : Int) : M (Option (Nat × Bytes)) :=
  if tkInt c then pure none else do
    let s ← Vi.get
    let reg := if c == 64 then s.execReg else c
    Vi.modify fun s => { s with execReg := reg }
    if reg < 0 then pure none else
    match regGet s.ed reg.toNat with
    | none => pure none
    | some buf => pure (some ((max 1 s.arg1).toNat, buf.takeWhile (· != 0)))

theorem exec_tail (c : Int) : execTailU c = (execTailH c >>= execPush) := by
  funext s
  rw [bind_apply]
  unfold execTailU execTailH
  by_cases ht : tkInt c = true
  · simp only [ht, if_true]; rfl
  · simp only [ht, Bool.false_eq_true, if_false, bind_apply, Vi.get, Vi.modify]
    generalize (if (c == 64) = true then s.execReg else c) = reg
    by_cases hr : reg < 0
    · simp only [hr, if_true]; rfl
    · simp only [hr, if_false]
      cases regGet s.ed reg.toNat <;> rfl

theorem M_bind_assoc {α β γ : Type} (m : M α) (f : α → M β) (g : β → M γ) :
    ((m >>= f) >>= g) = (m >>= fun a => f a >>= g) := by
  funext s
  simp only [bind_apply]
  cases m s <;> rfl

/-- the register name of `vc_execute()`: `\x` is `0x80 | x` -/
def execPick (c0 : Int) : M Int :=
  if c0 == 92 then do let d ← viRead; pure (((128 ||| d.toNat : Nat) : Int)) else pure c0

theorem vcExecute_shape : vcExecute = (viRead >>= fun c0 => execPick c0 >>= execTailU) := rfl
theorem execHead_shape : execHead = (viRead >>= fun c0 => execPick c0 >>= execTailH) := rfl

theorem vcExecute_eq_head : vcExecute = (execHead >>= execPush) := by
  rw [vcExecute_shape, execHead_shape, M_bind_assoc, show execTailU = fun c => execTailH c >>= execPush from funext exec_tail]
  simp only [M_bind_assoc]

theorem resp_execHead : Resp execHead := by
  unfold execHead
  resp_tac

theorem commandTail_at' (s1 s2 : VS) (h : viRead s1 = Res.ok 64 s2) :
    commandTail s1 = (execHead >>= fun o => execPush o >>= fun _ => finRec 64 0 0) (marked s2) := by
  have e : commandTail s1 = (do markSet 94 s2.ed.xrow s2.ed.xoff; vcExecute; finRec 64 0 0 : M (Option Nat)) s2 := by
    unfold commandTail
    simp only [bind_apply, h]
    simp [Vi.get, bind_apply, finRec]
  rw [e]
  simp only [bind_apply, markSet_marked, vcExecute_eq_head]
  cases execHead (marked s2) <;> rfl

end Neatvi.Lemmas.C09b
