import NeatviVerif.Lemmas.C06bExec
/-!
# C06b, the loop of `ex_exec` makes progress: every iteration shortens the line, so the fuel of the loop
  (`length + 1`) is never the reason it stops
-/
namespace Neatvi.Lemmas.C06b
open Neatvi Neatvi.Ex

theorem dropWhile_le {α : Type} (p : α → Bool) (l : List α) : (l.dropWhile p).length ≤ l.length :=
  (List.dropWhile_suffix p).length_le

theorem drop1_le {α : Type} (l : List α) : (l.drop 1).length ≤ l.length := by simp

/-! ### `ex_loc` -/

theorem pat_le (c2 : Nat) : ∀ (g : Nat) (s acc : Bytes), (exLoc.go.pat c2 g s acc).2.length ≤ s.length := by
  intro g
  induction g with
  | zero => intro s acc; rw [exLoc.go.pat]; exact Nat.le_refl _
  | succ g ih =>
    intro s acc
    cases s with
    | nil => rw [exLoc.go.pat]; exact Nat.le_refl _
    | cons c s =>
      rw [exLoc.go.pat]
      split
      · exact Nat.le_refl _
      · split
        · have := ih (s.drop 1) (acc ++ [c, s.headD 0])
          have := drop1_le s
          simp only [List.length_cons]; omega
        · have := ih s (acc ++ [c])
          simp only [List.length_cons]; omega

theorem exLoc_go_le : ∀ (f : Nat) (s loc : Bytes), (exLoc.go f s loc).2.length ≤ s.length := by
  intro f
  induction f with
  | zero => intro s loc; rw [exLoc.go]; exact Nat.le_refl _
  | succ f ih =>
    intro s loc
    cases s with
    | nil => rw [exLoc.go]; exact Nat.le_refl _
    | cons c s =>
      rw [exLoc.go]
      split
      · exact Nat.le_refl _
      · generalize hp1 : (if (c == 39) = true then (loc ++ [c], List.drop 1 (c :: s)) else (loc, c :: s)) = p1
        obtain ⟨loc1, s1⟩ := p1
        have h1 : s1.length ≤ (c :: s).length := by
          split at hp1
          · cases hp1; exact drop1_le _
          · cases hp1; exact Nat.le_refl _
        simp only []
        generalize hp2 : (if (s1.headD 0 == 47 || s1.headD 0 == 63) = true then
            match exLoc.go.pat (s1.headD 0) (s1.length + 1) (List.drop 1 s1) [] with
            | (p, s') => (loc1 ++ [s1.headD 0] ++ p, s')
          else (loc1, s1)) = p2
        obtain ⟨loc2, s2⟩ := p2
        have h2 : s2.length ≤ s1.length := by
          split at hp2
          · have := pat_le (s1.headD 0) (s1.length + 1) (List.drop 1 s1) []
            generalize exLoc.go.pat (s1.headD 0) (s1.length + 1) (List.drop 1 s1) [] = q at hp2 this
            obtain ⟨p, s'⟩ := q
            cases hp2
            have := drop1_le s1
            simp only [] at *; omega
          · cases hp2; exact Nat.le_refl _
        simp only []
        cases s2 with
        | nil => simp
        | cons x r =>
          have := ih r (loc2 ++ [x])
          simp only [List.length_cons] at *; omega

theorem exLoc_le (s : Bytes) : (exLoc s).2.length ≤ s.length := by
  unfold exLoc
  have h1 := dropWhile_le (fun c => c == 58 || c == 32 || c == 9) s
  have h2 := exLoc_go_le ((s.dropWhile (fun c => c == 58 || c == 32 || c == 9)).length + 1)
    (s.dropWhile (fun c => c == 58 || c == 32 || c == 9)) []
  simp only [] at *
  omega

/-! ### `ex_cmd` -/

theorem exCmd_go_le : ∀ (f : Nat) (s cmd : Bytes), (exCmd.go f s cmd).2.length ≤ s.length := by
  intro f
  induction f with
  | zero => intro s cmd; rw [exCmd.go]; exact Nat.le_refl _
  | succ f ih =>
    intro s cmd
    cases s with
    | nil => rw [exCmd.go]; exact Nat.le_refl _
    | cons c s =>
      rw [exCmd.go]
      split
      · split
        · simp
        · have := ih s (cmd ++ [c])
          simp only [List.length_cons]; omega
      · exact Nat.le_refl _

theorem exCmd_le (s : Bytes) : (exCmd s).2.length ≤ s.length := by
  unfold exCmd
  have h1 := dropWhile_le (fun c => c == 32 || c == 9) s
  have h2 := exCmd_go_le ((s.dropWhile (fun c => c == 32 || c == 9)).length + 1)
    (s.dropWhile (fun c => c == 32 || c == 9)) []
  simp only []
  generalize exCmd.go ((s.dropWhile (fun c => c == 32 || c == 9)).length + 1)
    (s.dropWhile (fun c => c == 32 || c == 9)) [] = q at h2
  obtain ⟨cmd, s'⟩ := q
  simp only [] at h2 ⊢
  split
  · have := drop1_le s'
    simp only []; omega
  · simp only []; omega

/-! ### `ex_arg` -/

theorem copyUntil_le (stop : Nat → Bool) : ∀ (f : Nat) (s acc : Bytes), (copyUntil stop f s acc).2.length ≤ s.length := by
  intro f
  induction f with
  | zero => intro s acc; rw [copyUntil]; exact Nat.le_refl _
  | succ f ih =>
    intro s acc
    cases s with
    | nil => rw [copyUntil]; exact Nat.le_refl _
    | cons c s =>
      rw [copyUntil]
      split
      · exact Nat.le_refl _
      · split
        · have := ih (s.drop 1) (acc ++ [c, s.headD 0])
          have := drop1_le s
          simp only [List.length_cons]; omega
        · have := ih s (acc ++ [c])
          simp only [List.length_cons]; omega

/-- with enough fuel the copy stops at the end of the string or in front of a stop byte -/
theorem copyUntil_stop (stop : Nat → Bool) : ∀ (f : Nat) (s acc : Bytes), s.length < f →
    (copyUntil stop f s acc).2 = [] ∨ stop ((copyUntil stop f s acc).2.headD 0) = true := by
  intro f
  induction f with
  | zero => intro s acc h; omega
  | succ f ih =>
    intro s acc h
    cases s with
    | nil => rw [copyUntil]; exact Or.inl rfl
    | cons c s =>
      rw [copyUntil]
      split
      · rename_i hs; right; exact hs
      · split
        · exact ih (s.drop 1) _ (by have := drop1_le s; simp only [List.length_cons] at h; omega)
        · exact ih s _ (by simp only [List.length_cons] at h; omega)

/-- nothing copied means nothing consumed -/
theorem copyUntil_acc (stop : Nat → Bool) (f : Nat) (s acc : Bytes) :
    copyUntil stop f s acc = (acc, s) ∨ (copyUntil stop f s acc).2.length < s.length := by
  cases f with
  | zero => left; rw [copyUntil]
  | succ f =>
    cases s with
    | nil => left; rw [copyUntil]
    | cons c s =>
      rw [copyUntil]
      split
      · left; rfl
      · right
        split
        · have := copyUntil_le stop f (s.drop 1) (acc ++ [c, s.headD 0])
          have := drop1_le s
          simp only [List.length_cons]; omega
        · have := copyUntil_le stop f s (acc ++ [c])
          simp only [List.length_cons]; omega

theorem sub_le (d : Nat) : ∀ (f : Nat) (s acc : Bytes) (cnt : Nat), (exArg.sub d f s acc cnt).2.length ≤ s.length := by
  intro f
  induction f with
  | zero => intro s acc cnt; rw [exArg.sub]; exact Nat.le_refl _
  | succ f ih =>
    intro s acc cnt
    cases s with
    | nil => rw [exArg.sub]; exact Nat.le_refl _
    | cons c s =>
      rw [exArg.sub]
      split
      · exact Nat.le_refl _
      · simp only []
        split
        · have := ih (s.drop 1) (acc ++ [c, s.headD 0]) (if (c == d) = true then cnt - 1 else cnt)
          have := drop1_le s
          simp only [List.length_cons]; omega
        · have := ih s (acc ++ [c]) (if (c == d) = true then cnt - 1 else cnt)
          simp only [List.length_cons]; omega

/-- the tail of `ex_arg`: copy up to newline, `|`, `"`; skip a comment; step over the separator -/
theorem exArg_tail (src1 : Bytes) :
    let p := copyUntil (fun c => c == 10 || c == 124 || c == 34) (src1.length + 1) src1 []
    let s2 := if (p.2.headD 0 == 34) = true then p.2.dropWhile (fun c => c != 10) else p.2
    let s3 := if (s2.headD 0 == 10 || s2.headD 0 == 124) = true then s2.drop 1 else s2
    s3.length ≤ src1.length ∧ (src1 ≠ [] → s3.length < src1.length) := by
  intro p s2 s3
  have h1 : p.2.length ≤ src1.length := copyUntil_le _ _ _ _
  have h2 : s2.length ≤ p.2.length := by
    show (if (p.2.headD 0 == 34) = true then p.2.dropWhile (fun c => c != 10) else p.2).length ≤ _
    split
    · exact dropWhile_le _ _
    · exact Nat.le_refl _
  have h3 : s3.length ≤ s2.length := by
    show (if (s2.headD 0 == 10 || s2.headD 0 == 124) = true then s2.drop 1 else s2).length ≤ _
    split
    · exact drop1_le _
    · exact Nat.le_refl _
  refine ⟨by omega, fun hne => ?_⟩
  rcases copyUntil_stop (fun c => c == 10 || c == 124 || c == 34) (src1.length + 1) src1 [] (by omega) with h | h
  · -- everything was copied
    have hp : p.2 = [] := h
    have : src1.length ≠ 0 := by cases src1 with | nil => exact absurd rfl hne | cons _ _ => simp
    have : p.2.length = 0 := by rw [hp]; rfl
    omega
  · -- a stop byte at the head: it is consumed
    have hp : (p.2.headD 0 == 10 || p.2.headD 0 == 124 || p.2.headD 0 == 34) = true := h
    cases hq : p.2 with
    | nil =>
      have : src1.length ≠ 0 := by cases src1 with | nil => exact absurd rfl hne | cons _ _ => simp
      have : p.2.length = 0 := by rw [hq]; rfl
      omega
    | cons x xs =>
      rw [hq] at hp h1
      simp only [List.headD_cons] at hp
      by_cases hx : x = 34
      · -- a comment: dropped up to the newline
        have e2 : s2 = (x :: xs).dropWhile (fun c => c != 10) := by
          show (if (p.2.headD 0 == 34) = true then p.2.dropWhile (fun c => c != 10) else p.2) = _
          rw [hq]; simp [hx]
        have : s2.length ≤ xs.length := by
          rw [e2, hx]
          simp only [List.dropWhile_cons]
          exact dropWhile_le _ _
        simp only [List.length_cons] at h1
        omega
      · have e2 : s2 = x :: xs := by
          show (if (p.2.headD 0 == 34) = true then p.2.dropWhile (fun c => c != 10) else p.2) = _
          rw [hq]; simp [hx]
        have hx2 : (x == 10 || x == 124) = true := by
          have : (x == 34) = false := by simp [hx]
          simpa [this] using hp
        have e3 : s3 = xs := by
          show (if (s2.headD 0 == 10 || s2.headD 0 == 124) = true then s2.drop 1 else s2) = _
          rw [e2]; simp only [List.headD_cons, hx2, if_true]; rfl
        simp only [List.length_cons] at h1
        rw [e3]; omega

theorem exArg_progress (s a : Bytes) : (exArg s a).2.length ≤ s.length ∧ (s ≠ [] → (exArg s a).2.length < s.length) := by
  unfold exArg
  simp only []
  have hd := dropWhile_le (fun c => c == 32 || c == 9) s
  generalize s.dropWhile (fun c => c == 32 || c == 9) = src at hd
  generalize (if (a.headD 0 != 0) = true then a.getD 1 0 else 0) = c1
  generalize hfirst : (if (a.headD 0 == 33 || a.headD 0 == 103 || a.headD 0 == 118 ||
      (a.headD 0 == 114 || a.headD 0 == 119) && c1 == 0 &&
        src.headD 0 == 33) = true then copyUntil (fun c => c == 10) (src.length + 1) src []
    else if (a.headD 0 == 115 && c1 != 101 || a.headD 0 == 38 ||
        a.headD 0 == 126) = true then
      if (src.headD 0 != 0 && src.headD 0 != 10 && src.headD 0 != 124 && src.headD 0 != 92 && src.headD 0 != 34 &&
          !src.isEmpty) = true then exArg.sub (src.headD 0) (src.length + 1) (List.drop 1 src) [src.headD 0] 2
      else ([], src)
    else ([], src)) = first
  obtain ⟨dst, src1⟩ := first
  -- the first phase consumes a prefix; if it produced the odd value `[0,0,0,0]` it consumed something
  have hph : src1.length ≤ src.length ∧ (dst = [0, 0, 0, 0] → src1.length < src.length) := by
    split at hfirst
    · have h1 := copyUntil_le (fun c => c == 10) (src.length + 1) src []
      rw [hfirst] at h1
      refine ⟨h1, fun hdst => ?_⟩
      rcases copyUntil_acc (fun c => c == 10) (src.length + 1) src [] with h | h
      · rw [hfirst] at h; cases h; cases hdst
      · rw [hfirst] at h; exact h
    · split at hfirst
      · split at hfirst
        · rename_i hc
          have h1 := sub_le (src.headD 0) (src.length + 1) (List.drop 1 src) [src.headD 0] 2
          rw [hfirst] at h1
          have hne : src ≠ [] := by
            intro h0; subst h0; simp at hc
          have : (List.drop 1 src).length < src.length := by
            cases src with
            | nil => exact absurd rfl hne
            | cons x xs => simp
          simp only [] at h1
          exact ⟨by omega, fun _ => by omega⟩
        · cases hfirst; exact ⟨Nat.le_refl _, fun h => by cases h⟩
      · cases hfirst; exact ⟨Nat.le_refl _, fun h => by cases h⟩
  simp only []
  split
  · rename_i hq
    have hq' : dst = [0, 0, 0, 0] := by simpa using hq
    have := hph.2 hq'
    simp only []
    exact ⟨by omega, fun _ => by omega⟩
  · have ht := exArg_tail src1
    simp only [] at ht
    generalize copyUntil (fun c => c == 10 || c == 124 || c == 34) (src1.length + 1) src1 [] = p at ht
    obtain ⟨d2, s2⟩ := p
    simp only [] at ht ⊢
    refine ⟨by omega, fun hne => ?_⟩
    by_cases h1 : src1 = []
    · subst h1
      have : s.length ≠ 0 := by cases s with | nil => exact absurd rfl hne | cons _ _ => simp
      have := ht.1
      simp only [List.length_nil] at this
      omega
    · have := ht.2 h1
      omega

/-! ### `ex_txt` -/

theorem cut_le : ∀ (f : Nat) (s acc : Bytes), (exTxt.cut f s acc).2.length ≤ s.length := by
  intro f
  induction f with
  | zero => intro s acc; rw [exTxt.cut]; exact Nat.le_refl _
  | succ f ih =>
    intro s acc
    cases s with
    | nil => rw [exTxt.cut]; exact Nat.le_refl _
    | cons c s =>
      rw [exTxt.cut]
      split
      · exact Nat.le_refl _
      · have := ih s (acc ++ [c])
        simp only [List.length_cons]; omega

theorem exTxt_le (ed : Ed) (src a : Bytes) : (exTxt ed src a).1.2.length ≤ src.length := by
  unfold exTxt
  simp only []
  generalize (if (a.headD 0 != 0) = true then a.getD 1 0 else 0) = c1
  split
  · have hc := cut_le (src.length + 1) src []
    generalize exTxt.cut (src.length + 1) src [] = q at hc
    obtain ⟨body, rest⟩ := q
    show (if rest.isEmpty = true then [] else List.drop 3 rest).length ≤ src.length
    split
    · exact Nat.zero_le _
    · have := (List.drop_suffix 3 rest).length_le
      simp only [] at hc
      omega
  · split
    · exact Nat.le_refl _
    · exact Nat.le_refl _

/-! ### one iteration -/

/-- what is left of the line after one command (it does not depend on the state) -/
def restOf (ln : Bytes) : Bytes := (exTxt {} (parse1 ln).rest (abbrOf (parse1 ln).idx)).1.2

theorem exTxt_rest_indep (ed ed' : Ed) (src ex : Bytes) : (exTxt ed src ex).1.2 = (exTxt ed' src ex).1.2 := by
  unfold exTxt
  simp only []
  repeat' split
  all_goals rfl

/-- **progress**: every iteration of the loop of `ex_exec` shortens a non-empty line -/
theorem restOf_lt (ln : Bytes) (h : ln ≠ []) : (restOf ln).length < ln.length := by
  have h1 := exLoc_le ln
  have h2 := exCmd_le (exLoc ln).2
  have h3 := exArg_progress (exCmd (exLoc ln).2).2 (abbrOf (exIdx (exCmd (exLoc ln).2).1))
  have h4 := exTxt_le {} (exArg (exCmd (exLoc ln).2).2 (abbrOf (exIdx (exCmd (exLoc ln).2).1))).2
    (abbrOf (exIdx (exCmd (exLoc ln).2).1))
  show (exTxt {} (exArg (exCmd (exLoc ln).2).2 (abbrOf (exIdx (exCmd (exLoc ln).2).1))).2
    (abbrOf (exIdx (exCmd (exLoc ln).2).1))).1.2.length < ln.length
  have hl : ln.length ≠ 0 := by cases ln with | nil => exact absurd rfl h | cons _ _ => simp
  by_cases h0 : (exCmd (exLoc ln).2).2 = []
  · have := h3.1
    have hc : (exCmd (exLoc ln).2).2.length = 0 := by rw [h0]; rfl
    omega
  · have := h3.2 h0
    omega

theorem runOne_rest (f : Nat) (ed : Ed) (ln : Bytes) (ret : Int) (x : Int × Ed) (rest : Bytes)
    (h : runOne f ed (parse1 ln) ret = some (x, rest)) : rest = restOf ln := by
  have ht := exTxt_rest_indep ed {} (parse1 ln).rest (abbrOf (parse1 ln).idx)
  unfold runOne at h
  unfold restOf
  split at h
  · cases h; exact ht
  · split at h
    · cases h
    · cases h; exact ht

/-- **the fuel of the loop is irrelevant** once it covers the length of the line -/
theorem cmds_fuel (f : Nat) : ∀ (n : Nat) (ln : Bytes), ln.length ≤ n → ∀ (g g' : Nat) (ed : Ed) (ret : Int),
    ln.length ≤ g → ln.length ≤ g' → exExec.cmds f g ed ln ret = exExec.cmds f g' ed ln ret := by
  intro n
  induction n with
  | zero =>
    intro ln hn g g' ed ret _ _
    have : ln = [] := by cases ln with | nil => rfl | cons _ _ => simp at hn
    subst this
    rw [cmds_nil, cmds_nil]
  | succ n ih =>
    intro ln hn g g' ed ret hg hg'
    by_cases hne : ln = []
    · subst hne; rw [cmds_nil, cmds_nil]
    · have hl : ln.length ≠ 0 := by cases ln with | nil => exact absurd rfl hne | cons _ _ => simp
      obtain ⟨g, rfl⟩ : ∃ k, g = k + 1 := ⟨g - 1, by omega⟩
      obtain ⟨g', rfl⟩ : ∃ k, g' = k + 1 := ⟨g' - 1, by omega⟩
      have hemp : ln.isEmpty = false := by cases ln with | nil => exact absurd rfl hne | cons _ _ => rfl
      rw [cmds_succ, cmds_succ, hemp]
      simp only [Bool.false_eq_true, if_false]
      cases hr : runOne f ed (parse1 ln) ret with
      | none => rfl
      | some y =>
        obtain ⟨⟨r, ed1⟩, rest⟩ := y
        have hrest := runOne_rest f ed ln ret (r, ed1) rest hr
        have hlt := restOf_lt ln hne
        rw [← hrest] at hlt
        simp only []
        exact ih rest (by omega) g g' ed1 r (by omega) (by omega)

end Neatvi.Lemmas.C06b
