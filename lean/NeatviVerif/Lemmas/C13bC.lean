import NeatviVerif.Lemmas.C13bB
import NeatviVerif.Lemmas.C11VM
/-!
# C13b, part C: the backtracking VM on a suffix of the line

The program of a `ContextFree` pattern contains no `\<` / `\>` instruction.  For such a program the
run of the VM (`re_rec`) at position `pos` of the rest `line.drop k` under `REG_NOTBOL` is, step by
step, its run at position `pos + k` of the whole line: same outcome, same cut counter, end position
and marks shifted by `k` (`loop_shift`).  No hypothesis on depth cuts is needed, so this is stronger
than what follows from `results_shift` through the soundness/completeness theorems of C10.

`regexecFrom` is `regexec` on the whole line with its start-position loop entered at byte `k`: the
first match of the whole line that starts at `k` or later (`regexecFrom _ _ 0 = regexec`).
-/
namespace Neatvi.Lemmas.C13b
open Neatvi Neatvi.Regex Neatvi.Spec.RegexSem Neatvi.Props.C11

/-- every atom of the tree satisfies `P` -/
def TreeAtoms (P : Atom → Prop) : RNode → Prop
  | .nul => True
  | .atom a _ _ => P a
  | .cat a b => TreeAtoms P a ∧ TreeAtoms P b
  | .alt a b => TreeAtoms P a ∧ TreeAtoms P b
  | .grp a _ _ _ => TreeAtoms P a

/-- every atom instruction of the code satisfies `P` -/
def CodeAtoms (P : Atom → Prop) (code : List Inst) : Prop := ∀ a, Inst.atom a ∈ code → P a

/-- what `atomMatch_shift` asks of an atom -/
def AtomOk (line : Bytes) (k : Nat) (a : Atom) : Prop :=
  CFAtom a = true ∧ (a.k = AK.beg → NlFree line k)

theorem treeAtoms_of_cf (line : Bytes) (k : Nat) : ∀ (t : RNode), ContextFree t = true → BegOk t line k →
    TreeAtoms (AtomOk line k) t := by
  intro t
  induction t with
  | nul => intro _ _; trivial
  | atom a mn mx =>
    intro hcf hb
    refine ⟨hcf, fun ha => ?_⟩
    rcases hb with hb | hb
    · simp [NoBeg, ha] at hb
    · exact hb
  | cat a b iha ihb =>
    intro hcf hb
    simp only [ContextFree, Bool.and_eq_true] at hcf
    rcases hb with hb | hb
    · simp only [NoBeg, Bool.and_eq_true] at hb
      exact ⟨iha hcf.1 (Or.inl hb.1), ihb hcf.2 (Or.inl hb.2)⟩
    · exact ⟨iha hcf.1 (Or.inr hb), ihb hcf.2 (Or.inr hb)⟩
  | alt a b iha ihb =>
    intro hcf hb
    simp only [ContextFree, Bool.and_eq_true] at hcf
    rcases hb with hb | hb
    · simp only [NoBeg, Bool.and_eq_true] at hb
      exact ⟨iha hcf.1 (Or.inl hb.1), ihb hcf.2 (Or.inl hb.2)⟩
    · exact ⟨iha hcf.1 (Or.inr hb), ihb hcf.2 (Or.inr hb)⟩
  | grp a g mn mx iha =>
    intro hcf hb
    rcases hb with hb | hb
    · exact iha hcf (Or.inl hb)
    · exact iha hcf (Or.inr hb)

theorem treeAtoms_grpnum (P : Atom → Prop) : ∀ (t : RNode) (n : Nat), TreeAtoms P t → TreeAtoms P (grpnum t n).1 := by
  intro t
  induction t with
  | nul => intro n h; trivial
  | atom a mn mx => intro n h; exact h
  | cat a b iha ihb => intro n h; exact ⟨iha _ h.1, ihb _ h.2⟩
  | alt a b iha ihb => intro n h; exact ⟨iha _ h.1, ihb _ h.2⟩
  | grp a g mn mx iha => intro n h; exact iha _ h

theorem cf_grpnum : ∀ (t : RNode) (n : Nat), ContextFree (grpnum t n).1 = ContextFree t := by
  intro t
  induction t with
  | nul => intro n; rfl
  | atom a mn mx => intro n; rfl
  | cat a b iha ihb => intro n; simp only [grpnum, ContextFree, iha, ihb]
  | alt a b iha ihb => intro n; simp only [grpnum, ContextFree, iha, ihb]
  | grp a g mn mx iha => intro n; simp only [grpnum, ContextFree, iha]

theorem noBeg_grpnum : ∀ (t : RNode) (n : Nat), NoBeg (grpnum t n).1 = NoBeg t := by
  intro t
  induction t with
  | nul => intro n; rfl
  | atom a mn mx => intro n; rfl
  | cat a b iha ihb => intro n; simp only [grpnum, NoBeg, iha, ihb]
  | alt a b iha ihb => intro n; simp only [grpnum, NoBeg, iha, ihb]
  | grp a g mn mx iha => intro n; simp only [grpnum, NoBeg, iha]

/-! ### the emitted code has the atoms of the tree -/

theorem codeAtoms_append {P : Atom → Prop} {c1 c2 : List Inst} (h1 : CodeAtoms P c1) (h2 : CodeAtoms P c2) :
    CodeAtoms P (c1 ++ c2) := by
  intro a ha
  rcases List.mem_append.mp ha with ha | ha
  · exact h1 a ha
  · exact h2 a ha

theorem codeAtoms_nil (P : Atom → Prop) : CodeAtoms P [] := by intro a ha; cases ha

theorem codeAtoms_fork (P : Atom → Prop) (x y : Nat) : CodeAtoms P [Inst.fork x y] := by
  intro a ha; simp at ha

theorem codeAtoms_jump (P : Atom → Prop) (x : Nat) : CodeAtoms P [Inst.jump x] := by
  intro a ha; simp at ha

theorem codeAtoms_mark (P : Atom → Prop) (x : Nat) : CodeAtoms P [Inst.mark x] := by
  intro a ha; simp at ha

theorem codeAtoms_copies {P : Atom → Prop} {body : Nat → List Inst} (hb : ∀ b, CodeAtoms P (body b)) (bl : Nat) :
    ∀ n base, CodeAtoms P (emitCopies body bl n base) := by
  intro n
  induction n with
  | zero => intro base; exact codeAtoms_nil P
  | succ n ih => intro base; exact codeAtoms_append (hb _) (ih _)

theorem codeAtoms_opts {P : Atom → Prop} {body : Nat → List Inst} (hb : ∀ b, CodeAtoms P (body b)) (bl endA : Nat) :
    ∀ n base, CodeAtoms P (emitOpts body bl endA n base) := by
  intro n
  induction n with
  | zero => intro base; exact codeAtoms_nil P
  | succ n ih =>
    intro base
    exact codeAtoms_append (codeAtoms_append (codeAtoms_fork P _ _) (hb _)) (ih _)

theorem codeAtoms_rep {P : Atom → Prop} {body : Nat → List Inst} (hb : ∀ b, CodeAtoms P (body b)) (bl : Nat)
    (mn mx : Int) (base : Nat) : CodeAtoms P (emitRep body bl mn mx base) := by
  unfold emitRep
  split
  · exact codeAtoms_nil P
  · split
    · exact hb _
    · simp only []
      refine codeAtoms_append (codeAtoms_append (codeAtoms_append ?_ (codeAtoms_copies hb bl _ _)) ?_)
        (codeAtoms_opts hb bl _ _ _)
      · split
        · exact codeAtoms_fork P _ _
        · exact codeAtoms_nil P
      · split
        · exact codeAtoms_fork P _ _
        · exact codeAtoms_nil P

theorem codeAtoms_emit (P : Atom → Prop) : ∀ (t : RNode), TreeAtoms P t → ∀ base, CodeAtoms P (emit t base) := by
  intro t
  induction t with
  | nul => intro _ base; exact codeAtoms_nil P
  | atom a mn mx =>
    intro h base
    simp only [emit]
    apply codeAtoms_rep
    intro b x hx
    simp at hx; subst hx; exact h
  | cat a b iha ihb =>
    intro h base
    simp only [emit]
    exact codeAtoms_append (iha h.1 _) (ihb h.2 _)
  | alt a b iha ihb =>
    intro h base
    simp only [emit]
    exact codeAtoms_append (codeAtoms_append (codeAtoms_append (codeAtoms_fork P _ _) (iha h.1 _))
      (codeAtoms_jump P _)) (ihb h.2 _)
  | grp a g mn mx iha =>
    intro h base
    simp only [emit]
    apply codeAtoms_rep
    intro b
    exact codeAtoms_append (codeAtoms_append (codeAtoms_mark P _) (iha h _)) (codeAtoms_mark P _)

/-- the program `regcomp` builds for a pattern whose tree has only atoms with `P` -/
theorem codeAtoms_regcomp {P : Atom → Prop} {pat : Bytes} {flg : Nat} {prog : Prog}
    (hc : regcomp pat flg = some (some prog)) (ht : ∀ t, parse pat = some (some t) → TreeAtoms P t) :
    CodeAtoms P prog.code := by
  unfold regcomp at hc
  split at hc
  · cases hc
  · cases hc
  · rename_i t hparse
    split at hc
    · cases hc
    · injection hc with hc; injection hc with hc
      rw [← hc]
      simp only []
      refine codeAtoms_append (codeAtoms_append (codeAtoms_mark P _) ?_) ?_
      · exact codeAtoms_emit P _ (treeAtoms_grpnum P t 1 (ht t hparse)) 1
      · intro a ha; simp at ha

/-! ### the VM -/

/-- the outcome of a VM run on the rest, read on the whole line -/
def shiftRes (k : Nat) : Res → Res
  | Res.ok p m c => Res.ok (p + k) (shiftM k m) c
  | Res.fail c => Res.fail c
  | Res.trap => Res.trap

section vm
variable (prog : List Inst) (line : Bytes) (k fw fs nd ngrps : Nat)

/-- the run on the whole line -/
abbrev cxW : Ctx := ⟨prog, line, fw, nd, ngrps⟩
/-- the run on the rest of the line from byte `k` -/
abbrev cxS : Ctx := ⟨prog, line.drop k, fs, nd, ngrps⟩

theorem shiftM_set (m : Marks) (j pos : Nat) :
    (shiftM k m).set j ((pos + k : Nat) : Int) = shiftM k (m.set j (pos : Int)) := by
  have := shiftM_setMark k m j pos
  unfold setMark at this
  exact this.symm

/-- **loop_shift**: the VM on the rest of the line is the VM on the whole line, shifted -/
theorem loop_shift (hk : k ≤ line.length) (hk0 : 0 < k) (hfl : FlagsRest fw fs)
    (hprog : CodeAtoms (AtomOk line k) prog) :
    ∀ dep pc pos m cuts, loop (cxW prog line fw nd ngrps) dep pc (pos + k) (shiftM k m) cuts =
      shiftRes k (loop (cxS prog line k fs nd ngrps) dep pc pos m cuts) := by
  apply loop_induction (cxW prog line fw nd ngrps) (fun dep pc => ∀ pos m cuts,
    loop (cxW prog line fw nd ngrps) dep pc (pos + k) (shiftM k m) cuts =
      shiftRes k (loop (cxS prog line k fs nd ngrps) dep pc pos m cuts))
  intro dep pc ihd ihp pos m cuts
  cases hi : prog[pc]? with
  | none =>
    rw [loop_none (cxW prog line fw nd ngrps) hi, loop_none (cxS prog line k fs nd ngrps) hi]; rfl
  | some inst =>
    have hpc : pc < prog.length := (List.getElem?_eq_some_iff.mp hi).1
    cases inst with
    | atom a =>
      rw [loop_atom (cxW prog line fw nd ngrps) hi, loop_atom (cxS prog line k fs nd ngrps) hi]
      have ha := hprog a (List.mem_of_getElem? hi)
      show (match atomMatch a line fw (pos + k) with
        | AR.fail => Res.fail cuts
        | AR.trap => Res.trap
        | AR.ok pos' => loop (cxW prog line fw nd ngrps) dep (pc + 1) pos' (shiftM k m) cuts) =
        shiftRes k (match atomMatch a (line.drop k) fs pos with
        | AR.fail => Res.fail cuts
        | AR.trap => Res.trap
        | AR.ok pos' => loop (cxS prog line k fs nd ngrps) dep (pc + 1) pos' m cuts)
      rw [atomMatch_shift a line k fw fs pos ha.1 hk hk0 hfl ha.2]
      cases atomMatch a (line.drop k) fs pos with
      | fail => rfl
      | trap => rfl
      | ok j => exact ihp (pc + 1) (by omega) hpc j m cuts
    | mark j =>
      rw [loop_mark (cxW prog line fw nd ngrps) hi, loop_mark (cxS prog line k fs nd ngrps) hi]
      show loop (cxW prog line fw nd ngrps) dep (pc + 1) (pos + k)
          (if j < ngrps then (shiftM k m).set j ((pos + k : Nat) : Int) else shiftM k m) cuts =
        shiftRes k (loop (cxS prog line k fs nd ngrps) dep (pc + 1) pos
          (if j < ngrps then m.set j (pos : Int) else m) cuts)
      by_cases hj : j < ngrps
      · rw [if_pos hj, if_pos hj, shiftM_set]
        exact ihp (pc + 1) (by omega) hpc pos _ cuts
      · rw [if_neg hj, if_neg hj]
        exact ihp (pc + 1) (by omega) hpc pos _ cuts
    | jump a =>
      rw [loop_jump (cxW prog line fw nd ngrps) hi, loop_jump (cxS prog line k fs nd ngrps) hi]
      by_cases ha : a > pc
      · rw [if_pos ha, if_pos ha]; exact ihp a ha hpc pos m cuts
      · rw [if_neg ha, if_neg ha]; rfl
    | fork a1 a2 =>
      rw [loop_fork (cxW prog line fw nd ngrps) hi, loop_fork (cxS prog line k fs nd ngrps) hi,
        act_eq (cxW prog line fw nd ngrps), act_eq (cxS prog line k fs nd ngrps)]
      show (match (if dep ≥ nd then Res.fail (cuts + 1) else
              loop (cxW prog line fw nd ngrps) (dep + 1) a1 (pos + k) (shiftM k m) cuts) with
        | Res.ok p' m' c' => Res.ok p' m' c'
        | Res.trap => Res.trap
        | Res.fail c' => if a2 > pc then loop (cxW prog line fw nd ngrps) dep a2 (pos + k) (shiftM k m) c' else Res.trap) =
        shiftRes k (match (if dep ≥ nd then Res.fail (cuts + 1) else
              loop (cxS prog line k fs nd ngrps) (dep + 1) a1 pos m cuts) with
        | Res.ok p' m' c' => Res.ok p' m' c'
        | Res.trap => Res.trap
        | Res.fail c' => if a2 > pc then loop (cxS prog line k fs nd ngrps) dep a2 pos m c' else Res.trap)
      by_cases hd : dep ≥ nd
      · rw [if_pos hd, if_pos hd]
        simp only []
        by_cases ha : a2 > pc
        · rw [if_pos ha, if_pos ha]; exact ihp a2 ha hpc pos m _
        · rw [if_neg ha, if_neg ha]; rfl
      · rw [if_neg hd, if_neg hd, ihd a1 (by show dep < nd; omega) pos m cuts]
        cases loop (cxS prog line k fs nd ngrps) (dep + 1) a1 pos m cuts with
        | ok p' m' c' => rfl
        | trap => rfl
        | fail c' =>
          simp only [shiftRes]
          by_cases ha : a2 > pc
          · rw [if_pos ha, if_pos ha]; exact ihp a2 ha hpc pos m _
          · rw [if_neg ha, if_neg ha]
    | mtch =>
      rw [loop_mtch (cxW prog line fw nd ngrps) hi, loop_mtch (cxS prog line k fs nd ngrps) hi]; rfl

theorem recmatch_shift (hk : k ≤ line.length) (hk0 : 0 < k) (hfl : FlagsRest fw fs)
    (hprog : CodeAtoms (AtomOk line k) prog) (start cuts : Nat) :
    recmatch (cxW prog line fw nd ngrps) (start + k) cuts =
      shiftRes k (recmatch (cxS prog line k fs nd ngrps) start cuts) := by
  unfold recmatch
  rw [act_eq (cxW prog line fw nd ngrps), act_eq (cxS prog line k fs nd ngrps)]
  show (if 0 ≥ nd then Res.fail (cuts + 1) else
      loop (cxW prog line fw nd ngrps) (0 + 1) 0 (start + k) (List.replicate (2 * ngrps) (-1)) cuts) =
    shiftRes k (if 0 ≥ nd then Res.fail (cuts + 1) else
      loop (cxS prog line k fs nd ngrps) (0 + 1) 0 start (List.replicate (2 * ngrps) (-1)) cuts)
  split
  · rfl
  · have := loop_shift prog line k fw fs nd ngrps hk hk0 hfl hprog (0 + 1) 0 start
      (List.replicate (2 * ngrps) (-1)) cuts
    rw [shiftM_replicate] at this
    exact this

/-- the outcome of the start-position loop on the rest, read on the whole line -/
def shiftExec (k : Nat) : ExecRes → ExecRes
  | ExecRes.found m c => ExecRes.found (shiftM k m) c
  | ExecRes.nomatch c => ExecRes.nomatch c
  | ExecRes.trap => ExecRes.trap

/-- **execLoop_shift**: the start-position loop of `regexec` on the rest is the loop on the whole
    line entered at byte `k` -/
theorem execLoop_shift (hk : k ≤ line.length) (hk0 : 0 < k) (hfl : FlagsRest fw fs)
    (hprog : CodeAtoms (AtomOk line k) prog) : ∀ (f start cuts : Nat),
    execLoop (cxW prog line fw nd ngrps) f (start + k) cuts =
      shiftExec k (execLoop (cxS prog line k fs nd ngrps) f start cuts) := by
  intro f
  induction f with
  | zero => intro start cuts; rfl
  | succ f ih =>
    intro start cuts
    rw [execLoop, execLoop]
    show (match rdb line (start + k) with
      | none => ExecRes.trap
      | some b =>
        match recmatch (cxW prog line fw nd ngrps) (start + k) cuts with
        | Res.ok _ m c => ExecRes.found m c
        | Res.trap => ExecRes.trap
        | Res.fail c => if b == 0 then ExecRes.nomatch c else
            execLoop (cxW prog line fw nd ngrps) f (start + k + rxLen line (start + k)) c) =
      shiftExec k (match rdb (line.drop k) start with
      | none => ExecRes.trap
      | some b =>
        match recmatch (cxS prog line k fs nd ngrps) start cuts with
        | Res.ok _ m c => ExecRes.found m c
        | Res.trap => ExecRes.trap
        | Res.fail c => if b == 0 then ExecRes.nomatch c else
            execLoop (cxS prog line k fs nd ngrps) f (start + rxLen (line.drop k) start) c)
    rw [rdb_drop line k start hk, rxLen_drop, recmatch_shift prog line k fw fs nd ngrps hk hk0 hfl hprog]
    cases rdb line (start + k) with
    | none => rfl
    | some b =>
      simp only []
      cases recmatch (cxS prog line k fs nd ngrps) start cuts with
      | ok p m c => rfl
      | trap => rfl
      | fail c =>
        simp only [shiftRes]
        split
        · rfl
        · rw [show start + k + rxLen line (start + k) = (start + rxLen line (start + k)) + k by omega]
          exact ih _ _

end vm

/-! ### the budget of the start-position loop -/

theorem ucLen_pos {c : Nat} (h : c ≠ 0) : 1 ≤ Uc.ucLen c := by
  unfold Uc.ucLen
  split
  · rw [if_pos (by omega)]; omega
  · split
    · omega
    · split
      · omega
      · split <;> omega

theorem execLoop_fuel (cx : Ctx) : ∀ (f f' start cuts : Nat), cx.subj.length + 1 - start < f →
    cx.subj.length + 1 - start < f' → execLoop cx f start cuts = execLoop cx f' start cuts := by
  intro f
  induction f with
  | zero => intro f' start cuts h; omega
  | succ f ih =>
    intro f' start cuts h1 h2
    cases f' with
    | zero => omega
    | succ f' =>
      rw [execLoop, execLoop]
      cases hr : rdb cx.subj start with
      | none => rfl
      | some b =>
        simp only []
        cases recmatch cx start cuts with
        | ok p m c => rfl
        | trap => rfl
        | fail c =>
          simp only []
          by_cases hb : b = 0
          · simp [hb]
          · have hb' : (b == 0) = false := by simpa using hb
            rw [hb']
            simp only [Bool.false_eq_true, if_false]
            -- `b ≠ 0`: the position is inside the subject and the step is at least one byte
            have hlt : start < cx.subj.length := by
              unfold rdb at hr
              split at hr
              · assumption
              · split at hr
                · injection hr with hr; exact absurd hr.symm hb
                · cases hr
            have hget : cx.subj.getD start 0 = b := by
              unfold rdb at hr
              rw [if_pos hlt] at hr
              rw [List.getD_eq_getElem?_getD, hr]; rfl
            have hstep : 1 ≤ rxLen cx.subj start := by
              unfold rxLen
              rw [hget]
              have := ucLen_pos hb
              omega
            exact ih f' _ c (by omega) (by omega)

end Neatvi.Lemmas.C13b
