import NeatviVerif.Lemmas.C19cOff
import NeatviVerif.Lemmas.C19cAscii
/-!
# C19c lemmas, part 3: the emission loop of `led_render` on a line of printable ASCII
-/
namespace Neatvi.Lemmas.C19c
open Neatvi Neatvi.Uc Neatvi.Ren Neatvi.Render

/-- what a byte of the line shows as: the newline as a blank -/
def disp (b : Nat) : Nat := if b = 10 then 32 else b

/-! ### the last occupied column -/

theorem clast_fold (off : List (Option Nat)) (cbeg : Int) (m : Nat)
    (hoff : ∀ k, (off.getD k none).isSome = decide (k < m)) (j : Nat) :
    (List.range j).foldl (fun (cl : Int) k => if (off.getD k none).isSome then cbeg + k else cl) 0 =
      if min j m = 0 then 0 else cbeg + ((min j m : Nat) : Int) - 1 := by
  induction j with
  | zero => simp
  | succ j ih =>
    rw [List.range_succ, List.foldl_append, ih]
    simp only [List.foldl_cons, List.foldl_nil, hoff j, decide_eq_true_eq]
    by_cases hj : j < m
    · rw [if_pos hj]
      have : min (j + 1) m = j + 1 := by omega
      rw [this, if_neg (by omega)]
      omega
    · rw [if_neg hj]
      have : min (j + 1) m = min j m := by omega
      rw [this]

/-! ### the span of a one-cell character -/

theorem span_one (p : Nat → Bool) (h0 : p 0 = true) (h1 : p 1 = false) (N : Nat) (hN : 1 ≤ N) :
    ((List.range N).takeWhile p).length = 1 := by
  obtain ⟨n, rfl⟩ : ∃ n, N = n + 1 := ⟨N - 1, by omega⟩
  rw [List.range_succ_eq_map, List.takeWhile_cons, if_pos h0]
  cases n with
  | zero => rfl
  | succ n =>
    rw [List.range_succ_eq_map, List.map_cons, List.takeWhile_cons, if_neg (by simpa using h1)]
    rfl

/-! ### the loop -/

theorem emit_line (shape : Bool) (s0 : Bytes) (hs : LineBytes s0) (cbeg cend : Int) (c m : Nat)
    (off : List (Option Nat)) (clast : Int)
    (hc : cbeg = (c : Int))
    (hoff : ∀ k, off.getD k none = if k < m then some (c + k) else none)
    (hcl : ∀ k : Nat, cbeg + (k : Int) ≤ clast ↔ k < m)
    (hmW : cbeg + (m : Int) ≤ cend)
    (hmL : ∀ k, k < m → c + k < s0.length) :
    ∀ (fuel k : Nat) (acc : Bytes), m - k ≤ fuel →
      renderRow.emit shape cbeg cend (chrs s0) ((chrs s0).map (fun c => (ucCode c).getD 0)) off clast
          fuel (cbeg + (k : Int)) acc =
        acc ++ ((s0.map disp).drop (c + k)).take (m - k) := by
  have hlow : ∀ b ∈ s0, 0 < b ∧ b < 128 := fun b hb => lineByte_lt (hs b hb)
  intro fuel
  induction fuel with
  | zero =>
    intro k acc hk
    have : m - k = 0 := by omega
    rw [renderRow.emit, this, List.take_zero, List.append_nil]
  | succ f ih =>
    intro k acc hk
    rw [renderRow.emit]
    by_cases hkm : k < m
    · have hcond : (decide (cbeg + (k : Int) < cend) && decide (cbeg + (k : Int) ≤ clast)) = true := by
        simp only [Bool.and_eq_true, decide_eq_true_eq]
        exact ⟨by omega, (hcl k).mpr hkm⟩
      have htn : (cbeg + (k : Int) - cbeg).toNat = k := by omega
      rw [if_pos hcond, htn, hoff k, if_pos hkm]
      simp only []
      have hL := hmL k hkm
      have hb : lineByte (s0.getD (c + k) 0) = true := hs _ (getD_mem hL)
      have hf := lineByte_facts hb
      rw [translate_line shape s0 hs (c + k) hL]
      simp only []
      have hspan : ((List.range (cend - (cbeg + (k : Int))).toNat).takeWhile
          (fun d => off.getD (k + d) none == some (c + k))).length = 1 := by
        apply span_one
        · simp only [Nat.add_zero, hoff k, if_pos hkm]; simp
        · simp only [hoff (k + 1)]
          split
          · simp
          · simp
        · omega
      rw [hspan, chrs_low_getD s0 hlow (c + k) hL, hd_drop_getD, hf.2.2.2.2.1, hf.2.2.1]
      have hnext : cbeg + (k : Int) + ((max 1 1 : Nat) : Int) = cbeg + ((k + 1 : Nat) : Int) := by
        simp only [Nat.max_self]; omega
      rw [hnext, ih (k + 1) _ (by omega)]
      have hdrop : (s0.map disp).drop (c + k) = disp (s0.getD (c + k) 0) :: (s0.map disp).drop (c + (k + 1)) := by
        rw [List.drop_eq_getElem_cons (by simpa using hL)]
        congr 1
        rw [List.getElem_map, List.getD_eq_getElem?_getD, List.getElem?_eq_getElem hL]
        rfl
      have hmk : m - k = (m - (k + 1)) + 1 := by omega
      rw [hdrop, hmk, List.take_succ_cons, List.append_assoc]
      congr 1
      rw [List.drop_eq_getElem_cons hL]
      have hg : s0.getD (c + k) 0 = s0[c + k] := by
        rw [List.getD_eq_getElem?_getD, List.getElem?_eq_getElem hL]; rfl
      rw [hg]
      unfold disp
      by_cases h10 : s0[c + k] = 10
      · rw [h10]; rfl
      · have : (s0[c + k] != 10) = true := by simpa using h10
        rw [this, if_pos rfl, if_neg h10]
        rfl
    · have hcond : ¬ (decide (cbeg + (k : Int) < cend) && decide (cbeg + (k : Int) ≤ clast)) = true := by
        simp only [Bool.and_eq_true, decide_eq_true_eq]
        intro h
        exact hkm ((hcl k).mp h.2)
      have : m - k = 0 := by omega
      rw [if_neg hcond, this, List.take_zero, List.append_nil]

end Neatvi.Lemmas.C19c
