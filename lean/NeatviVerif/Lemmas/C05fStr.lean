import NeatviVerif.Model.Ex
/-!
# C05f: the decimal numbers the editor prints (`intStr`, the registers `#` and `^`) are ASCII without NUL
(the argument of `Lemmas/C16cStr.lean`, repeated here so that this module does not depend on the `:s` files)
-/
set_option linter.unusedSimpArgs false
set_option linter.unusedVariables false
namespace Neatvi.Lemmas.C05f
open Neatvi Neatvi.Ex

theorem ba_size (bs : ByteArray) : bs.size = bs.data.toList.length := by cases bs; rfl

theorem ba_get (a : Array UInt8) (i : Nat) (h : i < a.toList.length) : (ByteArray.mk a).get! i = a.toList[i] := by
  show a[i]! = _
  have h' : i < a.size := h
  rw [getElem!_pos a i h']
  rfl

theorem ba_loop (bs : ByteArray) : ∀ (n i : Nat) (r : List UInt8), bs.size - i = n →
    ByteArray.toList.loop bs i r = r.reverse ++ bs.data.toList.drop i := by
  intro n
  induction n with
  | zero =>
    intro i r h
    rw [ByteArray.toList.loop]
    have : ¬ i < bs.size := by omega
    rw [if_neg this]
    have : bs.data.toList.drop i = [] := by
      apply List.drop_eq_nil_of_le
      rw [← ba_size]; omega
    rw [this]; simp
  | succ n ih =>
    intro i r h
    rw [ByteArray.toList.loop]
    have hi : i < bs.size := by omega
    rw [if_pos hi, ih (i + 1) _ (by omega)]
    have hlt : i < bs.data.toList.length := by rw [← ba_size]; exact hi
    have hd : bs.data.toList.drop i = bs.get! i :: bs.data.toList.drop (i + 1) := by
      rw [List.drop_eq_getElem_cons hlt]
      congr 1
      cases bs with
      | mk a => exact (ba_get a i hlt).symm
    rw [hd]; simp

theorem ba_toList (bs : ByteArray) : bs.toList = bs.data.toList := by
  unfold ByteArray.toList
  rw [ba_loop bs _ 0 [] rfl]; simp

theorem strOf_ofList (l : List Char) : strOf (String.ofList l) = (l.flatMap String.utf8EncodeChar).map (·.toNat) := by
  unfold strOf
  rw [ba_toList]
  simp [List.utf8Encode]

theorem encChar_ascii (c : Char) (h0 : 0 < c.toNat) (h : c.toNat < 128) :
    (String.utf8EncodeChar c).map (·.toNat) = [c.toNat] := by
  have hs : c.utf8Size = 1 := Char.utf8Size_eq_one_iff.2 (by
    show c.val ≤ 127
    rw [UInt32.le_iff_toNat_le]
    have : c.val.toNat = c.toNat := rfl
    simp only [this]; show c.toNat ≤ 127; omega)
  rw [String.utf8EncodeChar_eq_singleton hs]
  simp only [List.map_cons, List.map_nil]
  congr 1
  show c.val.toUInt8.toNat = c.val.toNat
  rw [UInt32.toNat_toUInt8]
  have : c.val.toNat = c.toNat := rfl
  omega

theorem strOf_ascii (l : List Char) (h : ∀ c ∈ l, 0 < c.toNat ∧ c.toNat < 128) :
    ∀ b ∈ strOf (String.ofList l), 0 < b ∧ b < 128 := by
  rw [strOf_ofList]
  induction l with
  | nil => intro b hb; simp at hb
  | cons c l ih =>
    intro b hb
    rw [List.flatMap_cons, List.map_append, encChar_ascii c (h c (by simp)).1 (h c (by simp)).2] at hb
    rcases List.mem_append.mp hb with h1 | h1
    · simp at h1; subst h1; exact h c (by simp)
    · exact ih (fun x hx => h x (by simp [hx])) b h1

theorem digit_ascii (c : Char) (h : c.isDigit = true) : 0 < c.toNat ∧ c.toNat < 128 := by
  unfold Char.isDigit at h
  simp only [Bool.and_eq_true, decide_eq_true_eq] at h
  have h1 : 48 ≤ c.toNat := by have := h.1; rw [ge_iff_le, UInt32.le_iff_toNat_le] at this; exact this
  have h2 : c.toNat ≤ 57 := by have := h.2; rw [UInt32.le_iff_toNat_le] at this; exact this
  omega

theorem natRepr_ascii (n : Nat) : ∀ b ∈ strOf (Nat.repr n), 0 < b ∧ b < 128 := by
  unfold Nat.repr
  apply strOf_ascii
  intro c hc
  exact digit_ascii c (Nat.isDigit_of_mem_toDigits (by decide) (by decide) hc)

theorem intStr_ascii (n : Int) : ∀ b ∈ intStr n, 0 < b ∧ b < 128 := by
  unfold intStr
  show ∀ b ∈ strOf (Int.repr n), _
  unfold Int.repr
  cases n with
  | ofNat m => exact natRepr_ascii m
  | negSucc m =>
    dsimp only
    have : "-" ++ Nat.repr m.succ = String.ofList ('-' :: Nat.toDigits 10 m.succ) := by
      unfold Nat.repr
      rw [show "-" = String.ofList ['-'] from rfl, ← String.ofList_append]
      rfl
    rw [this]
    apply strOf_ascii
    intro c hc
    rcases List.mem_cons.mp hc with rfl | h1
    · decide
    · exact digit_ascii c (Nat.isDigit_of_mem_toDigits (by decide) (by decide) h1)

end Neatvi.Lemmas.C05f
