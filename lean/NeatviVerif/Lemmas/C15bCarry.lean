import NeatviVerif.Lemmas.C15bBits
/-!
# C15b lemmas, part 3: the marks travel with their lines — slot maps

`lbuf_replace` moves `ln_glob[]` with `ln[]` (`Props/C15.glob_bits_travel`).  To say the same about a whole command
list — any number of edits, undo, redo, nested `:g` — the origin of every slot of the table is recorded in a *slot
map*: for a slot `j` of the table afterwards, `sm j` is

* `none`: the slot holds a line that was inserted (it carries no mark of the depths in question);
* `some (i, true)`: the slot is slot `i` of the table before, with the same text;
* `some (i, false)`: the slot is slot `i` of the table before, its text was replaced in place (`:s`, the first lines of
  `:c`): `lbuf_replace` keeps the marks of the first `min(n_ins, n_del)` replaced slots.

`CarryW S lb lb' sm`: `sm` is strictly increasing on its domain (lines keep their order), stays inside the old table,
and bit `k` of `ln_glob[j]` afterwards is bit `k` of `ln_glob[i]` before, for every depth `k` in `S`.  Slots of the old
table outside the range of `sm` are the deleted lines.
-/
namespace Neatvi.Lemmas.C15b
open Neatvi Neatvi.Lbuf Neatvi.Props.C15 Neatvi.Lemmas.ExFrame Neatvi.Lemmas.Hist

/-- where the slots of a table come from -/
abbrev Slots := Nat → Option (Nat × Bool)

/-- the marks of the depths in `S` travel along `sm` from `lb` to `lb'` -/
structure CarryW (S : Nat → Prop) (lb lb' : Lb) (sm : Slots) : Prop where
  len : GlobLen lb
  len' : GlobLen lb'
  dom : ∀ j, lb'.lines.length ≤ j → sm j = none
  rng : ∀ j p, sm j = some p → p.1 < lb.lines.length
  mono : ∀ j j' p p', j < j' → sm j = some p → sm j' = some p' → p.1 < p'.1
  bits : ∀ j k, S k → (lb'.glob.getD j 0).testBit k =
    match sm j with | some p => (lb.glob.getD p.1 0).testBit k | none => false
  text : ∀ j i, sm j = some (i, true) → lb'.lines[j]? = lb.lines[i]?

/-- the marks of the depths in `S` travel with their lines from `lb` to `lb'` -/
def Carry (S : Nat → Prop) (lb lb' : Lb) : Prop := ∃ sm, CarryW S lb lb' sm

/-- the identity on a table of `n` slots -/
def idSlots (n : Nat) : Slots := fun j => if j < n then some (j, true) else none

/-- composition: first `sm1` (from `a` to `b`), then `sm2` (from `b` to `c`) -/
def compSlots (sm1 sm2 : Slots) : Slots := fun j =>
  match sm2 j with
  | none => none
  | some p => match sm1 p.1 with
    | none => none
    | some q => some (q.1, q.2 && p.2)

theorem getD_of_le {l : List Nat} {j : Nat} (h : l.length ≤ j) : l.getD j 0 = 0 := by
  rw [List.getD_eq_getElem?_getD, List.getElem?_eq_none h]; rfl

/-- a step that keeps the lines, the length of the table of marks and the bits in `S` -/
theorem CarryW.of_bits {S : Nat → Prop} {lb lb' : Lb} (hg : GlobLen lb) (hl : lb'.lines = lb.lines)
    (hn : lb'.glob.length = lb.glob.length)
    (hb : ∀ j k, S k → (lb'.glob.getD j 0).testBit k = (lb.glob.getD j 0).testBit k) :
    CarryW S lb lb' (idSlots lb.lines.length) where
  len := hg
  len' := by unfold GlobLen at *; rw [hn, hl, hg]
  dom := by
    intro j hj
    rw [hl] at hj
    unfold idSlots; rw [if_neg (by omega)]
  rng := by
    intro j p h
    unfold idSlots at h
    split at h
    · cases h; assumption
    · cases h
  mono := by
    intro j j' p p' hjj h h'
    unfold idSlots at h h'
    split at h
    · split at h'
      · cases h; cases h'; exact hjj
      · cases h'
    · cases h
  bits := by
    intro j k hk
    rw [hb j k hk]
    unfold GlobLen at hg
    by_cases hj : j < lb.lines.length
    · simp only [idSlots, if_pos hj]
    · simp only [idSlots, if_neg hj]
      rw [getD_of_le (by omega)]
      simp
  text := by
    intro j i h
    unfold idSlots at h
    split at h
    · cases h; rw [hl]
    · cases h

theorem CarryW.refl {S : Nat → Prop} {lb : Lb} (hg : GlobLen lb) : CarryW S lb lb (idSlots lb.lines.length) :=
  CarryW.of_bits hg rfl rfl (fun _ _ _ => rfl)

/-- a step that keeps the lines and the table of marks -/
theorem CarryW.of_eq {S : Nat → Prop} {lb lb' : Lb} (hg : GlobLen lb) (hl : lb'.lines = lb.lines)
    (hgl : lb'.glob = lb.glob) : CarryW S lb lb' (idSlots lb.lines.length) :=
  CarryW.of_bits hg hl (by rw [hgl]) (fun _ _ _ => by rw [hgl])

theorem CarryW.trans {S : Nat → Prop} {a b c : Lb} {sm1 sm2 : Slots} (h1 : CarryW S a b sm1) (h2 : CarryW S b c sm2) :
    CarryW S a c (compSlots sm1 sm2) where
  len := h1.len
  len' := h2.len'
  dom := by
    intro j hj
    unfold compSlots
    rw [h2.dom j hj]
  rng := by
    intro j p h
    unfold compSlots at h
    split at h
    · cases h
    · rename_i p2 hp2
      split at h
      · cases h
      · rename_i q hq
        cases h
        exact h1.rng _ q hq
  mono := by
    intro j j' p p' hjj h h'
    unfold compSlots at h h'
    split at h
    · cases h
    · rename_i p2 hp2
      split at h
      · cases h
      · rename_i q hq
        split at h'
        · cases h'
        · rename_i p2' hp2'
          split at h'
          · cases h'
          · rename_i q' hq'
            cases h; cases h'
            exact h1.mono _ _ q q' (h2.mono _ _ _ _ hjj hp2 hp2') hq hq'
  bits := by
    intro j k hk
    rw [h2.bits j k hk]
    unfold compSlots
    cases hp2 : sm2 j with
    | none => rfl
    | some p2 =>
      simp only []
      rw [h1.bits p2.1 k hk]
      cases hq : sm1 p2.1 with
      | none => rfl
      | some q => rfl
  text := by
    intro j i h
    unfold compSlots at h
    split at h
    · cases h
    · rename_i p2 hp2
      split at h
      · cases h
      · rename_i q hq
        obtain ⟨i2, s2⟩ := p2
        obtain ⟨i1, s1⟩ := q
        simp only [Option.some.injEq, Prod.mk.injEq, Bool.and_eq_true] at h
        obtain ⟨rfl, rfl, rfl⟩ := h
        rw [h2.text j i2 hp2, h1.text i2 i1 hq]

/-- fewer depths -/
theorem CarryW.mono_set {S S' : Nat → Prop} {lb lb' : Lb} {sm : Slots} (h : CarryW S lb lb' sm)
    (hs : ∀ k, S' k → S k) : CarryW S' lb lb' sm :=
  ⟨h.len, h.len', h.dom, h.rng, h.mono, fun j k hk => h.bits j k (hs k hk), h.text⟩

theorem Carry.refl {S : Nat → Prop} {lb : Lb} (hg : GlobLen lb) : Carry S lb lb := ⟨_, CarryW.refl hg⟩
theorem Carry.trans {S : Nat → Prop} {a b c : Lb} (h1 : Carry S a b) (h2 : Carry S b c) : Carry S a c := by
  obtain ⟨_, w1⟩ := h1
  obtain ⟨_, w2⟩ := h2
  exact ⟨_, w1.trans w2⟩
theorem Carry.of_eq {S : Nat → Prop} {lb lb' : Lb} (hg : GlobLen lb) (hl : lb'.lines = lb.lines)
    (hgl : lb'.glob = lb.glob) : Carry S lb lb' := ⟨_, CarryW.of_eq hg hl hgl⟩
theorem Carry.mono_set {S S' : Nat → Prop} {lb lb' : Lb} (h : Carry S lb lb') (hs : ∀ k, S' k → S k) :
    Carry S' lb lb' := by
  obtain ⟨_, w⟩ := h
  exact ⟨_, w.mono_set hs⟩
theorem Carry.globLen {S : Nat → Prop} {lb lb' : Lb} (h : Carry S lb lb') : GlobLen lb' := by
  obtain ⟨_, w⟩ := h; exact w.len'

/-! ### `lbuf_replace` -/

/-- the slot map of `lbuf_replace(lb, s, pos, n_del)` on a table of `n` lines, `n_ins` lines in `s` -/
def replSlots (n pos nIns nDel : Nat) : Slots := fun j =>
  if j < pos then some (j, true)
  else if j < pos + min nIns nDel then some (j, false)
  else if j < pos + nIns then none
  else if j < n + nIns - nDel then some (j - nIns + nDel, true)
  else none

theorem replace_carryW {S : Nat → Prop} {lb lb' : Lb} {s : Option Bytes} {pos nDel : Nat}
    (h : replace lb s pos nDel = some lb') (hg : GlobLen lb) :
    CarryW S lb lb' (replSlots lb.lines.length pos (optLines s).length nDel) := by
  obtain ⟨hb, hlines, _⟩ := replace_lines h
  obtain ⟨g1, g2, g3, g4, g5⟩ := glob_bits_travel h hg (optLines s).length rfl
  have hlen' : lb'.lines.length = lb.lines.length + (optLines s).length - nDel := by
    rw [hlines]
    simp only [List.length_append, List.length_take, List.length_drop]
    omega
  refine ⟨hg, g5, ?_, ?_, ?_, ?_, ?_⟩
  · intro j hj
    unfold replSlots
    rw [if_neg (by omega), if_neg (by omega), if_neg (by omega), if_neg (by omega)]
  · intro j p hp
    unfold replSlots at hp
    repeat' (split at hp)
    all_goals (first | cases hp | skip)
    all_goals (simp only []; omega)
  · intro j j' p p' hjj hp hp'
    unfold replSlots at hp hp'
    repeat' (split at hp)
    all_goals (first | cases hp | skip)
    all_goals (repeat' (split at hp'))
    all_goals (first | cases hp' | skip)
    all_goals (simp only []; omega)
  · intro j k _
    unfold replSlots
    rw [List.getD_eq_getElem?_getD]
    by_cases h1 : j < pos
    · rw [if_pos h1, g1 j h1, ← List.getD_eq_getElem?_getD]
    · rw [if_neg h1]
      by_cases h2 : j < pos + min (optLines s).length nDel
      · rw [if_pos h2, g2 j (by omega) h2, ← List.getD_eq_getElem?_getD]
      · rw [if_neg h2]
        by_cases h3 : j < pos + (optLines s).length
        · rw [if_pos h3, g3 j (by omega) h3]
          simp
        · rw [if_neg h3]
          by_cases h4 : j < lb.lines.length + (optLines s).length - nDel
          · rw [if_pos h4]
            have := g4 (j - pos - (optLines s).length)
            rw [show pos + (optLines s).length + (j - pos - (optLines s).length) = j by omega] at this
            rw [this, ← List.getD_eq_getElem?_getD]
            simp only []
            congr 2
            omega
          · rw [if_neg h4, List.getElem?_eq_none (by unfold GlobLen at g5; omega)]
            simp
  · intro j i hp
    unfold replSlots at hp
    by_cases h1 : j < pos
    · rw [if_pos h1] at hp
      cases hp
      rw [hlines, List.append_assoc, List.getElem?_append_left (by simp; omega), List.getElem?_take_of_lt h1]
    · rw [if_neg h1] at hp
      by_cases h2 : j < pos + min (optLines s).length nDel
      · rw [if_pos h2] at hp; cases hp
      · rw [if_neg h2] at hp
        by_cases h3 : j < pos + (optLines s).length
        · rw [if_pos h3] at hp; cases hp
        · rw [if_neg h3] at hp
          by_cases h4 : j < lb.lines.length + (optLines s).length - nDel
          · rw [if_pos h4] at hp
            cases hp
            have hl1 : (lb.lines.take pos ++ optLines s).length = pos + (optLines s).length := by
              simp only [List.length_append, List.length_take]; omega
            rw [hlines, List.getElem?_append_right (by omega), hl1, List.getElem?_drop]
            congr 1
            omega
          · rw [if_neg h4] at hp; cases hp

theorem replace_carry {S : Nat → Prop} {lb lb' : Lb} {s : Option Bytes} {pos nDel : Nat}
    (h : replace lb s pos nDel = some lb') (hg : GlobLen lb) : Carry S lb lb' := ⟨_, replace_carryW h hg⟩

/-- `lbuf_replace` after a step that kept lines and marks -/
theorem replace_carry' {S : Nat → Prop} {lb lb1 lb' : Lb} {s : Option Bytes} {pos nDel : Nat}
    (h : replace lb1 s pos nDel = some lb') (hl : lb1.lines = lb.lines) (hgl : lb1.glob = lb.glob) (hg : GlobLen lb) :
    Carry S lb lb' := by
  have c0 : Carry S lb lb1 := Carry.of_eq hg hl hgl
  exact c0.trans (replace_carry h c0.globLen)

/-! ### the calls of the lbuf API the ex commands make -/

theorem opt_glob (lb : Lb) (buf : Option Bytes) (pos nDel : Nat) : (opt lb buf pos nDel).glob = lb.glob := rfl

theorem edit_carry {S : Nat → Prop} {lb lb' : Lb} {buf : Option Bytes} {b e : Nat}
    (h : edit lb buf b e = some lb') (hg : GlobLen lb) : Carry S lb lb' := by
  unfold edit at h
  simp only [] at h
  split at h
  · cases h
  · split at h
    · cases h; exact Carry.refl hg
    · exact replace_carry' h rfl rfl hg

theorem loadPos_glob (lb : Lb) (e : Entry) : (loadPos lb e).glob = lb.glob := rfl
theorem loadMarks_glob (lb : Lb) (e : Entry) : (loadMarks lb e).glob = lb.glob := by
  unfold loadMarks; split <;> rfl
theorem loadMarks_lines (lb : Lb) (e : Entry) : (loadMarks lb e).lines = lb.lines := by
  unfold loadMarks; split <;> rfl

theorem undoGo_carry {S : Nat → Prop} (seq : Nat) : ∀ (f : Nat) (lb lb' : Lb), undoGo seq f lb = some lb' → GlobLen lb →
    Carry S lb lb' := by
  intro f
  induction f with
  | zero => intro lb lb' h hg; cases h; exact Carry.refl hg
  | succ f ih =>
    intro lb lb' h hg
    rw [undoGo] at h
    split at h
    · cases h; exact Carry.refl hg
    · split at h
      · cases h
      · split at h
        · split at h
          · cases h
          · rename_i lb1 hr
            have c1 : Carry S lb lb1 := replace_carry' hr rfl rfl hg
            have c2 : ∀ e, Carry S lb1 (loadMarks (loadPos lb1 e) e) := fun e =>
              Carry.of_eq c1.globLen (by rw [loadMarks_lines]; rfl) (by rw [loadMarks_glob]; rfl)
            exact (c1.trans (c2 _)).trans (ih _ _ h (c2 _).globLen)
        · cases h; exact Carry.refl hg

theorem redoGo_carry {S : Nat → Prop} (seq : Nat) : ∀ (f : Nat) (lb lb' : Lb), redoGo seq f lb = some lb' → GlobLen lb →
    Carry S lb lb' := by
  intro f
  induction f with
  | zero => intro lb lb' h hg; cases h; exact Carry.refl hg
  | succ f ih =>
    intro lb lb' h hg
    rw [redoGo] at h
    split at h
    · split at h
      · cases h
      · split at h
        · split at h
          · cases h
          · rename_i lb1 hr
            have c1 : Carry S lb lb1 := replace_carry' hr rfl rfl hg
            have c2 : ∀ e, Carry S lb1 (loadPos lb1 e) := fun e => Carry.of_eq c1.globLen rfl rfl
            exact (c1.trans (c2 _)).trans (ih _ _ h (c2 _).globLen)
        · cases h; exact Carry.refl hg
    · cases h; exact Carry.refl hg

theorem undo_carry {S : Nat → Prop} {lb lb' : Lb} {rc : Nat} (h : Lbuf.undo lb = some (rc, lb')) (hg : GlobLen lb) :
    Carry S lb lb' := by
  unfold Lbuf.undo at h
  split at h
  · cases h; exact Carry.refl hg
  · split at h
    · cases h
    · rename_i e _
      cases hgo : undoGo e.seq lb.histU lb with
      | none => rw [hgo] at h; cases h
      | some l => rw [hgo] at h; cases h; exact undoGo_carry _ _ _ _ hgo hg

theorem redo_carry {S : Nat → Prop} {lb lb' : Lb} {rc : Nat} (h : Lbuf.redo lb = some (rc, lb')) (hg : GlobLen lb) :
    Carry S lb lb' := by
  unfold Lbuf.redo at h
  split at h
  · cases h; exact Carry.refl hg
  · split at h
    · cases h
    · rename_i e _
      cases hgo : redoGo e.seq (lb.hist.length - lb.histU) lb with
      | none => rw [hgo] at h; cases h
      | some l => rw [hgo] at h; cases h; exact redoGo_carry _ _ _ _ hgo hg

theorem rd_carry {S : Nat → Prop} {lb lb' : Lb} {chunks : List Bytes} {fe : Bool} {b e rc : Nat}
    (h : LbufIo.rd lb chunks fe b e = some (rc, lb')) (hg : GlobLen lb) : Carry S lb lb' := by
  unfold LbufIo.rd at h
  repeat' (split at h)
  all_goals (first | cases h | skip)
  · exact Carry.refl hg
  · rename_i he; exact edit_carry he hg

theorem modified_carry {S : Nat → Prop} {lb : Lb} (hg : GlobLen lb) : Carry S lb (modified lb).2 :=
  Carry.of_eq hg rfl rfl

theorem setMark_lines' (lb : Lb) (c : Nat) (p o : Int) : (setMark lb c p o).lines = lb.lines := by
  unfold setMark; split <;> rfl

theorem setMark_carry {S : Nat → Prop} {lb : Lb} (c : Nat) (p o : Int) (hg : GlobLen lb) :
    Carry S lb (setMark lb c p o) :=
  Carry.of_eq hg (setMark_lines' _ _ _ _) (setMark_glob _ _ _ _)

/-- `lbuf_globset` for a depth outside `S` -/
theorem globSet_carry {S : Nat → Prop} {lb : Lb} (pos d : Nat) (hd : ∀ k, S k → k ≠ d) (hg : GlobLen lb) :
    Carry S lb (globSet lb pos d) :=
  ⟨_, CarryW.of_bits hg rfl (globSet_rest lb pos d).2.2.2.2 (fun j k hk => globSet_other_depths lb pos d j k (hd k hk))⟩

/-- `lbuf_globget` for a depth outside `S`, the depths in `S` being bits of a `char` -/
theorem globGet_carry {S : Nat → Prop} {lb : Lb} (pos d : Nat) (hd : ∀ k, S k → k ≠ d ∧ k < 8) (hg : GlobLen lb) :
    Carry S lb (globGet lb pos d).2 :=
  ⟨_, CarryW.of_bits hg rfl (globGet_rest lb pos d).2.2.2.2
    (fun j k hk => globGet_other_depths lb pos d j k (hd k hk).1 (hd k hk).2)⟩

theorem foldl_carry {S : Nat → Prop} {α} (F : Lb → α → Lb) (hF : ∀ lb a, GlobLen lb → Carry S lb (F lb a)) :
    ∀ (l : List α) (lb : Lb), GlobLen lb → Carry S lb (l.foldl F lb) := by
  intro l
  induction l with
  | nil => intro lb hg; exact Carry.refl hg
  | cons a l ih =>
    intro lb hg
    rw [List.foldl_cons]
    exact (hF lb a hg).trans (ih _ (hF lb a hg).globLen)

end Neatvi.Lemmas.C15b
