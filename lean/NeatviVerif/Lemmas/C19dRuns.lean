/-!
# C19d lemmas, part 1: the maximal runs of equal consecutive entries of a list

`runs l` is the list of `(value, length)` of the maximal runs of `l`.  It is characterised by
`runs_expand` (expanding every run gives `l` back), `runs_pos` (no run is empty), `runs_adjNe`
(neighbouring runs have different values) and `runs_unique` (any list of runs with these
properties is `runs` of its expansion).
-/
namespace Neatvi.Lemmas.C19d

/-- the maximal runs of equal consecutive entries, as `(value, length)` -/
def runs {α : Type} [DecidableEq α] : List α → List (α × Nat)
  | [] => []
  | a :: r =>
    match runs r with
    | [] => [(a, 1)]
    | (b, n) :: t => if a = b then (a, n + 1) :: t else (a, 1) :: (b, n) :: t

/-- every run written out over its length -/
def expand {α : Type} (rs : List (α × Nat)) : List α := rs.flatMap (fun p => List.replicate p.2 p.1)

/-- neighbouring runs carry different values -/
def AdjNe {α : Type} : List (α × Nat) → Prop
  | [] => True
  | [_] => True
  | p :: q :: t => p.1 ≠ q.1 ∧ AdjNe (q :: t)

@[simp] theorem expand_nil {α : Type} : expand ([] : List (α × Nat)) = [] := rfl

theorem expand_cons {α : Type} (p : α × Nat) (rs : List (α × Nat)) :
    expand (p :: rs) = List.replicate p.2 p.1 ++ expand rs := by
  unfold expand; rw [List.flatMap_cons]

theorem expand_append {α : Type} (a b : List (α × Nat)) : expand (a ++ b) = expand a ++ expand b := by
  unfold expand; rw [List.flatMap_append]

variable {α : Type} [DecidableEq α]

theorem runs_cons_nil (a : α) (r : List α) (h : runs r = []) : runs (a :: r) = [(a, 1)] := by
  rw [runs, h]

theorem runs_cons_eq (a : α) (r : List α) (n : Nat) (t : List (α × Nat)) (h : runs r = (a, n) :: t) :
    runs (a :: r) = (a, n + 1) :: t := by
  rw [runs, h]; simp

theorem runs_cons_ne (a b : α) (r : List α) (n : Nat) (t : List (α × Nat)) (h : runs r = (b, n) :: t)
    (hab : a ≠ b) : runs (a :: r) = (a, 1) :: (b, n) :: t := by
  rw [runs, h]; simp [hab]

/-- expanding the runs gives the list back -/
theorem runs_expand (l : List α) : expand (runs l) = l := by
  induction l with
  | nil => rfl
  | cons a r ih =>
    cases h : runs r with
    | nil =>
      rw [runs_cons_nil a r h]
      rw [h] at ih
      rw [expand_cons, ← ih]; rfl
    | cons p t =>
      obtain ⟨b, n⟩ := p
      rw [h] at ih
      by_cases hab : a = b
      · subst hab
        rw [runs_cons_eq a r n t h, expand_cons]
        rw [expand_cons] at ih
        rw [← ih]; rfl
      · rw [runs_cons_ne a b r n t h hab, expand_cons, ih]; rfl

/-- no run is empty -/
theorem runs_pos (l : List α) : ∀ p ∈ runs l, 1 ≤ p.2 := by
  induction l with
  | nil => intro p hp; cases hp
  | cons a r ih =>
    cases h : runs r with
    | nil =>
      rw [runs_cons_nil a r h]
      intro p hp
      simp only [List.mem_singleton] at hp
      subst hp; exact Nat.le_refl _
    | cons q t =>
      obtain ⟨b, n⟩ := q
      rw [h] at ih
      by_cases hab : a = b
      · subst hab
        rw [runs_cons_eq a r n t h]
        intro p hp
        rcases List.mem_cons.mp hp with rfl | hp
        · exact Nat.succ_le_succ (Nat.zero_le _)
        · exact ih p (List.mem_cons_of_mem _ hp)
      · rw [runs_cons_ne a b r n t h hab]
        intro p hp
        rcases List.mem_cons.mp hp with rfl | hp
        · exact Nat.le_refl _
        · exact ih p hp

/-- the first run carries the first entry -/
theorem runs_head (l : List α) : (runs l).head?.map Prod.fst = l.head? := by
  cases l with
  | nil => rfl
  | cons a r =>
    cases h : runs r with
    | nil => rw [runs_cons_nil a r h]; rfl
    | cons q t =>
      obtain ⟨b, n⟩ := q
      by_cases hab : a = b
      · subst hab; rw [runs_cons_eq a r n t h]; rfl
      · rw [runs_cons_ne a b r n t h hab]; rfl

theorem runs_eq_nil (l : List α) : runs l = [] ↔ l = [] := by
  constructor
  · intro h
    have := runs_expand l
    rw [h] at this
    exact this.symm
  · rintro rfl; rfl

/-- neighbouring runs carry different values: the runs are maximal -/
theorem runs_adjNe (l : List α) : AdjNe (runs l) := by
  induction l with
  | nil => trivial
  | cons a r ih =>
    cases h : runs r with
    | nil => rw [runs_cons_nil a r h]; trivial
    | cons q t =>
      obtain ⟨b, n⟩ := q
      rw [h] at ih
      by_cases hab : a = b
      · subst hab
        rw [runs_cons_eq a r n t h]
        cases t with
        | nil => trivial
        | cons q' t' => exact ih
      · rw [runs_cons_ne a b r n t h hab]
        exact ⟨hab, ih⟩

/-- a block of `n ≥ 1` copies of `a` followed by something that does not start with `a` is one run -/
theorem runs_replicate_append (a : α) (n : Nat) (hn : 1 ≤ n) (r : List α) (hr : r.head? ≠ some a) :
    runs (List.replicate n a ++ r) = (a, n) :: runs r := by
  obtain ⟨m, rfl⟩ : ∃ m, n = m + 1 := ⟨n - 1, by omega⟩
  clear hn
  induction m with
  | zero =>
    show runs (a :: r) = _
    cases h : runs r with
    | nil => rw [runs_cons_nil a r h]
    | cons q t =>
      obtain ⟨b, k⟩ := q
      have hab : a ≠ b := by
        intro hab
        apply hr
        rw [← runs_head r, h, hab]; rfl
      rw [runs_cons_ne a b r k t h hab]
  | succ m ih =>
    rw [List.replicate_succ, List.cons_append, runs_cons_eq a _ (m + 1) (runs r) ih]

/-- `runs` is the only decomposition into non-empty runs with different neighbours -/
theorem runs_unique (rs : List (α × Nat)) (hpos : ∀ p ∈ rs, 1 ≤ p.2) (hadj : AdjNe rs) :
    runs (expand rs) = rs := by
  induction rs with
  | nil => rfl
  | cons p t ih =>
    obtain ⟨a, n⟩ := p
    have ht := ih (fun q hq => hpos q (List.mem_cons_of_mem _ hq))
      (by cases t with
          | nil => trivial
          | cons q t' => exact hadj.2)
    rw [expand_cons, runs_replicate_append a n (hpos (a, n) (List.mem_cons_self)) _ ?_, ht]
    cases t with
    | nil => simp
    | cons q t' =>
      obtain ⟨b, m⟩ := q
      have hm : 1 ≤ m := hpos (b, m) (by simp)
      obtain ⟨m', rfl⟩ : ∃ m', m = m' + 1 := ⟨m - 1, by omega⟩
      rw [expand_cons]
      simp only [List.replicate_succ, List.cons_append, List.head?_cons, ne_eq, Option.some.injEq]
      exact fun h => hadj.1 h.symm

/-! ### a stretch of equal entries inside a list -/

theorem drop_eq_replicate_append {β : Type} (d : β) (L : List β) (a : β) (k s : Nat) (hks : k + s ≤ L.length)
    (h : ∀ j, j < s → L.getD (k + j) d = a) : L.drop k = List.replicate s a ++ L.drop (k + s) := by
  induction s generalizing k with
  | zero => rfl
  | succ s ih =>
    have hk : k < L.length := by omega
    rw [List.drop_eq_getElem_cons hk, List.replicate_succ, List.cons_append]
    have h0 := h 0 (by omega)
    rw [Nat.add_zero, List.getD_eq_getElem?_getD, List.getElem?_eq_getElem hk] at h0
    have := ih (k + 1) (by omega) (fun j hj => by
      have := h (j + 1) (by omega)
      rw [show k + (j + 1) = k + 1 + j by omega] at this
      exact this)
    rw [this, show k + 1 + s = k + (s + 1) by omega]
    congr 1

/-- the length of the longest prefix of `a, a+1, …, a+N-1` on which `p` holds -/
theorem takeWhile_range'_spec (p : Nat → Bool) (a N : Nat) :
    ((List.range' a N).takeWhile p).length ≤ N ∧
    (∀ d, d < ((List.range' a N).takeWhile p).length → p (a + d) = true) ∧
    (((List.range' a N).takeWhile p).length < N → p (a + ((List.range' a N).takeWhile p).length) = false) := by
  induction N generalizing a with
  | zero => simp
  | succ N ih =>
    rw [List.range'_succ, List.takeWhile_cons]
    by_cases hp : p a = true
    · rw [if_pos hp]
      obtain ⟨h1, h2, h3⟩ := ih (a + 1)
      simp only [List.length_cons]
      refine ⟨by omega, ?_, ?_⟩
      · intro d hd
        cases d with
        | zero => exact hp
        | succ d =>
          have := h2 d (by omega)
          rw [show a + 1 + d = a + (d + 1) by omega] at this
          exact this
      · intro hlt
        have := h3 (by omega)
        rw [Nat.add_assoc, Nat.add_comm 1] at this
        exact this
    · rw [if_neg hp]
      simp only [List.length_nil, Nat.add_zero]
      exact ⟨Nat.zero_le _, fun d hd => absurd hd (Nat.not_lt_zero _), fun _ => by simpa using hp⟩

theorem takeWhile_range_spec (p : Nat → Bool) (N : Nat) :
    ((List.range N).takeWhile p).length ≤ N ∧
    (∀ d, d < ((List.range N).takeWhile p).length → p d = true) ∧
    (((List.range N).takeWhile p).length < N → p ((List.range N).takeWhile p).length = false) := by
  have := takeWhile_range'_spec p 0 N
  rw [← List.range_eq_range'] at this
  simpa using this

end Neatvi.Lemmas.C19d
