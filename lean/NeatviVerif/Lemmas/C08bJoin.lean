import NeatviVerif.Lemmas.C08bChange
/-!
# C08: `vc_join`, `vc_replace`, `vi_case`, `vi_shift`
-/
set_option linter.unusedSimpArgs false
namespace Neatvi.Lemmas.C08b
open Neatvi Neatvi.Uc Neatvi.Vi Neatvi.Ex Neatvi.Spec Neatvi.Lemmas.C08 Neatvi.Lemmas.C09

theorem takeWhile_ne_ten (a r : Bytes) (ha : 10 ∉ a) : (a ++ 10 :: r).takeWhile (· != 10) = a := by
  induction a with
  | nil => simp
  | cons x t ih =>
    simp only [List.mem_cons, not_or] at ha
    have : (x != 10) = true := by simpa using fun h => ha.1 h.symm
    simp only [List.cons_append, List.takeWhile_cons, this, if_true]
    rw [ih ha.2]

theorem dropWhile_blank_line (b : Bytes) : (b ++ [10]).dropWhile isBlankC = b.dropWhile isBlankC ++ [10] := by
  induction b with
  | nil => rfl
  | cons x t ih =>
    by_cases hx : isBlankC x = true
    · simp only [List.cons_append, List.dropWhile_cons, hx, if_true]; exact ih
    · simp only [List.cons_append, List.dropWhile_cons, hx, if_false, Bool.false_eq_true]

theorem not_mem_dropWhile (b : Bytes) (p : Nat → Bool) (hb : 10 ∉ b) : 10 ∉ b.dropWhile p :=
  fun h => hb ((List.dropWhile_sublist p).subset h)

/-- the loop of `vc_join` on two rows -/
theorem join_go_two (s : VS) (r : Int) (a b : Bytes) (ha : 10 ∉ a) (hb : 10 ∉ b)
    (h1 : lineE s r = a ++ [10]) (h2 : lineE s (r + 1) = b ++ [10]) :
    vcJoin.go s r (r + 2) 3 r [] 0 =
      (a ++ List.replicate (joinSpaces a (b.dropWhile isBlankC ++ [10])) 32 ++ b.dropWhile isBlankC, (ucSlen a : Int)) := by
  have hb' := not_mem_dropWhile b isBlankC hb
  rw [vcJoin.go, if_neg (by omega)]
  simp only [h1, show ¬ (r > r) by omega, if_false, List.replicate_zero, List.append_nil, List.nil_append,
    takeWhile_ne_ten a [] ha]
  rw [vcJoin.go, if_neg (by omega)]
  simp only [h2, show r + 1 > r by omega, if_true, dropWhile_blank_line, takeWhile_ne_ten _ [] hb']
  rw [vcJoin.go, if_pos (by omega)]

/-- `join_spaces`, as the rule -/
theorem joinSpaces_rule (prev next : Bytes) :
    (prev = [] → joinSpaces prev next = 0) ∧
    (prev ≠ [] → (prev.getLast? = some 32 ∨ next.headD 0 = 41) → joinSpaces prev next = 0) ∧
    (prev ≠ [] → prev.getLast? ≠ some 32 → next.headD 0 ≠ 41 → prev.getLast? = some 46 → joinSpaces prev next = 2) ∧
    (prev ≠ [] → prev.getLast? ≠ some 32 → next.headD 0 ≠ 41 → prev.getLast? ≠ some 46 → joinSpaces prev next = 1) := by
  unfold joinSpaces
  refine ⟨?_, ?_, ?_, ?_⟩
  · intro h; subst h; rfl
  · intro h hc
    have : prev.isEmpty = false := by cases prev <;> simp_all
    rw [this]
    simp only [Bool.false_eq_true, if_false]
    rcases hc with hc | hc
    · have e : (prev.getLast? == some 32) = true := by rw [hc]; rfl
      rw [if_pos (by rw [e]; rfl)]
    · have e : (next.headD 0 == 41) = true := by rw [hc]; rfl
      rw [if_pos (by rw [e, Bool.or_true])]
  · intro h h32 h41 h46
    have : prev.isEmpty = false := by cases prev <;> simp_all
    rw [this]
    simp only [Bool.false_eq_true, if_false]
    have e32 : (prev.getLast? == some 32) = false := beq_false_of_ne h32
    have e41 : (next.headD 0 == 41) = false := beq_false_of_ne h41
    have e46 : (prev.getLast? == some 46) = true := by rw [h46]; rfl
    rw [e32, e41, e46]
    rfl
  · intro h h32 h41 h46
    have : prev.isEmpty = false := by cases prev <;> simp_all
    rw [this]
    simp only [Bool.false_eq_true, if_false]
    have e32 : (prev.getLast? == some 32) = false := beq_false_of_ne h32
    have e41 : (next.headD 0 == 41) = false := beq_false_of_ne h41
    have e46 : (prev.getLast? == some 46) = false := beq_false_of_ne h46
    rw [e32, e41, e46]
    rfl

/-! ### `led_read` (`vi_char`) on a typed character -/

/-- `vi_char()` on the bytes of a typable character (default keymap): the character, the bytes consumed -/
theorem viChar_enc (s : VS) (c : Nat) (rest : Bytes) (hc : Typable c) (hp : pending s = enc c ++ rest)
    (hk : s.xkmap = 0) :
    ∃ s', viChar s = Res.ok (some (enc c)) s' ∧ pending s' = rest ∧ Reads false (enc c) s s' := by
  obtain ⟨hv, h32, h127⟩ := hc
  obtain ⟨a, t, he, hch⟩ := enc_chr hv
  rw [he] at hp ⊢
  obtain ⟨h1, h2, h3⟩ := termRead_afterRead s a (t ++ rest) (by simpa using hp)
  have hk1 : (afterRead s).xkmap = 0 := by
    have := h3.kmap false
    simpa [hk] using this
  have ha32 : 32 ≤ a := by
    unfold enc at he
    split at he
    · injection he with he1 _; omega
    split at he
    · injection he with he1 _; omega
    split at he
    · injection he with he1 _; omega
    · injection he with he1 _; omega
  have ha127 : a ≠ 127 := by
    unfold enc at he
    split at he
    · injection he with he1 _; omega
    split at he
    · injection he with he1 _; omega
    split at he
    · injection he with he1 _; omega
    · injection he with he1 _; omega
  have e6 : ((a : Int) == 6) = false := beq_cast a 6 (by omega)
  have e5 : ((a : Int) == 5) = false := beq_cast a 5 (by omega)
  have et := tkInt_cast a (by omega) (by omega)
  have hgo : viChar s = readCharS (a : Int) (afterRead s).xkmap (afterRead s) := by
    unfold viChar
    rw [viChar.go]
    simp only [bind_apply, h1, et, e6, e5, Bool.false_eq_true, if_false, get_apply]
  rw [hgo, hk1]
  by_cases hlt : a < 192
  · have ht : t = [] := by
      rcases hch.lead with ⟨_, h⟩ | h
      · exact h
      · omega
    subst ht
    rw [readCharS_plain a _ (by omega) (by omega) hlt (by omega)]
    exact ⟨_, rfl, by simpa using h2, h3⟩
  · have hlen := Props.C16.len_enc hv
    rw [he] at hlen
    simp only [Bytes.hd_cons, List.length_cons] at hlen
    obtain ⟨s', hm, hr2, hp2⟩ := readCharS_multi a 0 (afterRead s) t rest (by omega) h2 (by omega)
    have e3 : t.map (· % 256) = t := by
      rw [List.map_congr_left (g := id)]
      · simp
      · intro x hx; have := hch.tl x hx; simp only [id]; omega
    have e4 : (a :: t).takeWhile (· != 0) = a :: t := by
      apply takeWhile_all
      intro x hx
      have : 0 < x := by
        rcases List.mem_cons.mp hx with rfl | hx
        · omega
        · have := hch.tl x hx; omega
      simp; omega
    rw [e3, e4] at hm
    exact ⟨s', hm, hp2, by simpa using h3.trans hr2⟩

/-! ### `vc_replace` -/

theorem flatten_replicate_enc (n c : Nat) : (List.replicate n (enc c)).flatten = encStr (List.replicate n c) := by
  induction n with
  | zero => rfl
  | succ n ih => rw [List.replicate_succ, List.flatten_cons, ih, List.replicate_succ, encStr_cons]

theorem takeWhile_ne_ten_line (body : List Nat) (hb10 : 10 ∉ body) :
    (encStr (body ++ [10])).takeWhile (· != 10) = encStr body := by
  rw [encStr_append]
  exact takeWhile_ne_ten (encStr body) [] (ten_notin_encStr hb10)

theorem headD_enc_ne_ten (c : Nat) (hc : Typable c) : ((enc c).headD 0 == 10) = false := by
  have h10 : c ≠ 10 := by have := hc.2.1; omega
  have := hd_enc_ne_ten h10 []
  simpa [Bytes.hd] using this

/-- `r` with a typable character on a line of valid UTF-8, cursor on character `o`, count `n` -/
theorem vcReplace_core (s : VS) (body : List Nat) (c o : Nat) (rest : Bytes)
    (hr0 : 0 ≤ s.ed.xrow) (hline : (Vi.lines s)[s.ed.xrow.toNat]? = some (encStr (body ++ [10])))
    (hb : ∀ d ∈ body, ValidCp d) (hb10 : 10 ∉ body) (ho : s.ed.xoff = (o : Int)) (hol : o < body.length)
    (hc : Typable c) (hp : pending s = enc c ++ rest) (hk : s.xkmap = 0) :
    (o + (max 1 s.arg1).toNat ≤ body.length →
      ∃ s', vcReplace s = Res.ok VC_OK s' ∧ pending s' = rest ∧
        Inserted (enc c) s s' s.ed.xrow
          [encStr (body.take o ++ List.replicate (max 1 s.arg1).toNat c ++ (body.drop (o + (max 1 s.arg1).toNat) ++ [10]))]
          1 s.ed.xrow ((o : Int) + (max 1 s.arg1).toNat - 1)) ∧
    (body.length < o + (max 1 s.arg1).toNat →
      ∃ s', vcReplace s = Res.ok 0 s' ∧ pending s' = rest ∧ Reads false (enc c) s s') := by
  have hl := lineOf_of_get s _ _ hr0 hline
  obtain ⟨s1, hch, hp1, hr1⟩ := viChar_enc s c rest hc hp hk
  have hx := renNoeol_body body hb hb10 o hol
  have hv := valid_snoc_ten hb
  have hsl : ucSlen ((encStr (body ++ [10])).takeWhile (· != 10)) = body.length := by
    rw [takeWhile_ne_ten_line body hb10, Props.C16.slen_spec hb]
  have hn1 : (1 : Int) ≤ max 1 s.arg1 := Int.le_max_left _ _
  have hcast : ((max 1 s.arg1).toNat : Int) = max 1 s.arg1 := Int.toNat_of_nonneg (by omega)
  have hunf : vcReplace s =
      (if ((ucSlen ((encStr (body ++ [10])).takeWhile (· != 10)) : Nat) : Int) - Ren.renNoeol (encStr (body ++ [10])) s.ed.xoff
            < max 1 s.arg1 then pure 0
        else do
          let pref ← liftO (subI (encStr (body ++ [10])) 0 (Ren.renNoeol (encStr (body ++ [10])) s.ed.xoff))
          let post ← liftO (subI (encStr (body ++ [10])) (Ren.renNoeol (encStr (body ++ [10])) s.ed.xoff + max 1 s.arg1) (-1))
          edEdit (some (pref ++ (List.replicate (max 1 s.arg1).toNat (enc c)).flatten ++ post)) s.ed.xrow (s.ed.xrow + 1)
          if ((enc c).headD 0 == 10) = true then do
              setPos (s.ed.xrow + max 1 s.arg1) 0
              pure VC_OK
            else do
              setOff (Ren.renNoeol (encStr (body ++ [10])) s.ed.xoff + max 1 s.arg1 - 1)
              pure VC_OK : M Nat) s1 := by
    unfold vcReplace
    simp only [bind_apply, get_apply, hch, hl]
  rw [hunf, hsl, ho, hx]
  constructor
  · intro hfit
    rw [if_neg (by omega)]
    obtain ⟨e1, -⟩ := subI_line body hb o (by omega)
    obtain ⟨-, e2⟩ := subI_line body hb (o + (max 1 s.arg1).toNat) hfit
    have hoff : (o : Int) + max 1 s.arg1 = ((o + (max 1 s.arg1).toNat : Nat) : Int) := by
      rw [Int.natCast_add, hcast]
    obtain ⟨lb, hlb⟩ := lb_of_line s _ _ hline
    have hrlt : s.ed.xrow.toNat < (Vi.lines s).length := (List.getElem?_eq_some_iff.mp hline).1
    have hrow1 : s1.ed.xrow = s.ed.xrow := hr1.xrow
    obtain ⟨ed', he1, he2, he3⟩ := edEdit_spec s1
      (encStr (body.take o) ++ (List.replicate (max 1 s.arg1).toNat (enc c)).flatten ++
        encStr (body.drop (o + (max 1 s.arg1).toNat) ++ [10])) s.ed.xrow (s.ed.xrow + 1) lb
      (by rw [hr1.lb]; exact hlb) hr0 (by omega) (by unfold lenOf; rw [hr1.lines]; omega)
    refine ⟨{ s1 with ed := { ed' with xoff := (o : Int) + max 1 s.arg1 - 1 } }, ?_, hp1, ?_⟩
    · simp only [bind_apply, e1, liftO_some, hoff, e2, he1, headD_enc_ne_ten c hc, Bool.false_eq_true, if_false,
        setOff_apply, pure_apply]
    · have hjoin : encStr (body.take o) ++ (List.replicate (max 1 s.arg1).toNat (enc c)).flatten ++
          encStr (body.drop (o + (max 1 s.arg1).toNat) ++ [10]) =
          encStr (body.take o ++ List.replicate (max 1 s.arg1).toNat c ++ (body.drop (o + (max 1 s.arg1).toNat) ++ [10])) := by
        simp only [flatten_replicate_enc, encStr_append, List.append_assoc]
      have h10c : c ≠ 10 := by have := hc.2.1; omega
      refine ⟨?_, ?_, ?_, ?_, ?_⟩
      · show Lemmas.C06.lines ed' = _
        rw [he2, hr1.lines, hjoin, splitLines_wf _ (wfLine_enc_snoc (by
          intro hm
          rcases List.mem_append.mp hm with hm | hm
          · exact hb10 (List.mem_of_mem_take hm)
          · exact h10c (List.eq_of_mem_replicate hm).symm) (fun h => hb10 (List.mem_of_mem_drop h)))]
        rw [show (s.ed.xrow + 1).toNat = s.ed.xrow.toNat + 1 by omega]
      · show ed'.xrow = s.ed.xrow
        rw [he3]; exact hrow1
      · show (o : Int) + max 1 s.arg1 - 1 = _
        rw [hcast]
      · show ed'.regs = s.ed.regs
        rw [he3, hr1.ed]
      · exact (hr1.readsEd).withEd _
  · intro hno
    rw [if_pos (by omega)]
    exact ⟨s1, rfl, hp1, hr1⟩

/-! ### `vc_join` over any number of rows -/

/-- reference: append the rows `ws` (without their leading blanks) to `sb`, each after `join_spaces` spaces -/
def joinRows : Bytes → List Bytes → Bytes
  | sb, [] => sb
  | sb, w :: ws =>
    joinRows (sb ++ List.replicate (joinSpaces sb (w.dropWhile isBlankC ++ [10])) 32 ++ w.dropWhile isBlankC) ws

/-- the cursor offset `vc_join` leaves: the length in characters of what precedes the last joined row -/
def joinOff : Bytes → List Bytes → Int → Int
  | _, [], off => off
  | sb, w :: ws, _ =>
    joinOff (sb ++ List.replicate (joinSpaces sb (w.dropWhile isBlankC ++ [10])) 32 ++ w.dropWhile isBlankC) ws (ucSlen sb)

theorem join_go_rows (s : VS) (beg e : Int) : ∀ (ws : List Bytes) (f : Nat) (i : Int) (sb : Bytes) (off : Int),
    beg < i → i + ws.length = e → ws.length ≤ f →
    (∀ k (hk : k < ws.length), lineE s (i + k) = ws[k] ++ [10]) → (∀ w ∈ ws, 10 ∉ w) →
    vcJoin.go s beg e f i sb off = (joinRows sb ws, joinOff sb ws off) := by
  intro ws
  induction ws with
  | nil =>
    intro f i sb off _ hi _ _ _
    cases f with
    | zero => rw [vcJoin.go]; rfl
    | succ f => rw [vcJoin.go, if_pos (by simp at hi; omega)]; rfl
  | cons w ws ih =>
    intro f i sb off hb hi hf hl h10
    obtain ⟨f, rfl⟩ : ∃ g, f = g + 1 := ⟨f - 1, by simp at hf; omega⟩
    have hw := h10 w (by simp)
    have hw' := not_mem_dropWhile w isBlankC hw
    have h0 := hl 0 (by simp)
    simp only [List.getElem_cons_zero, Int.natCast_zero, Int.add_zero] at h0
    rw [vcJoin.go, if_neg (by simp at hi; omega)]
    simp only [h0, show i > beg from hb, if_true, dropWhile_blank_line, takeWhile_ne_ten _ [] hw']
    rw [ih f (i + 1) _ _ (by omega) (by simp at hi ⊢; omega) (by simp at hf; omega)
      (fun k hk => by
        have := hl (k + 1) (by simp; omega)
        simp only [List.getElem_cons_succ] at this
        rw [← this]; congr 1; omega)
      (fun x hx => h10 x (by simp [hx]))]
    rfl

theorem joinRows_no_ten : ∀ (ws : List Bytes) (sb : Bytes), 10 ∉ sb → (∀ w ∈ ws, 10 ∉ w) → 10 ∉ joinRows sb ws := by
  intro ws
  induction ws with
  | nil => intro sb h _; exact h
  | cons w ws ih =>
    intro sb h hw
    refine ih _ ?_ (fun x hx => hw x (by simp [hx]))
    intro hm
    rcases List.mem_append.mp hm with hm | hm
    · rcases List.mem_append.mp hm with hm | hm
      · exact h hm
      · have := List.eq_of_mem_replicate hm; omega
    · exact not_mem_dropWhile w isBlankC (hw w (by simp)) hm

/-- the rows of a block of the buffer -/
theorem row_of_block (L : List Bytes) (r n : Nat) (rows : List Bytes) (h : (L.drop r).take n = rows) (k : Nat)
    (hk : k < rows.length) : L[r + k]? = some rows[k] := by
  have h1 : rows[k]? = some rows[k] := List.getElem?_eq_getElem hk
  rw [← h1, ← h, List.getElem?_take, List.getElem?_drop]
  rw [if_pos]
  have := congrArg List.length h
  simp only [List.length_take, List.length_drop] at this
  omega

end Neatvi.Lemmas.C08b
