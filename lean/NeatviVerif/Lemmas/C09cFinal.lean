import NeatviVerif.Lemmas.C09cWitness
import NeatviVerif.Lemmas.C09cSettled
/-!
# C09c, part 19: the statements of `Props/C09c.lean` that need a few lines
-/
namespace Neatvi.Lemmas.C09c
open Neatvi Neatvi.Lbuf Neatvi.LbufIo Neatvi.Ex Neatvi.Vi
open Neatvi.Lemmas.C09b (Inv runOk retype)
open Neatvi.Props.C05c (iterate)

theorem lbRel_fields (a b : Lb) (h : LbRel false a b) :
    a.lines = b.lines ∧ a.glob = b.glob ∧ a.mark = b.mark ∧ a.markOff = b.markOff ∧ a.histU = b.histU ∧
    a.unsaved = b.unsaved ∧ a.hist.length = b.hist.length ∧
    ∀ (i : Nat) (e e' : Entry), a.hist[i]? = some e → b.hist[i]? = some e' →
      e.pos = e'.pos ∧ e.nIns = e'.nIns ∧ e.nDel = e'.nDel ∧ e.ins = e'.ins ∧ e.del = e'.del ∧ e.marks = e'.marks := by
  refine ⟨h.lines, h.glob, h.mark_eq, h.markOff_eq, h.histU, h.unsaved, h.hist.length_eq, fun i e e' h1 h2 => ?_⟩
  rcases h.hist.getElem? i with ⟨r1, _⟩ | ⟨x, y, r1, r2, hr⟩
  · rw [r1] at h1; cases h1
  · rw [r1] at h1; rw [r2] at h2; cases h1; cases h2
    exact ⟨hr.pos, hr.nIns, hr.nDel, hr.ins, hr.del, hr.marks⟩

theorem viStep_cases (s t : VS) (h : Sim false s t) :
    (∃ s' t', viStep s = Res.ok () s' ∧ viStep t = Res.ok () t' ∧ Sim false s' t') ∨
    (viStep s = Res.eof ∧ viStep t = Res.eof) ∨ (viStep s = Res.trap ∧ viStep t = Res.trap) := by
  rcases (rel2_viStep s t h).noEsc_cases with ⟨a, s', t', r1, r2, h'⟩ | h' | h'
  · exact Or.inl ⟨s', t', r1, r2, h'⟩
  · exact Or.inr (Or.inl h')
  · exact Or.inr (Or.inr h')

/-- the conclusion of `dot_retyped` spelled out on text, cursor, registers, dirty flag, buffer names and marks -/
theorem dot_retyped_text (s : VS) (rest : Bytes) (k : Nat) (hinv : Inv s) (hv : s.vibuf = [])
    (hd : s.ibuf.length ≤ s.ibufPos) (ht : s.typed = 46 :: rest) (hout : s.ed.out = []) (hq : s.ed.xquit = false)
    (hseq : DotSeqOk s.ed) (hset : DotSettled s rest)
    (hcmd : cmdFirst { s with typed := s.repCmd ++ rest } = true) (hok : runOk (k + 1) s = true) :
    match iterate (k + 1) s, iterate k { s with typed := s.repCmd ++ rest } with
    | some a, some b => lines a = lines b ∧ a.ed.xrow = b.ed.xrow ∧ a.ed.xoff = b.ed.xoff ∧ a.ed.regs = b.ed.regs ∧
        a.ed.lb.map (fun l => (modified l).1) = b.ed.lb.map (fun l => (modified l).1) ∧
        a.ed.bufs.map (Option.map (·.path)) = b.ed.bufs.map (Option.map (·.path)) ∧
        (0 < k → a.ed.lb.map (·.mark) = b.ed.lb.map (·.mark) ∧ a.ed.lb.map (·.markOff) = b.ed.lb.map (·.markOff))
    | none, none => True
    | _, _ => False := by
  have h := dot_retyped s rest k hinv hv hd ht hout hq hseq hset hcmd hok
  unfold DotOut at h
  revert h
  cases iterate (k + 1) s <;> cases iterate k { s with typed := s.repCmd ++ rest } <;> simp only [imp_self]
  intro h
  rename_i a b
  obtain ⟨o1, o2, o3, o4, o5, o6, -, -, -⟩ := h.1.observables
  refine ⟨?_, o2, o3, o4, o5, o6, fun hk => ((h.2 hk).observables).2.2.2.2.2.2.2.2 rfl⟩
  unfold lines
  cases ha : a.ed.lb <;> cases hb : b.ed.lb <;> rw [ha, hb] at o1 <;> simp at o1 ⊢
  exact o1

theorem edSeqOk_empty (ed : Ed) (h : ed.bufs = List.replicate Gen.NBUFS none) : EdSeqOk ed := by
  intro b hb
  rw [h] at hb
  cases (List.mem_replicate.mp hb).2

/-! ### examples -/

/-- counter 4, undo records numbered 1, 3, 3 -/
def exLb : Lb :=
  { hist := [⟨0, 0, 0, none, none, 1, 0, none⟩, ⟨0, 0, 0, none, none, 3, 0, none⟩, ⟨0, 0, 0, none, none, 3, 0, none⟩],
    histU := 3, useq := 4 }

theorem exLb_seqOk : SeqOk exLb := seqOk_of_b (by decide)

/-- the shift by 2 from 3 on preserves the order -/
theorem exShift_order (x y : Nat) (_ : SeqVal exLb x) (_ : SeqVal exLb y) :
    x ≤ y ↔ (fun n => if n < 3 then n else n + 2) x ≤ (fun n => if n < 3 then n else n + 2) y := by
  constructor
  · intro h; dsimp only; split <;> split <;> omega
  · intro h; dsimp only at h; split at h <;> split at h <;> omega

theorem gSettled : (match iterate 1 gInit with | some s => decide (Settled s) | none => false) = true := by
  decide +kernel

theorem gInit_seqOk : EdSeqOk gInit.ed := edSeqOk_of_b (by decide +kernel)

end Neatvi.Lemmas.C09c
