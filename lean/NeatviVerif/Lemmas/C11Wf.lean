import NeatviVerif.Lemmas.C11Emit
/-!
# C11, part 3: every jump and fork target written by `emit` lies inside the emitted segment
-/
namespace Neatvi.Props.C11
open Neatvi Neatvi.Regex

/-- the instruction at address `pc` of a segment whose targets must lie in `[lo, e]`; second fork
    targets and jump targets go strictly forward -/
def InstOk (lo pc e : Nat) : Inst → Prop
  | .jump t => pc < t ∧ t ≤ e
  | .fork t1 t2 => lo ≤ t1 ∧ t1 ≤ e ∧ pc < t2 ∧ t2 ≤ e
  | _ => True

/-- the code `code` laid out from address `a` only targets `[lo, e]` -/
def SegOk (code : List Inst) (a lo e : Nat) : Prop :=
  ∀ i inst, code[i]? = some inst → InstOk lo (a + i) e inst

theorem instOk_mono {lo lo' pc e e' : Nat} {x : Inst} (h : InstOk lo pc e x) (hl : lo' ≤ lo)
    (he : e ≤ e') : InstOk lo' pc e' x := by
  cases x <;> simp only [InstOk] at h ⊢ <;> omega

theorem segOk_nil {a lo e : Nat} : SegOk [] a lo e := by
  intro i inst h; simp at h

theorem segOk_single {x : Inst} {a lo e : Nat} (h : InstOk lo a e x) : SegOk [x] a lo e := by
  intro i inst hi
  cases i with
  | zero => simp at hi; subst hi; exact h
  | succ i => simp at hi

theorem segOk_append {x y : List Inst} {a lo e : Nat} (hx : SegOk x a lo e)
    (hy : SegOk y (a + x.length) lo e) : SegOk (x ++ y) a lo e := by
  intro i inst h
  by_cases hi : i < x.length
  · rw [List.getElem?_append_left hi] at h
    exact hx i inst h
  · rw [List.getElem?_append_right (by omega)] at h
    have := hy (i - x.length) inst h
    rw [show a + x.length + (i - x.length) = a + i by omega] at this
    exact this

theorem segOk_mono {c : List Inst} {a lo lo' e e' : Nat} (h : SegOk c a lo e) (hl : lo' ≤ lo)
    (he : e ≤ e') : SegOk c a lo' e' :=
  fun i inst hi => instOk_mono (h i inst hi) hl he

theorem segOk_ite (c : Prop) [Decidable c] (x : Inst) (a lo e : Nat) (h : c → InstOk lo a e x) :
    SegOk (if c then [x] else []) a lo e := by
  split
  · exact segOk_single (h ‹_›)
  · exact segOk_nil

theorem length_ite (c : Prop) [Decidable c] (x : Inst) :
    (if c then [x] else []).length = if c then 1 else 0 := by
  split <;> rfl

theorem segOk_emitCopies (body : Nat → List Inst) (bl lo e : Nat) (hlen : ∀ b, (body b).length = bl)
    (hbody : ∀ b, lo ≤ b → b + bl ≤ e → SegOk (body b) b lo e) :
    ∀ k base, lo ≤ base → base + k * bl ≤ e → SegOk (emitCopies body bl k base) base lo e := by
  intro k
  induction k with
  | zero => intro base _ _; exact segOk_nil
  | succ k ih =>
    intro base hlo he
    rw [Nat.add_one_mul] at he
    simp only [emitCopies]
    refine segOk_append (hbody base hlo (by omega)) ?_
    rw [hlen]
    exact ih (base + bl) (by omega) (by omega)

theorem segOk_emitOpts (body : Nat → List Inst) (bl lo e endA : Nat)
    (hlen : ∀ b, (body b).length = bl)
    (hbody : ∀ b, lo ≤ b → b + bl ≤ e → SegOk (body b) b lo e) (hend : endA ≤ e) :
    ∀ k base, lo ≤ base → base + k * (1 + bl) ≤ endA →
      SegOk (emitOpts body bl endA k base) base lo e := by
  intro k
  induction k with
  | zero => intro base _ _; exact segOk_nil
  | succ k ih =>
    intro base hlo he
    rw [Nat.add_one_mul] at he
    simp only [emitOpts]
    refine segOk_append (segOk_append (segOk_single ?_) ?_) ?_
    · simp only [InstOk]; omega
    · exact hbody (base + 1) (by omega) (by omega)
    · simp only [List.length_append, List.length_singleton, hlen]
      rw [show base + (1 + bl) = base + 1 + bl by omega]
      exact ih (base + 1 + bl) (by omega) (by omega)

theorem segOk_emitRep (body : Nat → List Inst) (bl : Nat) (mn mx : Int) (lo e : Nat)
    (hlen : ∀ b, (body b).length = bl)
    (hbody : ∀ b, lo ≤ b → b + bl ≤ e → SegOk (body b) b lo e)
    (base : Nat) (hlo : lo ≤ base) (he : base + repLen bl mn mx ≤ e) :
    SegOk (emitRep body bl mn mx base) base lo e := by
  unfold emitRep
  split
  · exact segOk_nil
  · rename_i h00
    split
    · rename_i h11
      unfold repLen at he
      rw [if_neg h00, if_pos h11] at he
      exact hbody base hlo he
    · rename_i h11
      have hr : repLen bl mn mx =
          (if (mn == 0) = true then 1 else 0) + (max 1 mn).toNat * bl + (if mx < 0 then 1 else 0) +
            (mx - max 1 mn).toNat * (1 + bl) := by
        unfold repLen
        rw [if_neg h00, if_neg h11]
      dsimp only
      rw [hr] at he ⊢
      have hc1 : 1 ≤ (max 1 mn).toNat := by omega
      have hcb : bl ≤ (max 1 mn).toNat * bl := Nat.le_mul_of_pos_left bl hc1
      generalize (max 1 mn).toNat = C at *
      generalize (mx - max 1 mn).toNat = O at *
      generalize hL : (if (mn == 0) = true then 1 else 0 : Nat) = L at *
      generalize hS : (if mx < 0 then 1 else 0 : Nat) = S at *
      have hL1 : (mn == 0) = true → L = 1 := by intro h; rw [if_pos h] at hL; omega
      have hS1 : mx < 0 → S = 1 := by intro h; rw [if_pos h] at hS; omega
      refine segOk_append (segOk_append (segOk_append ?_ ?_) ?_) ?_
      · refine segOk_ite _ _ _ _ _ (fun h => ?_)
        have := hL1 h
        simp only [InstOk]; omega
      · rw [length_ite, hL]
        exact segOk_emitCopies body bl lo e hlen hbody C (base + L) (by omega) (by omega)
      · rw [List.length_append, length_ite, hL, emitCopies_length body bl hlen]
        refine segOk_ite _ _ _ _ _ (fun h => ?_)
        have := hS1 h
        simp only [InstOk]; omega
      · rw [List.length_append, List.length_append, length_ite, length_ite, hL, hS,
          emitCopies_length body bl hlen]
        rw [show base + (L + C * bl + S) = base + L + C * bl + S by omega]
        exact segOk_emitOpts body bl lo e _ hlen hbody (by omega) O _ (by omega) (by omega)

/-- emitting `t` at `base`: every target written inside the segment lies in
    `[base, base + emitLen t]`, jumps and second fork targets go strictly forward -/
theorem segOk_emit (t : RNode) : ∀ base, SegOk (emit t base) base base (base + emitLen t) := by
  induction t with
  | nul => intro base; exact segOk_nil
  | atom a mn mx =>
    intro base
    simp only [emit, emitLen]
    exact segOk_emitRep (fun _ => [Inst.atom a]) 1 mn mx base _ (fun _ => rfl)
      (fun b _ _ => segOk_single (x := Inst.atom a) trivial) base
      (Nat.le_refl _) (Nat.le_refl _)
  | cat a b iha ihb =>
    intro base
    simp only [emit, emitLen]
    refine segOk_append (segOk_mono (iha base) (Nat.le_refl _) (by omega)) ?_
    rw [emit_length_aux]
    exact segOk_mono (ihb (base + emitLen a)) (by omega) (by omega)
  | alt a b iha ihb =>
    intro base
    simp only [emit, emitLen]
    refine segOk_append (segOk_append (segOk_append (segOk_single ?_) ?_) (segOk_single ?_)) ?_
    · simp only [InstOk]; omega
    · exact segOk_mono (iha (base + 1)) (by omega) (by omega)
    · simp only [InstOk, List.length_append, List.length_singleton, emit_length_aux]; omega
    · simp only [List.length_append, List.length_singleton, emit_length_aux]
      rw [show base + (1 + emitLen a + 1) = base + 1 + emitLen a + 1 by omega]
      exact segOk_mono (ihb (base + 1 + emitLen a + 1)) (by omega) (by omega)
  | grp a g mn mx iha =>
    intro base
    simp only [emit, emitLen]
    refine segOk_emitRep _ (emitLen a + 2) mn mx base _ (fun b => by simp [emit_length_aux])
      (fun b hb he => ?_) base (Nat.le_refl _) (Nat.le_refl _)
    refine segOk_append (segOk_append (segOk_single trivial) ?_) (segOk_single trivial)
    exact segOk_mono (iha (b + 1)) (by omega) (by omega)

/-! ## `WfProg` -/

/-- the edge condition of the instruction at `pc` in a program of `n` instructions -/
def EdgeOk (n pc : Nat) : Inst → Prop
  | .jump a => pc < a ∧ a < n
  | .fork a1 a2 => a1 < n ∧ pc < a2 ∧ a2 < n
  | .atom _ => pc + 1 < n
  | .mark _ => pc + 1 < n
  | .mtch => True

/-- every edge of the program stays inside it; jumps and second fork targets go forward; `atom` and
    `mark` are not the last instruction -/
def WfProg (code : List Inst) : Prop :=
  ∀ pc inst, code[pc]? = some inst → EdgeOk code.length pc inst

theorem wf_of_segOk (body : List Inst) (k0 k1 : Nat) (h : SegOk body 1 1 (1 + body.length)) :
    WfProg ([Inst.mark k0] ++ body ++ [Inst.mark k1, Inst.mtch]) := by
  intro pc inst hi
  have hn : ([Inst.mark k0] ++ body ++ [Inst.mark k1, Inst.mtch]).length = body.length + 3 := by
    simp
  rw [hn]
  by_cases h0 : pc = 0
  · subst h0
    simp at hi
    subst hi
    simp only [EdgeOk]; omega
  · by_cases h1 : pc < 1 + body.length
    · rw [List.getElem?_append_left (by simp; omega),
        List.getElem?_append_right (by simp; omega)] at hi
      simp only [List.length_singleton] at hi
      have := h (pc - 1) inst hi
      rw [show 1 + (pc - 1) = pc by omega] at this
      cases inst <;> simp only [InstOk, EdgeOk] at this ⊢ <;> omega
    · rw [List.getElem?_append_right (by simp; omega)] at hi
      simp only [List.length_append, List.length_singleton] at hi
      by_cases h2 : pc = 1 + body.length
      · rw [show pc - (1 + body.length) = 0 by omega] at hi
        simp at hi
        subst hi
        simp only [EdgeOk]; omega
      · by_cases h3 : pc = 2 + body.length
        · rw [show pc - (1 + body.length) = 1 by omega] at hi
          simp at hi
          subst hi
          trivial
        · have : pc - (1 + body.length) = (pc - (1 + body.length) - 2) + 2 := by omega
          rw [this] at hi
          simp at hi

theorem emit_wf_aux (t : RNode) :
    WfProg ([Inst.mark 0] ++ emit t 1 ++ [Inst.mark 1, Inst.mtch]) := by
  apply wf_of_segOk
  rw [emit_length_aux]
  exact segOk_emit t 1

end Neatvi.Props.C11
