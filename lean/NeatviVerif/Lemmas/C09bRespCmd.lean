import NeatviVerif.Lemmas.C09bResp
/-!
# C09b: `Resp` for the commands of vi.c (everything in an iteration of `vi()` but the pushes of `.`/`@`)
-/
namespace Neatvi.Lemmas.C09b
open Neatvi Neatvi.Vi Neatvi.Ex Neatvi.Lemmas.C09

theorem resp_markSave : Resp markSave := by
  unfold markSave
  resp_tac
macro_rules | `(tactic| resp_step) => `(tactic| with_reducible exact resp_markSave)

theorem resp_drawfixTop (r : Int) (p : Bool) : Resp (drawfixTop r p) := by
  unfold drawfixTop
  resp_tac
macro_rules | `(tactic| resp_step) => `(tactic| with_reducible exact resp_drawfixTop _ _)

theorem resp_viNextlineR : Resp viNextlineR := by
  unfold viNextlineR
  resp_tac
macro_rules | `(tactic| resp_step) => `(tactic| with_reducible exact resp_viNextlineR)

theorem resp_ledInput_loop (xai : Bool) (f : Nat) (sb : Bytes) (pref : Option Bytes) (post ai : Bytes) :
    Resp (ledInput.loop xai f sb pref post ai) := by
  induction f generalizing sb pref post ai with
  | zero => unfold ledInput.loop; exact resp_pure _
  | succ f ih =>
    unfold ledInput.loop
    repeat' (first | exact ih _ _ _ _ | resp_step)

theorem resp_ledInput (pref post : Bytes) : Resp (ledInput pref post) := by
  unfold ledInput
  repeat' (first | exact resp_ledInput_loop _ _ _ _ _ _ | resp_step)
macro_rules | `(tactic| resp_step) => `(tactic| with_reducible exact resp_ledInput _ _)

theorem resp_viInput (pref post : Bytes) : Resp (viInput pref post) := by
  unfold viInput
  resp_tac
macro_rules | `(tactic| resp_step) => `(tactic| with_reducible exact resp_viInput _ _)

theorem resp_viYank (r1 o1 r2 o2 : Int) (ln : Bool) : Resp (viYank r1 o1 r2 o2 ln) := by
  unfold viYank
  resp_tac
macro_rules | `(tactic| resp_step) => `(tactic| with_reducible exact resp_viYank _ _ _ _ _)

theorem resp_viDelete (r1 o1 r2 o2 : Int) (ln : Bool) : Resp (viDelete r1 o1 r2 o2 ln) := by
  unfold viDelete
  resp_tac
macro_rules | `(tactic| resp_step) => `(tactic| with_reducible exact resp_viDelete _ _ _ _ _)

theorem resp_viChange (r1 o1 r2 o2 : Int) (ln : Bool) : Resp (viChange r1 o1 r2 o2 ln) := by
  unfold viChange
  resp_tac
macro_rules | `(tactic| resp_step) => `(tactic| with_reducible exact resp_viChange _ _ _ _ _)

theorem resp_viCase (r1 o1 r2 o2 : Int) (ln : Bool) (cmd : Nat) :
    Resp (viCase r1 o1 r2 o2 ln cmd) := by
  unfold viCase
  resp_tac
macro_rules | `(tactic| resp_step) => `(tactic| with_reducible exact resp_viCase _ _ _ _ _ _)

theorem resp_viShift_go (r2 dir : Int) (f : Nat) (i : Int) : Resp (viShift.go r2 dir f i) := by
  induction f generalizing i with
  | zero => unfold viShift.go; exact resp_pure _
  | succ f ih =>
    unfold viShift.go
    repeat' (first | exact ih _ | resp_step)

theorem resp_viShift (r1 r2 dir : Int) : Resp (viShift r1 r2 dir) := by
  unfold viShift
  repeat' (first | exact resp_viShift_go _ _ _ _ | resp_step)
macro_rules | `(tactic| resp_step) => `(tactic| with_reducible exact resp_viShift _ _ _)

theorem resp_vcMotion (cmd : Nat) : Resp (vcMotion cmd) := by
  unfold vcMotion
  resp_tac
macro_rules | `(tactic| resp_step) => `(tactic| with_reducible exact resp_vcMotion _)

theorem resp_vcInsert (cmd : Nat) : Resp (vcInsert cmd) := by
  unfold vcInsert
  resp_tac
macro_rules | `(tactic| resp_step) => `(tactic| with_reducible exact resp_vcInsert _)

theorem resp_vcPut (cmd : Nat) : Resp (vcPut cmd) := by
  unfold vcPut
  resp_tac
macro_rules | `(tactic| resp_step) => `(tactic| with_reducible exact resp_vcPut _)

theorem resp_vcJoin : Resp vcJoin := by
  unfold vcJoin
  resp_tac
macro_rules | `(tactic| resp_step) => `(tactic| with_reducible exact resp_vcJoin)

theorem resp_vcReplace : Resp vcReplace := by
  unfold vcReplace
  resp_tac
macro_rules | `(tactic| resp_step) => `(tactic| with_reducible exact resp_vcReplace)

theorem resp_scrollForward (cnt : Int) : Resp (scrollForward cnt) := by
  unfold scrollForward
  resp_tac
macro_rules | `(tactic| resp_step) => `(tactic| with_reducible exact resp_scrollForward _)

theorem resp_scrollBackward (cnt : Int) : Resp (scrollBackward cnt) := by
  unfold scrollBackward
  resp_tac
macro_rules | `(tactic| resp_step) => `(tactic| with_reducible exact resp_scrollBackward _)

theorem resp_viWfix : Resp viWfix := by
  unfold viWfix
  resp_tac
macro_rules | `(tactic| resp_step) => `(tactic| with_reducible exact resp_viWfix)

theorem resp_viWait : Resp viWait := by
  unfold viWait
  resp_tac
macro_rules | `(tactic| resp_step) => `(tactic| with_reducible exact resp_viWait)

/-! ### `ex_command` from vi -/

/-- a computation that commutes with `norm` and leaves the queue, `icmd` and `rep_cmd` alone keeps `K` -/
theorem resp_of_commutes {α : Type} {m : M α} (h : ∀ s, m (norm s) = mapS norm (m s))
    (hq : ∀ s a s', m s = Res.ok a s' → s'.ibuf = s.ibuf ∧ s'.ibufPos = s.ibufPos ∧
      s'.repCmd = s.repCmd ∧ s'.icmd = s.icmd) : Resp m := by
  intro s t hst
  have hr := respects_of_commutes h s t hst.keq
  have hs := hq s
  have ht := hq t
  revert hr hs ht
  generalize m s = r1
  generalize m t = r2
  intro hr hs ht
  cases hr with
  | ok a s' t' hk =>
    obtain ⟨a1, a2, a3, a4⟩ := hs a s' rfl
    obtain ⟨b1, b2, b3, b4⟩ := ht a t' rfl
    refine RelK.ok _ _ _ ⟨hk, ?_, ?_, ?_, ?_, ?_, ?_, ?_⟩
    · have := hst.wfs; unfold QWf at this ⊢; rw [a1, a2]; exact this
    · have := hst.wft; unfold QWf at this ⊢; rw [b1, b2]; exact this
    · have := hst.unr; unfold unread at this ⊢; rw [a1, a2, b1, b2]; exact this
    · rw [a1, b1]; exact hst.len
    · rw [a1, b1]; exact hst.emp
    · rw [a3]; exact hst.rep
    · rw [a4]; exact hst.icm
  | eof => exact RelK.eof
  | trap => exact RelK.trap

theorem exSet_queue (ln : Bytes) (s : VS) :
    (exSet ln s).ibuf = s.ibuf ∧ (exSet ln s).ibufPos = s.ibufPos ∧ (exSet ln s).repCmd = s.repCmd ∧
    (exSet ln s).icmd = s.icmd := by
  unfold exSet
  cases setOf ln with
  | none => exact ⟨rfl, rfl, rfl, rfl⟩
  | some p =>
    obtain ⟨v, val⟩ := p
    dsimp only
    split
    · exact ⟨rfl, rfl, rfl, rfl⟩
    · split <;> exact ⟨rfl, rfl, rfl, rfl⟩

theorem exTail_queue (ln : Bytes) (s : VS) (a : Int) (s' : VS) (h : exTail ln s = Res.ok a s') :
    s'.ibuf = s.ibuf ∧ s'.ibufPos = s.ibufPos ∧ s'.repCmd = s.repCmd ∧ s'.icmd = s.icmd := by
  unfold exTail at h
  split at h
  · cases h
  · injection h with _ hs
    subst hs
    exact ⟨rfl, rfl, rfl, rfl⟩

theorem resp_exCommandV (ln : Bytes) : Resp (exCommandV ln) := by
  apply resp_of_commutes
  · intro s
    rw [exCommandV_eq, exCommandV_eq]
    split
    · rfl
    · rw [exSet_norm, exTail_norm]
  · intro s a s' h
    rw [exCommandV_eq] at h
    split at h
    · injection h with _ hs
      subst hs
      exact ⟨rfl, rfl, rfl, rfl⟩
    · obtain ⟨e1, e2, e3, e4⟩ := exTail_queue _ _ _ _ h
      obtain ⟨f1, f2, f3, f4⟩ := exSet_queue ln s
      exact ⟨e1.trans f1, e2.trans f2, e3.trans f3, e4.trans f4⟩

macro_rules | `(tactic| resp_step) => `(tactic| with_reducible exact resp_exCommandV _)

/-! ### the parts of an iteration of `vi()` -/

theorem resp_viPre : Resp viPre := by
  unfold viPre
  resp_tac

theorem resp_motionTail (mv nrow noff : Int) : Resp (motionTail mv nrow noff) := by
  unfold motionTail
  resp_tac

theorem resp_viPost (cont : Option Nat) : Resp (viPost cont) := by
  unfold viPost
  resp_tac


end Neatvi.Lemmas.C09b
