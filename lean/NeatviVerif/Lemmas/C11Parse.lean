import NeatviVerif.Model.Regex
/-!
# C11, part 1: the repetition bounds of every parsed node are well formed
-/
namespace Neatvi.Props.C11
open Neatvi Neatvi.Regex

/-- the repetition bounds the parser accepts: `0 ≤ mn ≤ NREPS`, `mx ≤ NREPS`, and `mx` is either
    negative (unbounded) or at least `mn` -/
def RepOk (mn mx : Int) : Prop :=
  0 ≤ mn ∧ mn ≤ Gen.NREPS ∧ mx ≤ Gen.NREPS ∧ (mx < 0 ∨ mn ≤ mx)

instance (mn mx : Int) : Decidable (RepOk mn mx) := by unfold RepOk; infer_instance

/-- every `atom`/`grp` node carries well-formed bounds -/
def TreeOk : RNode → Prop
  | .nul => True
  | .atom _ mn mx => RepOk mn mx
  | .cat a b => TreeOk a ∧ TreeOk b
  | .alt a b => TreeOk a ∧ TreeOk b
  | .grp a _ mn mx => TreeOk a ∧ RepOk mn mx

instance decTreeOk : (t : RNode) → Decidable (TreeOk t)
  | .nul => isTrue trivial
  | .atom _ mn mx => inferInstanceAs (Decidable (RepOk mn mx))
  | .cat a b => @instDecidableAnd _ _ (decTreeOk a) (decTreeOk b)
  | .alt a b => @instDecidableAnd _ _ (decTreeOk a) (decTreeOk b)
  | .grp a _ mn mx => @instDecidableAnd _ _ (decTreeOk a) (inferInstanceAs (Decidable (RepOk mn mx)))

theorem repOk_one_one : RepOk 1 1 := by decide
theorem repOk_star : RepOk 0 (-1) := by decide
theorem repOk_opt : RepOk 0 1 := by decide
theorem repOk_plus : RepOk 1 (-1) := by decide

theorem treeOk_setRep {n : RNode} {mn mx : Int} (h : TreeOk n) (hr : RepOk mn mx) :
    TreeOk (setRep n mn mx) := by
  cases n with
  | nul => exact h
  | atom a m1 m2 => exact hr
  | cat a b => exact h
  | alt a b => exact h
  | grp a g m1 m2 => exact ⟨h.1, hr⟩

/-- the bounds test of `rnode_atom` -/
theorem repOk_of_test {mn mx : Int}
    (h : (decide (mn > (Gen.NREPS : Int)) || decide (mx > (Gen.NREPS : Int)) || decide (mn < 0) ||
      (decide (mx ≥ 0) && decide (mx < mn))) = false) : RepOk mn mx := by
  simp only [Bool.or_eq_false_iff, Bool.and_eq_false_iff, decide_eq_false_iff_not] at h
  unfold RepOk
  omega

theorem readRep_ok {n : RNode} {p : Bytes} {t : RNode} {rest : Bytes} (hn : TreeOk n)
    (h : readRep n p = some (some t, rest)) : TreeOk t := by
  unfold readRep at h
  -- first stage: `*` or `?`
  generalize h1 : (if p.headD 0 == 42 then (setRep n 0 (-1), p.drop 1)
                else if p.headD 0 == 63 then (setRep n 0 1, p.drop 1) else (n, p)) = s1 at h
  have hs1 : TreeOk s1.1 := by
    subst h1
    split
    · exact treeOk_setRep hn repOk_star
    · split
      · exact treeOk_setRep hn repOk_opt
      · exact hn
  obtain ⟨n1, p1⟩ := s1
  simp only at h hs1
  generalize h2 : (if p1.headD 0 == 43 then (setRep n1 1 (-1), p1.drop 1) else (n1, p1)) = s2 at h
  have hs2 : TreeOk s2.1 := by
    subst h2
    split
    · exact treeOk_setRep hs1 repOk_plus
    · exact hs1
  obtain ⟨n2, p2⟩ := s2
  simp only at h hs2
  split at h
  · generalize readDigits (p2.drop 1) 0 = d1 at h
    obtain ⟨mn, q1⟩ := d1
    simp only at h
    generalize h3 : (if q1.headD 0 == 44 then
        readDigits (q1.drop 1) (if (q1.drop 1).headD 0 == 125 then -1 else 0) else (mn, q1)) = d2 at h
    obtain ⟨mx, q2⟩ := d2
    simp only at h
    split at h
    · cases h
    · split at h
      · cases h
      · rename_i htest
        simp only [Option.some.injEq, Prod.mk.injEq] at h
        obtain ⟨ht, _⟩ := h
        subst ht
        exact treeOk_setRep hs2 (repOk_of_test (by simpa using htest))
  · simp only [Option.some.injEq, Prod.mk.injEq] at h
    obtain ⟨ht, _⟩ := h
    subst ht
    exact hs2

/-- the four parsers produce well-formed trees, by mutual induction on the fuel -/
theorem parse_bounds_all (f : Nat) :
    (∀ p t rest, parseAlt f p = some (some t, rest) → TreeOk t) ∧
    (∀ p t rest, parseSeq f p = some (some t, rest) → TreeOk t) ∧
    (∀ p t rest, parseAtom f p = some (some t, rest) → TreeOk t) ∧
    (∀ p t rest, parseGrp f p = some (some t, rest) → TreeOk t) := by
  induction f with
  | zero =>
    refine ⟨?_, ?_, ?_, ?_⟩ <;> intro p t rest h
    · simp [parseAlt] at h
    · simp [parseSeq] at h
    · simp [parseAtom] at h
    · simp [parseGrp] at h
  | succ f ih =>
    obtain ⟨ihAlt, ihSeq, ihAtom, ihGrp⟩ := ih
    refine ⟨?_, ?_, ?_, ?_⟩ <;> intro p t rest h
    · -- parseAlt
      rw [parseAlt] at h
      split at h
      · cases h
      · rename_i c1 p1 hseq
        split at h
        · simp only [Option.some.injEq, Prod.mk.injEq] at h
          obtain ⟨hc, hp⟩ := h
          subst hc
          exact ihSeq _ _ _ hseq
        · split at h
          · cases h
          · rename_i c2 p2 halt
            split at h
            · simp only [Option.some.injEq, Prod.mk.injEq] at h
              obtain ⟨hc, hp⟩ := h
              subst hc
              exact ihSeq _ _ _ hseq
            · rename_i b
              simp only [Option.some.injEq, Prod.mk.injEq] at h
              obtain ⟨hc, hp⟩ := h
              subst hc
              refine ⟨?_, ihAlt _ _ _ halt⟩
              cases c1 with
              | none => exact trivial
              | some a => exact ihSeq _ _ _ hseq
    · -- parseSeq
      rw [parseSeq] at h
      split at h
      · cases h
      · simp at h
      · rename_i c1 p1 hat
        split at h
        · cases h
        · simp only [Option.some.injEq, Prod.mk.injEq] at h
          obtain ⟨hc, hp⟩ := h
          subst hc
          exact ihAtom _ _ _ hat
        · rename_i c2 p2 hseq
          simp only [Option.some.injEq, Prod.mk.injEq] at h
          obtain ⟨hc, hp⟩ := h
          subst hc
          exact ⟨ihAtom _ _ _ hat, ihSeq _ _ _ hseq⟩
    · -- parseAtom
      rw [parseAtom] at h
      split at h
      · simp at h
      · split at h
        · split at h
          · cases h
          · simp at h
          · rename_i n p1 hg
            exact readRep_ok (ihGrp _ _ _ hg) h
        · split at h
          · cases h
          · exact readRep_ok (n := RNode.atom _ 1 1) repOk_one_one h
    · -- parseGrp
      rw [parseGrp] at h
      split at h
      · split at h
        · cases h
        · simp at h
        · rename_i n p2 halt
          split at h
          · simp at h
          · simp only [Option.some.injEq, Prod.mk.injEq] at h
            obtain ⟨hc, hp⟩ := h
            subst hc
            exact ⟨ihAlt _ _ _ halt, repOk_one_one⟩
      · simp only [Option.some.injEq, Prod.mk.injEq] at h
        obtain ⟨hc, hp⟩ := h
        subst hc
        exact ⟨trivial, repOk_one_one⟩

theorem parse_ok {p : Bytes} {t : RNode} (h : parse p = some (some t)) : TreeOk t := by
  unfold parse at h
  cases hp : parseAlt (parseFuel p) p with
  | none => simp [hp] at h
  | some r =>
    obtain ⟨c, rest⟩ := r
    simp [hp] at h
    subst h
    exact (parse_bounds_all (parseFuel p)).1 _ _ _ hp

theorem grpnum_treeOk (t : RNode) : ∀ num, TreeOk t → TreeOk (grpnum t num).1 := by
  induction t with
  | nul => intro num h; exact h
  | atom a mn mx => intro num h; exact h
  | cat a b iha ihb => intro num h; exact ⟨iha _ h.1, ihb _ h.2⟩
  | alt a b iha ihb => intro num h; exact ⟨iha _ h.1, ihb _ h.2⟩
  | grp a g mn mx iha => intro num h; exact ⟨iha _ h.1, h.2⟩

end Neatvi.Props.C11
