import NeatviVerif.Lemmas.C05eR4
/-!
# C05e lemmas, part R5: from the marks of the VM to the offsets `rstr_find` reports
-/
namespace Neatvi.Lemmas.C05e
open Neatvi Neatvi.Uc Neatvi.Regex Neatvi.Rset Neatvi.Props.C10 Neatvi.Lemmas.C10 Neatvi.Props.C11

/-- a match reported by the start-position loop is a VM run from a start position inside the subject -/
theorem execLoop_found (cx : Ctx) : ∀ (f start cuts : Nat) (m : Marks) (c : Nat), start ≤ cx.subj.length →
    execLoop cx f start cuts = ExecRes.found m c →
    ∃ s cuts' p, s ≤ cx.subj.length ∧ recmatch cx s cuts' = Res.ok p m c := by
  intro f
  induction f with
  | zero => intro start cuts m c _ h; simp [execLoop] at h
  | succ f ih =>
    intro start cuts m c hs h
    rw [execLoop] at h
    split at h
    · cases h
    · split at h
      · rename_i p1 m1 c1 hrec
        injection h with e1 e2
        subst e1; subst e2
        exact ⟨start, cuts, p1, hs, hrec⟩
      · cases h
      · split at h
        · cases h
        · exact ih _ _ _ _ (rxLen_in cx.subj start hs) h

/-- the marks of a successful `regexec` on a compiled pattern: 2·ngrps of them, every group `j ≥ 1` unset or a pair
    `a ≤ b` inside the subject -/
theorem regexec_marks {pat : Bytes} {flg : Nat} {prog : Prog} (hc : regcomp pat flg = some (some prog))
    (subj : Bytes) (nsub eflg nd K : Nat) (hK : 1 ≤ K) (m : Marks) (c : Nat) (subs : List (Int × Int))
    (hr : regexec prog subj nsub eflg nd (2 * K) = (ExecRes.found m c, subs)) :
    m.length = 2 * (2 * K) ∧ ∀ j, 1 ≤ j → 2 * j + 1 < m.length → PairAt m subj.length j := by
  unfold regcomp at hc
  split at hc
  · cases hc
  · cases hc
  · rename_i t0 hparse
    split at hc
    · cases hc
    injection hc with hc; injection hc with hc
    have hcode : prog.code = [Inst.mark 0] ++ emit (grpnum t0 1).1 1 ++ [Inst.mark 1, Inst.mtch] := by rw [← hc]
    unfold regexec at hr
    simp only [] at hr
    split at hr
    · cases hr
    · split at hr
      · rename_i m' c' hex
        injection hr with h1 h2
        injection h1 with hm hc'
        subst hm; subst hc'
        obtain ⟨s, cuts, p, hs, hrec⟩ := execLoop_found ⟨prog.code, subj, prog.flg ||| eflg, nd, 2 * K⟩ _ _ _ _ _
          (Nat.zero_le _) hex
        obtain ⟨_, hple, _⟩ := offsets_in_range ⟨prog.code, subj, prog.flg ||| eflg, nd, 2 * K⟩ s cuts p m' c' hs hrec
        obtain ⟨m1, hM, hm1⟩ := regcomp_sound (cx := ⟨prog.code, subj, prog.flg ||| eflg, nd, 2 * K⟩)
          (grpnum t0 1).1 hcode (by show 1 < 2 * K; omega) s cuts p _ _ hrec
        have hsp := matches_span _ _ _ hM
        have hlen1 : m1.length = 2 * (2 * K) := by
          have := hsp.2.1
          simp only [List.length_set, marks0, List.length_replicate] at this
          exact this
        have hp0 : Paired (fun j => j = 0) (s, (marks0 (2 * K)).set 0 (s : Int)) := by
          intro j hj hl
          left
          have hj1 : 1 ≤ j := by omega
          simp only [List.length_set, marks0, List.length_replicate] at hl
          constructor
          · rw [List.getElem?_set_ne (by omega)]
            simp [marks0, List.getElem?_replicate]; omega
          · rw [List.getElem?_set_ne (by omega)]
            simp [marks0, List.getElem?_replicate]; omega
        have hpaired := matches_paired (subj := subj) (flg := prog.flg ||| eflg) K rfl (grpnum t0 1).1 (grpnum_fresh t0 1)
          (fun j => j = 0) _ _ (by
            intro i hi
            have := markIdx_grpnum t0 1 i hi
            omega) hM hp0
        subst hm1
        refine ⟨by rw [List.length_set]; exact hlen1, ?_⟩
        intro j hj hl
        rw [List.length_set] at hl
        exact ((hpaired j (by omega) hl).mono hple).congr (List.getElem?_set_ne (by omega)) (List.getElem?_set_ne (by omega))
      · rename_i r hnf
        injection hr with h1 h2
        exact absurd h1 (by intro h; exact hnf m c h)

end Neatvi.Lemmas.C05e
