import NeatviVerif.Model.Render
import NeatviVerif.Lemmas.C19dRuns
/-!
# C19d lemmas, part 2: the emission loop of `led_render` on an arbitrary table

The reference row `rowRef` and the proof that `renderRow.emit` computes it, for every table.
-/
namespace Neatvi.Lemmas.C19d
open Neatvi Neatvi.Uc Neatvi.Ren Neatvi.Render

/-! ### the reference -/

/-- the text `led_render` writes for character `i` when it occupies `n` columns: its placeholder or
    shaped form, itself if printable, else `n` blanks -/
def charText (shape : Bool) (chs : List Bytes) (codes : List Nat) (i n : Nat) : Bytes :=
  match translate shape chs codes i with
  | some t => t
  | none =>
    if ucIsPrint (Bytes.hd (chs.getD i [])) then
      (chs.getD i []).take (max 1 (ucLen (Bytes.hd (chs.getD i []))))
    else List.replicate n 32

/-- the text of one run of the table: blanks for unoccupied columns, the character's text otherwise -/
def runText (shape : Bool) (chs : List Bytes) (codes : List Nat) : Option Nat × Nat → Bytes
  | (none, n) => List.replicate n 32
  | (some i, n) => charText shape chs codes i n

/-- the text of a list of runs -/
def rowText (shape : Bool) (chs : List Bytes) (codes : List Nat) (rs : List (Option Nat × Nat)) : Bytes :=
  rs.flatMap (runText shape chs codes)

/-- the occupied columns among the first `j`: one more than the last occupied column, 0 if none -/
def occN (off : List (Option Nat)) (j : Nat) : Nat :=
  (List.range j).foldl (fun m k => if (off.getD k none).isSome then k + 1 else m) 0

/-- one more than the last occupied column of the table, 0 if there is none -/
def occ (off : List (Option Nat)) : Nat := occN off off.length

/-- the number of window columns the row covers: up to the last occupied column; when no column is
    occupied `led_render`'s `clast` is 0 and the columns `cbeg ≤ c < cend` with `c ≤ 0` are covered -/
def shown (off : List (Option Nat)) (cbeg cend : Int) : Nat :=
  if occ off = 0 then (min cend 1 - cbeg).toNat else occ off

/-- the items `led_render` emits, in order, each with the number of columns it stands for:
    the maximal runs of the covered part of the table -/
def items (off : List (Option Nat)) (cbeg cend : Int) : List (Option Nat × Nat) :=
  runs (off.take (shown off cbeg cend))

/-- the reference row -/
def rowRef (chs : List Bytes) (codes : List Nat) (shape : Bool) (off : List (Option Nat)) (cbeg cend : Int) : Bytes :=
  rowText shape chs codes (items off cbeg cend)

/-- `clast` of `led_render` -/
def lastCol (off : List (Option Nat)) (cbeg : Int) (w : Nat) : Int :=
  (List.range w).foldl (fun (cl : Int) k => if (off.getD k none).isSome then cbeg + k else cl) 0

/-! ### the last occupied column -/

theorem occN_succ (off : List (Option Nat)) (j : Nat) :
    occN off (j + 1) = if (off.getD j none).isSome then j + 1 else occN off j := by
  unfold occN
  rw [List.range_succ, List.foldl_append]
  rfl

theorem occN_spec (off : List (Option Nat)) (j : Nat) :
    occN off j ≤ j ∧ (∀ k, occN off j ≤ k → k < j → off.getD k none = none) ∧
    (0 < occN off j → (off.getD (occN off j - 1) none).isSome = true) := by
  induction j with
  | zero => exact ⟨Nat.le_refl _, fun k _ hk => absurd hk (Nat.not_lt_zero _), fun h => absurd h (Nat.lt_irrefl _)⟩
  | succ j ih =>
    obtain ⟨h1, h2, h3⟩ := ih
    rw [occN_succ]
    by_cases hs : (off.getD j none).isSome = true
    · rw [if_pos hs]
      exact ⟨Nat.le_refl _, fun k a b => by omega, fun _ => hs⟩
    · rw [if_neg hs]
      refine ⟨by omega, ?_, h3⟩
      intro k a b
      by_cases hkj : k = j
      · subst hkj
        cases hg : off.getD k none with
        | none => rfl
        | some x => rw [hg] at hs; exact absurd rfl hs
      · exact h2 k a (by omega)

theorem lastCol_eq (off : List (Option Nat)) (cbeg : Int) (j : Nat) :
    lastCol off cbeg j = if occN off j = 0 then 0 else cbeg + (occN off j : Int) - 1 := by
  induction j with
  | zero => rfl
  | succ j ih =>
    rw [occN_succ]
    unfold lastCol at ih ⊢
    rw [List.range_succ, List.foldl_append, ih]
    simp only [List.foldl_cons, List.foldl_nil]
    by_cases hs : (off.getD j none).isSome = true
    · rw [if_pos hs, if_pos hs, if_neg (by omega)]
      omega
    · rw [if_neg hs, if_neg hs]

theorem occ_le (off : List (Option Nat)) : occ off ≤ off.length := (occN_spec off off.length).1

/-- beyond the last occupied column there is nothing -/
theorem occ_none_after (off : List (Option Nat)) (k : Nat) (hk : occ off ≤ k) : off.getD k none = none := by
  by_cases hl : k < off.length
  · exact (occN_spec off off.length).2.1 k hk hl
  · rw [List.getD_eq_getElem?_getD, List.getElem?_eq_none (by omega)]; rfl

/-- the last occupied column is occupied -/
theorem occ_last_some (off : List (Option Nat)) (h : 0 < occ off) : (off.getD (occ off - 1) none).isSome = true :=
  (occN_spec off off.length).2.2 h

/-! ### texts -/

theorem rowText_nil (shape : Bool) (chs : List Bytes) (codes : List Nat) : rowText shape chs codes [] = [] := rfl

theorem rowText_cons (shape : Bool) (chs : List Bytes) (codes : List Nat) (p : Option Nat × Nat)
    (rs : List (Option Nat × Nat)) :
    rowText shape chs codes (p :: rs) = runText shape chs codes p ++ rowText shape chs codes rs := by
  unfold rowText; rw [List.flatMap_cons]

theorem rowText_append (shape : Bool) (chs : List Bytes) (codes : List Nat) (a b : List (Option Nat × Nat)) :
    rowText shape chs codes (a ++ b) = rowText shape chs codes a ++ rowText shape chs codes b := by
  unfold rowText; rw [List.flatMap_append]

/-- one more unoccupied column in front is one more blank in front -/
theorem rowText_runs_none (shape : Bool) (chs : List Bytes) (codes : List Nat) (r : List (Option Nat)) :
    rowText shape chs codes (runs (none :: r)) = 32 :: rowText shape chs codes (runs r) := by
  cases h : runs r with
  | nil => rw [runs_cons_nil none r h]; rfl
  | cons q t =>
    obtain ⟨b, n⟩ := q
    cases b with
    | none =>
      rw [runs_cons_eq none r n t h, rowText_cons, rowText_cons]
      show List.replicate (n + 1) 32 ++ _ = 32 :: (List.replicate n 32 ++ _)
      rw [List.replicate_succ, List.cons_append]
    | some i =>
      rw [runs_cons_ne none (some i) r n t h (by simp), rowText_cons]
      rfl

/-! ### the loop -/

/-- from window column `k` on, the loop emits the text of the runs of the covered part `off.take n`
    of the table from `k` on — whatever the table -/
theorem emit_runs (shape : Bool) (cbeg cend : Int) (chs : List Bytes) (codes : List Nat)
    (off : List (Option Nat)) (clast : Int) (n : Nat)
    (hlen : off.length = (cend - cbeg).toNat) (hn : n ≤ off.length)
    (htail : ∀ k, n ≤ k → off.getD k none = none)
    (hcl : ∀ k : Nat, k < off.length → (cbeg + (k : Int) ≤ clast ↔ k < n)) :
    ∀ (fuel k : Nat) (acc : Bytes), k ≤ n → n - k ≤ fuel →
      renderRow.emit shape cbeg cend chs codes off clast fuel (cbeg + (k : Int)) acc =
        acc ++ rowText shape chs codes (runs ((off.take n).drop k)) := by
  have hLlen : (off.take n).length = n := by rw [List.length_take]; omega
  have hLget : ∀ j, j < n → (off.take n).getD j none = off.getD j none := by
    intro j hj
    rw [List.getD_eq_getElem?_getD, List.getD_eq_getElem?_getD, List.getElem?_take_of_lt hj]
  intro fuel
  induction fuel using Nat.strongRecOn with
  | _ fuel ih =>
    intro k acc hkn hf
    by_cases hk : k < n
    · obtain ⟨f, rfl⟩ : ∃ f, fuel = f + 1 := ⟨fuel - 1, by omega⟩
      have hkw : k < off.length := by omega
      rw [renderRow.emit]
      have hcond : (decide (cbeg + (k : Int) < cend) && decide (cbeg + (k : Int) ≤ clast)) = true := by
        simp only [Bool.and_eq_true, decide_eq_true_eq]
        exact ⟨by omega, (hcl k hkw).mpr hk⟩
      have htn : (cbeg + (k : Int) - cbeg).toNat = k := by omega
      rw [if_pos hcond, htn]
      have hkL : k < (off.take n).length := by omega
      have hLk : (off.take n)[k] = off.getD k none := by
        have := hLget k hk
        rw [List.getD_eq_getElem?_getD, List.getElem?_eq_getElem hkL] at this
        exact this
      cases hg : off.getD k none with
      | none =>
        simp only []
        rw [show cbeg + (k : Int) + 1 = cbeg + ((k + 1 : Nat) : Int) by omega,
          ih f (Nat.lt_succ_self _) (k + 1) _ (by omega) (by omega)]
        rw [List.drop_eq_getElem_cons hkL, hLk, hg, rowText_runs_none, List.append_assoc]
        rfl
      | some oc =>
        simp only []
        -- the span
        have hN : (cend - (cbeg + (k : Int))).toNat = off.length - k := by omega
        rw [hN]
        obtain ⟨s1, s2, s3⟩ := takeWhile_range_spec (fun d => off.getD (k + d) none == some oc) (off.length - k)
        generalize hsp : ((List.range (off.length - k)).takeWhile
          (fun d => off.getD (k + d) none == some oc)).length = s at s1 s2 s3 ⊢
        have s2' : ∀ d, d < s → off.getD (k + d) none = some oc := fun d hd => by simpa using s2 d hd
        have hs1 : 1 ≤ s := by
          apply Nat.pos_of_ne_zero
          intro h0
          subst h0
          have := s3 (by omega)
          rw [Nat.add_zero, hg] at this
          simp at this
        have hsn : k + s ≤ n := by
          apply Nat.le_of_not_lt
          intro hlt
          have h1 := s2' (s - 1) (by omega)
          have h2 := htail (k + (s - 1)) (by omega)
          rw [h1] at h2
          cases h2
        rw [show cbeg + (k : Int) + ((max 1 s : Nat) : Int) = cbeg + ((k + s : Nat) : Int) by
          rw [Nat.max_eq_right hs1]; omega]
        rw [ih f (Nat.lt_succ_self _) (k + s) _ hsn (by omega)]
        -- the reference
        have hdrop := drop_eq_replicate_append (none : Option Nat) (off.take n) (some oc) k s (by omega)
          (fun j hj => by rw [hLget _ (by omega)]; exact s2' j hj)
        have hhead : ((off.take n).drop (k + s)).head? ≠ some (some oc) := by
          rw [List.head?_drop]
          by_cases hlt : k + s < n
          · rw [List.getElem?_take_of_lt hlt]
            have := s3 (by omega)
            intro he
            rw [List.getD_eq_getElem?_getD, he] at this
            simp at this
          · rw [List.getElem?_eq_none (by omega)]
            exact fun h => by cases h
        rw [hdrop, runs_replicate_append (some oc) s hs1 _ hhead, rowText_cons, List.append_assoc]
        rfl
    · have hkeq : k = n := by omega
      subst hkeq
      have hdn : (off.take k).drop k = [] := List.drop_eq_nil_of_le (by omega)
      rw [hdn]
      show _ = acc ++ []
      rw [List.append_nil]
      cases fuel with
      | zero => rw [renderRow.emit]
      | succ f =>
        rw [renderRow.emit]
        have hcond : ¬ (decide (cbeg + (k : Int) < cend) && decide (cbeg + (k : Int) ≤ clast)) = true := by
          simp only [Bool.and_eq_true, decide_eq_true_eq]
          intro h
          by_cases hkw : k < off.length
          · have := (hcl k hkw).mp h.2; omega
          · omega
        rw [if_neg hcond]

/-- (E1) the loop of `led_render`, started as `led_render` starts it, emits the reference row:
    for every table with one entry per window column -/
theorem emit_eq_rowRef (shape : Bool) (cbeg cend : Int) (chs : List Bytes) (codes : List Nat)
    (off : List (Option Nat)) (hlen : off.length = (cend - cbeg).toNat) :
    renderRow.emit shape cbeg cend chs codes off (lastCol off cbeg (cend - cbeg).toNat)
        ((cend - cbeg).toNat + 2) cbeg [] =
      rowRef chs codes shape off cbeg cend := by
  have hcl0 := lastCol_eq off cbeg off.length
  rw [hlen] at hcl0
  have hocc : occN off (cend - cbeg).toNat = occ off := by rw [← hlen]; rfl
  rw [hocc] at hcl0
  have hle := occ_le off
  have hmain := emit_runs shape cbeg cend chs codes off (lastCol off cbeg (cend - cbeg).toNat) (shown off cbeg cend)
    hlen ?_ ?_ ?_ ((cend - cbeg).toNat + 2) 0 [] (Nat.zero_le _) ?_
  · rw [Int.natCast_zero, Int.add_zero, List.drop_zero, List.nil_append] at hmain
    exact hmain
  · unfold shown; split <;> omega
  · intro k hk
    by_cases h0 : occ off = 0
    · exact occ_none_after off k (by omega)
    · unfold shown at hk
      rw [if_neg h0] at hk
      exact occ_none_after off k hk
  · intro k hk
    rw [hcl0]
    unfold shown
    by_cases h0 : occ off = 0
    · rw [if_pos h0, if_pos h0]; omega
    · rw [if_neg h0, if_neg h0]; omega
  · have : shown off cbeg cend ≤ off.length := by unfold shown; split <;> omega
    omega

/-- `renderRow`, with its local definitions named -/
theorem renderRow_eq (orc : Dir.Oracle) (o : Opts) (shape : Bool) (s0 : Bytes) (cbeg cend : Int) :
    renderRow orc o shape s0 cbeg cend =
      (renPosition orc o s0).map (fun pos =>
        renderRow.emit shape cbeg cend (chrs s0) ((chrs s0).map (fun c => (ucCode c).getD 0))
          (offTable (chrs s0) pos (Dir.dirContext orc o.xtd s0) cbeg cend)
          (lastCol (offTable (chrs s0) pos (Dir.dirContext orc o.xtd s0) cbeg cend) cbeg (cend - cbeg).toNat)
          ((cend - cbeg).toNat + 2) cbeg []) := by
  unfold renderRow
  cases renPosition orc o s0 with
  | none => rfl
  | some pos => rfl

end Neatvi.Lemmas.C19d
