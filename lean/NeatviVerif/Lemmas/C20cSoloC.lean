import NeatviVerif.Lemmas.C20cSoloB
/-!
# C20c lemmas, part 14: path expansion, the file writer, the unsaved-changes check, registers,
  the loops of `:s` and `:p` — none looks at the parked buffers (the path of slot 1 excepted)
-/
namespace Neatvi.Lemmas.C20c
open Neatvi Neatvi.Lbuf Neatvi.LbufIo Neatvi.Ex Neatvi.Rset Neatvi.Props.C20 Neatvi.Props.C20b Neatvi.Lemmas.C20b
open Neatvi.Lemmas.ExFrame Neatvi.Lemmas.C02Ex

/-! ### `ex_pathexpand`: `#` reads the path of the alternate buffer -/

/-- the replacement tail names the same alternate file -/
def Alt (L : List (Option Buf)) (ed : Ed) : Prop :=
  (L.getD 0 none).map (·.path) = (ed.bufs.getD 1 none).map (·.path)

theorem pathExpand_go_withTail (L : List (Option Buf)) (ed : Ed) (hA : Alt L ed) (sp : Bool) :
    ∀ (f : Nat) (src dst : Bytes), pathExpand.go (withTail L ed) sp f src dst = pathExpand.go ed sp f src dst := by
  intro f
  induction f with
  | zero => intro src dst; rw [pathExpand.go, pathExpand.go]
  | succ f ih =>
    intro src dst
    cases src with
    | nil => rw [pathExpand.go, pathExpand.go]
    | cons c r =>
      rw [pathExpand.go, pathExpand.go]
      simp only [ih, withTail_cur]
      by_cases h1 : (c == 10 || !sp && (c == 32 || c == 9)) = true
      · simp only [h1, if_true]
      simp only [h1, Bool.false_eq_true, if_false]
      by_cases h2 : (c == 37 || c == 35) = true
      · simp only [h2, if_true]
        by_cases h3 : (c == 35) = true
        · simp only [h3, if_true]
          have e1 : (withTail L ed).bufs.getD 1 none = L.getD 0 none := rfl
          rw [e1]
          unfold Alt at hA
          cases hl : L.getD 0 none with
          | none =>
            rw [hl] at hA
            cases hb : ed.bufs.getD 1 none with
            | none => rfl
            | some b => rw [hb] at hA; cases hA
          | some bl =>
            rw [hl] at hA
            cases hb : ed.bufs.getD 1 none with
            | none => rw [hb] at hA; cases hA
            | some b =>
              rw [hb] at hA
              simp only [Option.map_some, Option.some.injEq] at hA
              simp only [hA]
        · simp only [h3, Bool.false_eq_true, if_false]
          rfl
      simp only [h2, Bool.false_eq_true, if_false]

/-- the end of `ex_pathexpand` -/
def pathFin (ed : Ed) (x : Option (Option Bytes)) : R (Option Bytes) :=
  match x with
  | none => none
  | some none => some (none, ed.show (strOf "pathname \"%\" or \"#\" is not set"))
  | some (some p) => if p.length ≥ 1000 then none else some (some p, ed)

theorem pathExpand_eq (ed : Ed) (src : Bytes) (sp : Bool) :
    pathExpand ed src sp = pathFin ed (pathExpand.go ed sp (src.length + 1) src []) := by
  unfold pathExpand pathFin
  rfl

theorem pathExpand_withTail (L : List (Option Buf)) (ed : Ed) (hA : Alt L ed) (src : Bytes) (sp : Bool) :
    pathExpand (withTail L ed) src sp = tailR L (pathExpand ed src sp) := by
  rw [pathExpand_eq, pathExpand_eq, pathExpand_go_withTail L ed hA]
  unfold pathFin
  cases pathExpand.go ed sp (src.length + 1) src [] with
  | none => rfl
  | some o =>
    cases o with
    | none => rfl
    | some p => simp only [tailR_ite]; rfl

/-- a local step keeps the alternate buffer -/
theorem Alt.loc {L : List (Option Buf)} {ed ed' : Ed} (h : Alt L ed) (hl : Loc ed ed') : Alt L ed' := by
  unfold Alt at h ⊢
  rw [hl.getD 1 (by omega)]; exact h

/-! ### `lbuf_save` -/

theorem putFile_withTail (L : List (Option Buf)) (ed : Ed) (f : File) :
    (withTail L ed).putFile f = withTail L (ed.putFile f) := by
  unfold Ed.putFile
  have : (withTail L ed).files = ed.files := rfl
  rw [this]
  split <;> rfl

/-- the end of `lbuf_save`: the `close` after the writes -/
def saveClose (ed : Ed) (ok : Bool) : R (Option Bytes) :=
  if !ok then
    let (_, ed) := ed.nextFault
    some (some (strOf "write failed"), ed)
  else
    let (fc, ed) := ed.nextFault
    if fc == 101 then some (some (strOf "write failed"), ed) else some (none, ed)

/-- the schedule of the write calls -/
def saveSched (ed : Ed) (n : Nat) : List WOut :=
  (List.range n).map (fun k =>
    match (ed.faults.find? (fun f => f.1 == ed.calls + k)).map (·.2) with
    | some 101 => WOut.err
    | some d => if 49 ≤ d && d ≤ 57 then WOut.cnt (d - 48) else WOut.cnt 1000000000
    | none => WOut.cnt 1000000000)

/-- the state after the write calls: the file holds `data`, `okCalls` calls stamped it, `used` outcomes
    of the schedule are consumed -/
def saveWritten (ed : Ed) (path data : Bytes) (okCalls used : Nat) : Ed :=
  { ed.putFile ⟨path, data, ed.clock + (okCalls : Int)⟩ with clock := ed.clock + (okCalls : Int), calls := ed.calls + used }

theorem saveWritten_withTail (L : List (Option Buf)) (ed : Ed) (path data : Bytes) (okCalls used : Nat) :
    saveWritten (withTail L ed) path data okCalls used = withTail L (saveWritten ed path data okCalls used) := by
  unfold saveWritten
  rw [putFile_withTail]
  rfl

/-- `lbuf_save` after the successful `open`: the writes and the `close` -/
def saveBody (ed : Ed) (lb : Lb) (b e' : Nat) (path old : Bytes) : R (Option Bytes) :=
  match wrFinal lb.lines b e' Gen.WR_BATCH ((lb.lines.foldl (fun m l => max m l.length) Gen.WR_BATCH + 8) * 2)
      (saveSched ed (e' - b + 8)) with
  | none => none
  | some st =>
    saveClose
      (saveWritten ed path (fileAfter old st.out (if st.ok then some st.sz else none))
        ((saveSched ed (e' - b + 8)).length - st.sched.length - (if st.ok then 0 else 1))
        ((saveSched ed (e' - b + 8)).length - st.sched.length))
      st.ok

theorem lbufSave_eq (ed : Ed) (lb : Lb) (b : Nat) (e : Int) (path : Bytes) (force : Bool) (ts : Int) :
    lbufSave ed lb b e path force ts =
      if !force && ed.mtimeOf path > ts then some (some (strOf "write failed: file changed"), ed)
      else if !force && ts ≤ 0 && ed.mtimeOf path ≥ 0 then some (some (strOf "write failed: file exists"), ed)
      else if ed.nextFault.1 == 101 then
        some (some (strOf "write failed: cannot create file"), { ed.nextFault.2 with fired := ed.nextFault.2.fired + 1 })
      else
        saveBody { ed.nextFault.2.putFile ⟨path, ((ed.nextFault.2.findFile path).map (·.data)).getD [], ed.nextFault.2.clock + 1⟩
                    with clock := ed.nextFault.2.clock + 1 }
          lb b (if e < 0 then lb.lines.length else e.toNat) path (((ed.nextFault.2.findFile path).map (·.data)).getD []) := by
  unfold lbufSave saveBody saveClose saveSched saveWritten
  rfl

theorem saveClose_withTail (L : List (Option Buf)) (ed : Ed) (ok : Bool) :
    saveClose (withTail L ed) ok = tailR L (saveClose ed ok) := by
  unfold saveClose
  have h1 : (withTail L ed).nextFault = (ed.nextFault.1, withTail L ed.nextFault.2) := rfl
  rw [h1]
  cases ok
  · rfl
  · simp only [Bool.not_true, Bool.false_eq_true, if_false, tailR_ite]
    rfl

theorem saveBody_withTail (L : List (Option Buf)) (ed : Ed) (lb : Lb) (b e' : Nat) (path old : Bytes) :
    saveBody (withTail L ed) lb b e' path old = tailR L (saveBody ed lb b e' path old) := by
  unfold saveBody
  have h1 : saveSched (withTail L ed) (e' - b + 8) = saveSched ed (e' - b + 8) := rfl
  rw [h1]
  cases wrFinal lb.lines b e' Gen.WR_BATCH ((lb.lines.foldl (fun m l => max m l.length) Gen.WR_BATCH + 8) * 2)
      (saveSched ed (e' - b + 8)) with
  | none => rfl
  | some st =>
    simp only [saveWritten_withTail]
    exact saveClose_withTail L _ st.ok

theorem lbufSave_withTail (L : List (Option Buf)) (ed : Ed) (lb : Lb) (b : Nat) (e : Int) (path : Bytes) (force : Bool)
    (ts : Int) : lbufSave (withTail L ed) lb b e path force ts = tailR L (lbufSave ed lb b e path force ts) := by
  rw [lbufSave_eq, lbufSave_eq]
  have h1 : (withTail L ed).nextFault = (ed.nextFault.1, withTail L ed.nextFault.2) := rfl
  rw [h1]
  simp only [withTail_mtimeOf, withTail_findFile, putFile_withTail, tailR_ite]
  have h2 : ∀ (x : Ed) (c : Int), ({ withTail L x with clock := c } : Ed) = withTail L { x with clock := c } := fun _ _ => rfl
  simp only [h2, saveBody_withTail]
  rfl

theorem lbufSaveP_withTail (L : List (Option Buf)) (ed : Ed) (lb : Lb) (b : Nat) (e : Int) (path : Bytes) (force : Bool)
    (ts : Int) : lbufSaveP (withTail L ed) lb b e path force ts = tailR L (lbufSaveP ed lb b e path force ts) := by
  unfold lbufSaveP
  split
  · have h1 : (withTail L ed).nextFault = (ed.nextFault.1, withTail L ed.nextFault.2) := rfl
    rw [h1]
    simp only [tailR_some]
    split <;> rfl
  · exact lbufSave_withTail L ed lb b e path force ts

/-! ### `bufs_modified(0, msg)` -/

theorem bumpAt0_withTail (L : List (Option Buf)) (ed : Ed) (b : Buf) (hb : ed.bufs.getD 0 none = some b) :
    bumpAt (withTail L ed) 0 b = withTail L (bumpAt ed 0 b) := by
  have e1 : bumpAt ed 0 b = ed.setCur { b with lb := (modified b.lb).2 } := rfl
  have e2 : bumpAt (withTail L ed) 0 b = (withTail L ed).setCur { b with lb := (modified b.lb).2 } := rfl
  rw [e1, e2, withTail_setCur L ed b _ hb]

theorem bufsModified0_withTail (L : List (Option Buf)) (ed : Ed) (msg : Option Bytes) :
    bufsModified (withTail L ed) 0 msg = tailR L (bufsModified ed 0 msg) := by
  cases hb : ed.bufs.getD 0 none with
  | none =>
    unfold bufsModified
    have : (withTail L ed).bufs.getD 0 none = none := hb
    simp only [this, hb]
    rfl
  | some b =>
    have hb' : (withTail L ed).bufs.getD 0 none = some b := hb
    cases hd : (modified b.lb).1 with
    | false =>
      rw [guard_passes_at ed 0 b msg hb hd, guard_passes_at (withTail L ed) 0 b msg hb' hd,
        bumpAt0_withTail L ed b hb]
      rfl
    | true =>
      by_cases haw : ed.xaw = 0
      · rw [guard_refuses_at ed 0 b msg hb hd haw, guard_refuses_at (withTail L ed) 0 b msg hb' hd haw,
          bumpAt0_withTail L ed b hb]
        cases msg <;> rfl
      · -- autowrite
        have hlt : 0 < ed.bufs.length := (getD_some hb).1
        have hlt' : 0 < (withTail L ed).bufs.length := (getD_some hb').1
        unfold bufsModified
        simp only [hb, hb', Ed.modifiedAt, hd, Bool.not_true, Bool.false_eq_true, if_false]
        rw [getD_set_self _ _ _ hlt, getD_set_self _ _ _ hlt']
        simp only []
        have e3 : ({ withTail L ed with bufs := (withTail L ed).bufs.set 0 (some { b with lb := (modified b.lb).2 }) } : Ed)
            = withTail L { ed with bufs := ed.bufs.set 0 (some { b with lb := (modified b.lb).2 }) } :=
          bumpAt0_withTail L ed b hb
        rw [e3]
        have hx : (withTail L ed).xaw = ed.xaw := rfl
        rw [hx]
        by_cases hp : b.path.isEmpty = true
        · simp only [hp, Bool.not_true, Bool.and_false, Bool.false_eq_true, if_false]
          cases msg <;> rfl
        · simp only [hp, Bool.not_false, Bool.and_true, lbufSave_withTail]
          have hne : (ed.xaw != 0) = true := by simpa using haw
          simp only [hne, if_true]
          cases lbufSave { ed with bufs := ed.bufs.set 0 (some { b with lb := (modified b.lb).2 }) }
              (modified b.lb).2 0 (-1) b.path false b.mtime with
          | none => rfl
          | some p => rfl

/-- the guard `if c then bufs_modified(0, …) else pass` -/
theorem guard0_withTail (L : List (Option Buf)) (ed : Ed) (c : Prop) [Decidable c] (msg : Option Bytes) :
    (if c then bufsModified (withTail L ed) 0 msg else some (false, withTail L ed) : R Bool) =
      tailR L (if c then bufsModified ed 0 msg else some (false, ed)) := by
  split
  · exact bufsModified0_withTail L ed msg
  · rfl

/-! ### registers, the loops of `:s` and `:p` -/

theorem regGet_withTail (L : List (Option Buf)) (ed : Ed) (c : Nat) : regGet (withTail L ed) c = regGet ed c := rfl

theorem foldl_print_withTail (L : List (Option Buf)) (b : Int) : ∀ (l : List Nat) (ed : Ed),
    l.foldl (fun (ed : Ed) (k : Nat) => match ed.line (b + (k : Int)) with | some l => ed.print l | none => ed) (withTail L ed) =
    withTail L (l.foldl (fun (ed : Ed) (k : Nat) => match ed.line (b + (k : Int)) with | some l => ed.print l | none => ed) ed) := by
  intro l
  induction l with
  | nil => intro ed; rfl
  | cons k l ih =>
    intro ed
    rw [List.foldl_cons, List.foldl_cons, ← ih]
    congr 1
    rw [withTail_line]
    cases ed.line (b + (k : Int)) <;> rfl

theorem setOpt_withTail (L : List (Option Buf)) (ed : Ed) (v : String) (val : Int) :
    setOpt (withTail L ed) v val = withTail L (setOpt ed v val) := by
  unfold setOpt
  repeat' split
  all_goals rfl

end Neatvi.Lemmas.C20c
