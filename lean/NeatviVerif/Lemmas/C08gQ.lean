import NeatviVerif.Lemmas.C08gP
/-!
# C08g: the round trips `yyp`, `ddP`, `xp`, `dwP` as two iterations of `vi()`
-/
set_option linter.unusedSimpArgs false
set_option linter.unusedVariables false
namespace Neatvi.Lemmas.C08g
open Neatvi Neatvi.Uc Neatvi.Vi Neatvi.Ex Neatvi.Lbuf Neatvi.Mot Neatvi.Spec
open Neatvi.Lemmas.C08 Neatvi.Lemmas.C08b Neatvi.Lemmas.C08f
open Neatvi.Lemmas.C09 (finRec pending)
open Neatvi.Props.C07c (Utf8Buf refBufU)
open Neatvi.Props.C08f

theorem StepDone.trans {s s1 s2 : VS} {r1 r2 : Bytes} (h1 : StepDone s s1 r1) (h2 : StepDone s1 s2 r2) : StepDone s s2 r2 :=
  ⟨h2.idle, h2.wf, h2.pending, h2.xkmap.trans h1.xkmap, h2.xai.trans h1.xai, h2.xtd.trans h1.xtd⟩

/-! ### list facts -/

theorem rowsText_one (ls : List Bytes) (r : Int) (L : Bytes) (h0 : 0 ≤ r) (h : ls[r.toNat]? = some L) :
    rowsText ls r r = [L].flatten := by
  unfold rowsText
  rw [show r.toNat - r.toNat + 1 = 1 by omega, List.take_one, List.head?_drop, h]
  rfl

theorem take_drop_row {α : Type} (ls : List α) (k : Nat) (L : α) (h : ls[k]? = some L) :
    ls.take k ++ [L] ++ ls.drop (k + 1) = ls := by
  have hk : k < ls.length := (List.getElem?_eq_some_iff.mp h).1
  have e1 : ls.drop k = L :: ls.drop (k + 1) := by
    rw [List.drop_eq_getElem?_toList_append, h]; rfl
  calc ls.take k ++ [L] ++ ls.drop (k + 1) = ls.take k ++ (L :: ls.drop (k + 1)) := by simp
    _ = ls.take k ++ ls.drop k := by rw [e1]
    _ = ls := List.take_append_drop k ls

theorem take_of_cut {α : Type} (ls : List α) (k : Nat) (mid : List α) (tl : List α) (hk : k ≤ ls.length) :
    (ls.take k ++ mid ++ tl).take k = ls.take k := by
  rw [List.append_assoc, List.take_append_of_le_length (by simp; omega), List.take_take, Nat.min_self]

theorem drop_of_cut {α : Type} (ls : List α) (k : Nat) (mid : List α) (tl : List α) (hk : k ≤ ls.length) :
    (ls.take k ++ mid ++ tl).drop (k + mid.length) = tl := by
  rw [List.drop_append_of_le_length (by simp; omega)]
  have : (ls.take k ++ mid).length = k + mid.length := by simp; omega
  rw [← this, List.drop_length, List.nil_append]

theorem take_len_succ {α : Type} (pre post : List α) (b : α) : (pre ++ b :: post).take (pre.length + 1) = pre ++ [b] := by
  rw [show pre ++ b :: post = (pre ++ [b]) ++ post by simp, List.take_append_of_le_length (by simp),
    List.take_of_length_le (by simp)]

theorem drop_len_succ {α : Type} (pre post : List α) (b : α) : (pre ++ b :: post).drop (pre.length + 1) = post := by
  have : (pre ++ [b]).length = pre.length + 1 := by simp
  rw [show pre ++ b :: post = (pre ++ [b]) ++ post by simp, ← this, List.drop_left]

/-- replacing the cursor row twice -/
theorem rowIs_trans {s s1 s2 : VS} {b1 b2 : List Nat} (h1 : RowIs s s1 b1) (h2 : RowIs s1 s2 b2) (hx : s1.ed.xrow = s.ed.xrow)
    (hr0 : 0 ≤ s.ed.xrow) (hlen : s.ed.xrow < lenOf s) : RowIs s s2 b2 := by
  unfold RowIs at h1 h2 ⊢
  have hk : s.ed.xrow.toNat ≤ (lines s).length := by unfold Vi.lenOf at hlen; omega
  rw [h2, hx, h1, take_of_cut _ _ _ _ hk]
  have := drop_of_cut (lines s) s.ed.xrow.toNat [encStr (b1 ++ [10])] ((lines s).drop (s.ed.xrow.toNat + 1)) hk
  simp only [List.length_singleton] at this
  rw [this]

/-! ### the round trips -/

/-- **`yyp` duplicates the cursor line.**  Two iterations of `vi()` on the keys `y y p`: the line `L` under the cursor
appears a second time below itself, the cursor is on the copy -/
theorem yyp_steps (s : VS) (L : Bytes) (rest : Bytes) (hi : Idle s) (hwf : RegsWf s.ed.regs)
    (hp : pending s = 121 :: 121 :: 112 :: rest) (h0 : 0 ≤ s.ed.xrow)
    (hline : (lines s)[s.ed.xrow.toNat]? = some L) (hL : Props.C01.WfLine L) :
    ∃ s1 s2, viStep s = Res.ok () s1 ∧ viStep s1 = Res.ok () s2 ∧ StepDone s s2 rest ∧
      lines s2 = (lines s).take (s.ed.xrow.toNat + 1) ++ [L] ++ (lines s).drop (s.ed.xrow.toNat + 1) ∧
      s2.ed.xrow = s.ed.xrow + 1 := by
  have hrlt : s.ed.xrow.toNat < (lines s).length := (List.getElem?_eq_some_iff.mp hline).1
  have h1 : s.ed.xrow < lenOf s := by show s.ed.xrow < ((lines s).length : Int); omega
  obtain ⟨s1, e1, d1, l1, x1, r1⟩ := yy_step s (112 :: rest) hi hwf hp h0 h1
  rw [rowsText_one _ _ L h0 hline] at r1
  obtain ⟨s2, e2, d2, l2, x2, r2⟩ := put_lines_step 112 (by simp) s1 [L] 1 rest d1.idle d1.wf d1.pending
    (by rw [x1]; exact h0) (by rw [x1]; unfold Vi.lenOf; rw [l1]; exact h1) r1 (by decide)
    (by intro l hl; simp at hl; subst hl; exact hL) (by simp)
  refine ⟨s1, s2, e1, e2, d1.trans d2, ?_, ?_⟩
  · rw [l2, l1, x1]
    simp only [if_true]
    rw [show (s.ed.xrow + 1).toNat = s.ed.xrow.toNat + 1 by omega]
  · rw [x2, x1]; simp

/-- **`ddP` restores the text** when the cursor line is not the last: two iterations on the keys `d d P` leave every
line where it was, and the cursor on its row -/
theorem ddP_steps (s : VS) (L : Bytes) (rest : Bytes) (hi : Idle s) (hwf : RegsWf s.ed.regs)
    (hp : pending s = 100 :: 100 :: 80 :: rest) (h0 : 0 ≤ s.ed.xrow) (hnl : s.ed.xrow + 1 < lenOf s)
    (hline : (lines s)[s.ed.xrow.toNat]? = some L) (hL : Props.C01.WfLine L) :
    ∃ s1 s2, viStep s = Res.ok () s1 ∧ viStep s1 = Res.ok () s2 ∧ StepDone s s2 rest ∧
      lines s1 = (lines s).take s.ed.xrow.toNat ++ (lines s).drop (s.ed.xrow.toNat + 1) ∧
      lines s2 = lines s ∧ s2.ed.xrow = s.ed.xrow := by
  have hn : lenOf s = ((lines s).length : Int) := rfl
  obtain ⟨s1, e1, d1, l1, x1, r1⟩ := dd_step s (80 :: rest) hi hwf hp h0 (by omega)
  rw [rowsText_one _ _ L h0 hline] at r1
  rw [show min s.ed.xrow (max 0 (lenOf s - 2)) = s.ed.xrow by omega] at x1
  have hlen1 : lenOf s1 = lenOf s - 1 := by
    unfold Vi.lenOf; rw [l1]
    simp only [List.length_append, List.length_take, List.length_drop]
    omega
  obtain ⟨s2, e2, d2, l2, x2, r2⟩ := put_lines_step 80 (by simp) s1 [L] 1 rest d1.idle d1.wf d1.pending
    (by rw [x1]; exact h0) (by rw [x1, hlen1]; omega) r1 (by decide)
    (by intro l hl; simp at hl; subst hl; exact hL) (by simp)
  refine ⟨s1, s2, e1, e2, d1.trans d2, l1, ?_, ?_⟩
  · rw [l2, x1]
    simp only [show ¬ ((80 : Nat) = 112) by decide, if_false, Int.add_zero]
    have hk : s.ed.xrow.toNat ≤ (lines s).length := by omega
    have h1 := take_of_cut (lines s) s.ed.xrow.toNat [] ((lines s).drop (s.ed.xrow.toNat + 1)) hk
    have h2 := drop_of_cut (lines s) s.ed.xrow.toNat [] ((lines s).drop (s.ed.xrow.toNat + 1)) hk
    simp only [List.append_nil, List.length_nil, Nat.add_zero] at h1 h2
    rw [l1, h1, h2]
    exact take_drop_row (lines s) _ L hline
  · rw [x2, x1]; simp

/-- **`xp` swaps two characters.**  The cursor row is `pre ++ a :: b :: post`, the cursor on `a`: two iterations on the
keys `x p` leave `pre ++ b :: a :: post`, the cursor on `a` -/
theorem xp_steps (s : VS) (pre post : List Nat) (a b : Nat) (rest : Bytes) (hi : Idle s) (hwf : RegsWf s.ed.regs)
    (hp : pending s = 120 :: 112 :: rest) (hrow : OnRow s (pre ++ a :: b :: post) pre.length) :
    ∃ s1 s2, viStep s = Res.ok () s1 ∧ viStep s1 = Res.ok () s2 ∧ StepDone s s2 rest ∧
      RowIs s s1 (pre ++ b :: post) ∧ RowIs s s2 (pre ++ b :: a :: post) ∧
      s2.ed.xrow = s.ed.xrow ∧ s2.ed.xoff = ((pre.length + 1 : Nat) : Int) := by
  have hrlt : s.ed.xrow.toNat < (lines s).length := (List.getElem?_eq_some_iff.mp hrow.line).1
  have h1 : s.ed.xrow < lenOf s := by show s.ed.xrow < ((lines s).length : Int); have := hrow.row0; omega
  have t1 : (pre ++ a :: b :: post).take pre.length = pre := List.take_left
  have t2 : (pre ++ a :: b :: post).drop (pre.length + 1) = b :: post := drop_len_succ pre (b :: post) a
  have t3 : ((pre ++ a :: b :: post).take (pre.length + 1)).drop pre.length = [a] := by
    rw [take_len_succ, List.drop_left]
  obtain ⟨s1, e1, d1, l1, x1, o1, r1⟩ := x_step s _ pre.length (112 :: rest) hi hwf hp hrow (by simp)
  rw [t1, t2] at l1
  rw [t3] at r1
  have hv := hrow.valid
  have h10 := hrow.no10
  have hrow1 : OnRow s1 (pre ++ b :: post) pre.length :=
    onRow_of_rowIs hrow l1 x1 o1 (fun c hc => hv c (by simp at hc ⊢; rcases hc with hc | hc | hc <;> simp [hc]))
      (fun hc => h10 (by simp at hc ⊢; rcases hc with hc | hc | hc <;> simp [hc])) (by simp)
  obtain ⟨s2, e2, d2, l2, x2, o2, r2⟩ := put_chars_step 112 (by simp) s1 (pre ++ b :: post) [a] pre.length rest d1.idle d1.wf
    d1.pending hrow1 r1 (fun c hc => hv c (by simp at hc ⊢; simp [hc])) (fun hc => h10 (by simp at hc ⊢; simp [← hc])) (by simp)
  simp only [if_true] at l2 o2
  have u1 : (pre ++ b :: post).take (pre.length + 1) = pre ++ [b] := take_len_succ pre post b
  have u2 : (pre ++ b :: post).drop (pre.length + 1) = post := drop_len_succ pre post b
  rw [u1, u2, show pre ++ [b] ++ [a] ++ post = pre ++ b :: a :: post by simp] at l2
  refine ⟨s1, s2, e1, e2, d1.trans d2, l1, rowIs_trans l1 l2 x1 hrow.row0 h1, by rw [x2, x1], ?_⟩
  rw [o2]
  simp

/-- **`dwP` restores the text** when the next word starts at `t` on the same row (`o < t < |body|`): two iterations on
the keys `d w P` leave the row as it was; the cursor is on the last character that was put back -/
theorem dwP_steps (s : VS) (body : List Nat) (o t : Nat) (rest : Bytes) (hi : Idle s) (hwf : RegsWf s.ed.regs)
    (hp : pending s = 100 :: 119 :: 80 :: rest) (hrow : OnRow s body o) (hu : Utf8Buf (lines s))
    (href : Motion.wordFwdRaw false (refBufU (lines s)) ⟨s.ed.xrow.toNat, o⟩ 1 = ⟨s.ed.xrow.toNat, t⟩)
    (hot : o < t) (htl : t < body.length) :
    ∃ s1 s2, viStep s = Res.ok () s1 ∧ viStep s1 = Res.ok () s2 ∧ StepDone s s2 rest ∧
      RowIs s s1 (body.take o ++ body.drop t) ∧ lines s2 = lines s ∧
      s2.ed.xrow = s.ed.xrow ∧ s2.ed.xoff = ((t - 1 : Nat) : Int) := by
  have hrlt : s.ed.xrow.toNat < (lines s).length := (List.getElem?_eq_some_iff.mp hrow.line).1
  have h1 : s.ed.xrow < lenOf s := by show s.ed.xrow < ((lines s).length : Int); have := hrow.row0; omega
  obtain ⟨s1, e1, d1, l1, x1, o1, r1⟩ := dw_step s body o t (80 :: rest) hi hwf hp hrow hu href hot htl
  have hv := hrow.valid
  have h10 := hrow.no10
  have hv1 : ∀ c ∈ body.take o ++ body.drop t, ValidCp c := by
    intro c hc
    rcases List.mem_append.mp hc with hc | hc
    · exact hv c (List.mem_of_mem_take hc)
    · exact hv c (List.mem_of_mem_drop hc)
  have h101 : 10 ∉ body.take o ++ body.drop t := by
    intro hc
    rcases List.mem_append.mp hc with hc | hc
    · exact h10 (List.mem_of_mem_take hc)
    · exact h10 (List.mem_of_mem_drop hc)
  have hrow1 : OnRow s1 (body.take o ++ body.drop t) o :=
    onRow_of_rowIs hrow l1 x1 o1 hv1 h101 (by simp [List.length_take, List.length_drop]; omega)
  have hmid : (body.take t).drop o ≠ [] := by
    intro h
    have := congrArg List.length h
    simp [List.length_take, List.length_drop] at this
    omega
  obtain ⟨s2, e2, d2, l2, x2, o2, r2⟩ := put_chars_step 80 (by simp) s1 (body.take o ++ body.drop t) ((body.take t).drop o) o rest
    d1.idle d1.wf d1.pending hrow1 r1 (fun c hc => hv c (List.mem_of_mem_take (List.mem_of_mem_drop hc)))
    (fun hc => h10 (List.mem_of_mem_take (List.mem_of_mem_drop hc))) hmid
  simp only [show ¬ ((80 : Nat) = 112) by decide, if_false, Nat.add_zero] at l2 o2
  have u1 : (body.take o ++ body.drop t).take o = body.take o := by
    rw [List.take_append_of_le_length (by simp [List.length_take]; omega), List.take_take, Nat.min_self]
  have u2 : (body.take o ++ body.drop t).drop o = body.drop t := by
    have : (body.take o).length = o := by simp [List.length_take]; omega
    rw [List.drop_append_of_le_length (by omega)]
    conv => lhs; rw [← this]
    simp
  have u3 : body.take o ++ (body.take t).drop o ++ body.drop t = body := by
    have : body.take o = (body.take t).take o := by rw [List.take_take]; congr 1; omega
    rw [this, List.take_append_drop, List.take_append_drop]
  rw [u1, u2, u3] at l2
  have l2' := rowIs_trans l1 l2 x1 hrow.row0 h1
  refine ⟨s1, s2, e1, e2, d1.trans d2, l1, ?_, by rw [x2, x1], ?_⟩
  · unfold RowIs at l2'
    rw [l2']
    exact take_drop_row (lines s) _ _ hrow.line
  · rw [o2]
    simp [List.length_take, List.length_drop]
    omega

end Neatvi.Lemmas.C08g
