import NeatviVerif.Lemmas.C08gD
/-!
# C08g: the command dispatcher `commandTail` (the `switch` of `vi()`) on the editing keys

`c d y > <` (an operator: `vc_motion`), `p P` (`vc_put`), `J` (`vc_join`), `r` (`vc_replace`), `~` (= `g~ SPC`),
`g~ gu gU` (`vc_motion` with the second key).  In each case: the mark `^` is set at the cursor, the command
runs, and `finRec` (C09) records it for `.`.
-/
set_option linter.unusedSimpArgs false
set_option linter.unusedVariables false
namespace Neatvi.Lemmas.C08g
open Neatvi Neatvi.Uc Neatvi.Vi Neatvi.Ex Neatvi.Lbuf Neatvi.Mot Neatvi.Spec
open Neatvi.Lemmas.C08 Neatvi.Lemmas.C08b Neatvi.Lemmas.C08f
open Neatvi.Lemmas.C09 (finRec pending)
open Neatvi.Props.C08f

/-! ### the mark `^` -/

/-- `sm` is `s1` but for the marks of the buffer: same text, same everything else -/
structure MarkOnly (s1 sm : VS) : Prop where
  eq : sm = { s1 with ed := { s1.ed with bufs := sm.ed.bufs } }
  lines : lines sm = lines s1

theorem markSet_markOnly (c : Nat) (r o : Int) (s1 : VS) : ∃ sm, markSet c r o s1 = Res.ok () sm ∧ MarkOnly s1 sm := by
  unfold markSet withEd Vi.modify
  cases h : s1.ed.lb with
  | none => exact ⟨s1, by simp [h], rfl, rfl⟩
  | some lb =>
    refine ⟨{ s1 with ed := s1.ed.setLb (setMark lb c r o) }, by simp [h], ?_, ?_⟩
    · show _ = { s1 with ed := { s1.ed with bufs := (s1.ed.setLb (setMark lb c r o)).bufs } }
      rw [← Lemmas.C06.setLb_fields]
    · show Lemmas.C06.lines (s1.ed.setLb (setMark lb c r o)) = Lemmas.C06.lines s1.ed
      rw [Lemmas.C06.lines_of_lb (Lemmas.C06.setLb_lb s1.ed lb (setMark lb c r o) h), Lemmas.C06.lines_of_lb h]
      unfold setMark; split <;> rfl

namespace MarkOnly
variable {s1 sm : VS} (h : MarkOnly s1 sm)
include h

theorem xrow : sm.ed.xrow = s1.ed.xrow := by rw [h.eq]
theorem xoff : sm.ed.xoff = s1.ed.xoff := by rw [h.eq]
theorem regs : sm.ed.regs = s1.ed.regs := by rw [h.eq]
theorem xtd : sm.ed.xtd = s1.ed.xtd := by rw [h.eq]
theorem ybuf : sm.ybuf = s1.ybuf := by rw [h.eq]
theorem arg1 : sm.arg1 = s1.arg1 := by rw [h.eq]
theorem arg2 : sm.arg2 = s1.arg2 := by rw [h.eq]
theorem xkmap : sm.xkmap = s1.xkmap := by rw [h.eq]
theorem xai : sm.xai = s1.xai := by rw [h.eq]
theorem vibuf : sm.vibuf = s1.vibuf := by rw [h.eq]
theorem pending : pending sm = pending s1 := by rw [h.eq]; rfl
theorem icmd : sm.icmd = s1.icmd := by rw [h.eq]
theorem lenOf : lenOf sm = lenOf s1 := by unfold Vi.lenOf; rw [h.lines]

theorem onRow {body : List Nat} {o : Nat} (hrow : OnRow s1 body o) : OnRow sm body o :=
  ⟨by rw [h.xrow]; exact hrow.row0, by rw [h.lines, h.xrow]; exact hrow.line, hrow.valid, hrow.no10,
    by rw [h.xoff]; exact hrow.off, hrow.onChar⟩

theorem regGetLn (c : Nat) : regGetLn sm.ed c = regGetLn s1.ed c := by
  have e1 : sm.ed.regs = s1.ed.regs := h.regs
  have e2 : sm.ed.xrow = s1.ed.xrow := h.xrow
  have e3 : sm.ed.xoff = s1.ed.xoff := h.xoff
  have e4 : sm.ed.line s1.ed.xrow = s1.ed.line s1.ed.xrow := by
    unfold Ed.line
    have hl : sm.ed.lb.bind (fun l => l.lines[s1.ed.xrow.toNat]?) = s1.ed.lb.bind (fun l => l.lines[s1.ed.xrow.toNat]?) := by
      have := h.lines
      unfold Vi.lines at this
      cases ha : sm.ed.lb <;> cases hb : s1.ed.lb <;> rw [ha, hb] at this <;> simp_all
    rw [hl]
  unfold Vi.regGetLn regGet
  simp only [e1, e2, e3, e4]

theorem leftToRight {body : List Nat} (hl : LeftToRight s1 body) : LeftToRight sm body := by
  obtain ⟨h1, h2⟩ := hl
  constructor
  · unfold posTab renOpts at h1 ⊢; rw [h.xtd]; exact h1
  · unfold dirCtx at h2 ⊢; rw [h.xtd]; exact h2

end MarkOnly

/-! ### the dispatcher, key by key -/

/-- an operator key `c d y > <`: `vc_motion` with that letter -/
theorem commandTail_op (c : Int) (hc : c = 99 ∨ c = 100 ∨ c = 121 ∨ c = 62 ∨ c = 60) (s s1 : VS)
    (hk : viRead s = Res.ok c s1) :
    commandTail s = (do markSet 94 s1.ed.xrow s1.ed.xoff; let m ← vcMotion c.toNat; finRec c 0 m : M (Option Nat)) s1 := by
  rcases hc with rfl | rfl | rfl | rfl | rfl <;>
  · unfold commandTail
    simp only [bind_apply, hk]
    simp (config := {decide := true}) only [get_apply, bind_apply, if_false, if_true]
    rfl

/-- `p`, `P`: `vc_put` -/
theorem commandTail_put (c : Int) (hc : c = 112 ∨ c = 80) (s s1 : VS) (hk : viRead s = Res.ok c s1) :
    commandTail s = (do markSet 94 s1.ed.xrow s1.ed.xoff; let m ← vcPut c.toNat; finRec c 0 m : M (Option Nat)) s1 := by
  rcases hc with rfl | rfl <;>
  · unfold commandTail
    simp only [bind_apply, hk]
    simp (config := {decide := true}) only [get_apply, bind_apply, if_false, if_true]
    rfl

/-- `J`: `vc_join` -/
theorem commandTail_J_ (s s1 : VS) (hk : viRead s = Res.ok 74 s1) :
    commandTail s = (do markSet 94 s1.ed.xrow s1.ed.xoff; let m ← vcJoin; finRec 74 0 m : M (Option Nat)) s1 := by
  unfold commandTail
  simp only [bind_apply, hk]
  simp (config := {decide := true}) only [get_apply, bind_apply, if_false, if_true]
  rfl

/-- `r`: `vc_replace` -/
theorem commandTail_r (s s1 : VS) (hk : viRead s = Res.ok 114 s1) :
    commandTail s = (do markSet 94 s1.ed.xrow s1.ed.xoff; let m ← vcReplace; finRec 114 0 m : M (Option Nat)) s1 := by
  unfold commandTail
  simp only [bind_apply, hk]
  simp (config := {decide := true}) only [get_apply, bind_apply, if_false, if_true]
  rfl

/-- `~` = the case operator with `SPC` -/
theorem commandTail_tilde (s s1 : VS) (hk : viRead s = Res.ok 126 s1) :
    commandTail s = (do markSet 94 s1.ed.xrow s1.ed.xoff; viBack 32; let m ← vcMotion 126; finRec 126 0 m : M (Option Nat)) s1 := by
  unfold commandTail
  simp only [bind_apply, hk]
  simp (config := {decide := true}) only [get_apply, bind_apply, if_false, if_true]
  rfl

/-- `g~`, `gu`, `gU`: the second key is the operator letter of `vc_motion` -/
theorem commandTail_g (k : Int) (hc : k = 126 ∨ k = 117 ∨ k = 85) (s s1 sm s2 : VS) (hk : viRead s = Res.ok 103 s1)
    (hm : markSet 94 s1.ed.xrow s1.ed.xoff s1 = Res.ok () sm) (hk2 : viRead sm = Res.ok k s2) :
    commandTail s = (do let m ← vcMotion k.toNat; finRec 103 k m : M (Option Nat)) s2 := by
  rcases hc with rfl | rfl | rfl <;>
  · unfold commandTail
    simp only [bind_apply, hk]
    simp (config := {decide := true}) only [get_apply, bind_apply, if_false, if_true, hm, hk2]
    rfl

end Neatvi.Lemmas.C08g
