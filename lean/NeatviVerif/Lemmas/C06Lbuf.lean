import NeatviVerif.Model.Lbuf
import NeatviVerif.Lemmas.Hist
/-!
# C06, buffer level: the frame law of `lbuf_edit` and the behaviour of marks under a splice
-/
namespace Neatvi.Lemmas.C06
open Neatvi Neatvi.Lbuf Neatvi.Spec Neatvi.Props.C01 Neatvi.Lemmas.Hist

/-! ### the mark update of `lbuf_replace` -/

/-- a mark above the splice does not move -/
theorem updMark_before (nul : Bool) (pos nIns nDel : Nat) (m : Int) (h : m < pos) :
    updMark nul pos nIns nDel m = m := by
  unfold updMark
  repeat' split
  all_goals (simp only [Bool.and_eq_true, decide_eq_true_eq] at *)
  all_goals omega

/-- a mark at or below the end of the replaced range moves with its line -/
theorem updMark_after (nul : Bool) (pos nIns nDel : Nat) (m : Int) (h : m ≥ ((pos + nDel : Nat) : Int)) :
    updMark nul pos nIns nDel m = m + nIns - nDel := by
  unfold updMark
  have h1 : ¬ (m < (pos : Int) + (nDel : Int)) := by omega
  simp [h1]

/-- a mark inside a purely deleted range is unset -/
theorem updMark_deleted (pos nIns nDel : Nat) (m : Int) (h1 : (pos : Int) ≤ m) (h2 : m < (pos : Int) + nDel) :
    updMark true pos nIns nDel m = -1 := by
  unfold updMark
  simp [h1, h2]

/-- a mark inside a replaced range is clamped to the last inserted line -/
theorem updMark_replaced (pos nIns nDel : Nat) (m : Int) (_h1 : (pos : Int) ≤ m) (h2 : m < (pos : Int) + nDel) :
    updMark false pos nIns nDel m = min m ((pos : Int) + nIns - 1) := by
  unfold updMark
  have h3 : ¬ (m ≥ ((pos + nDel : Nat) : Int)) := by omega
  simp only [Bool.false_and, Bool.false_eq_true, if_false, h3]
  by_cases h4 : m ≥ ((pos + nIns : Nat) : Int)
  · rw [if_pos h4]; omega
  · rw [if_neg h4]; omega

/-- an unset mark stays unset -/
theorem updMark_unset (nul : Bool) (pos nIns nDel : Nat) : updMark nul pos nIns nDel (-1) = -1 := by
  have := updMark_before nul pos nIns nDel (-1) (by omega)
  exact this

theorem getD_map_updMark (l : List Int) (nul : Bool) (pos nIns nDel i : Nat) :
    (l.map (updMark nul pos nIns nDel)).getD i (-1) = updMark nul pos nIns nDel (l.getD i (-1)) := by
  simp only [List.getD_eq_getElem?_getD, List.getElem?_map]
  cases l[i]? with
  | none => simp [updMark_unset]
  | some x => simp

theorem getD_set_ne {α : Type} (l : List α) (i j : Nat) (x d : α) (h : i ≠ j) : (l.set i x).getD j d = l.getD j d := by
  simp [List.getD_eq_getElem?_getD, List.getElem?_set_ne h]

theorem markIdx_letter (c : Nat) (h1 : 97 ≤ c) (h2 : c ≤ 122) : markIdx c = some (c - 97) := by
  unfold markIdx
  simp [h1, h2]

theorem setMark_mark_ne (lb : Lb) (c i j : Nat) (p o : Int) (hc : markIdx c = some i) (h : i ≠ j) :
    (setMark lb c p o).mark.getD j (-1) = lb.mark.getD j (-1) ∧
    (setMark lb c p o).markOff.getD j 0 = lb.markOff.getD j 0 := by
  unfold setMark
  rw [hc]
  exact ⟨getD_set_ne _ _ _ _ _ h, getD_set_ne _ _ _ _ _ h⟩

/-- `lbuf_replace` on the marks other than `[` and `]` (indices 28, 29): the position goes through
    `updMark`, the column is kept -/
theorem replace_mark (lb lb' : Lb) (s : Option Bytes) (pos nDel i : Nat)
    (h : replace lb s pos nDel = some lb') (h28 : i ≠ 28) (h29 : i ≠ 29) :
    lb'.mark.getD i (-1) = updMark s.isNone pos (optLines s).length nDel (lb.mark.getD i (-1)) ∧
    lb'.markOff.getD i 0 = lb.markOff.getD i 0 := by
  unfold replace at h
  by_cases hb : pos + nDel ≤ lb.lines.length
  · simp only [hb, if_true, Option.some.injEq] at h
    subst h
    have e91 : markIdx 91 = some 28 := by decide
    have e93 : markIdx 93 = some 29 := by decide
    constructor
    · rw [(setMark_mark_ne _ 93 29 i _ _ e93 (Ne.symm h29)).1, (setMark_mark_ne _ 91 28 i _ _ e91 (Ne.symm h28)).1]
      exact getD_map_updMark lb.mark s.isNone pos _ nDel i
    · rw [(setMark_mark_ne _ 93 29 i _ _ e93 (Ne.symm h29)).2, (setMark_mark_ne _ 91 28 i _ _ e91 (Ne.symm h28)).2]
  · simp [hb] at h

theorem opt_mark (lb : Lb) (buf : Option Bytes) (pos n i : Nat) (h27 : i ≠ 27) :
    (opt lb buf pos n).mark.getD i (-1) = lb.mark.getD i (-1) ∧
    (opt lb buf pos n).markOff.getD i 0 = lb.markOff.getD i 0 := by
  unfold opt
  exact ⟨getD_set_ne _ _ _ _ _ (Ne.symm h27), getD_set_ne _ _ _ _ _ (Ne.symm h27)⟩

theorem updMark_noop (m : Int) (pos : Nat) : updMark true pos 0 0 m = m := by
  by_cases h : m < pos
  · exact updMark_before _ _ _ _ _ h
  · rw [updMark_after _ _ _ _ _ (by omega)]; simp

/-! ### `lbuf_edit` -/

/-- the clamped `lbuf_edit` with an ordered range never traps -/
theorem edit_total (lb : Lb) (s : Option Bytes) (b e : Nat) (hbe : b ≤ e) : ∃ lb', edit lb s b e = some lb' := by
  unfold edit
  have h1 : ¬ (min e lb.lines.length < min b lb.lines.length) := by omega
  simp only [h1, if_false]
  split
  · exact ⟨_, rfl⟩
  · have hbound : min b lb.lines.length + (min e lb.lines.length - min b lb.lines.length) ≤
        (opt lb s (min b lb.lines.length) (min e lb.lines.length - min b lb.lines.length)).lines.length := by
      rw [opt_lines]; omega
    obtain ⟨lb', r1, _⟩ := replace_spec _ s _ _ hbound
    exact ⟨lb', r1⟩

/-- frame law of `lbuf_edit` on a range inside the buffer: only lines `b..e` are replaced -/
theorem lbuf_edit_frame (lb lb' : Lb) (s : Option Bytes) (b e : Nat) (hbe : b ≤ e) (he : e ≤ lb.lines.length)
    (h : edit lb s b e = some lb') :
    lb'.lines = lb.lines.take b ++ optLines s ++ lb.lines.drop e := by
  unfold edit at h
  have hb' : min b lb.lines.length = b := by omega
  have he' : min e lb.lines.length = e := by omega
  simp only [hb', he'] at h
  rw [if_neg (by omega)] at h
  split at h
  · rename_i hc
    simp only [Bool.and_eq_true, beq_iff_eq, Option.isNone_iff_eq_none] at hc
    obtain ⟨hc1, hc2⟩ := hc
    simp only [Option.some.injEq] at h
    subst h; subst hc1; subst hc2
    simp [optLines]
  · have hbound : b + (e - b) ≤ (opt lb s b (e - b)).lines.length := by rw [opt_lines]; omega
    obtain ⟨lb2, r1, r2, _⟩ := replace_spec _ s _ _ hbound
    rw [r1] at h
    simp only [Option.some.injEq] at h
    subst h
    rw [r2, opt_lines]
    unfold splice
    rw [show b + (e - b) = e by omega]

/-- `lbuf_edit` on the marks other than `*`, `[`, `]`: position through `updMark`, column kept -/
theorem lbuf_edit_mark (lb lb' : Lb) (s : Option Bytes) (b e i : Nat) (hbe : b ≤ e) (he : e ≤ lb.lines.length)
    (h : edit lb s b e = some lb') (h27 : i ≠ 27) (h28 : i ≠ 28) (h29 : i ≠ 29) :
    lb'.mark.getD i (-1) = updMark s.isNone b (optLines s).length (e - b) (lb.mark.getD i (-1)) ∧
    lb'.markOff.getD i 0 = lb.markOff.getD i 0 := by
  unfold edit at h
  have hb' : min b lb.lines.length = b := by omega
  have he' : min e lb.lines.length = e := by omega
  simp only [hb', he'] at h
  rw [if_neg (by omega)] at h
  split at h
  · rename_i hc
    simp only [Bool.and_eq_true, beq_iff_eq, Option.isNone_iff_eq_none] at hc
    obtain ⟨hc1, hc2⟩ := hc
    simp only [Option.some.injEq] at h
    subst h; subst hc1; subst hc2
    simp [optLines, updMark_noop]
  · obtain ⟨r1, r2⟩ := replace_mark _ _ s b (e - b) i h h28 h29
    rw [r1, r2, (opt_mark lb s b (e - b) i h27).1, (opt_mark lb s b (e - b) i h27).2]
    exact ⟨rfl, rfl⟩

/-- the line a surviving mark designates is the line it designated before -/
theorem frame_get_before (old new : List Bytes) (b e m : Nat) (hm : m < b) (hb : b ≤ old.length) :
    (old.take b ++ new ++ old.drop e)[m]? = old[m]? := by
  rw [List.append_assoc, List.getElem?_append_left (by simp; omega)]
  simp [hm]

theorem frame_get_after (old new : List Bytes) (b e m : Nat) (hbe : b ≤ e) (hm : e ≤ m) (he : e ≤ old.length) :
    (old.take b ++ new ++ old.drop e)[m + new.length - (e - b)]? = old[m]? := by
  have hl : (old.take b ++ new).length = b + new.length := by simp; omega
  rw [List.getElem?_append_right (by rw [hl]; omega), hl, List.getElem?_drop]
  congr 1
  omega

end Neatvi.Lemmas.C06
