import NeatviVerif.Lemmas.C05fM
/-!
# C05f, part N: `vc_motion` — an operator with its motion
-/
set_option linter.unusedSimpArgs false
set_option linter.unusedVariables false
namespace Neatvi.Lemmas.C05f
open Neatvi Neatvi.Uc Neatvi.Lbuf Neatvi.Ex Neatvi.Mot Neatvi.Vi Neatvi.Rset

/-- the region `vc_motion` hands to the operator: (r1, o1, r2, o2, lnmode) -/
def opRegion (s : VS) (r1 o1 mv r2 o2 : Int) : Int × Int × Int × Int × Bool :=
  let ls := lines s
  let lnmode := o2 < 0
  let (o1, o2) := if lnmode then ((0 : Int), eol ls r2) else (o1, o2)
  let (r1, r2, o1, o2) := if r1 > r2 then (r2, r1, o2, o1) else (r1, r2, o1, o2)
  let (o1, o2) := if r1 == r2 && o1 > o2 then (o2, o1) else (o1, o2)
  let o1 := noeol s r1 o1
  let incl := strHas "fteE%" mv || (mv == 59 && (s.charcmd == 102 || s.charcmd == 116 || s.charcmd == 0))
    || (mv == 44 && (s.charcmd == 70 || s.charcmd == 84 || s.charcmd == 0))
  let o2 := if !lnmode && incl && o2 < eol ls r2 then noeol s r2 o2 + 1 else o2
  (r1, o1, r2, o2, lnmode)

/-- the operator switch of `vc_motion` -/
def opRun (cmd : Nat) (r1 o1 r2 o2 : Int) (lnmode : Bool) : M Nat :=
  if cmd == 121 then viYank r1 o1 r2 o2 lnmode
  else if cmd == 100 then viDelete r1 o1 r2 o2 lnmode
  else if cmd == 99 then viChange r1 o1 r2 o2 lnmode
  else if cmd == 126 || cmd == 117 || cmd == 85 then viCase r1 o1 r2 o2 lnmode cmd
  else if cmd == 62 || cmd == 60 then viShift r1 r2 (if cmd == 62 then 1 else -1)
  else if cmd == 33 then do
    let _ ← viPrompt
    Vi.unmodelled
    pure VC_WIN
  else pure 0

/-- `vc_motion` after the motion has been read -/
def vcTail (cmd : Nat) (r1 o1 : Int) (res : Option (Int × Int × Int)) : M Nat :=
  match res with
  | none => pure 0
  | some (mv, r2, o2) =>
    if mv < 0 then pure 0 else do
    let s ← get
    let (r1, o1, r2, o2, lnmode) := opRegion s r1 o1 mv r2 o2
    opRun cmd r1 o1 r2 o2 lnmode

/-- `vc_motion` after the line motion has been tried -/
def vcRest (cmd : Nat) (r1 o1 : Int) (x : Int × Int) : M Nat := do
  let res ← (if x.1 != 0 then pure (some (x.1, x.2, (-1 : Int))) else do
    let (mv, r2, o2) ← viMotion r1 o1
    if mv == 0 then do
      let _ ← viRead
      pure none
    else pure (some (mv, r2, o2)))
  vcTail cmd r1 o1 res

theorem vcMotion_eq (cmd : Nat) : vcMotion cmd = (do
    let s0 ← get
    let a2 ← viPrefix
    modify fun s => { s with arg2 := a2 }
    if a2 < 0 then pure 0 else
    let x ← viMotionln s0.ed.xrow cmd
    vcRest cmd s0.ed.xrow (noeol s0 s0.ed.xrow s0.ed.xoff) x) := by
  unfold vcMotion vcRest vcTail opRun opRegion
  rfl

theorem noeol_le_self (s : VS) (r o : Int) : noeol s r o ≤ o := by
  rw [noeol_eq]
  by_cases h : 0 ≤ o
  · exact Lemmas.C07.renNoeol_le _ _ h
  · rw [Lemmas.C07.renNoeol_neg _ _ (by omega)]; exact Int.le_refl _

/-- the region handed to the operator lies inside the buffer -/
theorem opRegion_ok (s : VS) (r1 o1 mv r2 o2 : Int) (h1 : PosIn (lines s) r1 o1) (h2 : PosIn (lines s) r2 o2) :
    0 ≤ (opRegion s r1 o1 mv r2 o2).1 ∧ (opRegion s r1 o1 mv r2 o2).1 ≤ (opRegion s r1 o1 mv r2 o2).2.2.1 ∧
    (opRegion s r1 o1 mv r2 o2).2.1 ≤ slenAt (lines s) (opRegion s r1 o1 mv r2 o2).1 ∧
    (opRegion s r1 o1 mv r2 o2).2.2.2.1 ≤ slenAt (lines s) (opRegion s r1 o1 mv r2 o2).2.2.1 := by
  obtain ⟨h1a, h1b⟩ := h1
  obtain ⟨h2a, h2b⟩ := h2
  have e2 := eol_le (lines s) r2
  have e1 := eol_le (lines s) r1
  have z1 := slenAt_nonneg (lines s) r1
  have z2 := slenAt_nonneg (lines s) r2
  have n1 := fun o => noeol_le_slen s r1 o
  have n2 := fun o => noeol_le_slen s r2 o
  have m1 := fun o => noeol_le_self s r1 o
  have m2 := fun o => noeol_le_self s r2 o
  unfold opRegion
  dsimp only
  by_cases hA : o2 < 0 <;> by_cases hB : r1 > r2 <;> simp only [hA, hB, if_true, if_false, ↓reduceIte, decide_true,
    decide_false, Bool.not_true, Bool.not_false, Bool.false_and, Bool.true_and]
  all_goals (split <;> dsimp only)
  all_goals (rename_i hsw; simp only [Bool.and_eq_true, beq_iff_eq, decide_eq_true_eq, not_and] at hsw)
  all_goals (refine ⟨by omega, by omega, noeol_le_slen _ _ _, ?_⟩)
  all_goals (first | omega | skip)
  all_goals (split)
  all_goals (first | omega | skip)
  all_goals (rename_i hc; try simp only [Bool.and_eq_true, decide_eq_true_eq, Bool.not_eq_true', decide_eq_false_iff_not] at hc)
  all_goals
    have a1 := m1 o1; have a2 := m1 o2; have a3 := m2 o1; have a4 := m2 o2
    have a5 := m1 0; have a6 := m2 0; have a7 := m1 (eol (lines s) r2); have a8 := m2 (eol (lines s) r2)
    first
      | exact absurd hc Bool.false_ne_true
      | omega
      | (obtain ⟨hsw1, hsw2⟩ := hsw
         have q1 : slenAt (lines s) r1 = slenAt (lines s) r2 := by rw [hsw1]
         have q2 : eol (lines s) r1 = eol (lines s) r2 := by rw [hsw1]
         have q3 : noeol s r1 o1 = noeol s r2 o1 := by rw [hsw1]
         have q4 : noeol s r1 o2 = noeol s r2 o2 := by rw [hsw1]
         omega)

/-- the operator switch on a region inside the buffer -/
theorem wp_opRun {s : VS} {c : Prop} (hs : SOk s c) (cmd : Nat) (r1 o1 r2 o2 : Int) (ln : Bool) (hr1 : 0 ≤ r1)
    (hr : r1 ≤ r2) (h1 : o1 ≤ slenAt (lines s) r1) (h2 : o2 ≤ slenAt (lines s) r2) (Q : Nat → VS → Prop)
    (hQ : ∀ a s', OpPost s s' → Q a s') : wp (opRun cmd r1 o1 r2 o2 ln) Q s := by
  unfold opRun
  wpif hc
  · exact wp_viYank hs _ _ _ _ _ h1 h2 Q hQ
  wpif hc
  · exact wp_viDelete hs _ _ _ _ _ hr1 hr h1 h2 Q hQ
  wpif hc
  · exact wp_viChange hs _ _ _ _ _ hr1 hr h1 h2 Q hQ
  wpif hc
  · exact wp_viCase hs _ _ _ _ _ _ hr1 hr h1 h2 Q hQ
  wpif hc
  · exact wp_viShift hs _ _ _ hr1 Q hQ
  wpif hc
  · wpn
    refine wp_viPrompt _ s hs.paste _ (fun r s1 e1 _ => ?_)
    wpn
    exact hQ _ _ ⟨((MvF.of_EdF e1).sok hs).weaken.congr rfl rfl, e1.xquit⟩
  · exact (wp_pure _ _ _).mpr (hQ _ _ ⟨hs.weaken, rfl⟩)

/-- the row of the cursor is a row of the buffer (row 0 of an empty buffer) -/
def RowOk (s : VS) : Prop := 0 ≤ s.ed.xrow ∧ (lenOf s ≠ 0 → s.ed.xrow < lenOf s)

theorem lineAt_of_rowOk {s : VS} {c : Prop} (hs : SOk s c) {r : Int} (h0 : 0 ≤ r) (h1 : r < lenOf s) :
    ∃ l, lineAt (lines s) r = some l ∧ LineOk l := by
  unfold lenOf at h1
  have hlt : r.toNat < (lines s).length := by omega
  refine ⟨(lines s)[r.toNat], ?_, hs.linesOk _ (List.getElem_mem hlt)⟩
  unfold lineAt
  rw [if_neg (by omega)]
  exact List.getElem?_eq_getElem hlt

/-- the cursor, its offset clamped by `ren_noeol`, is a start for a motion -/
theorem curOk_noeol {s : VS} {c : Prop} (hs : SOk s c) (hr : RowOk s) (o : Int) :
    CurOk s s.ed.xrow (noeol s s.ed.xrow o) := by
  refine ⟨⟨hr.1, noeol_le_slen _ _ _⟩, fun hl => ?_⟩
  obtain ⟨l, h1, h2⟩ := lineAt_of_rowOk hs hr.1 (hr.2 hl)
  have hsl : slenAt (lines s) s.ed.xrow = ucSlen l := by unfold slenAt; rw [h1]
  rw [hsl, noeol_eq]
  have : lineE s s.ed.xrow = l := by unfold lineE lineOf; rw [h1]; rfl
  rw [this]
  have := Lemmas.C07.renNoeol_lt l o
  have := h2.slen_pos
  omega

theorem CurOk.of_lines {s s' : VS} (hl : lines s' = lines s) {r o : Int} (h : CurOk s r o) : CurOk s' r o := by
  unfold CurOk lenOf at *
  rw [hl]; exact h

theorem MarksIn.of_lb {s s' : VS} (h : MarksIn s) (hl : s'.ed.lb = s.ed.lb) : MarksIn s' := by
  intro lb m p q h1 h2 h3
  have : lines s' = lines s := by unfold Vi.lines; rw [hl]
  rw [this] at h3
  exact h lb m p q (hl ▸ h1) h2 h3

theorem wp_vcTail (cmd : Nat) (r1 o1 : Int) (res : Option (Int × Int × Int)) {s s0 : VS} {c : Prop} (hs : SOk s c)
    (hq : s.ed.xquit = s0.ed.xquit) (hp1 : PosIn (lines s) r1 o1)
    (hres : ∀ mv r2 o2, res = some (mv, r2, o2) → 0 < mv → PosIn (lines s) r2 o2)
    (hmv : ∀ mv r2 o2, res = some (mv, r2, o2) → mv ≠ 0) (Q : Nat → VS → Prop)
    (hQ : ∀ a s', OpPost s0 s' → Q a s') : wp (vcTail cmd r1 o1 res) Q s := by
  unfold vcTail
  cases res with
  | none => exact (wp_pure _ _ _).mpr (hQ _ _ ⟨hs.weaken, hq⟩)
  | some x =>
    obtain ⟨mv, r2, o2⟩ := x
    dsimp only
    wpif hneg
    · exact (wp_pure _ _ _).mpr (hQ _ _ ⟨hs.weaken, hq⟩)
    wpn
    have hpos : 0 < mv := by have := hmv mv r2 o2 rfl; omega
    obtain ⟨a, b, c', d⟩ := opRegion_ok s r1 o1 mv r2 o2 hp1 (hres mv r2 o2 rfl hpos)
    generalize opRegion s r1 o1 mv r2 o2 = R at a b c' d
    obtain ⟨R1, O1, R2, O2, L⟩ := R
    exact wp_opRun hs cmd R1 O1 R2 O2 L a b c' d Q (fun a s' hp => hQ a s' ⟨hp.1, hp.2.trans hq⟩)

theorem wp_vcRest (cmd : Nat) (r1 o1 : Int) (x : Int × Int) {s s0 : VS} {c : Prop} (hs : SOk s c)
    (hq : s.ed.xquit = s0.ed.xquit) (hcur : CurOk s r1 o1) (hx : 0 ≤ x.2) (hmk : MarksIn s) (hsl : SearchOk s)
    (Q : Nat → VS → Prop) (hQ : ∀ a s', OpPost s0 s' → Q a s') : wp (vcRest cmd r1 o1 x) Q s := by
  unfold vcRest
  wp1
  wpif hm
  · refine (wp_pure _ _ _).mpr ?_
    refine wp_vcTail cmd r1 o1 _ hs hq hcur.1 ?_ ?_ Q hQ
    · intro mv r2 o2 h _
      cases h
      exact ⟨hx, by have := slenAt_nonneg (lines s) x.2; omega⟩
    · intro mv r2 o2 h
      cases h
      simpa using hm
  · wpn
    refine wp_viMotion r1 o1 s hs hcur hmk hsl _ (fun mv r2 o2 s1 m1 hp _ => ?_)
    dsimp only
    have hs1 : SOk s1 c := m1.sok hs
    have hq1 : s1.ed.xquit = s0.ed.xquit := m1.2.2.2.1.trans hq
    wpif hz
    · wpn
      refine wp_viRead s1 _ (fun k s2 e2 _ => ?_)
      refine (wp_pure _ _ _).mpr ?_
      have hs2 : SOk s2 c := (MvF.of_ed e2).sok hs1
      refine wp_vcTail cmd r1 o1 none hs2 (by rw [e2]; exact hq1) ?_ (by intro _ _ _ h; cases h)
        (by intro _ _ _ h; cases h) Q hQ
      rw [(MvF.of_ed e2).lines, m1.lines]; exact hcur.1
    · refine (wp_pure _ _ _).mpr ?_
      refine wp_vcTail cmd r1 o1 _ hs1 hq1 (by rw [m1.lines]; exact hcur.1) ?_ ?_ Q hQ
      · intro mv' r2' o2' h hpos
        cases h
        rw [m1.lines]; exact hp hpos
      · intro mv' r2' o2' h
        cases h
        simpa using hz

/-- **`vc_motion(cmd)`**: an operator with its motion does not trap and keeps the invariant -/
theorem wp_vcMotion (cmd : Nat) {s : VS} {c : Prop} (hs : SOk s c) (hr : RowOk s) (hmk : MarksIn s)
    (hsl : SearchOk s) (Q : Nat → VS → Prop) (hQ : ∀ a s', OpPost s s' → Q a s') : wp (vcMotion cmd) Q s := by
  rw [vcMotion_eq]
  wpn
  refine wp_viPrefix s _ (fun a2 s1 p1 => ?_)
  wpn
  wpif ha
  · refine (wp_pure _ _ _).mpr (hQ _ _ ⟨(hs.weaken).congr (by rw [p1.1]) (by rw [p1.1]), by rw [p1.1]⟩)
  wpn
  have p2 : PfxPost s { s1 with arg2 := a2 } := ⟨p1.1, p1.2⟩
  refine wp_viMotionln _ _ _ hr.1 _ (fun mvl r2l s2 p3 _ h0 => ?_)
  have p4 : PfxPost s s2 := p2.trans p3
  have hl : lines s2 = lines s := by unfold Vi.lines; rw [p4.1]
  refine wp_vcRest cmd _ _ _ (hs.congr (by rw [p4.1]) (by rw [p4.1])) (by rw [p4.1])
    ((curOk_noeol hs hr _).of_lines hl) h0 (hmk.of_lb (by rw [p4.1])) (hsl.pfx p4) Q hQ

end Neatvi.Lemmas.C05f
