import NeatviVerif.Lemmas.C10Seg
/-!
# C10 lemmas, part 4: a continuation-passing backtracker on the tree and the equations of the
repetition wrapper

`bt cx t dep pos m cuts k` runs the tree `t` from the state `(pos, m)` at recursion depth `dep`
with the cut counter `cuts`, and calls `k dep' pos' m' cuts'` at every exit, in the VM's order,
threading the depth and the cut counter exactly as the VM does.
-/
namespace Neatvi.Lemmas.C10
open Neatvi Neatvi.Regex

/-- continuations: depth, position, marks, cuts -/
abbrev K := Nat → Nat → Marks → Nat → Res
/-- a piece of matcher in continuation-passing style -/
abbrev Body := Nat → Nat → Marks → Nat → K → Res

def forkRes (first : Res) (second : Nat → Res) : Res :=
  match first with
  | Res.ok p m c => Res.ok p m c
  | Res.trap => Res.trap
  | Res.fail c => second c

/-- the `fork` instruction: the first branch runs one level deeper (or fails, counting a cut, at the
    depth limit); if it fails the second branch runs with the cut counter of the failure -/
def forkBt (nd dep cuts : Nat) (first : Nat → Res) (second : Nat → Res) : Res :=
  forkRes (if dep ≥ nd then Res.fail (cuts + 1) else first (dep + 1)) second

theorem forkBt_congr {nd dep cuts : Nat} {f1 f2 s1 s2 : Nat → Res}
    (hf : dep < nd → f1 (dep + 1) = f2 (dep + 1)) (hs : ∀ c, s1 c = s2 c) :
    forkBt nd dep cuts f1 s1 = forkBt nd dep cuts f2 s2 := by
  have : s1 = s2 := funext hs
  subst this
  unfold forkBt
  split
  · rfl
  · rw [hf (by omega)]

/-- `n` mandatory copies -/
def btCopies (body : Body) : Nat → Body
  | 0 => fun dep pos m cuts k => k dep pos m cuts
  | n + 1 => fun dep pos m cuts k => body dep pos m cuts (fun d p m' c => btCopies body n d p m' c k)

/-- up to `n` optional copies, each behind a fork -/
def btOpts (nd : Nat) (body : Body) : Nat → Body
  | 0 => fun dep pos m cuts k => k dep pos m cuts
  | n + 1 => fun dep pos m cuts k =>
    forkBt nd dep cuts (fun d => body d pos m cuts (fun d' p m' c => btOpts nd body n d' p m' c k))
      (fun c' => k dep pos m c')

/-- the closing fork of an unbounded repetition; the fuel bounds the remaining depth -/
def btStar (nd : Nat) (body : Body) (k : K) : Nat → K
  | 0 => fun dep pos m cuts => forkBt nd dep cuts (fun _ => Res.trap) (fun c' => k dep pos m c')
  | f + 1 => fun dep pos m cuts =>
    forkBt nd dep cuts (fun d => body d pos m cuts (btStar nd body k f)) (fun c' => k dep pos m c')

/-- the repetition wrapper -/
def btRep (nd : Nat) (body : Body) (mn mx : Int) : Body := fun dep pos m cuts k =>
  if mn == 0 && mx == 0 then k dep pos m cuts
  else if mn == 1 && mx == 1 then body dep pos m cuts k
  else
    let tail : K := fun d p m' c =>
      if mx < 0 then btStar nd body k (nd - d) d p m' c
      else btOpts nd body (mx - max 1 mn).toNat d p m' c k
    let main : Nat → Res := fun d => btCopies body (max 1 mn).toNat d pos m cuts tail
    if mn == 0 then forkBt nd dep cuts main (fun c' => k dep pos m c') else main dep

/-- one copy of an atom -/
def btAtom (cx : Ctx) (a : Atom) : Body := fun dep pos m cuts k =>
  match atomMatch a cx.subj cx.flg pos with
  | AR.fail => Res.fail cuts
  | AR.trap => Res.trap
  | AR.ok pos' => k dep pos' m cuts

/-- one copy of a group around `inner`: the two `mark` instructions -/
def btGrp (cx : Ctx) (inner : Body) (g : Nat) : Body := fun dep pos m cuts k =>
  inner dep pos (setMk cx.ngrps m (2 * g) pos) cuts
    (fun d p m' c => k d p (setMk cx.ngrps m' (2 * g + 1) p) c)

/-- the backtracker on the tree -/
def bt (cx : Ctx) : RNode → Body
  | .nul => fun dep pos m cuts k => k dep pos m cuts
  | .atom a mn mx => btRep cx.nd (btAtom cx a) mn mx
  | .cat a b => fun dep pos m cuts k => bt cx a dep pos m cuts (fun d p m' c => bt cx b d p m' c k)
  | .alt a b => fun dep pos m cuts k =>
    forkBt cx.nd dep cuts (fun d => bt cx a d pos m cuts k) (fun c' => bt cx b dep pos m c' k)
  | .grp a g mn mx => btRep cx.nd (btGrp cx (bt cx a) g) mn mx

/-! ### continuations are only invoked at depths that are not smaller -/

/-- the two continuations agree from depth `dep` on -/
def KLe (dep : Nat) (k1 k2 : K) : Prop := ∀ d j m c, dep ≤ d → k1 d j m c = k2 d j m c

theorem KLe.mono {dep dep' : Nat} {k1 k2 : K} (h : KLe dep k1 k2) (hd : dep ≤ dep') : KLe dep' k1 k2 :=
  fun d j m c hd' => h d j m c (by omega)

def Congr (B : Body) : Prop :=
  ∀ dep pos m cuts k1 k2, KLe dep k1 k2 → B dep pos m cuts k1 = B dep pos m cuts k2

theorem btCopies_congr {body : Body} (hb : Congr body) : ∀ n, Congr (btCopies body n) := by
  intro n
  induction n with
  | zero => intro dep pos m cuts k1 k2 h; exact h dep pos m cuts (Nat.le_refl _)
  | succ n ih =>
    intro dep pos m cuts k1 k2 h
    simp only [btCopies]
    apply hb
    intro d j m' c hd
    exact ih d j m' c k1 k2 (h.mono hd)

theorem btOpts_congr {nd : Nat} {body : Body} (hb : Congr body) : ∀ n, Congr (btOpts nd body n) := by
  intro n
  induction n with
  | zero => intro dep pos m cuts k1 k2 h; exact h dep pos m cuts (Nat.le_refl _)
  | succ n ih =>
    intro dep pos m cuts k1 k2 h
    simp only [btOpts]
    apply forkBt_congr
    · intro _
      apply hb
      intro d j m' c hd
      exact ih d j m' c k1 k2 (h.mono (by omega))
    · intro c; exact h dep pos m c (Nat.le_refl _)

theorem btStar_congr {nd : Nat} {body : Body} (hb : Congr body) : ∀ fuel dep pos m cuts k1 k2,
    KLe dep k1 k2 → btStar nd body k1 fuel dep pos m cuts = btStar nd body k2 fuel dep pos m cuts := by
  intro fuel
  induction fuel with
  | zero =>
    intro dep pos m cuts k1 k2 h
    simp only [btStar]
    exact forkBt_congr (fun _ => rfl) (fun c => h dep pos m c (Nat.le_refl _))
  | succ f ih =>
    intro dep pos m cuts k1 k2 h
    simp only [btStar]
    apply forkBt_congr
    · intro _
      apply hb
      intro d j m' c hd
      exact ih d j m' c k1 k2 (h.mono (by omega))
    · intro c; exact h dep pos m c (Nat.le_refl _)

theorem btRep_congr {nd : Nat} {body : Body} (hb : Congr body) (mn mx : Int) :
    Congr (btRep nd body mn mx) := by
  intro dep pos m cuts k1 k2 h
  unfold btRep
  split
  · exact h dep pos m cuts (Nat.le_refl _)
  split
  · exact hb dep pos m cuts k1 k2 h
  have main : ∀ d, dep ≤ d →
      btCopies body (max 1 mn).toNat d pos m cuts (fun d p m' c =>
        if mx < 0 then btStar nd body k1 (nd - d) d p m' c
        else btOpts nd body (mx - max 1 mn).toNat d p m' c k1) =
      btCopies body (max 1 mn).toNat d pos m cuts (fun d p m' c =>
        if mx < 0 then btStar nd body k2 (nd - d) d p m' c
        else btOpts nd body (mx - max 1 mn).toNat d p m' c k2) := by
    intro d hd
    apply btCopies_congr hb
    intro d' j m' c hd'
    show (if mx < 0 then _ else _) = (if mx < 0 then _ else _)
    split
    · exact btStar_congr hb _ _ _ _ _ k1 k2 (h.mono (by omega))
    · exact btOpts_congr hb _ _ _ _ _ k1 k2 (h.mono (by omega))
  simp only []
  split
  · apply forkBt_congr
    · intro _; exact main _ (by omega)
    · intro c; exact h dep pos m c (Nat.le_refl _)
  · exact main dep (Nat.le_refl _)

theorem btAtom_congr (cx : Ctx) (a : Atom) : Congr (btAtom cx a) := by
  intro dep pos m cuts k1 k2 h
  unfold btAtom
  split
  · rfl
  · rfl
  · exact h dep _ m cuts (Nat.le_refl _)

theorem btGrp_congr (cx : Ctx) {inner : Body} (hi : Congr inner) (g : Nat) : Congr (btGrp cx inner g) := by
  intro dep pos m cuts k1 k2 h
  unfold btGrp
  apply hi
  intro d j m' c hd
  exact h d j _ c hd

theorem bt_congr (cx : Ctx) (t : RNode) : Congr (bt cx t) := by
  induction t with
  | nul => intro dep pos m cuts k1 k2 h; exact h dep pos m cuts (Nat.le_refl _)
  | atom a mn mx =>
    simp only [bt]
    exact btRep_congr (btAtom_congr cx a) mn mx
  | cat a b iha ihb =>
    intro dep pos m cuts k1 k2 h
    simp only [bt]
    apply iha
    intro d j m' c hd
    exact ihb d j m' c k1 k2 (h.mono hd)
  | alt a b iha ihb =>
    intro dep pos m cuts k1 k2 h
    simp only [bt]
    apply forkBt_congr
    · intro _; exact iha _ _ _ _ k1 k2 (h.mono (by omega))
    · intro c; exact ihb _ _ _ _ k1 k2 h
  | grp a g mn mx iha =>
    simp only [bt]
    exact btRep_congr (btGrp_congr cx iha g) mn mx

/-! ### the VM on a segment equals a backtracker -/
section eqs
variable (cx : Ctx)

theorem loop_fork' {dep pc pos m cuts a1 a2} (h : cx.prog[pc]? = some (Inst.fork a1 a2)) :
    loop cx dep pc pos m cuts =
      forkBt cx.nd dep cuts (fun d => loop cx d a1 pos m cuts)
        (fun c' => if a2 > pc then loop cx dep a2 pos m c' else Res.trap) := by
  rw [loop_fork cx h, act_eq]
  unfold forkBt forkRes
  split <;> simp_all

/-- the code from `b` to `e` behaves as the backtracker `B` continued by the code at `e` -/
def SegEq (B : Body) (b e : Nat) : Prop :=
  ∀ dep pos m cuts, loop cx dep b pos m cuts = B dep pos m cuts (fun d j m' c' => loop cx d e j m' c')

def BodyEq (body : Nat → List Inst) (bl : Nat) (B : Body) : Prop :=
  (∀ b, (body b).length = bl) ∧ Congr B ∧
  ∀ pre post b, b = pre.length → cx.prog = pre ++ body b ++ post → SegEq cx B b (b + bl)

variable {cx} {body : Nat → List Inst} {bl : Nat} {B : Body}

theorem eq_copies (hbody : BodyEq cx body bl B) :
    ∀ k pre post base, base = pre.length → cx.prog = pre ++ emitCopies body bl k base ++ post →
      ∀ e, e = base + k * bl → SegEq cx (btCopies B k) base e := by
  intro k
  induction k with
  | zero =>
    intro pre post base _ _ e he dep pos m cuts
    rw [show e = base by omega]; rfl
  | succ k ih =>
    intro pre post base hb hp e he dep pos m cuts
    have h1 := hbody.2.2 pre (emitCopies body bl k (base + bl) ++ post) base hb
      (by simp [hp, emitCopies, List.append_assoc])
    have h2 := ih (pre ++ body base) post (base + bl) (by simp [hbody.1, hb])
      (by simp [hp, emitCopies, List.append_assoc]) e (by rw [he, Nat.succ_mul]; omega)
    rw [h1]
    simp only [btCopies]
    apply hbody.2.1
    intro d j m' c _
    exact h2 d j m' c

theorem eq_opts (hbody : BodyEq cx body bl B) (endA : Nat) :
    ∀ k pre post base, base = pre.length → cx.prog = pre ++ emitOpts body bl endA k base ++ post →
      endA = base + k * (1 + bl) → SegEq cx (btOpts cx.nd B k) base endA := by
  intro k
  induction k with
  | zero =>
    intro pre post base _ _ he dep pos m cuts
    rw [show endA = base by omega]; rfl
  | succ k ih =>
    intro pre post base hb hp he dep pos m cuts
    have hf : cx.prog[base]? = some (Inst.fork (base + 1) endA) := by
      subst hb
      exact get_mid (q := body (pre.length + 1) ++ emitOpts body bl endA k (pre.length + 1 + bl) ++ post)
        (by simp [hp, emitOpts, List.append_assoc])
    have h1 := hbody.2.2 (pre ++ [Inst.fork (base + 1) endA]) (emitOpts body bl endA k (base + 1 + bl) ++ post)
      (base + 1) (by simp [hb]) (by simp [hp, emitOpts, List.append_assoc])
    have h2 := ih (pre ++ [Inst.fork (base + 1) endA] ++ body (base + 1)) post (base + 1 + bl)
      (by simp [hbody.1, hb]; omega) (by simp [hp, emitOpts, List.append_assoc])
      (by rw [he, Nat.succ_mul]; omega)
    have hgt : endA > base := by rw [he, Nat.succ_mul]; omega
    rw [loop_fork' cx hf]
    simp only [btOpts]
    apply forkBt_congr
    · intro _
      show loop cx (dep + 1) (base + 1) pos m cuts = _
      rw [h1]
      apply hbody.2.1
      intro d j m' c _
      exact h2 d j m' c
    · intro c; rw [if_pos hgt]

theorem eq_star {last b2 e : Nat} (hcongr : Congr B) (hlast : SegEq cx B last b2)
    (hf : cx.prog[b2]? = some (Inst.fork last e)) (hgt : e > b2) :
    ∀ fuel dep, cx.nd - dep ≤ fuel → ∀ pos m cuts, loop cx dep b2 pos m cuts =
      btStar cx.nd B (fun d j m' c' => loop cx d e j m' c') fuel dep pos m cuts := by
  intro fuel
  induction fuel with
  | zero =>
    intro dep hd pos m cuts
    rw [loop_fork' cx hf]
    simp only [btStar]
    apply forkBt_congr
    · intro h; omega
    · intro c; rw [if_pos hgt]
  | succ f ih =>
    intro dep hd pos m cuts
    rw [loop_fork' cx hf]
    simp only [btStar]
    apply forkBt_congr
    · intro _
      show loop cx (dep + 1) last pos m cuts = _
      rw [hlast]
      apply hcongr
      intro d j m' c hd'
      exact ih d (by omega) j m' c
    · intro c; rw [if_pos hgt]

theorem btRep_general {nd : Nat} {mn mx : Int} (h00 : ¬(mn = 0 ∧ mx = 0)) (h11 : ¬(mn = 1 ∧ mx = 1))
    (dep pos : Nat) (m : Marks) (cuts : Nat) (k : K) :
    btRep nd B mn mx dep pos m cuts k =
      if mn = 0 then
        forkBt nd dep cuts (fun d => btCopies B (max 1 mn).toNat d pos m cuts (fun d p m' c =>
          if mx < 0 then btStar nd B k (nd - d) d p m' c
          else btOpts nd B (mx - max 1 mn).toNat d p m' c k)) (fun c' => k dep pos m c')
      else btCopies B (max 1 mn).toNat dep pos m cuts (fun d p m' c =>
          if mx < 0 then btStar nd B k (nd - d) d p m' c
          else btOpts nd B (mx - max 1 mn).toNat d p m' c k) := by
  have e0 : (mn == 0 && mx == 0) = false := by simp; omega
  have e1 : (mn == 1 && mx == 1) = false := by simp; omega
  unfold btRep
  simp only [e0, e1]
  by_cases hmn : mn = 0
  · simp [hmn]
  · simp [hmn]

theorem eq_rep (hbody : BodyEq cx body bl B) (mn mx : Int) (pre post : List Inst) (base : Nat)
    (hb : base = pre.length) (hp : cx.prog = pre ++ emitRep body bl mn mx base ++ post) :
    ∀ e, e = base + repLen bl mn mx → SegEq cx (btRep cx.nd B mn mx) base e := by
  intro e he
  by_cases h00 : mn = 0 ∧ mx = 0
  · have : repLen bl mn mx = 0 := by simp [repLen, h00]
    rw [show e = base by omega]
    intro dep pos m cuts
    simp [btRep, h00]
  by_cases h11 : mn = 1 ∧ mx = 1
  · have hl : repLen bl mn mx = bl := by simp [repLen, h11]
    have hE : emitRep body bl mn mx base = body base := by simp [emitRep, h11]
    rw [hE] at hp
    rw [show e = base + bl by omega]
    intro dep pos m cuts
    rw [hbody.2.2 pre post base hb hp]
    simp [btRep, h11]
  rw [emitRep_general body base h00 h11] at hp
  have hrl := repLen_general (bl := bl) h00 h11
  rw [← he] at hp
  generalize hL : repLen bl mn mx = L at hrl he
  generalize hlead : repLead mn base e = lead at hp
  obtain ⟨c, hc⟩ : ∃ c, c = (max 1 mn).toNat := ⟨_, rfl⟩
  obtain ⟨n, hn⟩ : ∃ n, n = (mx - max 1 mn).toNat := ⟨_, rfl⟩
  rw [← hc, ← hn] at hp hrl
  generalize hstar : repStar mx (base + lead.length + c * bl - bl) (base + lead.length + c * bl + 1) = star at hp
  have hll : lead.length = if mn = 0 then 1 else 0 := by rw [← hlead, repLead_length]
  have hsl : star.length = if mx < 0 then 1 else 0 := by rw [← hstar, repStar_length]
  have hcop : SegEq cx (btCopies B c) (base + lead.length) (base + lead.length + c * bl) :=
    eq_copies hbody c (pre ++ lead)
      (star ++ emitOpts body bl e n (base + lead.length + c * bl + star.length) ++ post) _
      (by simp [hb]) (by simp [hp, List.append_assoc]) _ rfl
  have htail : ∀ d j m' c', loop cx d (base + lead.length + c * bl) j m' c' =
      if mx < 0 then btStar cx.nd B (fun d j m' c' => loop cx d e j m' c') (cx.nd - d) d j m' c'
      else btOpts cx.nd B n d j m' c' (fun d j m' c' => loop cx d e j m' c') := by
    intro d j m' c'
    by_cases hmx : mx < 0
    · rw [if_pos hmx]
      have hn0 : n = 0 := by omega
      obtain ⟨c1, hc1⟩ : ∃ c1, c = c1 + 1 := ⟨c - 1, by omega⟩
      have hmul : c * bl = c1 * bl + bl := by rw [hc1, Nat.succ_mul]
      have he' : e = base + lead.length + c * bl + 1 := by
        rw [he, hrl, hll, hn0, if_pos hmx]; omega
      have hst : star = [Inst.fork (base + lead.length + c1 * bl) e] := by
        rw [← hstar, he']; unfold repStar; rw [if_pos hmx]
        rw [show base + lead.length + c * bl - bl = base + lead.length + c1 * bl by omega]
      have hlast : SegEq cx B (base + lead.length + c1 * bl) (base + lead.length + c * bl) := by
        have := hbody.2.2 (pre ++ lead ++ emitCopies body bl c1 (base + lead.length))
          (star ++ emitOpts body bl e n (base + lead.length + c * bl + star.length) ++ post)
          (base + lead.length + c1 * bl) (by simp [emitCopies_length hbody.1, hb]; omega)
          (by rw [hp, hc1, emitCopies_snoc]; simp [List.append_assoc])
        rw [show base + lead.length + c * bl = base + lead.length + c1 * bl + bl by omega]
        exact this
      have hf : cx.prog[base + lead.length + c * bl]? = some (Inst.fork (base + lead.length + c1 * bl) e) := by
        have := get_mid (prog := cx.prog) (p := pre ++ lead ++ emitCopies body bl c (base + lead.length))
          (x := Inst.fork (base + lead.length + c1 * bl) e)
          (q := emitOpts body bl e n (base + lead.length + c * bl + star.length) ++ post)
          (by rw [hp, hst]; simp [List.append_assoc])
        rw [show (pre ++ lead ++ emitCopies body bl c (base + lead.length)).length =
          base + lead.length + c * bl by simp [emitCopies_length hbody.1, hb]; omega] at this
        exact this
      exact eq_star hbody.2.1 hlast hf (by omega) _ _ (Nat.le_refl _) _ _ _
    · rw [if_neg hmx]
      have hs0 : star = [] := by rw [← hstar]; unfold repStar; rw [if_neg hmx]
      exact eq_opts hbody e n (pre ++ lead ++ emitCopies body bl c (base + lead.length)) post
        (base + lead.length + c * bl) (by simp [emitCopies_length hbody.1, hb]; omega)
        (by rw [hp, hs0]; simp [List.append_assoc])
        (by rw [he, hrl, hll, if_neg hmx]; omega) d j m' c'
  have hmain : ∀ d pos m cuts, loop cx d (base + lead.length) pos m cuts =
      btCopies B c d pos m cuts (fun d p m' c' =>
        if mx < 0 then btStar cx.nd B (fun d j m' c' => loop cx d e j m' c') (cx.nd - d) d p m' c'
        else btOpts cx.nd B n d p m' c' (fun d j m' c' => loop cx d e j m' c')) := by
    intro d pos m cuts
    rw [hcop]
    apply btCopies_congr hbody.2.1
    intro d' j m' c' _
    exact htail d' j m' c'
  intro dep pos m cuts
  rw [btRep_general h00 h11, ← hc, ← hn]
  by_cases hmn : mn = 0
  · rw [if_pos hmn]
    have hld : lead = [Inst.fork (base + 1) e] := by
      rw [← hlead]; unfold repLead; simp [hmn]
    have hf : cx.prog[base]? = some (Inst.fork (base + 1) e) := by
      have := get_mid (prog := cx.prog) (p := pre) (x := Inst.fork (base + 1) e)
        (q := emitCopies body bl c (base + lead.length) ++ star ++
          emitOpts body bl e n (base + lead.length + c * bl + star.length) ++ post)
        (by rw [hp, hld]; simp [List.append_assoc])
      rw [← hb] at this
      exact this
    have hl1 : base + lead.length = base + 1 := by rw [hll, if_pos hmn]
    have hgt : e > base := by rw [he, hrl, if_pos hmn]; omega
    rw [hl1] at hmain
    rw [loop_fork' cx hf]
    apply forkBt_congr
    · intro _; exact hmain _ _ _ _
    · intro c; rw [if_pos hgt]
  · rw [if_neg hmn]
    have hl0 : base + lead.length = base := by rw [hll, if_neg hmn]; rfl
    rw [hl0] at hmain
    exact hmain _ _ _ _

end eqs
end Neatvi.Lemmas.C10
