import NeatviVerif.Lemmas.C08eRows
/-!
# C08 (insert mode): the general rows on typed lines that do not start with a blank

For `PlainLine`s the rows `rowsG` are the rows `rowsOf` of `Lemmas/C08dInsert.lean`, and the cursor offset is
the one stated there: the theorems of `Props/C08d.lean` are instances of those of `Props/C08e.lean`.
-/
set_option linter.unusedSimpArgs false
namespace Neatvi.Lemmas.C08e
open Neatvi Neatvi.Uc Neatvi.Vi Neatvi.Ex Neatvi.Spec Neatvi.Lemmas.C08 Neatvi.Lemmas.C08b Neatvi.Lemmas.C09
open Neatvi.Lemmas.C08d

theorem blanksCp_plain {l : List Nat} (h : PlainLine l) : blanksCp l = [] ∧ 0 < l.length := by
  obtain ⟨c, t, rfl⟩ : ∃ c t, l = c :: t := by
    cases l with
    | nil => exact absurd rfl h.2.1.1
    | cons c t => exact ⟨c, t, rfl⟩
  have hc := h.1 c (by simp)
  have h32 : c ≠ 32 := fun e => h.2.1.2 (by simp [e])
  have hb : isBlankC c = false := by
    unfold isBlankC
    simp only [Bool.or_eq_false_iff, beq_eq_false_iff_ne, ne_eq]
    exact ⟨h32, by omega⟩
  refine ⟨?_, by simp⟩
  unfold blanksCp
  rw [List.takeWhile_cons, hb]
  rfl

theorem keepCp_plain (pne lastNE : Bool) {l : List Nat} (h : PlainLine l) : keepCp pne lastNE l = true := by
  obtain ⟨h1, h2⟩ := blanksCp_plain h
  unfold keepCp
  rw [h1]
  simp [h2]

theorem aiNextCp_plain (b pne : Bool) (ai : List Nat) {l : List Nat} (h : PlainLine l) :
    aiNextCp b pne ai l = if b then ai else [] := by
  unfold aiNextCp
  rw [(blanksCp_plain h).1]
  cases b <;> cases pne <;> simp

/-- the continuation rows -/
theorem rowsG_cont_plain (xai : Bool) (last : List Nat) (hlast : PlainLine last) :
    ∀ (ls : List (List Nat)) (ai tail : List Nat), (xai = false → ai = []) → (∀ l ∈ ls, PlainLine l) →
      rowsG xai [] ai ls last tail = ls.map (fun x => ai ++ x) ++ [ai ++ last ++ tailG xai ls tail] := by
  intro ls
  induction ls with
  | nil =>
    intro ai tail _ _
    simp [rowsG, keepCp_plain _ _ hlast, tailG]
  | cons l ls ih =>
    intro ai tail hai hls
    have hl := hls l (by simp)
    have haib : (if xai = true then ai else []) = ai := by
      cases xai
      · rw [hai rfl]; rfl
      · rfl
    have ht : tailG xai ls (dropCp xai tail) = tailG xai (l :: ls) tail := by
      unfold tailG
      simp only [reduceCtorEq, if_false, dropCp_idem, ite_self]
    rw [rowsG, keepCp_plain _ _ hl, aiNextCp_plain _ _ _ hl, haib, ih ai _ hai (fun l' hl' => hls l' (by simp [hl'])), ht]
    simp

theorem lastPreG_cont_plain (xai : Bool) (last : List Nat) (hlast : PlainLine last) :
    ∀ (ls : List (List Nat)) (ai tail : List Nat), (xai = false → ai = []) → (∀ l ∈ ls, PlainLine l) →
      lastPreG xai [] ai ls last tail = ai ++ last := by
  intro ls
  induction ls with
  | nil =>
    intro ai tail _ _
    simp [lastPreG, keepCp_plain _ _ hlast]
  | cons l ls ih =>
    intro ai tail hai hls
    have hl := hls l (by simp)
    have haib : (if xai = true then ai else []) = ai := by
      cases xai
      · rw [hai rfl]; rfl
      · rfl
    rw [lastPreG, aiNextCp_plain _ _ _ hl, haib, ih ai _ hai (fun l' hl' => hls l' (by simp [hl']))]

theorem aiCp_eq (s : VS) (ps : List Nat) : aiCp s ps = if s.xai then aiRaw ps else [] := rfl

/-- **for lines that do not start with a blank the general rows are `rowsOf`** -/
theorem rowsG_plain (s : VS) (ps : List Nat) (ls : List (List Nat)) (last tail : List Nat)
    (hpl : ∀ l ∈ last :: ls, PlainLine l) :
    rowsG s.xai (hdRest ps) (aiRaw ps) ls last tail = rowsOf ps (aiCp s ps) ls last (tailOf s ls tail) := by
  have hlast := hpl last (by simp)
  cases ls with
  | nil =>
    simp only [rowsG, keepCp_plain _ _ hlast, if_true, rowsOf, tailOf]
    rw [aiRaw_hdRest]
  | cons l ls =>
    have hl := hpl l (by simp)
    rw [rowsG, keepCp_plain _ _ hl, aiNextCp_plain _ _ _ hl, ← aiCp_eq,
      rowsG_cont_plain s.xai last hlast ls (aiCp s ps) _ (by intro h; unfold aiCp; rw [h]; rfl)
        (fun l' hl' => hpl l' (by simp [hl']))]
    have ht : tailG s.xai ls (dropCp s.xai tail) = tailOf s (l :: ls) tail := by
      unfold tailG tailOf
      simp only [reduceCtorEq, if_false, dropCp_idem, ite_self]
      rfl
    rw [ht]
    simp only [if_true, rowsOf, aiRaw_hdRest]

theorem lastPreG_plain (s : VS) (ps : List Nat) (ls : List (List Nat)) (last tail : List Nat)
    (hpl : ∀ l ∈ last :: ls, PlainLine l) :
    lastPreG s.xai (hdRest ps) (aiRaw ps) ls last tail = lastHd ps (aiCp s ps) ls ++ last := by
  have hlast := hpl last (by simp)
  cases ls with
  | nil =>
    simp only [lastPreG, keepCp_plain _ _ hlast, if_true, lastHd]
    rw [aiRaw_hdRest]
  | cons l ls =>
    have hl := hpl l (by simp)
    rw [lastPreG, aiNextCp_plain _ _ _ hl, ← aiCp_eq,
      lastPreG_cont_plain s.xai last hlast ls (aiCp s ps) _ (by intro h; unfold aiCp; rw [h]; rfl)
        (fun l' hl' => hpl l' (by simp [hl']))]
    simp [lastHd]

theorem offG_plain (s : VS) (ps : List Nat) (ls : List (List Nat)) (last tail : List Nat)
    (hpl : ∀ l ∈ last :: ls, PlainLine l) :
    offG (lastPreG s.xai (hdRest ps) (aiRaw ps) ls last tail).length =
      ((lastHd ps (aiCp s ps) ls).length : Int) + last.length - 1 := by
  rw [lastPreG_plain s ps ls last tail hpl]
  have := (hpl last (by simp)).pos
  unfold offG
  rw [if_neg (by simp only [List.length_append]; omega)]
  simp only [List.length_append]
  omega

end Neatvi.Lemmas.C08e
