import NeatviVerif.Model.Uc
/-!
# C13: facts about `uc_chr` / `uc_off` on arbitrary byte strings (no UTF-8 validity assumed)
-/
namespace Neatvi.Lemmas.C13
open Neatvi Neatvi.Uc

theorem contRun_le (r : Bytes) : contRun r ≤ r.length := by
  induction r with
  | nil => simp [contRun]
  | cons b r ih => simp only [contRun]; split <;> simp <;> omega

theorem ucEnd_le (s : Bytes) : ucEnd s ≤ s.length := by
  cases s with
  | nil => simp [ucEnd]
  | cons c r =>
    simp only [ucEnd]
    have h1 := contRun_le r
    have h2 := contRun_le (c :: r)
    simp only [List.length_cons] at *
    split
    · omega
    · split <;> omega

theorem hd_drop_ne_zero {s : Bytes} {e : Nat} (h : Bytes.hd (s.drop e) ≠ 0) : e < s.length := by
  by_cases he : e < s.length
  · exact he
  · rw [List.drop_eq_nil_of_le (by omega)] at h; simp at h

theorem ucNext_le (s : Bytes) : ucNext s ≤ s.length := by
  simp only [ucNext]
  split
  · rename_i h
    have := hd_drop_ne_zero (s := s) (e := ucEnd s) (by simpa using h)
    omega
  · exact ucEnd_le s

theorem ucNext_pos {s : Bytes} (h : Bytes.hd s ≠ 0) : 1 ≤ ucNext s := by
  simp only [ucNext]
  by_cases he : ucEnd s = 0
  · rw [he]; simp [h]
  · split <;> omega

/-- the byte offset `uc_chr` returns lies inside the string (or at its terminator) -/
theorem ucChrF_le (f : Nat) (s : Bytes) (i off b : Nat) (h : ucChrF f s i off = some b) : b ≤ s.length := by
  induction f generalizing s i b with
  | zero =>
    simp only [ucChrF] at h
    split at h
    · split at h <;> simp at h <;> omega
    · simp at h
  | succ f ih =>
    simp only [ucChrF] at h
    split at h
    · split at h <;> simp at h <;> omega
    · split at h
      · simp at h; omega
      · simp only [Option.map_eq_some_iff] at h
        obtain ⟨b', hb', rfl⟩ := h
        have := ih _ _ _ hb'
        have h2 := ucNext_le s
        simp only [List.length_drop] at this
        omega

theorem ucChr_le {s : Bytes} {k b : Nat} (h : ucChr s k = some b) : b ≤ s.length := ucChrF_le _ _ _ _ _ h

/-- the characters counted by `uc_off` up to a byte at or after the one `uc_chr` found for
    character `off` are at least `off - i` -/
theorem ucOffF_ge (f : Nat) (s : Bytes) (i off b x g : Nat) (h : ucChrF f s i off = some b) (hi : i ≤ off)
    (hg : s.length ≤ g) : off - i ≤ ucOffF g s (b + x) := by
  induction f generalizing s i b g with
  | zero =>
    simp only [ucChrF] at h
    split at h
    · split at h
      · rename_i h2; simp at h2; omega
      · simp at h
    · simp at h
  | succ f ih =>
    simp only [ucChrF] at h
    split at h
    · split at h
      · rename_i h2; simp at h2; omega
      · simp at h
    · rename_i hz
      split at h
      · rename_i h2; simp at h2; omega
      · rename_i h2
        simp only [Option.map_eq_some_iff] at h
        obtain ⟨b', hb', rfl⟩ := h
        have hne : Bytes.hd s ≠ 0 := by simpa using hz
        have hpos := ucNext_pos hne
        have hle := ucNext_le s
        have hi' : i + 1 ≤ off := by simp at h2; omega
        cases g with
        | zero =>
          have : s = [] := List.eq_nil_of_length_eq_zero (by omega)
          subst this; simp at hne
        | succ g =>
          simp only [ucOffF]
          have hc : (0 < b' + ucNext s + x && Bytes.hd s != 0) = true := by
            simp [hne]; omega
          rw [if_pos hc]
          have := ih (s.drop (ucNext s)) (i + 1) b' g hb' hi' (by simp only [List.length_drop]; omega)
          rw [show b' + ucNext s + x - ucNext s = b' + x by omega]
          omega

/-- if `uc_chr(s, k)` is byte `b`, every byte offset from `b` on has character offset at least `k` -/
theorem ucOff_ge_of_chr {s : Bytes} {k b : Nat} (h : ucChr s k = some b) (x : Nat) : k ≤ ucOff s (b + x) := by
  have := ucOffF_ge s.length s 0 k b x s.length h (Nat.zero_le _) (Nat.le_refl _)
  simpa [ucOff] using this

end Neatvi.Lemmas.C13
