import NeatviVerif.Lemmas.C05dCmd
import NeatviVerif.Lemmas.C06bExec
import NeatviVerif.Lemmas.C02cStages
/-!
# C05d lemmas, part 4: the states a command line visits

The recursive handlers (`:g`, `:@`, `:e +cmd`) run command lines of their own.  `VCommand f ed ln s` says: while
`exCommand f ed ln` runs, `s` is the state some handler call (at any depth) returned, or the state at the start of a
round of a `:g` loop, or the state a `+cmd` of `:e` starts from.  The relations follow the call structure of the model and nothing else: every constructor
quotes the piece of the model that makes the call.

`scan_succ` and `ecEdit_stage` restate the loop of `:g` and `ec_edit` so that the nested calls are visible.
-/
namespace Neatvi.Lemmas.C05d
open Neatvi Neatvi.Lbuf Neatvi.Ex Neatvi.Rset Neatvi.Lemmas.C06b Neatvi.Lemmas.C02c

/-- one round of the loop of `ec_glob` at line `i`: (stop?, state, next index) -/
def globStep (f : Nat) (neg : Bool) (body : Bytes) (re : RStr) (ed : Ed) (i : Int) : Option (Bool × Ed × Int) :=
  match ed.line i with
  | none => none
  | some ln =>
    match rstrFind re ln 16 0 ND NG with
    | none => none
    | some (res, _, _) =>
      if (res < 0) == neg then
        (match exExec f { ed with xrow := i } body with
        | none => none
        | some (r, ed) => if r != 0 then some (true, ed, i) else some (false, ed, max 0 (min i ed.xrow)))
      else some (false, ed, i)

theorem scan_succ (f : Nat) (neg : Bool) (body : Bytes) (re : RStr) (dep g : Nat) (ed : Ed) (i : Int) :
    ecGlob.scan f neg body re dep (g + 1) ed i =
      if i ≥ ed.len then some ed else
      match globStep f neg body re ed i with
      | none => none
      | some (true, ed, _) => some ed
      | some (false, ed, i) =>
        if i < 0 then none else
        ecGlob.scan f neg body re dep g (ecGlob.scan.adv dep (ed.len.toNat + 1) ed i).1
          (ecGlob.scan.adv dep (ed.len.toNat + 1) ed i).2 := by
  rw [ecGlob.scan]
  unfold globStep
  split
  · rfl
  · cases ed.line i with
    | none => rfl
    | some ln =>
      simp only []
      cases rstrFind re ln 16 0 ND NG with
      | none => rfl
      | some x =>
        obtain ⟨res, o, k⟩ := x
        simp only []
        by_cases hc : (decide (res < 0) == neg) = true
        · simp only [hc, if_true]
          cases exExec f { ed with xrow := i } body with
          | none => rfl
          | some y =>
            obtain ⟨r, ed1⟩ := y
            simp only []
            by_cases hr : (r != 0) = true
            · simp only [hr, if_true]
            · simp only [hr]; rfl
        · simp only [hc]; rfl

/-- `ec_edit` up to the `+cmd`: an early return `(code, state)`, or the state the `+cmd` starts from -/
def editStage (ed : Ed) (cmd arg : Bytes) : Option (Sum (Int × Ed) Ed) :=
  match Props.C20.editGuard ed cmd with
  | none => none
  | some (true, ed) => some (.inl (1, ed))
  | some (false, ed) =>
    match pathExpand ed (plusSplit arg).2 false with
    | none => none
    | some (none, ed) => some (.inl (1, ed))
    | some (some path, ed) =>
      if !path.isEmpty && (Props.C20.ewPre ed cmd path).bufsFind path ≥ 0 then
        some (.inr ((Props.C20.ewPre ed cmd path).bufsSwitch ((Props.C20.ewPre ed cmd path).bufsFind path).toNat))
      else
        match editGuard2 (Props.C20.ewPre ed cmd path) path with
        | none => none
        | some (true, ed) => some (.inl (1, ed))
        | some (false, ed) =>
          match editFinish (editOpen ed path) path with
          | none => none
          | some ed => some (.inr ed)

theorem ecEdit_stage (f : Nat) (ed : Ed) (cmd arg : Bytes) :
    ecEdit (f + 1) ed cmd arg =
      match editStage ed cmd arg with
      | none => none
      | some (.inl x) => some x
      | some (.inr edX) => editPlus f (plusSplit arg).1 edX := by
  rw [ecEdit_stages]
  unfold editStage
  cases Props.C20.editGuard ed cmd with
  | none => rfl
  | some x =>
    obtain ⟨g, ed1⟩ := x
    cases g with
    | true => rfl
    | false =>
      simp only []
      cases pathExpand ed1 (plusSplit arg).2 false with
      | none => rfl
      | some y =>
        obtain ⟨p, ed2⟩ := y
        cases p with
        | none => rfl
        | some path =>
          simp only []
          split
          · rfl
          · cases editGuard2 (Props.C20.ewPre ed2 cmd path) path with
            | none => rfl
            | some z =>
              obtain ⟨g2, ed3⟩ := z
              cases g2 with
              | true => rfl
              | false =>
                simp only []
                cases editFinish (editOpen ed3 path) path with
                | none => rfl
                | some ed4 => rfl

mutual
/-- visited while `exCommand f ed ln` runs -/
inductive VCommand : Nat → Ed → Bytes → Ed → Prop
  | exec {f : Nat} {ed : Ed} {ln : Bytes} {s : Ed} : VExec f ed ln s → VCommand (f + 1) ed ln s

/-- visited while `exExec f ed ln` runs -/
inductive VExec : Nat → Ed → Bytes → Ed → Prop
  | cmds {f : Nat} {ed : Ed} {ln : Bytes} {s : Ed} : ln.length < Gen.EXLEN →
      VCmds f (ln.length + 1) ed ln 0 s → VExec (f + 1) ed ln s

/-- visited while the loop `exExec.cmds f g ed ln ret` runs -/
inductive VCmds : Nat → Nat → Ed → Bytes → Int → Ed → Prop
  /-- the state the first command of the line returned -/
  | ret {f g : Nat} {ed : Ed} {ln : Bytes} {ret r : Int} {s : Ed} {rest : Bytes} : ln.isEmpty = false →
      runOne f ed (parse1 ln) ret = some ((r, s), rest) → VCmds f (g + 1) ed ln ret s
  /-- a state visited inside the first command -/
  | inner {f g : Nat} {ed : Ed} {ln : Bytes} {ret : Int} {a : Bytes} {h : String} {s : Ed} : ln.isEmpty = false →
      (parse1 ln).idx = some (a, h) →
      VRun f (exTxt ed (parse1 ln).rest a).2 h (parse1 ln).loc (parse1 ln).cmd (parse1 ln).arg
        (exTxt ed (parse1 ln).rest a).1.1 s →
      VCmds f (g + 1) ed ln ret s
  /-- a state visited by the rest of the line -/
  | later {f g : Nat} {ed : Ed} {ln : Bytes} {ret r : Int} {ed1 : Ed} {rest : Bytes} {s : Ed} : ln.isEmpty = false →
      runOne f ed (parse1 ln) ret = some ((r, ed1), rest) → VCmds f g ed1 rest r s → VCmds f (g + 1) ed ln ret s

/-- visited inside one call of a handler (only `:@`, `:g`, `:e +cmd` make calls of their own) -/
inductive VRun : Nat → Ed → String → Bytes → Bytes → Bytes → Option Bytes → Ed → Prop
  | at {f : Nat} {ed : Ed} {loc cmd arg : Bytes} {txt : Option Bytes} {s : Ed} :
      VAt f ed loc cmd arg s → VRun (f + 1) ed "ec_at" loc cmd arg txt s
  | glob {f : Nat} {ed : Ed} {loc cmd arg : Bytes} {txt : Option Bytes} {s : Ed} :
      VGlob f ed loc cmd arg s → VRun (f + 1) ed "ec_glob" loc cmd arg txt s
  | edit {f : Nat} {ed : Ed} {loc cmd arg : Bytes} {txt : Option Bytes} {s : Ed} :
      VEdit f ed cmd arg s → VRun (f + 1) ed "ec_edit" loc cmd arg txt s

/-- `:@r`: the register is run as a command line from the first line of the region, one level deeper in the
    count of executing registers (and only when fewer than sixteen are executing) -/
inductive VAt : Nat → Ed → Bytes → Bytes → Bytes → Ed → Prop
  | cmd {f : Nat} {ed : Ed} {loc cmd arg buf : Bytes} {rc : Nat} {b e : Int} {ed1 s : Ed} :
      regGet ed (regName arg) = some buf → exRegion ed loc = some ((rc, b, e), ed1) → (rc != 0) = false →
      ed1.atDepth < 16 →
      (cmd.headD 0 == 114 && cmd.getD 1 0 == 97) = false →
      VCommand f { ed1 with xrow := b, atDepth := ed1.atDepth + 1 } buf s → VAt (f + 1) ed loc cmd arg s

/-- `:e +cmd path`: the command runs in the state `ec_edit` prepared -/
inductive VEdit : Nat → Ed → Bytes → Bytes → Ed → Prop
  /-- the state the `+cmd` starts from (the buffer just switched to or loaded) -/
  | start {f : Nat} {ed : Ed} {cmd arg : Bytes} {edX : Ed} : editStage ed cmd arg = some (.inr edX) →
      ((plusSplit arg).1.headD 0 == 43) = true → VEdit (f + 1) ed cmd arg edX
  | plus {f : Nat} {ed : Ed} {cmd arg : Bytes} {edX s : Ed} : editStage ed cmd arg = some (.inr edX) →
      ((plusSplit arg).1.headD 0 == 43) = true →
      VCommand f edX ((plusSplit arg).1.drop 1) s → VEdit (f + 1) ed cmd arg s

/-- `:g`: the loop over the marked lines (only below the eighth nesting level) -/
inductive VGlob : Nat → Ed → Bytes → Bytes → Bytes → Ed → Prop
  | scan {f : Nat} {ed : Ed} {loc cmd arg : Bytes} {rc : Nat} {b e : Int} {ed1 : Ed} {re : RStr} {s : Ed} :
      ed.xgdep < 7 →
      exRegion ed (if loc.isEmpty && ed.xgdep == 0 then [37] else loc) = some ((rc, b, e), ed1) → (rc != 0) = false →
      ((gPrep ed1 arg).xkwddir == 0) = false →
      (gPrep ed1 arg).mkRe (gPrep ed1 arg).xkwd = some (some re) →
      VScan f (hasBang cmd || cmd.headD 0 == 118) (reRead arg).2 re ((gPrep ed1 arg).xgdep + 1)
        (gBudget (gMark (gPrep ed1 arg) b e ((gPrep ed1 arg).xgdep + 1)))
        (gMark (gPrep ed1 arg) b e ((gPrep ed1 arg).xgdep + 1)) b s →
      VGlob (f + 1) ed loc cmd arg s

/-- the rounds of the loop of `:g` -/
inductive VScan : Nat → Bool → Bytes → RStr → Nat → Nat → Ed → Int → Ed → Prop
  /-- the state at the start of a round -/
  | here {f : Nat} {neg : Bool} {body : Bytes} {re : RStr} {dep g : Nat} {ed : Ed} {i : Int} : ¬ (i ≥ ed.len) →
      VScan f neg body re dep (g + 1) ed i ed
  /-- a state the command list visits on line `i` -/
  | body {f : Nat} {neg : Bool} {body : Bytes} {re : RStr} {dep g : Nat} {ed : Ed} {i : Int} {ln : Bytes} {res : Int}
      {x : List Int × Nat} {s : Ed} : ¬ (i ≥ ed.len) → ed.line i = some ln → rstrFind re ln 16 0 ND NG = some (res, x) →
      ((res < 0) == neg) = true → VExec f { ed with xrow := i } body s → VScan f neg body re dep (g + 1) ed i s
  /-- a state visited in a later round -/
  | next {f : Nat} {neg : Bool} {body : Bytes} {re : RStr} {dep g : Nat} {ed : Ed} {i : Int} {ed2 : Ed} {i2 : Int} {s : Ed} :
      ¬ (i ≥ ed.len) → globStep f neg body re ed i = some (false, ed2, i2) → ¬ (i2 < 0) →
      VScan f neg body re dep g (ecGlob.scan.adv dep (ed2.len.toNat + 1) ed2 i2).1
        (ecGlob.scan.adv dep (ed2.len.toNat + 1) ed2 i2).2 s →
      VScan f neg body re dep (g + 1) ed i s
end

end Neatvi.Lemmas.C05d
