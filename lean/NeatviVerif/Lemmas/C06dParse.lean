import NeatviVerif.Lemmas.C06dRegion
import NeatviVerif.Lemmas.C06bExec
/-!
# C06d, the splitting of a command line whose address has marks and patterns, and whose argument has
# backslash pairs: `ex_loc`, `ex_arg`
-/
namespace Neatvi.Lemmas.C06d
open Neatvi Neatvi.Ex Neatvi.Lemmas.C06b

/-! ### `ex_loc`, piece by piece -/

theorem go_simple_step : ∀ (cs r acc : Bytes) (f : Nat), (∀ c ∈ cs, c ∈ simpleLoc) → cs.length ≤ f →
    exLoc.go f (cs ++ r) acc = exLoc.go (f - cs.length) r (acc ++ cs) := by
  intro cs
  induction cs with
  | nil => intro r acc f _ _; simp
  | cons c cs ih =>
    intro r acc f hl hf
    obtain ⟨f, rfl⟩ : ∃ g, f = g + 1 := ⟨f - 1, by simp at hf; omega⟩
    obtain ⟨k1, k2, k3, k4, _⟩ := simpleLoc_facts c (hl c (by simp))
    have e1 : (c == 39) = false := by simp [k2]
    have e2 : (c == 47) = false := by simp [k3]
    have e3 : (c == 63) = false := by simp [k4]
    rw [List.cons_append, exLoc.go]
    simp only [k1, Bool.not_true, Bool.false_eq_true, if_false, e1, List.headD_cons, e2, e3, Bool.or_self]
    rw [ih r (acc ++ [c]) f (fun x hx => hl x (by simp [hx])) (by simp at hf; omega)]
    simp

theorem go_mark_step (m : Nat) (r acc : Bytes) (f : Nat) (h1 : m ≠ 47) (h2 : m ≠ 63) :
    exLoc.go (f + 1) (39 :: m :: r) acc = exLoc.go f r (acc ++ [39, m]) := by
  have e1 : (m == 47) = false := by simpa using h1
  have e2 : (m == 63) = false := by simpa using h2
  have k : locChars.contains 39 = true := by rw [locChars_eq]; decide
  rw [exLoc.go]
  simp only [k, Bool.not_true, Bool.false_eq_true, if_false, beq_self_eq_true, if_true, List.drop_succ_cons,
    List.drop_zero, List.headD_cons, e1, e2, Bool.or_self]
  simp

theorem pat_toks (delim : Nat) (hd : delim ≠ 92) : ∀ (toks : List PTok) (tail acc : Bytes) (g : Nat),
    (∀ t ∈ toks, t.Ok delim) → toks.length ≤ g →
    exLoc.go.pat delim g (rawPat toks ++ tail) acc = exLoc.go.pat delim (g - toks.length) tail (acc ++ rawPat toks) := by
  intro toks
  induction toks with
  | nil => intro tail acc g _ _; simp [rawPat]
  | cons t r ih =>
    intro tail acc g hok hg
    obtain ⟨g, rfl⟩ : ∃ k, g = k + 1 := ⟨g - 1, by simp at hg; omega⟩
    have hr : ∀ t ∈ r, t.Ok delim := fun x hx => hok x (List.mem_cons_of_mem _ hx)
    have hg' : r.length ≤ g := by simp at hg; omega
    rw [rawPat_cons]
    cases t with
    | ch c =>
      obtain ⟨h1, h2⟩ : c ≠ delim ∧ c ≠ 92 := hok (.ch c) (List.mem_cons_self ..)
      have e1 : (c == delim) = false := by simpa using h1
      have e2 : (c == 92) = false := by simpa using h2
      simp only [PTok.raw, List.cons_append, List.nil_append]
      rw [exLoc.go.pat]
      simp only [e1, e2, Bool.false_eq_true, if_false, Bool.false_and]
      rw [ih tail _ g hr hg']
      simp [List.append_assoc]
    | esc d =>
      have e1 : ((92 : Nat) == delim) = false := by simpa using fun h => hd h.symm
      simp only [PTok.raw, List.cons_append, List.nil_append]
      rw [exLoc.go.pat]
      simp only [e1, Bool.false_eq_true, if_false, beq_self_eq_true, Bool.true_and, List.isEmpty_cons,
        Bool.not_false, if_true, List.headD_cons, List.drop_succ_cons, List.drop_zero]
      rw [ih tail _ g hr hg']
      simp [List.append_assoc]

theorem go_search_step (back : Bool) (toks : List PTok) (r acc : Bytes) (f : Nat)
    (hok : ∀ t ∈ toks, t.Ok (delimOf back)) :
    exLoc.go (f + 1) ((Base.search back toks true).render ++ r) acc =
      exLoc.go f r (acc ++ (Base.search back toks true).render) := by
  have k : locChars.contains (delimOf back) = true := by rw [locChars_eq]; cases back <;> decide
  have e39 : (delimOf back == 39) = false := by cases back <;> rfl
  have e4763 : (delimOf back == 47 || delimOf back == 63) = true := by cases back <;> rfl
  have hlen := toks_le_raw toks
  simp only [Base.render, if_true, List.cons_append, List.append_assoc, List.nil_append]
  rw [exLoc.go]
  simp only [k, Bool.not_true, Bool.false_eq_true, if_false, e39, List.headD_cons, e4763, if_true,
    List.drop_succ_cons, List.drop_zero]
  rw [pat_toks _ (delimOf_ne back) toks _ [] _ hok (by simp; omega)]
  obtain ⟨k', hk'⟩ : ∃ k', (delimOf back :: (rawPat toks ++ delimOf back :: r)).length + 1 - toks.length = k' + 1 :=
    ⟨(delimOf back :: (rawPat toks ++ delimOf back :: r)).length - toks.length, by simp; omega⟩
  rw [hk', exLoc.go.pat]
  simp [List.append_assoc]

/-! ### whole addresses -/

theorem digit_simple (d : Nat) (h : isDigit d = true) : d ∈ simpleLoc := by
  simp only [isDigit, Bool.and_eq_true, decide_eq_true_eq] at h
  simp only [simpleLoc, List.mem_cons, List.not_mem_nil, or_false]
  omega

theorem offsText_simple (l : List Off) (h : ∀ o ∈ l, ∀ d ∈ o.ds, isDigit d = true) : ∀ c ∈ offsText l, c ∈ simpleLoc := by
  induction l with
  | nil => intro c hc; simp [offsText] at hc
  | cons o l ih =>
    intro c hc
    rw [offsText_cons] at hc
    simp only [List.mem_cons, List.mem_append] at hc
    rcases hc with hc | hc | hc
    · subst hc; cases o.neg <;> simp [simpleLoc]
    · exact digit_simple c (h o (List.mem_cons_self ..) c hc)
    · exact ih (fun o' ho' => h o' (List.mem_cons_of_mem _ ho')) c hc

/-- what `ex_loc` needs beyond `Addr.Ok`: a mark is not named `/` or `?`, the skipped bytes are address bytes
    other than `'`, `/`, `?`, and a pattern is closed by its delimiter -/
def Base.Lex : Base → Prop
  | .mark m => m ≠ 47 ∧ m ≠ 63
  | _ => True

instance (b : Base) : Decidable b.Lex := by cases b <;> (unfold Base.Lex; exact inferInstance)

def Addr.Lex (a : Addr) : Prop := a.base.Lex ∧ (∀ c ∈ a.junk, c ∈ simpleLoc) ∧ a.base.closed = true

instance (a : Addr) : Decidable a.Lex := by unfold Addr.Lex; exact inferInstance

theorem go_base (b : Base) (acc : Bytes) (hb : b.Ok) (hm : b.Lex)
    (hcl : b.closed = true) (f : Nat) (hf : b.render.length ≤ f) :
    ∃ g, f - b.render.length ≤ g ∧ ∀ (rr : Bytes), exLoc.go f (b.render ++ rr) acc = exLoc.go g rr (acc ++ b.render) := by
  cases b with
  | implicit => exact ⟨f, by simp [Base.render], fun rr => by simp [Base.render]⟩
  | dot =>
    refine ⟨f - 1, by simp [Base.render], fun rr => ?_⟩
    exact go_simple_step [46] rr acc f (by simp [simpleLoc]) hf
  | dollar =>
    refine ⟨f - 1, by simp [Base.render], fun rr => ?_⟩
    exact go_simple_step [36] rr acc f (by simp [simpleLoc]) hf
  | num ds =>
    refine ⟨f - ds.length, by simp [Base.render], fun rr => ?_⟩
    exact go_simple_step ds rr acc f (fun c hc => digit_simple c (hb.2 c hc)) hf
  | mark m =>
    obtain ⟨g, rfl⟩ : ∃ g, f = g + 1 := ⟨f - 1, by simp [Base.render] at hf; omega⟩
    refine ⟨g, by simp only [Base.render, List.length_cons, List.length_nil]; omega, fun rr => ?_⟩
    exact go_mark_step m rr acc g hm.1 hm.2
  | search back toks cl =>
    simp only [Base.closed] at hcl
    subst hcl
    obtain ⟨g, rfl⟩ : ∃ g, f = g + 1 := ⟨f - 1, by simp [Base.render] at hf; omega⟩
    refine ⟨g, by simp only [Base.render, List.length_cons]; omega, fun rr => ?_⟩
    have hb' : ∀ t ∈ toks, t.Ok (delimOf back) := by
      rcases hb with h | ⟨h, _⟩
      · exact h
      · cases h
    exact go_search_step back toks rr acc g hb'
  | quote => simp [Base.closed] at hcl

theorem go_addr (a : Addr) (r acc : Bytes) (hok : a.Ok) (hlex : a.Lex) : ∀ f, a.render.length ≤ f →
    ∃ f', f - a.render.length ≤ f' ∧ exLoc.go f (a.render ++ r) acc = exLoc.go f' r (acc ++ a.render) := by
  intro f hf
  obtain ⟨hb, ho, _, _⟩ := hok
  obtain ⟨hm, hj, hcl⟩ := hlex
  -- offsets and junk are plain address bytes
  have htail : ∀ (f : Nat) (acc : Bytes), (offsText a.offs ++ a.junk).length ≤ f →
      exLoc.go f ((offsText a.offs ++ a.junk) ++ r) acc =
        exLoc.go (f - (offsText a.offs ++ a.junk).length) r (acc ++ (offsText a.offs ++ a.junk)) := by
    intro f acc hf
    apply go_simple_step _ _ _ _ _ hf
    intro c hc
    rcases List.mem_append.mp hc with hc | hc
    · exact offsText_simple a.offs ho c hc
    · exact hj c hc
  have hren : a.render ++ r = a.base.render ++ ((offsText a.offs ++ a.junk) ++ r) := by
    simp [Addr.render, List.append_assoc]
  have hren2 : a.render = a.base.render ++ (offsText a.offs ++ a.junk) := by
    simp [Addr.render, List.append_assoc]
  have hlen : a.render.length = a.base.render.length + (offsText a.offs ++ a.junk).length := by
    rw [hren2, List.length_append]
  rw [hren]
  obtain ⟨g, hg, hgo⟩ := go_base a.base acc hb hm hcl f (by omega)
  rw [hgo, htail g _ (by omega)]
  refine ⟨g - (offsText a.offs ++ a.junk).length, by omega, ?_⟩
  rw [hren2, List.append_assoc]

/-- every address of the list is lexically fine for `ex_loc` -/
def ListLex (l : AddrList) : Prop := ∀ p ∈ l, p.1.Lex

instance (l : AddrList) : Decidable (ListLex l) := by unfold ListLex; exact inferInstance

theorem listOk_all : ∀ (l : AddrList), ListOk l → ∀ p ∈ l, p.1.Ok := by
  intro l
  induction l with
  | nil => intro h; exact absurd h (by simp [ListOk])
  | cons p r ih =>
    obtain ⟨a, s⟩ := p
    intro h q hq
    cases r with
    | nil =>
      simp only [List.mem_cons, List.not_mem_nil, or_false] at hq
      subst hq
      exact h.1
    | cons p' r' =>
      rcases List.mem_cons.mp hq with rfl | hq
      · exact h.1
      · exact ih h.2.2.2 q hq

theorem go_list : ∀ (l : AddrList) (r acc : Bytes), (∀ p ∈ l, p.1.Ok) → ListLex l → ∀ f, (renderList l).length ≤ f →
    ∃ f', f - (renderList l).length ≤ f' ∧ exLoc.go f (renderList l ++ r) acc = exLoc.go f' r (acc ++ renderList l) := by
  intro l
  induction l with
  | nil => intro r acc _ _ f _; exact ⟨f, by simp [renderList], by simp [renderList]⟩
  | cons p l ih =>
    obtain ⟨a, s⟩ := p
    intro r acc hok hlex f hf
    rw [renderList_cons] at hf ⊢
    simp only [List.length_append] at hf
    have e1 : (a.render ++ (s.text ++ renderList l)) ++ r = a.render ++ (s.text ++ (renderList l ++ r)) := by
      simp [List.append_assoc]
    rw [e1]
    obtain ⟨f1, h1, g1⟩ := go_addr a (s.text ++ (renderList l ++ r)) acc (hok _ (List.mem_cons_self ..))
      (hlex _ (List.mem_cons_self ..)) f (by omega)
    rw [g1]
    have hs : ∀ c ∈ s.text, c ∈ simpleLoc := by cases s <;> simp [Sep.text, simpleLoc]
    rw [go_simple_step s.text _ _ f1 hs (by omega)]
    obtain ⟨f2, h2, g2⟩ := ih r (acc ++ a.render ++ s.text) (fun q hq => hok q (List.mem_cons_of_mem _ hq))
      (fun q hq => hlex q (List.mem_cons_of_mem _ hq)) (f1 - s.text.length) (by omega)
    rw [g2]
    refine ⟨f2, by simp only [List.length_append]; omega, ?_⟩
    simp [List.append_assoc]

/-- what `ex_loc` needs of a location -/
def Loc.Lex : Loc → Prop
  | .list l => ListLex l
  | _ => True

instance (l : Loc) : Decidable l.Lex := by cases l <;> (unfold Loc.Lex; exact inferInstance)

theorem go_end (f : Nat) (r acc : Bytes) (hr : locChars.contains (r.headD 0) = false) : exLoc.go f r acc = (acc, r) := by
  cases f with
  | zero => rw [exLoc.go]
  | succ f =>
    cases r with
    | nil => rw [exLoc.go]
    | cons c r =>
      simp only [List.headD_cons] at hr
      rw [exLoc.go, if_pos (by rw [hr]; rfl)]

/-- a byte `ex_loc` does not skip before the address -/
def GoodStart (x : Nat) : Prop := x ≠ 58 ∧ x ≠ 32 ∧ x ≠ 9

theorem simple_head (cs rest : Bytes) (h1 : cs ≠ []) (h2 : ∀ c ∈ cs, c ∈ simpleLoc) : GoodStart ((cs ++ rest).headD 0) := by
  cases cs with
  | nil => exact absurd rfl h1
  | cons c cs' =>
    obtain ⟨_, _, _, _, a, b, c'⟩ := simpleLoc_facts c (h2 c (List.mem_cons_self ..))
    exact ⟨a, b, c'⟩

theorem addr_head (a : Addr) (rest : Bytes) (ha : a.Ok) (hal : a.Lex) (hne : a.render ≠ []) :
    GoodStart ((a.render ++ rest).headD 0) := by
  have htail : ∀ c ∈ offsText a.offs ++ a.junk, c ∈ simpleLoc := by
    intro c hc
    rcases List.mem_append.mp hc with hc | hc
    · exact offsText_simple a.offs ha.2.1 c hc
    · exact hal.2.1 c hc
  have hren2 : a.render = a.base.render ++ (offsText a.offs ++ a.junk) := by
    simp [Addr.render, List.append_assoc]
  rw [hren2] at hne ⊢
  cases hb : a.base with
  | implicit =>
    rw [hb] at hne
    simp only [Base.render, List.nil_append] at hne ⊢
    exact simple_head _ _ hne htail
  | dot => simp only [Base.render, List.cons_append, List.headD_cons]; exact ⟨by decide, by decide, by decide⟩
  | dollar => simp only [Base.render, List.cons_append, List.headD_cons]; exact ⟨by decide, by decide, by decide⟩
  | mark m => simp only [Base.render, List.cons_append, List.headD_cons]; exact ⟨by decide, by decide, by decide⟩
  | quote => simp only [Base.render, List.cons_append, List.headD_cons]; exact ⟨by decide, by decide, by decide⟩
  | search back toks cl =>
    simp only [Base.render, List.cons_append, List.headD_cons]
    cases back <;> exact ⟨by decide, by decide, by decide⟩
  | num ds =>
    have hds := ha.1
    rw [hb] at hds
    simp only [Base.render, List.append_assoc]
    exact simple_head ds _ hds.1 (fun c hc => digit_simple c (hds.2 c hc))

theorem loc_head (loc : Loc) (hok : loc.Ok) (hlex : loc.Lex) (rest : Bytes) (hne : loc.render ≠ []) :
    GoodStart ((loc.render ++ rest).headD 0) := by
  cases loc with
  | whole => simp only [Loc.render, List.cons_append, List.headD_cons]; exact ⟨by decide, by decide, by decide⟩
  | current => exact absurd rfl hne
  | list l =>
    obtain ⟨hl, _⟩ := hok
    cases l with
    | nil => exact absurd hl (by simp [ListOk])
    | cons p r =>
      obtain ⟨a, s⟩ := p
      have ha : a.Ok := listOk_all _ hl _ (List.mem_cons_self ..)
      have hal : a.Lex := hlex _ (List.mem_cons_self ..)
      simp only [Loc.render, renderList_cons, List.append_assoc]
      by_cases hr : a.render = []
      · rw [hr, List.nil_append]
        have hs : s ≠ .fin := by
          intro h
          cases r with
          | nil => exact hl.2.1 h hr
          | cons q r' => exact hl.2.1 h
        cases s with
        | fin => exact absurd rfl hs
        | comma => simp only [Sep.text, List.cons_append, List.headD_cons]; exact ⟨by decide, by decide, by decide⟩
        | semi => simp only [Sep.text, List.cons_append, List.headD_cons]; exact ⟨by decide, by decide, by decide⟩
      · exact addr_head a _ ha hal hr

/-- **`ex_loc` takes exactly the rendered location** off the front of a command line, when what follows is no
    address byte (a letter, `!`, `=`, `@`, a blank, …, or nothing) -/
theorem exLoc_render (loc : Loc) (r : Bytes) (hok : loc.Ok) (hlex : loc.Lex)
    (hr : locChars.contains (r.headD 0) = false)
    (hstart : loc.render = [] → r.headD 0 ≠ 58 ∧ r.headD 0 ≠ 32 ∧ r.headD 0 ≠ 9) :
    exLoc (loc.render ++ r) = (loc.render, r) := by
  unfold exLoc
  have hd : (loc.render ++ r).dropWhile (fun c => c == 58 || c == 32 || c == 9) = loc.render ++ r := by
    apply dropWhile_head _ _ 0
    by_cases hne : loc.render = []
    · rw [hne, List.nil_append]
      obtain ⟨a, b, c⟩ := hstart hne
      cases r with
      | nil => left; rfl
      | cons x xs =>
        right
        simp only [List.headD_cons] at a b c
        simp [a, b, c]
    · obtain ⟨a, b, c⟩ := loc_head loc hok hlex r hne
      right
      generalize (loc.render ++ r).headD 0 = x at a b c
      simp [a, b, c]
  simp only [hd]
  have hgo : ∃ f', exLoc.go ((loc.render ++ r).length + 1) (loc.render ++ r) [] = exLoc.go f' r ([] ++ loc.render) := by
    cases loc with
    | whole =>
      exact ⟨_, go_simple_step [37] r [] _ (by simp [simpleLoc]) (by simp [Loc.render])⟩
    | current => exact ⟨r.length + 1, by simp [Loc.render]⟩
    | list l =>
      obtain ⟨f', _, h⟩ := go_list l r [] (listOk_all l hok.1) hlex ((renderList l ++ r).length + 1)
        (by simp only [List.length_append]; omega)
      exact ⟨f', h⟩
  obtain ⟨f', hf'⟩ := hgo
  rw [hf', go_end f' r _ hr]
  simp

/-! ### `ex_arg` on an argument with backslash pairs -/

/-- a piece of an argument that `copyUntil stop` copies: a plain byte that neither stops the copy nor is a backslash,
    or a backslash with the byte it quotes (any byte: `\|`, `\"`, `\\` are copied as they are) -/
def TokCopied (stop : Nat → Bool) : PTok → Prop
  | .ch c => stop c = false ∧ c ≠ 92
  | .esc _ => True

instance (stop : Nat → Bool) (t : PTok) : Decidable (TokCopied stop t) := by
  cases t <;> (unfold TokCopied; exact inferInstance)

theorem copyUntil_toks (stop : Nat → Bool) (h92 : stop 92 = false) : ∀ (toks : List PTok) (acc t : Bytes) (f : Nat),
    (∀ tk ∈ toks, TokCopied stop tk) → (t = [] ∨ stop (t.headD 0) = true) → toks.length < f →
    copyUntil stop f (rawPat toks ++ t) acc = (acc ++ rawPat toks, t) := by
  intro toks
  induction toks with
  | nil =>
    intro acc t f _ ht hf
    obtain ⟨f, rfl⟩ : ∃ g, f = g + 1 := ⟨f - 1, by simp at hf; omega⟩
    cases t with
    | nil => simp only [rawPat, List.flatMap_nil, List.nil_append]; rw [copyUntil]; simp
    | cons c r =>
      rcases ht with ht | ht
      · cases ht
      · simp only [List.headD_cons] at ht
        simp only [rawPat, List.flatMap_nil, List.nil_append]
        rw [copyUntil, if_pos ht]
        simp
  | cons tk toks ih =>
    intro acc t f ha ht hf
    obtain ⟨f, rfl⟩ : ∃ g, f = g + 1 := ⟨f - 1, by simp at hf; omega⟩
    have ha' : ∀ tk ∈ toks, TokCopied stop tk := fun x hx => ha x (List.mem_cons_of_mem _ hx)
    have hf' : toks.length < f := by simp at hf; omega
    rw [rawPat_cons]
    cases tk with
    | ch c =>
      obtain ⟨a, b⟩ : stop c = false ∧ c ≠ 92 := ha (.ch c) (List.mem_cons_self ..)
      have e : (c == 92) = false := by simp [b]
      simp only [PTok.raw, List.cons_append, List.nil_append]
      rw [copyUntil]
      simp only [a, Bool.false_eq_true, if_false, e, Bool.false_and]
      rw [ih (acc ++ [c]) t f ha' ht hf']
      simp
    | esc d =>
      simp only [PTok.raw, List.cons_append, List.nil_append]
      rw [copyUntil]
      simp only [h92, Bool.false_eq_true, if_false, beq_self_eq_true, Bool.true_and, List.isEmpty_cons,
        Bool.not_false, if_true, List.headD_cons, List.drop_succ_cons, List.drop_zero]
      rw [ih (acc ++ [92, d]) t f ha' ht hf']
      simp

/-- the stop bytes of a plain argument: newline, `|`, `"` -/
def argStop (c : Nat) : Bool := c == 10 || c == 124 || c == 34

/-- **`ex_arg` on a plain argument with backslash pairs**: the argument is copied with its backslashes up to the
    `|` that is not quoted -/
theorem exArg_toks (abbr sp : Bytes) (toks : List PTok) (t : Bytes) (hsp : ∀ c ∈ sp, c = 32 ∨ c = 9)
    (harg : ∀ tk ∈ toks, TokCopied argStop tk) (hstart : (rawPat toks).headD 0 ≠ 32 ∧ (rawPat toks).headD 0 ≠ 9)
    (ht : t = [] ∨ ∃ c2, t = 124 :: c2) (hp : plainAbbr abbr (rawPat toks) = true) :
    exArg (sp ++ rawPat toks ++ t) abbr = (rawPat toks, t.drop 1) := by
  unfold exArg
  have hlen := toks_le_raw toks
  have hth : t.headD 0 = 0 ∨ t.headD 0 = 124 := by
    rcases ht with rfl | ⟨c2, rfl⟩
    · exact Or.inl rfl
    · exact Or.inr rfl
  have hhead : (rawPat toks ++ t).headD 0 ≠ 32 ∧ (rawPat toks ++ t).headD 0 ≠ 9 := by
    rw [headD_append]
    split
    · rcases hth with h | h <;> rw [h] <;> exact ⟨by decide, by decide⟩
    · exact hstart
  have hsrc : (sp ++ rawPat toks ++ t).dropWhile (fun c => c == 32 || c == 9) = rawPat toks ++ t := by
    rw [List.append_assoc, dropWhile_all_append _ _ _ (fun x hx => by rcases hsp x hx with rfl | rfl <;> rfl)]
    apply dropWhile_head _ _ 0
    right
    generalize (rawPat toks ++ t).headD 0 = x at hhead
    simp [hhead.1, hhead.2]
  have hh : ((rawPat toks ++ t).headD 0 == 33) = ((rawPat toks).headD 0 == 33) := by
    rw [headD_append]
    split
    · rename_i h0
      rw [h0]
      rcases hth with h | h <;> rw [h] <;> rfl
    · rfl
  simp only [plainAbbr, Bool.and_eq_true, Bool.not_eq_true'] at hp
  obtain ⟨hp1, hp2⟩ := hp
  have hnil : (([] : Bytes) == [0, 0, 0, 0]) = false := by decide
  simp only [hsrc, hh, hp1, hp2, Bool.false_eq_true, if_false, hnil]
  have hcopy := copyUntil_toks argStop (by decide) toks [] t ((rawPat toks ++ t).length + 1) harg
      (by
        rcases ht with rfl | ⟨c2, rfl⟩
        · exact Or.inl rfl
        · right; rfl)
      (by simp only [List.length_append]; omega)
  unfold argStop at hcopy
  rw [hcopy]
  rcases ht with rfl | ⟨c2, rfl⟩
  · simp
  · simp

/-! ### one command of a line, general address and argument -/

/-- a command `loc ++ w ++ sfx ++ sp ++ arg` followed by `t` (nothing, or `|` and more): the address is the rendering
    of a location tree (numbers, `.`, `$`, marks, closed `/re/` `?re?` patterns, offsets, `,` `;`, `%`), the name is
    letters plus an optional `!`, `=`, `@`, then blanks, then an argument made of plain bytes (no newline, `|`, `"`,
    backslash) and backslash pairs -/
structure GenCmd (loc : Loc) (w sfx sp : Bytes) (arg : List PTok) (t : Bytes) : Prop where
  loc_ok : loc.Ok
  loc_lex : loc.Lex
  w_alpha : ∀ c ∈ w, isAlphaC c = true
  w_len : w.length ≤ 16
  w_k : w.headD 0 = 107 → w = [107]
  sfx_ok : sfx = [] ∨ sfx = [33] ∨ sfx = [61] ∨ sfx = [64]
  sp_ok : ∀ c ∈ sp, c = 32 ∨ c = 9
  arg_ok : ∀ tk ∈ arg, TokCopied argStop tk
  arg_start : (rawPat arg).headD 0 ≠ 32 ∧ (rawPat arg).headD 0 ≠ 9
  t_ok : t = [] ∨ ∃ c2, t = 124 :: c2
  /-- where the name ends: the next byte is no letter (except after `k`) and none of `!`, `=`, `@` -/
  name_end : sfx = [] → (w = [107] ∨ isAlphaC ((sp ++ rawPat arg ++ t).headD 0) = false) ∧
    (sp ++ rawPat arg ++ t).headD 0 ≠ 33 ∧ (sp ++ rawPat arg ++ t).headD 0 ≠ 61 ∧ (sp ++ rawPat arg ++ t).headD 0 ≠ 64
  /-- a bare address: the argument follows at once and does not continue the address -/
  bare : w = [] → sfx = [] → sp = [] ∧ locChars.contains ((rawPat arg ++ t).headD 0) = false ∧
    (loc.render = [] → (rawPat arg ++ t).headD 0 ≠ 58)

theorem parse1_gen {loc : Loc} {w sfx sp : Bytes} {arg : List PTok} {t : Bytes} (h : GenCmd loc w sfx sp arg t)
    (hp : plainAbbr (abbrOf (exIdx (w ++ sfx))) (rawPat arg) = true) :
    parse1 (loc.render ++ w ++ sfx ++ sp ++ rawPat arg ++ t) =
      ⟨loc.render, w ++ sfx, exIdx (w ++ sfx), rawPat arg, t.drop 1⟩ := by
  have hth : t.headD 0 = 0 ∨ t.headD 0 = 124 := by
    rcases h.t_ok with rfl | ⟨c2, rfl⟩
    · exact Or.inl rfl
    · exact Or.inr rfl
  have hat : (rawPat arg ++ t).headD 0 ≠ 32 ∧ (rawPat arg ++ t).headD 0 ≠ 9 := by
    rw [headD_append]
    split
    · rcases hth with h | h <;> rw [h] <;> exact ⟨by decide, by decide⟩
    · exact h.arg_start
  -- the byte after the address
  have hr : locChars.contains ((w ++ sfx ++ sp ++ rawPat arg ++ t).headD 0) = false ∧
      (loc.render = [] → (w ++ sfx ++ sp ++ rawPat arg ++ t).headD 0 ≠ 58 ∧
        (w ++ sfx ++ sp ++ rawPat arg ++ t).headD 0 ≠ 32 ∧ (w ++ sfx ++ sp ++ rawPat arg ++ t).headD 0 ≠ 9) := by
    cases hw : w with
    | nil =>
      rcases h.sfx_ok with hs | hs | hs | hs
      · obtain ⟨b1, b2, b3⟩ := h.bare hw hs
        subst hs; subst b1
        simp only [List.nil_append]
        refine ⟨b2, fun hl => ⟨b3 hl, hat.1, hat.2⟩⟩
      all_goals
        subst hs
        simp only [List.nil_append, List.cons_append, List.headD_cons]
        exact ⟨by rw [locChars_eq]; decide, fun _ => by decide⟩
    | cons c w' =>
      have hc : isAlphaC c = true := h.w_alpha c (by rw [hw]; simp)
      have := alpha_ge c hc
      simp only [List.cons_append, List.headD_cons]
      exact ⟨alpha_not_loc c hc, fun _ => ⟨by omega, by omega, by omega⟩⟩
  have e1 : exLoc (loc.render ++ w ++ sfx ++ sp ++ rawPat arg ++ t) = (loc.render, w ++ sfx ++ sp ++ rawPat arg ++ t) := by
    have := exLoc_render loc (w ++ sfx ++ sp ++ rawPat arg ++ t) h.loc_ok h.loc_lex hr.1 hr.2
    simpa only [List.append_assoc] using this
  have e2 : exCmd (w ++ sfx ++ sp ++ rawPat arg ++ t) = (w ++ sfx, sp ++ rawPat arg ++ t) := by
    have := exCmd_simple w sfx (sp ++ rawPat arg ++ t) h.w_alpha h.w_len h.w_k h.sfx_ok h.name_end
      (fun hw hs => by
        obtain ⟨b1, _, _⟩ := h.bare hw hs
        subst b1
        simpa only [List.nil_append] using hat)
    simpa only [List.append_assoc] using this
  have e3 := exArg_toks (abbrOf (exIdx (w ++ sfx))) sp arg t h.sp_ok h.arg_ok h.arg_start h.t_ok hp
  unfold parse1
  simp only [e1, e2, e3]

/-! ### `ex_arg` for `:s`: the `|` inside the pattern or the replacement does not end the command -/

/-- a piece of a pattern or replacement between the delimiters of `:s`: a plain byte other than the delimiter,
    backslash and newline (`|` is fine), or a backslash pair -/
def TokSub (delim : Nat) : PTok → Prop
  | .ch c => c ≠ delim ∧ c ≠ 92 ∧ c ≠ 10
  | .esc _ => True

instance (delim : Nat) (t : PTok) : Decidable (TokSub delim t) := by cases t <;> (unfold TokSub; exact inferInstance)

theorem sub_toks (delim : Nat) (hd : delim ≠ 92) (cnt : Nat) (hcnt : cnt ≠ 0) : ∀ (toks : List PTok) (tail acc : Bytes) (f : Nat),
    (∀ t ∈ toks, TokSub delim t) → toks.length ≤ f →
    exArg.sub delim f (rawPat toks ++ tail) acc cnt = exArg.sub delim (f - toks.length) tail (acc ++ rawPat toks) cnt := by
  intro toks
  induction toks with
  | nil => intro tail acc f _ _; simp [rawPat]
  | cons t r ih =>
    intro tail acc f hok hf
    obtain ⟨f, rfl⟩ : ∃ k, f = k + 1 := ⟨f - 1, by simp at hf; omega⟩
    have hr : ∀ t ∈ r, TokSub delim t := fun x hx => hok x (List.mem_cons_of_mem _ hx)
    have hf' : r.length ≤ f := by simp at hf; omega
    have hc0 : (cnt == 0) = false := by simpa using hcnt
    rw [rawPat_cons]
    cases t with
    | ch c =>
      obtain ⟨h1, h2, h3⟩ : c ≠ delim ∧ c ≠ 92 ∧ c ≠ 10 := hok (.ch c) (List.mem_cons_self ..)
      have e1 : (c == delim) = false := by simpa using h1
      have e2 : (c == 92) = false := by simpa using h2
      have e3 : (c == 10) = false := by simpa using h3
      simp only [PTok.raw, List.cons_append, List.nil_append]
      rw [exArg.sub]
      simp only [e1, e2, e3, hc0, Bool.or_self, Bool.false_eq_true, if_false, Bool.false_and]
      rw [ih tail _ f hr hf']
      simp [List.append_assoc]
    | esc d =>
      have e1 : ((92 : Nat) == delim) = false := by simpa using fun h => hd h.symm
      simp only [PTok.raw, List.cons_append, List.nil_append]
      rw [exArg.sub]
      simp only [e1, hc0, show ((92 : Nat) == 10) = false by decide, Bool.or_self, Bool.false_eq_true, if_false,
        beq_self_eq_true, Bool.true_and, List.isEmpty_cons, Bool.not_false, if_true, List.headD_cons,
        List.drop_succ_cons, List.drop_zero]
      rw [ih tail _ f hr hf']
      simp [List.append_assoc]

theorem sub_delim (delim : Nat) (h92 : delim ≠ 92) (h10 : delim ≠ 10) (f cnt : Nat) (tail acc : Bytes) :
    exArg.sub delim (f + 1) (delim :: tail) acc (cnt + 1) = exArg.sub delim f tail (acc ++ [delim]) cnt := by
  have e1 : (delim == 92) = false := by simpa using h92
  have e2 : (delim == 10) = false := by simpa using h10
  rw [exArg.sub]
  simp [e1, e2]

theorem sub_end (delim : Nat) (f : Nat) (tail acc : Bytes) : exArg.sub delim f tail acc 0 = (acc, tail) := by
  cases f with
  | zero => rw [exArg.sub]
  | succ f =>
    cases tail with
    | nil => rw [exArg.sub]
    | cons c r => rw [exArg.sub]; simp

/-- the commands whose argument is a delimited pattern: `s` (and, by the test of `ex_arg`, every abbreviation that
    starts with `s` but not `se`, `&`, `~`) -/
def substAbbr (abbr : Bytes) : Bool :=
  let c0 := abbr.headD 0
  let c1 := if c0 != 0 then abbr.getD 1 0 else 0
  !(c0 == 33 || c0 == 103 || c0 == 118 || c0 == 114 || c0 == 119) && (c0 == 115 && c1 != 101 || c0 == 38 || c0 == 126)

/-- **`ex_arg` for `:s/pat/rep/flags`**: the argument runs through the third delimiter and the flags; a `|` inside
    the pattern or the replacement is part of it, the `|` after the flags ends the command -/
theorem exArg_subst (abbr sp : Bytes) (delim : Nat) (pat rep : List PTok) (flags t : Bytes)
    (hab : substAbbr abbr = true) (hsp : ∀ c ∈ sp, c = 32 ∨ c = 9)
    (hdl : delim ≠ 0 ∧ delim ≠ 10 ∧ delim ≠ 124 ∧ delim ≠ 92 ∧ delim ≠ 34 ∧ delim ≠ 32 ∧ delim ≠ 9)
    (hpat : ∀ tk ∈ pat, TokSub delim tk) (hrep : ∀ tk ∈ rep, TokSub delim tk)
    (hfl : ∀ c ∈ flags, c ≠ 10 ∧ c ≠ 124 ∧ c ≠ 34 ∧ c ≠ 92)
    (ht : t = [] ∨ ∃ c2, t = 124 :: c2) :
    exArg (sp ++ (delim :: (rawPat pat ++ delim :: (rawPat rep ++ delim :: (flags ++ t))))) abbr =
      (delim :: (rawPat pat ++ delim :: (rawPat rep ++ delim :: flags)), t.drop 1) := by
  obtain ⟨d0, d10, d124, d92, d34, d32, d9⟩ := hdl
  unfold exArg
  have hsrc : (sp ++ (delim :: (rawPat pat ++ delim :: (rawPat rep ++ delim :: (flags ++ t))))).dropWhile
      (fun c => c == 32 || c == 9) = delim :: (rawPat pat ++ delim :: (rawPat rep ++ delim :: (flags ++ t))) := by
    rw [dropWhile_all_append _ _ _ (fun x hx => by rcases hsp x hx with rfl | rfl <;> rfl)]
    apply dropWhile_head _ _ 0
    right
    simp [d32, d9]
  simp only [substAbbr, Bool.and_eq_true, Bool.not_eq_true', Bool.or_eq_false_iff] at hab
  obtain ⟨⟨⟨⟨⟨a1, a2⟩, a3⟩, a4⟩, a5⟩, a6⟩ := hab
  simp only [hsrc, a1, a2, a3, a4, a5, a6, Bool.or_false, Bool.false_and, Bool.false_eq_true, if_false,
    if_true, List.headD_cons]
  have g1 : (delim != 0 && delim != 10 && delim != 124 && delim != 92 && delim != 34 &&
      !(delim :: (rawPat pat ++ delim :: (rawPat rep ++ delim :: (flags ++ t)))).isEmpty) = true := by
    simp [d0, d10, d124, d92, d34]
  rw [if_pos g1]
  simp only [List.drop_succ_cons, List.drop_zero]
  have hl1 := toks_le_raw pat
  have hl2 := toks_le_raw rep
  -- the scan of `sub`: pattern, delimiter, replacement, delimiter, then the count is exhausted
  have hsub : exArg.sub delim ((delim :: (rawPat pat ++ delim :: (rawPat rep ++ delim :: (flags ++ t)))).length + 1)
      (rawPat pat ++ delim :: (rawPat rep ++ delim :: (flags ++ t))) [delim] 2 =
      ([delim] ++ rawPat pat ++ [delim] ++ rawPat rep ++ [delim], flags ++ t) := by
    rw [sub_toks delim d92 2 (by decide) pat _ _ _ hpat (by simp; omega)]
    obtain ⟨k1, hk1⟩ : ∃ k1, (delim :: (rawPat pat ++ delim :: (rawPat rep ++ delim :: (flags ++ t)))).length + 1 - pat.length
        = k1 + 1 ∧ rep.length + 1 ≤ k1 := by
      refine ⟨(delim :: (rawPat pat ++ delim :: (rawPat rep ++ delim :: (flags ++ t)))).length - pat.length, ?_, ?_⟩
      · simp; omega
      · simp; omega
    rw [hk1.1, sub_delim delim d92 d10, sub_toks delim d92 1 (by decide) rep _ _ _ hrep (by omega)]
    obtain ⟨k2, hk2⟩ : ∃ k2, k1 - rep.length = k2 + 1 := ⟨k1 - rep.length - 1, by omega⟩
    rw [hk2, sub_delim delim d92 d10, sub_end]
  rw [hsub]
  have hne : (([delim] ++ rawPat pat ++ [delim] ++ rawPat rep ++ [delim]) == [0, 0, 0, 0]) = false := by
    simp [d0]
  simp only [hne, Bool.false_eq_true, if_false]
  rw [copyUntil_plain _ flags [] t _ (fun c hc => by
        obtain ⟨a, b, c', d⟩ := hfl c hc
        simp [a, b, c', d])
      (by
        rcases ht with rfl | ⟨c2, rfl⟩
        · exact Or.inl rfl
        · right; rfl)
      (by simp only [List.length_append]; omega)]
  rcases ht with rfl | ⟨c2, rfl⟩
  · simp
  · simp

/-! ### `ex_arg` for `:g`, `:v`, `:!`: the rest of the line, `|` included -/

/-- the commands whose argument is the rest of the line: `!`, `g`, `v` (by their first byte) -/
def restAbbr (abbr : Bytes) : Bool := abbr.headD 0 == 33 || abbr.headD 0 == 103 || abbr.headD 0 == 118

theorem exArg_rest (abbr sp : Bytes) (toks : List PTok) (t : Bytes) (hab : restAbbr abbr = true)
    (hsp : ∀ c ∈ sp, c = 32 ∨ c = 9) (harg : ∀ tk ∈ toks, TokCopied (fun c => c == 10) tk)
    (hstart : (rawPat toks).headD 0 ≠ 32 ∧ (rawPat toks).headD 0 ≠ 9) (hz : rawPat toks ≠ [0, 0, 0, 0])
    (ht : t = [] ∨ ∃ c2, t = 10 :: c2) :
    exArg (sp ++ rawPat toks ++ t) abbr = (rawPat toks, t.drop 1) := by
  unfold exArg
  have hlen := toks_le_raw toks
  have hth : t.headD 0 = 0 ∨ t.headD 0 = 10 := by
    rcases ht with rfl | ⟨c2, rfl⟩
    · exact Or.inl rfl
    · exact Or.inr rfl
  have hhead : (rawPat toks ++ t).headD 0 ≠ 32 ∧ (rawPat toks ++ t).headD 0 ≠ 9 := by
    rw [headD_append]
    split
    · rcases hth with h | h <;> rw [h] <;> exact ⟨by decide, by decide⟩
    · exact hstart
  have hsrc : (sp ++ rawPat toks ++ t).dropWhile (fun c => c == 32 || c == 9) = rawPat toks ++ t := by
    rw [List.append_assoc, dropWhile_all_append _ _ _ (fun x hx => by rcases hsp x hx with rfl | rfl <;> rfl)]
    apply dropWhile_head _ _ 0
    right
    generalize (rawPat toks ++ t).headD 0 = x at hhead
    simp [hhead.1, hhead.2]
  have hab' : (abbr.headD 0 == 33 || abbr.headD 0 == 103 || abbr.headD 0 == 118) = true := hab
  simp only [hsrc, hab', Bool.true_or, if_true]
  rw [copyUntil_toks (fun c => c == 10) (by decide) toks [] t _ harg
      (by
        rcases ht with rfl | ⟨c2, rfl⟩
        · exact Or.inl rfl
        · right; rfl)
      (by simp only [List.length_append]; omega)]
  have hne : (([] ++ rawPat toks) == [0, 0, 0, 0]) = false := by simpa using hz
  simp only [hne, Bool.false_eq_true, if_false]
  rcases ht with rfl | ⟨c2, rfl⟩
  · rw [copyUntil]; simp
  · rw [copyUntil]; simp

/-! ### the whole split for `:s` -/

/-- `[addr]s/pat/rep/flags` followed by `t` (nothing, or `|…`) -/
structure SubstCmd (loc : Loc) (w sp : Bytes) (delim : Nat) (pat rep : List PTok) (flags t : Bytes) : Prop where
  loc_ok : loc.Ok
  loc_lex : loc.Lex
  w_ne : w ≠ []
  w_alpha : ∀ c ∈ w, isAlphaC c = true
  w_len : w.length ≤ 16
  w_k : w.headD 0 ≠ 107
  abbr : substAbbr (abbrOf (exIdx w)) = true
  sp_ok : ∀ c ∈ sp, c = 32 ∨ c = 9
  delim_ok : delim ≠ 0 ∧ delim ≠ 10 ∧ delim ≠ 124 ∧ delim ≠ 92 ∧ delim ≠ 34 ∧ delim ≠ 32 ∧ delim ≠ 9
  delim_name : isAlphaC delim = false ∧ delim ≠ 33 ∧ delim ≠ 61 ∧ delim ≠ 64
  pat_ok : ∀ tk ∈ pat, TokSub delim tk
  rep_ok : ∀ tk ∈ rep, TokSub delim tk
  flags_ok : ∀ c ∈ flags, c ≠ 10 ∧ c ≠ 124 ∧ c ≠ 34 ∧ c ≠ 92
  t_ok : t = [] ∨ ∃ c2, t = 124 :: c2

/-- the argument `ex_arg` hands to `ec_substitute` -/
def substArg (delim : Nat) (pat rep : List PTok) (flags : Bytes) : Bytes :=
  delim :: (rawPat pat ++ delim :: (rawPat rep ++ delim :: flags))

theorem parse1_subst {loc : Loc} {w sp : Bytes} {delim : Nat} {pat rep : List PTok} {flags t : Bytes}
    (h : SubstCmd loc w sp delim pat rep flags t) :
    parse1 (loc.render ++ (w ++ (sp ++ (substArg delim pat rep flags ++ t)))) =
      ⟨loc.render, w, exIdx w, substArg delim pat rep flags, t.drop 1⟩ := by
  obtain ⟨c, w', hw⟩ : ∃ c w', w = c :: w' := by
    cases hw : w with
    | nil => exact absurd hw h.w_ne
    | cons c w' => exact ⟨c, w', rfl⟩
  have hc : isAlphaC c = true := h.w_alpha c (by rw [hw]; simp)
  have hge := alpha_ge c hc
  have hrest : substArg delim pat rep flags ++ t =
      delim :: (rawPat pat ++ delim :: (rawPat rep ++ delim :: (flags ++ t))) := by
    simp [substArg, List.append_assoc]
  have e1 : exLoc (loc.render ++ (w ++ (sp ++ (substArg delim pat rep flags ++ t)))) =
      (loc.render, w ++ (sp ++ (substArg delim pat rep flags ++ t))) := by
    apply exLoc_render loc _ h.loc_ok h.loc_lex
    · rw [hw]; exact alpha_not_loc c hc
    · intro _; rw [hw]; simp only [List.cons_append, List.headD_cons]; omega
  have hsphead : ∀ x, x = (sp ++ (substArg delim pat rep flags ++ t)).headD 0 →
      isAlphaC x = false ∧ x ≠ 33 ∧ x ≠ 61 ∧ x ≠ 64 := by
    intro x hx
    cases hsp : sp with
    | nil =>
      rw [hsp, hrest] at hx
      simp only [List.nil_append, List.headD_cons] at hx
      subst hx
      exact h.delim_name
    | cons y ys =>
      rw [hsp] at hx
      simp only [List.cons_append, List.headD_cons] at hx
      subst hx
      rcases h.sp_ok x (by rw [hsp]; simp) with rfl | rfl <;> exact ⟨by decide, by decide, by decide, by decide⟩
  have e2 : exCmd (w ++ (sp ++ (substArg delim pat rep flags ++ t))) = (w, sp ++ (substArg delim pat rep flags ++ t)) := by
    have := exCmd_simple w [] (sp ++ (substArg delim pat rep flags ++ t)) h.w_alpha h.w_len
      (fun h107 => absurd h107 h.w_k) (Or.inl rfl)
      (fun _ => by
        obtain ⟨a, b, c', d⟩ := hsphead _ rfl
        exact ⟨Or.inr a, b, c', d⟩)
      (fun hw0 => absurd hw0 h.w_ne)
    simpa only [List.append_nil] using this
  have e3 : exArg (sp ++ (substArg delim pat rep flags ++ t)) (abbrOf (exIdx w)) =
      (substArg delim pat rep flags, t.drop 1) := by
    rw [hrest]
    exact exArg_subst _ sp delim pat rep flags t h.abbr h.sp_ok h.delim_ok h.pat_ok h.rep_ok h.flags_ok h.t_ok
  unfold parse1
  simp only [e1, e2, e3]

end Neatvi.Lemmas.C06d
