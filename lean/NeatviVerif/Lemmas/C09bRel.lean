import NeatviVerif.Lemmas.C09RespectsCmd
/-!
# C09b: a simulation relation for whole runs

`KeyEq s t` (C09) says that `s` and `t` differ only in how the pending key stream is split between pushed
keys (`ibuf`) and keys of the terminal (`typed`).  It is not preserved by `term_push` (`push_not_respects`):
a push goes behind the unread pushed keys.  To follow two runs through `.` and `@` one needs to know
more: that whenever the run `s` has no unread pushed key, neither has `t`, and that `t` has at least as
much room in `ibuf` as `s`.  `K s t` is `KeyEq s t` plus that bookkeeping, plus the unary invariants of
term.c / vi.c (`ibuf_pos ≤ ibuf_cnt`, `rep_len + 1 < 4096`, `icmd_pos ≤ 4096`).

`Resp m`: the computation `m` maps `K`-related states to `K`-related results.  The closure rules are those
of `Respects` (C09); the traversal of the commands is in `C09bResp*.lean`.
-/
namespace Neatvi.Lemmas.C09b
open Neatvi Neatvi.Vi Neatvi.Ex Neatvi.Lemmas.C09

/-- the number of pushed keys that have not been read yet -/
def unread (s : VS) : Nat := s.ibuf.length - s.ibufPos

/-- the unary invariants of the key queue and of the recording buffers -/
structure Inv (s : VS) : Prop where
  wf : QWf s
  rep : s.repCmd.length + 1 < 4096
  icm : s.icmd.length ≤ 4096

/-- the simulation relation -/
structure K (s t : VS) : Prop where
  keq : KeyEq s t
  wfs : QWf s
  wft : QWf t
  unr : unread t ≤ unread s
  len : t.ibuf.length ≤ max 1 s.ibuf.length
  emp : s.ibuf = [] → t.ibuf = []
  rep : s.repCmd.length + 1 < 4096
  icm : s.icmd.length ≤ 4096

theorem K.inv_left {s t : VS} (h : K s t) : Inv s := ⟨h.wfs, h.rep, h.icm⟩

theorem keyEq_repCmd {s t : VS} (h : KeyEq s t) : s.repCmd = t.repCmd := by
  have h' : C09.norm s = C09.norm t := h
  have := congrArg VS.repCmd h'
  exact this

theorem keyEq_ed {s t : VS} (h : KeyEq s t) : s.ed = t.ed := by
  have h' : C09.norm s = C09.norm t := h
  have := congrArg VS.ed h'
  exact this

theorem keyEq_arg1 {s t : VS} (h : KeyEq s t) : s.arg1 = t.arg1 := by
  have h' : C09.norm s = C09.norm t := h
  have := congrArg VS.arg1 h'
  exact this

theorem K.inv_right {s t : VS} (h : K s t) : Inv t :=
  ⟨h.wft, by rw [← keyEq_repCmd h.keq]; exact h.rep, by rw [← h.keq.icmd]; exact h.icm⟩

theorem K.refl {s : VS} (h : Inv s) : K s s :=
  ⟨KeyEq.refl s, h.wf, h.wf, Nat.le_refl _, by omega, fun e => e, h.rep, h.icm⟩

/-- a state is related to its normal form (everything pending moved to the terminal side) -/
theorem K.norm {s : VS} (h : Inv s) : K s (norm s) :=
  ⟨keyEq_norm s, h.wf, Nat.le_refl 0, by simp [unread, C09.norm], by simp [C09.norm],
    fun _ => rfl, h.rep, h.icm⟩

/-- related results -/
inductive RelK {α : Type} : Res α → Res α → Prop where
  | ok (a : α) (s t : VS) (h : K s t) : RelK (Res.ok a s) (Res.ok a t)
  | eof : RelK Res.eof Res.eof
  | trap : RelK Res.trap Res.trap

/-- `m` maps `K`-related states to `K`-related results -/
def Resp {α : Type} (m : M α) : Prop := ∀ s t, K s t → RelK (m s) (m t)

/-- a state update that neither inspects nor alters the key queue, `icmd`, `rep_cmd` -/
def Frame (f : VS → VS) : Prop :=
  ∀ s, C09.norm (f s) = f (C09.norm s) ∧ (f s).ibuf = s.ibuf ∧ (f s).ibufPos = s.ibufPos ∧
    (f s).repCmd = s.repCmd ∧ (f s).icmd = s.icmd

theorem K.upd {f : VS → VS} (hf : Frame f) {s t : VS} (h : K s t) : K (f s) (f t) := by
  obtain ⟨a1, a2, a3, a4, a5⟩ := hf s
  obtain ⟨b1, b2, b3, b4, b5⟩ := hf t
  refine ⟨?_, ?_, ?_, ?_, ?_, ?_, ?_, ?_⟩
  · have := h.keq
    unfold KeyEq at this ⊢
    rw [a1, b1, this]
  · have := h.wfs; unfold QWf at this ⊢; rw [a2, a3]; exact this
  · have := h.wft; unfold QWf at this ⊢; rw [b2, b3]; exact this
  · have := h.unr; unfold unread at this ⊢; rw [a2, a3, b2, b3]; exact this
  · rw [a2, b2]; exact h.len
  · rw [a2, b2]; exact h.emp
  · rw [a4]; exact h.rep
  · rw [a5]; exact h.icm

/-! ### the primitives -/

theorem resp_termRead : Resp termRead := by
  intro s t h
  have hp := h.keq.pending
  cases hs : pending s with
  | nil =>
    rw [termRead_eof s hs, termRead_eof t (hp ▸ hs)]
    exact RelK.eof
  | cons k rest =>
    have ht : pending t = k :: rest := hp ▸ hs
    have hrel := termRead_keyEq s t h.keq
    obtain ⟨ib, ip, ty, e1, e2, e3, e4, e5⟩ := termRead_ok s k rest hs
    obtain ⟨ib', ip', ty', f1, f2, f3, f4, f5⟩ := termRead_ok t k rest ht
    rw [e1, f1] at hrel ⊢
    cases hrel with | ok _ _ _ hk => ?_
    refine RelK.ok _ _ _ ⟨hk, e3, f3, ?_, ?_, ?_, h.rep, ?_⟩
    · -- unread
      have hu := h.unr
      have hws := h.wfs
      have hwt := h.wft
      unfold unread QWf at *
      show ib'.length - ip' ≤ ib.length - ip
      by_cases hn : s.ibuf.length ≤ s.ibufPos
      · obtain ⟨a, b, c⟩ := e5 hn
        have hn' : t.ibuf.length ≤ t.ibufPos := by omega
        obtain ⟨a', b', c'⟩ := f5 hn'
        subst a b a' b'
        simp
      · obtain ⟨a, b, c⟩ := e4 (by omega)
        by_cases hn' : t.ibuf.length ≤ t.ibufPos
        · obtain ⟨a', b', c'⟩ := f5 hn'
          subst a' b'
          simp
        · obtain ⟨a', b', c'⟩ := f4 (by omega)
          subst a b a' b'
          omega
    · show ib'.length ≤ max 1 ib.length
      have hl := h.len
      by_cases hn' : t.ibuf.length ≤ t.ibufPos
      · obtain ⟨a', b', c'⟩ := f5 hn'
        subst a'
        simp; omega
      · obtain ⟨a', b', c'⟩ := f4 (by omega)
        subst a'
        by_cases hn : s.ibuf.length ≤ s.ibufPos
        · -- `s` drained, `t` not: impossible
          have hu := h.unr
          have hwt := h.wft
          unfold unread QWf at *
          omega
        · obtain ⟨a, b, c⟩ := e4 (by omega)
          subst a
          exact hl
    · show ib = [] → ib' = []
      intro hib
      exfalso
      by_cases hn : s.ibuf.length ≤ s.ibufPos
      · obtain ⟨a, b, c⟩ := e5 hn
        rw [a] at hib; cases hib
      · obtain ⟨a, b, c⟩ := e4 (by omega)
        rw [a] at hib; rw [hib] at hn; simp at hn
    · show (icmdAfter s.icmd k).length ≤ 4096
      have := h.icm
      unfold icmdAfter
      split
      · simp only [List.length_append, List.length_singleton]; omega
      · exact this

theorem resp_modify {f : VS → VS} (hf : Frame f) : Resp (Vi.modify f) :=
  fun _ _ h => RelK.ok _ _ _ (h.upd hf)

theorem resp_viRead : Resp viRead := by
  intro s t h
  have hv := h.keq.vibuf
  unfold viRead
  cases hs : s.vibuf with
  | nil =>
    rw [← hv, hs]
    exact resp_termRead s t h
  | cons c r =>
    rw [← hv, hs]
    have hf : Frame (fun s => { s with vibuf := r }) := fun _ => ⟨rfl, rfl, rfl, rfl, rfl⟩
    exact RelK.ok _ _ _ (h.upd hf)

theorem resp_viBack (c : Int) : Resp (viBack c) := resp_modify (fun _ => ⟨rfl, rfl, rfl, rfl, rfl⟩)

theorem resp_termCmd : Resp termCmd := by
  intro s t h
  rw [termCmd_eq, termCmd_eq, h.keq.icmd]
  have hk : KeyEq { s with icmd := [] } { t with icmd := [] } := by
    have := termCmd_keyEq s t h.keq
    rw [termCmd_eq, termCmd_eq, h.keq.icmd] at this
    cases this with | ok _ _ _ hk => exact hk
  exact RelK.ok _ _ _ ⟨hk, h.wfs, h.wft, h.unr, h.len, h.emp, h.rep, Nat.zero_le _⟩

/-! ### closure -/

theorem resp_pure {α : Type} (a : α) : Resp (pure a : M α) := fun s t h => RelK.ok a s t h

theorem resp_bind {α β : Type} {m : M α} {f : α → M β} (hm : Resp m) (hf : ∀ a, Resp (f a)) :
    Resp (m >>= f) := by
  intro s t h
  rw [bind_apply, bind_apply]
  have hr := hm s t h
  revert hr
  generalize m s = r1
  generalize m t = r2
  intro hr
  cases hr with
  | ok a s' t' h' => exact hf a s' t' h'
  | eof => exact RelK.eof
  | trap => exact RelK.trap

theorem resp_trap {α : Type} : Resp (Vi.trap : M α) := fun _ _ _ => RelK.trap

theorem resp_get_bind {β : Type} {f : VS → M β} (hinv : ∀ s, f s = f (C09.norm s))
    (hf : ∀ s, Resp (f s)) : Resp (Vi.get >>= f) := by
  intro s t h
  show RelK (f s s) (f t t)
  rw [hinv s, hinv t, show C09.norm t = C09.norm s from h.keq.symm]
  exact hf _ s t h

theorem resp_get_obs {β γ : Type} {g : VS → γ} {f : γ → M β} (hg : ∀ s, g s = g (C09.norm s))
    (hf : ∀ x, Resp (f x)) : Resp (Vi.get >>= fun s => f (g s)) :=
  resp_get_bind (fun s => by rw [hg s]) (fun s => hf (g s))

theorem resp_ite {α : Type} {c : Prop} [Decidable c] {a b : M α} (ha : Resp a) (hb : Resp b) :
    Resp (if c then a else b) := by
  split
  · exact ha
  · exact hb

theorem resp_ite' {α : Type} {c : Prop} [Decidable c] {a b : M α} (ha : c → Resp a)
    (hb : ¬ c → Resp b) : Resp (if c then a else b) := by
  split
  · exact ha ‹_›
  · exact hb ‹_›

/-- `bind` for a single pair of states -/
theorem relK_bind {α β : Type} {m : M α} {f : α → M β} {s t : VS} (hm : RelK (m s) (m t))
    (hf : ∀ a s' t', m s = Res.ok a s' → m t = Res.ok a t' → K s' t' → RelK (f a s') (f a t')) :
    RelK ((m >>= f) s) ((m >>= f) t) := by
  rw [bind_apply, bind_apply]
  revert hf hm
  generalize m s = r1
  generalize m t = r2
  intro hm hf
  cases hm with
  | ok a s' t' h' => exact hf a s' t' rfl rfl h'
  | eof => exact RelK.eof
  | trap => exact RelK.trap

/-! ### the key readers of vi.c -/

theorem resp_viYankbuf : Resp viYankbuf := by
  unfold viYankbuf
  refine resp_bind resp_viRead fun c => resp_ite ?_ ?_
  · refine resp_bind resp_viRead fun c => resp_ite ?_ (resp_pure _)
    exact resp_bind resp_viRead fun d => resp_pure _
  · exact resp_bind (resp_viBack c) fun _ => resp_pure _

theorem resp_viPrefix_digits (f : Nat) (n c : Int) : Resp (viPrefix.digits f n c) := by
  induction f generalizing n c with
  | zero =>
    unfold viPrefix.digits
    exact resp_bind (resp_viBack c) fun _ => resp_pure _
  | succ f ih =>
    unfold viPrefix.digits
    refine resp_ite ?_ ?_
    · exact resp_bind resp_viRead fun c' => ih _ _
    · exact resp_bind (resp_viBack c) fun _ => resp_pure _

theorem resp_viPrefix : Resp viPrefix := by
  unfold viPrefix
  refine resp_bind resp_viRead fun c => resp_ite ?_ ?_
  · exact resp_viPrefix_digits _ _ _
  · exact resp_bind (resp_viBack c) fun _ => resp_pure _

theorem resp_readCharS_more (k : Nat) (acc : Bytes) : Resp (readCharS.more k acc) := by
  induction k generalizing acc with
  | zero => unfold readCharS.more; exact resp_pure _
  | succ k ih =>
    unfold readCharS.more
    exact resp_bind resp_termRead fun d => ih _

theorem resp_readKey_more (k : Nat) : Resp (readKey.more k) := by
  induction k with
  | zero => unfold readKey.more; exact resp_pure _
  | succ k ih =>
    unfold readKey.more
    exact resp_bind resp_termRead fun _ => ih

/-- `led_readkey()` keeps `K` -/
theorem resp_readKey : Resp readKey := by
  unfold readKey
  refine resp_bind resp_termRead fun c => resp_ite ?_ (resp_pure _)
  exact resp_bind (resp_readKey_more _) fun _ => resp_pure _

theorem resp_readCharS (c : Int) (kmap : Nat) : Resp (readCharS c kmap) := by
  unfold readCharS
  refine resp_ite ?_ (resp_ite ?_ (resp_ite ?_ (resp_pure _)))
  · exact resp_bind resp_termRead fun d => resp_pure _
  · refine resp_bind resp_readKey fun c1 => resp_ite (resp_pure _) (resp_ite (resp_pure _) ?_)
    exact resp_bind resp_readKey fun c2 => resp_ite (resp_pure _) (resp_pure _)
  · exact resp_bind (resp_readCharS_more _ _) fun bs => resp_pure _

theorem resp_viChar_go (f : Nat) : Resp (viChar.go f) := by
  induction f with
  | zero => unfold viChar.go; exact resp_pure _
  | succ f ih =>
    unfold viChar.go
    refine resp_bind resp_termRead fun c => resp_ite (resp_pure _) (resp_ite ?_ (resp_ite ?_ ?_))
    · exact resp_bind (resp_modify fun _ => ⟨rfl, rfl, rfl, rfl, rfl⟩) fun _ => ih
    · exact resp_bind (resp_modify fun _ => ⟨rfl, rfl, rfl, rfl, rfl⟩) fun _ => ih
    · exact resp_get_obs (g := fun s => s.xkmap) (fun _ => rfl) fun x => resp_readCharS c x

theorem resp_viChar : Resp viChar := by
  unfold viChar
  exact resp_viChar_go _

end Neatvi.Lemmas.C09b
