import NeatviVerif.Lemmas.C08gK
/-!
# C08g: what the yank, delete and put commands leave alone in the editor record besides the text: the quit flag,
the pending output and the text direction (`EK`), needed to run `viPost` after them
-/
set_option linter.unusedSimpArgs false
set_option linter.unusedVariables false
namespace Neatvi.Lemmas.C08g
open Neatvi Neatvi.Uc Neatvi.Vi Neatvi.Ex Neatvi.Lbuf Neatvi.Mot Neatvi.Spec
open Neatvi.Lemmas.C08 Neatvi.Lemmas.C08b Neatvi.Lemmas.C08f
open Neatvi.Lemmas.C09 (finRec pending)
open Neatvi.Props.C08f

/-- the fields of the editor record the end of an iteration looks at -/
def edk (s : VS) : Bool × Bytes × Int := (s.ed.xquit, s.ed.out, s.ed.xtd)

/-- a computation that returns normally keeps `xquit`, `out`, `xtd` -/
structure EK {α : Type} (m : M α) : Prop where
  keep : ∀ s a s', m s = Res.ok a s' → edk s' = edk s

namespace EK

theorem pure {α : Type} (a : α) : EK (Pure.pure a : M α) := by
  constructor; intro s b s' h; cases h; rfl

theorem bind {α β : Type} {m : M α} {f : α → M β} (hm : EK m) (hf : ∀ a, EK (f a)) : EK (m >>= f) := by
  constructor
  intro s b s' h
  rw [bind_apply] at h
  split at h
  · rename_i a s1 h1
    exact ((hf a).keep s1 b s' h).trans (hm.keep s a s1 h1)
  · cases h
  · cases h

theorem get : EK Vi.get := by
  constructor; intro s a s' h; cases h; rfl

theorem liftO {α : Type} (o : Option α) : EK (Vi.liftO o) := by
  constructor
  intro s a s' h
  cases o with
  | none => cases h
  | some x => cases h; rfl

theorem ite {α : Type} {p : Prop} [Decidable p] {a b : M α} (ha : EK a) (hb : EK b) : EK (if p then a else b) := by
  split <;> assumption

theorem modify {f : VS → VS} (hf : ∀ s, edk (f s) = edk s) : EK (Vi.modify f) := by
  constructor; intro s a s' h; cases h; exact hf s

theorem withEd {f : Ed → Ed} (hf : ∀ s : VS, edk { s with ed := f s.ed } = edk s) : EK (Vi.withEd f) := modify hf

end EK

theorem ek_edEdit (t : Option Bytes) (b e : Int) : EK (edEdit t b e) := by
  constructor
  intro s a s' h
  rw [edEdit_apply] at h
  cases he : s.ed.edit t b e with
  | none => rw [he] at h; cases h
  | some ed' =>
    rw [he] at h
    cases h
    have := Lemmas.C06.edit_fields _ _ _ _ _ he
    unfold edk
    simp only []
    rw [this]

theorem ek_regPut (c : Nat) (t : Bytes) (l : Nat) : EK (regPut c t l) := EK.withEd (fun _ => rfl)
theorem ek_setPos (r o : Int) : EK (setPos r o) := EK.withEd (fun _ => rfl)
theorem ek_setRow (r : Int) : EK (setRow r) := EK.withEd (fun _ => rfl)
theorem ek_setOff (o : Int) : EK (setOff o) := EK.withEd (fun _ => rfl)
theorem ek_unmodelled : EK Vi.unmodelled := EK.modify (fun _ => rfl)

macro "ek_step" : tactic => `(tactic| first
  | assumption
  | exact EK.pure _
  | exact EK.get
  | exact EK.liftO _
  | exact ek_edEdit _ _ _
  | exact ek_regPut _ _ _
  | exact ek_setPos _ _
  | exact ek_setRow _
  | exact ek_setOff _
  | exact ek_unmodelled
  | with_reducible apply EK.bind
  | with_reducible apply EK.ite
  | simp only []
  | intro _
  | split)

macro "ek" : tactic => `(tactic| repeat' ek_step)

theorem ek_viYank (r1 o1 r2 o2 : Int) (ln : Bool) : EK (viYank r1 o1 r2 o2 ln) := by
  unfold viYank
  ek

theorem ek_viDelete (r1 o1 r2 o2 : Int) (ln : Bool) : EK (viDelete r1 o1 r2 o2 ln) := by
  unfold viDelete
  ek

theorem ek_vcPut (cmd : Nat) : EK (vcPut cmd) := by
  unfold vcPut
  ek

theorem ek_markSet (c : Nat) (r o : Int) : EK (markSet c r o) := by
  apply EK.withEd
  intro s
  cases h : s.ed.lb with
  | none => rfl
  | some lb =>
    simp only []
    unfold edk
    simp only []
    rw [Lemmas.C06.setLb_fields]

theorem ek_finRec (c k : Int) (m : Nat) : EK (finRec c k m) := by
  constructor
  intro s a s' h
  rw [Lemmas.C09.finRec_eq] at h
  cases h
  split <;> rfl

end Neatvi.Lemmas.C08g
