import NeatviVerif.Lemmas.C20cMore
import NeatviVerif.Lemmas.C20cSoloF
/-!
# C20c lemmas, part 18: the commands of the projection act on the buffer as if it were alone
-/
namespace Neatvi.Lemmas.C20c
open Neatvi Neatvi.Lbuf Neatvi.Ex Neatvi.Props.C20 Neatvi.Props.C20b Neatvi.Lemmas.C20b

/-- a list for the parked slots that holds nothing but a stub naming the alternate file (`#`) -/
def altStub (ed : Ed) : List (Option Buf) :=
  [(ed.bufs.getD 1 none).map (fun b => { path := b.path, lb := Lbuf.make })]

/-- the current buffer alone: the editor with the other buffers removed (a stub keeps the name of
    the alternate file); the view, registers, options, files, search pattern, … are the editor's -/
def solo (ed : Ed) : Ed := withTail (altStub ed) ed

theorem alt_altStub (ed : Ed) : Alt (altStub ed) ed := by
  unfold Alt altStub
  cases ed.bufs.getD 1 none <;> rfl

theorem altStub_loc {ed ed' : Ed} (h : Loc ed ed') : altStub ed' = altStub ed := by
  unfold altStub; rw [h.getD 1 (by omega)]

/-- the step is the dispatch of a local command, and the command does the same with any other
    buffers parked (naming the same alternate file) — in particular with none (`solo`) -/
def AsIfAlone (s : Ed × Ev × Ed) : Prop :=
  match s.2.1 with
  | .cmd f hd loc cmd arg txt =>
    ∃ r, runCmd f s.1 hd loc cmd arg txt = some (r, s.2.2) ∧
      (∀ L, Alt L s.1 → runCmd f (withTail L s.1) hd loc cmd arg txt = some (r, withTail L s.2.2)) ∧
      runCmd f (solo s.1) hd loc cmd arg txt = some (r, solo s.2.2)
  | _ => True

theorem stepOk_alone {ed ed' : Ed} {ev : Ev} (h : StepOk ed ev ed') : AsIfAlone (ed, ev, ed') := by
  cases ev with
  | cmd f hd loc cmd arg txt =>
    obtain ⟨hl, r, hr⟩ := h
    refine ⟨r, hr, fun L hA => ?_, ?_⟩
    · rw [runCmd_withTail_any L f ed hA hd loc cmd arg txt hl, hr]; rfl
    · unfold solo
      rw [runCmd_withTail_any _ f ed (alt_altStub ed) hd loc cmd arg txt hl, hr,
        altStub_loc (runCmd_local_any _ _ _ _ _ _ _ _ _ hl hr)]
      rfl
  | _ => trivial

/-- every command dispatched while the buffer is current acts on it as if the other buffers were
    not there -/
theorem own_alone (tr : Trace) (ed ed' : Ed) (h : Chain ed tr ed') (i : Nat) (s : Ed × Ev × Ed) (hs : s ∈ own tr i) :
    AsIfAlone s :=
  stepOk_alone (chain_mem tr ed ed' h s (own_mem tr i s hs).1)

/-- what a local line does when run on the current buffer alone -/
theorem line_alone (f : Nat) (ed ed' : Ed) (ln : Bytes) (r : Int) (hq : localLine ln = true)
    (h : exExec f ed ln = some (r, ed')) :
    Loc ed ed' ∧ (∀ L, Alt L ed → exExec f (withTail L ed) ln = some (r, withTail L ed')) ∧
    exExec f (solo ed) ln = some (r, solo ed') := by
  have hl := exExec_local f ed ed' ln r hq h
  refine ⟨hl, fun L hA => ?_, ?_⟩
  · rw [exExec_withTail L f ed ln hA hq, h]; rfl
  · unfold solo
    rw [exExec_withTail _ f ed ln (alt_altStub ed) hq, h, altStub_loc hl]
    rfl

end Neatvi.Lemmas.C20c
