import NeatviVerif.Lemmas.C08Vi
import NeatviVerif.Lemmas.C09Queue
/-!
# C08 (insert mode), the line editor `led_line`: a pure simulation of its loop on the key stream

`ledSim` is the text side of `led_line()`: what the keys do to the text typed so far (`sb`) and to
the auto-indent (`ai`).  `go_sim` shows that the model's loop `ledLine.go`, run on a state whose pending
key stream is `keys`, returns what `ledSim` computes and changes only the key queue, `icmd` and (in
insert mode) the horizontal scroll `xleft`.
-/
namespace Neatvi.Lemmas.C08b
open Neatvi Neatvi.Uc Neatvi.Vi Neatvi.Ex Neatvi.Lemmas.C08 Neatvi.Lemmas.C09

/-! ### what reading keys does to the state -/

/-- `icmd` after reading the keys `ks` -/
def icmdAfterL (ic : Bytes) (ks : Bytes) : Bytes := ks.foldl icmdAfter ic

theorem icmdAfterL_append (ic a b : Bytes) : icmdAfterL ic (a ++ b) = icmdAfterL (icmdAfterL ic a) b := by
  simp [icmdAfterL, List.foldl_append]

theorem icmdAfterL_room (ic ks : Bytes) (h : ic.length + ks.length ≤ 4096) : icmdAfterL ic ks = ic ++ ks := by
  induction ks generalizing ic with
  | nil => simp [icmdAfterL]
  | cons k ks ih =>
    simp only [List.length_cons] at h
    show icmdAfterL (icmdAfter ic k) ks = _
    have : icmdAfter ic k = ic ++ [k] := by unfold icmdAfter; rw [if_pos (by omega)]
    rw [this, ih _ (by simp; omega)]
    simp

/-- `s'` is `s` after the keys `used` were read: the queue fields moved on, `icmd` recorded the keys,
and (only when `ins`) `xleft` may have been adjusted by the redraw -/
def Reads (ins : Bool) (used : Bytes) (s s' : VS) : Prop :=
  ∃ ib ip ty xl, s' = { s with ibuf := ib, ibufPos := ip, typed := ty, icmd := icmdAfterL s.icmd used,
                               ed := { s.ed with xleft := xl } } ∧ (ins = false → xl = s.ed.xleft)

theorem Reads.refl (ins : Bool) (s : VS) : Reads ins [] s s := ⟨_, _, _, _, rfl, fun _ => rfl⟩

theorem Reads.trans {ins : Bool} {u1 u2 : Bytes} {s s1 s2 : VS} (h1 : Reads ins u1 s s1) (h2 : Reads ins u2 s1 s2) :
    Reads ins (u1 ++ u2) s s2 := by
  obtain ⟨ib, ip, ty, xl, rfl, hx⟩ := h1
  obtain ⟨ib', ip', ty', xl', rfl, hx'⟩ := h2
  refine ⟨ib', ip', ty', xl', ?_, ?_⟩
  · simp only [icmdAfterL_append]
  · intro h; rw [hx' h]; exact hx h

theorem Reads.mono {used : Bytes} {s s' : VS} (ins : Bool) (h : Reads false used s s') : Reads ins used s s' := by
  obtain ⟨ib, ip, ty, xl, rfl, hx⟩ := h
  exact ⟨ib, ip, ty, xl, rfl, fun _ => hx rfl⟩

theorem Reads.kmap {ins : Bool} {used : Bytes} {s s' : VS} (h : Reads ins used s s') (ex : Bool) :
    (if ex then s'.exKmap else s'.xkmap) = (if ex then s.exKmap else s.xkmap) := by
  obtain ⟨ib, ip, ty, xl, rfl, -⟩ := h
  rfl

/-- the state after a successful `term_read` -/
def afterRead (s : VS) : VS := match termRead s with | Res.ok _ s' => s' | _ => s

theorem termRead_afterRead (s : VS) (k : Nat) (rest : Bytes) (h : pending s = k :: rest) :
    termRead s = Res.ok (k : Int) (afterRead s) ∧ pending (afterRead s) = rest ∧ Reads false [k] s (afterRead s) := by
  obtain ⟨ib, ip, ty, h1, h2, -⟩ := termRead_ok s k rest h
  unfold afterRead
  rw [h1]
  exact ⟨rfl, h2, ⟨ib, ip, ty, s.ed.xleft, rfl, fun _ => rfl⟩⟩

/-! ### the pieces of `led_line` -/

def redrawOf (pref : Bytes) (ins : Bool) (ai sb post : Bytes) : M Unit :=
  if ins then Vi.modify fun s => { s with ed := { s.ed with xleft := ledLeft s ai pref sb post s.ed.xleft } } else pure ()

def setKmapOf (ex : Bool) (k : Option Nat) : M Unit := Vi.modify fun s =>
  let v := match k with | some v => v | none => s.xkmapAlt
  if ex then { s with exKmap := v } else { s with xkmap := v }

def getKmapOf (ex : Bool) : M Nat := fun s => Res.ok (if ex then s.exKmap else s.xkmap) s

theorem ledLine_eq (pref post ai0 : Bytes) (aiMax : Nat) (ins ex : Bool) :
    ledLine pref post ai0 aiMax ins ex =
      ledLine.go post aiMax ins pref.isEmpty (setKmapOf ex) (getKmapOf ex) (redrawOf pref ins) 100000 [] ai0 0 := rfl

/-- the state after the redraw -/
def afterRedraw (pref : Bytes) (ins : Bool) (ai sb post : Bytes) (s : VS) : VS :=
  if ins then { s with ed := { s.ed with xleft := ledLeft s ai pref sb post s.ed.xleft } } else s

theorem redrawOf_apply (pref : Bytes) (ins : Bool) (ai sb post : Bytes) (s : VS) :
    redrawOf pref ins ai sb post s = Res.ok () (afterRedraw pref ins ai sb post s) := by
  unfold redrawOf afterRedraw
  cases ins <;> rfl

theorem reads_afterRedraw (pref : Bytes) (ins : Bool) (ai sb post : Bytes) (s : VS) :
    Reads ins [] s (afterRedraw pref ins ai sb post s) ∧ pending (afterRedraw pref ins ai sb post s) = pending s := by
  unfold afterRedraw
  cases ins
  · exact ⟨Reads.refl _ _, rfl⟩
  · exact ⟨⟨_, _, _, _, rfl, fun h => by cases h⟩, rfl⟩

/-- the state after the redraw and the read that open an iteration of the loop -/
def afterStep (pref : Bytes) (ins : Bool) (ai sb post : Bytes) (s : VS) : VS :=
  afterRead (afterRedraw pref ins ai sb post s)

theorem afterStep_spec (pref : Bytes) (ins : Bool) (ai sb post : Bytes) (s : VS) (k : Nat) (rest : Bytes)
    (h : pending s = k :: rest) :
    Reads ins [k] s (afterStep pref ins ai sb post s) ∧ pending (afterStep pref ins ai sb post s) = rest := by
  obtain ⟨h1, h2⟩ := reads_afterRedraw pref ins ai sb post s
  obtain ⟨-, h4, h5⟩ := termRead_afterRead (afterRedraw pref ins ai sb post s) k rest (by rw [h2]; exact h)
  exact ⟨h1.trans (h5.mono ins), h4⟩

theorem redraw_read {β : Type} (pref : Bytes) (ins : Bool) (ai sb post : Bytes) (F : Int → M β) (s : VS)
    (k : Nat) (rest : Bytes) (h : pending s = k :: rest) :
    (redrawOf pref ins ai sb post >>= fun _ => termRead >>= F) s = F (k : Int) (afterStep pref ins ai sb post s) := by
  obtain ⟨-, h2⟩ := reads_afterRedraw pref ins ai sb post s
  obtain ⟨h3, -, -⟩ := termRead_afterRead (afterRedraw pref ins ai sb post s) k rest (by rw [h2]; exact h)
  simp only [bind_apply, redrawOf_apply, h3]
  rfl

/-! ### `led_readchar` -/

theorem beq_cast (k n : Nat) (h : k ≠ n) : (((k : Nat) : Int) == ((n : Nat) : Int)) = false := by
  simp; omega

theorem beq_cast22 (k : Nat) (h : k ≠ 22) : ((k : Int) == 22) = false := beq_cast k 22 h
theorem beq_cast11 (k : Nat) (h : k ≠ 11) : ((k : Int) == 11) = false := beq_cast k 11 h

theorem tkInt_cast (k : Nat) (h27 : k ≠ 27) (h3 : k ≠ 3) : tkInt (k : Int) = false := by
  unfold tkInt
  simp
  omega

theorem kmapMap_zero (c : Nat) (h : c % 256 ≠ 0) : kmapMap 0 c = [c % 256] := by
  unfold kmapMap
  have hc : c ≠ 0 := by intro h0; subst h0; simp at h
  have hb : ((0 : Nat) == c) = false := by simp; omega
  have : (Gen.kmaps.getD 0 []).find? (fun e => e.1 == c) = none := by
    show ([(0, [101, 110])] : List (Nat × List Nat)).find? (fun e => e.1 == c) = none
    simp only [List.find?, hb]
  rw [this]
  simp [h]

/-- an ordinary key (not `^V`, `^K`, below the UTF-8 lead bytes) under the default keymap -/
theorem readCharS_plain (k : Nat) (s : VS) (h22 : k ≠ 22) (h11 : k ≠ 11) (hlt : k < 192) (h0 : k ≠ 0) :
    readCharS (k : Int) 0 s = Res.ok (some [k]) s := by
  unfold readCharS
  have e22 := beq_cast22 k h22
  have e11 := beq_cast11 k h11
  simp only [e22, e11, Bool.false_eq_true, if_false, Int.toNat_natCast]
  rw [if_neg (by omega), kmapMap_zero k (by omega), show k % 256 = k by omega]
  rfl

/-- `^V d`: the next key, literally -/
theorem readCharS_literal (kmap : Nat) (s : VS) (d : Nat) (rest : Bytes) (h : pending s = d :: rest) :
    readCharS ((22 : Nat) : Int) kmap s = Res.ok (some (if d % 256 == 0 then [] else [d % 256])) (afterRead s) := by
  obtain ⟨h1, -, -⟩ := termRead_afterRead s d rest h
  unfold readCharS
  simp only [show ((((22 : Nat) : Int)) == 22) = true from rfl, if_true, bind_apply, h1, Int.toNat_natCast]
  rfl

/-- the continuation bytes of a multi-byte character -/
theorem more_spec : ∀ (ds acc : Bytes) (s : VS) (rest : Bytes), pending s = ds ++ rest →
    ∃ s', readCharS.more ds.length acc s = Res.ok (acc ++ ds.map (· % 256)) s' ∧ Reads false ds s s' ∧ pending s' = rest := by
  intro ds
  induction ds with
  | nil => intro acc s rest h; exact ⟨s, by simp [readCharS.more, pure_apply], Reads.refl _ _, by simpa using h⟩
  | cons d ds ih =>
    intro acc s rest h
    obtain ⟨h1, h2, h3⟩ := termRead_afterRead s d (ds ++ rest) (by simpa using h)
    obtain ⟨s', h4, h5, h6⟩ := ih (acc ++ [d % 256]) (afterRead s) rest h2
    refine ⟨s', ?_, h3.trans h5, h6⟩
    simp only [List.length_cons, readCharS.more, bind_apply, h1, Int.toNat_natCast, h4]
    simp

theorem readCharS_multi (k : Nat) (kmap : Nat) (s : VS) (ds rest : Bytes) (hk : 192 ≤ k)
    (h : pending s = ds ++ rest) (hl : ds.length = ucLen k - 1) :
    ∃ s', readCharS (k : Int) kmap s = Res.ok (some ((k :: ds.map (· % 256)).takeWhile (· != 0))) s' ∧
      Reads false ds s s' ∧ pending s' = rest := by
  obtain ⟨s', h1, h2, h3⟩ := more_spec ds [k] s rest h
  refine ⟨s', ?_, h2, h3⟩
  unfold readCharS
  have e22 := beq_cast22 k (by omega)
  have e11 := beq_cast11 k (by omega)
  simp only [e22, e11, Bool.false_eq_true, if_false, Int.toNat_natCast]
  rw [if_pos (by omega)]
  simp only [bind_apply, ← hl, h1]
  rfl

/-! ### one iteration, by kind of key -/

section Step
variable (pref post : Bytes) (aiMax : Nat) (ins ex : Bool)

local notation "GO" => ledLine.go post aiMax ins pref.isEmpty (setKmapOf ex) (getKmapOf ex) (redrawOf pref ins)

theorem go_zero (sb ai : Bytes) (c1 : Int) (s : VS) : GO 0 sb ai c1 s = Res.ok (sb, -1, ai) s := by
  unfold ledLine.go; rfl

theorem go_bs (f : Nat) (sb ai : Bytes) (c1 : Int) (s : VS) (k : Nat) (rest : Bytes)
    (h : pending s = k :: rest) (hk : k = 8 ∨ k = 127) :
    GO (f + 1) sb ai c1 s =
      GO f (if sb.isEmpty then sb else sb.take (lastChar sb)) ai k (afterStep pref ins ai sb post s) := by
  rw [ledLine.go]
  rw [redraw_read pref ins ai sb post _ s k rest h]
  rcases hk with rfl | rfl <;> rfl

theorem go_killline (f : Nat) (sb ai : Bytes) (c1 : Int) (s : VS) (rest : Bytes)
    (h : pending s = 21 :: rest) :
    GO (f + 1) sb ai c1 s = GO f [] ai 21 (afterStep pref ins ai sb post s) := by
  rw [ledLine.go]
  rw [redraw_read pref ins ai sb post _ s 21 rest h]
  rfl

theorem go_killword (f : Nat) (sb ai : Bytes) (c1 : Int) (s : VS) (rest : Bytes)
    (h : pending s = 23 :: rest) :
    GO (f + 1) sb ai c1 s =
      GO f (if sb.isEmpty then sb else sb.take (lastWord sb)) ai 23 (afterStep pref ins ai sb post s) := by
  rw [ledLine.go]
  rw [redraw_read pref ins ai sb post _ s 23 rest h]
  rfl

theorem go_ctrlT (f : Nat) (sb ai : Bytes) (c1 : Int) (s : VS) (rest : Bytes)
    (h : pending s = 20 :: rest) :
    GO (f + 1) sb ai c1 s =
      GO f sb (if ai.length < aiMax then ai ++ [9] else ai) 20 (afterStep pref ins ai sb post s) := by
  rw [ledLine.go]
  rw [redraw_read pref ins ai sb post _ s 20 rest h]
  rfl

theorem go_ctrlD (f : Nat) (sb ai : Bytes) (c1 : Int) (s : VS) (rest : Bytes)
    (h : pending s = 4 :: rest) :
    GO (f + 1) sb ai c1 s =
      GO f (if ai.isEmpty && pref.isEmpty && isBlankC (sb.headD 0) then sb.drop 1 else sb) ai.dropLast 4
        (afterStep pref ins ai sb post s) := by
  rw [ledLine.go]
  rw [redraw_read pref ins ai sb post _ s 4 rest h]
  rfl

theorem go_newline (f : Nat) (sb ai : Bytes) (c1 : Int) (s : VS) (rest : Bytes)
    (h : pending s = 10 :: rest) :
    GO (f + 1) sb ai c1 s =
      Res.ok (sb, 10, ai) (afterRedraw pref ins ai sb [] (afterStep pref ins ai sb post s)) := by
  rw [ledLine.go]
  rw [redraw_read pref ins ai sb post _ s 10 rest h]
  show (redrawOf pref ins ai sb [] >>= fun _ => pure (sb, (10 : Int), ai)) _ = _
  rw [bind_apply, redrawOf_apply]
  rfl

theorem go_int (f : Nat) (sb ai : Bytes) (c1 : Int) (s : VS) (k : Nat) (rest : Bytes)
    (h : pending s = k :: rest) (hk : k = 27 ∨ k = 3) :
    GO (f + 1) sb ai c1 s = Res.ok (sb, (k : Int), ai) (afterStep pref ins ai sb post s) := by
  rw [ledLine.go]
  rw [redraw_read pref ins ai sb post _ s k rest h]
  rcases hk with rfl | rfl <;> rfl

/-- a key that is none of the editing keys goes through `led_readchar` -/
theorem go_char (f : Nat) (sb ai : Bytes) (c1 : Int) (s : VS) (k : Nat) (rest : Bytes)
    (h : pending s = k :: rest)
    (hk : k ≠ 6 ∧ k ≠ 5 ∧ k ≠ 8 ∧ k ≠ 127 ∧ k ≠ 21 ∧ k ≠ 23 ∧ k ≠ 20 ∧ k ≠ 4 ∧ k ≠ 16 ∧ k ≠ 18 ∧ k ≠ 1 ∧
      k ≠ 10 ∧ k ≠ 27 ∧ k ≠ 3) :
    GO (f + 1) sb ai c1 s =
      (match readCharS (k : Int) (if ex then (afterStep pref ins ai sb post s).exKmap else (afterStep pref ins ai sb post s).xkmap)
          (afterStep pref ins ai sb post s) with
        | Res.ok (some cs) s2 => GO f (sb ++ cs) ai k s2
        | Res.ok none s2 => GO f sb ai k s2
        | Res.eof => Res.eof
        | Res.trap => Res.trap) := by
  obtain ⟨h6, h5, h8, h127, h21, h23, h20, h4, h16, h18, h1, h10, h27, h3⟩ := hk
  rw [ledLine.go]
  rw [redraw_read pref ins ai sb post _ s k rest h]
  have e6 : ((k : Int) == 6) = false := beq_cast k 6 h6
  have e5 : ((k : Int) == 5) = false := beq_cast k 5 h5
  have e8 : ((k : Int) == 8) = false := beq_cast k 8 h8
  have e127 : ((k : Int) == 127) = false := beq_cast k 127 h127
  have e21 : ((k : Int) == 21) = false := beq_cast k 21 h21
  have e23 : ((k : Int) == 23) = false := beq_cast k 23 h23
  have e20 : ((k : Int) == 20) = false := beq_cast k 20 h20
  have e4 : ((k : Int) == 4) = false := beq_cast k 4 h4
  have e16 : ((k : Int) == 16) = false := beq_cast k 16 h16
  have e18 : ((k : Int) == 18) = false := beq_cast k 18 h18
  have e1 : ((k : Int) == 1) = false := beq_cast k 1 h1
  have e10 : ((k : Int) == 10) = false := beq_cast k 10 h10
  have et := tkInt_cast k h27 h3
  simp only [e6, e5, e8, e127, e21, e23, e20, e4, e16, e18, e1, e10, et, Bool.false_eq_true, if_false, Bool.or_self]
  simp only [bind_apply, getKmapOf]
  cases readCharS (k : Int) (if ex then (afterStep pref ins ai sb post s).exKmap else (afterStep pref ins ai sb post s).xkmap)
      (afterStep pref ins ai sb post s) with
  | ok a s2 => cases a <;> rfl
  | eof => rfl
  | trap => rfl

end Step

/-! ### the pure simulation -/

/-- the text side of `led_line`: run the keys on the text `sb` and the auto-indent `ai`; the result is
(text, terminating key, auto-indent, keys left).  `none`: the keys run out, or a key outside the
modelled set (`^F ^E ^P ^R ^A ^K`, NUL) occurs, or the fuel of the model's loop is exhausted.
`pe`: the prefix is empty (matters for `^D`). -/
def ledSim (pe : Bool) (aiMax : Nat) : Nat → Bytes → Bytes → Bytes → Option (Bytes × Nat × Bytes × Bytes)
  | 0, _, _, _ => none
  | _ + 1, [], _, _ => none
  | f + 1, k :: ks, sb, ai =>
    if k = 8 ∨ k = 127 then ledSim pe aiMax f ks (if sb.isEmpty then sb else sb.take (lastChar sb)) ai
    else if k = 21 then ledSim pe aiMax f ks [] ai
    else if k = 23 then ledSim pe aiMax f ks (if sb.isEmpty then sb else sb.take (lastWord sb)) ai
    else if k = 20 then ledSim pe aiMax f ks sb (if ai.length < aiMax then ai ++ [9] else ai)
    else if k = 4 then
      ledSim pe aiMax f ks (if ai.isEmpty && pe && isBlankC (sb.headD 0) then sb.drop 1 else sb) ai.dropLast
    else if k = 10 ∨ k = 27 ∨ k = 3 then some (sb, k, ai, ks)
    else if k = 22 then
      match ks with
      | [] => none
      | d :: ks' => ledSim pe aiMax f ks' (sb ++ (if d % 256 == 0 then [] else [d % 256])) ai
    else if k = 6 ∨ k = 5 ∨ k = 16 ∨ k = 18 ∨ k = 1 ∨ k = 11 ∨ k = 0 then none
    else if k < 192 then ledSim pe aiMax f ks (sb ++ [k]) ai
    else if ks.length < ucLen k - 1 then none
    else ledSim pe aiMax f (ks.drop (ucLen k - 1))
      (sb ++ ((k :: (ks.take (ucLen k - 1)).map (· % 256)).takeWhile (· != 0))) ai

/-- **the loop of `led_line` computes `ledSim`** on the pending keys (default keymap), and only reads keys -/
theorem go_sim (pref post : Bytes) (aiMax : Nat) (ins ex : Bool) :
    ∀ (f : Nat) (keys sb ai : Bytes) (c1 : Int) (s : VS) (sb' : Bytes) (key : Nat) (ai' rest : Bytes),
      ledSim pref.isEmpty aiMax f keys sb ai = some (sb', key, ai', rest) →
      pending s = keys → (if ex then s.exKmap else s.xkmap) = 0 →
      ∃ s' used, ledLine.go post aiMax ins pref.isEmpty (setKmapOf ex) (getKmapOf ex) (redrawOf pref ins) f sb ai c1 s
          = Res.ok (sb', (key : Int), ai') s' ∧
        keys = used ++ rest ∧ Reads ins used s s' ∧ pending s' = rest := by
  intro f
  induction f with
  | zero => intro keys sb ai c1 s sb' key ai' rest h; simp [ledSim] at h
  | succ f ih =>
    intro keys sb ai c1 s sb' key ai' rest h hp hkm
    cases keys with
    | nil => simp [ledSim] at h
    | cons k ks =>
      obtain ⟨hr, hp1⟩ := afterStep_spec pref ins ai sb post s k ks hp
      have hkm1 := (hr.kmap ex).trans hkm
      -- the common closing step: the recursive call on the state after the read
      have close : ∀ (sbn ain : Bytes) (lhs : Res (Bytes × Int × Bytes)),
          lhs = ledLine.go post aiMax ins pref.isEmpty (setKmapOf ex) (getKmapOf ex) (redrawOf pref ins) f sbn ain k
            (afterStep pref ins ai sb post s) →
          ledSim pref.isEmpty aiMax f ks sbn ain = some (sb', key, ai', rest) →
          ∃ s' used, lhs = Res.ok (sb', (key : Int), ai') s' ∧ k :: ks = used ++ rest ∧ Reads ins used s s' ∧
            pending s' = rest := by
        intro sbn ain lhs he hs
        obtain ⟨s', used, h1, h2, h3, h4⟩ := ih ks sbn ain k _ sb' key ai' rest hs hp1 hkm1
        exact ⟨s', k :: used, by rw [he, h1], by rw [h2]; rfl, hr.trans h3, h4⟩
      unfold ledSim at h
      split at h
      · rename_i hk
        exact close _ _ _ (go_bs pref post aiMax ins ex f sb ai c1 s k ks hp hk) h
      split at h
      · rename_i _ hk; subst hk
        exact close _ _ _ (go_killline pref post aiMax ins ex f sb ai c1 s ks hp) h
      split at h
      · rename_i _ _ hk; subst hk
        exact close _ _ _ (go_killword pref post aiMax ins ex f sb ai c1 s ks hp) h
      split at h
      · rename_i _ _ _ hk; subst hk
        exact close _ _ _ (go_ctrlT pref post aiMax ins ex f sb ai c1 s ks hp) h
      split at h
      · rename_i _ _ _ _ hk; subst hk
        exact close _ _ _ (go_ctrlD pref post aiMax ins ex f sb ai c1 s ks hp) h
      split at h
      · rename_i _ _ _ _ _ hk
        simp only [Option.some.injEq, Prod.mk.injEq] at h
        obtain ⟨rfl, rfl, rfl, rfl⟩ := h
        rcases hk with rfl | hk
        · rw [go_newline pref post aiMax ins ex f sb ai c1 s ks hp]
          obtain ⟨hr2, hp2⟩ := reads_afterRedraw pref ins ai sb [] (afterStep pref ins ai sb post s)
          exact ⟨_, [10], rfl, rfl, by simpa using hr.trans hr2, by rw [hp2, hp1]⟩
        · rw [go_int pref post aiMax ins ex f sb ai c1 s k ks hp hk]
          exact ⟨_, [k], rfl, rfl, hr, hp1⟩
      rename_i n8 n21 n23 n20 n4 n10
      split at h
      · rename_i hk; subst hk
        have hgc := go_char pref post aiMax ins ex f sb ai c1 s 22 ks hp (by omega)
        rw [hkm1] at hgc
        cases ks with
        | nil => simp at h
        | cons d ks' =>
          simp only [] at h
          rw [readCharS_literal 0 _ d ks' hp1] at hgc
          obtain ⟨-, hp2, hr2⟩ := termRead_afterRead _ d ks' hp1
          have hkm2 := ((hr2.mono ins).kmap ex).trans hkm1
          obtain ⟨s', used, h1, h2, h3, h4⟩ := ih ks' _ ai 22 _ sb' key ai' rest h hp2 hkm2
          refine ⟨s', 22 :: d :: used, by rw [hgc]; exact h1, by rw [h2]; rfl, ?_, h4⟩
          have := (hr.trans (hr2.mono ins)).trans h3
          simpa using this
      split at h
      · cases h
      rename_i n22 nsp
      have hgc := go_char pref post aiMax ins ex f sb ai c1 s k ks hp (by omega)
      rw [hkm1] at hgc
      split at h
      · rename_i hlt
        rw [readCharS_plain k _ (by omega) (by omega) hlt (by omega)] at hgc
        exact close _ _ _ hgc h
      rename_i nlt
      split at h
      · cases h
      rename_i hlen
      have hsplit : ks = ks.take (ucLen k - 1) ++ ks.drop (ucLen k - 1) := (List.take_append_drop _ _).symm
      obtain ⟨s2, hm, hr2, hp2⟩ := readCharS_multi k 0 (afterStep pref ins ai sb post s) (ks.take (ucLen k - 1))
        (ks.drop (ucLen k - 1)) (by omega) (by rw [hp1]; exact hsplit) (by simp; omega)
      rw [hm] at hgc
      have hkm2 := ((hr2.mono ins).kmap ex).trans hkm1
      obtain ⟨s', used, h1, h2, h3, h4⟩ := ih _ _ ai k s2 sb' key ai' rest h hp2 hkm2
      refine ⟨s', k :: (ks.take (ucLen k - 1) ++ used), by rw [hgc]; exact h1, ?_, ?_, h4⟩
      · rw [List.cons_append, List.append_assoc, ← h2, ← hsplit]
      · have := (hr.trans (hr2.mono ins)).trans h3
        simpa using this

end Neatvi.Lemmas.C08b
