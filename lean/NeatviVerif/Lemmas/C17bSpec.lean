import NeatviVerif.Lemmas.C17bFold
/-! Helper lemmas for C17b: the vocabulary of the specifications (greatest / least admissible
column of a table) and the specifications of `pos_prev`, `pos_next`, `ren_off`. -/
namespace Neatvi.Lemmas.C17b
open Neatvi Neatvi.Ren

/-- the invariant a tiling guarantees for the table `pos` of a line of `n` characters:
    `n + 1` entries, the characters' columns pairwise distinct, and the end column (entry `n`)
    beyond every character's column -/
structure ColTable (pos : List Nat) (n : Nat) : Prop where
  len : pos.length = n + 1
  inj : ∀ i j, i < n → j < n → pos.getD i 0 = pos.getD j 0 → i = j
  lt_end : ∀ i, i < n → pos.getD i 0 < pos.getD n 0

/-- character `i` has the greatest column among the characters `0..n-1` whose column satisfies `P` -/
def IsGreatest (pos : List Nat) (n : Nat) (P : Nat → Prop) (i : Nat) : Prop :=
  i < n ∧ P (pos.getD i 0) ∧ ∀ j, j < n → P (pos.getD j 0) → pos.getD j 0 ≤ pos.getD i 0

/-- character `i` has the least column among the characters `0..n-1` whose column satisfies `P` -/
def IsLeast (pos : List Nat) (n : Nat) (P : Nat → Prop) (i : Nat) : Prop :=
  i < n ∧ P (pos.getD i 0) ∧ ∀ j, j < n → P (pos.getD j 0) → pos.getD i 0 ≤ pos.getD j 0

/-- no character's column satisfies `P` -/
def NoCol (pos : List Nat) (n : Nat) (P : Nat → Prop) : Prop := ∀ j, j < n → ¬ P (pos.getD j 0)

/-- the columns `pos_prev(.., p, cur)` accepts: `≤ p` for `cur`, `< p` otherwise -/
def PrevP (p : Int) (cur : Bool) (x : Nat) : Prop := if cur then (x : Int) ≤ p else (x : Int) < p
/-- the columns `pos_next(.., p, cur)` accepts: `≥ p` for `cur`, `> p` otherwise -/
def NextP (p : Int) (cur : Bool) (x : Nat) : Prop := if cur then p ≤ (x : Int) else p < (x : Int)

theorem prevOk_iff (p : Int) (cur : Bool) (x : Nat) : prevOk p cur x = true ↔ PrevP p cur x := by
  unfold prevOk PrevP
  cases cur <;> simp <;> omega

theorem nextOk_iff (p : Int) (cur : Bool) (x : Nat) : nextOk p cur x = true ↔ NextP p cur x := by
  unfold nextOk NextP
  cases cur <;> simp <;> omega

theorem posPrev_spec (pos : List Nat) (n : Nat) (p : Int) (cur : Bool) (hn : n ≤ pos.length) :
    (∃ i, IsGreatest pos n (PrevP p cur) i ∧ posPrev pos n p cur = (pos.getD i 0 : Int)) ∨
    (NoCol pos n (PrevP p cur) ∧ posPrev pos n p cur = -1) := by
  rw [posPrev_eq_opt]
  have := opt_inv pos (prevOk p cur) (fun a b => decide (a > b)) (by simp)
    (by intro a b c; simp; omega) n hn
  cases hr : (List.range n).foldl (optStep pos (prevOk p cur) (fun a b => decide (a > b))) none with
  | none =>
    rw [hr] at this
    right
    refine ⟨?_, rfl⟩
    intro j hj hP
    have h1 := this j hj
    rw [(prevOk_iff p cur _).mpr hP] at h1; cases h1
  | some i =>
    rw [hr] at this
    obtain ⟨h1, h2, h3⟩ := this
    left
    refine ⟨i, ⟨h1, (prevOk_iff p cur _).mp h2, ?_⟩, rfl⟩
    intro j hj hP
    have := h3 j hj ((prevOk_iff p cur _).mpr hP)
    have := of_decide_eq_false this; omega

theorem posNext_spec (pos : List Nat) (n : Nat) (p : Int) (cur : Bool) (hn : n ≤ pos.length) :
    (∃ i, IsLeast pos n (NextP p cur) i ∧ posNext pos n p cur = (pos.getD i 0 : Int)) ∨
    (NoCol pos n (NextP p cur) ∧ posNext pos n p cur = -1) := by
  rw [posNext_eq_opt]
  have := opt_inv pos (nextOk p cur) (fun a b => decide (a < b)) (by simp)
    (by intro a b c; simp; omega) n hn
  cases hr : (List.range n).foldl (optStep pos (nextOk p cur) (fun a b => decide (a < b))) none with
  | none =>
    rw [hr] at this
    right
    refine ⟨?_, rfl⟩
    intro j hj hP
    have h1 := this j hj
    rw [(nextOk_iff p cur _).mpr hP] at h1; cases h1
  | some i =>
    rw [hr] at this
    obtain ⟨h1, h2, h3⟩ := this
    left
    refine ⟨i, ⟨h1, (nextOk_iff p cur _).mp h2, ?_⟩, rfl⟩
    intro j hj hP
    have := h3 j hj ((nextOk_iff p cur _).mpr hP)
    have := of_decide_eq_false this; omega

/-- the value is determined by the specification -/
theorem posPrev_of_greatest (pos : List Nat) (n : Nat) (p : Int) (cur : Bool) (hn : n ≤ pos.length)
    (i : Nat) (h : IsGreatest pos n (PrevP p cur) i) : posPrev pos n p cur = (pos.getD i 0 : Int) := by
  rcases posPrev_spec pos n p cur hn with ⟨i', h', he⟩ | ⟨h', _⟩
  · rw [he]
    have a := h.2.2 i' h'.1 h'.2.1
    have b := h'.2.2 i h.1 h.2.1
    omega
  · exact absurd h.2.1 (h' i h.1)

theorem posPrev_of_none (pos : List Nat) (n : Nat) (p : Int) (cur : Bool) (hn : n ≤ pos.length)
    (h : NoCol pos n (PrevP p cur)) : posPrev pos n p cur = -1 := by
  rcases posPrev_spec pos n p cur hn with ⟨i', h', _⟩ | ⟨_, he⟩
  · exact absurd h'.2.1 (h i' h'.1)
  · exact he

theorem posNext_of_least (pos : List Nat) (n : Nat) (p : Int) (cur : Bool) (hn : n ≤ pos.length)
    (i : Nat) (h : IsLeast pos n (NextP p cur) i) : posNext pos n p cur = (pos.getD i 0 : Int) := by
  rcases posNext_spec pos n p cur hn with ⟨i', h', he⟩ | ⟨h', _⟩
  · rw [he]
    have a := h.2.2 i' h'.1 h'.2.1
    have b := h'.2.2 i h.1 h.2.1
    omega
  · exact absurd h.2.1 (h' i h.1)

theorem posNext_of_none (pos : List Nat) (n : Nat) (p : Int) (cur : Bool) (hn : n ≤ pos.length)
    (h : NoCol pos n (NextP p cur)) : posNext pos n p cur = -1 := by
  rcases posNext_spec pos n p cur hn with ⟨i', h', _⟩ | ⟨_, he⟩
  · exact absurd h'.2.1 (h i' h'.1)
  · exact he

/-- `ren_off` of a column: the last character with the greatest column `≤ p`; 0 if there is none -/
theorem renOffT_spec_gen (pos : List Nat) (n : Nat) (p : Int) (hn : n ≤ pos.length) :
    (IsGreatest pos n (PrevP p true) (renOffT pos n p) ∧
      ∀ j, j < n → pos.getD j 0 = pos.getD (renOffT pos n p) 0 → j ≤ renOffT pos n p) ∨
    (NoCol pos n (PrevP p true) ∧ renOffT pos n p = 0) := by
  rw [renOffT_eq]
  rcases posPrev_spec pos n p true hn with ⟨i, hi, he⟩ | ⟨hno, he⟩
  · left
    rw [he]
    have := off_last pos (pos.getD i 0 : Int) n
    cases hr : (List.range n).foldl (offStep pos (pos.getD i 0 : Int)) none with
    | none =>
      rw [hr] at this
      exact absurd rfl (this i hi.1)
    | some o =>
      rw [hr] at this
      obtain ⟨h1, h2, h3⟩ := this
      have h2' : pos.getD o 0 = pos.getD i 0 := by exact_mod_cast h2
      simp only [Option.getD_some]
      refine ⟨⟨h1, by rw [h2']; exact hi.2.1, ?_⟩, ?_⟩
      · intro j hj hP; rw [h2']; exact hi.2.2 j hj hP
      · intro j hj hje; exact h3 j hj (by rw [hje, h2'])
  · right
    refine ⟨hno, ?_⟩
    rw [he]
    have := off_last pos (-1) n
    cases hr : (List.range n).foldl (offStep pos (-1)) none with
    | none => rfl
    | some o =>
      rw [hr] at this
      omega

end Neatvi.Lemmas.C17b
