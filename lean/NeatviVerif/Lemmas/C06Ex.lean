import NeatviVerif.Lemmas.C06Lbuf
import NeatviVerif.Model.ExCmd
/-!
# C06, ex level: address evaluation leaves the text alone and yields a valid range;
  the frame law of `Ed.edit`; the print loop
-/
namespace Neatvi.Lemmas.C06
open Neatvi Neatvi.Lbuf Neatvi.Ex Neatvi.Lemmas.Hist

/-- address evaluation may move the current row (`;`) and set the search keyword, nothing else -/
def AddrOnly (ed ed' : Ed) : Prop := ∃ r k d, ed' = { ed with xrow := r, xkwd := k, xkwddir := d }

theorem AddrOnly.refl (ed : Ed) : AddrOnly ed ed := ⟨_, _, _, rfl⟩
theorem AddrOnly.trans {a b c : Ed} (h1 : AddrOnly a b) (h2 : AddrOnly b c) : AddrOnly a c := by
  obtain ⟨r, k, d, rfl⟩ := h1
  obtain ⟨r', k', d', rfl⟩ := h2
  exact ⟨_, _, _, rfl⟩

theorem kwdSet_addrOnly (ed : Ed) (k : Option Bytes) (d : Int) : AddrOnly ed (ed.kwdSet k d) := ⟨_, _, _, rfl⟩

theorem kw_addrOnly (ed : Ed) (kw : Option Bytes) (d : Int) :
    AddrOnly ed (match kw with | some k => if !k.isEmpty then ed.kwdSet (some k) d else ed | none => ed) := by
  split
  · split
    · exact kwdSet_addrOnly _ _ _
    · exact AddrOnly.refl _
  · exact AddrOnly.refl _


def kwEd (ed : Ed) (kw : Option Bytes) (d : Int) : Ed :=
  match kw with | some k => if !k.isEmpty then ed.kwdSet (some k) d else ed | none => ed

theorem exSearch_eq (ed : Ed) (loc : Bytes) : exSearch ed loc =
  (let ed1 := kwEd ed (reRead loc).1 (if loc.headD 0 == 47 then 1 else -1)
   if ed1.xkwddir == 0 then some ((-1, (reRead loc).2), ed1) else
   match ed1.mkRe ed1.xkwd with
   | none => none
   | some none => some ((-1, (reRead loc).2), ed1)
   | some (some re) =>
     match exSearch.scan ed1 re ed1.xkwddir ed1.len (ed1.len.toNat+1) (ed1.xrow + ed1.xkwddir) with
      | none => none
      | some row => some ((row, (reRead loc).2), ed1)) := by
  unfold exSearch kwEd
  rfl

theorem exSearch_addrOnly (ed : Ed) (loc : Bytes) (r : Int × Bytes) (ed' : Ed) (h : exSearch ed loc = some (r, ed')) : AddrOnly ed ed' := by
  rw [exSearch_eq] at h
  have hk : AddrOnly ed (kwEd ed (reRead loc).1 (if loc.headD 0 == 47 then 1 else -1)) := kw_addrOnly _ _ _
  generalize kwEd ed (reRead loc).1 (if loc.headD 0 == 47 then 1 else -1) = ed1 at h hk
  simp only [] at h
  split at h
  · cases h; exact hk
  · split at h
    · cases h
    · cases h; exact hk
    · split at h
      · cases h
      · cases h; exact hk

theorem exLineno_addrOnly (ed : Ed) (loc : Bytes) (r : Int × Bytes) (ed' : Ed) (h : exLineno ed loc = some (r, ed')) : AddrOnly ed ed' := by
  unfold exLineno at h
  simp only [] at h
  generalize hb : @ite (R (Int × Bytes)) ((loc.headD 0 == 46) = true) _ _ _ = base at h
  have hbase : ∀ x ed1, base = some (x, ed1) → AddrOnly ed ed1 := by
    subst hb
    intro x ed1 hx
    split at hx
    · cases hx; exact AddrOnly.refl _
    · split at hx
      · cases hx; exact AddrOnly.refl _
      · split at hx
        · split at hx <;> (cases hx; exact AddrOnly.refl _)
        · split at hx
          · split at hx
            · cases hx
            · rename_i hs
              split at hx <;> (cases hx; exact exSearch_addrOnly _ _ _ _ hs)
          · split at hx <;> (cases hx; exact AddrOnly.refl _)
  clear hb
  split at h
  · cases h
  · split at h <;> (cases h; exact hbase _ _ rfl)

theorem go_addrOnly : ∀ (f : Nat) (ed : Ed) (loc : Bytes) (naddr : Nat) (b e : Int) (r : Int × Int) (ed' : Ed),
    exRegion.go f ed loc naddr b e = some (r, ed') → AddrOnly ed ed' := by
  intro f
  induction f with
  | zero => intro ed loc naddr b e r ed' h; rw [exRegion.go] at h; cases h; exact AddrOnly.refl _
  | succ f ih =>
    intro ed loc naddr b e r ed' h
    rw [exRegion.go] at h
    simp only [] at h
    split at h
    · cases h; exact AddrOnly.refl _
    · split at h
      · cases h
      · rename_i hl
        have h1 := exLineno_addrOnly _ _ _ _ hl
        split at h
        · cases h; exact h1
        · split at h
          · cases h; exact h1
          · refine AddrOnly.trans h1 (AddrOnly.trans ?_ (ih _ _ _ _ _ _ _ h))
            split
            · exact ⟨_, _, _, rfl⟩
            · exact AddrOnly.refl _

theorem AddrOnly.len {ed ed' : Ed} (h : AddrOnly ed ed') : ed'.len = ed.len := by
  obtain ⟨_, _, _, rfl⟩ := h; rfl

theorem len_nonneg (ed : Ed) : 0 ≤ ed.len := by
  unfold Ed.len; split <;> omega

theorem region_all (ed : Ed) (loc : Bytes) (rc : Nat) (b e : Int) (ed' : Ed)
    (h : exRegion ed loc = some ((rc, b, e), ed')) :
    AddrOnly ed ed' ∧ (rc = 0 ∨ rc = 1) ∧
    (rc = 0 → 0 ≤ b ∧ b ≤ e ∧ e ≤ ed'.len ∧ (loc ≠ [] → loc ≠ [37] → b < ed'.len)) ∧
    (rc = 1 → b = 0 → e = 0 → ed'.len = 0) := by
  unfold exRegion at h
  simp only [] at h
  have hl := len_nonneg ed
  split at h
  · rename_i h37
    simp only [beq_iff_eq] at h37
    cases h
    refine ⟨AddrOnly.refl _, Or.inl rfl, fun _ => ⟨by omega, by omega, by omega, fun _ h => absurd h37 h⟩, fun h => by omega⟩
  · split at h
    · rename_i hne hemp
      cases h
      refine ⟨AddrOnly.refl _, Or.inl rfl, fun _ => ⟨by omega, ?_, ?_, fun h _ => absurd (List.isEmpty_iff.mp hemp) h⟩, fun h => by omega⟩
      · split <;> omega
      · split
        · omega
        · rename_i hx; simp only [beq_iff_eq] at hx; omega
    · split at h
      · cases h
      · rename_i hgo
        have ha := go_addrOnly _ _ _ _ _ _ _ _ hgo
        have hl' := len_nonneg ed'
        split at h
        · cases h; exact ⟨ha, Or.inr rfl, fun h => by omega, fun _ h => by omega⟩
        · rename_i h7
          split at h
          · cases h; exact ⟨ha, Or.inr rfl, fun h => by omega, fun _ h => by omega⟩
          · rename_i hrev
            split at h
            all_goals
              rename_i hadj
              split at h
              · rename_i h1
                cases h
                simp only [Bool.or_eq_true, decide_eq_true_eq] at h1
                exact ⟨ha, Or.inr rfl, fun h => by omega, fun _ _ _ => by omega⟩
              · split at h
                · rename_i h1 h2
                  cases h
                  simp only [Bool.or_eq_true, decide_eq_true_eq] at h2
                  exact ⟨ha, Or.inr rfl, fun h => by omega, fun _ _ _ => by omega⟩
                · rename_i h1 h2
                  cases h
                  simp only [Bool.or_eq_true, Bool.and_eq_true, beq_iff_eq, decide_eq_true_eq, not_or, not_and, Int.not_lt, Int.not_le] at h1 h2 hadj
                  exact ⟨ha, Or.inl rfl, fun _ => ⟨by omega, by omega, by omega, fun _ _ => by omega⟩, fun h => by omega⟩

theorem region_fail00 (ed : Ed) (loc : Bytes) (ed' : Ed) (h : exRegion ed loc = some ((1, 0, 0), ed')) :
    ed'.len = 0 := (region_all ed loc 1 0 0 ed' h).2.2.2 rfl rfl rfl

/-! ### the text of the current buffer -/

/-- the lines of the current buffer (empty without one) -/
def lines (ed : Ed) : List Bytes := match ed.lb with | some l => l.lines | none => []

theorem len_eq (ed : Ed) : ed.len = ((lines ed).length : Int) := by
  unfold Ed.len lines; cases ed.lb <;> rfl

theorem AddrOnly.bufs {ed ed' : Ed} (h : AddrOnly ed ed') : ed'.bufs = ed.bufs := by
  obtain ⟨_, _, _, rfl⟩ := h; rfl
theorem AddrOnly.lb {ed ed' : Ed} (h : AddrOnly ed ed') : ed'.lb = ed.lb := by
  obtain ⟨_, _, _, rfl⟩ := h; rfl
theorem AddrOnly.lines {ed ed' : Ed} (h : AddrOnly ed ed') : lines ed' = lines ed := by
  obtain ⟨_, _, _, rfl⟩ := h; rfl
theorem AddrOnly.regs {ed ed' : Ed} (h : AddrOnly ed ed') : ed'.regs = ed.regs := by
  obtain ⟨_, _, _, rfl⟩ := h; rfl
theorem AddrOnly.out {ed ed' : Ed} (h : AddrOnly ed ed') : ed'.out = ed.out := by
  obtain ⟨_, _, _, rfl⟩ := h; rfl

theorem lines_of_lb {ed : Ed} {lb : Lb} (h : ed.lb = some lb) : lines ed = lb.lines := by
  unfold lines; rw [h]

theorem setLb_lb (ed : Ed) (lb0 lb : Lb) (h : ed.lb = some lb0) : (ed.setLb lb).lb = some lb := by
  unfold Ed.lb Ed.cur at h
  unfold Ed.setLb Ed.lb Ed.cur Ed.setCur
  cases hb : ed.bufs with
  | nil => rw [hb] at h; simp at h
  | cons x xs =>
    rw [hb] at h
    cases x with
    | none => simp at h
    | some b => simp

theorem setLb_fields (ed : Ed) (lb : Lb) : ed.setLb lb = { ed with bufs := (ed.setLb lb).bufs } := by
  unfold Ed.setLb
  split
  · rfl
  · rfl

/-- `Ed.edit` only changes the buffer table -/
theorem edit_fields (ed ed' : Ed) (s : Option Bytes) (b e : Int) (h : ed.edit s b e = some ed') :
    ed' = { ed with bufs := ed'.bufs } := by
  unfold Ed.edit at h
  split at h
  · cases h
  · split at h
    · cases h
    · simp only [Option.map_eq_some_iff] at h
      obtain ⟨lb', _, rfl⟩ := h
      exact setLb_fields _ _

/-- frame law of `lbuf_edit(xb, s, beg, end)` on the editor state -/
theorem ed_edit_frame (ed ed' : Ed) (s : Option Bytes) (b e : Int) (hb : 0 ≤ b) (hbe : b ≤ e) (he : e ≤ ed.len)
    (h : ed.edit s b e = some ed') :
    lines ed' = (lines ed).take b.toNat ++ optLines s ++ (lines ed).drop e.toNat ∧
    ed'.len = ed.len - (e - b) + (optLines s).length := by
  unfold Ed.edit at h
  rw [if_neg (by simp; omega)] at h
  split at h
  · cases h
  · rename_i lb hlb
    simp only [Option.map_eq_some_iff] at h
    obtain ⟨lb', hed, rfl⟩ := h
    have hlen : ed.len = (lb.lines.length : Int) := by unfold Ed.len; rw [hlb]
    have hfr := lbuf_edit_frame lb lb' s b.toNat e.toNat (by omega) (by omega) hed
    have hl' : lines (ed.setLb lb') = lb'.lines := lines_of_lb (setLb_lb ed lb lb' hlb)
    have hl : lines ed = lb.lines := lines_of_lb hlb
    refine ⟨by rw [hl', hl, hfr], ?_⟩
    rw [len_eq, hl', hfr, hlen]
    simp only [List.length_append, List.length_take, List.length_drop]
    omega

/-- with a current buffer and an ordered non-negative range, `Ed.edit` never traps -/
theorem ed_edit_total (ed : Ed) (lb : Lb) (s : Option Bytes) (b e : Int) (hlb : ed.lb = some lb) (hb : 0 ≤ b) (hbe : b ≤ e) :
    ∃ ed', ed.edit s b e = some ed' := by
  unfold Ed.edit
  rw [if_neg (by simp; omega), hlb]
  obtain ⟨lb', h⟩ := edit_total lb s b.toNat e.toNat (by omega)
  exact ⟨ed.setLb lb', by simp [h]⟩

theorem line_eq (ed : Ed) (k : Nat) : ed.line (k : Int) = (lines ed)[k]? := by
  unfold Ed.line lines
  rw [if_neg (by omega)]
  cases ed.lb <;> simp

/-! ### the loop of `ec_print` -/

/-- what `ex_print` appends for one line -/
def printed (l : Bytes) : Bytes := l ++ (if l.getLast? == some 10 then [] else [10])

theorem print_loop (ed : Ed) (b : Nat) : ∀ n : Nat, b + n ≤ (lines ed).length →
    (List.range n).foldl (fun (ed : Ed) (k : Nat) =>
        match ed.line ((b : Int) + (k : Int)) with | some l => ed.print l | none => ed) ed =
      { ed with out := ed.out ++ (((lines ed).drop b).take n).flatMap printed } := by
  intro n
  induction n with
  | zero => intro _; simp
  | succ n ih =>
    intro hn
    rw [List.range_succ, List.foldl_append, ih (by omega)]
    simp only [List.foldl_cons, List.foldl_nil]
    obtain ⟨x, hx⟩ : ∃ x, (lines ed)[b + n]? = some x := ⟨_, List.getElem?_eq_getElem (by omega)⟩
    have hline : Ed.line { ed with out := ed.out ++ (((lines ed).drop b).take n).flatMap printed } ((b : Int) + (n : Int)) =
        some x := by
      rw [← hx, ← line_eq]
      rfl
    rw [hline]
    have htake : ((lines ed).drop b).take (n + 1) = ((lines ed).drop b).take n ++ [x] := by
      rw [List.take_add_one, List.getElem?_drop, hx]
      rfl
    rw [htake, List.flatMap_append]
    simp [Ed.print, printed, List.append_assoc]

end Neatvi.Lemmas.C06
