import NeatviVerif.Lemmas.C02Mark
/-!
# C02 lemmas, part 4: histories with saving — the model run, the reference run, the simulation
-/
namespace Neatvi.Lemmas.C02
open Neatvi Neatvi.Lbuf Neatvi.Spec Neatvi.Lemmas.Hist Neatvi.Props.C01 Neatvi.Props.C04

/-- one top-level editor command at the lbuf API, including the calls that concern saving -/
inductive SOp where
  | cmd (splices : List Splice)   -- lbuf_edit calls, then the bump (`lbuf_modified`)
  | undo                           -- lbuf_undo, then the bump
  | redo                           -- lbuf_redo, then the bump
  | query                          -- lbuf_modified alone: what quit / :e / :b do to look at the flag
  | saved                          -- lbuf_saved(lb, 0), then the bump: the whole buffer was written
  | savedClear                     -- lbuf_saved(lb, 1), then the bump: the file was (re)read, history dropped
  | partialWrite                     -- lbuf_unsaved(lb): part of the buffer was written to its own file

/-- the model: one step (`none` = trap) -/
def sstep (lb : Lb) : SOp → Option Lb
  | .cmd ss => (applySplices ss lb).map (fun l => (modified l).2)
  | .undo => (undo lb).map (fun r => (modified r.2).2)
  | .redo => (redo lb).map (fun r => (modified r.2).2)
  | .query => some (modified lb).2
  | .saved => some (modified (savedCore lb false)).2
  | .savedClear => some (modified (savedCore lb true)).2
  | .partialWrite => some (unsavedMark lb)

/-- ghost: the text the buffer's file holds, if it is a text the buffer ever had since
    (`none` after a partial write: the file is then no text of the history) -/
def diskStep (lb : Lb) (d : Option Text) : SOp → Option Text
  | .saved => some lb.lines
  | .savedClear => some lb.lines
  | .partialWrite => none
  | _ => d

/-- the model run instrumented with the ghost file content -/
def srunD : List SOp → Lb × Option Text → Option (Lb × Option Text)
  | [], s => some s
  | op :: r, s =>
    match sstep s.1 op with
    | none => none
    | some lb' => srunD r (lb', diskStep s.1 s.2 op)

def SGoodOp : SOp → Prop
  | .cmd ss => ∀ s ∈ ss, s.1 ≤ s.2.1
  | _ => True

instance : DecidablePred SGoodOp := fun op => by
  cases op <;> unfold SGoodOp <;> infer_instance

/-- callers never pass an inverted range -/
def SGood (ops : List SOp) : Prop := ∀ op ∈ ops, SGoodOp op

instance : DecidablePred SGood := fun ops => by unfold SGood; infer_instance

/-! ### the reference: the zipper of texts with a mark at the saved position -/

structure Ref where
  z : Zipper := {}
  /-- depth (number of past texts) at which the file's text sits, while still reachable -/
  mark : Option Nat := some 0

def rstep (r : Ref) : SOp → Ref
  | .cmd ss =>
    { z := (refStep r.z (.cmd ss)).2
      mark := if cmdLogs r.z.present ss then keepMark r.z.past.length r.mark else r.mark }
  | .undo => { r with z := (refStep r.z .undo).2 }
  | .redo => { r with z := (refStep r.z .redo).2 }
  | .query => r
  | .saved => { r with mark := some r.z.past.length }
  | .savedClear => { z := { present := r.z.present }, mark := some 0 }
  | .partialWrite => { r with mark := none }

def rrun : List SOp → Ref → Ref
  | [], r => r
  | op :: ops, r => rrun ops (rstep r op)

theorem rrun_append (a b : List SOp) (r : Ref) : rrun (a ++ b) r = rrun b (rrun a r) := by
  induction a generalizing r with
  | nil => rfl
  | cons op a ih => simp only [List.cons_append, rrun, ih]

theorem srunD_append (a b : List SOp) (s : Lb × Option Text) :
    srunD (a ++ b) s = (srunD a s).bind (srunD b) := by
  induction a generalizing s with
  | nil => rfl
  | cons op a ih =>
    simp only [List.cons_append, srunD]
    split
    · rfl
    · exact ih _

/-! ### simulation -/

theorem pastTexts_length (T0 : Text) (pg : List Group) : (pastTexts T0 pg).length = pg.length := by
  induction pg with
  | nil => rfl
  | cons g ps ih => simp [pastTexts, ih]

/-- the state at a command boundary: C04's invariant plus the mark invariant -/
def SInv (lb : Lb) (r : Ref) (d : Option Text) : Prop :=
  r.z.open_ = false ∧ ∃ T0 pg fg, Inv T0 lb r.z pg fg ∧ MarkInv T0 lb (pg.reverse ++ fg) d r.mark

theorem sinv_make : SInv Lbuf.make {} (some []) := ⟨rfl, [], [], [], inv_make, markInv_make⟩

theorem SInv.lines {lb r d} (h : SInv lb r d) : lb.lines = r.z.present := by
  obtain ⟨_, T0, pg, fg, hi, _⟩ := h; exact hi.present.symm

/-- **the dirty flag is the reference's**: clean exactly when the mark is at the zipper's position -/
theorem SInv.clean_iff {lb r d} (h : SInv lb r d) : (modified lb).1 = false ↔ r.mark = some r.z.past.length := by
  obtain ⟨_, T0, pg, fg, hi, hm⟩ := h
  rw [hi.past, pastTexts_length]
  exact clean_iff_mark hi hm

theorem SInv.clean_text {lb r d} (h : SInv lb r d) (hc : (modified lb).1 = false) : d = some lb.lines := by
  obtain ⟨_, T0, pg, fg, hi, hm⟩ := h
  exact mark_here_text hi hm ((clean_iff_mark hi hm).1 hc)

theorem mem_rev_app {α} (g : α) (a b : List α) : g ∈ a.reverse ++ b ↔ g ∈ a ++ b := by
  simp only [List.mem_append, List.mem_reverse]

theorem sstep_inv {lb r d} (h : SInv lb r d) (op : SOp) (hg : SGoodOp op) :
    ∃ lb', sstep lb op = some lb' ∧ SInv lb' (rstep r op) (diskStep lb d op) := by
  obtain ⟨ho, T0, pg, fg, hi, hm⟩ := h
  have hdepth : r.z.past.length = pg.length := by rw [hi.past, pastTexts_length]
  have hbump : Inv T0 (modified lb).2 r.z pg fg := by
    have := inv_bump hi; rw [commit_closed r.z ho] at this; exact this
  cases op with
  | cmd ss =>
    obtain ⟨lb1, a1, a2, a3, a4⟩ := splices_inv' T0 ss lb r.z pg fg hi hg
    refine ⟨(modified lb1).2, by simp [sstep, a1], ?_⟩
    rcases a4 with ⟨hl, rfl⟩ | ⟨hl, es, hi1⟩
    · have hz : (rstep r (.cmd ss)).z = r.z := by
        show (refStep r.z (.cmd ss)).2 = r.z
        rw [refStep_cmd_nolog r.z ss ho hl]
      have hk : (rstep r (.cmd ss)).mark = r.mark := by simp [rstep, hl]
      refine ⟨by rw [hz]; exact ho, T0, pg, fg, by rw [hz]; exact hbump, ?_⟩
      rw [hk]; exact markInv_bump hm
    · have hbase : baseOf r.z pg = pg := by simp [baseOf, ho]
      rw [hbase] at hi1
      have hb := inv_bump hi1
      have hm1 := markInv_trunc pg.reverse fg es hm hi.sorted
        (fun g hg => hi.closed ho g ((mem_rev_app g pg fg).1 hg))
      have hm2 := markInv_bump (markInv_congr hm1 a3 a2)
      have hk : (rstep r (.cmd ss)).mark = keepMark pg.reverse.length r.mark := by
        simp [rstep, hl, hdepth]
      refine ⟨rfl, T0, (lb.useq, es) :: pg, [], hb, ?_⟩
      rw [hk]
      show MarkInv T0 _ _ d _
      simpa using hm2
  | undo =>
    rcases inv_undo hi ho with ⟨_, hu, hz⟩ | ⟨g, ps, lb', z', hpg, hu, hz, ho', hus, hi'⟩
    · have hzz : (rstep r .undo).z = r.z := by
        show (refStep r.z .undo).2 = r.z
        simp [refStep, hz]
      refine ⟨(modified lb).2, by simp [sstep, hu], by rw [hzz]; exact ho, T0, pg, fg,
        by rw [hzz]; exact hbump, markInv_bump hm⟩
    · subst hpg
      have hzz : (rstep r .undo).z = z' := by
        show (refStep r.z .undo).2 = z'
        simp [refStep, hz]
      have hb := inv_bump hi'
      rw [commit_closed _ ho'] at hb
      have hm' : MarkInv T0 (modified lb').2 (ps.reverse ++ g :: fg) d r.mark := by
        have := markInv_bump (markInv_congr hm (undo_frame _ _ _ hu) hus)
        simpa using this
      exact ⟨(modified lb').2, by simp [sstep, hu], by rw [hzz]; exact ho', T0, ps, g :: fg,
        by rw [hzz]; exact hb, hm'⟩
  | redo =>
    rcases inv_redo hi ho with ⟨_, hu, hz⟩ | ⟨g, fs, lb', z', hfg, hu, hz, ho', hus, hi'⟩
    · have hzz : (rstep r .redo).z = r.z := by
        show (refStep r.z .redo).2 = r.z
        simp [refStep, hz]
      refine ⟨(modified lb).2, by simp [sstep, hu], by rw [hzz]; exact ho, T0, pg, fg,
        by rw [hzz]; exact hbump, markInv_bump hm⟩
    · subst hfg
      have hzz : (rstep r .redo).z = z' := by
        show (refStep r.z .redo).2 = z'
        simp [refStep, hz]
      have hb := inv_bump hi'
      rw [commit_closed _ ho'] at hb
      have hm' : MarkInv T0 (modified lb').2 ((g :: pg).reverse ++ fs) d r.mark := by
        have := markInv_bump (markInv_congr hm (redo_frame _ _ _ hu) hus)
        simpa using this
      exact ⟨(modified lb').2, by simp [sstep, hu], by rw [hzz]; exact ho', T0, g :: pg, fs,
        by rw [hzz]; exact hb, hm'⟩
  | query => exact ⟨(modified lb).2, rfl, ho, T0, pg, fg, hbump, markInv_bump hm⟩
  | saved =>
    refine ⟨_, rfl, ho, T0, pg, fg, ?_, ?_⟩
    · have h1 : Inv T0 (savedCore lb false) r.z pg fg := by
        rw [savedCore_false]; exact inv_congr hi rfl rfl rfl rfl
      have := inv_bump h1
      rw [commit_closed r.z ho] at this
      exact this
    · show MarkInv T0 _ _ (some lb.lines) (some r.z.past.length)
      rw [hdepth]
      exact markInv_saved hi hm
  | savedClear =>
    exact ⟨_, rfl, rfl, lb.lines, [], [], inv_clear hi, markInv_clear hm⟩
  | partialWrite =>
    exact ⟨_, rfl, ho, T0, pg, fg, inv_congr hi rfl rfl rfl rfl, markInv_partial hm⟩

theorem srunD_inv (ops : List SOp) : ∀ (lb : Lb) (r : Ref) (d : Option Text), SInv lb r d → SGood ops →
    ∃ lb' d', srunD ops (lb, d) = some (lb', d') ∧ SInv lb' (rrun ops r) d' := by
  induction ops with
  | nil => intro lb r d h _; exact ⟨lb, d, rfl, h⟩
  | cons op ops ih =>
    intro lb r d h hg
    obtain ⟨lb1, s1, i1⟩ := sstep_inv h op (hg op (by simp))
    obtain ⟨lb', d', s2, i2⟩ := ih lb1 _ _ i1 (fun o ho => hg o (by simp [ho]))
    refine ⟨lb', d', ?_, i2⟩
    simp only [srunD, s1]
    exact s2

end Neatvi.Lemmas.C02
