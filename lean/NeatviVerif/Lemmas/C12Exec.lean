import NeatviVerif.Lemmas.C12Prog
import NeatviVerif.Lemmas.C12Literal
/-!
# C12 lemmas, part 6: the start-position loop of `regexec` and `rset_find` on the literal program
-/
namespace Neatvi.C12
open Neatvi Neatvi.Uc Neatvi.Regex Neatvi.Rset

/-- the start positions `regexec` tries: from 0 in steps of `uc_len` -/
inductive Starts (s : Bytes) : Nat → Prop
  | zero : Starts s 0
  | step {i : Nat} : Starts s i → i < s.length → Starts s (i + rxLen s i)

theorem ucLen_pos {c : Nat} (h : 0 < c) : 0 < ucLen c := by
  unfold ucLen
  split
  · simp
  · split
    · omega
    · split
      · omega
      · split <;> omega

theorem rxLen_le (s : Bytes) (i : Nat) : i + rxLen s i ≤ max i s.length := by
  unfold rxLen; omega

theorem Starts.le {s : Bytes} {i : Nat} (h : Starts s i) : i ≤ s.length := by
  induction h with
  | zero => omega
  | @step i _ h2 _ => have := rxLen_le s i; omega

theorem rxLen_pos {s : Bytes} (hs : ∀ c ∈ s, c ≠ 0) {i : Nat} (hi : i < s.length) : 0 < rxLen s i := by
  have := hs _ (getD_mem hi)
  have := ucLen_pos (c := s.getD i 0) (by omega)
  unfold rxLen; omega

/-- two start positions are never strictly inside one step -/
theorem Starts.next_le {s : Bytes} (hs : ∀ c ∈ s, c ≠ 0) : ∀ (b : Nat), Starts s b → ∀ a, Starts s a → a < b → a + rxLen s a ≤ b := by
  intro b
  induction b using Nat.strongRecOn with
  | _ b ih =>
    intro hb a ha hab
    cases hb with
    | zero => omega
    | @step i hi hlt =>
      have hpos := rxLen_pos hs hlt
      rcases Nat.lt_trichotomy a i with h | h | h
      · have := ih i (by omega) hi a ha h; omega
      · subst h; omega
      · have := ih a hab ha i hi h; omega

theorem getD_eq_zero_of_ge {s : Bytes} {i : Nat} (h : s.length ≤ i) : s.getD i 0 = 0 := by
  rw [List.getD_eq_getElem?_getD, List.getElem?_eq_none h]; rfl

/-- the start-position loop finds the least start position at which the program matches -/
theorem execLoop_spec (cx : Ctx) (P : Nat → Prop) (mk : Nat → Marks)
    (hs : ∀ c ∈ cx.subj, c ≠ 0)
    (hok : ∀ r, Starts cx.subj r → P r → ∃ p, recmatch cx r 0 = Res.ok p (mk r) 0)
    (hfail : ∀ r, Starts cx.subj r → ¬ P r → recmatch cx r 0 = Res.fail 0)
    (hsync : ∀ r, P r → Starts cx.subj r) :
    ∀ f st, Starts cx.subj st → cx.subj.length + 1 ≤ f + st → (∀ r, r < st → ¬ P r) →
      (∃ r, IsLeast P r ∧ execLoop cx f st 0 = ExecRes.found (mk r) 0) ∨
      ((∀ r, ¬ P r) ∧ execLoop cx f st 0 = ExecRes.nomatch 0) := by
  intro f
  induction f with
  | zero => intro st hst hf _; have := hst.le; omega
  | succ f ih =>
    intro st hst hf hbefore
    have hle := hst.le
    rw [execLoop, rdb_le hle]
    dsimp only
    by_cases hp : P st
    · left
      obtain ⟨p, hp'⟩ := hok st hst hp
      exact ⟨st, ⟨hp, hbefore⟩, by rw [hp']⟩
    · rw [hfail st hst hp]
      dsimp only
      by_cases hb : cx.subj.getD st 0 = 0
      · right
        have hend : st = cx.subj.length := by
          by_cases h1 : st < cx.subj.length
          · exact absurd hb (hs _ (getD_mem h1))
          · omega
        refine ⟨?_, by rw [hb]; rfl⟩
        intro r hr
        have := (hsync r hr).le
        rcases Nat.lt_trichotomy r st with h | h | h
        · exact hbefore r h hr
        · subst h; exact hp hr
        · omega
      · have hlt : st < cx.subj.length := by
          by_cases h1 : st < cx.subj.length
          · exact h1
          · exact absurd (getD_eq_zero_of_ge (by omega)) hb
        have hpos := rxLen_pos hs hlt
        have hbz : (cx.subj.getD st 0 == 0) = false := beq_eq_false_iff_ne.mpr hb
        simp only [hbz, Bool.false_eq_true, if_false]
        refine ih (st + rxLen cx.subj st) (Starts.step hst hlt) (by omega) ?_
        intro r hr hpr
        rcases Nat.lt_trichotomy r st with h | h | h
        · exact hbefore r h hpr
        · subst h; exact hp hpr
        · have := Starts.next_le hs r (hsync r hpr) st hst h; omega

/-! ### `rset_find` on the literal program -/

/-- the engine's pattern set for a literal pattern -/
def litSet (as : List Atom) (alloc : Int) (pflg : Nat) : RSet :=
  { prog := { code := litCode as, alloc := alloc, flg := pflg }, n := 1, grp := [2, 3],
    setgrpcnt := [0], grpcnt := 3 }

/-- the execution flags `rset_find` passes to `regexec` -/
def findFlags (flg : Nat) : Nat :=
  REG_NEWLINE ||| (if flg &&& RE_NOTBOL != 0 then REG_NOTBOL else 0) |||
    (if flg &&& RE_NOTEOL != 0 then REG_NOTEOL else 0)

/-- the VM context of `rset_find` on the literal program -/
def findCtx (as : List Atom) (pflg : Nat) (s : Bytes) (flg nd ng : Nat) : Ctx :=
  { prog := litCode as, subj := s, flg := pflg ||| findFlags flg, nd := nd, ngrps := ng }

theorem marksOf_get {ng : Nat} (h : 6 ≤ ng) (so eo : Nat) :
    (marksOf ng so eo).getD 0 (-1) = (so : Int) ∧ (marksOf ng so eo).getD 1 (-1) = (eo : Int) ∧
    (marksOf ng so eo).getD 2 (-1) = (so : Int) ∧ (marksOf ng so eo).getD 3 (-1) = (eo : Int) ∧
    (marksOf ng so eo).getD 4 (-1) = (so : Int) ∧ (marksOf ng so eo).getD 5 (-1) = (eo : Int) := by
  have h0 : 0 < 2 * ng := by omega
  have h1 : 1 < 2 * ng := by omega
  have h2 : 2 < 2 * ng := by omega
  have h3 : 3 < 2 * ng := by omega
  have h4 : 4 < 2 * ng := by omega
  have h5 : 5 < 2 * ng := by omega
  simp [marksOf, List.getD_eq_getElem?_getD, h0, h1, h2, h3, h4, h5]

theorem flatMap_unset (k : Nat) :
    (List.range k).flatMap (fun _ => [(-1 : Int), -1]) = List.replicate (2 * k) (-1) := by
  induction k with
  | zero => rfl
  | succ k ih =>
    rw [List.range_succ, List.flatMap_append, ih]
    simp only [List.flatMap_cons, List.flatMap_nil, List.append_nil]
    rw [show 2 * (k + 1) = 2 * k + 2 by omega, List.replicate_succ', List.replicate_succ']
    simp

theorem groups_out (n : Nat) (a b : Int) :
    (List.range n).flatMap (fun i => if i < 0 + 1 then [a, b] else [(-1 : Int), -1]) =
      (if n ≥ 1 then [a, b] else []) ++ List.replicate (2 * (n - 1)) (-1) := by
  cases n with
  | zero => rfl
  | succ k =>
    rw [List.range_succ_eq_map, List.flatMap_cons, List.flatMap_map]
    simp only [Nat.zero_add, Nat.lt_one_iff, if_true, Nat.succ_ne_zero, if_false, ge_iff_le,
      Nat.le_add_left, Nat.add_sub_cancel]
    rw [flatMap_unset]

theorem regexec_found (as : List Atom) (alloc : Int) (pflg : Nat) (s : Bytes) (flg nd ng : Nat)
    (hne : s ≠ []) (hng : 6 ≤ ng) (so eo : Nat)
    (h : execLoop (findCtx as pflg s flg nd ng) (s.length + 2) 0 0 =
      ExecRes.found (marksOf ng so eo) 0) :
    regexec { code := litCode as, alloc := alloc, flg := pflg } s 3 (findFlags flg) nd ng =
      (ExecRes.found (marksOf ng so eo) 0, [((so : Int), (eo : Int)), (so, eo), (so, eo)]) := by
  have hemp : s.isEmpty = false := by cases s <;> simp_all
  obtain ⟨m0, m1, m2, m3, m4, m5⟩ := marksOf_get hng so eo
  unfold regexec
  simp only [findCtx] at h
  simp only [hemp, Bool.false_eq_true, if_false, h]
  have hr : List.range 3 = [0, 1, 2] := rfl
  rw [hr]
  simp only [List.map_cons, List.map_nil, m0, m1, m2, m3, m4, m5]
  have k0 : 0 * 2 < 2 * ng := by omega
  have k1 : 1 * 2 < 2 * ng := by omega
  have k2 : 2 * 2 < 2 * ng := by omega
  simp only [k0, k1, k2, if_true]

theorem find_litSet_found (as : List Atom) (alloc : Int) (pflg : Nat) (s : Bytes) (n flg nd ng : Nat)
    (hne : s ≠ []) (hng : 6 ≤ ng) (so len : Nat)
    (h : execLoop (findCtx as pflg s flg nd ng) (s.length + 2) 0 0 =
      ExecRes.found (marksOf ng so (so + len)) 0) :
    Rset.find (litSet as alloc pflg) s n flg nd ng = some (0, fastGroups n so len, 0) := by
  have hreg := regexec_found as alloc pflg s flg nd ng hne hng so (so + len) h
  unfold Rset.find
  simp only [litSet, show ¬ (3 ≤ 2) by omega, if_false]
  simp only [findFlags] at hreg
  rw [hreg]
  have hr : List.range 1 = [0] := rfl
  have hso : ((so : Int) ≥ 0) = True := by simp
  have z : ((0 : Nat) : Int) = 0 := rfl
  simp only [hr, List.foldl_cons, List.foldl_nil, List.getD_cons_zero,
    List.getD_cons_succ, hso, decide_true, Bool.and_true, Int.reduceGE, if_true, Int.reduceLT, if_false,
    Int.toNat_zero, Int.reduceToNat, z]
  have hf : (fun i => if i < 0 + 1 then
        [(List.getD [((so : Int), ((so + len : Nat) : Int)), (so, (so + len : Nat)), (so, (so + len : Nat))] (2 + i) (-1, -1)).fst,
         (List.getD [((so : Int), ((so + len : Nat) : Int)), (so, (so + len : Nat)), (so, (so + len : Nat))] (2 + i) (-1, -1)).snd]
        else [(-1 : Int), -1]) =
      (fun i => if i < 0 + 1 then [(so : Int), ((so + len : Nat) : Int)] else [(-1 : Int), -1]) := by
    funext i
    by_cases hi : i < 0 + 1
    · have : i = 0 := by omega
      subst this; rfl
    · simp only [hi, if_false]
  rw [hf, groups_out]
  rfl

theorem find_litSet_nomatch (as : List Atom) (alloc : Int) (pflg : Nat) (s : Bytes) (n flg nd ng : Nat)
    (hne : s ≠ [])
    (h : execLoop (findCtx as pflg s flg nd ng) (s.length + 2) 0 0 = ExecRes.nomatch 0) :
    Rset.find (litSet as alloc pflg) s n flg nd ng = some (-1, [], 0) := by
  have hemp : s.isEmpty = false := by cases s <;> simp_all
  unfold Rset.find regexec
  simp only [findCtx, findFlags] at h
  simp only [litSet, show ¬ (3 ≤ 2) by omega, if_false, hemp, Bool.false_eq_true, h]

end Neatvi.C12
