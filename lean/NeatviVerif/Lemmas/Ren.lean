import NeatviVerif.Model.Ren
import NeatviVerif.Lemmas.Tables
import NeatviVerif.Lemmas.Utf8
/-! Helper lemmas for C17: table facts, sequences of array writes, the two loops of
`ren_position_reorder`, and the arg-max folds of `pos_prev`. -/
namespace Neatvi.Ren
open Neatvi Neatvi.Uc Neatvi.Spec

/-! ### array writes -/
def writes {α : Type} (a : List α) (xs : List (Nat × α)) : List α :=
  xs.foldl (fun a x => a.set x.1 x.2) a

@[simp] theorem writes_nil {α : Type} (a : List α) : writes a [] = a := rfl
@[simp] theorem writes_cons {α : Type} (a : List α) (x : Nat × α) (xs : List (Nat × α)) :
    writes a (x :: xs) = writes (a.set x.1 x.2) xs := rfl

@[simp] theorem writes_length {α : Type} (a : List α) (xs : List (Nat × α)) : (writes a xs).length = a.length := by
  induction xs generalizing a with
  | nil => rfl
  | cons x xs ih => simp [ih]

theorem writes_get_of_not_mem {α : Type} (a : List α) (xs : List (Nat × α)) (j : Nat)
    (h : j ∉ xs.map (·.1)) : (writes a xs)[j]? = a[j]? := by
  induction xs generalizing a with
  | nil => rfl
  | cons x xs ih =>
    simp at h
    rw [writes_cons, ih _ (by simpa using h.2)]
    rw [List.getElem?_set_ne (by omega)]

theorem writes_get {α : Type} (a : List α) (xs : List (Nat × α)) (hnd : (xs.map (·.1)).Nodup)
    (k : Nat) (hk : k < xs.length) (hlt : (xs[k]).1 < a.length) :
    (writes a xs)[(xs[k]).1]? = some (xs[k]).2 := by
  induction xs generalizing a k with
  | nil => simp at hk
  | cons x xs ih =>
    simp at hnd
    cases k with
    | zero =>
      simp only [List.getElem_cons_zero, writes_cons]
      rw [writes_get_of_not_mem _ _ _ (by simpa using hnd.1)]
      simp only [List.getElem_cons_zero] at hlt
      rw [List.getElem?_set_self hlt]
    | succ k =>
      simp only [List.getElem_cons_succ, writes_cons]
      exact ih _ hnd.2 k (by simpa using hk) (by simpa using hlt)

end Neatvi.Ren

namespace Neatvi.Ren
open Neatvi Neatvi.Uc Neatvi.Spec

/-! ### the two loops of `ren_position_reorder` -/
def invStep (pos : List Nat) (n : Nat) (acc : Option (List (Option Nat))) (i : Nat) : Option (List (Option Nat)) := do
  let a ← acc
  let p ← pos[i]?
  if p < n then some (a.set p (some i)) else none

theorem invert_eq_foldl (pos : List Nat) (n : Nat) :
    invert pos n = (List.range n).foldl (invStep pos n) (some (List.replicate n none)) := rfl

theorem invert_go (pos : List Nat) (n : Nat) (is : List Nat) (a : List (Option Nat))
    (h : ∀ i ∈ is, ∃ p, pos[i]? = some p ∧ p < n) :
    is.foldl (invStep pos n) (some a) = some (writes a (is.map (fun i => (pos.getD i 0, some i)))) := by
  induction is generalizing a with
  | nil => rfl
  | cons i is ih =>
    obtain ⟨p, hp, hlt⟩ := h i (by simp)
    simp only [List.foldl_cons, List.map_cons, writes_cons]
    have : invStep pos n (some a) i = some (a.set p (some i)) := by
      simp [invStep, hp, hlt]
    rw [this, ih _ (fun j hj => h j (by simp [hj]))]
    have : pos.getD i 0 = p := by simp [List.getD, hp]
    rw [this]

/-- the visual order: `vis[v]` is the logical index shown at visual index `v` -/
def visOf (ord : List Nat) (n : Nat) : List Nat := (List.range n).map (fun v => ord.idxOf v)

theorem invert_perm (ord : List Nat) (n : Nat) (hl : ord.length = n) (hnd : ord.Nodup) (hlt : ∀ v ∈ ord, v < n)
    (hsurj : ∀ v, v < n → v ∈ ord) :
    invert ord n = some ((visOf ord n).map some) := by
  rw [invert_eq_foldl, invert_go]
  · congr 1
    apply List.ext_getElem?
    intro v
    by_cases hv : v < n
    · have hmem := hsurj v hv
      have hk : ord.idxOf v < ord.length := List.idxOf_lt_length_of_mem hmem
      have hget : ord[ord.idxOf v] = v := List.getElem_idxOf hk
      let xs := (List.range n).map (fun i => (ord.getD i 0, some i))
      have hxl : xs.length = n := by simp [xs]
      have hk' : ord.idxOf v < xs.length := by omega
      have hxk : xs[ord.idxOf v] = (v, some (ord.idxOf v)) := by
        simp only [xs, List.getElem_map, List.getElem_range]
        have : ord.getD (ord.idxOf v) 0 = v := by
          rw [List.getD_eq_getElem?_getD, List.getElem?_eq_getElem hk, hget]; rfl
        rw [this]
      have hnd' : (xs.map (·.1)).Nodup := by
        have : xs.map (·.1) = ord := by
          apply List.ext_getElem (by simp [xs, hl])
          intro i h1 h2
          simp only [xs, List.map_map, List.getElem_map, List.getElem_range, Function.comp]
          rw [List.getD_eq_getElem?_getD, List.getElem?_eq_getElem h2]; rfl
        rw [this]; exact hnd
      have := writes_get (List.replicate n none) xs hnd' (ord.idxOf v) hk' (by rw [hxk]; simpa using hv)
      rw [hxk] at this
      simp only [] at this
      rw [this]
      simp [visOf, hv]
    · have h1 : (writes (List.replicate n none) ((List.range n).map (fun i => (ord.getD i 0, some i))))[v]? = none := by
        apply List.getElem?_eq_none; simp; omega
      have h2 : ((visOf ord n).map some)[v]? = none := by
        apply List.getElem?_eq_none; simp [visOf]; omega
      rw [h1, h2]
  · intro i hi
    have hi' : i < n := by simpa using hi
    refine ⟨ord[i]'(by omega), List.getElem?_eq_getElem (by omega), hlt _ (List.getElem_mem _)⟩

theorem assign_eq (cs : List Bytes) (vis : List Nat) (pos : List (Option Nat)) (cpos : Nat)
    (h : ∀ k ∈ vis, k < cs.length) :
    assign cs (vis.map some) pos cpos =
      some (writes pos (vis.zip ((layout (vis.map (fun k => cs.getD k [])) cpos).map some)),
            layoutEnd (vis.map (fun k => cs.getD k [])) cpos) := by
  induction vis generalizing pos cpos with
  | nil => rfl
  | cons k vis ih =>
    have hk := h k (by simp)
    simp only [List.map_cons, assign, layout, layoutEnd, List.zip_cons_cons, writes_cons]
    rw [List.getElem?_eq_getElem hk]
    simp only []
    have : cs.getD k [] = cs[k] := by
      rw [List.getD_eq_getElem?_getD, List.getElem?_eq_getElem hk]; rfl
    rw [this]
    exact ih _ _ (fun j hj => h j (by simp [hj]))

theorem layout_length (cs : List Bytes) (col : Nat) : (layout cs col).length = cs.length := by
  induction cs generalizing col with
  | nil => rfl
  | cons c r ih => simp [layout, ih]

end Neatvi.Ren

namespace Neatvi.Ren
open Neatvi Neatvi.Uc Neatvi.Spec

/-! ### `pos_prev` / `ren_off` folds -/
def prevCond (pos : List Nat) (p : Int) (cur : Bool) (ret : Option Nat) (pi : Nat) : Bool :=
  Int.ofNat pi + (if cur then 0 else 1) ≤ p && (match ret with | none => true | some r => pi > pos.getD r 0)

def prevStep (pos : List Nat) (p : Int) (cur : Bool) (ret : Option Nat) (i : Nat) : Option Nat :=
  match (pos[i]? : Option Nat) with
  | none => ret
  | some pi => if prevCond pos p cur ret pi then some i else ret

theorem posPrev_eq (pos : List Nat) (n : Nat) (p : Int) (cur : Bool) :
    posPrev pos n p cur = match (List.range n).foldl (prevStep pos p cur) none with
      | some i => (pos.getD i 0 : Int) | none => -1 := rfl

theorem prevCond_none (pos : List Nat) (p : Int) (pi : Nat) :
    prevCond pos p true none pi = true ↔ (pi : Int) ≤ p := by simp [prevCond]

theorem prevCond_some (pos : List Nat) (p : Int) (r pi : Nat) :
    prevCond pos p true (some r) pi = true ↔ ((pi : Int) ≤ p ∧ pos.getD r 0 < pi) := by simp [prevCond]

/-- invariant of the arg-max fold of `pos_prev(.., cur = 1)` -/
theorem prev_inv (pos : List Nat) (p : Int) (k : Nat) (hk : k ≤ pos.length) :
    (∀ i, (List.range k).foldl (prevStep pos p true) none = some i → i < k ∧ (pos.getD i 0 : Int) ≤ p) ∧
    (∀ j, j < k → (pos.getD j 0 : Int) ≤ p →
      ∃ i, (List.range k).foldl (prevStep pos p true) none = some i ∧ pos.getD j 0 ≤ pos.getD i 0) := by
  induction k with
  | zero => simp
  | succ k ih =>
    obtain ⟨ih1, ih2⟩ := ih (by omega)
    rw [List.range_succ, List.foldl_append]
    simp only [List.foldl_cons, List.foldl_nil]
    have hkk : k < pos.length := by omega
    have hgd : pos.getD k 0 = pos[k] := by
      rw [List.getD_eq_getElem?_getD, List.getElem?_eq_getElem hkk]; rfl
    generalize hr : (List.range k).foldl (prevStep pos p true) none = r at ih1 ih2
    simp only [prevStep, List.getElem?_eq_getElem hkk]
    by_cases hc : prevCond pos p true r pos[k] = true
    · rw [if_pos hc]
      cases r with
      | none =>
        rw [prevCond_none] at hc
        constructor
        · intro i hi; cases hi; exact ⟨by omega, by rw [hgd]; exact hc⟩
        · intro j hj hjp
          by_cases hjk : j < k
          · obtain ⟨i, hi, _⟩ := ih2 j hjk hjp; cases hi
          · have : j = k := by omega
            subst this; exact ⟨j, rfl, Nat.le_refl _⟩
      | some r0 =>
        rw [prevCond_some] at hc
        constructor
        · intro i hi; cases hi; exact ⟨by omega, by rw [hgd]; exact hc.1⟩
        · intro j hj hjp
          by_cases hjk : j < k
          · obtain ⟨i, hi, hji⟩ := ih2 j hjk hjp
            cases hi
            exact ⟨k, rfl, by rw [hgd]; omega⟩
          · have : j = k := by omega
            subst this; exact ⟨j, rfl, Nat.le_refl _⟩
    · rw [if_neg hc]
      cases r with
      | none =>
        rw [prevCond_none] at hc
        constructor
        · intro i hi; cases hi
        · intro j hj hjp
          by_cases hjk : j < k
          · obtain ⟨i, hi, _⟩ := ih2 j hjk hjp; cases hi
          · have : j = k := by omega
            subst this; rw [hgd] at hjp; exact absurd hjp hc
      | some r0 =>
        rw [prevCond_some] at hc
        obtain ⟨hr0k, hr0p⟩ := ih1 r0 rfl
        constructor
        · intro i hi; cases hi; exact ⟨by omega, hr0p⟩
        · intro j hj hjp
          by_cases hjk : j < k
          · exact ih2 j hjk hjp
          · have : j = k := by omega
            subst this
            refine ⟨r0, rfl, ?_⟩
            rw [hgd] at hjp ⊢
            by_cases h2 : pos.getD r0 0 < pos[j]
            · exact absurd ⟨hjp, h2⟩ hc
            · omega

/-- `pos_prev(pos, n, pos[i], 1) = pos[i]` -/
theorem posPrev_self (pos : List Nat) (n i : Nat) (hn : n ≤ pos.length) (hi : i < n) :
    posPrev pos n (pos.getD i 0 : Int) true = (pos.getD i 0 : Int) := by
  rw [posPrev_eq]
  obtain ⟨h1, h2⟩ := prev_inv pos (pos.getD i 0 : Int) n hn
  obtain ⟨r, hr, hge⟩ := h2 i hi (Int.le_refl _)
  rw [hr]
  have := (h1 r hr).2
  simp only []
  omega

def offStep (pos : List Nat) (v : Int) (o : Option Nat) (j : Nat) : Option Nat :=
  if (pos.getD j 0 : Int) == v then some j else o

theorem off_fold (pos : List Nat) (v : Int) (n i : Nat) (hi : i < n)
    (huniq : ∀ j, j < n → ((pos.getD j 0 : Int) = v ↔ j = i)) :
    ∀ k, k ≤ n → (List.range k).foldl (offStep pos v) none = if i < k then some i else none := by
  intro k
  induction k with
  | zero => intro _; simp
  | succ k ih =>
    intro hk
    rw [List.range_succ, List.foldl_append, ih (by omega)]
    simp only [List.foldl_cons, List.foldl_nil, offStep]
    by_cases hki : k = i
    · subst hki
      have := (huniq k (by omega)).mpr rfl
      have hb : ((pos.getD k 0 : Int) == v) = true := by simpa using this
      simp only [hb, if_true]
      simp
    · have : ¬ ((pos.getD k 0 : Int) = v) := fun h => hki ((huniq k (by omega)).mp h)
      have hb : ((pos.getD k 0 : Int) == v) = false := by simpa using this
      simp only [hb, Bool.false_eq_true, if_false]
      by_cases h1 : i < k
      · simp [h1, show i < k + 1 by omega]
      · simp [h1, show ¬ i < k + 1 by omega]

theorem renOffT_eq (pos : List Nat) (n : Nat) (p : Int) :
    renOffT pos n p = ((List.range n).foldl (offStep pos (posPrev pos n p true)) none).getD 0 := rfl

end Neatvi.Ren
