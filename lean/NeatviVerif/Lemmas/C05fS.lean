import NeatviVerif.Lemmas.C05fR
import NeatviVerif.Props.C05c
/-!
# C05f, part S: one iteration of the loop of `vi()` and the runs of the editor
-/
set_option linter.unusedSimpArgs false
set_option linter.unusedVariables false
namespace Neatvi.Lemmas.C05f
open Neatvi Neatvi.Uc Neatvi.Lbuf Neatvi.Ex Neatvi.Mot Neatvi.Vi Neatvi.Rset
open Neatvi.Lemmas.C05b (CountsFit)

/-- the cursor rests inside the buffer -/
def CursorOk (s : VS) : Prop := RowOk s ∧ s.ed.xoff ≤ slenAt (lines s) s.ed.xrow

/-- **the invariant of the vi loop**, at the start of every iteration: the current buffer exists; its lines
    end in their newline, have no other newline and no NUL; the undo history is consistent and no command is in
    progress; no register holds a NUL; the cursor is on a row of the buffer (row 0 of an empty one) and not
    beyond its line; the two counts are within `[0, 999999999]` -/
structure ViOk (s : VS) : Prop where
  sok : SOk s True
  cur : CursorOk s
  fit : CountsFit s

/-- the row `vi_wfix()` settles on -/
def wfixRow (s : VS) : Int :=
  if s.ed.xrow < 0 || s.ed.xrow ≥ lenOf s then (if lenOf s != 0 then lenOf s - 1 else 0) else s.ed.xrow

/-- the top of the window `vi_wfix()` settles on -/
def wfixTop (s : VS) : Int :=
  let xrow := wfixRow s
  let xrows := s.xrows
  let xtop := s.ed.xtop
  let xtop := if xtop > xrow then (if xtop - xrows / 2 > xrow then max 0 (xrow - xrows / 2) else xrow) else xtop
  if xtop + xrows ≤ xrow then (if xtop + xrows + xrows / 2 ≤ xrow then xrow - xrows / 2 else xrow - xrows + 1) else xtop

/-- the offset `vi_wfix()` settles on -/
def wfixOff (s : VS) : Int := Ren.renNoeol ((lineOf s (wfixRow s)).getD []) s.ed.xoff

/-- `vi_wfix()` in closed form (as in `Props/C07.lean`) -/
theorem viWfix_eq (s : VS) :
    viWfix s = Res.ok () { s with ed := { s.ed with xrow := wfixRow s, xtop := wfixTop s, xoff := wfixOff s } } := by
  have h : (match lineOf s (wfixRow s) with
      | some l => Ren.renNoeol l s.ed.xoff | none => Ren.renNoeol [] s.ed.xoff) = wfixOff s := by
    unfold wfixOff; cases lineOf s (wfixRow s) <;> rfl
  rw [← h]
  rfl

/-- **`vi_wfix()`** puts the cursor back into the buffer, from any position -/
theorem wp_viWfix {s : VS} {c : Prop} (hs : SOk s c) (Q : Unit → VS → Prop)
    (hQ : ∀ s', SOk s' c → CursorOk s' → s'.ed.xquit = s.ed.xquit → Q () s') : wp viWfix Q s := by
  unfold wp
  rw [viWfix_eq]
  have hlen0 : 0 ≤ lenOf s := by unfold lenOf; omega
  have hr0 : 0 ≤ wfixRow s ∧ (lenOf s ≠ 0 → wfixRow s < lenOf s) := by
    unfold wfixRow
    split
    · split
      · rename_i h2; simp at h2; omega
      · rename_i h2; simp at h2; omega
    · rename_i h1
      simp only [Bool.or_eq_true, decide_eq_true_eq, not_or] at h1
      omega
  refine hQ _ (hs.congr rfl rfl) ⟨⟨hr0.1, fun hl => hr0.2 hl⟩, ?_⟩ rfl
  show wfixOff s ≤ slenAt (lines s) (wfixRow s)
  unfold wfixOff
  rw [slenAt_eq]
  exact renNoeol_le_slen _ _

theorem cursorOk_congr {s s' : VS} (h : CursorOk s) (h1 : s'.ed.xrow = s.ed.xrow) (h2 : s'.ed.xoff = s.ed.xoff)
    (h3 : lines s' = lines s) : CursorOk s' := by
  unfold CursorOk RowOk lenOf at *
  rw [h1, h2, h3]; exact h

theorem lines_modEd {s : VS} {c : Prop} (hs : SOk s c) : lines ({ s with ed := modEd s.ed } : VS) = lines s := by
  obtain ⟨lb, hlb, _⟩ := hs.1.lb s.ed rfl
  unfold Vi.lines modEd
  dsimp only
  rw [hlb]
  dsimp only
  rw [setLb_lb hs.1]
  rfl

theorem sok_modEd {s : VS} {c : Prop} (hs : SOk s c) : SOk ({ s with ed := modEd s.ed } : VS) True :=
  ⟨bufsOk_modified hs.1, by show RegsOk (modEd s.ed).regs; rw [modEd_regs]; exact hs.2⟩

/-- **the end of an iteration** (`viPost`): window fix, sticky column, `lbuf_modified` -/
theorem wp_viPost (cont : Option Nat) {s : VS} (hs : CtPost cont s) (Q : Unit → VS → Prop)
    (hQ : ∀ s', (s'.ed.xquit = false → SOk s' True ∧ CursorOk s') → Q () s') : wp (viPost cont) Q s := by
  unfold viPost
  cases cont with
  | none =>
    refine (wp_pure _ _ _).mpr (hQ _ (fun hq => ?_))
    rcases hs with h | ⟨h1, h2, h3⟩
    · rw [h] at hq; cases hq
    · exact ⟨h1, h2, h3⟩
  | some mod =>
    have hs' : SOk s False := hs
    dsimp only
    wpn
    refine wp_viWfix hs' _ (fun s1 h1 c1 q1 => ?_)
    wpn
    wpif hq
    · exact (wp_pure _ _ _).mpr (hQ _ (fun h => by rw [hq] at h; cases h))
    -- the sticky column and the horizontal scroll: `ed.xleft` and `xcol` only
    have hend : ∀ s3 : VS, SOk s3 False → CursorOk s3 →
        wp (do lbufModified; lbufModified) Q ({ s3 with ed := { s3.ed with out := [] } } : VS) := by
      intro s3 h3 c3
      wpn
      refine hQ _ (fun _ => ?_)
      have ha : SOk ({ s3 with ed := { s3.ed with out := [] } } : VS) False := h3.congr rfl rfl
      have hb := sok_modEd ha
      have hc := sok_modEd hb
      refine ⟨hc, ?_⟩
      refine cursorOk_congr c3 ?_ ?_ ?_
      · show (modEd (modEd _)).xrow = _
        rw [modEd_xrow, modEd_xrow]
      · show (modEd (modEd _)).xoff = _
        rw [modEd_xoff, modEd_xoff]
      · exact (lines_modEd hb).trans ((lines_modEd ha).trans rfl)
    have key : ∀ s2 : VS, SOk s2 False → CursorOk s2 →
        wp viWait (fun _ s' => wp (do lbufModified; lbufModified) Q s') s2 := by
      intro s2 h2 c2
      unfold viWait
      wpn
      wpif hw
      · wpn
        refine wp_ledLine _ _ _ _ _ _ s2 h2.paste noNul_nil (by simp) _ (fun sb key ai s3 e3 _ _ _ => ?_)
        wpn
        exact hend s3 ((MvF.of_EdF e3).sok h2) (cursorOk_congr c2 e3.xrow e3.xoff e3.lines)
      · wpn
        exact hend s2 h2 c2
    wpif hmod
    · wpn
      wpif hx1
      · wpn
        wpif hx2
        · wpn; exact key _ (h1.congr rfl rfl) (cursorOk_congr c1 rfl rfl rfl)
        · wpn; exact key _ (h1.congr rfl rfl) (cursorOk_congr c1 rfl rfl rfl)
      · wpn
        wpif hx2
        · wpn; exact key _ (h1.congr rfl rfl) (cursorOk_congr c1 rfl rfl rfl)
        · wpn; exact key _ (h1.congr rfl rfl) (cursorOk_congr c1 rfl rfl rfl)
    · wpn
      wpif hx1
      · wpn
        wpif hx2
        · wpn; exact key _ (h1.congr rfl rfl) (cursorOk_congr c1 rfl rfl rfl)
        · wpn; exact key _ (h1.congr rfl rfl) (cursorOk_congr c1 rfl rfl rfl)
      · wpn
        wpif hx2
        · wpn; exact key _ (h1.congr rfl rfl) (cursorOk_congr c1 rfl rfl rfl)
        · wpn; exact key _ (h1.congr rfl rfl) (cursorOk_congr c1 rfl rfl rfl)

/-- **the cursor update after a motion** (`motionTail`) -/
theorem wp_motionTail (mv nrow noff : Int) {s : VS} {c : Prop} (hs : SOk s c) (Q : Option Nat → VS → Prop)
    (hQ : ∀ r s', CtPost r s' → Q r s') : wp (motionTail mv nrow noff) Q s := by
  unfold motionTail
  have hms : ∀ st : VS, SOk st c → ∀ Q' : Unit → VS → Prop, (∀ s', SOk s' c → Q' () s') → wp markSave Q' st := by
    intro st hst Q' hQ'
    unfold markSave
    wpn
    refine (wp_markSet _ _ _ _ _).mpr ?_
    refine (wp_markSet _ _ _ _ _).mpr ?_
    have h1 : SOk ({ st with ed := markEd st.ed 39 st.ed.xrow st.ed.xoff } : VS) c :=
      ⟨bufsOk_markSet hst.1 _ _ _, by show RegsOk (markEd _ _ _ _).regs; rw [markEd_regs]; exact hst.2⟩
    exact hQ' _ ⟨bufsOk_markSet h1.1 _ _ _, by show RegsOk (markEd _ _ _ _).regs; rw [markEd_regs]; exact h1.2⟩
  have hrest : ∀ st : VS, SOk st c →
      wp (do
        setRow nrow
        let s ← get
        let jk := mv == 106 || mv == 107
        let noff := if noff < 0 && !jk then indents (lines s) nrow else noff
        let noff := if jk then col2off s nrow s.xcol else noff
        let xoff := noeol s nrow noff
        setOff xoff
        if !(jk || mv == 124) then modify fun s => { s with xcol := off2col s nrow xoff }
        if mv == 124 then modify fun s => { s with xcol := s.pcol }
        pure (some 0)) Q st := by
    intro st hst
    wpn
    wpif h1
    · wpn
      wpif h2
      · wpn; exact hQ _ _ (show SOk _ False from (hst.congr rfl rfl).weaken)
      · wpn; exact hQ _ _ (show SOk _ False from (hst.congr rfl rfl).weaken)
    · wpn
      wpif h2
      · wpn; exact hQ _ _ (show SOk _ False from (hst.congr rfl rfl).weaken)
      · wpn; exact hQ _ _ (show SOk _ False from (hst.congr rfl rfl).weaken)
  dsimp only
  wpif hm
  · wp1
    exact hms s hs _ (fun s' h' => hrest s' h')
  · exact hrest s hs

/-- **the prefixes and the motion of an iteration** (`viPre`) -/
theorem wp_viPre {s : VS} {c : Prop} (hs : SOk s c) (hc : CursorOk s) (hmk : MarksIn s) (hsl : SearchOk s)
    (Q : Int × Int × Int → VS → Prop)
    (hQ : ∀ mv r o s', MvF s s' → (mv = 0 → s'.ed = s.ed ∧ allQ s' <:+ allQ s) → Q (mv, r, o) s') :
    wp viPre Q s := by
  unfold viPre
  wpn
  refine wp_viYankbuf _ _ (fun yb s1 p1 => ?_)
  wpn
  refine wp_viPrefix _ _ (fun a1 s2 p2 => ?_)
  wpn
  have p0 : PfxPost s ({ s with icmd := [], arg2 := 0 } : VS) := ⟨rfl, List.suffix_refl _⟩
  have p12 : PfxPost s ({ s2 with arg1 := a1 } : VS) := p0.trans (p1.trans ⟨p2.1, p2.2⟩)
  have hmot : ∀ st : VS, PfxPost s st →
      wp (viMotion s.ed.xrow (noeol s s.ed.xrow s.ed.xoff)) Q st := by
    intro st pst
    have hl : lines st = lines s := by unfold Vi.lines; rw [pst.1]
    have hst : SOk st c := hs.congr (by rw [pst.1]) (by rw [pst.1])
    refine wp_viMotion _ _ st hst ((curOk_noeol hs hc.1 _).of_lines hl) (hmk.of_lb (by rw [pst.1])) (hsl.pfx pst) Q
      (fun mv r o s' m p hz => hQ mv r o s' ((MvF.of_ed pst.1).trans m) (fun h0 => ?_))
    obtain ⟨a, b⟩ := hz h0
    exact ⟨a.trans pst.1, b.trans pst.2⟩
  wpif hyb
  · wpn
    refine wp_viYankbuf _ _ (fun yb2 s3 p3 => ?_)
    wpn
    exact hmot _ (p12.trans ⟨p3.1, p3.2⟩)
  · wpn
    exact hmot _ p12

/-- **one iteration of the loop of `vi()`**: no trap; if the editor is not quitting afterwards, the invariant
    of the buffers, the registers and the cursor holds again -/
theorem wp_viStep {s : VS} (hs : SOk s True) (hc : CursorOk s)
    (hm1 : MarksIn s) (hm2 : MarksIn (markCaret s)) (hsl : SearchOk s) (hcol : ColonOk s) :
    wp viStep (fun _ s' => s'.ed.xquit = false → SOk s' True ∧ CursorOk s') s := by
  unfold viStep
  wp1
  refine wp_viPre hs hc hm1 hsl _ (fun mv nrow noff s1 m1 hz => ?_)
  wp1
  have hpost : ∀ (r : Option Nat) (s2 : VS), CtPost r s2 →
      wp (viPost r) (fun _ s' => s'.ed.xquit = false → SOk s' True ∧ CursorOk s') s2 :=
    fun r s2 h2 => wp_viPost r h2 _ (fun s' h => h)
  have hs1 : SOk s1 True := m1.sok hs
  wpif hpos
  · exact wp_motionTail _ _ _ hs1 _ hpost
  wpif h0
  · have hmv : mv = 0 := by simpa using h0
    obtain ⟨he, hq⟩ := hz hmv
    have hl : lines s1 = lines s := m1.lines
    refine wp_commandTail hs1 (rowOk_congr hc.1 m1.2.1 hl) ?_ ?_ ?_ (hcol.mono he hq) _ hpost
    · rw [hl, m1.2.1, m1.2.2.1]; exact hc.2
    · refine hm2.of_lb ?_
      unfold markCaret
      rw [he]
    · exact hsl.mono hq hl (by rw [he]) (by rw [he])
  · refine (wp_pure _ _ _).mpr (hpost _ _ (show SOk s1 False from hs1.weaken))

end Neatvi.Lemmas.C05f
