import NeatviVerif.Lemmas.C07bFlat
/-!
# C07b: `lbuf_paragraphbeg` against `paraFwd` / `paraBack`

Only the shape of the lines matters here (text followed by a newline), not that the text is ASCII.
-/
set_option linter.unusedSimpArgs false
set_option linter.unusedVariables false
namespace Neatvi.Lemmas.C07b
open Neatvi Neatvi.Uc Neatvi.Mot Neatvi.Lemmas.C07 Neatvi.Spec.Motion

theorem find_congr' {l : List Nat} {p q : Nat → Bool} (h : ∀ x ∈ l, p x = q x) : l.find? p = l.find? q := by
  induction l with
  | nil => rfl
  | cons a t ih =>
    rw [List.find?_cons, List.find?_cons, h a (by simp), ih (fun x hx => h x (by simp [hx]))]

/-- the test of `lbuf_paragraphbeg` on a line of the buffer -/
theorem isBlank_rep (b : Buf) (rn : Nat) (hr : rn < b.length) :
    (lineAt (lsOf b) (rn : Int) == some [10]) = isEmptyLine b rn := by
  rw [lineAt_rep b rn hr]
  unfold isEmptyLine rowOf
  rw [List.getD_eq_getElem?_getD, List.getElem?_eq_getElem hr]
  simp only [Option.getD_some]
  cases b[rn] with
  | nil => rfl
  | cons a t =>
    rw [Bool.eq_iff_iff]
    simp

/-! ### forward -/
def fromFind (n : Nat) (p : Nat → Bool) (r : Nat) : Nat :=
  ((List.range n).find? (fun j => decide (j ≥ r) && p j)).getD n

theorem fromFind_hit (n : Nat) (p : Nat → Bool) (r : Nat) (hr : r < n) (hp : p r = true) : fromFind n p r = r := by
  unfold fromFind
  rw [range_find_first n r _ hr (by simp [hp]) (fun j hj => by simp; omega)]
  rfl

theorem fromFind_skip (n : Nat) (p : Nat → Bool) (r : Nat) (hp : p r = false) :
    fromFind n p r = fromFind n p (r + 1) := by
  unfold fromFind
  congr 1
  apply find_congr'
  intro x _
  by_cases hx : x = r
  · subst hx; simp [hp]
  · have : decide (x ≥ r) = decide (x ≥ r + 1) := by
      rw [decide_eq_decide]; omega
    rw [this]

theorem fromFind_end (n : Nat) (p : Nat → Bool) (r : Nat) (hr : n ≤ r) : fromFind n p r = n := by
  unfold fromFind
  rw [List.find?_eq_none.mpr]
  · rfl
  · intro x hx
    simp only [List.mem_range] at hx
    simp; omega

theorem skip_fwd (b : Buf) (blank : Bool) :
    ∀ f (r : Nat), r ≤ b.length → b.length < r + f →
      paragraphbeg.skip 1 ((lsOf b).length : Int) (fun r => lineAt (lsOf b) r == some [10]) f (r : Int) blank =
        ((fromFind b.length (fun j => isEmptyLine b j != blank) r : Nat) : Int) := by
  have hlen : (lsOf b).length = b.length := by simp [lsOf]
  intro f
  induction f with
  | zero => intro r h1 h2; omega
  | succ f ih =>
    intro r h1 h2
    unfold paragraphbeg.skip
    by_cases hr : r < b.length
    · rw [isBlank_rep b r hr]
      by_cases hb : (isEmptyLine b r == blank) = true
      · rw [if_pos (by simp [hlen, hr, hb])]
        rw [show ((r : Int) + 1) = ((r + 1 : Nat) : Int) by omega, ih (r + 1) (by omega) (by omega)]
        rw [fromFind_skip _ _ r (by simp at hb; simp [hb])]
      · rw [if_neg (by simp [hb])]
        rw [fromFind_hit _ _ r hr (by simp at hb; simp [hb])]
    · rw [if_neg (by simp [hlen]; omega)]
      rw [fromFind_end _ _ r (by omega)]
      omega

theorem paragraphbeg_fwd (b : Buf) (r : Nat) (hr : r ≤ b.length) :
    paragraphbeg (lsOf b) 1 (r : Int) = (((paraFwd b r : Nat) : Int), 0) := by
  have hlen : (lsOf b).length = b.length := by simp [lsOf]
  unfold paragraphbeg
  simp only []
  rw [skip_fwd b true _ r hr (by omega)]
  have h1 : fromFind b.length (fun j => isEmptyLine b j != true) r ≤ b.length := by
    unfold fromFind
    cases h : (List.range b.length).find? (fun j => decide (j ≥ r) && (isEmptyLine b j != true)) with
    | none => exact Nat.le_refl _
    | some x =>
      have := List.mem_of_find?_eq_some h
      simp only [List.mem_range] at this
      simp; omega
  rw [skip_fwd b false _ _ h1 (by omega)]
  unfold paraFwd fromFind
  simp only []
  have e1 : (fun j => decide (j ≥ r) && (isEmptyLine b j != true)) = (fun j => decide (j ≥ r) && !isEmptyLine b j) := by
    funext j; cases isEmptyLine b j <;> rfl
  rw [e1]
  generalize ((List.range b.length).find? (fun j => decide (j ≥ r) && !isEmptyLine b j)).getD b.length = r1
  have e2 : (fun j => decide (j ≥ r1) && (isEmptyLine b j != false)) = (fun j => decide (j ≥ r1) && isEmptyLine b j) := by
    funext j; cases isEmptyLine b j <;> rfl
  rw [e2, hlen]
  generalize ((List.range b.length).find? (fun j => decide (j ≥ r1) && isEmptyLine b j)).getD b.length = r2
  congr 1
  omega

/-! ### backward -/
theorem skip_neg (dir n : Int) (p : Int → Bool) (f : Nat) (r : Int) (blank : Bool) (h : r < 0) :
    paragraphbeg.skip dir n p f r blank = r := by
  cases f with
  | zero => rfl
  | succ f =>
    unfold paragraphbeg.skip
    rw [if_neg (by simp; omega)]

def backFind (p : Nat → Bool) (r : Nat) : Option Nat := (List.range (r + 1)).reverse.find? p

theorem skip_bwd (b : Buf) (blank : Bool) :
    ∀ f (r : Nat), r < b.length → r < f →
      paragraphbeg.skip (-1) ((lsOf b).length : Int) (fun r => lineAt (lsOf b) r == some [10]) f (r : Int) blank =
        (match backFind (fun j => isEmptyLine b j != blank) r with
          | some j => (j : Int)
          | none => -1) := by
  have hlen : (lsOf b).length = b.length := by simp [lsOf]
  intro f
  induction f with
  | zero => intro r h1 h2; omega
  | succ f ih =>
    intro r h1 h2
    unfold paragraphbeg.skip backFind
    rw [List.range_succ, List.reverse_append]
    simp only [List.reverse_cons, List.reverse_nil, List.nil_append, List.cons_append, List.find?_cons]
    rw [isBlank_rep b r h1]
    by_cases hb : (isEmptyLine b r == blank) = true
    · rw [if_pos (by simp [hlen, h1, hb])]
      have hne : (isEmptyLine b r != blank) = false := by simp at hb; simp [hb]
      rw [hne]
      simp only []
      cases r with
      | zero =>
        rw [skip_neg _ _ _ _ _ _ (by omega)]
        simp
      | succ k =>
        rw [show (((k + 1 : Nat) : Int) + -1) = (k : Int) by omega, ih k (by omega) (by omega)]
        rfl
    · rw [if_neg (by simp [hb])]
      have hne : (isEmptyLine b r != blank) = true := by simp at hb; simp [hb]
      rw [hne]

theorem paragraphbeg_bwd (b : Buf) (r : Nat) (hr : r < b.length) :
    paragraphbeg (lsOf b) (-1) (r : Int) = (((paraBack b r : Nat) : Int), 0) := by
  have hlen : (lsOf b).length = b.length := by simp [lsOf]
  unfold paragraphbeg
  simp only []
  rw [skip_bwd b true _ r hr (by omega)]
  unfold paraBack backFind
  have e1 : (fun j => isEmptyLine b j != true) = (fun j => !isEmptyLine b j) := by
    funext j; cases isEmptyLine b j <;> rfl
  rw [e1]
  cases h1 : (List.range (r + 1)).reverse.find? (fun j => !isEmptyLine b j) with
  | none =>
    simp only []
    rw [skip_neg _ _ _ _ _ _ (by omega)]
    congr 1
    omega
  | some r1 =>
    simp only []
    have hr1 : r1 ≤ r := by
      have := List.mem_of_find?_eq_some h1
      simp only [List.mem_reverse, List.mem_range] at this
      omega
    rw [skip_bwd b false _ r1 (by omega) (by omega)]
    unfold backFind
    have e2 : (fun j => isEmptyLine b j != false) = (fun j => isEmptyLine b j) := by
      funext j; cases isEmptyLine b j <;> rfl
    rw [e2]
    cases h2 : (List.range (r1 + 1)).reverse.find? (fun j => isEmptyLine b j) with
    | none =>
      simp only []
      congr 1
      omega
    | some j =>
      simp only []
      have hj : j ≤ r1 := by
        have := List.mem_of_find?_eq_some h2
        simp only [List.mem_reverse, List.mem_range] at this
        omega
      congr 1
      omega

end Neatvi.Lemmas.C07b
