import NeatviVerif.Lemmas.C08fCore
/-!
# C08f: reading the motion key

`viRead s = Res.ok k s1` is the only assumption made about where the key comes from: the push-back
stack `vibuf` (as for `x` = SPC pushed back) or the terminal queue (`pending`).
-/
set_option linter.unusedSimpArgs false
namespace Neatvi.Lemmas.C08f
open Neatvi Neatvi.Uc Neatvi.Vi Neatvi.Ex Neatvi.Lbuf Neatvi.Mot Neatvi.Lemmas.C08 Neatvi.Lemmas.C09 Neatvi.Lemmas.C08b

/-- the key comes from the push-back stack -/
theorem viRead_vibuf (s : VS) (c : Int) (v : List Int) (h : s.vibuf = c :: v) :
    viRead s = Res.ok c { s with vibuf := v } := by
  unfold viRead; rw [h]

/-- the key comes from the terminal queue -/
theorem viRead_pending (s : VS) (k : Nat) (rest : Bytes) (hv : s.vibuf = []) (h : pending s = k :: rest) :
    viRead s = Res.ok (k : Int) (afterRead s) ∧ pending (afterRead s) = rest ∧ Reads false [k] s (afterRead s) := by
  have : viRead s = termRead s := by unfold viRead; rw [hv]
  rw [this]
  exact termRead_afterRead s k rest h

/-- what `vi_read` leaves alone: everything but the queues and `icmd` -/
structure KeyFrame (s s1 : VS) : Prop where
  ed : s1.ed = s.ed
  arg1 : s1.arg1 = s.arg1
  arg2 : s1.arg2 = s.arg2
  ybuf : s1.ybuf = s.ybuf
  charlast : s1.charlast = s.charlast
  charcmd : s1.charcmd = s.charcmd
  xkmap : s1.xkmap = s.xkmap
  xrows : s1.xrows = s.xrows

theorem viRead_frame (s s1 : VS) (c : Int) (h : viRead s = Res.ok c s1) : KeyFrame s s1 := by
  unfold viRead at h
  split at h
  · injection h with _ h; subst h; exact ⟨rfl, rfl, rfl, rfl, rfl, rfl, rfl, rfl⟩
  · have := termRead_frame s s1 c h
    exact ⟨this.1, this.2.2.2.1, this.2.2.2.2.1, this.2.2.2.2.2.1, this.2.2.2.2.2.2.1, this.2.2.2.2.2.2.2.1,
      this.2.2.2.2.2.2.2.2.2.2.2.2.2.2.2.2.2.2.1, this.2.2.2.2.2.2.2.2.2.2.2.2.2.2.2.1⟩

theorem KeyFrame.lines {s s1 : VS} (h : KeyFrame s s1) : lines s1 = lines s := by
  unfold Vi.lines; rw [h.ed]
theorem KeyFrame.lenOf {s s1 : VS} (h : KeyFrame s s1) : lenOf s1 = lenOf s := by
  unfold Vi.lenOf; rw [h.lines]
theorem KeyFrame.cntOf {s s1 : VS} (h : KeyFrame s s1) : cntOf s1 = cntOf s := by
  unfold Vi.cntOf; rw [h.arg1, h.arg2]

/-- pushing the key back and reading it again -/
theorem viRead_back (s1 : VS) (k : Int) : viRead { s1 with vibuf := k :: s1.vibuf } = Res.ok k s1 := rfl

/-- `vi_prefix()` when the next key is not a digit `1`..`9`: no count, the key is pushed back -/
theorem viPrefix_nondigit (s s1 : VS) (k : Int) (hk : viRead s = Res.ok k s1) (hd : ¬ (49 ≤ k ∧ k ≤ 57)) :
    viPrefix s = Res.ok 0 { s1 with vibuf := k :: s1.vibuf } := by
  unfold viPrefix
  simp only [bind_apply, hk]
  rw [if_neg (by simpa using hd)]
  rfl

/-! ### the second count -/

theorem KeyFrame.refl (s : VS) : KeyFrame s s := ⟨rfl, rfl, rfl, rfl, rfl, rfl, rfl, rfl⟩

theorem KeyFrame.trans {s s1 s2 : VS} (h1 : KeyFrame s s1) (h2 : KeyFrame s1 s2) : KeyFrame s s2 :=
  ⟨h2.ed.trans h1.ed, h2.arg1.trans h1.arg1, h2.arg2.trans h1.arg2, h2.ybuf.trans h1.ybuf,
    h2.charlast.trans h1.charlast, h2.charcmd.trans h1.charcmd, h2.xkmap.trans h1.xkmap, h2.xrows.trans h1.xrows⟩

theorem KeyFrame.symm {s s1 : VS} (h : KeyFrame s s1) : KeyFrame s1 s :=
  ⟨h.ed.symm, h.arg1.symm, h.arg2.symm, h.ybuf.symm, h.charlast.symm, h.charcmd.symm, h.xkmap.symm, h.xrows.symm⟩

theorem viBack_frame (c : Int) (s : VS) : ∃ sb, viBack c s = Res.ok () sb ∧ KeyFrame s sb ∧ viRead sb = Res.ok c s :=
  ⟨{ s with vibuf := c :: s.vibuf }, rfl, ⟨rfl, rfl, rfl, rfl, rfl, rfl, rfl, rfl⟩, rfl⟩

/-- the digit loop of `vi_prefix`: a non-negative count; only the key queues move; the key that ended the
number is pushed back -/
theorem digits_spec : ∀ (f : Nat) (n c : Int) (s sp : VS) (a : Int), 0 ≤ n →
    viPrefix.digits f n c s = Res.ok a sp → 0 ≤ a ∧ KeyFrame s sp ∧ ∃ k s1, viRead sp = Res.ok k s1 ∧ KeyFrame sp s1 := by
  intro f
  induction f with
  | zero =>
    intro n c s sp a hn h
    unfold viPrefix.digits at h
    simp only [bind_apply] at h
    obtain ⟨sb, e1, e2, e3⟩ := viBack_frame c s
    rw [e1] at h
    injection h with h1 h2
    subst h1; subst h2
    exact ⟨hn, e2, c, s, e3, e2.symm⟩
  | succ f ih =>
    intro n c s sp a hn h
    unfold viPrefix.digits at h
    split at h
    · rename_i hc
      simp only [bind_apply] at h
      cases hr : viRead s with
      | ok c' s' =>
        rw [hr] at h
        simp only [Bool.and_eq_true, decide_eq_true_eq] at hc
        obtain ⟨a1, a2, a3⟩ := ih _ c' s' sp a (by split <;> omega) h
        exact ⟨a1, (viRead_frame s s' c' hr).trans a2, a3⟩
      | eof => rw [hr] at h; cases h
      | trap => rw [hr] at h; cases h
    · simp only [bind_apply] at h
      obtain ⟨sb, e1, e2, e3⟩ := viBack_frame c s
      rw [e1] at h
      injection h with h1 h2
      subst h1; subst h2
      exact ⟨hn, e2, c, s, e3, e2.symm⟩

/-- **`vi_prefix()`**: the count is not negative, nothing but the key queues changes, and the next key to be
read is the one that ended the number (pushed back) -/
theorem viPrefix_spec (s sp : VS) (a : Int) (h : viPrefix s = Res.ok a sp) :
    0 ≤ a ∧ KeyFrame s sp ∧ ∃ k s1, viRead sp = Res.ok k s1 ∧ KeyFrame sp s1 := by
  unfold viPrefix at h
  simp only [bind_apply] at h
  cases hr : viRead s with
  | ok c s' =>
    rw [hr] at h
    simp only [] at h
    have hf := viRead_frame s s' c hr
    split at h
    · obtain ⟨a1, a2, a3⟩ := digits_spec 64 0 c s' sp a (by omega) h
      exact ⟨a1, hf.trans a2, a3⟩
    · simp only [bind_apply] at h
      obtain ⟨sb, e1, e2, e3⟩ := viBack_frame c s'
      rw [e1] at h
      injection h with h1 h2
      subst h1; subst h2
      exact ⟨by omega, hf.trans e2, c, s', e3, e2.symm⟩
  | eof => rw [hr] at h; cases h
  | trap => rw [hr] at h; cases h

/-- a one-digit count `d` (`1`..`9`) followed by a key that is not a digit -/
theorem viPrefix_digit (s s1 s2 : VS) (d k : Int) (hd : viRead s = Res.ok d s1) (h1 : 49 ≤ d) (h2 : d ≤ 57)
    (hk : viRead s1 = Res.ok k s2) (hnd : ¬ (48 ≤ k ∧ k ≤ 57)) :
    viPrefix s = Res.ok (d - 48) { s2 with vibuf := k :: s2.vibuf } := by
  unfold viPrefix
  simp only [bind_apply, hd]
  rw [if_pos (by simp; omega)]
  unfold viPrefix.digits
  rw [if_pos (by simp; omega)]
  simp only [bind_apply, hk]
  unfold viPrefix.digits
  rw [if_neg (by simpa using hnd)]
  simp only [bind_apply]
  show Res.ok _ _ = _
  congr 1
  rw [if_pos (by omega)]
  omega

theorem termRead_arg2 (s s1 : VS) (k a2 : Int) (h : termRead s = Res.ok k s1) :
    termRead { s with arg2 := a2 } = Res.ok k { s1 with arg2 := a2 } := by
  unfold termRead at h ⊢
  simp only [] at h ⊢
  by_cases hc : (decide (s.ibufPos ≥ s.ibuf.length) && s.typed.isEmpty) = true
  · rw [if_pos hc] at h; cases h
  · rw [if_neg hc] at h
    rw [if_neg hc]
    by_cases hn : s.ibufPos ≥ s.ibuf.length
    · simp only [hn, decide_true, if_true] at h ⊢
      injection h with h1 h2
      subst h1; subst h2
      rfl
    · simp only [hn, decide_false, Bool.false_eq_true, if_false] at h ⊢
      injection h with h1 h2
      subst h1; subst h2
      rfl

/-- `vi_read` does not look at `arg2` -/
theorem viRead_arg2 (s s1 : VS) (k a2 : Int) (h : viRead s = Res.ok k s1) :
    viRead { s with arg2 := a2 } = Res.ok k { s1 with arg2 := a2 } := by
  have hsh : s.vibuf = [] ∨ ∃ c r, s.vibuf = c :: r := by
    cases s.vibuf with
    | nil => exact Or.inl rfl
    | cons c r => exact Or.inr ⟨c, r, rfl⟩
  rcases hsh with hv | ⟨c, r, hv⟩
  · have e1 : viRead s = termRead s := by unfold viRead; rw [hv]
    have e2 : viRead { s with arg2 := a2 } = termRead { s with arg2 := a2 } := by
      unfold viRead
      have : ({ s with arg2 := a2 } : VS).vibuf = [] := hv
      rw [this]
    rw [e2]
    rw [e1] at h
    exact termRead_arg2 s s1 k a2 h
  · rw [viRead_vibuf s c r hv] at h
    injection h with h1 h2
    subst h1; subst h2
    rw [viRead_vibuf { s with arg2 := a2 } c r hv]

/-! ### `vi_motionln` -/

/-- the target row of the line motion `k` after the operator `cmd` from row `row` (before the clamp at
0), for the keys that read nothing further: `RET + - _ j k G H L M` and the doubled operator letter (a NUL key
at top level, `cmd = 0`, is not one) -/
def lnTarget (s : VS) (row cmd k : Int) : Option Int :=
  let cnt := cntOf s
  let n := lenOf s
  if k == 10 || k == 43 then some (min (row + cnt) (n - 1))
  else if k == 45 then some (max (row - cnt) 0)
  else if k == 95 then some (min (row + cnt - 1) (n - 1))
  else if k == 39 then none
  else if k == 106 then some (min (row + cnt) (n - 1))
  else if k == 107 then some (max (row - cnt) 0)
  else if k == 71 then some (if s.arg1 != 0 || s.arg2 != 0 then min (cnt - 1) (n - 1) else n - 1)
  else if k == 72 then some (min (s.ed.xtop + cnt - 1) (n - 1))
  else if k == 76 then some (min (s.ed.xtop + s.xrows - 1 - cnt + 1) (n - 1))
  else if k == 77 then some (min (s.ed.xtop + s.xrows / 2) (n - 1))
  else if cmd != 0 && k == cmd then some (min (row + cnt - 1) (n - 1))
  else none

/-- a line-motion key: `vi_motionln` returns the key and the target row -/
theorem viMotionln_line (row cmd : Int) (s s1 : VS) (k t : Int) (hk : viRead s = Res.ok k s1)
    (ht : lnTarget s row cmd k = some t) :
    viMotionln row cmd s = Res.ok (k, if t < 0 then 0 else t) s1 := by
  unfold viMotionln
  simp only [bind_apply, get_apply, hk]
  unfold lnTarget at ht
  simp only [] at ht
  by_cases h1 : (k == 10 || k == 43) = true
  · rw [if_pos h1] at ht ⊢; cases ht; rfl
  rw [if_neg h1] at ht ⊢
  by_cases h2 : (k == 45) = true
  · rw [if_pos h2] at ht ⊢; cases ht; rfl
  rw [if_neg h2] at ht ⊢
  by_cases h3 : (k == 95) = true
  · rw [if_pos h3] at ht ⊢; cases ht; rfl
  rw [if_neg h3] at ht ⊢
  by_cases h4 : (k == 39) = true
  · rw [if_pos h4] at ht; cases ht
  rw [if_neg h4] at ht ⊢
  by_cases h5 : (k == 106) = true
  · rw [if_pos h5] at ht ⊢; cases ht; rfl
  rw [if_neg h5] at ht ⊢
  by_cases h6 : (k == 107) = true
  · rw [if_pos h6] at ht ⊢; cases ht; rfl
  rw [if_neg h6] at ht ⊢
  by_cases h7 : (k == 71) = true
  · rw [if_pos h7] at ht ⊢; cases ht; rfl
  rw [if_neg h7] at ht ⊢
  by_cases h8 : (k == 72) = true
  · rw [if_pos h8] at ht ⊢; cases ht; rfl
  rw [if_neg h8] at ht ⊢
  by_cases h9 : (k == 76) = true
  · rw [if_pos h9] at ht ⊢; cases ht; rfl
  rw [if_neg h9] at ht ⊢
  by_cases h10 : (k == 77) = true
  · rw [if_pos h10] at ht ⊢; cases ht; rfl
  rw [if_neg h10] at ht ⊢
  by_cases h11 : (cmd != 0 && k == cmd) = true
  · rw [if_pos h11] at ht ⊢; cases ht; rfl
  rw [if_neg h11] at ht ⊢
  cases ht

/-- the keys `vi_motionln` looks at -/
def isLnKey (cmd k : Int) : Bool :=
  k == 10 || k == 43 || k == 45 || k == 95 || k == 39 || k == 106 || k == 107 || k == 71 || k == 72 || k == 76 ||
    k == 77 || k == cmd || k == 37

/-- any other key is pushed back: no line motion -/
theorem viMotionln_other (row cmd : Int) (s s1 : VS) (k : Int) (hk : viRead s = Res.ok k s1)
    (hn : isLnKey cmd k = false) :
    viMotionln row cmd s = Res.ok (0, row) { s1 with vibuf := k :: s1.vibuf } := by
  unfold isLnKey at hn
  simp only [Bool.or_eq_false_iff, beq_eq_false_iff_ne, ne_eq] at hn
  obtain ⟨⟨⟨⟨⟨⟨⟨⟨⟨⟨⟨⟨a1, a2⟩, a3⟩, a4⟩, a5⟩, a6⟩, a7⟩, a8⟩, a9⟩, a10⟩, a11⟩, a12⟩, a13⟩ := hn
  unfold viMotionln
  simp only [bind_apply, get_apply, hk]
  have c1 : ¬ ((k == 10 || k == 43) = true) := by simp [a1, a2]
  have c2 : ¬ ((k == 45) = true) := by simp [a3]
  have c3 : ¬ ((k == 95) = true) := by simp [a4]
  have c4 : ¬ ((k == 39) = true) := by simp [a5]
  have c5 : ¬ ((k == 106) = true) := by simp [a6]
  have c6 : ¬ ((k == 107) = true) := by simp [a7]
  have c7 : ¬ ((k == 71) = true) := by simp [a8]
  have c8 : ¬ ((k == 72) = true) := by simp [a9]
  have c9 : ¬ ((k == 76) = true) := by simp [a10]
  have c10 : ¬ ((k == 77) = true) := by simp [a11]
  have c11 : ¬ ((cmd != 0 && k == cmd) = true) := by simp [a12]
  have c12 : ¬ ((k == 37 && (s.arg1 != 0 || s.arg2 != 0)) = true) := by simp [a13]
  rw [if_neg c1, if_neg c2, if_neg c3, if_neg c4, if_neg c5, if_neg c6, if_neg c7, if_neg c8, if_neg c9,
    if_neg c10, if_neg c11, if_neg c12]
  rfl

end Neatvi.Lemmas.C08f
