import NeatviVerif.Lemmas.C05fL
/-!
# C05f, part M: the operators `y d c g~ gu gU > <` and `vc_motion`

Given a region inside the buffer (`0 ≤ r1 ≤ r2`, offsets at most the lengths of their lines) no operator traps,
and each keeps the buffer invariant.
-/
set_option linter.unusedSimpArgs false
set_option linter.unusedVariables false
namespace Neatvi.Lemmas.C05f
open Neatvi Neatvi.Uc Neatvi.Lbuf Neatvi.Ex Neatvi.Mot Neatvi.Vi Neatvi.Rset

theorem lineE_noNul {s : VS} {c : Prop} (hs : SOk s c) (r : Int) : NoNul (lineE s r) := by
  unfold lineE
  cases h : lineOf s r with
  | none => exact noNul_nil
  | some l =>
    simp only [Option.getD_some]
    refine (hs.linesOk l ?_).noNul
    unfold lineOf lineAt at h
    split at h
    · cases h
    · exact List.mem_of_getElem? h

theorem cp_noNul {s : VS} {c : Prop} (hs : SOk s c) (b e : Int) : NoNul (s.ed.cp b e) := by
  unfold Ed.cp
  obtain ⟨lb, h1, h2⟩ := hs.1.lb s.ed rfl
  rw [h1]
  unfold Lbuf.cp
  apply noNul_flatten
  intro x hx
  exact (h2.lines x (List.mem_of_mem_drop (List.mem_of_mem_take hx))).noNul

/-- `lbuf_region` of a region inside the buffer -/
theorem lbufRegion_some {s : VS} {c : Prop} (hs : SOk s c) (r1 o1 r2 o2 : Int)
    (h1 : o1 ≤ slenAt (lines s) r1) (h2 : o2 ≤ slenAt (lines s) r2) :
    ∃ x, lbufRegion s r1 o1 r2 o2 = some x ∧ NoNul x := by
  unfold lbufRegion
  rw [slenAt_eq] at h1 h2
  by_cases hr : (r1 == r2) = true
  · rw [if_pos hr]
    have : r1 = r2 := by simpa using hr
    subst this
    obtain ⟨x, hx, _⟩ := subI_some h1 h2
    exact ⟨x, hx, subI_noNul (lineE_noNul hs r1) hx⟩
  · rw [if_neg hr]
    obtain ⟨x1, hx1, _⟩ := subI_some (l := lineE s r1) h1 (e := -1) (by omega)
    obtain ⟨x3, hx3, _⟩ := subI_some (l := lineE s r2) (b := 0) (by omega) h2
    rw [hx1, hx3]
    exact ⟨_, rfl, noNul_append.mpr ⟨noNul_append.mpr ⟨subI_noNul (lineE_noNul hs r1) hx1, cp_noNul hs _ _⟩,
      subI_noNul (lineE_noNul hs r2) hx3⟩⟩

theorem BufsOk.weaken {bufs : List (Option Buf)} {c : Prop} (h : BufsOk bufs c) : BufsOk bufs False := by
  obtain ⟨b, h1, h2⟩ := h
  exact ⟨b, h1, h2.weaken⟩

theorem SOk.weaken {s : VS} {c : Prop} (h : SOk s c) : SOk s False := ⟨h.1.weaken, h.2⟩

/-- the state after an operator: the invariant, `xquit` as before -/
def OpPost (s s' : VS) : Prop := SOk s' False ∧ s'.ed.xquit = s.ed.xquit

/-- **`lbuf_edit`** on a state with the invariant -/
theorem wp_edEdit_sok {s : VS} {c : Prop} (hs : SOk s c) (txt : Option Bytes) (b e : Int) (h0 : 0 ≤ b) (hbe : b ≤ e)
    (ht : NoNulO txt) (Q : Unit → VS → Prop)
    (hQ : ∀ s', SOk s' False → s'.ed.xrow = s.ed.xrow → s'.ed.xoff = s.ed.xoff → s'.ed.xquit = s.ed.xquit →
      s'.xai = s.xai → Q () s') : wp (edEdit txt b e) Q s := by
  refine wp_edEdit hs.1 txt b e h0 hbe ht Q (fun lb lb' _ hh _ => ?_)
  refine hQ _ ⟨bufsOk_setLb hs.1 hh, ?_⟩ (by simp) (by simp) (by simp) rfl
  simp only [setLb_regs]
  exact hs.2

theorem sok_regPut {s : VS} {c : Prop} (hs : SOk s c) (k : Nat) {x : Bytes} (hx : NoNul x) (ln : Nat) :
    SOk { s with ed := { s.ed with regs := s.ed.regs.put k x ln } } c :=
  ⟨hs.1, regsOk_put hs.2 k hx ln⟩

/-- an update that leaves the buffer table and the registers alone -/
theorem SOk.congr {s s' : VS} {c : Prop} (hs : SOk s c) (h1 : s'.ed.bufs = s.ed.bufs) (h2 : s'.ed.regs = s.ed.regs) :
    SOk s' c := by
  unfold SOk; rw [h1, h2]; exact hs

/-- **`vi_yank`** -/
theorem wp_viYank {s : VS} {c : Prop} (hs : SOk s c) (r1 o1 r2 o2 : Int) (ln : Bool)
    (h1 : o1 ≤ slenAt (lines s) r1) (h2 : o2 ≤ slenAt (lines s) r2) (Q : Nat → VS → Prop)
    (hQ : ∀ a s', OpPost s s' → Q a s') : wp (viYank r1 o1 r2 o2 ln) Q s := by
  unfold viYank
  wpn
  obtain ⟨x, hx, hxn⟩ := lbufRegion_some hs r1 (if ln then 0 else o1) r2 (if ln then -1 else o2)
    (by split; exact slenAt_nonneg _ _; exact h1) (by split; have := slenAt_nonneg (lines s) r2; omega; exact h2)
  rw [hx]
  wpn
  exact hQ _ _ ⟨(sok_regPut hs s.ybuf hxn _).weaken, rfl⟩

/-- the two halves of a line around a region inside it -/
theorem subI_line_some {s : VS} {c : Prop} (hs : SOk s c) (r b e : Int) (hb : b ≤ slenAt (lines s) r)
    (he : e ≤ slenAt (lines s) r) : ∃ x, subI (lineE s r) b e = some x ∧ NoNul x := by
  rw [slenAt_eq] at hb he
  obtain ⟨x, hx, _⟩ := subI_some hb he
  exact ⟨x, hx, subI_noNul (lineE_noNul hs r) hx⟩

theorem lineE_regPut (s : VS) (k : Nat) (x : Bytes) (ln : Nat) (r : Int) :
    lineE { s with ed := { s.ed with regs := s.ed.regs.put k x ln } } r = lineE s r := rfl

/-- **`vi_delete`** -/
theorem wp_viDelete {s : VS} {c : Prop} (hs : SOk s c) (r1 o1 r2 o2 : Int) (ln : Bool) (hr1 : 0 ≤ r1) (hr : r1 ≤ r2)
    (h1 : o1 ≤ slenAt (lines s) r1) (h2 : o2 ≤ slenAt (lines s) r2) (Q : Nat → VS → Prop)
    (hQ : ∀ a s', OpPost s s' → Q a s') : wp (viDelete r1 o1 r2 o2 ln) Q s := by
  unfold viDelete
  wpn
  obtain ⟨x, hx, hxn⟩ := lbufRegion_some hs r1 (if ln then 0 else o1) r2 (if ln then -1 else o2)
    (by split; exact slenAt_nonneg _ _; exact h1) (by split; have := slenAt_nonneg (lines s) r2; omega; exact h2)
  rw [hx]
  wpn
  have hs1 := sok_regPut hs s.ybuf hxn (if ln = true then 1 else 0)
  have hfin : ∀ s2, SOk s2 False → s2.ed.xquit = s.ed.xquit →
      wp (do
        let s' ← get
        let row := if ln = true then min r1 (max 0 (lenOf s' - 1)) else r1
        setPos row (if ln = true then indents (lines s') row else o1)
        pure VC_OK) Q s2 := by
    intro s2 h2s hq
    wpn
    exact hQ _ _ ⟨h2s.congr rfl rfl, hq⟩
  wpif hln
  · wpn
    obtain ⟨pref, hp, hpn⟩ := subI_line_some hs r1 0 o1 (slenAt_nonneg _ _) h1
    obtain ⟨post, hq, hqn⟩ := subI_line_some hs r2 o2 (-1) h2 (by have := slenAt_nonneg (lines s) r2; omega)
    rw [hp]; wpn
    rw [hq]; wpn
    refine wp_edEdit_sok hs1 _ _ _ hr1 (by omega) (noNulO_some.mpr (noNul_append.mpr ⟨hpn, hqn⟩)) _
      (fun s2 h2s _ _ hxq _ => ?_)
    exact hfin s2 h2s hxq
  · wpn
    refine wp_edEdit_sok hs1 _ _ _ hr1 (by omega) noNulO_none _ (fun s2 h2s _ _ hxq _ => ?_)
    exact hfin s2 h2s hxq

theorem caseMap_noNul (cmd : Nat) : ∀ (f : Nat) (x : Bytes), NoNul x → NoNul (caseMap cmd f x) := by
  intro f
  induction f with
  | zero => intro x h; unfold caseMap; exact h
  | succ f ih =>
    intro x h
    unfold caseMap
    cases x with
    | nil => exact noNul_nil
    | cons c r =>
      obtain ⟨hc, hr⟩ := noNul_cons.mp h
      dsimp only
      refine noNul_append.mpr ⟨noNul_cons.mpr ⟨?_, ((h.drop 1).take _)⟩, ih _ (h.drop _)⟩
      unfold Vi.lowerB Vi.upperB
      splits
      all_goals (try simp only [Bool.and_eq_true, decide_eq_true_eq] at *) <;> omega

/-- **`vi_case`** (`g~ gu gU ~`) -/
theorem wp_viCase {s : VS} {c : Prop} (hs : SOk s c) (r1 o1 r2 o2 : Int) (ln : Bool) (cmd : Nat) (hr1 : 0 ≤ r1)
    (hr : r1 ≤ r2) (h1 : o1 ≤ slenAt (lines s) r1) (h2 : o2 ≤ slenAt (lines s) r2) (Q : Nat → VS → Prop)
    (hQ : ∀ a s', OpPost s s' → Q a s') : wp (viCase r1 o1 r2 o2 ln cmd) Q s := by
  unfold viCase
  wpn
  obtain ⟨x, hx, hxn⟩ := lbufRegion_some hs r1 (if ln then 0 else o1) r2 (if ln then -1 else o2)
    (by split; exact slenAt_nonneg _ _; exact h1) (by split; have := slenAt_nonneg (lines s) r2; omega; exact h2)
  rw [hx]
  wpn
  have hcm := caseMap_noNul cmd (x.length + 1) x hxn
  have hfin : ∀ s2, SOk s2 False → s2.ed.xquit = s.ed.xquit →
      wp (do
        let s' ← get
        setPos r2 (if ln = true then indents (lines s') r2 else o2)
        pure VC_OK) Q s2 := by
    intro s2 h2s hq
    wpn
    exact hQ _ _ ⟨h2s.congr rfl rfl, hq⟩
  wpif hln
  · wpn
    obtain ⟨pref, hp, hpn⟩ := subI_line_some hs r1 0 o1 (slenAt_nonneg _ _) h1
    obtain ⟨post, hq, hqn⟩ := subI_line_some hs r2 o2 (-1) h2 (by have := slenAt_nonneg (lines s) r2; omega)
    rw [hp]; wpn
    rw [hq]; wpn
    refine wp_edEdit_sok hs _ _ _ hr1 (by omega)
      (noNulO_some.mpr (noNul_append.mpr ⟨noNul_append.mpr ⟨hpn, hcm⟩, hqn⟩)) _ (fun s2 h2s _ _ hxq _ => ?_)
    exact hfin s2 h2s hxq
  · wpn
    refine wp_edEdit_sok hs _ _ _ hr1 (by omega) (noNulO_some.mpr hcm) _ (fun s2 h2s _ _ hxq _ => ?_)
    exact hfin s2 h2s hxq

theorem wp_viShift_go (r2 dir : Int) (s0 : VS) : ∀ (f : Nat) (i : Int) (s : VS) (Q : Unit → VS → Prop), 0 ≤ i →
    SOk s False → s.ed.xquit = s0.ed.xquit → (∀ s', SOk s' False → s'.ed.xquit = s0.ed.xquit → Q () s') →
    wp (viShift.go r2 dir f i) Q s := by
  intro f
  induction f with
  | zero => intro i s Q _ hs hq hQ; unfold viShift.go; exact (wp_pure _ _ _).mpr (hQ s hs hq)
  | succ f ih =>
    intro i s Q hi hs hq hQ
    unfold viShift.go
    wpif hc
    · exact (wp_pure _ _ _).mpr (hQ s hs hq)
    · wpn
      cases hl : lineOf s i with
      | none => exact ih _ s Q (by omega) hs hq hQ
      | some ln =>
        dsimp only
        wpn
        have hln : NoNul ln := by
          have := lineE_noNul hs i
          unfold lineE at this; rw [hl] at this; exact this
        refine wp_edEdit_sok hs _ _ _ hi (by omega) (noNulO_some.mpr ?_) _ (fun s2 h2s _ _ hxq _ => ?_)
        · splits
          all_goals first
            | exact hln
            | exact noNul_cons.mpr ⟨by decide, hln⟩
            | exact hln.drop 1
        · exact ih _ s2 Q (by omega) h2s (hxq.trans hq) hQ

/-- **`vi_shift`** (`>` `<`) -/
theorem wp_viShift {s : VS} {c : Prop} (hs : SOk s c) (r1 r2 dir : Int) (hr1 : 0 ≤ r1) (Q : Nat → VS → Prop)
    (hQ : ∀ a s', OpPost s s' → Q a s') : wp (viShift r1 r2 dir) Q s := by
  unfold viShift
  wpn
  refine wp_viShift_go r2 dir s _ r1 s _ hr1 hs.weaken rfl (fun s2 h2s hq => ?_)
  wpn
  exact hQ _ _ ⟨h2s.congr rfl rfl, hq⟩

theorem viIndents_noNul {s : VS} {c : Prop} (hs : SOk s c) (r : Int) : NoNul (viIndents s (lineOf s r)) := by
  unfold viIndents
  cases h : lineOf s r with
  | none => exact noNul_nil
  | some l =>
    dsimp only
    have : NoNul l := by
      have := lineE_noNul hs r
      unfold lineE at this; rw [h] at this; exact this
    split
    · exact this.takeWhile _
    · exact noNul_nil

theorem wp_drawfixTop (r1 : Int) (p : Bool) (s : VS) (Q : Unit → VS → Prop)
    (hQ : ∀ s', s'.ed.bufs = s.ed.bufs → s'.ed.regs = s.ed.regs → s'.ed.xrow = s.ed.xrow → s'.ed.xquit = s.ed.xquit →
      s'.xai = s.xai → Q () s') : wp (drawfixTop r1 p) Q s := by
  unfold drawfixTop
  wpn
  wpif h
  · wpn; exact hQ _ rfl rfl rfl rfl rfl
  · wpn; exact hQ _ rfl rfl rfl rfl rfl

/-- the common tail of `vi_change` -/
theorem wp_changeTail (r1 r2 : Int) (pref post : Bytes) (s0 s1 : VS) {c : Prop} (hs1 : SOk s1 c)
    (hq1 : s1.ed.xquit = s0.ed.xquit) (hr1 : 0 ≤ r1) (hr : r1 ≤ r2) (hpn : NoNul pref) (hqn : NoNul post)
    (Q : Nat → VS → Prop) (hQ : ∀ a s', OpPost s0 s' → Q a s') :
    wp (do
      drawfixTop r1 true
      let __x ← viInput pref post
      edEdit (some __x.fst) r1 (r2 + 1)
      setPos (r1 + __x.2.fst - 1) __x.2.snd
      pure VC_OK) Q s1 := by
  wpn
  refine wp_drawfixTop _ _ _ _ (fun s2 b2 g2 _ q2 _ => ?_)
  have hs2 : SOk s2 c := hs1.congr b2 g2
  wpn
  refine wp_viInput pref post s2 hs2.textOk hpn hqn _ (fun rep row off s3 f3 hrep _ => ?_)
  wpn
  refine wp_edEdit_sok (f3.sok hs2) _ _ _ hr1 (by omega) (noNulO_some.mpr hrep) _ (fun s4 h4 _ _ q4 _ => ?_)
  wpn
  refine hQ _ _ ⟨h4.congr rfl rfl, ?_⟩
  show s4.ed.xquit = _
  rw [q4, f3.2.2, q2]; exact hq1

/-- **`vi_change`** -/
theorem wp_viChange {s : VS} {c : Prop} (hs : SOk s c) (r1 o1 r2 o2 : Int) (ln : Bool) (hr1 : 0 ≤ r1) (hr : r1 ≤ r2)
    (h1 : o1 ≤ slenAt (lines s) r1) (h2 : o2 ≤ slenAt (lines s) r2) (Q : Nat → VS → Prop)
    (hQ : ∀ a s', OpPost s s' → Q a s') : wp (viChange r1 o1 r2 o2 ln) Q s := by
  unfold viChange
  wpn
  obtain ⟨x, hx, hxn⟩ := lbufRegion_some hs r1 (if ln then 0 else o1) r2 (if ln then -1 else o2)
    (by split; exact slenAt_nonneg _ _; exact h1) (by split; have := slenAt_nonneg (lines s) r2; omega; exact h2)
  rw [hx]
  wpn
  have hs1 := sok_regPut hs s.ybuf hxn (if ln = true then 1 else 0)
  have h10 : NoNul [10] := by simp [NoNul]
  wpif hln
  · wpn
    wpif hpo
    · wpn
      refine (wp_bind _ _ _ _).mp (wp_changeTail (c := c) r1 r2 _ _ s _ ?_ ?_ hr1 hr (viIndents_noNul hs r1) h10 Q hQ)
      · exact hs1.congr rfl rfl
      · rfl
    · wpn
      obtain ⟨post, hq, hqn⟩ := subI_line_some hs r2 o2 (-1) h2 (by have := slenAt_nonneg (lines s) r2; omega)
      rw [hq]; wpn
      refine (wp_bind _ _ _ _).mp (wp_changeTail (c := c) r1 r2 _ _ s _ ?_ ?_ hr1 hr (viIndents_noNul hs r1) hqn Q hQ)
      · exact hs1.congr rfl rfl
      · rfl
  · wpn
    obtain ⟨pref, hp, hpn⟩ := subI_line_some hs r1 0 o1 (slenAt_nonneg _ _) h1
    rw [hp]; wpn
    wpif hpo
    · wpn
      refine (wp_bind _ _ _ _).mp (wp_changeTail (c := c) r1 r2 _ _ s _ ?_ ?_ hr1 hr hpn h10 Q hQ)
      · exact hs1.congr rfl rfl
      · rfl
    · wpn
      obtain ⟨post, hq, hqn⟩ := subI_line_some hs r2 o2 (-1) h2 (by have := slenAt_nonneg (lines s) r2; omega)
      rw [hq]; wpn
      refine (wp_bind _ _ _ _).mp (wp_changeTail (c := c) r1 r2 _ _ s _ ?_ ?_ hr1 hr hpn hqn Q hQ)
      · exact hs1.congr rfl rfl
      · rfl

end Neatvi.Lemmas.C05f
