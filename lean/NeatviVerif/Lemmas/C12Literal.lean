import NeatviVerif.Lemmas.C12Simple
/-!
# C12 lemmas, part 2: the candidate loop of `rstr_find` (the literal fast path by itself)
-/
namespace Neatvi.C12
open Neatvi Neatvi.Uc Neatvi.Regex Neatvi.Rset

/-- the word-start test of the fast path at offset `r` -/
def WBegAt (s : Bytes) (r : Nat) : Prop :=
  (r = 0 ∨ isWordB (s.getD (r - 1) 0) = false) ∧ isWordB (s.getD r 0) = true

/-- the word-end test of the fast path at offset `e` (= `r + len`) -/
def WEndAt (s : Bytes) (e : Nat) : Prop :=
  e ≠ 0 ∧ isWordB (s.getD (e - 1) 0) = true ∧ (s.getD e 0 = 0 ∨ isWordB (s.getD e 0) = false)

instance (s : Bytes) (r : Nat) : Decidable (WBegAt s r) := by unfold WBegAt; exact inferInstance
instance (s : Bytes) (e : Nat) : Decidable (WEndAt s e) := by unfold WEndAt; exact inferInstance

/-- the tests the candidate loop performs at offset `r` (range excluded) -/
def Cand (rs : RStr) (lit s : Bytes) (r : Nat) : Prop :=
  matchCase (s.drop r) lit rs.icase = true ∧
  (rs.wbeg = true → WBegAt s r) ∧ (rs.wend = true → WEndAt s (r + lit.length))

instance (rs : RStr) (lit s : Bytes) (r : Nat) : Decidable (Cand rs lit s r) := by
  unfold Cand; exact inferInstance

/-- the candidate range of `rstr_find` -/
def InRange (rs : RStr) (lit s : Bytes) (flg : Nat) (r : Nat) : Prop :=
  r + lit.length + 1 ≤ s.length ∧
  (rs.lbeg = true → r = 0 ∧ flg &&& RE_NOTBOL = 0) ∧
  (rs.lend = true → r + lit.length + 1 = s.length)

instance (rs : RStr) (lit s : Bytes) (flg r : Nat) : Decidable (InRange rs lit s flg r) := by
  unfold InRange; exact inferInstance

/-- offset `r` is a match of the fast path -/
def FastMatch (rs : RStr) (lit s : Bytes) (flg : Nat) (r : Nat) : Prop :=
  InRange rs lit s flg r ∧ Cand rs lit s r

instance (rs : RStr) (lit s : Bytes) (flg r : Nat) : Decidable (FastMatch rs lit s flg r) := by
  unfold FastMatch; exact inferInstance

/-- `r` is the least number with property `P` -/
def IsLeast (P : Nat → Prop) (r : Nat) : Prop := P r ∧ ∀ r', r' < r → ¬ P r'

theorem IsLeast.unique {P : Nat → Prop} {a b : Nat} (ha : IsLeast P a) (hb : IsLeast P b) : a = b := by
  rcases Nat.lt_trichotomy a b with h | h | h
  · exact absurd ha.1 (hb.2 a h)
  · exact h
  · exact absurd hb.1 (ha.2 b h)

/-- the groups written by the fast path -/
def fastGroups (n r len : Nat) : List Int :=
  (if n ≥ 1 then [(r : Int), ((r + len : Nat) : Int)] else []) ++ List.replicate (2 * (n - 1)) (-1)

theorem cand_iff (rs : RStr) (lit s : Bytes) (ri : Nat) :
    Cand rs lit s ri ↔
      ((rs.wbeg && ((decide (ri > 0) && isWordB (s.getD (ri - 1) 0)) || !isWordB (s.getD ri 0))) = false ∧
       (rs.wend && (decide (ri + lit.length = 0) || !isWordB (s.getD (ri + lit.length - 1) 0) ||
          (s.getD (ri + lit.length) 0 != 0 && isWordB (s.getD (ri + lit.length) 0)))) = false ∧
       matchCase (s.drop ri) lit rs.icase = true) := by
  unfold Cand WBegAt WEndAt
  generalize rs.wbeg = wb
  generalize rs.wend = we
  generalize matchCase (s.drop ri) lit rs.icase = m
  generalize isWordB (s.getD (ri - 1) 0) = w1
  generalize isWordB (s.getD ri 0) = w2
  generalize isWordB (s.getD (ri + lit.length - 1) 0) = w3
  generalize isWordB (s.getD (ri + lit.length) 0) = w4
  by_cases h0 : ri = 0 <;> by_cases h1 : ri + lit.length = 0 <;>
    by_cases h2 : s.getD (ri + lit.length) 0 = 0 <;>
    cases wb <;> cases we <;> cases m <;> cases w1 <;> cases w2 <;> cases w3 <;> cases w4 <;>
    simp [h0, h1] <;> omega

theorem literalLoop_succ (rs : RStr) (lit s : Bytes) (f : Nat) (r e : Int) :
    literalLoop rs lit s (f + 1) r e =
      if r > e then some none
      else if Cand rs lit s r.toNat then some (some r.toNat)
      else literalLoop rs lit s f (r + 1) e := by
  rw [literalLoop]
  by_cases hre : r > e
  · simp [hre]
  · simp only [hre, if_false]
    by_cases hc : Cand rs lit s r.toNat
    · rw [if_pos hc]
      obtain ⟨h1, h2, h3⟩ := (cand_iff rs lit s r.toNat).mp hc
      simp only [h1, h2, h3, Bool.false_eq_true, if_false, if_true]
    · rw [if_neg hc]
      have hn := (not_congr (cand_iff rs lit s r.toNat)).mp hc
      cases h1 : (rs.wbeg && ((decide (r.toNat > 0) && isWordB (s.getD (r.toNat - 1) 0)) || !isWordB (s.getD r.toNat 0)))
      · cases h2 : (rs.wend && (decide (r.toNat + lit.length = 0) || !isWordB (s.getD (r.toNat + lit.length - 1) 0) ||
          (s.getD (r.toNat + lit.length) 0 != 0 && isWordB (s.getD (r.toNat + lit.length) 0))))
        · cases h3 : matchCase (s.drop r.toNat) lit rs.icase
          · simp
          · exact absurd ⟨h1, h2, h3⟩ hn
        · simp
      · simp

/-- the candidate loop returns the least candidate in `[b, e]` -/
theorem literalLoop_spec (rs : RStr) (lit s : Bytes) :
    ∀ (f b : Nat) (e : Int), e + 1 - b < f →
      (∃ r, literalLoop rs lit s f (b : Int) e = some (some r) ∧ b ≤ r ∧ (r : Int) ≤ e ∧
          Cand rs lit s r ∧ ∀ r', b ≤ r' → r' < r → ¬ Cand rs lit s r') ∨
      (literalLoop rs lit s f (b : Int) e = some none ∧
          ∀ r', b ≤ r' → (r' : Int) ≤ e → ¬ Cand rs lit s r') := by
  intro f
  induction f with
  | zero =>
    intro b e h
    right
    refine ⟨by simp [literalLoop], ?_⟩
    intro r' h1 h2; omega
  | succ f ih =>
    intro b e h
    rw [literalLoop_succ]
    by_cases hbe : (b : Int) > e
    · right
      simp only [hbe, if_true, true_and]
      intro r' h1 h2; omega
    · simp only [hbe, if_false, Int.toNat_natCast]
      by_cases hc : Cand rs lit s b
      · left
        refine ⟨b, by simp [hc], Nat.le_refl _, by omega, hc, ?_⟩
        intro r' h1 h2; omega
      · simp only [hc, if_false]
        have := ih (b + 1) e (by omega)
        rw [show ((b + 1 : Nat) : Int) = (b : Int) + 1 by omega] at this
        rcases this with ⟨r, h1, h2, h3, h4, h5⟩ | ⟨h1, h2⟩
        · left
          refine ⟨r, h1, by omega, h3, h4, ?_⟩
          intro r' h6 h7
          by_cases h8 : r' = b
          · subst h8; exact hc
          · exact h5 r' (by omega) h7
        · right
          refine ⟨h1, ?_⟩
          intro r' h6 h7
          by_cases h8 : r' = b
          · subst h8; exact hc
          · exact h2 r' (by omega) h7

/-- **Specification of the fast path by itself**: `rstr_find` on a literal pattern returns the least
    offset in the candidate range at which the literal compares equal and the word tests hold,
    and `-1` when there is none. -/
theorem rstrFind_literal (rs : RStr) (lit s : Bytes) (hrs : rs.rs = none) (hstr : rs.str = some lit)
    (n flg nd ng : Nat) :
    (∃ r, IsLeast (FastMatch rs lit s flg) r ∧
        rstrFind rs s n flg nd ng = some (0, fastGroups n r lit.length, 0)) ∨
    ((∀ r, ¬ FastMatch rs lit s flg r) ∧ rstrFind rs s n flg nd ng = some (-1, [], 0)) := by
  unfold rstrFind
  simp only [hrs, hstr, Option.getD_some]
  by_cases h1 : (rs.lbeg && flg &&& RE_NOTBOL != 0) = true
  · right
    simp only [h1, if_true, and_true]
    intro r hr
    simp only [Bool.and_eq_true, bne_iff_ne, ne_eq] at h1
    exact h1.2 (hr.1.2.1 h1.1).2
  · simp only [h1]
    simp only [Bool.and_eq_true, bne_iff_ne, ne_eq, not_and, Decidable.not_not] at h1
    by_cases h2 : ((s.length : Int) - lit.length - 1) < 0
    · right
      simp only [Bool.false_eq_true, if_false, h2, if_true, and_true]
      intro r hr
      have := hr.1.1
      omega
    · simp only [Bool.false_eq_true, if_false, h2]
      -- e = s.length - len - 1 ≥ 0
      obtain ⟨E, hE⟩ : ∃ E : Nat, (E : Int) = (s.length : Int) - lit.length - 1 := ⟨(s.length - lit.length - 1), by omega⟩
      rw [← hE]
      have hEl : E + lit.length + 1 = s.length := by omega
      have key := literalLoop_spec rs lit s (s.length + 2) (if rs.lend then E else 0)
        (if rs.lbeg then 0 else (E : Int)) (by split <;> split <;> omega)
      have hb : ((if rs.lend = true then E else 0 : Nat) : Int) = (if rs.lend = true then (E : Int) else 0) := by
        split <;> simp
      rw [hb] at key
      rcases key with ⟨r, k1, k2, k3, k4, k5⟩ | ⟨k1, k2⟩
      · left
        refine ⟨r, ⟨⟨⟨?_, ?_, ?_⟩, k4⟩, ?_⟩, ?_⟩
        · cases hl : rs.lbeg <;> simp [hl] at k3 <;> omega
        · intro hl; simp only [hl, if_true] at k3
          exact ⟨by omega, h1 hl⟩
        · intro hl; simp only [hl, if_true] at k2
          cases hl2 : rs.lbeg <;> simp [hl2] at k3 <;> omega
        · intro r' hlt hfm
          refine k5 r' ?_ hlt hfm.2
          cases hl : rs.lend
          · simp
          · simp only [if_true]
            have := hfm.1.2.2 hl
            omega
        · rw [k1]; simp [fastGroups]
      · right
        refine ⟨?_, by rw [k1]⟩
        intro r hfm
        refine k2 r ?_ ?_ hfm.2
        · cases hl : rs.lend
          · simp
          · simp only [if_true]
            have := hfm.1.2.2 hl
            omega
        · cases hl : rs.lbeg
          · simp only [Bool.false_eq_true, if_false]
            have := hfm.1.1
            omega
          · simp only [if_true]
            have := (hfm.1.2.1 hl).1
            omega

end Neatvi.C12
