import NeatviVerif.Lemmas.C08gN
/-!
# C08g: the iterations `yy`, `dd`, `x`, `dw`, `p`, `P` one by one (`*_step`)
-/
set_option linter.unusedSimpArgs false
set_option linter.unusedVariables false
namespace Neatvi.Lemmas.C08g
open Neatvi Neatvi.Uc Neatvi.Vi Neatvi.Ex Neatvi.Lbuf Neatvi.Mot Neatvi.Spec
open Neatvi.Lemmas.C08 Neatvi.Lemmas.C08b Neatvi.Lemmas.C08f
open Neatvi.Lemmas.C09 (finRec pending)
open Neatvi.Props.C07c (Utf8Buf refBufU)
open Neatvi.Props.C08f

/-- the iteration that started in `s` (idle, registers well formed) returned in `s''`, idle again, with the keys
`rest` still to come; the keymap, `autoindent` and the text direction are untouched -/
structure StepDone (s s'' : VS) (rest : Bytes) : Prop where
  idle : Idle s''
  wf : RegsWf s''.ed.regs
  pending : pending s'' = rest
  xkmap : s''.xkmap = s.xkmap
  xai : s''.xai = s.xai
  xtd : s''.ed.xtd = s.ed.xtd

/-! ### what the delete and yank operators keep of the editor record -/

theorem edk_line (cmd : Nat) (hc : cmd = 100 ∨ cmd = 121) (s s1 : VS) (a2 k t : Int) (hk : Prefixed s a2 k s1) (hkpos : 0 < k)
    (ht : lnTarget (setArg2 a2 s) s.ed.xrow cmd k = some t) (ht0 : 0 ≤ t) (m : Nat) (s' : VS)
    (h : vcMotion cmd s = Res.ok m s') : edk s' = edk s := by
  obtain ⟨a, b, e⟩ := vcMotion_line cmd s s1 a2 k t hk hkpos ht ht0
  rw [e] at h
  have hs1 : edk (setArg2 a2 s1) = edk s := by unfold edk; show (s1.ed.xquit, s1.ed.out, s1.ed.xtd) = _; rw [hk.frame.ed]
  rcases hc with rfl | rfl
  · exact ((ek_viDelete _ _ _ _ _).keep _ _ _ h).trans hs1
  · exact ((ek_viYank _ _ _ _ _).keep _ _ _ h).trans hs1

theorem edk_lands (cmd : Nat) (hc : cmd = 100 ∨ cmd = 121) (s s1 sm : VS) (a2 k mv : Int) (body : List Nat) (o t : Nat)
    (hrow : OnRow s body o) (hl : Lands s s1 sm a2 k mv body o t) (m : Nat) (s' : VS)
    (h : vcMotion cmd s = Res.ok m s') : edk s' = edk s := by
  rw [vcMotion_lands cmd (by omega) s s1 sm a2 k mv body o t hrow hl] at h
  have hs1 : edk sm = edk s := by unfold edk; rw [hl.ed]
  rcases hc with rfl | rfl
  · exact ((ek_viDelete _ _ _ _ _).keep _ _ _ h).trans hs1
  · exact ((ek_viYank _ _ _ _ _).keep _ _ _ h).trans hs1

/-! ### `yy`, `dd` -/

/-- **`yy` as one iteration** (no count, no register prefix): the text and the cursor row are unchanged, the unnamed
register holds the cursor line in line mode -/
theorem yy_step (s : VS) (rest : Bytes) (hi : Idle s) (hwf : RegsWf s.ed.regs) (hp : pending s = 121 :: 121 :: rest)
    (h0 : 0 ≤ s.ed.xrow) (h1 : s.ed.xrow < lenOf s) :
    ∃ s'', viStep s = Res.ok () s'' ∧ StepDone s s'' rest ∧ lines s'' = lines s ∧ s''.ed.xrow = s.ed.xrow ∧
      s''.ed.regs.getRaw 0 = (some (rowsText (lines s) s.ed.xrow s.ed.xrow), 1) := by
  obtain ⟨sm, s2, hcs, hpre, hpend, hv2, hfin⟩ := step_op 121 (by simp) 121 (by omega) s rest hi hp
  have hy := yy_spec sm s2 0 hpre (by rw [hcs.arg1]; decide) (by rw [hcs.xrow]; exact h0) (by rw [hcs.xrow, hcs.lenOf]; exact h1)
  rw [hcs.opCount, hcs.xrow, hcs.lenOf, show min (s.ed.xrow + 1 - 1) (lenOf s - 1) = s.ed.xrow by omega] at hy
  obtain ⟨s'', e, hs⟩ := hfin _ _ hy (by
    rw [← hcs.edk]
    exact edk_line 121 (by simp) sm s2 0 121 (min (sm.ed.xrow + opCount sm 0 - 1) (lenOf sm - 1)) hpre (by decide) rfl
      (by rw [hcs.opCount, hcs.xrow, hcs.lenOf]; omega) _ _ hy)
  have hregs : (yankedRows sm (setArg2 0 s2) s.ed.xrow s.ed.xrow).ed.regs =
      s.ed.regs.put 0 (rowsText (lines s) s.ed.xrow s.ed.xrow) 1 := by
    show sm.ed.regs.put sm.ybuf (rowsText (lines sm) _ _) 1 = _
    rw [hcs.regs, hcs.ybuf, hcs.lines]
  have hwf' : RegsWf (yankedRows sm (setArg2 0 s2) s.ed.xrow s.ed.xrow).ed.regs := by
    rw [hregs]; exact Props.C08.put_wf _ _ _ _ hwf
  refine ⟨s'', e, ⟨hs.idle hv2, hs.wf hwf', by rw [hs.pending]; exact hpend, ?_, ?_, ?_⟩, ?_, ?_, ?_⟩
  · rw [hs.xkmap]; show s2.xkmap = _; rw [hpre.frame.xkmap, hcs.xkmap]
  · rw [hs.xai]; show s2.xai = _; rw [(prefixed_qonly hpre).xai, hcs.xai]
  · rw [hs.xtd]; show sm.ed.xtd = _; rw [hcs.xtd]
  · rw [hs.lines]; exact hcs.lines
  · rw [hs.xrow, wfixRow_valid _ (by show 0 ≤ s.ed.xrow; exact h0)
      (by show s.ed.xrow < lenOf (yankedRows sm (setArg2 0 s2) s.ed.xrow s.ed.xrow)
          rw [show lenOf (yankedRows sm (setArg2 0 s2) s.ed.xrow s.ed.xrow) = lenOf sm from rfl, hcs.lenOf]; exact h1)]
    rfl
  · rw [hs.regs hwf' 0 (by omega), hregs, getRaw0_put0 _ _ _ hwf]

/-- **`dd` as one iteration**: the cursor line is gone, the unnamed register holds it in line mode, the cursor is
on the line that followed (the new last line when the last line went) -/
theorem dd_step (s : VS) (rest : Bytes) (hi : Idle s) (hwf : RegsWf s.ed.regs) (hp : pending s = 100 :: 100 :: rest)
    (h0 : 0 ≤ s.ed.xrow) (h1 : s.ed.xrow < lenOf s) :
    ∃ s'', viStep s = Res.ok () s'' ∧ StepDone s s'' rest ∧
      lines s'' = (lines s).take s.ed.xrow.toNat ++ (lines s).drop (s.ed.xrow.toNat + 1) ∧
      s''.ed.xrow = min s.ed.xrow (max 0 (lenOf s - 2)) ∧
      s''.ed.regs.getRaw 0 = (some (rowsText (lines s) s.ed.xrow s.ed.xrow), 1) := by
  obtain ⟨sm, s2, hcs, hpre, hpend, hv2, hfin⟩ := step_op 100 (by simp) 100 (by omega) s rest hi hp
  have hlt : sm.ed.xrow.toNat < (lines sm).length := by
    have := hcs.lenOf; unfold Vi.lenOf at this h1; rw [hcs.xrow, hcs.lines]; omega
  obtain ⟨lb, hlb⟩ := lb_of_line sm sm.ed.xrow.toNat _ (List.getElem?_eq_getElem hlt)
  obtain ⟨s', hd, hld⟩ := dd_spec sm s2 0 lb hlb hpre (by rw [hcs.arg1]; decide) (by rw [hcs.xrow]; exact h0)
    (by rw [hcs.xrow, hcs.lenOf]; exact h1)
  rw [hcs.opCount, hcs.xrow, hcs.lenOf, show min (s.ed.xrow + 1 - 1) (lenOf s - 1) = s.ed.xrow by omega] at hld
  obtain ⟨s'', e, hs⟩ := hfin _ _ hd (by
    rw [← hcs.edk]
    exact edk_line 100 (by simp) sm s2 0 100 (min (sm.ed.xrow + opCount sm 0 - 1) (lenOf sm - 1)) hpre (by decide) rfl
      (by rw [hcs.opCount, hcs.xrow, hcs.lenOf]; omega) _ _ hd)
  have hregs : s'.ed.regs = s.ed.regs.put 0 (rowsText (lines s) s.ed.xrow s.ed.xrow) 1 := by
    rw [hld.regs, hcs.regs, hcs.ybuf, hcs.lines]
  have hwf' : RegsWf s'.ed.regs := by rw [hregs]; exact Props.C08.put_wf _ _ _ _ hwf
  have hlines : lines s' = (lines s).take s.ed.xrow.toNat ++ (lines s).drop (s.ed.xrow.toNat + 1) := by
    rw [hld.lines, hcs.lines]
  have hlen : lenOf s' = lenOf s - 1 := by
    have := hld.lenOf h0 (Int.le_refl _) (by rw [hcs.lenOf]; exact h1)
    rw [this, hcs.lenOf]; omega
  have hfr := hld.frame
  refine ⟨s'', e, ⟨hs.idle (by rw [hfr]; exact hv2), hs.wf hwf', by rw [hs.pending, hfr]; exact hpend, ?_, ?_, ?_⟩, ?_, ?_, ?_⟩
  · rw [hs.xkmap, hfr]; show s2.xkmap = _; rw [hpre.frame.xkmap, hcs.xkmap]
  · rw [hs.xai, hfr]; show s2.xai = _; rw [(prefixed_qonly hpre).xai, hcs.xai]
  · rw [hs.xtd]
    have := congrArg (fun t => t.2.2) (edk_line 100 (by simp) sm s2 0 100 (min (sm.ed.xrow + opCount sm 0 - 1) (lenOf sm - 1))
      hpre (by decide) rfl (by rw [hcs.opCount, hcs.xrow, hcs.lenOf]; omega) _ _ hd)
    simp only [edk] at this
    rw [this, hcs.xtd]
  · rw [hs.lines]; exact hlines
  · rw [hs.xrow]
    have hx := hld.xrow
    rw [hlen] at hx
    unfold wfixRow
    rw [hx, hlen]
    by_cases hn : lenOf s - 1 = 0
    · rw [if_pos (by simp; omega)]
      have : ((lenOf s - 1 != 0) = true) = False := by simp [hn]
      rw [if_neg (by rw [this]; exact id)]
      omega
    · rw [if_neg (by simp; omega)]
      omega
  · rw [hs.regs hwf' 0 (by omega), hregs, getRaw0_put0 _ _ _ hwf]

end Neatvi.Lemmas.C08g
