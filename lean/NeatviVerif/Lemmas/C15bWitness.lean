import NeatviVerif.Lemmas.C15bVisit
import NeatviVerif.Lemmas.C20cEx
/-!
# C15b lemmas, part 8: running a `:g` in the kernel; the witness against "any range"

The handlers of the ex layer are one mutual recursion on the fuel, which the kernel does not unfold.  `scanF` /
`ecGlobF` are the loop of `ec_glob` and `ec_glob` itself with the command list abstracted to a function `bodyF`, by
structural recursion: what they compute is what the model computes (`ecGlobF_sound`), and they can be evaluated.

The witness: a buffer `b b c m b` in which an outer `:g` (depth 1) stands on line 2 (`c`) and still has its mark on line 3
(`m`).  The inner `:g`  `%g/b/d`  deletes the two lines before and the line after: the marked line moves to slot 1,
the current row ends on 2, the outer loop restarts at `MIN(2, 2) = 2`: the marked line is left behind.
-/
namespace Neatvi.Lemmas.C15b
open Neatvi Neatvi.Lbuf Neatvi.Ex Neatvi.Rset Neatvi.Props Neatvi.Props.C15
open Neatvi.Lemmas.ExFrame Neatvi.Lemmas.C05d Neatvi.Lemmas.C06b Neatvi.Lemmas.C20c

/-- `while (i < lbuf_len(xb) && !lbuf_globget(xb, i, dep)) i++` -/
def advF (dep : Nat) : Nat → Ed → Int → Ed × Int
  | 0, ed, i => (ed, i)
  | h + 1, ed, i =>
    if i ≥ ed.len then (ed, i) else
    match ed.lb with
    | none => (ed, i)
    | some lb =>
      if (globGet lb i.toNat dep).1 then (ed.setLb (globGet lb i.toNat dep).2, i)
      else advF dep h (ed.setLb (globGet lb i.toNat dep).2) (i + 1)

theorem adv_eq_advF (dep : Nat) : ∀ (h : Nat) (ed : Ed) (i : Int), ecGlob.scan.adv dep h ed i = advF dep h ed i := by
  intro h
  induction h with
  | zero => intro ed i; rw [ecGlob.scan.adv, advF]
  | succ h ih =>
    intro ed i
    rw [ecGlob.scan.adv, advF]
    by_cases hc : i ≥ ed.len
    · rw [if_pos hc, if_pos hc]
    · rw [if_neg hc, if_neg hc]
      cases hl : ed.lb with
      | none => rfl
      | some lb =>
        simp only []
        by_cases hm : (globGet lb i.toNat dep).1 = true
        · rw [if_pos hm, if_pos hm]
        · rw [if_neg hm, if_neg hm]; exact ih _ _

/-- one round of the loop, the command list being `bodyF` -/
def globStepF (bodyF : Ed → R Int) (neg : Bool) (re : RStr) (ed : Ed) (i : Int) : Option (Bool × Ed × Int) :=
  match ed.line i with
  | none => none
  | some ln =>
    match rstrFind re ln 16 0 ND NG with
    | none => none
    | some (res, _, _) =>
      if (res < 0) == neg then
        (match bodyF { ed with xrow := i } with
        | none => none
        | some (r, ed) => if r != 0 then some (true, ed, i) else some (false, ed, max 0 (min i ed.xrow)))
      else some (false, ed, i)

/-- the loop of `ec_glob`, the command list being `bodyF` -/
def scanF (bodyF : Ed → R Int) (neg : Bool) (re : RStr) (dep : Nat) : Nat → Ed → Int → Option Ed
  | 0, _, _ => none
  | g + 1, ed, i =>
    if i ≥ ed.len then some ed else
    match globStepF bodyF neg re ed i with
    | none => none
    | some (true, ed, _) => some ed
    | some (false, ed, i) =>
      if i < 0 then none else
      scanF bodyF neg re dep g (advF dep (ed.len.toNat + 1) ed i).1 (advF dep (ed.len.toNat + 1) ed i).2

/-- `bodyF` computes what `ex_exec` does with the command list `body` (when `bodyF` gives a result) -/
def Runs (f : Nat) (body : Bytes) (bodyF : Ed → R Int) : Prop :=
  ∀ e r e', bodyF e = some (r, e') → exExec f e body = some (r, e')

theorem globStepF_sound {f : Nat} {body : Bytes} {bodyF : Ed → R Int} (hb : Runs f body bodyF) (neg : Bool) (re : RStr)
    (ed : Ed) (i : Int) (x : Bool × Ed × Int) (h : globStepF bodyF neg re ed i = some x) :
    globStep f neg body re ed i = some x := by
  unfold globStepF at h
  unfold globStep
  split at h
  · cases h
  · rename_i ln hln
    rw [hln]
    simp only []
    split at h
    · cases h
    · rename_i res o k hfind
      rw [hfind]
      simp only []
      split at h
      · rename_i hc
        rw [if_pos hc]
        split at h
        · cases h
        · rename_i r e' hbf
          rw [hb _ _ _ hbf]
          exact h
      · rename_i hc
        rw [if_neg hc]
        exact h

theorem scanF_sound {f : Nat} {body : Bytes} {bodyF : Ed → R Int} (hb : Runs f body bodyF) (neg : Bool) (re : RStr)
    (dep : Nat) : ∀ (g : Nat) (ed : Ed) (i : Int) (ed' : Ed), scanF bodyF neg re dep g ed i = some ed' →
      ecGlob.scan f neg body re dep g ed i = some ed' := by
  intro g
  induction g with
  | zero => intro ed i ed' h; rw [scanF] at h; cases h
  | succ g ih =>
    intro ed i ed' h
    rw [scanF] at h
    rw [scan_succ]
    split at h
    · rename_i hc; rw [if_pos hc]; exact h
    · rename_i hc
      rw [if_neg hc]
      split at h
      · cases h
      · rename_i ed2 i2 hs
        rw [globStepF_sound hb _ _ _ _ _ hs]
        exact h
      · rename_i ed2 i2 hs
        rw [globStepF_sound hb _ _ _ _ _ hs]
        simp only []
        split at h
        · cases h
        · rename_i hneg
          rw [if_neg hneg, adv_eq_advF]
          exact ih _ _ _ h

/-- `ec_glob`, the command list being `bodyF` -/
def ecGlobF (bodyF : Ed → R Int) (ed : Ed) (loc cmd arg : Bytes) : R Int :=
  if ed.xgdep ≥ 7 then some ((1 : Int), ed.show (strOf "global commands nested too deep")) else
  match exRegion ed (if loc.isEmpty && ed.xgdep == 0 then [37] else loc) with
  | none => none
  | some ((rc, b, e), ed) =>
    if rc != 0 then some (1, ed) else
    if (globPrep ed arg).xkwddir == 0 then some (1, globPrep ed arg) else
    match (globPrep ed arg).mkRe (globPrep ed arg).xkwd with
    | none => none
    | some none => some (1, globPrep ed arg)
    | some (some re) =>
      match scanF bodyF (hasBang cmd || cmd.headD 0 == 118) re ((globPrep ed arg).xgdep + 1)
          (globBudget (globMark (globPrep ed arg) b e ((globPrep ed arg).xgdep + 1)))
          (globMark (globPrep ed arg) b e ((globPrep ed arg).xgdep + 1)) b with
      | none => none
      | some ed2 =>
        some (0, { globSweep ed2 ((globPrep ed arg).xgdep + 1) with xgdep := (globPrep ed arg).xgdep + 1 - 1 })

theorem ecGlobF_sound {f : Nat} {bodyF : Ed → R Int} (ed : Ed) (loc cmd arg : Bytes) (hb : Runs f (reRead arg).2 bodyF)
    (x : Int × Ed) (h : ecGlobF bodyF ed loc cmd arg = some x) : ecGlob (f + 1) ed loc cmd arg = some x := by
  rw [ecGlob_eq]
  unfold ecGlobF at h
  split at h
  · rename_i hg; rw [if_pos hg]; exact h
  rename_i hg
  rw [if_neg hg]
  split at h
  · cases h
  · rename_i rc b e ed1 hr
    rw [hr]
    simp only []
    split at h
    · rename_i hc; rw [if_pos hc]; exact h
    · rename_i hc
      rw [if_neg hc]
      split at h
      · rename_i hk; rw [if_pos hk]; exact h
      · rename_i hk
        rw [if_neg hk]
        split at h
        · cases h
        · rename_i hre; rw [hre]; exact h
        · rename_i re hre
          rw [hre]
          simp only []
          split at h
          · cases h
          · rename_i ed2 hs
            rw [scanF_sound hb _ _ _ _ _ _ _ hs]
            exact h

/-! ### the command list `d` -/

/-- `:d` without address and argument -/
def delF (ed : Ed) : R Int :=
  match exRegion ed [] with
  | none => none
  | some ((rc, b, e), ed) =>
    if rc != 0 || ed.len == 0 then some (1, ed) else
    match ({ ed with regs := ed.regs.put (regName []) (ed.cp b e) 1 } : Ed).edit none b e with
    | none => none
    | some ed => some (0, { ed with xrow := b })

theorem runCmd_delete (f : Nat) (ed : Ed) : runCmd (f + 1) ed "ec_delete" [] [100] [] none = delF ed := by
  rw [runCmd.eq_2]
  simp only [String.reduceBEq, Bool.false_eq_true, if_false, if_true, Bool.or_false]
  rfl

theorem delF_runs (f : Nat) : Runs (f + 2) [100] delF := by
  intro e r e' h
  refine exExec_single (f + 1) e e' [100] [100] "ec_delete" r (by decide) (by decide) (by decide +kernel) (by decide)
    (by decide +kernel) ?_
  rw [show (parse1 [100]).loc = [] by decide +kernel, show (parse1 [100]).cmd = [100] by decide +kernel,
    show (parse1 [100]).arg = [] by decide +kernel, runCmd_delete]
  exact h

/-! ### the witness -/

/-- the lines `b b c m b`; the outer `:g` (depth 1) has its mark on `m`; it stands on `c` (row 2) -/
def wEd : Ed :=
  { bufs := [some { path := [102], lb := { lines := [[98, 10], [98, 10], [99, 10], [109, 10], [98, 10]], glob := [0, 0, 0, 2, 0] } }, none],
    xgdep := 1, xrow := 2 }

/-- `%g/b/d` in that state, evaluated -/
theorem wEd_run :
    (ecGlobF delF wEd [37] [103] [47, 98, 47, 100]).map (fun x => (x.1, x.2.xrow, x.2.xgdep)) = some (0, 2, 1) ∧
    (ecGlobF delF wEd [37] [103] [47, 98, 47, 100]).map (fun x => x.2.lb.map (·.lines)) = some (some [[99, 10], [109, 10]]) ∧
    (ecGlobF delF wEd [37] [103] [47, 98, 47, 100]).map (fun x => x.2.lb.map (·.glob)) = some (some [0, 2]) := by
  decide +kernel

/-- the conjecture behind "the outer `:g` still visits each of its marked, surviving lines" for an inner `:g` over
    *any* range: when the inner `:g` returns, no line the outer `:g` has marked sits before the index the outer loop
    restarts from (`MIN(i, xrow)`, `i` the line the outer `:g` stands on) -/
def inner_global_leaves_nothing_behind_full : Prop :=
  ∀ (f d : Nat) (loc cmd arg : Bytes) (ed ed' : Ed) (r : Int) (lb lb' : Lb) (dep : Nat),
    C15.quietLine d (reRead arg).2 = true → dep < 8 → ed.xgdep = dep → ed.lb = some lb → GlobLen lb → 0 ≤ ed.xrow →
    CleanBelow lb dep (ed.xrow.toNat + 1) → ecGlob f ed loc cmd arg = some (r, ed') → ed'.lb = some lb' →
    CleanBelow lb' dep (min ed.xrow ed'.xrow).toNat

/-- it is false: `%g/b/d` run from line 2 of `b b c m b` (the outer mark on `m`) ends with `c m`, the mark in slot 1
    and the current row 2 -/
theorem inner_global_leaves_nothing_behind_refuted : ¬ inner_global_leaves_nothing_behind_full := by
  intro hall
  obtain ⟨h1, h2, h3⟩ := wEd_run
  cases hx : ecGlobF delF wEd [37] [103] [47, 98, 47, 100] with
  | none => rw [hx] at h1; cases h1
  | some x =>
    rw [hx] at h1 h2 h3
    simp only [Option.map_some, Option.some.injEq, Prod.mk.injEq] at h1 h2 h3
    have hrun : ecGlob 3 wEd [37] [103] [47, 98, 47, 100] = some x :=
      ecGlobF_sound wEd [37] [103] [47, 98, 47, 100]
        (by rw [show (reRead [47, 98, 47, 100]).2 = [100] by decide +kernel]; exact delF_runs 0) x hx
    cases hl' : x.2.lb with
    | none => rw [hl'] at h3; cases h3
    | some lb' =>
      rw [hl'] at h3
      simp only [Option.map_some, Option.some.injEq] at h3
      have := hall 3 0 [37] [103] [47, 98, 47, 100] wEd x.2 x.1
        { lines := [[98, 10], [98, 10], [99, 10], [109, 10], [98, 10]], glob := [0, 0, 0, 2, 0] } lb' 1
        (by decide +kernel) (by decide) rfl rfl rfl (by decide)
        (by intro k hk
            have : k = 0 ∨ k = 1 ∨ k = 2 := by
              have : k < 3 := hk
              omega
            rcases this with rfl | rfl | rfl <;> decide)
        hrun hl' 1 (by rw [h1.2.1]; decide)
      rw [h3] at this
      exact absurd this (by decide)

/-- the run of the witness on the model itself -/
theorem wEd_ecGlob (f : Nat) : ∃ ed' lb', ecGlob (f + 3) wEd [37] [103] [47, 98, 47, 100] = some (0, ed') ∧
    ed'.lb = some lb' ∧ ed'.xrow = 2 ∧ ed'.xgdep = 1 ∧ lb'.lines = [[99, 10], [109, 10]] ∧ lb'.glob = [0, 2] := by
  obtain ⟨h1, h2, h3⟩ := wEd_run
  cases hx : ecGlobF delF wEd [37] [103] [47, 98, 47, 100] with
  | none => rw [hx] at h1; cases h1
  | some x =>
    rw [hx] at h1 h2 h3
    simp only [Option.map_some, Option.some.injEq, Prod.mk.injEq] at h1 h2 h3
    obtain ⟨r, ed'⟩ := x
    simp only [] at h1 h2 h3
    obtain ⟨rfl, hrow, hdepth⟩ := h1
    have hrun : ecGlob (f + 3) wEd [37] [103] [47, 98, 47, 100] = some (0, ed') :=
      ecGlobF_sound wEd [37] [103] [47, 98, 47, 100]
        (by rw [show (reRead [47, 98, 47, 100]).2 = [100] by decide +kernel]; exact delF_runs f) _ hx
    cases hl' : ed'.lb with
    | none => rw [hl'] at h3; cases h3
    | some lb' =>
      rw [hl'] at h2 h3
      simp only [Option.map_some, Option.some.injEq] at h2 h3
      exact ⟨ed', lb', hrun, hl', hrow, hdepth, h2, h3⟩

end Neatvi.Lemmas.C15b
