import NeatviVerif.Lemmas.C05fA
import NeatviVerif.Lemmas.C08Uc
import NeatviVerif.Lemmas.C07Ren
import NeatviVerif.Lemmas.C07Scan
/-!
# C05f, part B: bytes, lines and character offsets

`NoNul x`: the byte string holds no NUL (it is a C string as long as the list).  `LineOk l`: a line of the
buffer — it ends in its newline, has no other newline and no NUL.  Offsets: `uc_sub` (`subI`) is defined
exactly when both ends are at most `uc_slen` (a negative end stands for the end of the string).
-/
set_option linter.unusedSimpArgs false
set_option linter.unusedVariables false
namespace Neatvi.Lemmas.C05f
open Neatvi Neatvi.Uc Neatvi.Lbuf Neatvi.Ex Neatvi.Mot Neatvi.Vi
open Neatvi.Lemmas.C08 (chr_some_of_le chr_le_slen chr_le_length chrI_neg chrI_nonneg)

/-- no NUL byte -/
def NoNul (x : Bytes) : Prop := 0 ∉ x

instance (x : Bytes) : Decidable (NoNul x) := by unfold NoNul; exact inferInstance

theorem noNul_nil : NoNul [] := by simp [NoNul]
theorem noNul_append {a b : Bytes} : NoNul (a ++ b) ↔ NoNul a ∧ NoNul b := by simp [NoNul, not_or]
theorem noNul_cons {a : Nat} {b : Bytes} : NoNul (a :: b) ↔ a ≠ 0 ∧ NoNul b := by
  unfold NoNul
  rw [List.mem_cons, not_or]
  constructor
  · intro h; exact ⟨fun e => h.1 e.symm, h.2⟩
  · intro h; exact ⟨fun e => h.1 e.symm, h.2⟩
theorem noNul_singleton {a : Nat} : NoNul [a] ↔ a ≠ 0 := by simp [noNul_cons, noNul_nil]
theorem NoNul.sub {a b : Bytes} (h : NoNul b) (hs : ∀ c ∈ a, c ∈ b) : NoNul a := fun h0 => h (hs 0 h0)
theorem NoNul.take {a : Bytes} (h : NoNul a) (n : Nat) : NoNul (a.take n) := h.sub (fun _ hc => List.mem_of_mem_take hc)
theorem NoNul.drop {a : Bytes} (h : NoNul a) (n : Nat) : NoNul (a.drop n) := h.sub (fun _ hc => List.mem_of_mem_drop hc)
theorem NoNul.takeWhile {a : Bytes} (h : NoNul a) (p : Nat → Bool) : NoNul (a.takeWhile p) :=
  h.sub (fun _ hc => (List.takeWhile_sublist p).subset hc)
theorem NoNul.dropWhile {a : Bytes} (h : NoNul a) (p : Nat → Bool) : NoNul (a.dropWhile p) :=
  h.sub (fun _ hc => (List.dropWhile_sublist p).subset hc)
theorem NoNul.dropLast {a : Bytes} (h : NoNul a) : NoNul a.dropLast :=
  h.sub (fun _ hc => (List.dropLast_sublist a).subset hc)
theorem NoNul.filter {a : Bytes} (h : NoNul a) (p : Nat → Bool) : NoNul (a.filter p) :=
  h.sub (fun _ hc => (List.filter_sublist (p := p) (l := a)).subset hc)
theorem noNul_takeWhile_ne (a : Bytes) : NoNul (a.takeWhile (· != 0)) := by
  induction a with
  | nil => simp [NoNul]
  | cons b r ih =>
    rw [List.takeWhile_cons]
    split
    · rename_i hb
      exact noNul_cons.mpr ⟨by simpa using hb, ih⟩
    · exact noNul_nil
theorem noNul_replicate {n c : Nat} (hc : c ≠ 0) : NoNul (List.replicate n c) := by
  intro h; exact hc (List.eq_of_mem_replicate h).symm
theorem noNul_flatten {l : List Bytes} (h : ∀ x ∈ l, NoNul x) : NoNul l.flatten := by
  intro h0
  obtain ⟨x, hx, h1⟩ := List.mem_flatten.mp h0
  exact h x hx h1

/-- an optional text without NUL -/
def NoNulO (o : Option Bytes) : Prop := ∀ x, o = some x → NoNul x
theorem noNulO_none : NoNulO none := by intro x h; cases h
theorem noNulO_some {x : Bytes} : NoNulO (some x) ↔ NoNul x :=
  ⟨fun h => h x rfl, fun h y hy => by cases hy; exact h⟩

/-- a line of the buffer: it ends in its newline, has no other newline and no NUL -/
def LineOk (l : Bytes) : Prop := ∃ w, l = w ++ [10] ∧ 10 ∉ w ∧ NoNul w

theorem LineOk.noNul {l : Bytes} (h : LineOk l) : NoNul l := by
  obtain ⟨w, rfl, _, hw⟩ := h
  exact noNul_append.mpr ⟨hw, by simp [NoNul]⟩

theorem LineOk.wf {l : Bytes} (h : LineOk l) : Lemmas.C07.WfLine l := by
  obtain ⟨w, rfl, hw, _⟩ := h
  exact ⟨w, rfl, hw⟩

theorem lineOk_of {l : Bytes} (h1 : Props.C01.WfLine l) (h2 : NoNul l) : LineOk l := by
  obtain ⟨w, rfl, hw⟩ := h1
  exact ⟨w, rfl, hw, (noNul_append.mp h2).1⟩

theorem LineOk.hd_ne {l : Bytes} (h : LineOk l) : Bytes.hd l ≠ 0 := by
  obtain ⟨w, rfl, _, hw⟩ := h
  cases w with
  | nil => simp
  | cons a w => simpa using (noNul_cons.mp hw).1

theorem LineOk.slen_pos {l : Bytes} (h : LineOk l) : 1 ≤ ucSlen l := Lemmas.C07.ucSlen_pos l h.hd_ne

/-! ### `uc_sub` -/

theorem chrI_some {l : Bytes} {o : Int} (h : o ≤ ucSlen l) : ∃ i, chrI l o = some i ∧ i ≤ l.length := by
  by_cases h0 : o < 0
  · exact ⟨l.length, chrI_neg l o h0, Nat.le_refl _⟩
  · rw [chrI_nonneg l o (by omega)]
    obtain ⟨i, hi⟩ := chr_some_of_le o.toNat l (by omega)
    exact ⟨i, hi, chr_le_length _ _ _ hi⟩

theorem chrI_none_of_gt {l : Bytes} {o : Int} (h : (ucSlen l : Int) < o) : chrI l o = none := by
  rw [chrI_nonneg l o (by omega)]
  cases hc : ucChr l o.toNat with
  | none => rfl
  | some i => have := chr_le_slen _ _ _ hc; omega

/-- `uc_sub(s, b, e)` is defined when both ends are at most `uc_slen(s)`; the result is a part of `s` -/
theorem subI_some {l : Bytes} {b e : Int} (hb : b ≤ ucSlen l) (he : e ≤ ucSlen l) :
    ∃ x, subI l b e = some x ∧ ∀ c ∈ x, c ∈ l := by
  obtain ⟨ib, h1, _⟩ := chrI_some hb
  obtain ⟨ie, h2, _⟩ := chrI_some he
  unfold subI
  rw [h1, h2]
  refine ⟨_, rfl, ?_⟩
  intro c hc
  split at hc
  · exact List.mem_of_mem_drop (List.mem_of_mem_take hc)
  · simp at hc

theorem subI_noNul {l : Bytes} {b e : Int} {x : Bytes} (hl : NoNul l) (h : subI l b e = some x) : NoNul x := by
  unfold subI at h
  split at h
  · cases h
    split
    · exact (hl.drop _).take _
    · exact noNul_nil
  · cases h

/-- the line under a row, `""` when there is none -/
theorem slenAt_eq (s : VS) (r : Int) : slenAt (lines s) r = ucSlen (lineE s r) := by
  unfold slenAt lineE lineOf
  cases lineAt (lines s) r <;> rfl

theorem slenAt_nonneg (ls : Lines) (r : Int) : 0 ≤ slenAt ls r := Lemmas.C07.slenAt_nonneg ls r

/-! ### `ren_noeol` never leaves the line -/

theorem renNoeol_le_slen (l : Bytes) (o : Int) : Ren.renNoeol l o ≤ ucSlen l := by
  have := Lemmas.C07.renNoeol_lt l o
  omega

theorem noeol_le_slen (s : VS) (r o : Int) : noeol s r o ≤ slenAt (lines s) r := by
  unfold noeol slenAt lineOf
  cases h : lineAt (lines s) r with
  | none => simp only []; split <;> omega
  | some l => exact renNoeol_le_slen l o

theorem noeol_eq (s : VS) (r o : Int) : noeol s r o = Ren.renNoeol (lineE s r) o := by
  unfold noeol lineE
  cases h : lineOf s r with
  | none =>
    simp only [Option.getD_none]
    unfold Ren.renNoeol
    have : ucSlen [] = 0 := rfl
    simp only [this]
    have h2 : Ren.chrHd [] (if o ≥ ((0 : Nat) : Int) then max 0 (((0 : Nat) : Int) - 1) else o).toNat = 0 := by
      unfold Ren.chrHd
      cases ucChr [] _ <;> simp
    split <;> simp_all <;> omega
  | some l => rfl

end Neatvi.Lemmas.C05f
