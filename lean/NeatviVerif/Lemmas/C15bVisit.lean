import NeatviVerif.Lemmas.C15bRun
import NeatviVerif.Lemmas.C05dVisit
/-!
# C15b lemmas, part 5: a round of the outer `:g` whose command list is an inner `:g`

One round of the loop of `ec_glob` at line `i` (`Lemmas/C05dVisit.globStep`, `scan_succ`): if the line matches, the
command list runs with the current row on it, the loop goes on from `i2 = MIN(i, xrow)`, and
`while (i < lbuf_len(xb) && !lbuf_globget(xb, i, xgdep)) i++` finds the next line to work on.

`round_visit`: whatever quiet command list ran (an inner `:g` over any range in particular), the line found is the
first slot at or after `i2` that is a *surviving* line (the slot map of `Lemmas/C15bRun.exExec_carry`) the outer `:g`
had marked; the slots passed over are inserted lines or lines it had not marked.

`round_in_order`: if nothing marked is left behind the restart index `i2`, the line found is the first of all the
surviving marked lines, it comes after the line just worked on, and the invariant "nothing marked at or before the
current line" holds again: so round after round the outer `:g` works on its marked surviving lines in their order,
each once.  `left_behind_is_lost`: a marked line that *is* left behind `i2` is not found by this round (only the
final sweep clears its mark) — which is what happens in `:g/a/s/$/!/|%g/b/d` on `b b a a b` (see the report).
-/
namespace Neatvi.Lemmas.C15b
open Neatvi Neatvi.Lbuf Neatvi.Ex Neatvi.Rset Neatvi.Props Neatvi.Props.C15
open Neatvi.Lemmas.ExFrame Neatvi.Lemmas.C05d

/-- no line in the slots `0 … n-1` carries the mark of depth `dep` -/
def CleanBelow (lb : Lb) (dep n : Nat) : Prop := ∀ k, k < n → (lb.glob.getD k 0).testBit dep = false

/-- what a round of `:g` at depth `dep` does to the state before the search for the next marked line: the state
    `ed2` keeps the depth, and the marks of the depths `≤ dep` have travelled with their lines -/
theorem globStep_carry (f d : Nat) (neg : Bool) (body : Bytes) (re : RStr) (ed ed2 : Ed) (i i2 : Int) (lb : Lb)
    (hq : C15.quietLine d body = true) (hl : ed.lb = some lb) (hg : GlobLen lb) (stop : Bool)
    (hstep : globStep f neg body re ed i = some (stop, ed2, i2)) :
    ed2.xgdep = ed.xgdep ∧ (stop = false → i2 ≤ i) ∧ ∃ lb2, ed2.lb = some lb2 ∧ Carry (upTo ed.xgdep) lb lb2 := by
  unfold globStep at hstep
  split at hstep
  · cases hstep
  · rename_i ln0 hln0
    have h0 : 0 ≤ i := by
      unfold Ed.line at hln0
      split at hln0
      · cases hln0
      · omega
    split at hstep
    · cases hstep
    · split at hstep
      · split at hstep
        · cases hstep
        · rename_i r edx hx
          have hd : edx.xgdep = ed.xgdep := (exExec_dep hx).trans rfl
          have hc := exExec_carry f d body hq { ed with xrow := i } edx r lb (by rw [← hl]; exact lb_of_bufs rfl) hg hx
          split at hstep
          · cases hstep
            exact ⟨hd, (fun h => by cases h), hc⟩
          · cases hstep
            exact ⟨hd, fun _ => by omega, hc⟩
      · cases hstep
        exact ⟨rfl, fun _ => Int.le_refl _, lb, hl, Carry.refl hg⟩

theorem carry_bit {S : Nat → Prop} {lb lb2 : Lb} {sm : Slots} (w : CarryW S lb lb2 sm) {dep : Nat} (hs : S dep) (k : Nat) :
    (lb2.glob.getD k 0).testBit dep = true ↔ ∃ p, sm k = some p ∧ (lb.glob.getD p.1 0).testBit dep = true := by
  rw [w.bits k dep hs]
  cases h : sm k with
  | none => simp
  | some p => simp

/-- **one round of the outer `:g`** with a quiet command list — an inner `:g` in particular -/
theorem round_visit (f d : Nat) (neg : Bool) (body : Bytes) (re : RStr) (dep : Nat) (ed ed2 : Ed) (i i2 : Int) (lb : Lb)
    (hq : C15.quietLine d body = true) (hx : ed.xgdep = dep) (hl : ed.lb = some lb) (hg : GlobLen lb)
    (hstep : globStep f neg body re ed i = some (false, ed2, i2)) (hi2 : 0 ≤ i2) :
    ∃ (lb2 : Lb) (sm : Slots) (j : Int) (lb3 : Lb),
      ed2.lb = some lb2 ∧ ed2.xgdep = dep ∧ CarryW (upTo dep) lb lb2 sm ∧ i2 ≤ i ∧
      (ecGlob.scan.adv dep (ed2.len.toNat + 1) ed2 i2).2 = j ∧
      (ecGlob.scan.adv dep (ed2.len.toNat + 1) ed2 i2).1.lb = some lb3 ∧
      (ecGlob.scan.adv dep (ed2.len.toNat + 1) ed2 i2).1.xgdep = dep ∧
      i2 ≤ j ∧ (i2 < lb2.lines.length → j ≤ lb2.lines.length) ∧ ((lb2.lines.length : Int) ≤ i2 → j = i2) ∧
      -- the slots passed over hold inserted lines, or lines the outer `:g` had not marked (or had worked on already)
      (∀ k, i2.toNat ≤ k → k < j.toNat → ∀ p, sm k = some p → (lb.glob.getD p.1 0).testBit dep = false) ∧
      -- the slot found holds a surviving line the outer `:g` had marked
      (j < lb2.lines.length → ∃ p, sm j.toNat = some p ∧ (lb.glob.getD p.1 0).testBit dep = true) ∧
      -- the search consumed the marks of depth `dep` in `[i2, j]` and nothing else
      lb3.lines = lb2.lines ∧ GlobLen lb3 ∧
      (∀ k, lb3.glob.getD k 0 =
        if i2.toNat ≤ k ∧ k ≤ j.toNat ∧ k < lb2.lines.length then clr (lb2.glob.getD k 0) dep else lb2.glob.getD k 0) := by
  obtain ⟨hd2, hle, lb2, hl2, sm, w⟩ := globStep_carry f d neg body re ed ed2 i i2 lb hq hl hg false hstep
  rw [hx] at hd2 w
  have hlen : ed2.len.toNat + 1 = lb2.lines.length + 1 := by rw [len_of_lb hl2]; rfl
  obtain ⟨j, lb3, h1, h2, h3, h4, h5, h6, h7, h8, _, h10⟩ :=
    visit_once dep (ed2.len.toNat + 1) ed2 i2 lb2 hl2 hi2 (by rw [hlen]; omega)
  have hS : upTo dep dep := Nat.le_refl _
  refine ⟨lb2, sm, j, lb3, hl2, hd2, w, hle rfl, h1, h2, ?_, h3, h4, h5, ?_, ?_, h8, ?_, h10⟩
  · rw [adv_dep]; exact hd2
  · intro k hk1 hk2 p hp
    have := h6 k hk1 hk2
    rw [w.bits k dep hS, hp] at this
    exact this
  · intro hj
    exact (carry_bit w hS _).1 (h7 hj)
  · have hn : lb3.glob.length = lb2.glob.length := by
      have : ∀ (h : Nat) (e : Ed) (x : Int) (l l' : Lb), e.lb = some l → (ecGlob.scan.adv dep h e x).1.lb = some l' →
          l'.glob.length = l.glob.length := by
        intro h
        induction h with
        | zero => intro e x l l' hl hl'; rw [ecGlob.scan.adv] at hl'; rw [hl] at hl'; cases hl'; rfl
        | succ h ih =>
          intro e x l l' hl hl'
          rw [ecGlob.scan.adv] at hl'
          split at hl'
          · rw [hl] at hl'; cases hl'; rfl
          · simp only [hl] at hl'
            have hs : (e.setLb (globGet l x.toNat dep).2).lb = some (globGet l x.toNat dep).2 := by
              rw [setLb_lb, hl]; rfl
            split at hl'
            · rw [hs] at hl'; cases hl'
              exact (globGet_rest l x.toNat dep).2.2.2.2
            · rw [ih _ _ _ _ hs hl']
              exact (globGet_rest l x.toNat dep).2.2.2.2
      exact this _ _ _ _ _ hl2 h2
    unfold GlobLen
    rw [hn, h8]
    exact w.len'

/-- **the rounds keep the order**: if, in addition, nothing marked sits at or before the line `i` just worked on (as
    after the previous search) and the command list left nothing marked behind the restart index `i2`, then the line
    found is the first of all surviving marked lines, its old slot lies after `i`, no other surviving marked line has
    a smaller old slot, and again nothing marked sits at or before the line found -/
theorem round_in_order {dep : Nat} {lb lb2 lb3 : Lb} {sm : Slots} {i i2 j : Int} (hdep : dep < 8)
    (w : CarryW (upTo dep) lb lb2 sm)
    (hclean : CleanBelow lb dep (i.toNat + 1)) (hns : CleanBelow lb2 dep i2.toNat)
    (hpass : ∀ k, i2.toNat ≤ k → k < j.toNat → ∀ p, sm k = some p → (lb.glob.getD p.1 0).testBit dep = false)
    (h3 : ∀ k, lb3.glob.getD k 0 =
        if i2.toNat ≤ k ∧ k ≤ j.toNat ∧ k < lb2.lines.length then clr (lb2.glob.getD k 0) dep else lb2.glob.getD k 0) :
    -- every surviving marked line sits at or after the slot found
    (∀ k p, sm k = some p → (lb.glob.getD p.1 0).testBit dep = true → j.toNat ≤ k) ∧
    -- the old slot of the line found comes after the line just worked on, and before those of the other survivors
    (∀ p, sm j.toNat = some p → (lb.glob.getD p.1 0).testBit dep = true →
      i.toNat < p.1 ∧ ∀ k p', sm k = some p' → (lb.glob.getD p'.1 0).testBit dep = true → p.1 ≤ p'.1) ∧
    -- the invariant for the next round
    CleanBelow lb3 dep (j.toNat + 1) ∧
    -- the marks of the lines after the one found are those that travelled there
    (∀ k, j.toNat < k → (lb3.glob.getD k 0).testBit dep = (lb2.glob.getD k 0).testBit dep) := by
  have hS : upTo dep dep := Nat.le_refl _
  have hfirst : ∀ k p, sm k = some p → (lb.glob.getD p.1 0).testBit dep = true → j.toNat ≤ k := by
    intro k p hp hb
    apply Classical.byContradiction
    intro hlt
    by_cases hk : k < i2.toNat
    · have := hns k hk
      rw [w.bits k dep hS, hp] at this
      simp only [] at this
      rw [hb] at this
      cases this
    · have := hpass k (by omega) (by omega) p hp
      rw [hb] at this; cases this
  refine ⟨hfirst, ?_, ?_, ?_⟩
  · intro p hp hb
    constructor
    · apply Classical.byContradiction
      intro hle
      have := hclean p.1 (by omega)
      rw [hb] at this; cases this
    · intro k p' hp' hb'
      have hk := hfirst k p' hp' hb'
      by_cases he : k = j.toNat
      · subst he; rw [hp] at hp'; cases hp'; exact Nat.le_refl _
      · exact Nat.le_of_lt (w.mono _ _ _ _ (by omega) hp hp')
  · intro k hk
    rw [h3 k]
    by_cases hin : i2.toNat ≤ k ∧ k ≤ j.toNat ∧ k < lb2.lines.length
    · rw [if_pos hin, clr_testBit_low _ _ _ hdep]
      simp
    · rw [if_neg hin]
      by_cases hk2 : k < i2.toNat
      · exact hns k hk2
      · have : lb2.glob.length ≤ k := by
          have := w.len'; unfold GlobLen at this; omega
        rw [getD_of_le this]; simp
  · intro k hk
    rw [h3 k, if_neg (by omega)]

/-- **what is left behind is lost**: a line that carries the mark of depth `dep` in a slot before the restart index is
    not the line the search finds, and still carries the mark afterwards: the outer `:g` does not work on it in the
    next round (its mark is cleared by the final sweep, or found later only if a later round restarts before it) -/
theorem left_behind_is_lost (dep h : Nat) (ed : Ed) (i : Int) (lb : Lb) (hlb : ed.lb = some lb) (hi : 0 ≤ i)
    (hf : lb.lines.length - i.toNat < h) (k : Nat) (hk : k < i.toNat)
    (hm : (lb.glob.getD k 0).testBit dep = true) :
    (ecGlob.scan.adv dep h ed i).2.toNat ≠ k ∧
    ∃ lb', (ecGlob.scan.adv dep h ed i).1.lb = some lb' ∧ (lb'.glob.getD k 0).testBit dep = true := by
  obtain ⟨j, lb', h1, h2, h3, _, _, _, _, _, _, h10⟩ := visit_once dep h ed i lb hlb hi hf
  refine ⟨by rw [h1]; omega, lb', h2, ?_⟩
  rw [h10 k, if_neg (by omega)]
  exact hm

/-- a sufficient condition for "nothing marked is left behind": no line from after the current line has been moved in
    front of the restart index (e.g. because the command list — an inner `:g` over `.,+n`, say — does not touch the
    lines before the current one) -/
theorem nothing_left_behind {dep : Nat} {lb lb2 : Lb} {sm : Slots} {i : Int} {n : Nat}
    (w : CarryW (upTo dep) lb lb2 sm) (hclean : CleanBelow lb dep (i.toNat + 1))
    (hsrc : ∀ k p, k < n → sm k = some p → p.1 ≤ i.toNat) : CleanBelow lb2 dep n := by
  intro k hk
  rw [w.bits k dep (Nat.le_refl _)]
  cases hp : sm k with
  | none => rfl
  | some p => exact hclean p.1 (by have := hsrc k p hk hp; omega)

/-! ### the invariant of the loop: nothing marked at or before the current line -/

/-- at the start of a round of the `:g` of depth `dep` on line `i`: the loop runs at that depth, the table of marks is
    as long as the table of lines, and no line at or before `i` carries the mark of depth `dep` -/
def LoopInv (dep : Nat) (ed : Ed) (i : Int) : Prop :=
  ed.xgdep = dep ∧ ∃ lb, ed.lb = some lb ∧ GlobLen lb ∧ CleanBelow lb dep (i.toNat + 1)

theorem foldl_setLb_lb (F : Lb → Nat → Lb) : ∀ (l : List Nat) (ed : Ed) (lb : Lb), ed.lb = some lb →
    (l.foldl (fun (ed : Ed) k => match ed.lb with | some lb => ed.setLb (F lb k) | none => ed) ed).lb =
      some (l.foldl F lb) := by
  intro l
  induction l with
  | nil => intro ed lb h; exact h
  | cons a l ih =>
    intro ed lb h
    rw [List.foldl_cons, List.foldl_cons]
    apply ih
    rw [h]
    simp only []
    rw [setLb_lb, h]; rfl

theorem foldl_globSet_bits (b dep : Nat) : ∀ (l : List Nat) (lb : Lb) (j k : Nat),
    (((l.foldl (fun lb x => globSet lb (b + 1 + x) dep) lb).glob.getD j 0).testBit k =
      ((lb.glob.getD j 0).testBit k || (k == dep && (j < lb.glob.length && l.any (fun x => b + 1 + x == j))))) ∧
    (l.foldl (fun lb x => globSet lb (b + 1 + x) dep) lb).lines = lb.lines ∧
    (l.foldl (fun lb x => globSet lb (b + 1 + x) dep) lb).glob.length = lb.glob.length := by
  intro l
  induction l with
  | nil => intro lb j k; simp
  | cons a l ih =>
    intro lb j k
    rw [List.foldl_cons]
    obtain ⟨h1, h2, h3⟩ := ih (globSet lb (b + 1 + a) dep) j k
    have hl := (globSet_rest lb (b + 1 + a) dep).2.2.2.2
    refine ⟨?_, h2, h3.trans hl⟩
    rw [h1, hl, List.any_cons]
    generalize (l.any fun x => b + 1 + x == j) = E
    generalize hB : (k == dep) = B
    by_cases hp : b + 1 + a < lb.glob.length
    · rw [globSet_sets lb _ dep j k hp, hB]
      by_cases hj : j = b + 1 + a
      · subst hj
        rw [beq_self_eq_true, decide_eq_true hp]
        generalize (lb.glob.getD (b + 1 + a) 0).testBit k = A
        cases A <;> cases B <;> cases E <;> rfl
      · have e1 : (j == b + 1 + a) = false := by simpa using hj
        have e2 : (b + 1 + a == j) = false := by simpa using fun h => hj h.symm
        rw [e1, e2]
        generalize (lb.glob.getD j 0).testBit k = A
        generalize decide (j < lb.glob.length) = C
        cases A <;> cases B <;> cases C <;> cases E <;> rfl
    · have hk : ((globSet lb (b + 1 + a) dep).glob.getD j 0).testBit k = (lb.glob.getD j 0).testBit k := by
        rw [globSet_entry, if_neg (fun h => hp h.2)]
      rw [hk]
      by_cases hj : b + 1 + a = j
      · subst hj
        rw [decide_eq_false hp]
        generalize (lb.glob.getD (b + 1 + a) 0).testBit k = A
        cases A <;> cases B <;> rfl
      · have e2 : (b + 1 + a == j) = false := by simpa using hj
        rw [e2]
        generalize (lb.glob.getD j 0).testBit k = A
        generalize decide (j < lb.glob.length) = C
        cases A <;> cases B <;> cases C <;> cases E <;> rfl

/-- **the loop starts with the invariant**: if no line carries a mark of depth `dep` when `ec_glob` starts marking
    (which the sweep of the previous `:g` of that depth guarantees, `ecGlob_sweeps`), then after
    `for (i = beg + 1; i < end; i++) lbuf_globset(xb, i, xgdep)` exactly the lines `beg+1 … end-1` carry it, the
    marks of the other depths are untouched, and the loop starts on line `beg` with nothing marked at or before it -/
theorem loop_inv_init (ed : Ed) (b e : Int) (dep : Nat) (lb : Lb) (hl : ed.lb = some lb) (hg : GlobLen lb) (hb : 0 ≤ b)
    (hclean : ∀ k, (lb.glob.getD k 0).testBit dep = false) :
    LoopInv dep (globMark ed b e dep) b ∧
    ∃ lb1, (globMark ed b e dep).lb = some lb1 ∧ lb1.lines = lb.lines ∧
      (∀ j, (lb1.glob.getD j 0).testBit dep = decide (b.toNat + 1 ≤ j ∧ (j : Int) < e ∧ j < lb.lines.length)) ∧
      (∀ j k, k ≠ dep → (lb1.glob.getD j 0).testBit k = (lb.glob.getD j 0).testBit k) := by
  have hlb1 : (globMark ed b e dep).lb =
      some ((List.range (e - (b + 1)).toNat).foldl (fun lb x => globSet lb (b.toNat + 1 + x) dep) lb) := by
    unfold globMark
    exact foldl_setLb_lb (fun lb x => globSet lb (b.toNat + 1 + x) dep) _ _ lb (by rw [← hl]; exact lb_of_bufs rfl)
  have hbits := foldl_globSet_bits b.toNat dep (List.range (e - (b + 1)).toNat) lb
  have hdepbit : ∀ j, (((List.range (e - (b + 1)).toNat).foldl (fun lb x => globSet lb (b.toNat + 1 + x) dep) lb).glob.getD j 0).testBit dep
      = decide (b.toNat + 1 ≤ j ∧ (j : Int) < e ∧ j < lb.lines.length) := by
    intro j
    rw [(hbits j dep).1, hclean j]
    unfold GlobLen at hg
    simp only [Bool.false_or, beq_self_eq_true, Bool.true_and]
    by_cases hc : b.toNat + 1 ≤ j ∧ (j : Int) < e ∧ j < lb.lines.length
    · rw [decide_eq_true hc]
      simp only [Bool.and_eq_true, decide_eq_true_eq, List.any_eq_true, List.mem_range, beq_iff_eq]
      exact ⟨by omega, j - (b.toNat + 1), by omega, by omega⟩
    · rw [decide_eq_false hc]
      simp only [Bool.and_eq_false_iff, decide_eq_false_iff_not, List.any_eq_false, List.mem_range, beq_iff_eq]
      by_cases hj : j < lb.glob.length
      · right
        intro x hx hxe
        apply hc
        omega
      · left; exact hj
  refine ⟨⟨globMark_dep _ _ _ _, _, hlb1, ?_, ?_⟩, _, hlb1, (hbits 0 0).2.1, hdepbit, ?_⟩
  · unfold GlobLen
    rw [(hbits 0 0).2.1, (hbits 0 0).2.2]; exact hg
  · intro k hk
    rw [hdepbit k]
    simp only [decide_eq_false_iff_not]
    omega
  · intro j k hk
    rw [(hbits j k).1]
    have : (k == dep) = false := by simpa using hk
    simp [this]

/-- **a round keeps the invariant** when the command list leaves nothing marked behind the restart index -/
theorem loop_inv_step (f d : Nat) (neg : Bool) (body : Bytes) (re : RStr) (dep : Nat) (ed ed2 : Ed) (i i2 : Int)
    (hq : C15.quietLine d body = true) (hdep : dep < 8) (hinv : LoopInv dep ed i)
    (hstep : globStep f neg body re ed i = some (false, ed2, i2)) (hi2 : 0 ≤ i2)
    (hns : ∀ lb2, ed2.lb = some lb2 → CleanBelow lb2 dep i2.toNat) :
    LoopInv dep (ecGlob.scan.adv dep (ed2.len.toNat + 1) ed2 i2).1 (ecGlob.scan.adv dep (ed2.len.toNat + 1) ed2 i2).2 := by
  obtain ⟨hx, lb, hl, hg, hclean⟩ := hinv
  obtain ⟨lb2, sm, j, lb3, hl2, _, w, _, hj, hl3, hd3, _, _, _, hpass, _, _, hg3, h3⟩ :=
    round_visit f d neg body re dep ed ed2 i i2 lb hq hx hl hg hstep hi2
  obtain ⟨_, _, hc3, _⟩ := round_in_order hdep w hclean (hns lb2 hl2) hpass h3
  rw [hj]
  exact ⟨hd3, lb3, hl3, hg3, hc3⟩

/-- the round starts of the loop: `(s, j)` is the state and line of this or a later round of the loop that stands at
    `(ed, i)` -/
inductive RoundStart (f : Nat) (neg : Bool) (body : Bytes) (re : RStr) (dep : Nat) : Ed → Int → Ed → Int → Prop
  | here (ed : Ed) (i : Int) : RoundStart f neg body re dep ed i ed i
  | next {ed ed2 s : Ed} {i i2 j : Int} : ¬ (i ≥ ed.len) → globStep f neg body re ed i = some (false, ed2, i2) → ¬ (i2 < 0) →
      RoundStart f neg body re dep (ecGlob.scan.adv dep (ed2.len.toNat + 1) ed2 i2).1
        (ecGlob.scan.adv dep (ed2.len.toNat + 1) ed2 i2).2 s j →
      RoundStart f neg body re dep ed i s j

/-- **the invariant holds in every round** of the loop of a `:g` whose command list never leaves a marked line behind
    the restart index: each round stands on a line with nothing marked at or before it — every marked line is worked
    on at most once, and in the order of the lines -/
theorem rounds_keep_inv (f d : Nat) (neg : Bool) (body : Bytes) (re : RStr) (dep : Nat)
    (hq : C15.quietLine d body = true) (hdep : dep < 8)
    (hns : ∀ ed i ed2 i2, LoopInv dep ed i → globStep f neg body re ed i = some (false, ed2, i2) →
      ∀ lb2, ed2.lb = some lb2 → CleanBelow lb2 dep i2.toNat)
    {ed s : Ed} {i j : Int} (hr : RoundStart f neg body re dep ed i s j) (hinv : LoopInv dep ed i) : LoopInv dep s j := by
  induction hr with
  | here => exact hinv
  | next _ hstep hneg _ ih =>
    exact ih (loop_inv_step f d neg body re dep _ _ _ _ hq hdep hinv hstep (by omega) (hns _ _ _ _ hinv hstep))

/-! ### beyond the eight bits of a `char`: the model does not follow the program -/

/-- **the loop of `:g`, were it run at a depth `≥ 8`, would hang in the model** as soon as it stands on a marked line that
    is not selected: `lbuf_globget` reports the mark and does not clear it (`globGet_beyond`), the search returns the
    same line, and the loop runs out of its step budget whatever the budget is.  This is how the defect behind the
    depth guard showed in the model (the program of that time could not mark a line at that depth — the bit does not
    fit the `char` —, worked on the first line of the range only, and for `xgdep ≥ 31` the shift was undefined).
    Since the repair `ec_glob` never runs its loop at such a depth (`Lemmas/C15bSweep.marks_depth_le_7`). -/
theorem scan_beyond_depth_7_hangs (f : Nat) (neg : Bool) (body : Bytes) (re : RStr) (dep : Nat) (hdep : 8 ≤ dep)
    (i : Int) (hi : 0 ≤ i) (ln : Bytes) (res : Int) (x : List Int × Nat)
    (hfind : rstrFind re ln 16 0 ND NG = some (res, x)) (hsel : ((res < 0) == neg) = false) :
    ∀ (g : Nat) (ed : Ed) (lb : Lb), ed.lb = some lb → lb.lines[i.toNat]? = some ln →
      (lb.glob.getD i.toNat 0).testBit dep = true → ecGlob.scan f neg body re dep g ed i = none := by
  intro g
  induction g with
  | zero => intro ed lb _ _ _; rw [ecGlob.scan]
  | succ g ih =>
    intro ed lb hl hln hbit
    have hlt : i.toNat < lb.lines.length := by
      apply Classical.byContradiction
      intro hge
      rw [List.getElem?_eq_none (by omega)] at hln
      cases hln
    have hlen : ed.len = lb.lines.length := len_of_lb hl
    have hline : ed.line i = some ln := by
      unfold Ed.line
      rw [if_neg (by omega), hl]
      exact hln
    have hstep : globStep f neg body re ed i = some (false, ed, i) := by
      unfold globStep
      rw [hline]
      simp only []
      rw [hfind]
      simp only []
      rw [if_neg (by rw [hsel]; decide)]
    have hadv : ecGlob.scan.adv dep (ed.len.toNat + 1) ed i = (ed.setLb (globGet lb i.toNat dep).2, i) := by
      rw [ecGlob.scan.adv, if_neg (by omega)]
      simp only [hl]
      rw [if_pos (by rw [globGet_fst]; exact hbit)]
    rw [scan_succ, if_neg (by omega), hstep]
    simp only []
    rw [if_neg (by omega), hadv]
    apply ih _ (globGet lb i.toNat dep).2
    · rw [setLb_lb, hl]; rfl
    · exact hln
    · rw [(globGet_beyond lb i.toNat dep hdep).1]; exact hbit

end Neatvi.Lemmas.C15b
