import NeatviVerif.Lemmas.C20cSoloC
import NeatviVerif.Lemmas.C02bCmd
/-!
# C20c lemmas: everything that unfolds the `ec_substitute` branch of `runCmd` or `ecWrite`

Kept in one file so that it can be re-proved when the model of these two commands changes
(`:s` with its running shift of the row; `:w !cmd` showing its message): the rest of the C20c
development uses only the statements

* `subst_loc`, `ecWrite_loc`: `:s` and `:w` are local steps (`Loc`);
* `subst_withTail`, `ecWrite_withTail`: `:s` and `:w` do not look at the parked buffers.
-/
namespace Neatvi.Lemmas.C20c
open Neatvi Neatvi.Lbuf Neatvi.LbufIo Neatvi.Ex Neatvi.Rset Neatvi.Props.C20 Neatvi.Props.C20b Neatvi.Lemmas.C20b
open Neatvi.Lemmas.ExFrame Neatvi.Lemmas.C02Ex Neatvi.Lemmas.C02b

/-! ### `:s` -/

theorem substPrep_same (ed : Ed) (arg : Bytes) : Same ed (Props.C14.substPrep ed arg).1 := by
  unfold Props.C14.substPrep
  simp only []
  repeat' split
  all_goals exact ⟨rfl, rfl⟩


open Neatvi.Props in
theorem substLoop_loc (re : RStr) (g : Bool) (b : Int) : ∀ (n : Nat) (ed ed' : Ed),
    C14.substLoop re g b n ed = some ed' → Loc ed ed' := by
  intro n
  induction n with
  | zero => intro ed ed' h; cases h; exact Loc.refl _
  | succ n ih =>
    intro ed ed' h
    rw [C14.substLoop_succ] at h
    cases hm : C14.substLoop re g b n ed with
    | none => rw [hm] at h; cases h
    | some em =>
      rw [hm] at h
      simp only [Option.bind_some] at h
      have hm' := ih _ _ hm
      unfold C14.substStep at h
      repeat' (split at h)
      all_goals (first | cases h | skip)
      · exact hm'
      · exact hm'.trans (loc_edit h)


theorem subst_loc (f : Nat) (ed ed' : Ed) (loc cmd arg : Bytes) (txt : Option Bytes) (r : Int)
    (h : runCmd (f + 1) ed "ec_substitute" loc cmd arg txt = some (r, ed')) : Loc ed ed' := by
  rw [Props.C14.runCmd_subst_eq] at h
  split at h
  · cases h
  · rename_i ed1 hr
    have e1 : Loc ed ed1 := Loc.of_same (exRegion_same hr)
    have e2 : Loc ed (Props.C14.substPrep ed1 arg).1 := e1.same (substPrep_same ed1 arg)
    repeat' (split at h)
    all_goals (first | cases h | skip)
    · exact e1
    · exact e2
    · exact e2
    · rename_i hl
      exact e2.trans (substLoop_loc _ _ _ _ _ _ hl)

theorem substPrep_withTail (L : List (Option Buf)) (ed : Ed) (arg : Bytes) :
    Props.C14.substPrep (withTail L ed) arg = (withTail L (Props.C14.substPrep ed arg).1, (Props.C14.substPrep ed arg).2) := by
  unfold Props.C14.substPrep
  simp only []
  repeat' split
  all_goals rfl


open Neatvi.Props in
theorem substLoop_withTail (L : List (Option Buf)) (re : RStr) (g : Bool) (b : Int) : ∀ (n : Nat) (ed : Ed),
    C14.substLoop re g b n (withTail L ed) = (C14.substLoop re g b n ed).map (withTail L) := by
  intro n
  induction n with
  | zero => intro ed; rfl
  | succ n ih =>
    intro ed
    rw [C14.substLoop_succ, C14.substLoop_succ, ih]
    cases C14.substLoop re g b n ed with
    | none => rfl
    | some em =>
      simp only [Option.map_some, Option.bind_some]
      unfold C14.substStep
      rw [withTail_line, withTail_len L em, withTail_len L ed]
      generalize b + (n : Int) + (em.len - ed.len) = row
      cases em.line row with
      | none => rfl
      | some ln =>
        simp only []
        have : (withTail L em).xrep = em.xrep := rfl
        rw [this]
        cases substLine re em.xrep g ln with
        | none => rfl
        | some o =>
          cases o with
          | none => rfl
          | some nl => simp only [withTail_edit]


theorem subst_withTail (L : List (Option Buf)) (f : Nat) (ed : Ed) (loc cmd arg : Bytes) (txt : Option Bytes) :
    runCmd (f + 1) (withTail L ed) "ec_substitute" loc cmd arg txt =
      tailR L (runCmd (f + 1) ed "ec_substitute" loc cmd arg txt) := by
  rw [Props.C14.runCmd_subst_eq, Props.C14.runCmd_subst_eq, exRegion_withTail]
  cases exRegion ed loc with
  | none => rfl
  | some p =>
    obtain ⟨⟨rc, b, e⟩, ed1⟩ := p
    simp only [tailR_some, tailR_ite, substPrep_withTail, withTail_mkRe, substLoop_withTail]
    have h1 : (withTail L (Props.C14.substPrep ed1 arg).1).xkwddir = (Props.C14.substPrep ed1 arg).1.xkwddir := rfl
    have h2 : (withTail L (Props.C14.substPrep ed1 arg).1).xkwd = (Props.C14.substPrep ed1 arg).1.xkwd := rfl
    rw [h1, h2]
    by_cases c1 : (rc != 0) = true
    · simp only [c1, if_true]
    simp only [c1, Bool.false_eq_true, if_false]
    by_cases c2 : ((Props.C14.substPrep ed1 arg).1.xkwddir == 0) = true
    · simp only [c2, if_true]
    simp only [c2, Bool.false_eq_true, if_false]
    cases (Props.C14.substPrep ed1 arg).1.mkRe (Props.C14.substPrep ed1 arg).1.xkwd with
    | none => rfl
    | some o =>
      cases o with
      | none => rfl
      | some re =>
        simp only []
        cases Props.C14.substLoop re (Props.C14.substPrep ed1 arg).2 b (e - b).toNat (Props.C14.substPrep ed1 arg).1 with
        | none => rfl
        | some ed2 => rfl

/-! ### `:w` -/

theorem Loc.ite {a x y : Ed} (c : Prop) [Decidable c] (hx : Loc a x) (hy : Loc a y) :
    Loc a (if c then x else y) := by
  split <;> assumption

theorem ecWrite_loc {ed ed' : Ed} {loc cmd arg : Bytes} {r : Int}
    (hw : ecWrite ed loc cmd arg = some (r, ed')) : Loc ed ed' := by
  unfold ecWrite at hw
  simp only [] at hw
  split at hw
  · cases hw
  · rename_i path ed1 hp
    have h1 : Loc ed ed1 := by
      split at hp
      · exact Loc.of_same (pathExpand_same hp)
      · cases hp; exact Loc.refl _
    have hxx : ∀ (m : Bool) (ed2 : Ed), (if (List.headD cmd 0 == 120) = true then some (ed1.modifiedAt 0) else some (true, ed1)) = some (m, ed2) → Loc ed ed2 := by
      intro m ed2 hx
      split at hx
      · have e := (some_pair_inj (b := (ed1.modifiedAt 0).2) hx).2
        rw [← e, modifiedAt_eq]
        cases hb : ed1.bufs.getD 0 none with
        | none => exact h1
        | some b => exact h1.trans (loc_bumpAt0 ed1 b hb)
      · cases hx; exact h1
    split at hw
    · cases hw
    · rename_i ed2 hx
      cases hw
      exact hxx _ _ hx
    · rename_i ed2 hx
      have h2 : Loc ed ed2 := hxx _ _ hx
      split at hw
      · cases hw
      · rename_i rc b e ed3 hr
        have h3 : Loc ed ed3 := h2.same (exRegion_same hr)
        split at hw
        · cases hw; exact h3
        · split at hw
          · cases hw
          · rename_i cur hcur
            split at hw
            · split at hw
              · cases hw; exact h3
              · cases hw
                exact Loc.ite _ (h3.to rfl rfl) (h3.to rfl rfl)
            · split at hw
              · cases hw
              · rename_i err ed4 hs
                have h4 : Loc ed ed4 := h3.same (lbufSaveP_io _ _ _ _ _ _ _ _ _ hs).same
                cases hw
                exact h4.to rfl rfl
              · rename_i ed4 hs
                have h4 : Loc ed ed4 := h3.same (lbufSaveP_io _ _ _ _ _ _ _ _ _ hs).same
                generalize hE : Ed.show ed4 _ = ed5 at hw
                have h5 : Loc ed ed5 := by rw [← hE]; exact h4.to rfl rfl
                split at hw
                · cases hw
                · rename_i cur2 hcur2
                  generalize hX : (if cur2.path.isEmpty = true then _ else (cur2, ed5) : Buf × Ed) = X at hw
                  have hX1 : X.1.id = cur2.id := by rw [← hX]; split <;> rfl
                  have hX2 : Loc ed X.2 := by rw [← hX]; split <;> first | exact h5 | exact h5.to rfl rfl
                  have hX3 : X.2.cur = some cur2 := by rw [← hX]; split <;> exact hcur2
                  obtain ⟨c3, ed6⟩ := X
                  simp only [] at hw hX1 hX2 hX3
                  repeat' (split at hw)
                  all_goals
                    cases hw
                    exact hX2.trans (loc_setCur hX3 hX1)


theorem modifiedAt0_withTail (L : List (Option Buf)) (ed : Ed) :
    (withTail L ed).modifiedAt 0 = ((ed.modifiedAt 0).1, withTail L (ed.modifiedAt 0).2) := by
  cases hb : ed.bufs.getD 0 none with
  | none =>
    have hb' : (withTail L ed).bufs.getD 0 none = none := hb
    unfold Ed.modifiedAt
    simp only [hb, hb']
  | some b =>
    have hb' : (withTail L ed).bufs.getD 0 none = some b := hb
    have e1 : ed.modifiedAt 0 = ((modified b.lb).1, bumpAt ed 0 b) := by
      unfold Ed.modifiedAt; simp only [hb]; rfl
    have e2 : (withTail L ed).modifiedAt 0 = ((modified b.lb).1, bumpAt (withTail L ed) 0 b) := by
      unfold Ed.modifiedAt; simp only [hb']; rfl
    rw [e1, e2, bumpAt0_withTail L ed b hb]

theorem writeFinish_withTail (L : List (Option Buf)) (ed : Ed) (c0 cur : Buf) (path : Bytes) (b e : Int)
    (hc : ed.cur = some c0) :
    writeFinish (withTail L ed) cur path b e = tailR L (writeFinish ed cur path b e) := by
  unfold writeFinish
  by_cases hp : cur.path.isEmpty = true
  · simp only [hp, if_true, tailR_ite, tailR_some]
    have h1 : ({ withTail L ed with regs := (withTail L ed).regs.put 37 path 0 } : Ed) =
        withTail L { ed with regs := ed.regs.put 37 path 0 } := rfl
    have hc' : ({ ed with regs := ed.regs.put 37 path 0 } : Ed).cur = some c0 := hc
    simp only [h1, withTail_setCur L _ c0 _ hc']
    rfl
  · simp only [hp, Bool.false_eq_true, if_false, withTail_len, withTail_mtimeOf, tailR_ite, tailR_some,
      withTail_setCur L ed c0 _ hc]

/-- `ec_write` from the save on -/
def writeSave (ed : Ed) (cur : Buf) (cmd path : Bytes) (be : Int × Int) : R Int :=
  match be with
  | (b, e) =>
    if path.headD 0 == 33 then
      if path.length < 2 then some (1, ed) else
      let ed := ed.show ([34] ++ path ++ strOf "\"  [=" ++ intStr (e - b) ++ strOf "]  [w]")
      some (0, if ed.xvis then { ed with unmodelled := true } else ed)
    else
      let ts := if cur.path == path then cur.mtime else 0
      match lbufSaveP ed cur.lb b.toNat e path (hasBang cmd) ts with
      | none => none
      | some (some err, ed) => some (1, ed.show err)
      | some (none, ed) =>
        let ed := ed.show ([34] ++ path ++ strOf "\"  [=" ++ intStr (e - b) ++ strOf "]  [w]")
        match ed.cur with
        | none => none
        | some cur => writeFinish ed cur path b e

/-- `ec_write` from the address on -/
def writeRegion (ed : Ed) (loc cmd : Bytes) (path : Option Bytes) : R Int :=
  match exRegion ed loc with
  | none => none
  | some ((rc, b, e), ed) =>
    if rc != 0 || path.isNone then some (1, ed) else
    match ed.cur with
    | none => none
    | some cur => writeSave ed cur cmd (path.getD []) (if loc.isEmpty then ((0 : Int), ed.len) else (b, e))

/-- `ec_write` after the `:x` check -/
def writeAfterX (loc cmd : Bytes) (path : Option Bytes) (xchk : Option (Bool × Ed)) : R Int :=
  match xchk with
  | none => none
  | some (false, ed) => some (0, ed)
  | some (true, ed) => writeRegion ed loc cmd path

/-- `ec_write` after the path is known -/
def writeAfterPath (loc cmd : Bytes) (pr : R (Option Bytes)) : R Int :=
  match pr with
  | none => none
  | some (path, ed) => writeAfterX loc cmd path (if cmd.headD 0 == 120 then some (ed.modifiedAt 0) else some (true, ed))

theorem ecWrite_eq (ed : Ed) (loc cmd arg : Bytes) :
    ecWrite ed loc cmd arg =
      writeAfterPath loc cmd (if !arg.isEmpty then pathExpand ed arg true else some (ed.cur.map (·.path), ed)) := by
  unfold ecWrite writeAfterPath writeAfterX writeRegion writeSave writeFinish
  rfl

theorem writeSave_withTail (L : List (Option Buf)) (ed : Ed) (cur : Buf) (cmd path : Bytes) (be : Int × Int) :
    writeSave (withTail L ed) cur cmd path be = tailR L (writeSave ed cur cmd path be) := by
  obtain ⟨b, e⟩ := be
  unfold writeSave
  simp only []
  by_cases h1 : (path.headD 0 == 33) = true
  · simp only [h1, if_true, tailR_ite, tailR_some, withTail_ite]
    rfl
  simp only [h1, Bool.false_eq_true, if_false, lbufSaveP_withTail]
  cases lbufSaveP ed cur.lb b.toNat e path (hasBang cmd) (if cur.path == path then cur.mtime else 0) with
  | none => rfl
  | some p =>
    obtain ⟨err, ed1⟩ := p
    cases err with
    | some er => rfl
    | none =>
      simp only [tailR_some]
      have hc : ((withTail L ed1).show ([34] ++ path ++ strOf "\"  [=" ++ intStr (e - b) ++ strOf "]  [w]")).cur =
          (ed1.show ([34] ++ path ++ strOf "\"  [=" ++ intStr (e - b) ++ strOf "]  [w]")).cur := rfl
      rw [hc]
      cases hcur : (ed1.show ([34] ++ path ++ strOf "\"  [=" ++ intStr (e - b) ++ strOf "]  [w]")).cur with
      | none => rfl
      | some c1 =>
        simp only []
        exact writeFinish_withTail L _ c1 c1 path b e hcur

theorem writeRegion_withTail (L : List (Option Buf)) (ed : Ed) (loc cmd : Bytes) (path : Option Bytes) :
    writeRegion (withTail L ed) loc cmd path = tailR L (writeRegion ed loc cmd path) := by
  unfold writeRegion
  rw [exRegion_withTail]
  cases exRegion ed loc with
  | none => rfl
  | some p =>
    obtain ⟨⟨rc, b, e⟩, ed1⟩ := p
    simp only [tailR_some, tailR_ite, withTail_cur, withTail_len]
    by_cases h1 : (rc != 0 || path.isNone) = true
    · simp only [h1, if_true]
    simp only [h1, Bool.false_eq_true, if_false]
    cases ed1.cur with
    | none => rfl
    | some cur => simp only [writeSave_withTail]

theorem ecWrite_withTail (L : List (Option Buf)) (ed : Ed) (hA : Alt L ed) (loc cmd arg : Bytes) :
    ecWrite (withTail L ed) loc cmd arg = tailR L (ecWrite ed loc cmd arg) := by
  rw [ecWrite_eq, ecWrite_eq]
  have hpr : (if (!arg.isEmpty) = true then pathExpand (withTail L ed) arg true
      else some ((withTail L ed).cur.map (·.path), withTail L ed)) =
      tailR L (if (!arg.isEmpty) = true then pathExpand ed arg true else some (ed.cur.map (·.path), ed)) := by
    split
    · exact pathExpand_withTail L ed hA arg true
    · rfl
  rw [hpr]
  cases (if (!arg.isEmpty) = true then pathExpand ed arg true else some (ed.cur.map (·.path), ed)) with
  | none => rfl
  | some p =>
    obtain ⟨path, ed1⟩ := p
    simp only [tailR_some, writeAfterPath]
    by_cases hx : (cmd.headD 0 == 120) = true
    · simp only [hx, if_true, modifiedAt0_withTail]
      unfold writeAfterX
      generalize ed1.modifiedAt 0 = m
      obtain ⟨mb, me⟩ := m
      cases mb with
      | false => rfl
      | true => exact writeRegion_withTail L me loc cmd path
    · simp only [hx, Bool.false_eq_true, if_false]
      exact writeRegion_withTail L ed1 loc cmd path

end Neatvi.Lemmas.C20c
