import NeatviVerif.Lemmas.C05cFrame
/-!
# C05c helper lemmas: `Same` (the counts are a frame) for the commands of vi.c

Everything of `Model/ViCmd.lean` but `vcMotion`, `viPre`, `commandTail`, `viStep`.
-/
set_option linter.unusedSimpArgs false
set_option linter.unusedVariables false

namespace Neatvi.Lemmas.C05c
open Neatvi Neatvi.Uc Neatvi.Lbuf Neatvi.Ex Neatvi.Mot Neatvi.Vi

theorem same_markSave : Same markSave := by
  unfold markSave
  same_tac
macro_rules | `(tactic| same_leaf) => `(tactic| with_reducible exact same_markSave)

theorem same_drawfixTop (r : Int) (p : Bool) : Same (drawfixTop r p) := by
  unfold drawfixTop
  same_tac
macro_rules | `(tactic| same_leaf) => `(tactic| with_reducible exact same_drawfixTop _ _)

theorem same_viNextlineR : Same viNextlineR := by
  unfold viNextlineR
  same_tac
macro_rules | `(tactic| same_leaf) => `(tactic| with_reducible exact same_viNextlineR)

/-! ### insert mode -/

theorem same_ledInput_loop (xai : Bool) (f : Nat) (sb : Bytes) (pref : Option Bytes) (post ai : Bytes) :
    Same (ledInput.loop xai f sb pref post ai) := by
  induction f generalizing sb pref post ai with
  | zero => unfold ledInput.loop; exact Same.pure _
  | succ f ih =>
    unfold ledInput.loop
    repeat' (first | exact ih _ _ _ _ | same_step)

theorem same_ledInput (pref post : Bytes) : Same (ledInput pref post) := by
  unfold ledInput
  repeat' (first | exact same_ledInput_loop _ _ _ _ _ _ | same_step)
macro_rules | `(tactic| same_leaf) => `(tactic| with_reducible exact same_ledInput _ _)

theorem same_viInput (pref post : Bytes) : Same (viInput pref post) := by
  unfold viInput
  same_tac
macro_rules | `(tactic| same_leaf) => `(tactic| with_reducible exact same_viInput _ _)

/-! ### operators -/

theorem same_viYank (r1 o1 r2 o2 : Int) (ln : Bool) : Same (viYank r1 o1 r2 o2 ln) := by
  unfold viYank
  same_tac
macro_rules | `(tactic| same_leaf) => `(tactic| with_reducible exact same_viYank _ _ _ _ _)

theorem same_viDelete (r1 o1 r2 o2 : Int) (ln : Bool) : Same (viDelete r1 o1 r2 o2 ln) := by
  unfold viDelete
  same_tac
macro_rules | `(tactic| same_leaf) => `(tactic| with_reducible exact same_viDelete _ _ _ _ _)

theorem same_viChange (r1 o1 r2 o2 : Int) (ln : Bool) : Same (viChange r1 o1 r2 o2 ln) := by
  unfold viChange
  same_tac
macro_rules | `(tactic| same_leaf) => `(tactic| with_reducible exact same_viChange _ _ _ _ _)

theorem same_viCase (r1 o1 r2 o2 : Int) (ln : Bool) (cmd : Nat) : Same (viCase r1 o1 r2 o2 ln cmd) := by
  unfold viCase
  same_tac
macro_rules | `(tactic| same_leaf) => `(tactic| with_reducible exact same_viCase _ _ _ _ _ _)

theorem same_viShift_go (r2 dir : Int) (f : Nat) (i : Int) : Same (viShift.go r2 dir f i) := by
  induction f generalizing i with
  | zero => unfold viShift.go; exact Same.pure _
  | succ f ih =>
    unfold viShift.go
    repeat' (first | exact ih _ | same_step)

theorem same_viShift (r1 r2 dir : Int) : Same (viShift r1 r2 dir) := by
  unfold viShift
  repeat' (first | exact same_viShift_go _ _ _ _ | same_step)
macro_rules | `(tactic| same_leaf) => `(tactic| with_reducible exact same_viShift _ _ _)

/-! ### the other commands -/

theorem same_vcInsert (cmd : Nat) : Same (vcInsert cmd) := by
  unfold vcInsert
  same_tac
macro_rules | `(tactic| same_leaf) => `(tactic| with_reducible exact same_vcInsert _)

theorem same_vcPut (cmd : Nat) : Same (vcPut cmd) := by
  unfold vcPut
  same_tac
macro_rules | `(tactic| same_leaf) => `(tactic| with_reducible exact same_vcPut _)

theorem same_vcJoin : Same vcJoin := by
  unfold vcJoin
  same_tac
macro_rules | `(tactic| same_leaf) => `(tactic| with_reducible exact same_vcJoin)

theorem same_vcReplace : Same vcReplace := by
  unfold vcReplace
  same_tac
macro_rules | `(tactic| same_leaf) => `(tactic| with_reducible exact same_vcReplace)

theorem same_scrollForward (cnt : Int) : Same (scrollForward cnt) := by
  unfold scrollForward
  same_tac
macro_rules | `(tactic| same_leaf) => `(tactic| with_reducible exact same_scrollForward _)

theorem same_scrollBackward (cnt : Int) : Same (scrollBackward cnt) := by
  unfold scrollBackward
  same_tac
macro_rules | `(tactic| same_leaf) => `(tactic| with_reducible exact same_scrollBackward _)

theorem same_viWfix : Same viWfix := by
  unfold viWfix
  same_tac
macro_rules | `(tactic| same_leaf) => `(tactic| with_reducible exact same_viWfix)

theorem same_viWait : Same viWait := by
  unfold viWait
  same_tac
macro_rules | `(tactic| same_leaf) => `(tactic| with_reducible exact same_viWait)

theorem same_vcExecute : Same vcExecute := by
  unfold vcExecute
  same_tac
macro_rules | `(tactic| same_leaf) => `(tactic| with_reducible exact same_vcExecute)

theorem same_vcRepeat : Same vcRepeat := by
  unfold vcRepeat
  same_tac
macro_rules | `(tactic| same_leaf) => `(tactic| with_reducible exact same_vcRepeat)

/-! ### the parts of an iteration of `vi()` that assign no count -/

theorem same_motionTail (mv nrow noff : Int) : Same (motionTail mv nrow noff) := by
  unfold motionTail
  same_tac
macro_rules | `(tactic| same_leaf) => `(tactic| with_reducible exact same_motionTail _ _ _)

theorem same_viPost (cont : Option Nat) : Same (viPost cont) := by
  unfold viPost
  same_tac
macro_rules | `(tactic| same_leaf) => `(tactic| with_reducible exact same_viPost _)

end Neatvi.Lemmas.C05c
