import NeatviVerif.Lemmas.C06dRegion
import NeatviVerif.Lemmas.C02Ex
import NeatviVerif.Props.C06c
/-!
# C06d: the line commands with the region given by the reference address semantics
-/
set_option linter.unusedSimpArgs false
namespace Neatvi.Lemmas.C06d
open Neatvi Neatvi.Lbuf Neatvi.Ex Neatvi.Rset Neatvi.Lemmas.C06 Neatvi.Lemmas.C06b

/-- a result of `ex_region` on a rendered location is the reference's result -/
theorem region_transfer (ed : Ed) (loc : Loc) (hok : loc.Ok) (hx : ed.xrow ≠ -1000000) (r : Nat) (b e : Int) (ed1 : Ed)
    (h : exRegion ed loc.render = some ((r, b, e), ed1)) :
    ∃ c1, refRegion (worldOf ed) (cursorOf ed) loc = some ((r, b, e), c1) ∧ ed1 = withCursor ed c1 := by
  rw [exRegion_ref ed loc hok hx] at h
  cases hr : refRegion (worldOf ed) (cursorOf ed) loc with
  | none => rw [hr] at h; cases h
  | some x =>
    obtain ⟨y, c1⟩ := x
    rw [hr] at h
    simp only [Option.map_some, Option.some.injEq, Prod.mk.injEq] at h
    exact ⟨c1, by rw [h.1], h.2.symm⟩

/-- the reference region of a location in state `ed` (`(0, 0)` when the evaluation does not end) -/
def refRegionOf (ed : Ed) (loc : Loc) : Int × Int :=
  match refRegion (worldOf ed) (cursorOf ed) loc with
  | some ((_, b, e), _) => (b, e)
  | none => (0, 0)

theorem regionOf_ref (ed : Ed) (loc : Loc) (hok : loc.Ok) (hx : ed.xrow ≠ -1000000) :
    Props.C06b.regionOf ed loc.render = refRegionOf ed loc := by
  unfold Props.C06b.regionOf refRegionOf
  rw [exRegion_ref ed loc hok hx]
  cases refRegion (worldOf ed) (cursorOf ed) loc with
  | none => rfl
  | some x => rfl

/-! ### `:w` leaves the text alone -/

theorem lines_setCur (ed : Ed) (b b' : Buf) (h : ed.cur = some b) (hl : b'.lb.lines = b.lb.lines) :
    lines (ed.setCur b') = lines ed := by
  unfold lines Ed.lb
  rw [ExFrame.cur_some_set ed b b' h, h]
  simp [hl]

theorem lines_of_bufs' {ed ed' : Ed} (h : ed'.bufs = ed.bufs) : lines ed' = lines ed := by
  unfold lines; rw [ExFrame.lb_of_bufs h]

theorem cur_of_bufs {ed ed' : Ed} (h : ed'.bufs = ed.bufs) : ed'.cur = ed.cur := by
  unfold Ed.cur; rw [h]

theorem lines_of_cur {ed : Ed} {b : Buf} (h : ed.cur = some b) : lines ed = b.lb.lines := by
  unfold lines Ed.lb; rw [h]; rfl

/-- `:w` (any address, any argument, any outcome) does not change a line of the buffer -/
theorem ecWrite_lines (ed ed' : Ed) (loc cmd arg : Bytes) (rc : Int) (h : ecWrite ed loc cmd arg = some (rc, ed')) :
    lines ed' = lines ed := by
  unfold ecWrite at h
  simp only [] at h
  split at h
  · cases h
  · rename_i path ed0 hp
    have h0 : lines ed0 = lines ed := by
      split at hp
      · exact lines_of_bufs' (Lemmas.C02Ex.pathExpand_bufs _ _ _ _ _ hp)
      · cases hp; rfl
    have hmod : ∀ (bb : Bool) (edx : Ed),
        (if (cmd.headD 0 == 120) = true then some (ed0.modifiedAt 0) else some (true, ed0)) = some (bb, edx) →
        lines edx = lines ed := by
      intro bb edx hx
      split at hx
      · simp only [Option.some.injEq] at hx
        have : edx = (ed0.modifiedAt 0).2 := by rw [hx]
        rw [this, modifiedAt0_lines]; exact h0
      · simp only [Option.some.injEq, Prod.mk.injEq] at hx
        rw [← hx.2]; exact h0
    split at h
    · cases h
    · rename_i edx hx
      cases h
      exact hmod _ _ hx
    · rename_i edx hx
      have h1 : lines edx = lines ed := hmod _ _ hx
      split at h
      · cases h
      · rename_i r b e ed1 hreg
        have h2 : lines ed1 = lines ed := (region_all _ _ _ _ _ _ hreg).1.lines.trans h1
        split at h
        · cases h; exact h2
        · split at h
          · cases h
          · rename_i cur hcur
            generalize (if loc.isEmpty = true then ((0 : Int), ed1.len) else (b, e)) = be at h
            split at h
            · split at h
              · cases h; exact h2
              · cases h
                split
                · exact h2
                · exact h2
            · split at h
              · cases h
              · rename_i err ed2 hs
                cases h
                exact (lines_of_bufs' (Lemmas.C02Ex.lbufSaveP_bufs _ _ _ _ _ _ _ _ _ hs)).trans h2
              · rename_i ed2 hs
                have hb2 := Lemmas.C02Ex.lbufSaveP_bufs _ _ _ _ _ _ _ _ _ hs
                have h3 : lines ed2 = lines ed := (lines_of_bufs' hb2).trans h2
                generalize hedm : ed2.show _ = edm at h
                have h3' : lines edm = lines ed := by rw [← hedm]; exact h3
                split at h
                · cases h
                · rename_i cur2 hcur2
                  by_cases hpe : cur2.path.isEmpty = true
                  · simp only [hpe, if_true] at h
                    split at h
                    · cases h
                      refine (lines_setCur _ cur2 _ ?_ ?_).trans ?_ <;> first | exact hcur2 | exact h3' | rfl
                    · split at h
                      · cases h
                        refine (lines_setCur _ cur2 _ ?_ ?_).trans ?_ <;> first | exact hcur2 | exact h3' | rfl
                      · cases h
                        refine (lines_setCur _ cur2 _ ?_ ?_).trans ?_ <;> first | exact hcur2 | exact h3' | rfl
                  · simp only [hpe, Bool.false_eq_true, if_false] at h
                    split at h
                    · cases h
                      refine (lines_setCur _ cur2 _ ?_ ?_).trans ?_ <;> first | exact hcur2 | exact h3' | rfl
                    · split at h
                      · cases h
                        refine (lines_setCur _ cur2 _ ?_ ?_).trans ?_ <;> first | exact hcur2 | exact h3' | rfl
                      · cases h
                        refine (lines_setCur _ cur2 _ ?_ ?_).trans ?_ <;> first | exact hcur2 | exact h3' | rfl

/-! ### every covered command is its reference operation on the reference region -/

open Neatvi.Lemmas.Hist (optLines) in
/-- the reference operation of a parsed line command in state `ed`, its region being `b..e` -/
def opOf (ed : Ed) (c : Props.C06b.LineCmd) (b e : Int) : LineOp :=
  if c.hd == "ec_exec" then
    (match pathExpand ed c.arg true with
    | some (some ecmd, _) =>
      (match ed.pipe ecmd (ed.cp b e) with
      | some (some out) => .change (splitLines out)
      | _ => .keep)
    | _ => .keep)
  else if c.hd == "ec_delete" then .delete
  else if c.hd == "ec_insert" then
    (if c.cmd.headD 0 = 97 then .append (optLines c.txt)
     else if c.cmd.headD 0 = 99 then .change (optLines c.txt) else .insert (optLines c.txt))
  else if c.hd == "ec_put" then
    .append (match regGet ed (regName c.arg) with | some buf => splitLines buf | none => [])
  else if c.hd == "ec_read" then .append (Props.C06b.readLines ed c.arg)
  else .keep

theorem applySplice_opOf (ed : Ed) (c : Props.C06b.LineCmd) (t : List Bytes) :
    Props.C06b.applySplice t (Props.C06c.spliceOfX ed c 0) =
      (opOf ed c (Props.C06b.regionOf ed c.loc).1 (Props.C06b.regionOf ed c.loc).2).apply t
        (Props.C06b.regionOf ed c.loc).1.toNat (Props.C06b.regionOf ed c.loc).2.toNat := by
  unfold Props.C06c.spliceOfX opOf
  by_cases h1 : (c.hd == "ec_exec") = true
  · rw [if_pos h1, if_pos h1]
    unfold Props.C06c.execSplice
    simp only [bne_self_eq_false, Bool.false_eq_true, if_false]
    cases pathExpand ed c.arg true with
    | none => simp [Props.C06b.applySplice, LineOp.apply]
    | some x =>
      obtain ⟨p, ed1⟩ := x
      cases p with
      | none => simp [Props.C06b.applySplice, LineOp.apply]
      | some ecmd =>
        simp only []
        cases ed.pipe ecmd (ed.cp (Props.C06b.regionOf ed c.loc).1 (Props.C06b.regionOf ed c.loc).2) with
        | none => simp [Props.C06b.applySplice, LineOp.apply]
        | some o =>
          cases o with
          | none => simp [Props.C06b.applySplice, LineOp.apply]
          | some out => simp [Props.C06b.applySplice, LineOp.apply]
  · rw [if_neg h1, if_neg h1]
    unfold Props.C06b.spliceOf
    simp only [bne_self_eq_false, Bool.false_eq_true, if_false]
    by_cases h2 : (c.hd == "ec_delete") = true
    · rw [if_pos h2, if_pos h2]; simp [Props.C06b.applySplice, LineOp.apply]
    · rw [if_neg h2, if_neg h2]
      by_cases h3 : (c.hd == "ec_insert") = true
      · rw [if_pos h3, if_pos h3]
        by_cases c1 : c.cmd.headD 0 = 97
        · simp only [c1, show ¬ ((97 : Nat) = 99) by decide, if_true, if_false, Props.C06b.applySplice, LineOp.apply]
        · by_cases c2 : c.cmd.headD 0 = 99
          · simp only [c2, show ¬ ((99 : Nat) = 97) by decide, if_true, if_false, Props.C06b.applySplice, LineOp.apply]
          · simp only [c1, c2, if_false, Props.C06b.applySplice, LineOp.apply]
      · rw [if_neg h3, if_neg h3]
        by_cases h4 : (c.hd == "ec_put") = true
        · rw [if_pos h4, if_pos h4]
          cases regGet ed (regName c.arg) <;> simp [Props.C06b.applySplice, LineOp.apply]
        · rw [if_neg h4, if_neg h4]
          by_cases h5 : (c.hd == "ec_read") = true
          · rw [if_pos h5, if_pos h5]; simp [Props.C06b.applySplice, LineOp.apply]
          · rw [if_neg h5, if_neg h5]; simp [Props.C06b.applySplice, LineOp.apply]

/-- **the frame law with reference addresses.**  A covered line command (`a i c d y pu k = p r rs`, or a filter
    `[range]!cmd`) whose address is the rendering of the tree `loc`: if it returns 0, the text after it is the text
    before it with the command's reference operation applied to the region the *reference evaluator* gives for
    `loc`; if it returns anything else, the text is unchanged -/
theorem cmd_ref (f : Nat) (ed ed' : Ed) (c : Props.C06b.LineCmd) (rc : Int) (loc : Loc)
    (hloc : c.loc = loc.render) (hok : loc.Ok) (hx : ed.xrow ≠ -1000000) (hc : Props.C06c.CoveredX c)
    (h : runCmd (f + 1) ed c.hd c.loc c.cmd c.arg c.txt = some (rc, ed')) :
    (rc = 0 → lines ed' = (opOf ed c (refRegionOf ed loc).1 (refRegionOf ed loc).2).apply (lines ed)
        (refRegionOf ed loc).1.toNat (refRegionOf ed loc).2.toNat) ∧
    (rc ≠ 0 → lines ed' = lines ed) := by
  obtain ⟨k1, k2, k3⟩ := Props.C06c.cmd_splice_x f ed ed' c rc hc h
  constructor
  · intro h0
    subst h0
    rw [k3, applySplice_opOf, hloc, regionOf_ref ed loc hok hx]
  · intro h0
    rw [k3]
    have : Props.C06c.spliceOfX ed c rc = (0, 0, []) := by
      unfold Props.C06c.spliceOfX Props.C06c.execSplice Props.C06b.spliceOf
      have : (rc != 0) = true := by simpa using h0
      simp [this]
    rw [this, Props.C06b.applySplice_id]

end Neatvi.Lemmas.C06d
