import NeatviVerif.Props.C20b
import NeatviVerif.Props.C15
import NeatviVerif.Lemmas.C02cTable
/-!
# C20c lemmas, part 1: frames

* `Same ed ed'`: the buffer table and the counter of buffer numbers are untouched (what the address
  parser, the path expansion, the file writer … leave alone);
* `IoOnly ed ed'`: only the file system, the clock and the fault schedule counters moved
  (`lbuf_save`);
* `Loc ed ed'`: a command acting on the current buffer only: every parked slot is *exactly* as it
  was, slot 0 keeps its occupation and its number;
* `Quiet ed ed'`: nothing observable moved in any slot: the records agree up to the sequence counter
  of the text (`lbuf_modified` bumps it), the view is the same.
-/
namespace Neatvi.Lemmas.C20c
open Neatvi Neatvi.Lbuf Neatvi.Ex Neatvi.Rset Neatvi.Props.C20 Neatvi.Props.C20b Neatvi.Lemmas.C20b
open Neatvi.Lemmas.ExFrame

/-! ### `Same` -/

/-- the buffer table and the counter of buffer numbers are the same -/
def Same (ed ed' : Ed) : Prop := ed'.bufs = ed.bufs ∧ ed'.bufsCnt = ed.bufsCnt

theorem Same.refl (ed : Ed) : Same ed ed := ⟨rfl, rfl⟩
theorem Same.trans {a b c : Ed} (h1 : Same a b) (h2 : Same b c) : Same a c :=
  ⟨h2.1.trans h1.1, h2.2.trans h1.2⟩

/-- as `frame_split` of `Lemmas/ExFrame.lean`, closing the leaves with `Same.refl`-like facts -/
macro "same_split" h:ident : tactic => `(tactic| (
  repeat' (split at $h:ident)
  all_goals (try (simp only [Option.some.injEq, Prod.mk.injEq, reduceCtorEq] at $h:ident))
  all_goals (try (have h2 := And.right $h:ident; subst h2))
  all_goals (first | exact ⟨rfl, rfl⟩ | skip)))

theorem exSearch_same {ed ed' : Ed} {loc : Bytes} {r : Int × Bytes}
    (h : exSearch ed loc = some (r, ed')) : Same ed ed' := by
  unfold exSearch at h
  simp only [] at h
  same_split h

theorem exLineno_same {ed ed' : Ed} {loc : Bytes} {r : Int × Bytes}
    (h : exLineno ed loc = some (r, ed')) : Same ed ed' := by
  unfold exLineno at h
  simp only [] at h
  split at h
  · cases h
  · rename_i n rest ed1 hb
    have h1 : Same ed ed1 := by
      same_split hb
      rename_i hs _
      exact exSearch_same hs
      rename_i hs _
      exact exSearch_same hs
    same_split h
    all_goals exact h1

theorem exRegion_go_same : ∀ (f : Nat) (ed : Ed) (loc : Bytes) (na : Nat) (b e : Int) (r : Int × Int) (ed' : Ed),
    exRegion.go f ed loc na b e = some (r, ed') → Same ed ed' := by
  intro f
  induction f with
  | zero => intro ed loc na b e r ed' h; rw [exRegion.go] at h; cases h; exact Same.refl _
  | succ f ih =>
    intro ed loc na b e r ed' h
    rw [exRegion.go] at h
    simp only [] at h
    split at h
    · cases h; exact Same.refl _
    · split at h
      · cases h
      · rename_i n rest ed1 hl
        have h1 := exLineno_same hl
        split at h
        · cases h; exact h1
        · split at h
          · cases h; exact h1
          · have := ih _ _ _ _ _ _ _ h
            refine Same.trans ?_ this
            split
            · exact ⟨h1.1, h1.2⟩
            · exact h1

theorem exRegion_same {ed ed' : Ed} {loc : Bytes} {r : Nat × Int × Int}
    (h : exRegion ed loc = some (r, ed')) : Same ed ed' := by
  unfold exRegion at h
  simp only [] at h
  split at h
  · cases h; exact Same.refl _
  · split at h
    · cases h; exact Same.refl _
    · split at h
      · cases h
      · rename_i hg
        have h1 := exRegion_go_same _ _ _ _ _ _ _ _ hg
        same_split h
        all_goals exact h1

theorem pathExpand_same {ed ed' : Ed} {src : Bytes} {sp : Bool} {r : Option Bytes}
    (h : pathExpand ed src sp = some (r, ed')) : Same ed ed' := by
  unfold pathExpand at h
  same_split h

theorem setOpt_same (ed : Ed) (v : String) (val : Int) : Same ed (setOpt ed v val) := by
  unfold setOpt
  repeat' split
  all_goals exact ⟨rfl, rfl⟩

theorem exTxt_same (ed : Ed) (src ex : Bytes) : Same ed (exTxt ed src ex).2 := by
  unfold exTxt
  simp only []
  repeat' split
  all_goals exact ⟨rfl, rfl⟩

theorem foldl_print_same (b : Int) : ∀ (l : List Nat) (ed : Ed),
    Same ed (l.foldl (fun (ed : Ed) (k : Nat) => match ed.line (b + (k : Int)) with | some l => ed.print l | none => ed) ed) := by
  intro l
  induction l with
  | nil => intro ed; exact Same.refl _
  | cons k l ih =>
    intro ed
    rw [List.foldl_cons]
    refine Same.trans ?_ (ih _)
    split <;> exact ⟨rfl, rfl⟩

theorem globPrep_same (ed : Ed) (arg : Bytes) : Same ed (Props.C15.globPrep ed arg) := by
  unfold Props.C15.globPrep
  repeat' split
  all_goals exact ⟨rfl, rfl⟩

/-! ### `IoOnly`: what `lbuf_save` may move -/

/-- only the file system, the clock and the counters of the fault schedule differ -/
def IoOnly (ed ed' : Ed) : Prop :=
  ∃ fs c k fi, ed' = { ed with files := fs, clock := c, calls := k, fired := fi }

theorem IoOnly.refl (ed : Ed) : IoOnly ed ed := ⟨_, _, _, _, rfl⟩

theorem IoOnly.trans {a b c : Ed} (h1 : IoOnly a b) (h2 : IoOnly b c) : IoOnly a c := by
  obtain ⟨_, _, _, _, e1⟩ := h1
  obtain ⟨_, _, _, _, e2⟩ := h2
  subst e1; subst e2
  exact ⟨_, _, _, _, rfl⟩

theorem ioOnly_putFile (ed : Ed) (f : File) : IoOnly ed (ed.putFile f) := by
  unfold Ed.putFile
  split <;> exact ⟨_, _, _, _, rfl⟩

theorem ioOnly_nextFault (ed : Ed) : IoOnly ed ed.nextFault.2 := ⟨_, _, _, _, rfl⟩

theorem IoOnly.same {ed ed' : Ed} (h : IoOnly ed ed') : Same ed ed' := by
  obtain ⟨_, _, _, _, e⟩ := h; subst e; exact ⟨rfl, rfl⟩

theorem IoOnly.view {ed ed' : Ed} (h : IoOnly ed ed') :
    ed'.xrow = ed.xrow ∧ ed'.xoff = ed.xoff ∧ ed'.xtop = ed.xtop ∧ ed'.xleft = ed.xleft ∧ ed'.xtd = ed.xtd := by
  obtain ⟨_, _, _, _, e⟩ := h; subst e; exact ⟨rfl, rfl, rfl, rfl, rfl⟩

theorem IoOnly.opts {ed ed' : Ed} (h : IoOnly ed ed') :
    ed'.xaw = ed.xaw ∧ ed'.xwa = ed.xwa ∧ ed'.xquit = ed.xquit ∧ ed'.msg = ed.msg := by
  obtain ⟨_, _, _, _, e⟩ := h; subst e; exact ⟨rfl, rfl, rfl, rfl⟩

theorem lbufSave_io (ed ed' : Ed) (lb : Lb) (b : Nat) (e : Int) (path : Bytes) (force : Bool) (ts : Int)
    (r : Option Bytes) (h : lbufSave ed lb b e path force ts = some (r, ed')) : IoOnly ed ed' := by
  unfold lbufSave at h
  rcases hnf : ed.nextFault with ⟨fo, ed1⟩
  have h1 : IoOnly ed ed1 := by
    have := ioOnly_nextFault ed
    rw [hnf] at this; exact this
  simp only [hnf] at h
  generalize LbufIo.wrFinal _ _ _ _ _ _ = w at h
  split at h
  · simp only [Option.some.injEq, Prod.mk.injEq] at h; rw [← h.2]; exact IoOnly.refl _
  · split at h
    · simp only [Option.some.injEq, Prod.mk.injEq] at h; rw [← h.2]; exact IoOnly.refl _
    · cases hfo : fo == 101
      · simp only [hfo, Bool.false_eq_true, if_false] at h
        have hA : ∀ (f1 : File) (c1 : Int), IoOnly ed { ed1.putFile f1 with clock := c1 } := by
          intro f1 c1
          refine h1.trans ((ioOnly_putFile ed1 f1).trans ⟨_, _, _, _, rfl⟩)
        cases w with
        | none => cases h
        | some st =>
          simp only at h
          have hB : ∀ (e2 : Ed) (f2 : File) (c2 : Int) (k2 : Nat), IoOnly ed e2 →
              IoOnly ed { e2.putFile f2 with clock := c2, calls := k2 } := by
            intro e2 f2 c2 k2 h2
            exact h2.trans ((ioOnly_putFile e2 f2).trans ⟨_, _, _, _, rfl⟩)
          cases hok : st.ok
          · simp only [hok, Bool.not_false, if_true, Option.some.injEq, Prod.mk.injEq] at h
            rw [← h.2]
            exact (hB _ _ _ _ (hA _ _)).trans (ioOnly_nextFault _)
          · simp only [hok, Bool.not_true, Bool.false_eq_true, if_false] at h
            generalize hX : Ed.nextFault _ = nf at h
            have h2 : IoOnly ed nf.2 := by
              rw [← hX]
              exact (hB _ _ _ _ (hA _ _)).trans (ioOnly_nextFault _)
            obtain ⟨fc, ed2⟩ := nf
            simp only at h h2
            split at h
            · simp only [Option.some.injEq, Prod.mk.injEq] at h; rw [← h.2]; exact h2
            · simp only [Option.some.injEq, Prod.mk.injEq] at h; rw [← h.2]; exact h2
      · simp only [hfo, if_true, Option.some.injEq, Prod.mk.injEq] at h; rw [← h.2]
        exact h1.trans ⟨_, _, _, _, rfl⟩

theorem lbufSaveP_io (ed ed' : Ed) (lb : Lb) (b : Nat) (e : Int) (path : Bytes) (force : Bool) (ts : Int)
    (r : Option Bytes) (h : lbufSaveP ed lb b e path force ts = some (r, ed')) : IoOnly ed ed' := by
  unfold lbufSaveP at h
  split at h
  · simp only [Option.some.injEq, Prod.mk.injEq] at h
    rw [← h.2]
    split
    · exact ⟨_, _, _, _, rfl⟩
    · exact ioOnly_nextFault ed
  · exact lbufSave_io _ _ _ _ _ _ _ _ _ h

end Neatvi.Lemmas.C20c
