import NeatviVerif.Model.ExCmd
import NeatviVerif.Spec.Zipper
/-!
# C02 lemmas, part 6: the ex layer — `bufs_modified`, buffer switching, the loop of `ec_quit`
-/
namespace Neatvi.Lemmas.C02Ex
open Neatvi Neatvi.Ex Neatvi.Lbuf Neatvi.Spec

/-- slot `idx` (holding `b`) with its sequence counter bumped: all `lbuf_modified` changes -/
def bumpAt (ed : Ed) (idx : Nat) (b : Buf) : Ed :=
  { ed with bufs := ed.bufs.set idx (some { b with lb := (modified b.lb).2 }) }

def showOpt (ed : Ed) : Option Bytes → Ed
  | some m => ed.show m
  | none => ed

theorem getD_some {α} {l : List (Option α)} {i : Nat} {b : α} (h : l.getD i none = some b) :
    i < l.length ∧ l[i]? = some (some b) := by
  rw [List.getD_eq_getElem?_getD] at h
  cases hx : l[i]? with
  | none => rw [hx] at h; cases h
  | some x =>
    rw [hx] at h
    simp only [Option.getD_some] at h
    subst h
    exact ⟨(List.getElem?_eq_some_iff.1 hx).1, rfl⟩

theorem getD_set_self {α} (l : List (Option α)) (i : Nat) (x : Option α) (h : i < l.length) :
    (l.set i x).getD i none = x := by
  simp [List.getD_eq_getElem?_getD, h]

theorem getD_set_ne {α} (l : List (Option α)) (i j : Nat) (x : Option α) (h : i ≠ j) :
    (l.set i x).getD j none = l.getD j none := by
  simp [List.getD_eq_getElem?_getD, List.getElem?_set_ne h]

/-! ### `bufs_modified` -/

/-- a dirty slot without autowrite: refused; the state differs only by the bump and the message -/
theorem guard_refuses_at (ed : Ed) (idx : Nat) (b : Buf) (msg : Option Bytes)
    (hb : ed.bufs.getD idx none = some b) (hd : (modified b.lb).1 = true) (haw : ed.xaw = 0) :
    bufsModified ed idx msg = some (true, showOpt (bumpAt ed idx b) msg) := by
  obtain ⟨hlt, _⟩ := getD_some hb
  have hget := getD_set_self ed.bufs idx (some { b with lb := (modified b.lb).2 }) hlt
  unfold bufsModified
  simp only [hb, Ed.modifiedAt]
  rcases hp : modified b.lb with ⟨m, lb'⟩
  rw [hp] at hd hget
  simp only at hd hget
  subst hd
  simp only [hget, haw, bumpAt, hp]
  cases msg <;> simp [showOpt]

/-- a clean slot: allowed; the state differs only by the bump -/
theorem guard_passes_at (ed : Ed) (idx : Nat) (b : Buf) (msg : Option Bytes)
    (hb : ed.bufs.getD idx none = some b) (hd : (modified b.lb).1 = false) :
    bufsModified ed idx msg = some (false, bumpAt ed idx b) := by
  unfold bufsModified
  simp only [hb, Ed.modifiedAt]
  rcases hp : modified b.lb with ⟨m, lb'⟩
  rw [hp] at hd
  simp only at hd
  subst hd
  simp [bumpAt, hp]

/-! ### nothing is discarded -/

/-- what must survive of a buffer: its path and its text -/
def bufKey (b : Option Buf) : Option (Bytes × Text) := b.map (fun b => (b.path, b.lb.lines))

/-- `ed'` holds the same files, the same quit flag and (up to order) the same buffers as `ed` -/
structure Keeps (ed ed' : Ed) : Prop where
  files : ed'.files = ed.files
  xquit : ed'.xquit = ed.xquit
  bufs : (ed'.bufs.map bufKey).Perm (ed.bufs.map bufKey)

theorem Keeps.refl (ed : Ed) : Keeps ed ed := ⟨rfl, rfl, List.Perm.refl _⟩

theorem Keeps.trans {a b c : Ed} (h1 : Keeps a b) (h2 : Keeps b c) : Keeps a c :=
  ⟨h2.files.trans h1.files, h2.xquit.trans h1.xquit, h2.bufs.trans h1.bufs⟩

theorem map_key_set (l : List (Option Buf)) (i : Nat) (b b' : Buf) (hb : l.getD i none = some b)
    (hk : bufKey (some b') = bufKey (some b)) : (l.set i (some b')).map bufKey = l.map bufKey := by
  obtain ⟨hlt, hget⟩ := getD_some hb
  apply List.ext_getElem?
  intro n
  by_cases hn : i = n
  · subst hn
    obtain ⟨_, hgi⟩ := List.getElem?_eq_some_iff.1 hget
    simp [hlt, hk, hgi]
  · simp [List.getElem?_set_ne hn]

theorem keeps_set (ed : Ed) (i : Nat) (b b' : Buf) (hb : ed.bufs.getD i none = some b)
    (hk : bufKey (some b') = bufKey (some b)) : Keeps ed { ed with bufs := ed.bufs.set i (some b') } :=
  ⟨rfl, rfl, by rw [map_key_set _ _ _ _ hb hk]⟩

theorem keeps_bumpAt (ed : Ed) (i : Nat) (b : Buf) (hb : ed.bufs.getD i none = some b) :
    Keeps ed (bumpAt ed i b) := keeps_set ed i b _ hb rfl

theorem keeps_show (ed : Ed) (m : Bytes) : Keeps ed (ed.show m) := ⟨rfl, rfl, List.Perm.refl _⟩

theorem keeps_showOpt (ed : Ed) (m : Option Bytes) : Keeps ed (showOpt ed m) := by
  cases m
  · exact Keeps.refl _
  · exact keeps_show _ _

theorem keeps_bufsSave (ed : Ed) : Keeps ed ed.bufsSave ∧ ed.bufsSave.bufs.length = ed.bufs.length := by
  unfold Ed.bufsSave
  cases hc : ed.cur with
  | none => exact ⟨Keeps.refl _, rfl⟩
  | some b =>
    have hb : ed.bufs.getD 0 none = some b := hc
    exact ⟨keeps_set ed 0 b _ hb rfl, by simp [Ed.setCur]⟩

theorem keeps_bufsLoad (ed : Ed) : Keeps ed ed.bufsLoad ∧ ed.bufsLoad.bufs = ed.bufs := by
  unfold Ed.bufsLoad
  split <;> exact ⟨⟨rfl, rfl, List.Perm.refl _⟩, rfl⟩

theorem rotate_perm {α} (l : List (Option α)) (i : Nat) (h : i < l.length) :
    ([l.getD i none] ++ l.take i ++ l.drop (i + 1)).Perm l := by
  have h1 : l.getD i none = l[i] := by simp [List.getD_eq_getElem?_getD, h]
  have h2 : l = l.take i ++ l[i] :: l.drop (i + 1) := by
    rw [← List.drop_eq_getElem_cons h, List.take_append_drop]
  rw [h1]
  have hp : (l[i] :: (l.take i ++ l.drop (i + 1))).Perm (l.take i ++ l[i] :: l.drop (i + 1)) :=
    List.perm_middle.symm
  rw [← h2] at hp
  simpa using hp

/-- the bump `bufs_switch` gives the buffer being left -/
def leave (e1 : Ed) : Ed :=
  match e1.bufs.getD 0 none with
  | some b => { e1 with bufs := e1.bufs.set 0 (some { b with lb := (Lbuf.modified b.lb).2 }) }
  | none => e1

theorem bufsSwitch_eq (ed : Ed) (i : Nat) :
    ed.bufsSwitch i =
      ({ leave ed.bufsSave with
          bufs := [(leave ed.bufsSave).bufs.getD i none] ++ (leave ed.bufsSave).bufs.take i ++
            (leave ed.bufsSave).bufs.drop (i + 1) }).bufsLoad := rfl

theorem keeps_leave (e1 : Ed) : Keeps e1 (leave e1) ∧ (leave e1).bufs.length = e1.bufs.length := by
  unfold leave
  cases hb : e1.bufs.getD 0 none with
  | none => exact ⟨Keeps.refl _, rfl⟩
  | some b => exact ⟨keeps_set e1 0 b _ hb rfl, by simp⟩

/-- `bufs_switch` to an existing slot only permutes the table (and bumps the buffer being left) -/
theorem keeps_bufsSwitch (ed : Ed) (i : Nat) (h : i < ed.bufs.length) : Keeps ed (ed.bufsSwitch i) := by
  rw [bufsSwitch_eq]
  obtain ⟨k1, l1⟩ := keeps_bufsSave ed
  obtain ⟨k2, l2⟩ := keeps_leave ed.bufsSave
  generalize leave ed.bufsSave = e2 at k2 l2
  have k3 : Keeps e2 { e2 with bufs := [e2.bufs.getD i none] ++ e2.bufs.take i ++ e2.bufs.drop (i + 1) } :=
    ⟨rfl, rfl, (rotate_perm e2.bufs i (by omega)).map bufKey⟩
  exact (k1.trans k2).trans (k3.trans (keeps_bufsLoad _).1)

/-! ### the loop of `ec_quit` -/

/-- without `!` and without `a`: if some slot at or after `i` (within the fuel) is dirty, the loop
    stops without quitting, and nothing is discarded -/
theorem each_refuses (cmd : Bytes) (hbang : hasBang cmd = false) : ∀ (g i : Nat) (ed : Ed), ed.xaw = 0 →
    (∃ j b, i ≤ j ∧ j < i + g ∧ ed.bufs.getD j none = some b ∧ (modified b.lb).1 = true) →
    ∃ ed', runCmd.each cmd false g i ed = some (true, ed') ∧ Keeps ed ed' := by
  intro g
  induction g with
  | zero => intro i ed _ ⟨j, b, h1, h2, _⟩; omega
  | succ g ih =>
    intro i ed haw ⟨j, bj, hij, hjg, hbj, hdj⟩
    obtain ⟨hjlt, _⟩ := getD_some hbj
    rw [runCmd.each.eq_2]
    have hi : ¬ i ≥ ed.bufs.length := by omega
    simp only [hi, if_false]
    cases hbi : ed.bufs.getD i none with
    | none =>
      have hne : i ≠ j := by intro h; subst h; rw [hbi] at hbj; cases hbj
      exact ih (i + 1) ed haw ⟨j, bj, by omega, by omega, hbj, hdj⟩
    | some b =>
      simp only [hbang, Bool.not_false, Bool.and_self, if_true]
      cases hd : (modified b.lb).1 with
      | true =>
        rw [guard_refuses_at ed i b _ hbi hd haw]
        refine ⟨_, rfl, ?_⟩
        refine (keeps_bumpAt ed i b hbi).trans ((keeps_showOpt _ _).trans (keeps_bufsSwitch _ i ?_))
        simp only [showOpt, Ed.show, bumpAt, List.length_set]
        omega
      | false =>
        rw [guard_passes_at ed i b _ hbi hd]
        simp only [Bool.false_eq_true, if_false]
        have hne : i ≠ j := by
          intro h; subst h; rw [hbi] at hbj
          simp only [Option.some.injEq] at hbj; subst hbj
          rw [hd] at hdj; cases hdj
        obtain ⟨ed', he, hk⟩ := ih (i + 1) (bumpAt ed i b) haw
          ⟨j, bj, by omega, by omega, by simp only [bumpAt]; rw [getD_set_ne _ _ _ _ hne]; exact hbj, hdj⟩
        exact ⟨ed', he, (keeps_bumpAt ed i b hbi).trans hk⟩

/-- the flag does not depend on the sequence counter -/
theorem modified_bump_fst (lb : Lb) : (modified (modified lb).2).1 = (modified lb).1 := rfl

/-- without `!` and without `a`: if every open buffer is clean the loop runs through -/
theorem each_passes (cmd : Bytes) (hbang : hasBang cmd = false) : ∀ (g i : Nat) (ed : Ed),
    (∀ j b, ed.bufs.getD j none = some b → (modified b.lb).1 = false) →
    ∃ ed', runCmd.each cmd false g i ed = some (false, ed') ∧ Keeps ed ed' := by
  intro g
  induction g with
  | zero => intro i ed _; exact ⟨ed, by rw [runCmd.each.eq_1], Keeps.refl _⟩
  | succ g ih =>
    intro i ed hcl
    rw [runCmd.each.eq_2]
    by_cases hi : i ≥ ed.bufs.length
    · simp only [hi, if_true]; exact ⟨ed, rfl, Keeps.refl _⟩
    · simp only [hi, if_false]
      cases hbi : ed.bufs.getD i none with
      | none => exact ih (i + 1) ed hcl
      | some b =>
        simp only [hbang, Bool.not_false, Bool.and_self, if_true]
        rw [guard_passes_at ed i b _ hbi (hcl i b hbi)]
        simp only [Bool.false_eq_true, if_false]
        obtain ⟨hlt, _⟩ := getD_some hbi
        obtain ⟨ed', he, hk⟩ := ih (i + 1) (bumpAt ed i b) (by
          intro j b' hj
          simp only [bumpAt] at hj
          by_cases hij : i = j
          · subst hij
            rw [getD_set_self _ _ _ hlt] at hj
            simp only [Option.some.injEq] at hj
            subst hj
            exact (modified_bump_fst b.lb).trans (hcl i b hbi)
          · rw [getD_set_ne _ _ _ _ hij] at hj
            exact hcl j b' hj)
        exact ⟨ed', he, (keeps_bumpAt ed i b hbi).trans hk⟩

/-! ### `lbuf_save` does not touch the buffer table -/

theorem putFile_bufs (ed : Ed) (f : File) : (ed.putFile f).bufs = ed.bufs := by
  unfold Ed.putFile; split <;> rfl

theorem nextFault_bufs (ed : Ed) : ed.nextFault.2.bufs = ed.bufs := rfl

theorem lbufSave_bufs (ed ed' : Ed) (lb : Lb) (b : Nat) (e : Int) (path : Bytes) (force : Bool) (ts : Int)
    (r : Option Bytes) (h : lbufSave ed lb b e path force ts = some (r, ed')) : ed'.bufs = ed.bufs := by
  unfold lbufSave at h
  rcases hnf : ed.nextFault with ⟨fo, ed1⟩
  have h1 : ed1.bufs = ed.bufs := by rw [← nextFault_bufs ed, hnf]
  simp only [hnf] at h
  generalize LbufIo.wrFinal _ _ _ _ _ _ = w at h
  split at h
  · simp only [Option.some.injEq, Prod.mk.injEq] at h; rw [← h.2]
  · split at h
    · simp only [Option.some.injEq, Prod.mk.injEq] at h; rw [← h.2]
    · cases hfo : fo == 101
      · simp only [hfo, Bool.false_eq_true, if_false] at h
        cases w with
        | none => cases h
        | some st =>
          simp only at h
          cases hok : st.ok
          · simp only [hok, Bool.not_false, if_true, Option.some.injEq, Prod.mk.injEq] at h
            rw [← h.2, nextFault_bufs]; simp [putFile_bufs, h1]
          · simp only [hok, Bool.not_true, Bool.false_eq_true, if_false] at h
            generalize hX : Ed.nextFault _ = nf at h
            have h2 : nf.2.bufs = ed.bufs := by rw [← hX, nextFault_bufs]; simp [putFile_bufs, h1]
            obtain ⟨fc, ed2⟩ := nf
            simp only at h h2
            split at h
            · simp only [Option.some.injEq, Prod.mk.injEq] at h; rw [← h.2]; exact h2
            · simp only [Option.some.injEq, Prod.mk.injEq] at h; rw [← h.2]; exact h2
      · simp only [hfo, if_true, Option.some.injEq, Prod.mk.injEq] at h; rw [← h.2]; exact h1

/-! ### `lbuf_save` as the command handlers call it: the path may be empty (`lbufSaveP`) -/

/-- with a file name, `lbufSaveP` is `lbufSave` -/
theorem lbufSaveP_of_isEmpty_false {ed : Ed} {lb : Lb} {b : Nat} {e : Int} {path : Bytes} {force : Bool} {ts : Int}
    (h : path.isEmpty = false) : lbufSaveP ed lb b e path force ts = lbufSave ed lb b e path force ts := by
  unfold lbufSaveP
  simp only [h, Bool.false_eq_true, if_false]

theorem lbufSaveP_of_ne {ed : Ed} {lb : Lb} {b : Nat} {e : Int} {path : Bytes} {force : Bool} {ts : Int}
    (hpne : path ≠ []) : lbufSaveP ed lb b e path force ts = lbufSave ed lb b e path force ts := by
  apply lbufSaveP_of_isEmpty_false
  cases path with
  | nil => exact absurd rfl hpne
  | cons _ _ => rfl

/-- the state after the failed `open("")`: one scheduled call consumed, `fired` counted when the schedule
    had an error there; nothing else moves -/
def unnamedFail (ed : Ed) : Ed :=
  if ed.nextFault.1 == 101 then { ed.nextFault.2 with fired := ed.nextFault.2.fired + 1 } else ed.nextFault.2

/-- without a file name, `open("")` fails: the save always reports "cannot create file" -/
theorem lbufSaveP_empty (ed : Ed) (lb : Lb) (b : Nat) (e : Int) (force : Bool) (ts : Int) :
    lbufSaveP ed lb b e [] force ts = some (some (strOf "write failed: cannot create file"), unnamedFail ed) := rfl

theorem unnamedFail_bufs (ed : Ed) : (unnamedFail ed).bufs = ed.bufs := by
  unfold unnamedFail; split <;> rfl

theorem unnamedFail_files (ed : Ed) : (unnamedFail ed).files = ed.files := by
  unfold unnamedFail; split <;> rfl

theorem unnamedFail_clock (ed : Ed) : (unnamedFail ed).clock = ed.clock := by
  unfold unnamedFail; split <;> rfl

theorem unnamedFail_calls (ed : Ed) : (unnamedFail ed).calls = ed.calls + 1 := by
  unfold unnamedFail; split <;> rfl

theorem unnamedFail_faults (ed : Ed) : (unnamedFail ed).faults = ed.faults := by
  unfold unnamedFail; split <;> rfl

/-- a save without a file name touches neither the file system nor the clock -/
theorem lbufSaveP_files_of_empty (ed ed' : Ed) (lb : Lb) (b : Nat) (e : Int) (force : Bool) (ts : Int)
    (r : Option Bytes) (h : lbufSaveP ed lb b e [] force ts = some (r, ed')) :
    ed'.files = ed.files ∧ ed'.clock = ed.clock := by
  rw [lbufSaveP_empty] at h
  simp only [Option.some.injEq, Prod.mk.injEq] at h
  rw [← h.2]
  exact ⟨unnamedFail_files ed, unnamedFail_clock ed⟩

/-- a save without a file name never succeeds -/
theorem lbufSaveP_empty_ne_ok (ed ed' : Ed) (lb : Lb) (b : Nat) (e : Int) (force : Bool) (ts : Int) :
    lbufSaveP ed lb b e [] force ts ≠ some (none, ed') := by
  rw [lbufSaveP_empty]
  intro h
  simp only [Option.some.injEq, Prod.mk.injEq] at h
  exact absurd h.1 (by simp)

/-- a save without a file name always returns an error, and that error is "cannot create file" -/
theorem lbufSaveP_empty_err (ed ed' : Ed) (lb : Lb) (b : Nat) (e : Int) (force : Bool) (ts : Int)
    (r : Option Bytes) (h : lbufSaveP ed lb b e [] force ts = some (r, ed')) :
    r = some (strOf "write failed: cannot create file") ∧ ed' = unnamedFail ed := by
  rw [lbufSaveP_empty] at h
  simp only [Option.some.injEq, Prod.mk.injEq] at h
  exact ⟨h.1.symm, h.2.symm⟩

/-- a save the handlers see succeed had a file name, and is a success of `lbufSave` -/
theorem lbufSaveP_ok (ed ed' : Ed) (lb : Lb) (b : Nat) (e : Int) (path : Bytes) (force : Bool) (ts : Int)
    (h : lbufSaveP ed lb b e path force ts = some (none, ed')) :
    path ≠ [] ∧ lbufSave ed lb b e path force ts = some (none, ed') := by
  have hpne : path ≠ [] := by
    intro hp; subst hp; exact lbufSaveP_empty_ne_ok _ _ _ _ _ _ _ h
  exact ⟨hpne, by rw [← lbufSaveP_of_ne hpne]; exact h⟩

/-- `lbufSaveP` never touches the buffer table, whatever the path and the outcome -/
theorem lbufSaveP_bufs (ed ed' : Ed) (lb : Lb) (b : Nat) (e : Int) (path : Bytes) (force : Bool) (ts : Int)
    (r : Option Bytes) (h : lbufSaveP ed lb b e path force ts = some (r, ed')) : ed'.bufs = ed.bufs := by
  by_cases hp : path = []
  · subst hp
    rw [(lbufSaveP_empty_err _ _ _ _ _ _ _ _ h).2]
    exact unnamedFail_bufs ed
  · rw [lbufSaveP_of_ne hp] at h
    exact lbufSave_bufs _ _ _ _ _ _ _ _ _ h

/-! ### unfolding the dispatcher -/

theorem runCmd_quit (f : Nat) (ed : Ed) (loc cmd arg : Bytes) (txt : Option Bytes) :
    runCmd (f + 1) ed "ec_quit" loc cmd arg txt =
      (match (if cmd.headD 0 == 119 || cmd.headD 0 == 120 then ecWrite ed [] cmd arg else some (0, ed) : R Int) with
      | none => none
      | some (rc, ed) =>
        if rc != 0 then some (1, ed) else
        match runCmd.each cmd (cmd.contains 97) (ed.bufs.length + 1) 0 ed with
        | none => none
        | some (true, ed) => some (0, ed)
        | some (false, ed) => some (0, { ed with xquit := true })) := by
  rw [runCmd.eq_2]
  simp only [String.reduceBEq, Bool.false_eq_true, if_false, if_true]
  rfl

theorem runCmd_edit (f : Nat) (ed : Ed) (loc cmd arg : Bytes) (txt : Option Bytes) :
    runCmd (f + 1) ed "ec_edit" loc cmd arg txt = ecEdit f ed cmd arg := by
  rw [runCmd.eq_2]
  simp only [String.reduceBEq, Bool.false_eq_true, if_false, if_true, Bool.or_self]

theorem runCmd_write (f : Nat) (ed : Ed) (loc cmd arg : Bytes) (txt : Option Bytes) :
    runCmd (f + 1) ed "ec_write" loc cmd arg txt = ecWrite ed loc cmd arg := by
  rw [runCmd.eq_2]
  simp only [String.reduceBEq, Bool.false_eq_true, if_false, if_true, Bool.or_self]

theorem ite_or {α} (c : Prop) [Decidable c] (a b : α) :
    (if c then a else b) = a ∨ (if c then a else b) = b := by
  split
  · exact Or.inl rfl
  · exact Or.inr rfl

/-! ### `ec_write` -/

/-- the tail of `ec_write` after `lbuf_save` succeeded -/
def writeFinish (ed : Ed) (cur : Buf) (path : Bytes) (b e : Int) : R Int :=
  let (cur, ed) := if cur.path.isEmpty then ({ cur with path := path }, { ed with regs := ed.regs.put 37 path 0 }) else (cur, ed)
  if cur.path == path && b == 0 && e == ed.len then
    let lb := savedCore cur.lb false
    some (0, ed.setCur { cur with lb := (modified lb).2, mtime := ed.mtimeOf path })
  else if cur.path == path then
    some (0, ed.setCur { cur with lb := unsavedMark cur.lb, mtime := ed.mtimeOf path })
  else some (0, ed.setCur cur)

theorem cur_congr {ed ed' : Ed} (h : ed'.bufs = ed.bufs) : ed'.cur = ed.cur := by
  unfold Ed.cur; rw [h]

theorem len_congr {ed ed' : Ed} (h : ed'.bufs = ed.bufs) : ed'.len = ed.len := by
  unfold Ed.len Ed.lb; rw [cur_congr h]

theorem ecWrite_unfold (ed ed1 ed2 ed3 ed4 : Ed) (loc cmd arg path : Bytes) (b0 e0 b e : Int) (cur : Buf)
    (hpr : (if !arg.isEmpty then pathExpand ed arg true else some (ed.cur.map (·.path), ed)) = some (some path, ed1))
    (hx : (if cmd.headD 0 == 120 then some (ed1.modifiedAt 0) else some (true, ed1) : Option (Bool × Ed)) = some (true, ed2))
    (hr : exRegion ed2 loc = some ((0, b0, e0), ed3))
    (hc : ed3.cur = some cur) (hsh : path.headD 0 ≠ 33)
    (hbe : (if loc.isEmpty then ((0 : Int), ed3.len) else (b0, e0)) = (b, e)) (hpne : path ≠ [])
    (hs : lbufSave ed3 cur.lb b.toNat e path (hasBang cmd) (if cur.path == path then cur.mtime else 0) = some (none, ed4)) :
    ecWrite ed loc cmd arg =
      writeFinish (ed4.show ([34] ++ path ++ strOf "\"  [=" ++ intStr (e - b) ++ strOf "]  [w]")) cur path b e := by
  have hb4 := lbufSave_bufs _ _ _ _ _ _ _ _ _ hs
  rw [← lbufSaveP_of_ne hpne] at hs
  have hc4 : ed4.cur = some cur := by rw [cur_congr hb4, hc]
  have csh : (path.headD 0 == 33) = false := beq_eq_false_iff_ne.2 hsh
  unfold ecWrite
  have hsc : ∀ m, (ed4.show m).cur = some cur := fun m => hc4
  simp only [hpr, hx, hr, hbe, hc, Option.getD_some, Option.isNone_some, Bool.or_false, bne_self_eq_false,
    Bool.false_eq_true, if_false, csh, hs, hsc]
  rfl

theorem setCur_cur (ed : Ed) (c0 c : Buf) (h : ed.cur = some c0) : (ed.setCur c).cur = some c := by
  have h' : ed.bufs.getD 0 none = some c0 := h
  obtain ⟨hlt, _⟩ := getD_some h'
  exact getD_set_self _ _ _ hlt

theorem unsavedMark_dirty (lb : Lb) : (modified (unsavedMark lb)).1 = true := by
  simp [modified, unsavedMark]

theorem writeFinish_spec (ed : Ed) (cur : Buf) (path : Bytes) (b e : Int) (hcur : ed.cur = some cur) :
    ∃ ed5 c5, writeFinish ed cur path b e = some (0, ed5) ∧ ed5.cur = some c5 ∧ ed5.files = ed.files ∧
      c5.path = (if cur.path.isEmpty then path else cur.path) ∧
      ((cur.path = path ∨ cur.path = []) → (b = 0 ∧ e = ed.len) → c5.lb = (modified (savedCore cur.lb false)).2) ∧
      ((cur.path = path ∨ cur.path = []) → ¬ (b = 0 ∧ e = ed.len) →
        c5.lb = unsavedMark cur.lb ∧ (modified c5.lb).1 = true) ∧
      (¬ (cur.path = path ∨ cur.path = []) → c5.lb = cur.lb) := by
  unfold writeFinish
  by_cases hp : cur.path.isEmpty = true
  · have hnil : cur.path = [] := List.isEmpty_iff.1 hp
    have hlen : Ed.len { ed with regs := ed.regs.put 37 path 0 } = ed.len := rfl
    have hcur' : Ed.cur { ed with regs := ed.regs.put 37 path 0 } = some cur := hcur
    simp only [hp, if_true, beq_self_eq_true, Bool.true_and, hlen]
    by_cases hw : (b == 0 && e == ed.len) = true
    · have hw' : b = 0 ∧ e = ed.len := by simpa using hw
      simp only [hw, if_true]
      refine ⟨_, _, rfl, setCur_cur _ _ _ hcur', rfl, rfl, fun _ _ => rfl, fun _ h => absurd hw' h, ?_⟩
      intro h; exact absurd (Or.inr hnil) h
    · have hw' : ¬ (b = 0 ∧ e = ed.len) := by simpa using hw
      simp only [hw]
      refine ⟨_, _, rfl, setCur_cur _ _ _ hcur', rfl, rfl, fun _ h => absurd h hw',
        fun _ _ => ⟨rfl, unsavedMark_dirty _⟩, ?_⟩
      intro h; exact absurd (Or.inr hnil) h
  · have hne : cur.path ≠ [] := fun h => hp (List.isEmpty_iff.2 h)
    simp only [hp, Bool.false_eq_true, if_false]
    by_cases hq : (cur.path == path) = true
    · have hq' : cur.path = path := by simpa using hq
      simp only [hq, Bool.true_and, if_true]
      by_cases hw : (b == 0 && e == ed.len) = true
      · have hw' : b = 0 ∧ e = ed.len := by simpa using hw
        simp only [hw, if_true]
        exact ⟨_, _, rfl, setCur_cur _ _ _ hcur, rfl, rfl, fun _ _ => rfl, fun _ h => absurd hw' h,
          fun h => absurd (Or.inl hq') h⟩
      · have hw' : ¬ (b = 0 ∧ e = ed.len) := by simpa using hw
        simp only [hw]
        exact ⟨_, _, rfl, setCur_cur _ _ _ hcur, rfl, rfl, fun _ h => absurd h hw',
          fun _ _ => ⟨rfl, unsavedMark_dirty _⟩, fun h => absurd (Or.inl hq') h⟩
    · have hq' : cur.path ≠ path := by simpa using hq
      simp only [hq, Bool.false_and, Bool.false_eq_true, if_false]
      refine ⟨_, _, rfl, setCur_cur _ _ _ hcur, rfl, rfl, ?_, ?_, fun _ => rfl⟩
      · intro h; rcases h with h | h
        · exact absurd h hq'
        · exact absurd h hne
      · intro h; rcases h with h | h
        · exact absurd h hq'
        · exact absurd h hne

/-! ### address and path evaluation do not touch the buffer table -/

theorem pathExpand_bufs (ed ed' : Ed) (src : Bytes) (sp : Bool) (r : Option Bytes)
    (h : pathExpand ed src sp = some (r, ed')) : ed'.bufs = ed.bufs := by
  unfold pathExpand at h
  repeat' (first | split at h | (simp only at h; split at h))
  all_goals (try cases h)
  all_goals (try (simp only [Option.some.injEq, Prod.mk.injEq] at h; rw [← h.2]))
  all_goals (try rfl)

theorem exSearch_bufs (ed ed' : Ed) (loc : Bytes) (r : Int × Bytes)
    (h : exSearch ed loc = some (r, ed')) : ed'.bufs = ed.bufs := by
  unfold exSearch at h
  repeat' (first | split at h | (simp only at h; split at h))
  all_goals (try cases h)
  all_goals (try (simp only [Option.some.injEq, Prod.mk.injEq] at h; rw [← h.2]))
  all_goals (try rfl)

theorem exLineno_bufs (ed ed' : Ed) (loc : Bytes) (r : Int × Bytes)
    (h : exLineno ed loc = some (r, ed')) : ed'.bufs = ed.bufs := by
  unfold exLineno at h
  repeat' (first | split at h | (simp only at h; split at h))
  all_goals (try cases h)
  all_goals (try (simp only [Option.some.injEq, Prod.mk.injEq] at h; rw [← h.2]))
  all_goals (try rfl)
  all_goals (rename_i hq; repeat' split at hq)
  all_goals (try cases hq)
  all_goals (try rfl)
  all_goals (try (exact exSearch_bufs _ _ _ _ ‹_›))

theorem exRegion_go_bufs : ∀ (f : Nat) (ed ed' : Ed) (loc : Bytes) (naddr : Nat) (b e : Int) (r : Int × Int),
    exRegion.go f ed loc naddr b e = some (r, ed') → ed'.bufs = ed.bufs := by
  intro f
  induction f with
  | zero =>
    intro ed ed' loc naddr b e r h
    rw [exRegion.go.eq_1] at h
    cases h; rfl
  | succ f ih =>
    intro ed ed' loc naddr b e r h
    rw [exRegion.go.eq_2] at h
    split at h
    · cases h; rfl
    · split at h
      · cases h
      · rename_i n rest ed1 hl
        have h1 := exLineno_bufs _ _ _ _ hl
        split at h
        · cases h; exact h1
        · simp only at h
          split at h
          · cases h; exact h1
          · have := ih _ _ _ _ _ _ _ h
            rw [this]
            split
            · exact h1
            · exact h1

theorem exRegion_bufs (ed ed' : Ed) (loc : Bytes) (r : Nat × Int × Int)
    (h : exRegion ed loc = some (r, ed')) : ed'.bufs = ed.bufs := by
  unfold exRegion at h
  simp only at h
  split at h
  · cases h; rfl
  · split at h
    · cases h; rfl
    · split at h
      · cases h
      · rename_i b e ed1 hg
        have h1 := exRegion_go_bufs _ _ _ _ _ _ _ _ hg
        repeat' split at h
        all_goals (cases h; exact h1)

/-- the current buffer at the point where `ec_write` calls `lbuf_save`: the initial one, bumped by
    the `lbuf_modified` test of `:x` -/
theorem write_current_buffer (ed ed1 ed2 ed3 : Ed) (loc cmd arg : Bytes) (path : Option Bytes)
    (r : Nat × Int × Int) (c0 : Buf)
    (hpr : (if !arg.isEmpty then pathExpand ed arg true else some (ed.cur.map (·.path), ed)) = some (path, ed1))
    (hx : (if cmd.headD 0 == 120 then some (ed1.modifiedAt 0) else some (true, ed1) : Option (Bool × Ed)) = some (true, ed2))
    (hr : exRegion ed2 loc = some (r, ed3)) (h0 : ed.cur = some c0) :
    ed3.cur = some (if cmd.headD 0 == 120 then { c0 with lb := (modified c0.lb).2 } else c0) := by
  have h1 : ed1.bufs = ed.bufs := by
    by_cases ha : (!arg.isEmpty) = true
    · rw [if_pos ha] at hpr; exact pathExpand_bufs _ _ _ _ _ hpr
    · rw [if_neg ha] at hpr
      simp only [Option.some.injEq, Prod.mk.injEq] at hpr
      rw [← hpr.2]
  have h1c : ed1.bufs.getD 0 none = some c0 := by rw [h1]; exact h0
  rw [cur_congr (exRegion_bufs _ _ _ _ hr)]
  by_cases hc : (cmd.headD 0 == 120) = true
  · rw [if_pos hc] at hx
    rw [if_pos hc]
    obtain ⟨hlt, _⟩ := getD_some h1c
    simp only [Ed.modifiedAt, h1c, Option.some.injEq, Prod.mk.injEq] at hx
    rw [← hx.2]
    exact getD_set_self _ _ _ hlt
  · rw [if_neg hc] at hx
    rw [if_neg hc]
    simp only [Option.some.injEq, Prod.mk.injEq, true_and] at hx
    rw [← hx]
    exact h1c

/-- right after `lbuf_saved(lb, 0)` and the bump the flag is clean, whatever the buffer -/
theorem saved_then_clean (lb : Lb) : (modified (modified (savedCore lb false)).2).1 = false := by
  simp [modified, savedCore, seqAt]

theorem strOf_q : strOf "q" = [113] := by decide +kernel
theorem strOf_e : strOf "e" = [101] := by decide +kernel
theorem strOf_b : strOf "b" = [98] := by decide +kernel
theorem strOf_w : strOf "w" = [119] := by decide +kernel

end Neatvi.Lemmas.C02Ex
