import Lean.Elab.Tactic
/-!
# C05g: a small tactic for frame proofs

`depth_facts [l₁, …, lₙ]`: for every hypothesis `h` of the goal and every lemma `lᵢ` of the list such that the
application `lᵢ h` typechecks, add `lᵢ h` to the hypotheses.  (The lemmas say "this call leaves that field alone";
the tactic collects what the calls visible in the hypotheses say, `omega` then chains the equalities.)
-/
namespace Neatvi.Lemmas.C05g

syntax "depth_facts" "[" ident,* "]" : tactic

open Lean Elab Tactic Meta in
elab_rules : tactic
  | `(tactic| depth_facts [$ids,*]) => withMainContext do
    let lctx ← getLCtx
    let lems ← ids.getElems.mapM (fun (i : Ident) => do
      match lctx.findFromUserName? i.getId with
      | some d => pure (some d.fvarId, i.getId)
      | none => pure (none, (← realizeGlobalConstNoOverloadWithInfo i)))
    let mut g ← getMainGoal
    for d in lctx do
      if d.isImplementationDetail then continue
      if !(← isProp d.type) then continue
      for (fv, nm) in lems do
        if fv == some d.fvarId then continue
        let r ← commitWhenSome? do
          try
            let e ← match fv with
              | some f => pure (mkFVar f)
              | none => mkConstWithFreshMVarLevels nm
            let (args, _, _) ← forallMetaTelescopeReducing (← inferType e)
            if args.isEmpty then return none
            let last := args.back!
            if !(← isDefEq (← inferType last) d.type) then return none
            if !(← isDefEq last d.toExpr) then return none
            let pf ← instantiateMVars (mkAppN e args)
            if pf.hasExprMVar then return none
            let ty ← instantiateMVars (← inferType pf)
            return some (pf, ty)
          catch _ => return none
        if let some (pf, ty) := r then
          let g' ← g.assert `hD ty pf
          let (_, g'') ← g'.intro1P
          g := g''
    replaceMainGoal [g]

/-- `split_any`: split the first hypothesis that has an `if` or a `match` to split -/
syntax "split_any" : tactic

open Lean Elab Tactic Meta in
elab_rules : tactic
  | `(tactic| split_any) => withMainContext do
    let g ← getMainGoal
    for d in (← getLCtx) do
      if d.isImplementationDetail then continue
      if (← instantiateMVars d.type).eq?.isNone then continue
      let r ← try splitLocalDecl? g d.fvarId catch _ => pure none
      if let some gs := r then
        replaceMainGoal gs
        return
    throwError "split_any: no hypothesis to split"

/-- `cases_somes`: `cases` on the first hypothesis `a = b` between two constructor terms of an `Option` -/
syntax "cases_somes" : tactic

open Lean Elab Tactic Meta in
elab_rules : tactic
  | `(tactic| cases_somes) => withMainContext do
    let g ← getMainGoal
    for d in (← getLCtx) do
      if d.isImplementationDetail then continue
      let ty ← instantiateMVars d.type
      if let some (α, a, b) := ty.eq? then
        let isC (e : Expr) : Bool := e.isAppOf ``Option.some || e.isAppOf ``Option.none
        if (← whnf α).isAppOf ``Option && isC a && isC b then
          let sgs ← g.cases d.fvarId
          replaceMainGoal (sgs.toList.map (·.mvarId))
          return
    throwError "cases_somes: no such hypothesis"

/-- take the hypotheses apart: all case distinctions, all equations between `some`/`none` terms -/
macro "frame_cases" : tactic => `(tactic| repeat' (first | cases_somes | split_any))

end Neatvi.Lemmas.C05g
