import NeatviVerif.Lemmas.C10bIdeal
import NeatviVerif.Props.C10
/-!
# C10b lemmas, part 3: the idealised backtracker refines the ordered reference `RegexSem.results`

`btJ env N t r k ⊑ firstSome (results env t r) k`: whenever the idealised search does not run out of
its iteration budget (`bad`), its outcome is the first success of `k` over the reference list.

The one place where the two differ is an iteration of an unbounded repetition that consumes nothing:
the reference ends the repetition there, the engine iterates again.  `descent` shows that a search
that reaches such an iteration necessarily exhausts every budget — the same iteration is reached
again one level deeper, because what the engine does depends only on the position, not on the marks.
-/
namespace Neatvi.Lemmas.C10b
open Neatvi Neatvi.Regex Neatvi.Spec.RegexSem

/-! ### positions stay inside the subject -/

theorem rdb_some_le {s : Bytes} {i c : Nat} (h : rdb s i = some c) : i ≤ s.length := by
  unfold rdb at h
  split at h
  · omega
  · split at h
    · omega
    · cases h

theorem rxLen_le (s : Bytes) (i : Nat) : rxLen s i ≤ s.length - i := Nat.min_le_right _ _

theorem chrIcase_ub (lit subj : Bytes) : ∀ (f k r p : Nat), r ≤ subj.length →
    chrIcase lit subj f k r = AR.ok p → p ≤ subj.length := by
  intro f
  induction f with
  | zero => intro k r p _ h; simp [chrIcase] at h
  | succ f ih =>
    intro k r p hr h
    rw [chrIcase] at h
    split at h
    · cases h
    · injection h with h; omega
    · split at h
      · split at h
        · cases h
        · exact ih _ _ _ (by have := rxLen_le subj r; omega) h
      · cases h

/-- atoms never step beyond the terminator -/
theorem atomMatch_ub {a : Atom} {subj : Bytes} {flg pos pos' : Nat}
    (h : atomMatch a subj flg pos = AR.ok pos') : pos' ≤ subj.length := by
  unfold atomMatch at h
  simp only [] at h
  split at h
  · cases h
  · rename_i cur hr
    have hp := rdb_some_le hr
    have hx := rxLen_le subj pos
    split at h
    · split at h
      · split at h
        · rename_i heq
          injection h with h
          have hl := congrArg List.length (eq_of_beq heq)
          simp only [List.length_take, List.length_drop] at hl
          omega
        · cases h
      · exact chrIcase_ub _ _ _ _ _ _ hp h
    all_goals (repeat' split at h)
    all_goals (first | (injection h with h; omega) | cases h)

/-- `r'` is not before `r` and not beyond the end of the subject (or where `r` already was) -/
def PosOk (len : Nat) (r r' : R) : Prop := r.1 ≤ r'.1 ∧ r'.1 ≤ max r.1 len

theorem PosOk.refl (len : Nat) (r : R) : PosOk len r r := ⟨Nat.le_refl _, Nat.le_max_left _ _⟩

theorem PosOk.trans {len : Nat} {r s r' : R} (h1 : PosOk len r s) (h2 : PosOk len s r') : PosOk len r r' := by
  unfold PosOk at *
  omega

def Bounded (len : Nat) (L : R → List R) : Prop := ∀ r r', r' ∈ L r → PosOk len r r'

theorem bindR_bounded {len : Nat} {L1 L2 : R → List R} (h1 : Bounded len L1) (h2 : Bounded len L2) :
    Bounded len (fun r => bindR (L1 r) L2) := by
  intro r r' h
  simp only [bindR, List.mem_flatMap] at h
  obtain ⟨s, hs, hr⟩ := h
  exact (h1 r s hs).trans (h2 s r' hr)

theorem copies_bounded {len : Nat} {L : R → List R} (h : Bounded len L) : ∀ n, Bounded len (copies L n) := by
  intro n
  induction n with
  | zero => intro r r' hr; simp [copies] at hr; subst hr; exact PosOk.refl _ _
  | succ n ih => exact bindR_bounded h ih

theorem optRes_bounded {len : Nat} {L : R → List R} (h : Bounded len L) : ∀ n, Bounded len (optRes L n) := by
  intro n
  induction n with
  | zero => intro r r' hr; simp [optRes] at hr; subst hr; exact PosOk.refl _ _
  | succ n ih =>
    intro r r' hr
    simp only [optRes, List.mem_append, List.mem_singleton] at hr
    rcases hr with hr | hr
    · exact bindR_bounded h ih r r' hr
    · subst hr; exact PosOk.refl _ _

theorem starRes_bounded {len : Nat} {L : R → List R} (h : Bounded len L) : ∀ f, Bounded len (starRes L f) := by
  intro f
  induction f with
  | zero => intro r r' hr; simp [starRes] at hr; subst hr; exact PosOk.refl _ _
  | succ f ih =>
    intro r r' hr
    simp only [starRes, List.mem_append, List.mem_singleton] at hr
    rcases hr with hr | hr
    · simp only [bindR, List.mem_flatMap] at hr
      obtain ⟨s, hs, hr⟩ := hr
      split at hr
      · simp at hr; rw [hr]; exact h r s hs
      · exact (h r s hs).trans (ih s r' hr)
    · subst hr; exact PosOk.refl _ _

theorem repRes_general (env : Env) (L : R → List R) {mn mx : Int} (h00 : ¬(mn = 0 ∧ mx = 0))
    (h11 : ¬(mn = 1 ∧ mx = 1)) (r : R) :
    repRes env L mn mx r =
      if mn = 0 then
        bindR (copies L (max 1 mn).toNat r)
          (if mx < 0 then starRes L (env.subj.length + 2) else optRes L (mx - max 1 mn).toNat) ++ [r]
      else bindR (copies L (max 1 mn).toNat r)
          (if mx < 0 then starRes L (env.subj.length + 2) else optRes L (mx - max 1 mn).toNat) := by
  have e0 : (mn == 0 && mx == 0) = false := by simp; omega
  have e1 : (mn == 1 && mx == 1) = false := by simp; omega
  unfold repRes
  simp only [e0, e1]
  by_cases hmn : mn = 0
  · simp [hmn]
  · simp [hmn]

theorem repRes_bounded {len : Nat} (env : Env) {L : R → List R} (h : Bounded len L) (mn mx : Int) :
    Bounded len (repRes env L mn mx) := by
  intro r r' hr
  by_cases h00 : mn = 0 ∧ mx = 0
  · simp [repRes, h00] at hr; subst hr; exact PosOk.refl _ _
  by_cases h11 : mn = 1 ∧ mx = 1
  · simp [repRes, h11] at hr; exact h r r' hr
  rw [repRes_general env L h00 h11] at hr
  have hafter : Bounded len
      (if mx < 0 then starRes L (env.subj.length + 2) else optRes L (mx - max 1 mn).toNat) := by
    split
    · exact starRes_bounded h _
    · exact optRes_bounded h _
  have main := bindR_bounded (copies_bounded h (max 1 mn).toNat) hafter
  split at hr
  · simp only [List.mem_append, List.mem_singleton] at hr
    rcases hr with hr | hr
    · exact main r r' hr
    · subst hr; exact PosOk.refl _ _
  · exact main r r' hr

/-- the reference list of one copy of an atom -/
def atomL (env : Env) (a : Atom) : R → List R := fun r =>
  match atomMatch a env.subj env.flg r.1 with
  | AR.ok j => [(j, r.2)]
  | _ => []

/-- the reference list of one copy of a group -/
def grpL (inner : R → List R) (k : Nat) : R → List R := fun r =>
  (inner (r.1, setMark r.2 (2 * k) r.1)).map (fun r' => (r'.1, setMark r'.2 (2 * k + 1) r'.1))

theorem results_atom (env : Env) (a : Atom) (mn mx : Int) (r : R) :
    results env (.atom a mn mx) r = repRes env (atomL env a) mn mx r := rfl

theorem results_grp (env : Env) (a : RNode) (k : Nat) (mn mx : Int) (r : R) :
    results env (.grp a k mn mx) r = repRes env (grpL (results env a) k) mn mx r := rfl

theorem atomL_bounded (env : Env) (a : Atom) : Bounded env.subj.length (atomL env a) := by
  intro r r' hr
  unfold atomL at hr
  split at hr
  · rename_i j hm
    simp at hr; subst hr
    have h1 := Neatvi.Props.C10.atomMatch_le hm
    have h2 := atomMatch_ub hm
    exact ⟨h1, by show j ≤ max r.1 env.subj.length; omega⟩
  · simp at hr

theorem grpL_bounded {len : Nat} {inner : R → List R} (h : Bounded len inner) (k : Nat) :
    Bounded len (grpL inner k) := by
  intro r r' hr
  simp only [grpL, List.mem_map] at hr
  obtain ⟨s, hs, hr⟩ := hr
  subst hr
  have := h _ s hs
  exact ⟨this.1, this.2⟩

theorem results_bounded (env : Env) (t : RNode) : Bounded env.subj.length (results env t) := by
  induction t with
  | nul => intro r r' hr; simp [results] at hr; subst hr; exact PosOk.refl _ _
  | atom a mn mx =>
    intro r r' hr
    rw [results_atom] at hr
    exact repRes_bounded env (atomL_bounded env a) mn mx r r' hr
  | cat a b iha ihb =>
    intro r r' hr
    simp only [results] at hr
    exact bindR_bounded iha ihb r r' hr
  | alt a b iha ihb =>
    intro r r' hr
    simp only [results, List.mem_append] at hr
    rcases hr with hr | hr
    · exact iha r r' hr
    · exact ihb r r' hr
  | grp a k mn mx iha =>
    intro r r' hr
    rw [results_grp] at hr
    exact repRes_bounded env (grpL_bounded iha k) mn mx r r' hr

/-! ### refinement of a body by a reference list -/

/-- for marks-blind continuations, the body `BJ` refines "first success over `L r`" -/
def RefB (BJ : BodyJ) (L : R → List R) : Prop :=
  ∀ (r : R) (k1 k2 : KJ), ShK k1 k1 → LeK k1 k2 → Le (BJ r k1) (firstSome (L r) k2)

theorem firstSome_pre_bad {k : KJ} {r' : R} (hr : k r' = O3.bad) (post : List R) :
    ∀ pre : List R, (∀ x ∈ pre, k x = O3.fail ∨ k x = O3.bad) →
      firstSome (pre ++ r' :: post) k = O3.bad := by
  intro pre
  induction pre with
  | nil => intro _; simp [hr]
  | cons x pre ih =>
    intro h
    simp only [List.cons_append, firstSome_cons]
    rcases h x (List.mem_cons_self) with hx | hx
    · rw [hx, seq_fail_left]; exact ih (fun y hy => h y (List.mem_cons_of_mem _ hy))
    · rw [hx]; rfl

section star
variable {BJ : BodyJ} {L : R → List R} {len : Nat}

theorem ref_copies (hRef : RefB BJ L) (hBlind : BlindB BJ) : ∀ n, RefB (copiesJ BJ n) (copies L n) := by
  intro n
  induction n with
  | zero => intro r k1 k2 _ hk; simp only [copiesJ, copies, firstSome_single]; exact hk r
  | succ n ih =>
    intro r k1 k2 hb hk
    simp only [copiesJ, copies, firstSome_bind]
    exact hRef r _ _ (fun s s' hs => copiesJ_blind hBlind n s s' k1 k1 hs hb) (fun s => ih s k1 k2 hb hk)

theorem ref_opts (hRef : RefB BJ L) (hBlind : BlindB BJ) : ∀ n, RefB (optsJ BJ n) (optRes L n) := by
  intro n
  induction n with
  | zero => intro r k1 k2 _ hk; simp only [optsJ, optRes, firstSome_single]; exact hk r
  | succ n ih =>
    intro r k1 k2 hb hk
    simp only [optsJ, optRes, firstSome_append, firstSome_bind, firstSome_single]
    exact Le.seq
      (hRef r _ _ (fun s s' hs => optsJ_blind hBlind n s s' k1 k1 hs hb) (fun s => ih s k1 k2 hb hk))
      (hk r)

/-- a search that reaches an iteration consuming nothing exhausts its budget: the elements of
    `L r` before the empty iteration `r'` all fail (or are `bad`), so `r'` is reached, and from `r'`
    the same happens one level deeper -/
theorem descent (hRef : RefB BJ L) (hBlind : BlindB BJ) (hMono : MonoB BJ) {k1 : KJ} (hk1 : ShK k1 k1) :
    ∀ f (r : R) (pre : List R) (r' : R) (post : List R), L r = pre ++ r' :: post → r'.1 = r.1 →
      (∀ x ∈ pre, starJ BJ k1 f x = O3.fail ∨ starJ BJ k1 f x = O3.bad) →
      firstSome (L r) (starJ BJ k1 f) = O3.bad := by
  intro f
  induction f with
  | zero =>
    intro r pre r' post hL _ hpre
    rw [hL]
    exact firstSome_pre_bad (by rfl) post pre hpre
  | succ f ih =>
    intro r pre r' post hL he hpre
    rw [hL]
    refine firstSome_pre_bad ?_ post pre hpre
    have hsh := starJ_blind hBlind hk1 (f + 1) r' r he
    rw [hsh.bad_iff]
    have hpre' : ∀ x ∈ pre, starJ BJ k1 f x = O3.fail ∨ starJ BJ k1 f x = O3.bad := by
      intro x hx
      rcases starJ_fuel_mono hMono k1 f x with h | h
      · exact Or.inr h
      · rw [h]; exact hpre x hx
    have hbad : BJ r (starJ BJ k1 f) = O3.bad := by
      apply Classical.byContradiction
      intro hne
      have := (hRef r _ _ (starJ_blind hBlind hk1 f) (fun s => Le.refl _)).eq_of_ne hne
      rw [this] at hne
      exact hne (ih r pre r' post hL he hpre')
    show (BJ r (starJ BJ k1 f)).seq (k1 r) = O3.bad
    rw [hbad]; rfl

theorem ref_star (hRef : RefB BJ L) (hBlind : BlindB BJ) (hMono : MonoB BJ) (hBnd : Bounded len L)
    {k1 k2 : KJ} (hk1 : ShK k1 k1) (hk : LeK k1 k2) :
    ∀ f F (r : R), 1 ≤ F → len + 1 ≤ F + r.1 →
      Le (starJ BJ k1 f r) (firstSome (starRes L F r) k2) := by
  intro f
  induction f with
  | zero => intro F r _ _; exact Le.bad _
  | succ f ihf =>
    intro F r hF1 hF
    obtain ⟨F', rfl⟩ : ∃ F', F = F' + 1 := ⟨F - 1, by omega⟩
    simp only [starJ, starRes, firstSome_append, firstSome_bind, firstSome_single]
    refine Le.seq ?_ (hk r)
    by_cases hX : BJ r (starJ BJ k1 f) = O3.bad
    · rw [hX]; exact Le.bad _
    have hXe := (hRef r _ _ (starJ_blind hBlind hk1 f) (fun s => Le.refl _)).eq_of_ne hX
    rw [hXe] at hX ⊢
    -- walk along `L r`
    have walk : ∀ (l pre : List R), L r = pre ++ l → (∀ x ∈ pre, starJ BJ k1 f x = O3.fail) →
        Le (firstSome l (starJ BJ k1 f))
          (firstSome l (fun r' => firstSome (if (r'.1 == r.1) = true then [r'] else starRes L F' r') k2)) := by
      intro l
      induction l with
      | nil => intro _ _ _; exact Le.refl _
      | cons r' rest ihl =>
        intro pre hL hpre
        simp only [firstSome_cons]
        by_cases he : r'.1 = r.1
        · exact absurd (descent hRef hBlind hMono hk1 f r pre r' rest hL he
            (fun x hx => Or.inl (hpre x hx))) hX
        · have hmem : r' ∈ L r := by rw [hL]; simp
          have hb := hBnd r r' hmem
          unfold PosOk at hb
          have hlt : r.1 < r'.1 := by omega
          have hih := ihf F' r' (by omega) (by omega)
          have hne : (r'.1 == r.1) = false := by simp [he]
          rw [hne]
          simp only [Bool.false_eq_true, if_false]
          cases hT : starJ BJ k1 f r' with
          | bad => exact Le.bad _
          | ok x =>
            rw [hT] at hih
            rw [← hih.eq_of_ne (by simp)]
            exact Le.refl _
          | fail =>
            rw [hT] at hih
            rw [← hih.eq_of_ne (by simp)]
            simp only [seq_fail_left]
            refine ihl (pre ++ [r']) (by simp [hL]) ?_
            intro x hx
            simp only [List.mem_append, List.mem_singleton] at hx
            rcases hx with hx | hx
            · exact hpre x hx
            · rw [hx]; exact hT
    exact walk (L r) [] rfl (fun x hx => by simp at hx)

theorem ref_rep (env : Env) (N : Nat) (hRef : RefB BJ L) (hBlind : BlindB BJ) (hMono : MonoB BJ)
    (hBnd : Bounded env.subj.length L) (mn mx : Int) :
    RefB (repJ N BJ mn mx) (repRes env L mn mx) := by
  intro r k1 k2 hb hk
  by_cases h00 : mn = 0 ∧ mx = 0
  · have e1 : repJ N BJ mn mx r k1 = k1 r := by simp [repJ, h00]
    have e2 : repRes env L mn mx r = [r] := by simp [repRes, h00]
    rw [e1, e2, firstSome_single]; exact hk r
  by_cases h11 : mn = 1 ∧ mx = 1
  · have e1 : repJ N BJ mn mx r k1 = BJ r k1 := by simp [repJ, h11]
    have e2 : repRes env L mn mx r = L r := by simp [repRes, h11]
    rw [e1, e2]; exact hRef r k1 k2 hb hk
  rw [repJ_general h00 h11, repRes_general env L h00 h11]
  have htailB : ShK (fun r' => if mx < 0 then starJ BJ k1 N r' else optsJ BJ (mx - max 1 mn).toNat r' k1)
      (fun r' => if mx < 0 then starJ BJ k1 N r' else optsJ BJ (mx - max 1 mn).toNat r' k1) := by
    intro s s' hs
    show Sh (if mx < 0 then _ else _) (if mx < 0 then _ else _)
    split
    · exact starJ_blind hBlind hb N s s' hs
    · exact optsJ_blind hBlind _ s s' k1 k1 hs hb
  have htailL : LeK (fun r' => if mx < 0 then starJ BJ k1 N r' else optsJ BJ (mx - max 1 mn).toNat r' k1)
      (fun r' => firstSome
        ((if mx < 0 then starRes L (env.subj.length + 2) else optRes L (mx - max 1 mn).toNat) r') k2) := by
    intro s
    show Le (if mx < 0 then _ else _) _
    split
    · exact ref_star hRef hBlind hMono hBnd hb hk N _ s (by omega) (by omega)
    · exact ref_opts hRef hBlind _ s k1 k2 hb hk
  have main := ref_copies hRef hBlind (max 1 mn).toNat r _ _ htailB htailL
  split
  · rw [firstSome_append, firstSome_bind, firstSome_single]
    exact Le.seq main (hk r)
  · rw [firstSome_bind]
    exact main

end star

theorem ref_atom (env : Env) (a : Atom) : RefB (atomJ env a) (atomL env a) := by
  intro r k1 k2 _ hk
  cases h : atomMatch a env.subj env.flg r.1 with
  | ok j => simp only [atomJ, atomL, h, firstSome_single]; exact hk _
  | fail => simp only [atomJ, atomL, h, firstSome_nil]; exact Le.refl _
  | trap => simp only [atomJ, atomL, h, firstSome_nil]; exact Le.refl _

theorem ref_grp {inner : BodyJ} {Li : R → List R} (hi : RefB inner Li) (g : Nat) :
    RefB (grpJ inner g) (grpL Li g) := by
  intro r k1 k2 hb hk
  unfold grpJ grpL
  rw [firstSome_map]
  exact hi _ _ _ (fun s s' hs => hb _ _ hs) (fun s => hk _)

/-- the idealised backtracker refines the ordered reference -/
theorem btJ_ref (env : Env) (N : Nat) (t : RNode) : RefB (btJ env N t) (results env t) := by
  induction t with
  | nul => intro r k1 k2 _ hk; simp only [btJ, results, firstSome_single]; exact hk r
  | atom a mn mx =>
    intro r k1 k2 hb hk
    rw [results_atom]
    exact ref_rep env N (ref_atom env a) (atomJ_blind env a) (atomJ_mono env a) (atomL_bounded env a)
      mn mx r k1 k2 hb hk
  | cat a b iha ihb =>
    intro r k1 k2 hb hk
    simp only [btJ, results, firstSome_bind]
    exact iha r _ _ (fun s s' hs => btJ_blind env N b s s' k1 k1 hs hb) (fun s => ihb s k1 k2 hb hk)
  | alt a b iha ihb =>
    intro r k1 k2 hb hk
    simp only [btJ, results, firstSome_append]
    exact Le.seq (iha r k1 k2 hb hk) (ihb r k1 k2 hb hk)
  | grp a g mn mx iha =>
    intro r k1 k2 hb hk
    rw [results_grp]
    exact ref_rep env N (ref_grp iha g) (grpJ_blind (btJ_blind env N a) g) (grpJ_mono (btJ_mono env N a) g)
      (grpL_bounded (results_bounded env a) g) mn mx r k1 k2 hb hk

end Neatvi.Lemmas.C10b
