import NeatviVerif.Lemmas.C08gM
/-!
# C08g: whole iterations of `vi()` (`viStep`) on `yy`, `dd`, `x`, `dw`, `p`, `P` typed without count or register
prefix — what each leaves in the text, the cursor and the unnamed register
-/
set_option linter.unusedSimpArgs false
set_option linter.unusedVariables false
namespace Neatvi.Lemmas.C08g
open Neatvi Neatvi.Uc Neatvi.Vi Neatvi.Ex Neatvi.Lbuf Neatvi.Mot Neatvi.Spec
open Neatvi.Lemmas.C08 Neatvi.Lemmas.C08b Neatvi.Lemmas.C08f
open Neatvi.Lemmas.C09 (finRec pending)
open Neatvi.Props.C07c (Utf8Buf refBufU)
open Neatvi.Props.C08f

/-- `sm` is the state in which the command function runs when the iteration started in `s` with a plain command
key: the text, the cursor, the registers are those of `s` (the marks may differ); no count, no register prefix -/
structure CmdStart (s sm : VS) : Prop where
  ed : sm.ed = { s.ed with bufs := sm.ed.bufs }
  lines : lines sm = lines s
  arg1 : sm.arg1 = 0
  ybuf : sm.ybuf = 0
  xkmap : sm.xkmap = s.xkmap
  xai : sm.xai = s.xai

namespace CmdStart
variable {s sm : VS} (h : CmdStart s sm)
include h

theorem xrow : sm.ed.xrow = s.ed.xrow := by rw [h.ed]
theorem xoff : sm.ed.xoff = s.ed.xoff := by rw [h.ed]
theorem regs : sm.ed.regs = s.ed.regs := by rw [h.ed]
theorem xtd : sm.ed.xtd = s.ed.xtd := by rw [h.ed]
theorem edk : edk sm = edk s := by unfold Lemmas.C08g.edk; rw [h.ed]
theorem lenOf : lenOf sm = lenOf s := by unfold Vi.lenOf; rw [h.lines]
theorem opCount : opCount sm 0 = 1 := by rw [opCount_zero, h.arg1]; decide
theorem cnt1 : cnt1 sm = 1 := by unfold Lemmas.C08g.cnt1; rw [h.arg1]; decide

theorem onRow {body : List Nat} {o : Nat} (hrow : OnRow s body o) : OnRow sm body o :=
  ⟨by rw [h.xrow]; exact hrow.row0, by rw [h.lines, h.xrow]; exact hrow.line, hrow.valid, hrow.no10,
    by rw [h.xoff]; exact hrow.off, hrow.onChar⟩

/-- the unnamed register as `vc_put` reads it -/
theorem regGetLn0 : regGetLn sm.ed sm.ybuf = ((s.ed.regs.getRaw 0).1, some (s.ed.regs.getRaw 0).2) := by
  rw [h.ybuf, regGetLn_plain _ 0 (by decide) (by decide) (by decide) (by decide), h.regs]

end CmdStart

theorem cmdStart_of {s s1 sm : VS} (h1 : s1.ed = s.ed) (ha : s1.arg1 = 0) (hy : s1.ybuf = 0) (hk : s1.xkmap = s.xkmap)
    (hx : s1.xai = s.xai) (hm : KeysMark [] s1 sm) : CmdStart s sm := by
  refine ⟨?_, ?_, ?_, ?_, ?_, ?_⟩
  · obtain ⟨ib, ip, ty, e⟩ := hm.eq
    have : sm.ed = { s1.ed with bufs := sm.ed.bufs } := by rw [e]
    rw [this, h1]
  · rw [hm.lines]; unfold Vi.lines; rw [h1]
  · rw [hm.arg1, ha]
  · rw [hm.ybuf, hy]
  · rw [hm.xkmap, hk]
  · rw [hm.xai, hx]

/-- **an operator key and a motion key, as one iteration**: `vc_motion` runs in `sm`, reading the motion key by
`Prefixed sm 0 k s2`; when it returns `s'` having kept `xquit`, `out`, `xtd`, the iteration returns and settles `s'` -/
theorem step_op (c : Nat) (hc : c = 99 ∨ c = 100 ∨ c = 121 ∨ c = 62 ∨ c = 60) (k : Nat) (hk : ¬ (49 ≤ k ∧ k ≤ 57))
    (s : VS) (rest : Bytes) (hi : Idle s) (hp : pending s = c :: k :: rest) :
    ∃ sm s2, CmdStart s sm ∧ Prefixed sm 0 (k : Int) s2 ∧ pending s2 = rest ∧ s2.vibuf = [] ∧
      ∀ m s', vcMotion c sm = Res.ok m s' → edk s' = edk s → ∃ s'', viStep s = Res.ok () s'' ∧ Settled s' s'' := by
  obtain ⟨s0, s1, hr, hed, hvb, hpe, ha1, hyb, hkm, hai, hic, hfin⟩ := viStep_via c
    (by unfold isCmdKey; omega) s (k :: rest) hi hp
  obtain ⟨sm, s2, hk0, hpre, hrd, hpend, hv2, hct⟩ := keys_op c hc k hk s0 s1 rest hr hvb hpe
  have hcs := cmdStart_of hed ha1 hyb hkm hai hk0
  refine ⟨sm, s2, hcs, hpre, hpend, hv2, ?_⟩
  intro m s' hm hek
  refine hfin 0 m s' (hct m s' hm) ?_
  rw [hek]
  unfold edk; rw [hed]

/-- **`p` / `P` as one iteration** -/
theorem step_put (c : Nat) (hc : c = 112 ∨ c = 80) (s : VS) (rest : Bytes) (hi : Idle s) (hp : pending s = c :: rest) :
    ∃ sm, CmdStart s sm ∧ pending sm = rest ∧ sm.vibuf = [] ∧
      ∀ m s', vcPut c sm = Res.ok m s' → ∃ s'', viStep s = Res.ok () s'' ∧ Settled s' s'' := by
  obtain ⟨s0, s1, hr, hed, hvb, hpe, ha1, hyb, hkm, hai, hic, hfin⟩ := viStep_via c
    (by unfold isCmdKey; omega) s rest hi hp
  obtain ⟨sm, hk0, hpend, hct⟩ := keys_put c hc s0 s1 hr
  have hcs := cmdStart_of hed ha1 hyb hkm hai hk0
  refine ⟨sm, hcs, by rw [hpend]; exact hpe, by rw [hk0.vibuf]; exact hvb, ?_⟩
  intro m s' hm
  refine hfin 0 m s' (hct m s' hm) ?_
  rw [(ek_vcPut c).keep sm m s' hm, hcs.edk]
  unfold edk; rw [hed]

/-- **`x` as one iteration** (`d SPC`) -/
theorem step_x (s : VS) (rest : Bytes) (hi : Idle s) (hp : pending s = 120 :: rest) :
    ∃ sm, CmdStart s sm ∧ pending sm = rest ∧ sm.vibuf = [] ∧ Prefixed { sm with vibuf := [32] } 0 32 sm ∧
      ∀ m s', vcMotion 100 { sm with vibuf := [32] } = Res.ok m s' → edk s' = edk s →
        ∃ s'', viStep s = Res.ok () s'' ∧ Settled s' s'' := by
  obtain ⟨s0, s1, hr, hed, hvb, hpe, ha1, hyb, hkm, hai, hic, hfin⟩ := viStep_via 120
    (by unfold isCmdKey; omega) s rest hi hp
  obtain ⟨sm, hk0, hv, hpend, hpre, hct⟩ := keys_short 120 100 32 (by simp [isShort]) s0 s1 hr hvb
  have hcs := cmdStart_of hed ha1 hyb hkm hai hk0
  refine ⟨sm, hcs, by rw [hpend]; exact hpe, hv, hpre, ?_⟩
  intro m s' hm hek
  refine hfin 0 m s' (hct m s' hm) ?_
  rw [hek]
  unfold edk; rw [hed]

/-- the window fix leaves a cursor row inside the buffer where it is -/
theorem wfixRow_valid (s : VS) (h0 : 0 ≤ s.ed.xrow) (h1 : s.ed.xrow < lenOf s) : wfixRow s = s.ed.xrow := by
  unfold wfixRow
  rw [if_neg (by simp; omega)]

/-- … and a cursor on a character of its line where it is -/
theorem wfixOff_onRow (s : VS) (body : List Nat) (o : Nat) (hrow : OnRow s body o) : wfixOff s = (o : Int) := by
  have hrlt : s.ed.xrow.toNat < (lines s).length := (List.getElem?_eq_some_iff.mp hrow.line).1
  have h1 : s.ed.xrow < lenOf s := by show s.ed.xrow < ((lines s).length : Int); have := hrow.row0; omega
  unfold wfixOff
  rw [wfixRow_valid s hrow.row0 h1, lineOf_of_get s _ _ hrow.row0 hrow.line, hrow.off]
  exact renNoeol_body body hrow.valid hrow.no10 o hrow.onChar

/-- what the unnamed register holds after a `reg_put` without register prefix -/
theorem getRaw0_put0 (r : Regs) (txt : Bytes) (ln : Nat) (h : RegsWf r) : (r.put 0 txt ln).getRaw 0 = (some txt, ln) :=
  Props.C08.put_stores_self r 0 txt ln h (by omega) (by decide) (by omega)

end Neatvi.Lemmas.C08g
