import NeatviVerif.Lemmas.C02dCmd
import NeatviVerif.Lemmas.C02cStages
/-!
# C02d lemmas, part 4: `:g`, `:@`, `:e`, command lines, `ex_command`; the induction on the fuel; scripts
-/
namespace Neatvi.Lemmas.C02d
open Neatvi Neatvi.Lbuf Neatvi.LbufIo Neatvi.Ex Neatvi.Rset Neatvi.Props Neatvi.Lemmas.C02b Neatvi.Lemmas.C02Ex
open Neatvi.Lemmas.ExFrame Neatvi.Lemmas.C02c

/-- running a line with fuel `f` keeps the invariant -/
def ExecOK (f : Nat) : Prop := ∀ ed ln r ed', Inv ed → exExec f ed ln = some (r, ed') → Inv ed'
def CmdOK (f : Nat) : Prop := ∀ ed ln r ed', Inv ed → exCommand f ed ln = some (r, ed') → Inv ed'
/-- the dispatcher with fuel `f` keeps the invariant -/
def RunOK (f : Nat) : Prop := ∀ ed h loc cmd arg txt r ed', Inv ed →
  runCmd f ed h loc cmd arg txt = some (r, ed') → Inv ed'

/-! ### `:g` -/

theorem adv_inv (dep : Nat) : ∀ (h : Nat) (ed : Ed) (i : Int), Inv ed → Inv (ecGlob.scan.adv dep h ed i).1 := by
  intro h
  induction h with
  | zero => intro ed i hi; rw [ecGlob.scan.adv]; exact hi
  | succ h ih =>
    intro ed i hi
    rw [ecGlob.scan.adv]
    split
    · exact hi
    · split
      · exact hi
      · rename_i lb hlb
        simp only []
        have e1 : Inv (ed.setLb (globGet lb i.toNat dep).2) := inv_setLb hi hlb (fun _ hd => hd.globGet _ _)
        split
        · exact e1
        · exact ih _ _ e1

theorem scan_inv (f : Nat) (neg : Bool) (s : Bytes) (re : RStr) (dep : Nat) (hbody : ExecOK f) :
    ∀ (g : Nat) (ed : Ed) (i : Int) (ed' : Ed), Inv ed → ecGlob.scan f neg s re dep g ed i = some ed' → Inv ed' := by
  intro g
  induction g with
  | zero => intro ed i ed' _ h; rw [ecGlob.scan] at h; cases h
  | succ g ih =>
    intro ed i ed' hi h
    rw [ecGlob.scan] at h
    split at h
    · cases h; exact hi
    · split at h
      · cases h
      · split at h
        · cases h
        · simp only [] at h
          split at h
          · cases h
          · rename_i edx _ hstep
            cases h
            split at hstep
            · split at hstep
              · cases hstep
              · rename_i hx
                split at hstep
                · cases hstep
                  exact hbody _ _ _ _ (hi.to (by rfl) (by rfl) (by rfl)) hx
                · cases hstep
            · cases hstep
          · rename_i edx ix hstep
            have e1 : Inv edx := by
              split at hstep
              · split at hstep
                · cases hstep
                · rename_i hx
                  split at hstep
                  · cases hstep
                  · cases hstep
                    exact hbody _ _ _ _ (hi.to (by rfl) (by rfl) (by rfl)) hx
              · cases hstep; exact hi
            split at h
            · cases h
            · exact ih _ _ _ (adv_inv _ _ _ _ e1) h

open Neatvi.Props.C15 in
theorem ecGlob_inv (f : Nat) (hbody : ExecOK f) (ed ed' : Ed) (loc cmd arg : Bytes) (r : Int) (hi : Inv ed)
    (h : ecGlob (f + 1) ed loc cmd arg = some (r, ed')) : Inv ed' := by
  rw [ecGlob_eq] at h
  by_cases hdep : ed.xgdep ≥ 7
  · rw [if_pos hdep] at h; cases h; exact hi.to (by rfl) (by rfl) (by rfl)
  rw [if_neg hdep] at h
  split at h
  · cases h
  · rename_i rc b e ed1 hr
    have e1 : Inv ed1 := hi.same (exRegion_same hr)
    have e2 : Inv (globPrep ed1 arg) := e1.same (globPrep_same ed1 arg)
    split at h
    · cases h; exact e1
    · split at h
      · cases h; exact e2
      · split at h
        · cases h
        · cases h; exact e2
        · split at h
          · cases h
          · rename_i ed2 hscan
            cases h
            have e4 : Inv (globMark (globPrep ed1 arg) b e ((globPrep ed1 arg).xgdep + 1)) := by
              unfold globMark
              refine foldl_inv Inv _ ?_ _ _ (e2.to (by rfl) (by rfl) (by rfl))
              intro s k hs
              exact inv_updLb (fun lb => globSet lb (b.toNat + 1 + k) ((globPrep ed1 arg).xgdep + 1))
                (fun lb _ hl => hl.globSet _ _) hs
            have e3 := scan_inv f _ _ _ _ hbody _ _ _ _ e4 hscan
            have e5 : Inv (globSweep ed2 ((globPrep ed1 arg).xgdep + 1)) := by
              unfold globSweep
              exact inv_updLb (fun lb => (List.range lb.lines.length).foldl
                  (fun lb k => (globGet lb k ((globPrep ed1 arg).xgdep + 1)).2) lb)
                (fun lb d hl => foldl_inv (fun l => LbReach l d) _ (fun s k hs => hs.globGet _ _) _ _ hl) e3
            exact e5.to (by rfl) (by rfl) (by rfl)

/-! ### `:@` -/

theorem ecAt_inv (f : Nat) (hcmd : CmdOK f) (ed ed' : Ed) (loc cmd arg : Bytes) (r : Int) (hi : Inv ed)
    (h : ecAt (f + 1) ed loc cmd arg = some (r, ed')) : Inv ed' := by
  rw [ecAt] at h
  split at h
  · cases h; exact hi
  · split at h
    · cases h
    · rename_i hr
      have e1 := hi.same (exRegion_same hr)
      split at h
      · cases h; exact e1
      · split at h
        · cases h; exact e1.to (by rfl) (by rfl) (by rfl)
        · simp only [] at h
          split at h
          · cases h; exact e1
          · split at h
            · cases h
            · rename_i r2 ed2 hx
              cases h
              exact (hcmd _ _ _ _ (e1.to (by rfl) (by rfl) (by rfl)) hx).to (by rfl) (by rfl) (by rfl)

/-! ### `:e` -/

/-- reading the file of the current buffer `b`: the invariant is kept; the current buffer keeps its path
    and time stamp; no file changes; and if the buffer has a name and its file exists, the text now is
    what `lbuf_rd` makes of the file -/
theorem editRead_spec {ed ed' : Ed} {b : Buf} (h : Inv ed) (hc : ed.cur = some b)
    (hr : editRead ed b = some ed') :
    Inv ed' ∧ ed'.files = ed.files ∧ ed'.clock = ed.clock ∧
    ∃ b', ed'.cur = some b' ∧ b'.path = b.path ∧
      (b.path ≠ [] → ∀ fl, ed.findFile b.path = some fl → b'.lb.lines = splitLines (cstr fl.data)) := by
  unfold editRead at hr
  split at hr
  · rename_i fl hfl
    split at hr
    · rename_i hemp
      cases hr
      exact ⟨h, rfl, rfl, b, hc, rfl, fun hne => absurd (List.isEmpty_iff.1 hemp) hne⟩
    · split at hr
      · cases hr
      · rename_i lb1 hrd
        cases hr
        have hlb : ed.lb = some b.lb := by unfold Ed.lb; rw [hc]; rfl
        have e1 : Inv (ed.setLb lb1) := inv_setLb h hlb (fun _ hd => hd.rd hrd)
        have hfc : (ed.setLb lb1).files = ed.files ∧ (ed.setLb lb1).clock = ed.clock := by
          unfold Ed.setLb; rw [hc]; exact ⟨rfl, rfl⟩
        refine ⟨e1.to (by rfl) (by rfl) (by rfl), hfc.1, hfc.2, { b with lb := lb1 }, ?_, rfl, ?_⟩
        · show (ed.setLb lb1).cur = _
          unfold Ed.setLb
          rw [hc]
          exact cur_some_set ed b _ hc
        · intro _ fl' hfl'
          rw [hfl] at hfl'
          cases hfl'
          exact rd_whole hrd
  · rename_i hnone
    cases hr
    exact ⟨h, rfl, rfl, b, hc, rfl, fun _ fl hfl => by rw [hnone] at hfl; cases hfl⟩

/-- `lbuf_saved` after (re)loading: the ghost becomes the text just read -/
theorem editFinish_inv {ed ed' : Ed} {path : Bytes} (h : Inv ed) (hf : editFinish ed path = some ed') : Inv ed' := by
  unfold editFinish at hf
  split at hf
  · cases hf
  · rename_i b hb
    split at hf
    · cases hf
    · rename_i ed5 hrd
      obtain ⟨e5, hfl5, hcl5, b', hb', hp', hlines⟩ := editRead_spec h hb hrd
      split at hf
      · cases hf
      · rename_i b5 hb5
        rw [hb'] at hb5
        cases hb5
        cases hf
        have key : BufOk ed5.files ed5.clock
            { b' with lb := (modified (savedCore b'.lb (!path.isEmpty))).2, mtime := ed5.mtimeOf b'.path } := ?_
        · exact (inv_setCur e5 key).to (by rfl) (by rfl) (by rfl)
        obtain ⟨_, d0, hr0, _⟩ := e5.cur hb'
        refine ⟨mtimeF_le e5.1 _, some b'.lb.lines, ?_, ?_⟩
        · cases (!path.isEmpty)
          · exact hr0.saved
          · exact hr0.savedClear
        · intro t ht hne _ fl hfl
          cases ht
          have hne' : b.path ≠ [] := by rw [← hp']; exact hne
          have hfl' : ed.findFile b.path = some fl := by
            rw [← hp']
            unfold Ed.findFile
            rw [← hfl5]
            exact hfl
          rw [hlines hne' fl hfl']
          exact Or.inl rfl

theorem editGuard_inv {ed ed' : Ed} {cmd : Bytes} {r : Bool} (h : Inv ed)
    (hg : C20.editGuard ed cmd = some (r, ed')) : Inv ed' := by
  unfold C20.editGuard at hg
  exact inv_guard h hg

theorem ewPre_inv {ed : Ed} (cmd path : Bytes) (h : Inv ed) : Inv (C20.ewPre ed cmd path) := by
  unfold C20.ewPre
  split
  · exact inv_bufsSwitch _ h
  · exact h

theorem editGuard2_inv {ed ed' : Ed} {path : Bytes} {r : Bool} (h : Inv ed)
    (hg : editGuard2 ed path = some (r, ed')) : Inv ed' := by
  unfold editGuard2 at hg
  exact inv_guard h hg

theorem editOpen_inv {ed : Ed} (path : Bytes) (h : Inv ed) : Inv (editOpen ed path) := by
  unfold editOpen
  split
  · exact inv_bufsSwitch _ (inv_bufsOpen _ h)
  · exact h

theorem editPlus_inv {f : Nat} (hcmd : CmdOK f) {pls : Bytes} {ed ed' : Ed} {r : Int} (h : Inv ed)
    (hp : editPlus f pls ed = some (r, ed')) : Inv ed' := by
  unfold editPlus at hp
  split at hp
  · exact hcmd _ _ _ _ h hp
  · cases hp; exact h

theorem ecEdit_inv (f : Nat) (hcmd : CmdOK f) (ed ed' : Ed) (cmd arg : Bytes) (r : Int) (hi : Inv ed)
    (h : ecEdit (f + 1) ed cmd arg = some (r, ed')) : Inv ed' := by
  rw [ecEdit_stages] at h
  split at h
  · cases h
  · rename_i ed1 hg
    cases h
    exact editGuard_inv hi hg
  · rename_i ed1 hg
    have e1 : Inv ed1 := editGuard_inv hi hg
    split at h
    · cases h
    · rename_i ed2 hp
      cases h
      exact e1.same (pathExpand_same hp)
    · rename_i path ed2 hp
      have e2 : Inv ed2 := e1.same (pathExpand_same hp)
      have e3 := ewPre_inv cmd path e2
      split at h
      · exact editPlus_inv hcmd (inv_bufsSwitch _ e3) h
      · split at h
        · cases h
        · rename_i ed3g hg2
          cases h
          exact editGuard2_inv e3 hg2
        · rename_i ed3g hg2
          have e3g : Inv ed3g := editGuard2_inv e3 hg2
          split at h
          · cases h
          · rename_i ed6 hfin
            exact editPlus_inv hcmd (editFinish_inv (editOpen_inv path e3g) hfin) h

/-! ### command lines -/

theorem cmds_inv (f : Nat) (hrun : RunOK f) :
    ∀ (g : Nat) (ed : Ed) (ln : Bytes) (ret r : Int) (ed' : Ed), Inv ed →
      exExec.cmds f g ed ln ret = some (r, ed') → Inv ed' := by
  intro g
  induction g with
  | zero => intro ed ln ret r ed' hi h; rw [exExec.cmds] at h; cases h; exact hi
  | succ g ih =>
    intro ed ln ret r ed' hi h
    rw [exExec.cmds] at h
    split at h
    · cases h; exact hi
    · generalize exLoc ln = p1 at h
      obtain ⟨loc, l1⟩ := p1
      simp only [] at h
      generalize exCmd l1 = p2 at h
      obtain ⟨cmd, l2⟩ := p2
      simp only [] at h
      generalize exIdx cmd = idx at h
      cases idx with
      | none =>
        simp only [] at h
        generalize exArg l2 (strOf "unknown") = p3 at h
        obtain ⟨arg, l3⟩ := p3
        simp only [] at h
        have hb := exTxt_same ed l3 (strOf "unknown")
        generalize exTxt ed l3 (strOf "unknown") = T at h hb
        obtain ⟨⟨txt, l4⟩, edT⟩ := T
        simp only [] at h hb
        exact ih _ _ _ _ _ ((hi.same hb).to (by rfl) (by rfl) (by rfl)) h
      | some ah =>
        obtain ⟨a, hh⟩ := ah
        simp only [] at h
        generalize exArg l2 a = p3 at h
        obtain ⟨arg, l3⟩ := p3
        simp only [] at h
        have hb := exTxt_same ed l3 a
        generalize exTxt ed l3 a = T at h hb
        obtain ⟨⟨txt, l4⟩, edT⟩ := T
        simp only [] at h hb
        split at h
        · cases h
        · rename_i r1 ed1 hr
          exact ih _ _ _ _ _ (hrun _ _ _ _ _ _ _ _ (hi.same hb) hr) h

theorem exExec_inv (f : Nat) (hrun : RunOK f) : ExecOK (f + 1) := by
  intro ed ln r ed' hi h
  rw [exExec] at h
  split at h
  · cases h; exact hi
  · exact cmds_inv f hrun _ _ _ _ _ _ hi h

theorem exCommand_inv (f : Nat) (hx : ExecOK f) : CmdOK (f + 1) := by
  intro ed ln r ed' hi h
  rw [exCommand] at h
  split at h
  · cases h
  · rename_i r1 ed1 he
    cases h
    exact inv_modifiedAt 0 (hx _ _ _ _ hi he)

theorem runCmd_ok (f : Nat) (hx : ExecOK f) (hc : CmdOK f) : RunOK (f + 2) := by
  intro ed hd loc cmd arg txt r ed' hi h
  refine runCmd_inv (f + 1) ed ed' hd loc cmd arg txt r ?_ ?_ ?_ hi h
  · intro ed r ed' hi h; exact ecAt_inv f hc ed ed' loc cmd arg r hi h
  · intro ed r ed' hi h; exact ecGlob_inv f hx ed ed' loc cmd arg r hi h
  · intro ed r ed' hi h; exact ecEdit_inv f hc ed ed' cmd arg r hi h

theorem runOK_zero : RunOK 0 := by
  intro ed hd loc cmd arg txt r ed' _ h; rw [runCmd] at h; cases h

theorem runOK_one : RunOK 1 := by
  intro ed hd loc cmd arg txt r ed' hi h
  refine runCmd_inv 0 ed ed' hd loc cmd arg txt r ?_ ?_ ?_ hi h
  · intro ed r ed' _ h; rw [ecAt] at h; cases h
  · intro ed r ed' _ h; rw [ecGlob] at h; cases h
  · intro ed r ed' _ h; rw [ecEdit] at h; cases h

/-- **every ex command line keeps the invariant, whatever the fuel** -/
theorem all_ok : ∀ f : Nat, ExecOK f ∧ CmdOK f ∧ RunOK f ∧ RunOK (f + 1) := by
  intro f
  induction f with
  | zero =>
    refine ⟨?_, ?_, runOK_zero, runOK_one⟩
    · intro ed ln r ed' _ h; rw [exExec] at h; cases h
    · intro ed ln r ed' _ h; rw [exCommand] at h; cases h
  | succ f ih =>
    obtain ⟨hx, hc, hr0, hr1⟩ := ih
    exact ⟨exExec_inv f hr0, exCommand_inv f hx, hr1, runCmd_ok f hx hc⟩

theorem exCommand_keeps {f : Nat} {ed ed' : Ed} {ln : Bytes} {r : Int} (hi : Inv ed)
    (h : exCommand f ed ln = some (r, ed')) : Inv ed' := (all_ok f).2.1 _ _ _ _ hi h

theorem exExec_keeps {f : Nat} {ed ed' : Ed} {ln : Bytes} {r : Int} (hi : Inv ed)
    (h : exExec f ed ln = some (r, ed')) : Inv ed' := (all_ok f).1 _ _ _ _ hi h

theorem runCmd_keeps {f : Nat} {ed ed' : Ed} {hd : String} {loc cmd arg : Bytes} {txt : Option Bytes} {r : Int}
    (hi : Inv ed) (h : runCmd f ed hd loc cmd arg txt = some (r, ed')) : Inv ed' :=
  (all_ok f).2.2.1 _ _ _ _ _ _ _ _ hi h

theorem ecEdit_keeps {f : Nat} {ed ed' : Ed} {cmd arg : Bytes} {r : Int} (hi : Inv ed)
    (h : ecEdit f ed cmd arg = some (r, ed')) : Inv ed' := by
  cases f with
  | zero => rw [ecEdit] at h; cases h
  | succ f => exact ecEdit_inv f (all_ok f).2.1 ed ed' cmd arg r hi h

/-! ### the `ex()` loop -/

theorem exStep_keeps {ed ed' : Ed} {r : Int} (hi : Inv ed) (h : exStep ed = some (r, ed')) : Inv ed' := by
  unfold exStep at h
  split at h
  · cases h
  · simp only [] at h
    split at h
    · cases h
    · rename_i r1 ed1 hc
      cases h
      exact (exCommand_keeps (hi.to (by rfl) (by rfl) (by rfl)) hc).to (by rfl) (by rfl) (by rfl)

theorem exInit_keeps {ed ed' : Ed} {files : List Bytes} {r : Int} (hi : Inv ed)
    (h : exInit ed files = some (r, ed')) : Inv ed' := by
  unfold exInit at h
  exact ecEdit_keeps hi h

theorem exRun_keeps : ∀ (n : Nat) (ed ed' : Ed), Inv ed → C02.Ex.exRun n ed = some ed' → Inv ed' := by
  intro n
  induction n with
  | zero => intro ed ed' hi h; cases h; exact hi
  | succ n ih =>
    intro ed ed' hi h
    rw [C02.Ex.exRun] at h
    split at h
    · cases h; exact hi
    · split at h
      · cases h
      · rename_i r1 ed1 hs
        exact ih _ _ (exStep_keeps hi hs) h

/-- an editor with an empty buffer table and a file system with sane stamps satisfies the invariant -/
theorem inv_empty_table (ed0 : Ed) (h0 : ed0.bufs = List.replicate Gen.NBUFS none) (hfs : FsOk ed0.files ed0.clock) :
    Inv ed0 := by
  refine ⟨hfs, fun b hb => ?_⟩
  rw [h0] at hb
  simp [List.mem_replicate] at hb

/-- **every state reached by `exInit` and `exStep`s satisfies the invariant** -/
theorem reachable_inv (ed0 : Ed) (files : List Bytes) (n : Nat) (rc : Int) (ed1 ed : Ed)
    (h0 : ed0.bufs = List.replicate Gen.NBUFS none) (hfs : FsOk ed0.files ed0.clock)
    (hinit : exInit ed0 files = some (rc, ed1)) (hrun : C02.Ex.exRun n ed1 = some ed) : Inv ed :=
  exRun_keeps n ed1 ed (exInit_keeps (inv_empty_table ed0 h0 hfs) hinit) hrun

/-! ### a list of command lines through `ex_command` -/

/-- run the command lines one after the other through `ex_command` with fuel `f` (`none` = trap) -/
def runLines (f : Nat) : List Bytes → Ed → Option Ed
  | [], ed => some ed
  | ln :: r, ed =>
    match exCommand f ed ln with
    | none => none
    | some (_, ed') => runLines f r ed'

theorem runLines_keeps (f : Nat) : ∀ (lns : List Bytes) (ed ed' : Ed), Inv ed → runLines f lns ed = some ed' → Inv ed' := by
  intro lns
  induction lns with
  | nil => intro ed ed' hi h; cases h; exact hi
  | cons ln r ih =>
    intro ed ed' hi h
    rw [runLines] at h
    split at h
    · cases h
    · rename_i r1 ed1 hc
      exact ih _ _ (exCommand_keeps hi hc) h

end Neatvi.Lemmas.C02d
