import NeatviVerif.Lemmas.C07bWord
/-!
# C07b: what the index scanner `we` computes (`e` forward, `b` backward)
-/
set_option linter.unusedSimpArgs false
set_option linter.unusedVariables false
namespace Neatvi.Lemmas.C07b
open Neatvi Neatvi.Uc Neatvi.Mot Neatvi.Lemmas.C07 Neatvi.Spec.Motion

theorem wen_false_blank {k : Nat → Nat} {c : Nat → Nat} {N m : Nat} (h1 : k (c m) = 0) (h2 : emp c m = false) :
    wen k c N m = false := by
  unfold wen; rw [h2]; simp [h1]

theorem emp_false_nonblank {big : Bool} {c : Nat → Nat} {m : Nat} (h1 : kk big (c m) ≠ 0) : emp c m = false := by
  unfold emp
  have : (c m == 10) = false := by
    cases h : (c m == 10) with
    | false => rfl
    | true => rw [beq_iff_eq] at h; rw [h, kk_nl] at h1; exact absurd rfl h1
  rw [this]; rfl

theorem wen_false_inner {big : Bool} {c : Nat → Nat} {N m : Nat} (h1 : kk big (c m) ≠ 0) (hN : m + 1 < N)
    (h2 : kk big (c (m + 1)) = kk big (c m)) : wen (kk big) c N m = false := by
  unfold wen
  rw [emp_false_nonblank h1, h2]
  have : decide (m + 1 ≥ N) = false := by simp; omega
  simp [this]

theorem wen_of_nonblank {k : Nat → Nat} {c : Nat → Nat} {N j : Nat} (h1 : k (c j) ≠ 0) (h2 : k (c (j + 1)) ≠ k (c j)) :
    wen k c N j = true := by
  unfold wen
  have a : (k (c j) != 0) = true := by simpa using h1
  have e : (k (c (j + 1)) != k (c j)) = true := by simpa using h2
  rw [a, e]; simp

/-! ### `we` forward -/
theorem weGo_fwd (c : Nat → Nat) (N : Nat) :
    ∀ f i nl, i < N → N ≤ i + f → nl = (if c i == 10 then 1 else 0) →
      (∃ j, weGo c N 1 f i nl = some (false, j) ∧ i < j ∧ j < N ∧
        (∀ m, i ≤ m → m < j → ucIsSpace (c m) = true) ∧ (∀ m, i < m → m < j → emp c m = false) ∧ emp c j = true) ∨
      (weGo c N 1 f i nl = some (true, N - 1) ∧
        (∀ m, i ≤ m → m < N → ucIsSpace (c m) = true) ∧ (∀ m, i < m → m < N → emp c m = false)) ∨
      (∃ q, weGo c N 1 f i nl = none ∧ wePos c N 1 f i nl = q ∧ i ≤ q ∧ q < N ∧
        (∀ m, i ≤ m → m < q → ucIsSpace (c m) = true) ∧ (∀ m, i < m → m < q → emp c m = false) ∧
        ucIsSpace (c q) = false) := by
  intro f
  induction f with
  | zero => intro i nl h1 h2; omega
  | succ f ih =>
    intro i nl h1 h2 hnl
    unfold weGo wePos
    by_cases hm : ucIsSpace (c i) = true
    · rw [if_pos hm, if_pos hm]
      by_cases hi : i + 1 < N
      · have hx : nxt N 1 i = some (i + 1) := by unfold nxt; rw [if_pos (by omega), if_pos hi]
        rw [hx]
        simp only []
        by_cases h2' : ((if (c (i + 1) == 10) = true then nl + 1 else 0) == 2) = true
        · rw [if_pos h2', if_pos h2', if_neg (by omega)]
          left
          refine ⟨i + 1, rfl, by omega, hi, fun m m1 m2 => ?_, fun m m1 m2 => by omega, ?_⟩
          · have : m = i := by omega
            subst this; exact hm
          · by_cases hcj : (c (i + 1) == 10) = true
            · rw [if_pos hcj] at h2'
              have hn1 : nl = 1 := by simpa using h2'
              by_cases hp : (c i == 10) = true
              · unfold emp; rw [hcj, show i + 1 - 1 = i by omega, hp]; simp
              · rw [if_neg hp] at hnl; omega
            · rw [if_neg hcj] at h2'; simp at h2'
        · rw [if_neg h2', if_neg h2']
          have hemp : emp c (i + 1) = false := by
            unfold emp
            by_cases hcj : (c (i + 1) == 10) = true
            · rw [if_pos hcj] at h2'
              by_cases hp : (c i == 10) = true
              · rw [if_pos hp] at hnl; subst hnl; simp at h2'
              · rw [show i + 1 - 1 = i by omega]; simp [hp]
            · simp [hcj]
          have hnl' : (if (c (i + 1) == 10) = true then nl + 1 else 0) = (if (c (i + 1) == 10) = true then 1 else 0) := by
            by_cases hcj : (c (i + 1) == 10) = true
            · rw [if_pos hcj, if_pos hcj]
              rw [if_pos hcj] at h2'
              by_cases hp : (c i == 10) = true
              · rw [if_pos hp] at hnl; subst hnl; simp at h2'
              · rw [if_neg hp] at hnl; omega
            · rw [if_neg hcj, if_neg hcj]
          rcases ih (i + 1) _ hi (by omega) hnl' with ⟨j, e, a1, a2, a3, a4, a5⟩ | ⟨e, a3, a4⟩ | ⟨q, e, e', a1, a2, a3, a4, a5⟩
          · left
            refine ⟨j, e, by omega, a2, fun m m1 m2 => ?_, fun m m1 m2 => ?_, a5⟩
            · by_cases hmi : m = i
              · subst hmi; exact hm
              · exact a3 m (by omega) m2
            · by_cases hmi : m = i + 1
              · subst hmi; exact hemp
              · exact a4 m (by omega) m2
          · right; left
            refine ⟨e, fun m m1 m2 => ?_, fun m m1 m2 => ?_⟩
            · by_cases hmi : m = i
              · subst hmi; exact hm
              · exact a3 m (by omega) m2
            · by_cases hmi : m = i + 1
              · subst hmi; exact hemp
              · exact a4 m (by omega) m2
          · right; right
            refine ⟨q, e, e', by omega, a2, fun m m1 m2 => ?_, fun m m1 m2 => ?_, a5⟩
            · by_cases hmi : m = i
              · subst hmi; exact hm
              · exact a3 m (by omega) m2
            · by_cases hmi : m = i + 1
              · subst hmi; exact hemp
              · exact a4 m (by omega) m2
      · have hx : nxt N 1 i = none := by unfold nxt; rw [if_pos (by omega), if_neg hi]
        rw [hx]
        right; left
        have hiN : i = N - 1 := by omega
        refine ⟨by rw [hiN], fun m m1 m2 => ?_, fun m m1 m2 => by omega⟩
        have : m = i := by omega
        subst this; exact hm
    · rw [if_neg hm, if_neg hm]
      right; right
      exact ⟨i, rfl, rfl, Nat.le_refl _, h1, fun m m1 m2 => by omega, fun m m1 m2 => by omega, by simpa using hm⟩

/-- **one `e` step on indices** -/
theorem we_fwd {c : Nat → Nat} {N : Nat} (ht : Txt c N) (big : Bool) (i : Nat) (hi : i < N) :
    (∃ j, we c N big 1 i = (false, j) ∧ nextWhere N (wen (kk big) c N) i = some j) ∨
    (we c N big 1 i = (true, N - 1) ∧ nextWhere N (wen (kk big) c N) i = none) := by
  have hsp := fun x => kk_space big (c x) (ht.lt x)
  have hlastsp : ucIsSpace (c (N - 1)) = true := by rw [ht.last]; decide
  -- the first step
  have hp : ∃ p, weStep1 c N 1 i = some (p, 0) ∧ p < N ∧ i ≤ p ∧ (∀ m, i < m → m ≤ p → emp c m = false ∧ m = p) ∧
      (ucIsSpace (c i) = false → i < p) := by
    unfold weStep1
    by_cases hm : ucIsSpace (c i) = true
    · refine ⟨i, by simp [hm], hi, Nat.le_refl _, fun m m1 m2 => by omega, fun h => ?_⟩
      rw [hm] at h; cases h
    · have hm' : ucIsSpace (c i) = false := by simpa using hm
      have hi1 : i + 1 < N := by
        rcases Nat.lt_or_ge (i + 1) N with h | h
        · exact h
        · have : i = N - 1 := by omega
          rw [this, hlastsp] at hm'; cases hm'
      have hx : nxt N 1 i = some (i + 1) := by unfold nxt; rw [if_pos (by omega), if_pos hi1]
      refine ⟨i + 1, by simp [hm', hx], hi1, by omega, fun m m1 m2 => ?_, fun _ => by omega⟩
      have : m = i + 1 := by omega
      subst this
      refine ⟨?_, rfl⟩
      unfold emp
      rw [show i + 1 - 1 = i by omega]
      have : (c i == 10) = false := by
        cases h : (c i == 10) with
        | false => rfl
        | true => rw [beq_iff_eq] at h; rw [h] at hm'; revert hm'; decide
      simp [this]
  obtain ⟨p, hpe, p1, p2, p3, p4⟩ := hp
  have hpm : ∀ m, i < m → p ≤ m := by
    intro m m1
    rcases Nat.lt_or_ge p m with h | h
    · omega
    · have := (p3 m m1 h).2; omega
  unfold we
  simp only []
  rw [hpe]
  simp only [Nat.zero_add, show ((1 : Int) > 0) by omega, decide_true, Bool.true_and]
  rcases weGo_fwd c N (N + 2) p (if (c p == 10) = true then 1 else 0) p1 (by omega) rfl with
    ⟨j, e, a1, a2, a3, a4, a5⟩ | ⟨e, a3, a4⟩ | ⟨q, e, e', a1, a2, a3, a4, a5⟩
  · rw [e]
    left
    refine ⟨j, rfl, ?_⟩
    apply nextWhere_some _ _ _ _ a2 (by omega)
    · unfold wen; rw [a5]; simp
    · intro m m1 m2
      have hb := a3 m (hpm m m1) m2
      rw [hsp] at hb
      apply wen_false_blank (beq_iff_eq.mp hb)
      rcases Nat.lt_or_ge p m with h | h
      · exact a4 m h m2
      · exact (p3 m m1 h).1
  · rw [e]
    right
    refine ⟨rfl, ?_⟩
    apply nextWhere_none
    intro m m1 m2
    have hb := a3 m (hpm m m1) m2
    rw [hsp] at hb
    apply wen_false_blank (beq_iff_eq.mp hb)
    rcases Nat.lt_or_ge p m with h | h
    · exact a4 m h m2
    · exact (p3 m m1 h).1
  · rw [e]
    simp only []
    rw [e']
    have hkq : kk big (c q) ≠ 0 := by
      intro h0; rw [hsp, h0] at a5; simp at a5
    obtain ⟨en, he, b1, b2, b3, b4⟩ := wl_fwd ht big q a2 hkq
    rw [he]
    left
    refine ⟨en, rfl, ?_⟩
    have hien : i < en := by
      by_cases hm : ucIsSpace (c i) = true
      · rcases Nat.lt_or_ge i q with h | h
        · omega
        · have hqi : q = i := by omega
          rw [hqi, hm] at a5; cases a5
      · have := p4 (by simpa using hm); omega
    apply nextWhere_some _ _ _ _ (by omega) hien
    · apply wen_of_nonblank
      · rw [b3 en b1 (Nat.le_refl _)]; exact hkq
      · rw [b3 en b1 (Nat.le_refl _)]; exact b4
    · intro m m1 m2
      rcases Nat.lt_or_ge m q with hmq | hmq
      · have hb := a3 m (hpm m m1) hmq
        rw [hsp] at hb
        apply wen_false_blank (beq_iff_eq.mp hb)
        rcases Nat.lt_or_ge p m with h | h
        · exact a4 m h hmq
        · exact (p3 m m1 h).1
      · apply wen_false_inner
        · rw [b3 m hmq (by omega)]; exact hkq
        · omega
        · rw [b3 m hmq (by omega), b3 (m + 1) (by omega) (by omega)]

/-! ### `wl` backward: to the first character of the run -/
theorem wlGo_bwd (c : Nat → Nat) (N kind : Nat) :
    ∀ f i, i < f →
      (∃ j, wlGo c N kind (-1) f i = (false, j) ∧ j ≤ i ∧
        (∀ m, j < m → m ≤ i → ((ucKind (c m) &&& kind) != 0) = true) ∧ ((ucKind (c j) &&& kind) != 0) = false) ∨
      (wlGo c N kind (-1) f i = (true, 0) ∧ ∀ m, m ≤ i → ((ucKind (c m) &&& kind) != 0) = true) := by
  intro f
  induction f with
  | zero => intro i h; omega
  | succ f ih =>
    intro i h
    unfold wlGo
    by_cases hm : ((ucKind (c i) &&& kind) != 0) = true
    · rw [if_pos hm]
      cases i with
      | zero =>
        have hx : nxt N (-1) 0 = none := by unfold nxt; rw [if_neg (by omega), if_neg (by omega)]
        rw [hx]
        right
        refine ⟨rfl, fun m m1 => ?_⟩
        have : m = 0 := by omega
        subst this; exact hm
      | succ k =>
        have hx : nxt N (-1) (k + 1) = some k := by
          unfold nxt; rw [if_neg (by omega), if_pos (by omega)]; rfl
        rw [hx]
        rcases ih k (by omega) with ⟨j, e, a1, a2, a3⟩ | ⟨e, a⟩
        · left
          refine ⟨j, e, by omega, fun m m1 m2 => ?_, a3⟩
          by_cases hmk : m = k + 1
          · subst hmk; exact hm
          · exact a2 m m1 (by omega)
        · right
          refine ⟨e, fun m m1 => ?_⟩
          by_cases hmk : m = k + 1
          · subst hmk; exact hm
          · exact a m (by omega)
    · rw [if_neg hm]
      left
      exact ⟨i, rfl, Nat.le_refl _, fun m m1 m2 => by omega, by simpa using hm⟩

theorem wl_bwd {c : Nat → Nat} {N : Nat} (ht : Txt c N) (big : Bool) (i : Nat) (hi : i < N) (hk : kk big (c i) ≠ 0) :
    ∃ fl s, wl c N (if big then 3 else ucKind (c i)) (-1) (N + 2) i = (fl, s) ∧ s ≤ i ∧
      (∀ m, s ≤ m → m ≤ i → kk big (c m) = kk big (c i)) ∧ (fl = true ↔ s = 0) ∧
      (s ≠ 0 → kk big (c (s - 1)) ≠ kk big (c i)) := by
  have hmask := fun x => kk_mask big (c x) (c i) (ht.lt x) (ht.lt i) hk
  have hmi : ((ucKind (c i) &&& (if big then 3 else ucKind (c i))) != 0) = true := by rw [hmask]; simp
  have hk0 : ((if big then 3 else ucKind (c i)) == 0 || (ucKind (c i) &&& (if big then 3 else ucKind (c i))) == 0) = false := by
    have h3 : ((ucKind (c i) &&& (if big then 3 else ucKind (c i))) == 0) = false := by
      simp only [bne_iff_ne, ne_eq] at hmi; simpa using hmi
    rw [h3, Bool.or_false]
    cases hz : ((if big then 3 else ucKind (c i)) == 0) with
    | false => rfl
    | true => rw [beq_iff_eq] at hz; rw [hz] at hmi; simp at hmi
  unfold wl
  rw [if_neg (by rw [hk0]; simp)]
  rcases wlGo_bwd c N (if big then 3 else ucKind (c i)) (N + 2) i (by omega) with ⟨j, e, a1, a2, a3⟩ | ⟨e, a⟩
  · rw [e]
    simp only []
    have hji : j < i := by
      rcases Nat.lt_or_ge j i with h | h
      · exact h
      · have : j = i := by omega
        rw [this, hmi] at a3; cases a3
    have h4 : ((ucKind (c j) &&& (if big then 3 else ucKind (c i))) == 0) = true := by
      simp only [bne_eq_false_iff_eq, beq_iff_eq] at a3; simpa using a3
    rw [if_pos h4]
    have hx : nxt N (-(-1)) j = some (j + 1) := by
      unfold nxt; rw [if_pos (by omega), if_pos (by omega)]
    rw [hx]
    refine ⟨false, j + 1, rfl, by omega, fun m m1 m2 => ?_, by simp, fun _ => ?_⟩
    · have := a2 m (by omega) m2
      rw [hmask] at this
      exact beq_iff_eq.mp this
    · rw [show j + 1 - 1 = j by omega]
      rw [hmask] at a3
      intro hh; rw [hh] at a3; simp at a3
  · rw [e]
    refine ⟨true, 0, rfl, by omega, fun m m1 m2 => ?_, by simp, fun h => absurd rfl h⟩
    have := a m m2
    rw [hmask] at this
    exact beq_iff_eq.mp this

/-! ### `we` backward -/
theorem weGo_bwd (c : Nat → Nat) (N lim : Nat) :
    ∀ f x nl, x ≤ lim → x < N → x < f → nl = (if (c x == 10 && decide (x < lim)) = true then 1 else 0) →
      (∃ j, weGo c N (-1) f x nl = some (false, j) ∧ 0 < j ∧ j ≤ x ∧ j < lim ∧ emp c j = true ∧
        (∀ m, j ≤ m → m ≤ x → ucIsSpace (c m) = true) ∧ (∀ m, j < m → m ≤ x → m < lim → emp c m = false)) ∨
      (weGo c N (-1) f x nl = some (true, 0) ∧
        (∀ m, m ≤ x → ucIsSpace (c m) = true) ∧ (∀ m, 0 < m → m ≤ x → m < lim → emp c m = false)) ∨
      (∃ q, weGo c N (-1) f x nl = none ∧ wePos c N (-1) f x nl = q ∧ q ≤ x ∧ ucIsSpace (c q) = false ∧
        (∀ m, q < m → m ≤ x → ucIsSpace (c m) = true) ∧ (∀ m, q < m → m ≤ x → m < lim → emp c m = false)) := by
  intro f
  induction f with
  | zero => intro x nl h0 h1 h2; omega
  | succ f ih =>
    intro x nl h0 h1 h2 hnl
    unfold weGo wePos
    by_cases hm : ucIsSpace (c x) = true
    · rw [if_pos hm, if_pos hm]
      cases x with
      | zero =>
        have hx : nxt N (-1) 0 = none := by unfold nxt; rw [if_neg (by omega), if_neg (by omega)]
        rw [hx]
        right; left
        refine ⟨rfl, fun m m1 => ?_, fun m m1 m2 => by omega⟩
        have : m = 0 := by omega
        subst this; exact hm
      | succ k =>
        have hx : nxt N (-1) (k + 1) = some k := by
          unfold nxt; rw [if_neg (by omega), if_pos (by omega)]; rfl
        rw [hx]
        simp only []
        by_cases h2' : ((if (c k == 10) = true then nl + 1 else 0) == 2) = true
        · rw [if_pos h2', if_pos h2', if_pos (by omega)]
          have hx2 : nxt N (-(-1)) k = some (k + 1) := by
            unfold nxt; rw [if_pos (by omega), if_pos (by omega)]
          rw [hx2]
          left
          have hck : (c k == 10) = true := by
            by_cases hck : (c k == 10) = true
            · exact hck
            · rw [if_neg hck] at h2'; simp at h2'
          rw [if_pos hck] at h2'
          have hn1 : nl = 1 := by simpa using h2'
          have hcx : (c (k + 1) == 10 && decide (k + 1 < lim)) = true := by
            by_cases hh : (c (k + 1) == 10 && decide (k + 1 < lim)) = true
            · exact hh
            · rw [if_neg hh] at hnl; omega
          simp only [Bool.and_eq_true, decide_eq_true_eq] at hcx
          refine ⟨k + 1, rfl, by omega, Nat.le_refl _, hcx.2, ?_, fun m m1 m2 => ?_, fun m m1 m2 => by omega⟩
          · unfold emp; rw [hcx.1, show k + 1 - 1 = k by omega, hck]; simp
          · have : m = k + 1 := by omega
            subst this; exact hm
        · rw [if_neg h2', if_neg h2']
          -- `k + 1` is not an empty line below `lim`
          have hemp : k + 1 < lim → emp c (k + 1) = false := by
            intro hl
            unfold emp
            by_cases hcx : (c (k + 1) == 10) = true
            · by_cases hck : (c k == 10) = true
              · rw [if_pos hck] at h2'
                rw [if_pos (by simp [hcx, hl])] at hnl
                subst hnl; simp at h2'
              · rw [show k + 1 - 1 = k by omega]; simp [hck]
            · simp [hcx]
          have hnl' : (if (c k == 10) = true then nl + 1 else 0) =
              (if (c k == 10 && decide (k < lim)) = true then 1 else 0) := by
            have hkl : decide (k < lim) = true := by simp; omega
            rw [hkl, Bool.and_true]
            by_cases hck : (c k == 10) = true
            · rw [if_pos hck, if_pos hck]
              rw [if_pos hck] at h2'
              by_cases hh : (c (k + 1) == 10 && decide (k + 1 < lim)) = true
              · rw [if_pos hh] at hnl; subst hnl; simp at h2'
              · rw [if_neg hh] at hnl; omega
            · rw [if_neg hck, if_neg hck]
          rcases ih k _ (by omega) (by omega) (by omega) hnl' with
            ⟨j, e, a0, a1, a2, a3, a4, a5⟩ | ⟨e, a4, a5⟩ | ⟨q, e, e', a1, a2, a4, a5⟩
          · left
            refine ⟨j, e, a0, by omega, a2, a3, fun m m1 m2 => ?_, fun m m1 m2 m3 => ?_⟩
            · by_cases hmk : m = k + 1
              · subst hmk; exact hm
              · exact a4 m m1 (by omega)
            · by_cases hmk : m = k + 1
              · subst hmk; exact hemp m3
              · exact a5 m m1 (by omega) m3
          · right; left
            refine ⟨e, fun m m1 => ?_, fun m m1 m2 m3 => ?_⟩
            · by_cases hmk : m = k + 1
              · subst hmk; exact hm
              · exact a4 m (by omega)
            · by_cases hmk : m = k + 1
              · subst hmk; exact hemp m3
              · exact a5 m m1 (by omega) m3
          · right; right
            refine ⟨q, e, e', by omega, a2, fun m m1 m2 => ?_, fun m m1 m2 m3 => ?_⟩
            · by_cases hmk : m = k + 1
              · subst hmk; exact hm
              · exact a4 m m1 (by omega)
            · by_cases hmk : m = k + 1
              · subst hmk; exact hemp m3
              · exact a5 m m1 (by omega) m3
    · rw [if_neg hm, if_neg hm]
      right; right
      exact ⟨x, rfl, rfl, Nat.le_refl _, by simpa using hm, fun m m1 m2 => by omega, fun m m1 m2 => by omega⟩

/-- **one `b` step on indices**: the target is the greatest word start before `i`, else index 0; the
    scanner reports failure exactly when it stops at index 0 -/
theorem we_bwd {c : Nat → Nat} {N : Nat} (ht : Txt c N) (big : Bool) (i : Nat) (hi : i < N) :
    ∃ fl j, we c N big (-1) i = (fl, j) ∧ (prevWhere (ws (kk big) c) i).getD 0 = j ∧ (fl = true ↔ j = 0) := by
  have hsp := fun x => kk_space big (c x) (ht.lt x)
  suffices h : ∃ fl j, we c N big (-1) i = (fl, j) ∧ j ≤ i ∧ (fl = true ↔ j = 0) ∧
      (∀ m, j < m → m < i → ws (kk big) c m = false) ∧ (j ≠ 0 → j < i ∧ ws (kk big) c j = true) by
    obtain ⟨fl, j, e, a1, a2, a3, a4⟩ := h
    exact ⟨fl, j, e, prevWhere_getD _ i j a1 a3 a4, a2⟩
  unfold we weStep1
  simp only []
  by_cases hm : ucIsSpace (c i) = true
  · -- blank under the cursor: the scan starts here, this index is not a candidate
    simp only [hm, Bool.not_true, Bool.false_eq_true, if_false, Nat.zero_add,
      show ¬ ((-1 : Int) > 0) by omega, decide_false, Bool.false_and, Nat.add_zero]
    rcases weGo_bwd c N i (N + 2) i 0 (Nat.le_refl _) hi (by omega) (by simp) with
      ⟨j, e, a0, a1, a2, a3, a4, a5⟩ | ⟨e, a4, a5⟩ | ⟨q, e, e', a1, a2, a4, a5⟩
    · rw [e]
      refine ⟨false, j, rfl, a1, by simp; omega, fun m m1 m2 => ?_, fun _ => ⟨a2, ?_⟩⟩
      · have hb := a4 m (by omega) (by omega)
        rw [hsp] at hb
        exact ws_false_blank (beq_iff_eq.mp hb) (a5 m m1 (by omega) m2)
      · unfold ws; rw [a3]; simp
    · rw [e]
      refine ⟨true, 0, rfl, by omega, by simp, fun m m1 m2 => ?_, fun h => absurd rfl h⟩
      have hb := a4 m (by omega)
      rw [hsp] at hb
      exact ws_false_blank (beq_iff_eq.mp hb) (a5 m m1 (by omega) m2)
    · rw [e]
      simp only []
      rw [e']
      have hkq : kk big (c q) ≠ 0 := by
        intro h0; rw [hsp, h0] at a2; simp at a2
      have hqi : q < i := by
        rcases Nat.lt_or_ge q i with h | h
        · exact h
        · have : q = i := by omega
          rw [this, hm] at a2; cases a2
      obtain ⟨fl, s, he, b1, b2, b3, b4⟩ := wl_bwd ht big q (by omega) hkq
      rw [he]
      refine ⟨fl, s, rfl, by omega, b3, fun m m1 m2 => ?_, fun hs => ⟨by omega, ?_⟩⟩
      · rcases Nat.lt_or_ge q m with hqm | hqm
        · have hb := a4 m hqm (by omega)
          rw [hsp] at hb
          exact ws_false_blank (beq_iff_eq.mp hb) (a5 m hqm (by omega) m2)
        · apply ws_false_inner (by omega)
          · rw [b2 m (by omega) hqm]; exact hkq
          · rw [b2 m (by omega) hqm, b2 (m - 1) (by omega) (by omega)]
      · apply ws_of_nonblank
        · rw [b2 s (Nat.le_refl _) b1]; exact hkq
        · right; rw [b2 s (Nat.le_refl _) b1]; exact b4 hs
  · have hm' : ucIsSpace (c i) = false := by simpa using hm
    simp only [hm', Bool.not_false, if_true]
    cases i with
    | zero =>
      have hx : nxt N (-1) 0 = none := by unfold nxt; rw [if_neg (by omega), if_neg (by omega)]
      rw [hx]
      exact ⟨true, 0, rfl, by omega, by simp, fun m m1 m2 => by omega, fun h => absurd rfl h⟩
    | succ k =>
      have hx : nxt N (-1) (k + 1) = some k := by
        unfold nxt; rw [if_neg (by omega), if_pos (by omega)]; rfl
      rw [hx]
      simp only [show ((-1 : Int) < 0) by omega, decide_true, Bool.true_and,
        show ¬ ((-1 : Int) > 0) by omega, decide_false, Bool.false_and, Bool.false_eq_true, if_false, Nat.add_zero]
      rcases weGo_bwd c N (k + 1) (N + 2) k (if (c k == 10) = true then 1 else 0) (by omega) (by omega) (by omega)
        (by simp) with ⟨j, e, a0, a1, a2, a3, a4, a5⟩ | ⟨e, a4, a5⟩ | ⟨q, e, e', a1, a2, a4, a5⟩
      · rw [e]
        refine ⟨false, j, rfl, by omega, by simp; omega, fun m m1 m2 => ?_, fun _ => ⟨a2, ?_⟩⟩
        · have hb := a4 m (by omega) (by omega)
          rw [hsp] at hb
          exact ws_false_blank (beq_iff_eq.mp hb) (a5 m m1 (by omega) m2)
        · unfold ws; rw [a3]; simp
      · rw [e]
        refine ⟨true, 0, rfl, by omega, by simp, fun m m1 m2 => ?_, fun h => absurd rfl h⟩
        have hb := a4 m (by omega)
        rw [hsp] at hb
        exact ws_false_blank (beq_iff_eq.mp hb) (a5 m m1 (by omega) m2)
      · rw [e]
        simp only []
        rw [e']
        have hkq : kk big (c q) ≠ 0 := by
          intro h0; rw [hsp, h0] at a2; simp at a2
        obtain ⟨fl, s, he, b1, b2, b3, b4⟩ := wl_bwd ht big q (by omega) hkq
        rw [he]
        refine ⟨fl, s, rfl, by omega, b3, fun m m1 m2 => ?_, fun hs => ⟨by omega, ?_⟩⟩
        · rcases Nat.lt_or_ge q m with hqm | hqm
          · have hb := a4 m hqm (by omega)
            rw [hsp] at hb
            exact ws_false_blank (beq_iff_eq.mp hb) (a5 m hqm (by omega) m2)
          · apply ws_false_inner (by omega)
            · rw [b2 m (by omega) hqm]; exact hkq
            · rw [b2 m (by omega) hqm, b2 (m - 1) (by omega) (by omega)]
        · apply ws_of_nonblank
          · rw [b2 s (Nat.le_refl _) b1]; exact hkq
          · right; rw [b2 s (Nat.le_refl _) b1]; exact b4 hs

end Neatvi.Lemmas.C07b
