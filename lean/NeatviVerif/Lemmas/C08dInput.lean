import NeatviVerif.Lemmas.C08bInsert2
/-!
# C08 (insert mode): `led_input` over any number of typed lines

The loop of `led_input` one iteration at a time (`loop_step_nl`, `loop_step_end`), then by induction on the
list of typed lines (`loop_lines`), then `led_input` itself (`ledInput_lines`).
-/
set_option linter.unusedSimpArgs false
namespace Neatvi.Lemmas.C08d
open Neatvi Neatvi.Uc Neatvi.Vi Neatvi.Ex Neatvi.Spec Neatvi.Lemmas.C08 Neatvi.Lemmas.C08b Neatvi.Lemmas.C09

/-- the rest of the line after a newline, `xai` given as a flag -/
def dropB (b : Bool) (post : Bytes) : Bytes := post.drop (if b then (post.takeWhile isBlankC).length else 0)

theorem postAfterNl_eq (s : VS) (post : Bytes) : postAfterNl s post = dropB s.xai post := rfl

theorem drop_takeWhile_length {α : Type} (p : α → Bool) : ∀ (l : List α),
    l.drop (l.takeWhile p).length = l.dropWhile p := by
  intro l
  induction l with
  | nil => rfl
  | cons x t ih =>
    by_cases hx : p x = true
    · simp only [List.takeWhile_cons, hx, if_true, List.length_cons, List.drop_succ_cons, List.dropWhile_cons, ih]
    · simp only [List.takeWhile_cons, hx, if_false, List.length_nil, List.drop_zero, List.dropWhile_cons,
        Bool.false_eq_true]

theorem takeWhile_dropWhile_nil {α : Type} (p : α → Bool) : ∀ (l : List α), (l.dropWhile p).takeWhile p = [] := by
  intro l
  induction l with
  | nil => rfl
  | cons x t ih =>
    by_cases hx : p x = true
    · simp only [List.dropWhile_cons, hx, if_true, ih]
    · simp only [List.dropWhile_cons, hx, if_false, Bool.false_eq_true, List.takeWhile_cons, hx]

/-- after a newline the rest of the line has lost its leading blanks: a second newline takes nothing more -/
theorem dropB_idem (b : Bool) (post : Bytes) : dropB b (dropB b post) = dropB b post := by
  unfold dropB
  cases b
  · rfl
  · simp only [if_true]
    rw [drop_takeWhile_length _ post, takeWhile_dropWhile_nil]
    rfl

/-- the text of a typed line that does not start with a blank -/
structure PlainLn (ln : Bytes) : Prop where
  tw : ln.takeWhile isBlankC = []
  pos : 0 < ln.length
  nl : nlCount ln = 0

theorem plainLn_enc (l : List Nat) (hl : ∀ c ∈ l, ValidCp c ∧ 32 ≤ c ∧ c ≠ 127)
    (hne : l.head? ≠ none ∧ l.head? ≠ some 32) : PlainLn (encStr l) := by
  obtain ⟨c, t, rfl⟩ : ∃ c t, l = c :: t := by
    cases l with
    | nil => exact absurd rfl hne.1
    | cons c t => exact ⟨c, t, rfl⟩
  have hc := hl c (by simp)
  refine ⟨takeWhile_blank_text c t hc.1 (fun h => hne.2 (by simp [h])) (by omega), ?_,
    nlCount_encStr (fun h => by have := hl 10 h; omega)⟩
  have := enc_length_pos c
  rw [encStr_cons, List.length_append]; omega

/-- one iteration of the loop of `led_input` that ends with a newline -/
theorem loop_step_nl (b : Bool) (f : Nat) (sb : Bytes) (pref : Option Bytes) (post ai ln : Bytes) (s s1 : VS)
    (hln : PlainLn ln)
    (hL : ledLine (pref.getD []) post ai 127 true false s = Res.ok (ln, ((10 : Nat) : Int), ai) s1) :
    ledInput.loop b (f + 1) sb pref post ai s =
      ledInput.loop b f (sb ++ ai ++ pref.getD [] ++ ln ++ [10]) none (dropB b post) (if b then ai else [])
        (nextlineSt s1) := by
  obtain ⟨tw, hpos, hn⟩ := hln
  have hpos' : decide (0 < ln.length) = true := by simpa using hpos
  have hai : ∀ (A X : Bytes) (c : Bool), (if (!b) = true then [] else
      if (!c) = true then A ++ List.take (min 0 (127 - A.length)) X else A) = (if b = true then A else []) := by
    intro A X c; cases b <;> cases c <;> simp
  cases pref <;>
  · rw [ledInput.loop]
    simp only [bind_apply, hL, hn, tw, List.length_nil, hpos',
      show ((((10 : Nat) : Int)) == 10) = true from rfl, show ((((10 : Nat) : Int)) != 10) = false from rfl, if_true,
      Vi.repeatM, viNextlineR_apply, pure_apply, Bool.false_eq_true, if_false, Bool.true_or, Nat.zero_add, hai]
    rfl

/-- the iteration of the loop of `led_input` that ends with ESC -/
theorem loop_step_end (b : Bool) (f : Nat) (sb : Bytes) (pref : Option Bytes) (post ai ln : Bytes) (s s1 : VS)
    (hln : PlainLn ln)
    (hL : ledLine (pref.getD []) post ai 127 true false s = Res.ok (ln, ((27 : Nat) : Int), ai) s1) :
    ledInput.loop b (f + 1) sb pref post ai s = Res.ok (sb ++ ai ++ pref.getD [] ++ ln ++ post, post) s1 := by
  obtain ⟨tw, hpos, hn⟩ := hln
  have hpos' : decide (0 < ln.length) = true := by simpa using hpos
  cases pref <;>
  · rw [ledInput.loop]
    simp only [bind_apply, hL, hn, tw, List.length_nil, hpos', Bool.true_or, if_true,
      show ((((27 : Nat) : Int)) == 10) = false from rfl, show ((((27 : Nat) : Int)) != 10) = true from rfl,
      Bool.false_eq_true, if_false, Nat.add_zero, Vi.repeatM, pure_apply, List.append_nil]

/-! ### the line editor on one plain line -/

/-- the typed lines: valid code points, no control characters, not DEL; not empty and not starting with a
blank; within the loop bound -/
def PlainLine (l : List Nat) : Prop :=
  (∀ c ∈ l, ValidCp c ∧ 32 ≤ c ∧ c ≠ 127) ∧ (l.head? ≠ none ∧ l.head? ≠ some 32) ∧ l.length < 100000

instance (l : List Nat) : Decidable (PlainLine l) := by unfold PlainLine; exact inferInstance

/-- in particular lines without any blank (the hypothesis of `ledInput_multi_line_full`) -/
theorem plainLine_of_noblank {l : List Nat} (h : (∀ c ∈ l, ValidCp c ∧ 32 < c ∧ c ≠ 127) ∧ l ≠ [] ∧ l.length < 100000) :
    PlainLine l := by
  refine ⟨fun c hc => ?_, ?_, h.2.2⟩
  · have := h.1 c hc
    exact ⟨this.1, by omega, this.2.2⟩
  · cases l with
    | nil => exact absurd rfl h.2.1
    | cons c t =>
      have := h.1 c (by simp)
      refine ⟨by simp, ?_⟩
      simp only [List.head?_cons, ne_eq, Option.some.injEq]
      omega

theorem PlainLine.plainLn {l : List Nat} (h : PlainLine l) : PlainLn (encStr l) := plainLn_enc l h.1 h.2.1

theorem ledLine_line (pref post ai : Bytes) (s : VS) (l : List Nat) (e : Nat) (rest : Bytes)
    (hp : pending s = encStr l ++ e :: rest) (hl : PlainLine l) (he : e = 10 ∨ e = 27) (hk : s.xkmap = 0) :
    ∃ s1, ledLine pref post ai 127 true false s = Res.ok (encStr l, (e : Int), ai) s1 ∧ pending s1 = rest ∧
      Reads true (encStr l ++ [e]) s s1 := by
  obtain ⟨s1, h1, h2, h3⟩ := ledLine_script pref post ai 127 true false s [Ev.text l] e rest
    (by rw [hp]; simp [scriptKeys, Ev.keys])
    (by intro ev hev; simp at hev; subst hev; exact hl.1)
    (by rcases he with h | h; exact Or.inl h; exact Or.inr (Or.inl h))
    (by simpa [scriptSteps, Ev.steps] using hl.2.2) hk
  refine ⟨s1, ?_, h2, ?_⟩
  · simpa [runScript, Ev.apply] using h1
  · simpa [scriptKeys, Ev.keys] using h3

/-! ### the state after typing lines -/

/-- `s'` is `s` after the keys `used` were read and the cursor went down `n` rows: the text, the registers
and everything outside the editor record and the key queue are the same -/
structure Typed (used : Bytes) (n : Nat) (s s' : VS) : Prop where
  frame : ReadsEd used s s'
  bufs : s'.ed.bufs = s.ed.bufs
  xrow : s'.ed.xrow = s.ed.xrow + (n : Int)
  regs : s'.ed.regs = s.ed.regs

theorem ReadsEd.xkmap {used : Bytes} {s s' : VS} (h : ReadsEd used s s') : s'.xkmap = s.xkmap := by
  obtain ⟨ib, ip, ty, hs⟩ := h
  rw [hs]

theorem ReadsEd.xai {used : Bytes} {s s' : VS} (h : ReadsEd used s s') : s'.xai = s.xai := by
  obtain ⟨ib, ip, ty, hs⟩ := h
  rw [hs]

theorem Typed.lb {used : Bytes} {n : Nat} {s s' : VS} (h : Typed used n s s') : s'.ed.lb = s.ed.lb := by
  unfold Ed.lb Ed.cur
  rw [h.bufs]

theorem Typed.lines {used : Bytes} {n : Nat} {s s' : VS} (h : Typed used n s s') : Vi.lines s' = Vi.lines s := by
  unfold Vi.lines
  rw [h.lb]

theorem Typed.of_reads {used : Bytes} {s s' : VS} (h : Reads true used s s') : Typed used 0 s s' :=
  ⟨h.readsEd, by rw [h.ed], by rw [h.xrow]; simp, by rw [h.ed]⟩

/-- reading a line, then `vi_nextline` -/
theorem Typed.nextline {used : Bytes} {s s1 : VS} (h : Reads true used s s1) : Typed used 1 s (nextlineSt s1) := by
  obtain ⟨edn, hen, hxn, hbn, hrn⟩ := nextlineSt_eq s1
  refine ⟨?_, ?_, ?_, ?_⟩
  · rw [hen]; exact (h.readsEd).withEd _
  · rw [hen]; show edn.bufs = _; rw [hbn, h.ed]
  · rw [hen]; show edn.xrow = _; rw [hxn, h.xrow]; rfl
  · rw [hen]; show edn.regs = _; rw [hrn, h.ed]

theorem Typed.trans {u1 u2 : Bytes} {n1 n2 : Nat} {s s1 s2 : VS} (h1 : Typed u1 n1 s s1) (h2 : Typed u2 n2 s1 s2) :
    Typed (u1 ++ u2) (n1 + n2) s s2 :=
  ⟨ReadsEd.trans h1.frame h2.frame, by rw [h2.bufs, h1.bufs], by rw [h2.xrow, h1.xrow]; simp only [Int.natCast_add]; omega,
    by rw [h2.regs, h1.regs]⟩

theorem pending_nextlineSt (s : VS) : pending (nextlineSt s) = pending s := by
  obtain ⟨edn, hen, -⟩ := nextlineSt_eq s
  rw [hen]; rfl

theorem xkmap_nextlineSt (s : VS) : (nextlineSt s).xkmap = s.xkmap := by
  obtain ⟨edn, hen, -⟩ := nextlineSt_eq s
  rw [hen]

/-! ### the loop over the typed lines -/

/-- the keys of the lines `ls` (each ended by a newline), the line `last` and ESC -/
def lineKeys (ls : List (List Nat)) (last : List Nat) : Bytes :=
  (ls.map (fun l => encStr l ++ [10])).flatten ++ encStr last ++ [27]

theorem lineKeys_nil (last : List Nat) : lineKeys [] last = encStr last ++ [27] := rfl

theorem lineKeys_cons (l : List Nat) (ls : List (List Nat)) (last : List Nat) :
    lineKeys (l :: ls) last = (encStr l ++ [10]) ++ lineKeys ls last := by
  simp only [lineKeys, List.map_cons, List.flatten_cons, List.append_assoc]

/-- the loop of `led_input` from an iteration after a newline (no prefix left), over the lines `ls`, `last` -/
theorem loop_lines (b : Bool) (last : List Nat) (rest : Bytes) (ai : Bytes) (hai : b = false → ai = []) (hlast : PlainLine last) :
    ∀ (ls : List (List Nat)) (f : Nat) (sb post : Bytes) (s : VS),
      pending s = lineKeys ls last ++ rest → (∀ l ∈ ls, PlainLine l) → ls.length < f → s.xkmap = 0 →
      ∃ s', ledInput.loop b f sb none post ai s =
          Res.ok (sb ++ (ls.map (fun l => ai ++ encStr l ++ [10])).flatten ++ ai ++ encStr last ++
            (if ls = [] then post else dropB b post), if ls = [] then post else dropB b post) s' ∧
        pending s' = rest ∧ Typed (lineKeys ls last) ls.length s s' := by
  intro ls
  induction ls with
  | nil =>
    intro f sb post s hp _ hf hk
    obtain ⟨f, rfl⟩ : ∃ g, f = g + 1 := ⟨f - 1, by simp at hf; omega⟩
    obtain ⟨s1, h1, h2, h3⟩ := ledLine_line [] post ai s last 27 rest
      (by rw [hp, lineKeys_nil]; simp) hlast (Or.inr rfl) hk
    refine ⟨s1, ?_, h2, ?_⟩
    · rw [loop_step_end b f sb none post ai _ s s1 hlast.plainLn h1]
      simp
    · rw [lineKeys_nil]; exact Typed.of_reads h3
  | cons l ls ih =>
    intro f sb post s hp hls hf hk
    obtain ⟨f, rfl⟩ : ∃ g, f = g + 1 := ⟨f - 1, by simp at hf; omega⟩
    have hl := hls l (by simp)
    obtain ⟨s1, h1, h2, h3⟩ := ledLine_line [] post ai s l 10 (lineKeys ls last ++ rest)
      (by rw [hp, lineKeys_cons]; simp) hl (Or.inl rfl) hk
    have haib : (if b = true then ai else []) = ai := by
      cases b
      · rw [hai rfl]; rfl
      · rfl
    obtain ⟨s', h4, h5, h6⟩ := ih f (sb ++ ai ++ [] ++ encStr l ++ [10]) (dropB b post) (nextlineSt s1)
      (by rw [pending_nextlineSt, h2]) (fun l' hl' => hls l' (by simp [hl'])) (by simp at hf; omega)
      (by rw [xkmap_nextlineSt]; have := h3.kmap false; simpa [hk] using this)
    refine ⟨s', ?_, h5, ?_⟩
    · rw [loop_step_nl b f sb none post ai _ s s1 hl.plainLn h1, haib]
      show ledInput.loop b f (sb ++ ai ++ [] ++ encStr l ++ [10]) none (dropB b post) ai (nextlineSt s1) = _
      rw [h4, dropB_idem]
      simp only [List.map_cons, List.flatten_cons, List.append_assoc, List.nil_append, ite_self, reduceCtorEq, if_false]
    · have := (Typed.nextline h3).trans h6
      rw [lineKeys_cons, List.length_cons, Nat.add_comm]
      exact this

/-- the auto-indent goes from the front of each continuation line to the back of the line before it -/
theorem flatten_ai_shift (ai : Bytes) : ∀ (ls : List (List Nat)),
    (ls.map (fun l => ai ++ encStr l ++ [10])).flatten ++ ai = ai ++ (ls.map (fun l => encStr l ++ [10] ++ ai)).flatten := by
  intro ls
  induction ls with
  | nil => simp
  | cons l ls ih =>
    rw [List.map_cons, List.flatten_cons, List.map_cons, List.flatten_cons, List.append_assoc, ih]
    simp only [List.append_assoc]

/-- the rest of the line `led_input` leaves: untouched without a newline, else `postAfterNl` -/
def postOf (s : VS) (ls : List (List Nat)) (post : Bytes) : Bytes := if ls = [] then post else postAfterNl s post

/-- **`led_input` over the typed lines `ls` (each ended by a newline), `last`, ESC** -/
theorem ledInput_lines (pref post : Bytes) (s : VS) (ls : List (List Nat)) (last : List Nat) (rest : Bytes)
    (hp : pending s = lineKeys ls last ++ rest) (hpl : ∀ l ∈ last :: ls, PlainLine l)
    (hlen : ls.length < 100000) (hk : s.xkmap = 0) :
    ∃ s', ledInput pref post s =
        Res.ok (pref ++ (ls.map (fun l => encStr l ++ [10] ++ aiAfterNl s pref)).flatten ++ encStr last ++
          postOf s ls post, postOf s ls post) s' ∧
      pending s' = rest ∧ Typed (lineKeys ls last) ls.length s s' := by
  have hlast := hpl last (by simp)
  have hpre := aiOf_append_prefRest pref
  have hunf : ledInput pref post s = ledInput.loop s.xai 100000 [] (some (prefRest pref)) post (aiOf pref) s := rfl
  rw [hunf]
  cases ls with
  | nil =>
    obtain ⟨s1, h1, h2, h3⟩ := ledLine_line (prefRest pref) post (aiOf pref) s last 27 rest
      (by rw [hp, lineKeys_nil]; simp) hlast (Or.inr rfl) hk
    refine ⟨s1, ?_, h2, ?_⟩
    · rw [loop_step_end s.xai 99999 [] (some (prefRest pref)) post (aiOf pref) _ s s1 hlast.plainLn h1]
      simp only [postOf, if_true, List.map_nil, List.flatten_nil, List.append_nil, List.nil_append, Option.getD_some, hpre]
    · rw [lineKeys_nil]; exact Typed.of_reads h3
  | cons l ls =>
    have hl := hpl l (by simp)
    obtain ⟨s1, h1, h2, h3⟩ := ledLine_line (prefRest pref) post (aiOf pref) s l 10 (lineKeys ls last ++ rest)
      (by rw [hp, lineKeys_cons]; simp) hl (Or.inl rfl) hk
    have haib : (if s.xai = true then aiOf pref else []) = aiAfterNl s pref := rfl
    obtain ⟨s', h4, h5, h6⟩ := loop_lines s.xai last rest (aiAfterNl s pref)
      (by intro h; unfold aiAfterNl; rw [h]; rfl) hlast ls 99999
      ([] ++ aiOf pref ++ (some (prefRest pref)).getD [] ++ encStr l ++ [10]) (dropB s.xai post) (nextlineSt s1)
      (by rw [pending_nextlineSt, h2]) (fun l' hl' => hpl l' (by simp [hl'])) (by simp at hlen; omega)
      (by rw [xkmap_nextlineSt]; have := h3.kmap false; simpa [hk] using this)
    refine ⟨s', ?_, h5, ?_⟩
    · rw [loop_step_nl s.xai 99999 [] (some (prefRest pref)) post (aiOf pref) _ s s1 hl.plainLn h1, haib, h4, dropB_idem]
      have e1 : [] ++ aiOf pref ++ (some (prefRest pref)).getD [] ++ encStr l ++ [10] = pref ++ encStr l ++ [10] := by
        simp only [List.nil_append, Option.getD_some, hpre]
      have e2 : (if ls = [] then dropB s.xai post else dropB s.xai post) = postOf s (l :: ls) post := by
        simp only [ite_self, postOf, reduceCtorEq, if_false, postAfterNl_eq]
      rw [e1, e2]
      have e3 := flatten_ai_shift (aiAfterNl s pref) ls
      have e4 : pref ++ encStr l ++ [10] ++ (ls.map (fun l => aiAfterNl s pref ++ encStr l ++ [10])).flatten ++ aiAfterNl s pref =
          pref ++ ((l :: ls).map (fun l => encStr l ++ [10] ++ aiAfterNl s pref)).flatten := by
        rw [List.append_assoc (pref ++ encStr l ++ [10]), e3]
        simp only [List.map_cons, List.flatten_cons, List.append_assoc]
      rw [e4]
    · have := (Typed.nextline h3).trans h6
      rw [lineKeys_cons, List.length_cons, Nat.add_comm]
      exact this

end Neatvi.Lemmas.C08d
