import NeatviVerif.Lemmas.C11bAtom
/-!
# C11b, part 3: the atoms the parser builds from a valid UTF-8 pattern

The parser is followed with an invariant `I` on the remaining pattern and a property `Q` of the
atoms it builds (`ParseInv`); the induction over the four mutually recursive parsers is done once.
-/
namespace Neatvi.Props.C11b
open Neatvi Neatvi.Uc Neatvi.Regex Neatvi.Spec

/-- `Q` holds of every atom of the tree -/
def AllAtoms (Q : Atom → Prop) : RNode → Prop
  | .nul => True
  | .atom a _ _ => Q a
  | .cat a b => AllAtoms Q a ∧ AllAtoms Q b
  | .alt a b => AllAtoms Q a ∧ AllAtoms Q b
  | .grp a _ _ _ => AllAtoms Q a

/-- what the generic induction needs: the invariant survives skipping an ASCII byte; at a `{` it
    survives skipping anything (the bounds are read byte-wise and the byte after them is skipped
    unseen); `ratom_read` yields a `Q` atom and a rest that satisfies the invariant -/
structure ParseInv (I : Bytes → Prop) (Q : Atom → Prop) : Prop where
  ascii : ∀ p, I p → p.headD 0 < 128 → I (p.drop 1)
  brace : ∀ p, I p → p.headD 0 = 123 → ∀ k, I (p.drop k)
  atom : ∀ p a rest, I p → ratomRead p = some (a, rest) → Q a ∧ I rest

theorem allAtoms_setRep {Q : Atom → Prop} {n : RNode} (mn mx : Int) (h : AllAtoms Q n) :
    AllAtoms Q (setRep n mn mx) := by
  cases n <;> exact h

theorem readDigits_drop : ∀ (p : Bytes) (v : Int), ∃ k, (readDigits p v).2 = p.drop k := by
  intro p
  induction p with
  | nil => intro v; exact ⟨0, rfl⟩
  | cons c r ih =>
    intro v
    rw [readDigits]
    split
    · obtain ⟨k, hk⟩ := ih (wrap32 (wrap32 (v * 10 + c) - 48))
      exact ⟨k + 1, by rw [hk]; rfl⟩
    · exact ⟨0, rfl⟩

theorem beq_lt {x : Nat} {c : Nat} (h : (x == c) = true) (hc : c < 128) : x < 128 := by
  have := eq_of_beq h; omega

theorem readRep_inv {I : Bytes → Prop} {Q : Atom → Prop} (hI : ParseInv I Q) {n : RNode} {p : Bytes}
    {t : Option RNode} {rest : Bytes} (hp : I p) (hn : AllAtoms Q n)
    (h : readRep n p = some (t, rest)) : I rest ∧ ∀ t', t = some t' → AllAtoms Q t' := by
  unfold readRep at h
  generalize h1 : (if p.headD 0 == 42 then (setRep n 0 (-1), p.drop 1)
                else if p.headD 0 == 63 then (setRep n 0 1, p.drop 1) else (n, p)) = s1 at h
  have hs1 : AllAtoms Q s1.1 ∧ I s1.2 := by
    subst h1
    split
    · rename_i hc
      exact ⟨allAtoms_setRep _ _ hn, hI.ascii p hp (beq_lt hc (by decide))⟩
    · split
      · rename_i hc
        exact ⟨allAtoms_setRep _ _ hn, hI.ascii p hp (beq_lt hc (by decide))⟩
      · exact ⟨hn, hp⟩
  obtain ⟨n1, p1⟩ := s1
  simp only at h hs1
  generalize h2 : (if p1.headD 0 == 43 then (setRep n1 1 (-1), p1.drop 1) else (n1, p1)) = s2 at h
  have hs2 : AllAtoms Q s2.1 ∧ I s2.2 := by
    subst h2
    split
    · rename_i hc
      exact ⟨allAtoms_setRep _ _ hs1.1, hI.ascii p1 hs1.2 (beq_lt hc (by decide))⟩
    · exact hs1
  obtain ⟨n2, p2⟩ := s2
  simp only at h hs2
  split at h
  · rename_i hbr
    have hbr' : p2.headD 0 = 123 := eq_of_beq hbr
    have hall := hI.brace p2 hs2.2 hbr'
    obtain ⟨k1, hk1⟩ := readDigits_drop (p2.drop 1) 0
    generalize hd1 : readDigits (p2.drop 1) 0 = d1 at h hk1
    obtain ⟨mn, q1⟩ := d1
    simp only at h hk1
    have hq1 : ∃ k, q1 = p2.drop k := ⟨1 + k1, by rw [hk1, List.drop_drop]⟩
    generalize h3 : (if q1.headD 0 == 44 then
        readDigits (q1.drop 1) (if (q1.drop 1).headD 0 == 125 then -1 else 0) else (mn, q1)) = d2 at h
    have hq2 : ∃ k, d2.2 = p2.drop k := by
      subst h3
      split
      · obtain ⟨k2, hk2⟩ := readDigits_drop (q1.drop 1) (if (q1.drop 1).headD 0 == 125 then -1 else 0)
        obtain ⟨k, hk⟩ := hq1
        exact ⟨k + (1 + k2), by rw [hk2, hk, List.drop_drop, List.drop_drop]⟩
      · exact hq1
    obtain ⟨mx, q2⟩ := d2
    simp only at h hq2
    obtain ⟨k, hk⟩ := hq2
    split at h
    · cases h
    · rename_i x p'
      have hrest : I p' := by
        have : p' = (p2.drop k).drop 1 := by rw [← hk]; rfl
        rw [this, List.drop_drop]; exact hall _
      split at h
      · simp only [Option.some.injEq, Prod.mk.injEq] at h
        obtain ⟨ht, hr⟩ := h
        subst ht; subst hr
        exact ⟨hrest, fun t' ht' => by cases ht'⟩
      · simp only [Option.some.injEq, Prod.mk.injEq] at h
        obtain ⟨ht, hr⟩ := h
        subst ht; subst hr
        refine ⟨hrest, fun t' ht' => ?_⟩
        cases ht'
        exact allAtoms_setRep _ _ hs2.1
  · simp only [Option.some.injEq, Prod.mk.injEq] at h
    obtain ⟨ht, hr⟩ := h
    subst ht; subst hr
    refine ⟨hs2.2, fun t' ht' => ?_⟩
    cases ht'
    exact hs2.1

theorem bne_eq {x c : Nat} (h : ¬ ((x != c) = true)) : x = c := by
  simpa using h

/-- the four parsers keep the invariant and build `Q` atoms only, by mutual induction on the fuel -/
theorem parse_inv_all {I : Bytes → Prop} {Q : Atom → Prop} (hI : ParseInv I Q) (f : Nat) :
    (∀ p t rest, I p → parseAlt f p = some (t, rest) → I rest ∧ ∀ t', t = some t' → AllAtoms Q t') ∧
    (∀ p t rest, I p → parseSeq f p = some (t, rest) → I rest ∧ ∀ t', t = some t' → AllAtoms Q t') ∧
    (∀ p t rest, I p → parseAtom f p = some (t, rest) → I rest ∧ ∀ t', t = some t' → AllAtoms Q t') ∧
    (∀ p t rest, I p → p.headD 0 = 40 → parseGrp f p = some (t, rest) →
      I rest ∧ ∀ t', t = some t' → AllAtoms Q t') := by
  induction f with
  | zero =>
    refine ⟨?_, ?_, ?_, ?_⟩
    · intro p t rest _ h; simp [parseAlt] at h
    · intro p t rest _ h; simp [parseSeq] at h
    · intro p t rest _ h; simp [parseAtom] at h
    · intro p t rest _ _ h; simp [parseGrp] at h
  | succ f ih =>
    obtain ⟨ihAlt, ihSeq, ihAtom, ihGrp⟩ := ih
    refine ⟨?_, ?_, ?_, ?_⟩
    · -- parseAlt
      intro p t rest hp h
      rw [parseAlt] at h
      split at h
      · cases h
      · rename_i c1 p1 hseq
        obtain ⟨hp1, hc1⟩ := ihSeq _ _ _ hp hseq
        split at h
        · simp only [Option.some.injEq, Prod.mk.injEq] at h
          obtain ⟨hc, hr⟩ := h
          subst hc; subst hr
          exact ⟨hp1, hc1⟩
        · rename_i hbar
          have hbar' : p1.headD 0 = 124 := bne_eq hbar
          have hp1' : I (p1.drop 1) := hI.ascii p1 hp1 (by omega)
          split at h
          · cases h
          · rename_i c2 p2 halt
            obtain ⟨hp2, hc2⟩ := ihAlt _ _ _ hp1' halt
            split at h
            · simp only [Option.some.injEq, Prod.mk.injEq] at h
              obtain ⟨hc, hr⟩ := h
              subst hc; subst hr
              exact ⟨hp2, hc1⟩
            · rename_i b
              simp only [Option.some.injEq, Prod.mk.injEq] at h
              obtain ⟨hc, hr⟩ := h
              subst hc; subst hr
              refine ⟨hp2, fun t' ht' => ?_⟩
              cases ht'
              refine ⟨?_, hc2 _ rfl⟩
              cases c1 with
              | none => exact trivial
              | some a => exact hc1 _ rfl
    · -- parseSeq
      intro p t rest hp h
      rw [parseSeq] at h
      split at h
      · cases h
      · rename_i p1 hat
        obtain ⟨hp1, _⟩ := ihAtom _ _ _ hp hat
        simp only [Option.some.injEq, Prod.mk.injEq] at h
        obtain ⟨hc, hr⟩ := h
        subst hc; subst hr
        exact ⟨hp1, fun t' ht' => by cases ht'⟩
      · rename_i c1 p1 hat
        obtain ⟨hp1, hc1⟩ := ihAtom _ _ _ hp hat
        split at h
        · cases h
        · rename_i p2 hseq
          obtain ⟨hp2, _⟩ := ihSeq _ _ _ hp1 hseq
          simp only [Option.some.injEq, Prod.mk.injEq] at h
          obtain ⟨hc, hr⟩ := h
          subst hc; subst hr
          refine ⟨hp2, fun t' ht' => ?_⟩
          cases ht'
          exact hc1 _ rfl
        · rename_i c2 p2 hseq
          obtain ⟨hp2, hc2⟩ := ihSeq _ _ _ hp1 hseq
          simp only [Option.some.injEq, Prod.mk.injEq] at h
          obtain ⟨hc, hr⟩ := h
          subst hc; subst hr
          refine ⟨hp2, fun t' ht' => ?_⟩
          cases ht'
          exact ⟨hc1 _ rfl, hc2 _ rfl⟩
    · -- parseAtom
      intro p t rest hp h
      rw [parseAtom] at h
      split at h
      · simp only [Option.some.injEq, Prod.mk.injEq] at h
        obtain ⟨hc, hr⟩ := h
        subst hc; subst hr
        exact ⟨hp, fun t' ht' => by cases ht'⟩
      · split at h
        · rename_i hpar
          have hpar' : p.headD 0 = 40 := eq_of_beq hpar
          split at h
          · cases h
          · rename_i p1 hg
            obtain ⟨hp1, _⟩ := ihGrp _ _ _ hp hpar' hg
            simp only [Option.some.injEq, Prod.mk.injEq] at h
            obtain ⟨hc, hr⟩ := h
            subst hc; subst hr
            exact ⟨hp1, fun t' ht' => by cases ht'⟩
          · rename_i n p1 hg
            obtain ⟨hp1, hn⟩ := ihGrp _ _ _ hp hpar' hg
            exact readRep_inv hI hp1 (hn _ rfl) h
        · split at h
          · cases h
          · rename_i a p1 hra
            obtain ⟨hq, hp1⟩ := hI.atom _ _ _ hp hra
            exact readRep_inv hI hp1 (n := RNode.atom a 1 1) hq h
    · -- parseGrp
      intro p t rest hp hpar h
      have hp1 : I (p.drop 1) := hI.ascii p hp (by omega)
      rw [parseGrp] at h
      split at h
      · split at h
        · cases h
        · rename_i p2 halt
          obtain ⟨hp2, _⟩ := ihAlt _ _ _ hp1 halt
          simp only [Option.some.injEq, Prod.mk.injEq] at h
          obtain ⟨hc, hr⟩ := h
          subst hc; subst hr
          exact ⟨hp2, fun t' ht' => by cases ht'⟩
        · rename_i n p2 halt
          obtain ⟨hp2, hn⟩ := ihAlt _ _ _ hp1 halt
          split at h
          · simp only [Option.some.injEq, Prod.mk.injEq] at h
            obtain ⟨hc, hr⟩ := h
            subst hc; subst hr
            exact ⟨hp2, fun t' ht' => by cases ht'⟩
          · rename_i hcl
            have hcl' : p2.headD 0 = 41 := bne_eq hcl
            simp only [Option.some.injEq, Prod.mk.injEq] at h
            obtain ⟨hc, hr⟩ := h
            subst hc; subst hr
            refine ⟨hI.ascii p2 hp2 (by omega), fun t' ht' => ?_⟩
            cases ht'
            show AllAtoms Q n
            exact hn _ rfl
      · rename_i hcl
        have hcl' : (p.drop 1).headD 0 = 41 := bne_eq hcl
        simp only [Option.some.injEq, Prod.mk.injEq] at h
        obtain ⟨hc, hr⟩ := h
        subst hc; subst hr
        refine ⟨hI.ascii _ hp1 (by omega), fun t' ht' => ?_⟩
        cases ht'
        exact trivial

theorem parse_inv {I : Bytes → Prop} {Q : Atom → Prop} (hI : ParseInv I Q) {p : Bytes} {t : RNode}
    (hp : I p) (h : parse p = some (some t)) : AllAtoms Q t := by
  unfold parse at h
  cases hq : parseAlt (parseFuel p) p with
  | none => simp [hq] at h
  | some r =>
    obtain ⟨c, rest⟩ := r
    simp [hq] at h
    subst h
    exact ((parse_inv_all hI (parseFuel p)).1 _ _ _ hp hq).2 _ rfl

theorem grpnum_allAtoms {Q : Atom → Prop} (t : RNode) :
    ∀ num, AllAtoms Q t → AllAtoms Q (grpnum t num).1 := by
  induction t with
  | nul => intro num h; exact h
  | atom a mn mx => intro num h; exact h
  | cat a b iha ihb => intro num h; exact ⟨iha _ h.1, ihb _ h.2⟩
  | alt a b iha ihb => intro num h; exact ⟨iha _ h.1, ihb _ h.2⟩
  | grp a g mn mx iha => intro num h; exact iha _ h

/-- every atom instruction of the emitted code carries an atom of the tree -/
theorem emit_allAtoms {Q : Atom → Prop} (t : RNode) :
    AllAtoms Q t → ∀ base, ∀ x ∈ emit t base, ∀ a, x = Inst.atom a → Q a := by
  induction t with
  | nul => intro _ base x hx; simp [emit] at hx
  | atom a mn mx =>
    intro h base x hx
    simp only [emit] at hx
    refine C11.mem_emitRep (fun x => ∀ a, x = Inst.atom a → Q a) _ 1 mn mx base
      (fun _ _ a ha => by cases ha) (fun b y hy => ?_) x hx
    simp at hy; subst hy
    intro a' ha'; cases ha'; exact h
  | cat a b iha ihb =>
    intro h base x hx
    simp only [emit, List.mem_append] at hx
    rcases hx with hx | hx
    · exact iha h.1 _ x hx
    · exact ihb h.2 _ x hx
  | alt a b iha ihb =>
    intro h base x hx
    simp only [emit, List.mem_append, List.mem_singleton] at hx
    rcases hx with ((hx | hx) | hx) | hx
    · subst hx; intro a ha; cases ha
    · exact iha h.1 _ x hx
    · subst hx; intro a ha; cases ha
    · exact ihb h.2 _ x hx
  | grp a g mn mx iha =>
    intro h base x hx
    simp only [emit] at hx
    refine C11.mem_emitRep (fun x => ∀ a, x = Inst.atom a → Q a) _ (emitLen a + 2) mn mx base
      (fun _ _ a ha => by cases ha) (fun b y hy => ?_) x hx
    simp only [List.mem_append, List.mem_singleton] at hy
    rcases hy with (hy | hy) | hy
    · subst hy; intro a ha; cases ha
    · exact iha h _ y hy
    · subst hy; intro a ha; cases ha

/-- every atom instruction of a compiled program satisfies what the parser guarantees -/
theorem regcomp_atoms {I : Bytes → Prop} {Q : Atom → Prop} (hI : ParseInv I Q) {p : Bytes}
    {flg : Nat} {prog : Prog} (hp : I p) (h : regcomp p flg = some (some prog)) :
    ∀ a, Inst.atom a ∈ prog.code → Q a := by
  unfold regcomp at h
  split at h
  · cases h
  · cases h
  · rename_i t ht
    split at h
    · cases h
    simp only [Option.some.injEq] at h
    subst h
    intro a ha
    simp only [List.mem_append] at ha
    rcases ha with (ha | ha) | ha
    · simp at ha
    · exact emit_allAtoms _ (grpnum_allAtoms t 1 (parse_inv hI hp ht)) 1 _ ha a rfl
    · simp at ha

end Neatvi.Props.C11b
