import NeatviVerif.Lemmas.C18bRev
/-!
# C18b helpers: the list of matches of a scan, one round as a total function, the index map
-/
namespace Neatvi.Props.C18b
open Neatvi Neatvi.Dir Neatvi.Props.C18

/-! ### definitions -/

def revSliceIf (c : Bool) (ord : List Nat) (b e : Nat) : List Nat := if c then revSlice ord b e else ord
def mirrorIf (c : Bool) (b e p : Nat) : Nat := if c then mirror b e p else p

/-- the two conditional reversals of one round of `dir_fix` (`neg` = the context is right-to-left):
    the match range if `neg`, then the group if its direction is right-to-left -/
def stepRev (neg : Bool) (ord : List Nat) (m : DMatch) : List Nat :=
  revSliceIf (decide (m.cDir < 0)) (revSliceIf neg ord m.rBeg m.rEnd) m.cBeg m.cEnd

/-- where the element at position `p` after `stepRev` comes from -/
def stepIdx (neg : Bool) (m : DMatch) (p : Nat) : Nat :=
  mirrorIf neg m.rBeg m.rEnd (mirrorIf (decide (m.cDir < 0)) m.cBeg m.cEnd p)

/-- all rounds of a scan without nesting -/
def applyRuns (neg : Bool) : List Nat → List DMatch → List Nat
  | ord, [] => ord
  | ord, m :: ms => applyRuns neg (stepRev neg ord m) ms

/-- where the element at position `p` after `applyRuns` comes from -/
def runIdx (neg : Bool) : List DMatch → Nat → Nat
  | [], p => p
  | m :: ms, p => if m.rBeg ≤ p ∧ p < m.rEnd then stepIdx neg m p else runIdx neg ms p

/-- the spans of `m` lie inside the searched slice `[b, e)` (the conclusion of `Lawful`) -/
def InRange (m : DMatch) (b e : Nat) : Prop :=
  b ≤ m.rBeg ∧ m.rBeg < m.rEnd ∧ m.rEnd ≤ e ∧ m.rBeg ≤ m.cBeg ∧ m.cBeg ≤ m.cEnd ∧ m.cEnd ≤ m.rEnd

/-- successive matches: each inside the slice that starts at the end of the previous one -/
def Chained (e : Nat) : Nat → List DMatch → Prop
  | _, [] => True
  | b, m :: ms => InRange m b e ∧ Chained e m.rEnd ms

/-- the successive top-level matches of the scan of `[b, e)` in context `dir`:
    `M b e dir = m₁`, `M m₁.rEnd e dir = m₂`, … until no match or the slice is exhausted -/
inductive Scan (M : Matcher) (dir : Int) (e : Nat) : Nat → List DMatch → Prop
  | done {b : Nat} : ¬ b < e → Scan M dir e b []
  | stop {b : Nat} : b < e → M b e dir = some none → Scan M dir e b []
  | next {b : Nat} {m : DMatch} {ms : List DMatch} : b < e → M b e dir = some (some m) →
      Scan M dir e m.rEnd ms → Scan M dir e b (m :: ms)

/-- the same as a function (`none` = trap or out of fuel) -/
def matchesFrom (M : Matcher) (dir : Int) : (fuel : Nat) → Nat → Nat → Option (List DMatch)
  | 0, b, e => if b < e then none else some []
  | fuel + 1, b, e =>
    if b < e then
      match M b e dir with
      | none => none
      | some none => some []
      | some (some m) => (matchesFrom M dir fuel m.rEnd e).map (m :: ·)
    else some []

/-! ### scans -/

theorem scan_of_matchesFrom (M : Matcher) (dir : Int) : ∀ (fuel b e : Nat) (ms : List DMatch),
    matchesFrom M dir fuel b e = some ms → Scan M dir e b ms := by
  intro fuel
  induction fuel with
  | zero =>
    intro b e ms h
    simp only [matchesFrom] at h
    split at h
    · cases h
    · next hbe => cases h; exact Scan.done hbe
  | succ f ih =>
    intro b e ms h
    simp only [matchesFrom] at h
    split at h
    · next hbe =>
      split at h
      · cases h
      · next hm => cases h; exact Scan.stop hbe hm
      · next m hm =>
        cases h1 : matchesFrom M dir f m.rEnd e with
        | none => rw [h1] at h; cases h
        | some ms' =>
          rw [h1] at h; cases h
          exact Scan.next hbe hm (ih _ _ _ h1)
    · next hbe => cases h; exact Scan.done hbe

theorem scan_unique {M : Matcher} {dir : Int} {e b : Nat} {ms ms' : List DMatch}
    (h : Scan M dir e b ms) (h' : Scan M dir e b ms') : ms = ms' := by
  induction h generalizing ms' with
  | done hbe =>
    cases h' with
    | done _ => rfl
    | stop h1 _ => exact absurd h1 hbe
    | next h1 _ _ => exact absurd h1 hbe
  | stop hbe hm =>
    cases h' with
    | done h1 => exact absurd hbe h1
    | stop _ _ => rfl
    | next _ h2 _ => rw [hm] at h2; cases h2
  | next hbe hm _ ih =>
    cases h' with
    | done h1 => exact absurd hbe h1
    | stop _ h2 => rw [hm] at h2; cases h2
    | next _ h2 h3 =>
      rw [hm] at h2; cases h2
      rw [ih h3]

theorem scan_chained {M : Matcher} (hM : Lawful M) {dir : Int} {e b : Nat} {ms : List DMatch}
    (h : Scan M dir e b ms) : Chained e b ms := by
  induction h with
  | done _ => trivial
  | stop _ _ => trivial
  | next hbe hm _ ih =>
    obtain ⟨r, hr, hlaw⟩ := hM _ _ dir hbe
    rw [hm] at hr; cases hr
    exact ⟨hlaw _ rfl, ih⟩

/-- a lawful matcher always yields a scan, within `e - b` rounds -/
theorem matchesFrom_total {M : Matcher} (hM : Lawful M) (dir : Int) : ∀ (fuel b e : Nat),
    e - b ≤ fuel → ∃ ms, matchesFrom M dir fuel b e = some ms := by
  intro fuel
  induction fuel with
  | zero =>
    intro b e hf
    simp only [matchesFrom]
    rw [if_neg (by omega)]; exact ⟨_, rfl⟩
  | succ f ih =>
    intro b e hf
    simp only [matchesFrom]
    by_cases hbe : b < e
    · rw [if_pos hbe]
      obtain ⟨r, hr, hlaw⟩ := hM b e dir hbe
      rw [hr]
      cases r with
      | none => exact ⟨_, rfl⟩
      | some m =>
        obtain ⟨l1, l2, l3, _⟩ := hlaw m rfl
        obtain ⟨ms, hms⟩ := ih m.rEnd e (by omega)
        exact ⟨m :: ms, by simp [hms]⟩
    · rw [if_neg hbe]; exact ⟨_, rfl⟩

theorem chained_mono {e : Nat} : ∀ {ms : List DMatch} {b b' : Nat}, b' ≤ b → Chained e b ms → Chained e b' ms
  | [], _, _, _, _ => trivial
  | _ :: _, _, _, hb, ⟨⟨h1, h2⟩, h3⟩ => ⟨⟨Nat.le_trans hb h1, h2⟩, h3⟩

/-- every match of a chain is inside `[b, e)` -/
theorem chained_mem {e : Nat} : ∀ {ms : List DMatch} {b : Nat}, Chained e b ms → ∀ m ∈ ms, InRange m b e
  | [], _, _, _, hm => by cases hm
  | m0 :: ms, b, ⟨h0, h1⟩, m, hm => by
    rcases List.mem_cons.mp hm with rfl | hm'
    · exact h0
    · have := chained_mem h1 m hm'
      unfold InRange at this h0 ⊢
      omega

/-- the match ranges (hence the groups) are pairwise disjoint and increasing -/
theorem chained_pairwise {e : Nat} : ∀ {ms : List DMatch} {b : Nat}, Chained e b ms →
    ms.Pairwise (fun m m' => m.rEnd ≤ m'.rBeg)
  | [], _, _ => List.Pairwise.nil
  | m0 :: ms, _, ⟨_, h1⟩ => by
    refine List.Pairwise.cons ?_ (chained_pairwise h1)
    intro m hm
    exact (chained_mem h1 m hm).1

/-! ### one round -/

theorem revIf_eq {c : Bool} {ord : List Nat} {b e : Nat} (h : e ≤ ord.length) :
    revIf c ord b e = some (revSliceIf c ord b e) := by
  unfold revIf revSliceIf
  cases c
  · rfl
  · simp only [if_true]; exact dirReverse_eq (Or.inl h)

theorem revSliceIf_length {c : Bool} {ord : List Nat} {b e : Nat} (h : e ≤ ord.length) :
    (revSliceIf c ord b e).length = ord.length := by
  unfold revSliceIf
  cases c
  · rfl
  · exact revSlice_length h

theorem revSliceIf_getElem? {c : Bool} {ord : List Nat} {b e : Nat} (h : e ≤ ord.length) (p : Nat) :
    (revSliceIf c ord b e)[p]? = ord[mirrorIf c b e p]? := by
  unfold revSliceIf mirrorIf
  cases c
  · rfl
  · exact revSlice_getElem? h p

theorem stepRev_length {neg : Bool} {ord : List Nat} {m : DMatch} {b e : Nat} (hr : InRange m b e)
    (he : e ≤ ord.length) : (stepRev neg ord m).length = ord.length := by
  unfold InRange at hr
  unfold stepRev
  rw [revSliceIf_length (by rw [revSliceIf_length (by omega)]; omega), revSliceIf_length (by omega)]

theorem stepRev_getElem? {neg : Bool} {ord : List Nat} {m : DMatch} {b e : Nat} (hr : InRange m b e)
    (he : e ≤ ord.length) (p : Nat) : (stepRev neg ord m)[p]? = ord[stepIdx neg m p]? := by
  unfold InRange at hr
  unfold stepRev stepIdx
  rw [revSliceIf_getElem? (by rw [revSliceIf_length (by omega)]; omega), revSliceIf_getElem? (by omega)]

/-- the non-recursive part of a round of `dirFix` never traps for an in-range match -/
theorem round_eq {dir : Int} {ord : List Nat} {m : DMatch} {b e : Nat} (hr : InRange m b e)
    (he : e ≤ ord.length) :
    ((revIf (decide (dir < 0)) ord m.rBeg m.rEnd).bind fun o1 =>
      revIf (decide (m.cDir < 0)) o1 m.cBeg m.cEnd) = some (stepRev (decide (dir < 0)) ord m) := by
  unfold InRange at hr
  rw [revIf_eq (by omega)]
  simp only [Option.bind_some]
  rw [revIf_eq (by rw [revSliceIf_length (by omega)]; omega)]
  rfl

theorem mirrorIf_range {c : Bool} {b e p : Nat} (h1 : b ≤ p) (h2 : p < e) :
    b ≤ mirrorIf c b e p ∧ mirrorIf c b e p < e := by
  unfold mirrorIf
  cases c
  · exact ⟨h1, h2⟩
  · exact mirror_range h1 h2

theorem mirrorIf_out {c : Bool} {b e p : Nat} (h : ¬ (b ≤ p ∧ p < e)) : mirrorIf c b e p = p := by
  unfold mirrorIf
  cases c
  · rfl
  · exact mirror_out h

theorem stepIdx_out {neg : Bool} {m : DMatch} {b e : Nat} (hr : InRange m b e) {p : Nat}
    (h : ¬ (m.rBeg ≤ p ∧ p < m.rEnd)) : stepIdx neg m p = p := by
  unfold InRange at hr
  unfold stepIdx
  rw [mirrorIf_out (c := decide (m.cDir < 0)) (b := m.cBeg) (e := m.cEnd) (p := p) (by omega), mirrorIf_out h]

theorem stepIdx_range {neg : Bool} {m : DMatch} {b e : Nat} (hr : InRange m b e) {p : Nat}
    (h1 : m.rBeg ≤ p) (h2 : p < m.rEnd) : m.rBeg ≤ stepIdx neg m p ∧ stepIdx neg m p < m.rEnd := by
  unfold InRange at hr
  unfold stepIdx
  have hq : m.rBeg ≤ mirrorIf (decide (m.cDir < 0)) m.cBeg m.cEnd p ∧
      mirrorIf (decide (m.cDir < 0)) m.cBeg m.cEnd p < m.rEnd := by
    by_cases hc : m.cBeg ≤ p ∧ p < m.cEnd
    · have := mirrorIf_range (c := decide (m.cDir < 0)) hc.1 hc.2
      omega
    · rw [mirrorIf_out hc]; exact ⟨h1, h2⟩
  exact mirrorIf_range hq.1 hq.2

/-! ### the index map of a chain -/

theorem runIdx_lt {neg : Bool} {e : Nat} : ∀ {ms : List DMatch} {b : Nat}, Chained e b ms →
    ∀ {p : Nat}, p < b → runIdx neg ms p = p
  | [], _, _, _, _ => rfl
  | m :: ms, b, ⟨h0, h1⟩, p, hp => by
    unfold InRange at h0
    simp only [runIdx]
    rw [if_neg (by omega)]
    exact runIdx_lt h1 (by omega)

theorem runIdx_ge {neg : Bool} {e : Nat} : ∀ {ms : List DMatch} {b : Nat}, Chained e b ms →
    ∀ {p : Nat}, b ≤ p → b ≤ runIdx neg ms p
  | [], _, _, _, hp => hp
  | m :: ms, b, ⟨h0, h1⟩, p, hp => by
    simp only [runIdx]
    split
    · next hin =>
      have := stepIdx_range (neg := neg) h0 hin.1 hin.2
      unfold InRange at h0; omega
    · next hout =>
      by_cases hp2 : p < m.rEnd
      · rw [runIdx_lt h1 hp2]; exact hp
      · have := runIdx_ge (neg := neg) h1 (p := p) (by omega)
        unfold InRange at h0; omega

theorem runIdx_mem {neg : Bool} {e : Nat} : ∀ {ms : List DMatch} {b : Nat}, Chained e b ms →
    ∀ m ∈ ms, ∀ {p : Nat}, m.rBeg ≤ p → p < m.rEnd → runIdx neg ms p = stepIdx neg m p
  | [], _, _, _, hm, _, _, _ => by cases hm
  | m0 :: ms, b, ⟨h0, h1⟩, m, hm, p, hp1, hp2 => by
    simp only [runIdx]
    rcases List.mem_cons.mp hm with rfl | hm'
    · rw [if_pos ⟨hp1, hp2⟩]
    · have hr := chained_mem h1 m hm'
      unfold InRange at hr
      rw [if_neg (by omega)]
      exact runIdx_mem h1 m hm' hp1 hp2

theorem runIdx_not_mem {neg : Bool} : ∀ {ms : List DMatch} {p : Nat},
    (∀ m ∈ ms, ¬ (m.rBeg ≤ p ∧ p < m.rEnd)) → runIdx neg ms p = p
  | [], _, _ => rfl
  | m0 :: ms, p, h => by
    simp only [runIdx]
    rw [if_neg (h m0 List.mem_cons_self)]
    exact runIdx_not_mem (fun m hm => h m (List.mem_cons_of_mem _ hm))

theorem applyRuns_length {neg : Bool} {e : Nat} : ∀ {ms : List DMatch} {b : Nat} {ord : List Nat},
    Chained e b ms → e ≤ ord.length → (applyRuns neg ord ms).length = ord.length
  | [], _, _, _, _ => rfl
  | m :: ms, b, ord, ⟨h0, h1⟩, he => by
    simp only [applyRuns]
    rw [applyRuns_length h1 (by rw [stepRev_length h0 he]; exact he), stepRev_length h0 he]

/-- position-wise description of `applyRuns` on a chain -/
theorem applyRuns_getElem? {neg : Bool} {e : Nat} : ∀ {ms : List DMatch} {b : Nat} {ord : List Nat},
    Chained e b ms → e ≤ ord.length → ∀ p, (applyRuns neg ord ms)[p]? = ord[runIdx neg ms p]?
  | [], _, _, _, _, _ => rfl
  | m :: ms, b, ord, ⟨h0, h1⟩, he, p => by
    simp only [applyRuns, runIdx]
    rw [applyRuns_getElem? h1 (by rw [stepRev_length h0 he]; exact he), stepRev_getElem? h0 he]
    by_cases hp : p < m.rEnd
    · rw [runIdx_lt h1 hp]
      split
      · rfl
      · next hout => rw [stepIdx_out h0 hout]
    · have hge := runIdx_ge (neg := neg) h1 (p := p) (by omega)
      rw [if_neg (by omega), stepIdx_out h0 (by omega)]

end Neatvi.Props.C18b
