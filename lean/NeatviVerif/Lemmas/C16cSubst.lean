import NeatviVerif.Lemmas.C16cEdC
import NeatviVerif.Lemmas.C02bCmd
import NeatviVerif.Props.C14
import NeatviVerif.Props.C15
/-!
# C16c: everything that goes through the `ec_substitute` branch of `runCmd`

Kept apart from the other files: it is the only file of C16c that depends on the model of `ec_substitute`
(`Model/ExCmd.lean`) and on `Props/C14` (`substPrep`, `substStep`, `substLoop`, `runCmd_subst_eq`).  It builds
unchanged against the model in which the loop carries the shift of the rows (e987eb5).  It exports `substOk`
(the check on the argument of `:s`) and `runCmd_subst_ok`.
-/
set_option linter.unusedSimpArgs false
set_option linter.unusedVariables false
namespace Neatvi.Lemmas.C16c
open Neatvi Neatvi.Uc Neatvi.Spec Neatvi.Lbuf Neatvi.LbufIo Neatvi.Ex Neatvi.Rset Neatvi.Props.C11b Neatvi.Props.C16b

/-- the pattern and the replacement `ec_substitute` reads from its argument are there, the pattern is not
empty (so it is not the remembered keyword that is used), and both are valid UTF-8 as they are stored
(cut at `EXLEN - 1` bytes) -/
def substOk (arg : Bytes) : Bool :=
  match (reRead arg).1 with
  | none => false
  | some p =>
    !p.isEmpty && u8chk (p.take (Gen.EXLEN - 1)) &&
      u8chk (((if !(reRead arg).2.isEmpty then (reRead ([arg.headD 0] ++ (reRead arg).2)).1 else none).getD []).take (Gen.EXLEN - 1))


open Neatvi.Props in
theorem substPrep_ok {ed : Ed} (h : EdOk ed) {arg : Bytes} (hs : substOk arg = true) :
    EdOk (C14.substPrep ed arg).1 ∧ IsU8 (C14.substPrep ed arg).1.xkwd ∧ IsU8 (C14.substPrep ed arg).1.xrep := by
  unfold substOk at hs
  unfold C14.substPrep
  generalize hrr : reRead arg = rr at hs ⊢
  obtain ⟨pat, s⟩ := rr
  simp only [] at hs ⊢
  cases pat with
  | none => cases hs
  | some p =>
    simp only [Bool.and_eq_true, Bool.not_eq_true', Option.isSome_some, Bool.true_and, Bool.true_or, if_true] at hs ⊢
    obtain ⟨⟨hne, hp⟩, hrep⟩ := hs
    rw [hne]
    simp only [Bool.not_false, if_true]
    refine ⟨h.to rfl, ?_, ?_⟩
    · exact (u8chk_iff _).mp hp
    · have := (u8chk_iff _).mp hrep
      cases hse : s.isEmpty
      · simp only [hse, if_true] at this ⊢
        exact this
      · simp only [hse, Bool.true_eq_false, if_false] at this ⊢
        exact this

open Neatvi.Props in
theorem substLoop_ok (re : RStr) (g : Bool) (b : Int) (pat rep : Bytes) (hp : IsU8 pat) (hrep : IsU8 rep)
    (ed0 : Ed) (hre : ed0.mkRe pat = some (some re)) :
    ∀ (n : Nat) (ed ed' : Ed), EdOk ed → ed.xrep = rep → C14.substLoop re g b n ed = some ed' → EdOk ed' ∧ ed'.xrep = rep := by
  intro n
  induction n with
  | zero => intro ed ed' hi hx h; cases h; exact ⟨hi, hx⟩
  | succ n ih =>
    intro ed ed' hi hx h
    rw [C14.substLoop_succ] at h
    cases hm : C14.substLoop re g b n ed with
    | none => rw [hm] at h; cases h
    | some em =>
      rw [hm] at h
      simp only [Option.bind_some] at h
      obtain ⟨hm1, hm2⟩ := ih _ _ hi hx hm
      unfold C14.substStep at h
      split at h
      · cases h
      · rename_i ln hln
        split at h
        · cases h
        · cases h; exact ⟨hm1, hm2⟩
        · rename_i nl hsub
          obtain ⟨hl1, hl2⟩ := hm1.line hln
          rw [hm2] at hsub
          have hv : IsU8 nl := C16b.subst_keeps_valid_ed ed0 hp hre rep g ln nl hrep hl1 hl2 hsub
          refine ⟨hm1.edit (optValid_some.mpr hv) h, ?_⟩
          obtain ⟨_, _, lb, lb', _, _, e1, _⟩ := Lemmas.ExFrame.Ed_edit_some h
          rw [e1, C14.setLb_xrep]; exact hm2


/-- **the `ec_substitute` branch of the dispatcher**: with a valid, non-empty pattern and a valid replacement
(`substOk`) every line `:s` writes back is valid UTF-8 (`C16b.subst_keeps_valid_ed`), so the state stays valid -/
theorem runCmd_subst_ok (f : Nat) (ed ed' : Ed) (loc cmd arg : Bytes) (txt : Option Bytes) (r : Int)
    (hs : substOk arg = true) (hi : EdOk ed)
    (h : runCmd (f + 1) ed "ec_substitute" loc cmd arg txt = some (r, ed')) : EdOk ed' := by
  rw [Props.C14.runCmd_subst_eq] at h
  split at h
  · cases h
  · rename_i ed1 hr
    have e1 := hi.region hr
    obtain ⟨e2, k1, k2⟩ := substPrep_ok e1 hs
    repeat' (split at h)
    all_goals (first | cases h | skip)
    · exact e1
    · exact e2
    · exact e2
    · rename_i re hre _ hl
      exact (substLoop_ok re _ _ _ _ k1 k2 _ hre _ _ _ e2 rfl hl).1

end Neatvi.Lemmas.C16c
