import NeatviVerif.Model.Mot
import NeatviVerif.Spec.Motion
import NeatviVerif.Lemmas.UcBits
import NeatviVerif.Lemmas.C07Ren
/-!
# C07 helper lemmas: the `uc.c` scanners on ASCII text, and the simple scanners of `mot.c`
-/
set_option linter.unusedSimpArgs false
set_option linter.unusedVariables false
namespace Neatvi.Lemmas.C07
open Neatvi Neatvi.Uc Neatvi.Mot

/-- bytes of an ASCII text: non-zero and below 128 -/
def Ascii (s : Bytes) : Prop := ∀ b ∈ s, 0 < b ∧ b < 128

theorem Ascii.tail {c : Nat} {r : Bytes} (h : Ascii (c :: r)) : Ascii r := fun b hb => h b (List.mem_cons_of_mem _ hb)
theorem Ascii.head {c : Nat} {r : Bytes} (h : Ascii (c :: r)) : 0 < c ∧ c < 128 := h c (by simp)

theorem ucEnd_ascii (c : Nat) (r : Bytes) (h : c < 128) : ucEnd (c :: r) = 0 := by
  unfold ucEnd
  have := and80 c (by omega)
  simp only [this, decide_eq_true_eq, h, if_true]

theorem ucNext_ascii (c : Nat) (r : Bytes) (h0 : 0 < c) (h : c < 128) : ucNext (c :: r) = 1 := by
  unfold ucNext
  rw [ucEnd_ascii c r h]
  simp [Bytes.hd]
  omega

theorem ucSlenF_ascii (f : Nat) (s : Bytes) (hs : Ascii s) (hf : s.length ≤ f) : ucSlenF f s = s.length := by
  induction f generalizing s with
  | zero =>
    cases s with
    | nil => rfl
    | cons c r => simp at hf
  | succ f ih =>
    cases s with
    | nil => unfold ucSlenF; simp
    | cons c r =>
      unfold ucSlenF
      have hc := hs.head
      rw [ucEnd_ascii c r hc.2]
      have : (Bytes.hd (c :: r) == 0) = false := by simp [Bytes.hd]; omega
      simp only [this, Bool.false_eq_true, if_false]
      rw [show (c :: r).drop (0 + 1) = r from rfl, ih r hs.tail (by simpa using hf)]
      simp

theorem ucSlen_ascii (s : Bytes) (hs : Ascii s) : ucSlen s = s.length := ucSlenF_ascii _ s hs (Nat.le_refl _)

theorem ucChrF_ascii (f : Nat) (s : Bytes) (hs : Ascii s) (hf : s.length ≤ f) (i off : Nat) (h1 : i ≤ off)
    (h2 : off ≤ i + s.length) : ucChrF f s i off = some (off - i) := by
  induction f generalizing s i with
  | zero =>
    cases s with
    | nil =>
      unfold ucChrF
      simp at h2
      have : i = off := by omega
      simp [this]
    | cons c r => simp at hf
  | succ f ih =>
    cases s with
    | nil =>
      unfold ucChrF
      simp at h2
      have : i = off := by omega
      simp [this]
    | cons c r =>
      unfold ucChrF
      have hc := hs.head
      have : (Bytes.hd (c :: r) == 0) = false := by simp [Bytes.hd]; omega
      simp only [this, Bool.false_eq_true, if_false]
      by_cases hio : i = off
      · subst hio; simp
      · have : (i == off) = false := by simpa using hio
        simp only [this, Bool.false_eq_true, if_false]
        rw [ucNext_ascii c r hc.1 hc.2]
        rw [show (c :: r).drop 1 = r from rfl]
        rw [ih r hs.tail (by simpa using hf) (i + 1) (by omega) (by simp at h2; omega)]
        simp; omega

theorem ucChr_ascii (s : Bytes) (hs : Ascii s) (k : Nat) (hk : k ≤ s.length) : ucChr s k = some k := by
  unfold ucChr
  rw [ucChrF_ascii _ s hs (Nat.le_refl _) 0 k (by omega) (by omega)]
  simp


theorem ascii_snoc_nl {w : Bytes} (hw : Ascii w) : Ascii (w ++ [10]) := by
  intro b hb
  simp at hb
  rcases hb with hb | hb
  · exact hw b hb
  · subst hb; omega

theorem hd_drop_getD (s : Bytes) (i : Nat) : Bytes.hd (s.drop i) = s.getD i 0 := by
  unfold Bytes.hd
  simp [List.getD, List.head?_drop]

theorem chrHd_ascii (s : Bytes) (hs : Ascii s) (k : Nat) (hk : k ≤ s.length) : Ren.chrHd s k = s.getD k 0 := by
  unfold Ren.chrHd
  rw [ucChr_ascii s hs k hk]
  exact hd_drop_getD s k

theorem chrAt_ascii (s : Bytes) (hs : Ascii s) (p : Int) (h0 : 0 ≤ p) (h1 : p ≤ s.length) :
    chrAt s p = s.drop p.toNat := by
  unfold chrAt
  rw [if_neg (by omega), ucChr_ascii s hs p.toNat (by omega)]

theorem ucCode_low (t : Bytes) (h : Bytes.hd t < 128) : ucCode t = some (Bytes.hd t) := by
  unfold ucCode
  have := andc0n (Bytes.hd t) (by omega)
  simp only [this, decide_eq_true_eq, show Bytes.hd t < 192 by omega, if_true]

/-- the code point at position `p` of an ASCII string is the byte there -/
theorem codeAt_ascii (s : Bytes) (hs : Ascii s) (p : Int) (h0 : 0 ≤ p) (h1 : p ≤ s.length) :
    (ucCode (chrAt s p)).getD 0 = s.getD p.toNat 0 := by
  rw [chrAt_ascii s hs p h0 h1]
  have hlt : Bytes.hd (s.drop p.toNat) < 128 := by
    rw [hd_drop_getD]
    by_cases hp : p.toNat < s.length
    · have : s.getD p.toNat 0 = s[p.toNat] := by simp [List.getD, List.getElem?_eq_getElem hp]
      rw [this]
      exact (hs _ (List.getElem_mem hp)).2
    · have : s.getD p.toNat 0 = 0 := by simp [List.getD, List.getElem?_eq_none (Nat.le_of_not_lt hp)]
      omega
  rw [ucCode_low _ hlt, hd_drop_getD]
  rfl

/-! ### `lbuf_eol` -/

theorem slenAt_nonneg (ls : Lines) (r : Int) : 0 ≤ slenAt ls r := by
  unfold slenAt; split <;> omega

theorem eol_closed (ls : Lines) (r : Int) : eol ls r = max 0 (slenAt ls r - 1) := by
  have := slenAt_nonneg ls r
  unfold eol
  simp only [bne_iff_ne, ne_eq, ite_not]
  split <;> omega

theorem eol_of_line (ls : Lines) (r : Int) (ln : Bytes) (h : lineAt ls r = some ln) :
    eol ls r = ((ucSlen ln - 1 : Nat) : Int) := by
  rw [eol_closed]
  unfold slenAt
  rw [h]
  simp only []
  omega

theorem eol_of_none (ls : Lines) (r : Int) (h : lineAt ls r = none) : eol ls r = 0 := by
  rw [eol_closed]
  unfold slenAt
  rw [h]
  simp only []
  omega

/-! ### `lbuf_indents` -/

theorem takeWhile_pre {α : Type} (p : α → Bool) (pre : List α) (x : α) (rest : List α)
    (hpre : ∀ b ∈ pre, p b = true) (hx : p x = false) : (pre ++ x :: rest).takeWhile p = pre := by
  induction pre with
  | nil => simp [List.takeWhile, hx]
  | cons a t ih =>
    have ha := hpre a (by simp)
    simp only [List.cons_append, List.takeWhile_cons, ha, if_true]
    rw [ih (fun b hb => hpre b (by simp [hb]))]

theorem takeWhile_all {α : Type} (p : α → Bool) (l : List α) (h : ∀ b ∈ l, p b = true) : l.takeWhile p = l := by
  induction l with
  | nil => rfl
  | cons a t ih =>
    simp only [List.takeWhile_cons, h a (by simp), if_true]
    rw [ih (fun b hb => h b (by simp [hb]))]

theorem range_find_first (n k : Nat) (p : Nat → Bool) (hk : k < n) (hp : p k = true) (hlt : ∀ j, j < k → p j = false) :
    (List.range n).find? p = some k := by
  induction n with
  | zero => omega
  | succ n ih =>
    rw [List.range_succ, List.find?_append]
    by_cases hkn : k < n
    · rw [ih hkn]; rfl
    · have : k = n := by omega
      subst this
      have : (List.range k).find? p = none := by
        rw [List.find?_eq_none]
        intro x hx
        simp at hx
        simp [hlt x hx]
      rw [this]
      simp [hp]

theorem isBlank_space (b : Nat) (h : Spec.Motion.isBlank b = true) : ucIsSpace b = true := by
  unfold Spec.Motion.isBlank at h
  simp only [Bool.or_eq_true, beq_iff_eq] at h
  rcases h with h | h <;> subst h <;> decide

end Neatvi.Lemmas.C07
