import NeatviVerif.Lemmas.C05hA
/-!
# C05h, part B: the hypotheses of C05f as they are stated are false — witnesses; what C05e gives instead

* `EngineOk` quantifies over *every* pattern and *every* subject.  It fails (1) on a pattern that is not a C string
  (`\` NUL: `rstr_make` traps in the model), (2) on a C-string pattern and a well-formed line whose last character is
  a truncated multi-byte sequence (`x*$` on `a`, `E2`, newline: the start-position loop of `regexec` steps over the
  newline and the match starts *on the terminator*), (3) on a subject without its final newline.
* `ExNoTrap` quantifies over every NUL-free line: `:w %%` with a 500-byte path traps in the model (the path limit),
  and `://` traps when the remembered pattern is not a C string (nothing in `SOk` says it is).
What C05e proves instead: compiling a C-string pattern and matching never trap (`engine_total`), hence `lbuf_search`
started on an existing character never traps (`search_total`).
-/
set_option linter.unusedSimpArgs false
set_option linter.unusedVariables false
namespace Neatvi.Lemmas.C05h
open Neatvi Neatvi.Uc Neatvi.Lbuf Neatvi.Ex Neatvi.Mot Neatvi.Vi Neatvi.Rset
open Neatvi.Lemmas.C05e Neatvi.Lemmas.C05f

/-- `EngineOk` restricted to patterns with `K` and subjects with `S` -/
def EngineOkOn (K S : Bytes → Prop) : Prop :=
  ∀ (kw : Bytes) (flg : Nat), K kw → ∃ r, rstrMake kw flg = some r ∧
    ∀ re, r = some re → ∀ (s : Bytes) (f : Nat), S s →
      ∃ res offs c, rstrFind re s 1 f search.Ex_ND search.Ex_NG = some (res, offs, c) ∧
        (0 ≤ res → 0 ≤ offs.getD 0 0 ∧ (offs.getD 0 0).toNat < s.length)

theorem engineOk_iff : EngineOk ↔ EngineOkOn (fun _ => True) (fun _ => True) := by
  constructor
  · intro h kw flg _
    obtain ⟨r, h1, h2⟩ := h kw flg
    exact ⟨r, h1, fun re hre s f _ => h2 re hre s f⟩
  · intro h kw flg
    obtain ⟨r, h1, h2⟩ := h kw flg trivial
    exact ⟨r, h1, fun re hre s f => h2 re hre s f trivial⟩

theorem EngineOkOn.mono {K K' S S' : Bytes → Prop} (h : EngineOkOn K S) (hk : ∀ x, K' x → K x) (hs : ∀ x, S' x → S x) :
    EngineOkOn K' S' := by
  intro kw flg hkw
  obtain ⟨r, h1, h2⟩ := h kw flg (hk kw hkw)
  exact ⟨r, h1, fun re hre s f hs' => h2 re hre s f (hs s hs')⟩

/-- **`EngineOk` is false** (1): the pattern `\` NUL -/
theorem engineOk_is_false : ¬ EngineOk := by
  intro h
  obtain ⟨r, h1, _⟩ := h [92, 0] 0
  rw [rstrMake_nul_traps] at h1
  cases h1

/-- compile and match, for evaluation -/
def findWith (kw : Bytes) (flg : Nat) (s : Bytes) (f : Nat) : Option (Int × List Int × Nat) :=
  match rstrMake kw flg with
  | some (some re) => rstrFind re s 1 f search.Ex_ND search.Ex_NG
  | _ => none

theorem findWith_spec {kw : Bytes} {flg : Nat} {s : Bytes} {f : Nat} {x : Int × List Int × Nat}
    (h : findWith kw flg s f = some x) :
    ∃ re, rstrMake kw flg = some (some re) ∧ rstrFind re s 1 f search.Ex_ND search.Ex_NG = some x := by
  unfold findWith at h
  split at h
  · rename_i re hm; exact ⟨re, hm, h⟩
  · cases h

/-- what `rset_find` does with the answer of `regexec` -/
def findPost (rs : RSet) (n : Nat) (r : Regex.ExecRes × List (Int × Int)) : Option (Int × List Int × Nat) :=
  match r with
  | (Regex.ExecRes.trap, _) => none
  | (Regex.ExecRes.nomatch c, _) => some (-1, [], c)
  | (Regex.ExecRes.found _ c, subs) =>
    let set : Int := (List.range rs.n).foldl (fun (acc : Int) i =>
      let g := rs.grp.getD i (-1)
      if g ≥ 0 && (subs.getD g.toNat (-1, -1)).1 ≥ 0 then (i : Int) else acc) (-1)
    if set < 0 then some (-1, [], c) else
    let base := (rs.grp.getD set.toNat 0).toNat
    let cnt := rs.setgrpcnt.getD set.toNat 0
    let out := (List.range n).flatMap (fun i =>
      if i < cnt + 1 then let so := subs.getD (base + i) (-1, -1); [so.1, so.2] else [-1, -1])
    some (set, out, c)

theorem find_eq_post (rs : RSet) (s : Bytes) (n flg nd ngrps : Nat) (h : ¬ rs.grpcnt ≤ 2) :
    Rset.find rs s n flg nd ngrps = findPost rs n (Regex.regexec rs.prog s rs.grpcnt
      (Regex.REG_NEWLINE ||| (if flg &&& RE_NOTBOL != 0 then Regex.REG_NOTBOL else 0) |||
        (if flg &&& RE_NOTEOL != 0 then Regex.REG_NOTEOL else 0)) nd ngrps) := by
  unfold Rset.find findPost
  rw [if_neg h]
  dsimp only
  generalize Regex.regexec _ _ _ _ _ _ = r
  obtain ⟨a, b⟩ := r
  cases a <;> rfl

/-- `rset_find` over the fuelled evaluator of the VM (`Lemmas/C10Eval`), which the kernel can run -/
def findF (fuel : Nat) (rs : RSet) (s : Bytes) (n flg nd ngrps : Nat) : Option (Int × List Int × Nat) :=
  if rs.grpcnt ≤ 2 then none else
  match Lemmas.C10.regexecF fuel rs.prog s rs.grpcnt
      (Regex.REG_NEWLINE ||| (if flg &&& RE_NOTBOL != 0 then Regex.REG_NOTBOL else 0) |||
        (if flg &&& RE_NOTEOL != 0 then Regex.REG_NOTEOL else 0)) nd ngrps with
  | none => none
  | some r => findPost rs n r

theorem findF_sound {fuel : Nat} {rs : RSet} {s : Bytes} {n flg nd ngrps : Nat} {x : Int × List Int × Nat}
    (h : findF fuel rs s n flg nd ngrps = some x) : Rset.find rs s n flg nd ngrps = some x := by
  unfold findF at h
  split at h
  · cases h
  · rename_i hg
    rw [find_eq_post _ _ _ _ _ _ hg]
    split at h
    · cases h
    · rename_i r hr
      rw [Lemmas.C10.regexecF_sound hr]
      exact h

/-- compile and match over the fuelled evaluator -/
def findWithF (fuel : Nat) (kw : Bytes) (flg : Nat) (s : Bytes) (f : Nat) : Option (Int × List Int × Nat) :=
  match rstrMake kw flg with
  | some (some re) =>
    (match re.rs with
     | some r => findF fuel r s 1 f search.Ex_ND search.Ex_NG
     | none => none)
  | _ => none

theorem findWithF_sound {fuel : Nat} {kw : Bytes} {flg : Nat} {s : Bytes} {f : Nat} {x : Int × List Int × Nat}
    (h : findWithF fuel kw flg s f = some x) : findWith kw flg s f = some x := by
  unfold findWithF at h
  unfold findWith
  split at h
  · rename_i re hm
    split at h
    · rename_i r hr
      unfold rstrFind
      rw [hr]
      exact findF_sound h
    · cases h
  · cases h

/-- the pattern `x*$` on the line `a`, `E2`, newline: the match starts at byte 3, the length of the line -/
theorem truncated_char_match : findWith [120, 42, 36] 0 [97, 226, 10] 0 = some (0, [3, 3], 0) :=
  findWithF_sound (fuel := 40) (by decide)

/-- the same pattern on `bc` (no final newline): the match starts at byte 2, the length of the subject -/
theorem unterminated_match : findWith [120, 42, 36] 0 [98, 99] 0 = some (0, [2, 2], 0) :=
  findWithF_sound (fuel := 40) (by decide)

theorem engineOkOn_false_of {K S : Bytes → Prop} {kw s : Bytes} {f : Nat} {n : Nat} {c : Nat} (hk : K kw) (hs : S s)
    (h : findWith kw 0 s f = some (0, [(n : Int), (n : Int)], c)) (hn : s.length ≤ n) : ¬ EngineOkOn K S := by
  intro hE
  obtain ⟨re, hm, hf⟩ := findWith_spec h
  obtain ⟨r, h1, h2⟩ := hE kw 0 hk
  rw [hm] at h1
  cases h1
  obtain ⟨res, offs, c', h3, h4⟩ := h2 re rfl s f hs
  rw [hf] at h3
  cases h3
  have := (h4 (by decide)).2
  simp only [List.getD_cons_zero, Int.toNat_natCast] at this
  omega

/-- **`EngineOk` is false** (2): also for patterns that are C strings and subjects that are well-formed lines
    (newline-terminated, no other newline, no NUL) — a line may end in a truncated multi-byte character -/
theorem engineOk_on_lines_is_false : ¬ EngineOkOn NoNul C05f.LineOk :=
  engineOkOn_false_of (kw := [120, 42, 36]) (s := [97, 226, 10]) (n := 3) (by decide) ⟨[97, 226], rfl, by decide, by decide⟩
    truncated_char_match (by decide)

/-- **`EngineOk` is false** (3): for C-string patterns and NUL-free subjects of valid UTF-8 — when the subject is not
    newline-terminated -/
theorem engineOk_on_ascii_is_false : ¬ EngineOkOn NoNul (fun s => ∀ c ∈ s, 0 < c ∧ c < 128) :=
  engineOkOn_false_of (kw := [120, 42, 36]) (s := [98, 99]) (n := 2) (by decide) (by decide) unterminated_match (by decide)

/-- the rest `E2`, newline of that line, as `lbuf_search` hands it to the matcher after the cursor on `a` -/
theorem truncated_char_match_rest : findWith [120, 42, 36] 0 [226, 10] RE_NOTBOL = some (0, [2, 2], 0) :=
  findWithF_sound (fuel := 40) (by decide)

/-- the consequence one level up: `lbuf_search` reports a hit *on the terminator* of the line, which `HitOk` (the
    conclusion of C05f's `search_ok` / `search_hit`) excludes -/
theorem search_hit_beyond_last_char :
    search [[97, 226, 10]] [120, 42, 36] false 1 0 0 = some (some (0, 3, 0)) ∧ slenAt [[97, 226, 10]] 0 = 3 ∧
    ¬ HitOk [[97, 226, 10]] (some (0, 3, 0)) := by
  have h2 : slenAt [[97, 226, 10]] 0 = 3 := by decide
  refine ⟨?_, h2, ?_⟩
  · obtain ⟨re, hm, hf⟩ := findWith_spec truncated_char_match_rest
    unfold search
    simp only [Bool.false_eq_true, if_false]
    rw [hm]
    dsimp only
    have hl : lineAt [[97, 226, 10]] 0 = some [97, 226, 10] := by decide
    have hc : ucChr [97, 226, 10] ((0 : Int) + 1).toNat = some 1 := by decide
    have hd : List.drop 1 [97, 226, 10] = [226, 10] := rfl
    have hn : (if (1 != 0) = true then RE_NOTBOL else 0) = RE_NOTBOL := by decide
    have ho1 : ucOff [97, 226, 10] (1 + 2) = 3 := by decide
    have ho2 : ucOff (List.drop (1 + 2) [97, 226, 10]) (2 - 2) = 0 := by decide
    simp (config := {decide := true}) only [search.rows, search.go, hl, hc, hd, hn, hf, ho1, ho2, List.length_cons, List.length_nil,
      List.getD_cons_zero, List.getD_cons_succ, Int.toNat_natCast, if_true, if_false, Bool.and_self, beq_self_eq_true,
      Bool.true_and, Bool.or_true, Bool.true_or]
  · intro h
    have h1 := (h 0 3 0 rfl).2.2.2
    rw [h2] at h1
    omega

/-! ### what C05e proves -/

/-- **the engine on C strings**: compiling a pattern that is a C string never traps, and the matcher it yields never
    traps — on any subject, with any flags and limits -/
theorem engine_total (kw : Bytes) (flg : Nat) (h0 : NoNul kw) :
    ∃ r, rstrMake kw flg = some r ∧ ∀ re, r = some re → ∀ (s : Bytes) (n f nd ng : Nat), ∃ x, rstrFind re s n f nd ng = some x := by
  cases hm : rstrMake kw flg with
  | none => exact absurd hm (reSafe.make kw flg h0)
  | some r =>
    refine ⟨r, rfl, ?_⟩
    intro re hre s n f nd ng
    subst hre
    exact rstrFind_total hm s n f nd ng

/-- the scan of one line never traps when the matcher is total -/
theorem search_go_total (dir r0 o0 : Int) (re : RStr) (i : Int) (s : Bytes)
    (hre : ∀ (t : Bytes) (f : Nat), ∃ x, rstrFind re t 1 f search.Ex_ND search.Ex_NG = some x) :
    ∀ (f off : Nat) (best : Option (Int × Int)), ∃ b, search.go dir r0 o0 re i s f off best = some b := by
  intro f
  induction f with
  | zero => intro off best; exact ⟨best, by unfold search.go; rfl⟩
  | succ f ih =>
    intro off best
    unfold search.go
    obtain ⟨⟨res, offs, c⟩, hf⟩ := hre (s.drop off) (if off != 0 then RE_NOTBOL else 0)
    rw [hf]
    simp only []
    splits
    all_goals first
      | exact ⟨_, rfl⟩
      | exact ih _ _

theorem search_rows_total (ls : Lines) (dir : Int) (scan : Int → Bytes → Option (Option (Int × Int)))
    (hscan : ∀ i s, lineAt ls i = some s → ∃ b, scan i s = some b) :
    ∀ (f : Nat) (i : Int), ∃ res, search.rows ls dir ls.length scan f i = some res := by
  intro f
  induction f with
  | zero => intro i; exact ⟨none, by unfold search.rows; rfl⟩
  | succ f ih =>
    intro i
    unfold search.rows
    split
    · exact ⟨none, rfl⟩
    · cases hl : lineAt ls i with
      | none => exact ⟨none, rfl⟩
      | some s =>
        obtain ⟨b, hb1⟩ := hscan i s hl
        simp only []
        rw [hb1]
        cases b with
        | none => exact ih _
        | some p => obtain ⟨o, l⟩ := p; exact ⟨_, rfl⟩

/-- **`lbuf_search` with a C-string pattern, started on an existing character, never traps** — whatever the bytes
    of the lines are (no hypothesis on the lines at all) -/
theorem search_total (ls : Lines) (kw : Bytes) (ic : Bool) (dir r o : Int) (h0 : NoNul kw) (ho : o < slenAt ls r) :
    ∃ res, search ls kw ic dir r o = some res := by
  unfold search
  obtain ⟨m, hm, hre⟩ := engine_total kw (if ic then RE_ICASE else 0) h0
  rw [hm]
  cases m with
  | none => exact ⟨none, rfl⟩
  | some re =>
    simp only []
    refine search_rows_total ls dir _ ?_ _ _
    intro i s hs
    have hgo := fun off => search_go_total dir r o re i s (fun t f => hre re rfl t 1 f _ _) (s.length + 2) off none
    by_cases hc : (decide (dir > 0) && r == i) = true
    · rw [if_pos hc]
      simp only [Bool.and_eq_true, decide_eq_true_eq, beq_iff_eq] at hc
      obtain ⟨_, rfl⟩ := hc
      have hsl' : slenAt ls r = ucSlen s := by unfold slenAt; rw [hs]
      obtain ⟨b, hb⟩ := Lemmas.C08.chr_some_of_le (o + 1).toNat s (by omega)
      rw [hb]
      simp only []
      have := Lemmas.C08.chr_le_length _ _ _ hb
      rw [if_neg (by omega)]
      exact hgo b
    · rw [if_neg hc]
      rw [if_neg (by omega)]
      exact hgo 0

end Neatvi.Lemmas.C05h
