import NeatviVerif.Lemmas.C13Scan
import NeatviVerif.Lemmas.C13Uc
/-!
# C13, part 2: what the generic scan computes

* forward, one line: the matcher's first match from the start byte (`fwdLine`);
* backward, one line: the last element of the chain of successive matches (`Chain`);
* the rows: the nearest row in the direction of the search whose line scan is not `some none`.
-/
namespace Neatvi.Lemmas.C13
open Neatvi Neatvi.Uc Neatvi.Rset Neatvi.Mot

/-! ## one line, forward -/

/-- the byte a forward scan of row `j` starts from: the character after the cursor on the cursor's
    row, the line start elsewhere; `none` = `uc_chr` ran off the line -/
def fwdStart (r0 o0 j : Int) (s : Bytes) : Option Nat := if r0 = j then ucChr s (o0 + 1).toNat else some 0

/-- reference for one row of a forward search: the matcher's first match from the start byte -/
def fwdLine (m : Matcher) (r0 o0 j : Int) (s : Bytes) : Option (Option (Int × Int)) :=
  match fwdStart r0 o0 j s with
  | none => none
  | some b =>
    match m s b with
    | none => none
    | some none => some none
    | some (some (so, eo)) => some (some (report s (b + so) (eo - so)))

theorem gLineScan_fwd (m : Matcher) (dir r0 o0 j : Int) (s : Bytes) (hd : 0 < dir) :
    gLineScan m dir r0 o0 j s = fwdLine m r0 o0 j s := by
  have hd' : ¬ dir < 0 := by omega
  have fwd : ∀ off, gGo m dir r0 o0 j s (s.length + 2) off none =
      match m s off with
      | none => none
      | some none => some none
      | some (some (so, eo)) => some (some (report s (off + so) (eo - so))) := by
    intro off
    rw [gGo]
    cases m s off with
    | none => rfl
    | some x =>
      cases x with
      | none => rfl
      | some p => obtain ⟨so, eo⟩ := p; simp [hd, hd']
  simp only [gLineScan, startOff, fwdLine, fwdStart, fwd]
  by_cases hj : r0 = j
  · cases hc : ucChr s (o0 + 1).toNat with
    | none => simp [hj, hd]
    | some b =>
      have hb := ucChr_le hc
      simp [hj, hd, show ¬ s.length < b by omega]
  · simp [hj]

/-! ## one line, backward -/

/-- `Chain m s stop off l`: starting the matcher at byte `off` and then repeatedly after the previous
    match (`nextOff`) yields the matches `l` (absolute start byte, length in bytes), in order.  The
    enumeration ends when the matcher finds nothing, when a match starts at a byte where `stop` holds
    (that match is not taken), or when the next start is the end of the line or its newline. -/
inductive Chain (m : Matcher) (s : Bytes) (stop : Nat → Bool) : Nat → List (Nat × Nat) → Prop
  | nothing {off : Nat} : m s off = some none → Chain m s stop off []
  | stopped {off so eo : Nat} : m s off = some (some (so, eo)) → stop (off + so) = true → Chain m s stop off []
  | final {off so eo : Nat} : m s off = some (some (so, eo)) → stop (off + so) = false →
      (s.length ≤ nextOff off so eo ∨ s.getD (nextOff off so eo) 0 = 10) →
      Chain m s stop off [(off + so, eo - so)]
  | more {off so eo : Nat} {l : List (Nat × Nat)} : m s off = some (some (so, eo)) → stop (off + so) = false →
      nextOff off so eo < s.length → s.getD (nextOff off so eo) 0 ≠ 10 →
      Chain m s stop (nextOff off so eo) l → Chain m s stop off ((off + so, eo - so) :: l)

/-- the stop rule of a backward scan: on the cursor's row, a match that begins at or after the cursor -/
def stopB (r0 o0 j : Int) (s : Bytes) : Nat → Bool := fun b => r0 == j && decide (((ucOff s b : Nat) : Int) ≥ o0)

/-- the report for the last match of a chain, else `best` -/
def lastOr (s : Bytes) (best : Option (Int × Int)) (l : List (Nat × Nat)) : Option (Int × Int) :=
  match l.getLast? with
  | some (b, n) => some (report s b n)
  | none => best

theorem lastOr_nil (s : Bytes) (best : Option (Int × Int)) : lastOr s best [] = best := rfl
theorem lastOr_single (s : Bytes) (best : Option (Int × Int)) (p : Nat × Nat) : lastOr s best [p] = some (report s p.1 p.2) := rfl
theorem lastOr_cons (s : Bytes) (best : Option (Int × Int)) (p : Nat × Nat) (l : List (Nat × Nat)) :
    lastOr s best (p :: l) = lastOr s (some (report s p.1 p.2)) l := by
  cases l with
  | nil => rfl
  | cons q l =>
    unfold lastOr
    rw [List.getLast?_cons_cons]
    cases h : (q :: l).getLast? with
    | none => simp at h
    | some x => rfl

theorem nextOff_gt (off so eo : Nat) : off < nextOff off so eo := by
  unfold nextOff; split <;> omega

theorem chain_fun {m : Matcher} {s : Bytes} {stop : Nat → Bool} {off : Nat} {l l' : List (Nat × Nat)}
    (h : Chain m s stop off l) (h' : Chain m s stop off l') : l = l' := by
  induction h generalizing l' with
  | nothing hm => cases h' <;> simp_all
  | stopped hm hs => cases h' <;> simp_all
  | final hm hs he =>
    cases h' with
    | nothing hm' => simp_all
    | stopped hm' hs' => simp_all
    | final hm' hs' he' => simp_all
    | more hm' hs' hl' hn' hc' =>
      rw [hm] at hm'; cases hm'
      rcases he with he | he
      · omega
      · exact absurd he hn'
  | more hm hs hl hn hc ih =>
    cases h' with
    | nothing hm' => simp_all
    | stopped hm' hs' => simp_all
    | final hm' hs' he' =>
      rw [hm] at hm'; cases hm'
      rcases he' with he | he
      · omega
      · exact absurd he hn
    | more hm' hs' hl' hn' hc' =>
      rw [hm] at hm'; cases hm'
      rw [ih hc']

/-- a backward line scan returns `some res` exactly when the chain of successive matches exists and
    `res` reports its last element -/
theorem gGo_bwd (m : Matcher) (dir r0 o0 j : Int) (s : Bytes) (hd : dir < 0) (f off : Nat) (best res : Option (Int × Int))
    (hf : s.length + 1 ≤ f + off) (ho : off ≤ s.length) :
    gGo m dir r0 o0 j s f off best = some res ↔
      ∃ l, Chain m s (stopB r0 o0 j s) off l ∧ res = lastOr s best l := by
  have hd' : ¬ 0 < dir := by omega
  induction f generalizing off best with
  | zero => omega
  | succ f ih =>
    rw [gGo]
    cases hm : m s off with
    | none =>
      simp only [reduceCtorEq, false_iff]
      rintro ⟨l, hc, -⟩
      cases hc <;> simp_all
    | some x =>
      cases x with
      | none =>
        simp only [Option.some.injEq]
        constructor
        · intro h; exact ⟨[], Chain.nothing hm, by simp [lastOr_nil, h]⟩
        · rintro ⟨l, hc, rfl⟩
          rw [chain_fun hc (Chain.nothing hm)]; rfl
      | some p =>
        obtain ⟨so, eo⟩ := p
        simp only [hd, decide_true, Bool.true_and]
        by_cases hs : stopB r0 o0 j s (off + so) = true
        · have hs' : (r0 == j && decide ((report s (off + so) (eo - so)).1 ≥ o0)) = true := hs
          simp only [hs', if_true, Option.some.injEq]
          constructor
          · intro h; exact ⟨[], Chain.stopped hm hs, by simp [lastOr_nil, h]⟩
          · rintro ⟨l, hc, rfl⟩
            rw [chain_fun hc (Chain.stopped hm hs)]; rfl
        · have hs' : ¬ (r0 == j && decide ((report s (off + so) (eo - so)).1 ≥ o0)) = true := hs
          have hs2 : stopB r0 o0 j s (off + so) = false := by simpa using hs
          simp only [hs', if_false, hd', decide_false, Bool.false_or, Bool.false_eq_true]
          by_cases he : s.length ≤ nextOff off so eo ∨ s.getD (nextOff off so eo) 0 = 10
          · have : (decide (nextOff off so eo ≥ s.length) || s.getD (nextOff off so eo) 0 == 10) = true := by
              rcases he with he | he
              · simp [he]
              · rw [he]; simp
            simp only [this, if_true, Option.some.injEq]
            constructor
            · intro h; exact ⟨_, Chain.final hm hs2 he, by rw [lastOr_single, ← h]⟩
            · rintro ⟨l, hc, rfl⟩
              rw [chain_fun hc (Chain.final hm hs2 he)]; rfl
          · have hl : nextOff off so eo < s.length := by omega
            have hn : s.getD (nextOff off so eo) 0 ≠ 10 := fun h => he (Or.inr h)
            have : ¬ (decide (nextOff off so eo ≥ s.length) || s.getD (nextOff off so eo) 0 == 10) = true := by
              simp only [Bool.or_eq_true, decide_eq_true_eq, beq_iff_eq, not_or]; exact ⟨by omega, hn⟩
            simp only [this]
            have hgt := nextOff_gt off so eo
            have ih' := ih (nextOff off so eo) (some (report s (off + so) (eo - so))) (by omega) (by omega)
            refine ih'.trans ?_
            constructor
            · rintro ⟨l, hc, rfl⟩
              exact ⟨_, Chain.more hm hs2 hl hn hc, by rw [lastOr_cons]⟩
            · rintro ⟨l, hc, rfl⟩
              cases hc with
              | nothing hm' => simp_all
              | stopped hm' hs' => simp_all
              | final hm' hs' he' => rw [hm] at hm'; cases hm'; exact absurd he' he
              | more hm' hs' hl' hn' hc' =>
                rw [hm] at hm'; cases hm'
                exact ⟨_, hc', by rw [lastOr_cons]⟩

/-- reference for one row of a backward search -/
def BwdLine (m : Matcher) (r0 o0 j : Int) (s : Bytes) (res : Option (Int × Int)) : Prop :=
  ∃ l, Chain m s (stopB r0 o0 j s) 0 l ∧ res = lastOr s none l

theorem gLineScan_bwd (m : Matcher) (dir r0 o0 j : Int) (s : Bytes) (hd : dir < 0) (res : Option (Int × Int)) :
    gLineScan m dir r0 o0 j s = some res ↔ BwdLine m r0 o0 j s res := by
  have hd' : ¬ dir > 0 := by omega
  simp only [gLineScan, startOff, hd', decide_false, Bool.false_and, Bool.false_eq_true, if_false,
    show ¬ 0 > s.length by omega]
  exact gGo_bwd m dir r0 o0 j s hd _ 0 none res (by omega) (by omega)

/-- every match of a chain was returned by the matcher for some suffix of the line, lies in the
    part of the line the chain covers, and does not satisfy the stop rule -/
theorem chain_mem {m : Matcher} {s : Bytes} {stop : Nat → Bool} {off : Nat} {l : List (Nat × Nat)}
    (h : Chain m s stop off l) : ∀ p ∈ l, ∃ off' so eo, off ≤ off' ∧ m s off' = some (some (so, eo)) ∧
      p = (off' + so, eo - so) ∧ stop (off' + so) = false := by
  induction h with
  | nothing hm => simp
  | stopped hm hs => simp
  | final hm hs he =>
    intro p hp; simp only [List.mem_singleton] at hp
    exact ⟨_, _, _, Nat.le_refl _, hm, hp, hs⟩
  | @more off so eo l hm hs hl hn hc ih =>
    intro p hp
    rcases List.mem_cons.mp hp with hp | hp
    · exact ⟨_, _, _, Nat.le_refl _, hm, hp, hs⟩
    · obtain ⟨off', so', eo', h1, h2, h3, h4⟩ := ih p hp
      have := nextOff_gt off so eo
      exact ⟨off', so', eo', by omega, h2, h3, h4⟩

/-- the chain with a stop rule is the longest prefix of the full chain (no stop rule) whose matches
    do not satisfy the rule -/
theorem chain_stop_takeWhile {m : Matcher} {s : Bytes} (stop : Nat → Bool) {off : Nat} {l : List (Nat × Nat)}
    (h : Chain m s (fun _ => false) off l) : Chain m s stop off (l.takeWhile (fun p => !stop p.1)) := by
  induction h with
  | nothing hm => exact Chain.nothing hm
  | stopped hm hs => cases hs
  | @final off so eo hm hs he =>
    by_cases hst : stop (off + so) = true
    · simp only [List.takeWhile, hst, Bool.not_true]; exact Chain.stopped hm hst
    · have hst' : stop (off + so) = false := by simpa using hst
      simp only [List.takeWhile, hst', Bool.not_false]; exact Chain.final hm hst' he
  | @more off so eo l hm hs hl hn hc ih =>
    by_cases hst : stop (off + so) = true
    · simp only [List.takeWhile, hst, Bool.not_true]; exact Chain.stopped hm hst
    · have hst' : stop (off + so) = false := by simpa using hst
      simp only [List.takeWhile, hst', Bool.not_false]; exact Chain.more hm hst' hl hn ih

theorem chain_nil_iff {m : Matcher} {s : Bytes} {stop : Nat → Bool} {off : Nat} :
    Chain m s stop off [] ↔ m s off = some none ∨ ∃ so eo, m s off = some (some (so, eo)) ∧ stop (off + so) = true := by
  constructor
  · intro h; cases h with
    | nothing hm => exact Or.inl hm
    | stopped hm hs => exact Or.inr ⟨_, _, hm, hs⟩
  · rintro (h | ⟨so, eo, h, hs⟩)
    · exact Chain.nothing h
    · exact Chain.stopped h hs

theorem lastOr_none_eq_none {s : Bytes} {l : List (Nat × Nat)} : lastOr s none l = none ↔ l = [] := by
  unfold lastOr
  cases h : l.getLast? with
  | none => simp [List.getLast?_eq_none_iff.mp h]
  | some p =>
    simp only [reduceCtorEq, false_iff]
    rintro rfl; simp at h

/-- a backward scan of a row finds nothing iff the chain is empty -/
theorem bwdLine_none {m : Matcher} {r0 o0 j : Int} {s : Bytes} :
    BwdLine m r0 o0 j s none ↔ Chain m s (stopB r0 o0 j s) 0 [] := by
  constructor
  · rintro ⟨l, hc, h⟩
    have := lastOr_none_eq_none.mp h.symm
    subst this; exact hc
  · intro h; exact ⟨[], h, rfl⟩

theorem bwdLine_some {m : Matcher} {r0 o0 j : Int} {s : Bytes} {o len : Int} :
    BwdLine m r0 o0 j s (some (o, len)) ↔
      ∃ l b n, Chain m s (stopB r0 o0 j s) 0 l ∧ l.getLast? = some (b, n) ∧ (o, len) = report s b n := by
  constructor
  · rintro ⟨l, hc, h⟩
    unfold lastOr at h
    cases hl : l.getLast? with
    | none => rw [hl] at h; simp at h
    | some p =>
      obtain ⟨b, n⟩ := p
      rw [hl] at h
      exact ⟨l, b, n, hc, hl, by simpa using h⟩
  · rintro ⟨l, b, n, hc, hl, h⟩
    exact ⟨l, hc, by simp [lastOr, hl, h]⟩

/-! ## the rows -/

theorem lineAt_some (ls : Lines) (j : Int) (h0 : 0 ≤ j) (h1 : j < ls.length) : ∃ s, lineAt ls j = some s := by
  unfold lineAt
  rw [if_neg (by omega)]
  exact ⟨ls[j.toNat]'(by omega), List.getElem?_eq_getElem (by omega)⟩

theorem lineAt_lt {ls : Lines} {j : Int} {s : Bytes} (h : lineAt ls j = some s) : 0 ≤ j ∧ j < ls.length := by
  unfold lineAt at h
  split at h
  · simp at h
  · have := (List.getElem?_eq_some_iff.mp h).1
    omega

/-- outcome of the row loop, forward: found -/
theorem gRows_fwd_found (ls : Lines) (scan : Int → Bytes → Option (Option (Int × Int))) (f : Nat) (i r o l : Int)
    (hi : 0 ≤ i) (hf : (ls.length : Int) + 1 ≤ f + i) :
    gRows ls 1 scan f i = some (some (r, o, l)) ↔
      (i ≤ r ∧ r < ls.length ∧ (∀ j s, i ≤ j → j < r → lineAt ls j = some s → scan j s = some none) ∧
        ∃ s, lineAt ls r = some s ∧ scan r s = some (some (o, l))) := by
  induction f generalizing i with
  | zero =>
    simp only [gRows, Option.some.injEq, reduceCtorEq, false_iff]
    rintro ⟨h1, h2, -⟩; omega
  | succ f ih =>
    rw [gRows]
    by_cases hr : i < 0 || i ≥ (ls.length : Int)
    · simp only [hr, if_true, Option.some.injEq, reduceCtorEq, false_iff]
      rintro ⟨h1, h2, -⟩; simp at hr; omega
    · simp only [hr]
      have hr' : i < ls.length := by simp at hr; omega
      obtain ⟨s, hs⟩ := lineAt_some ls i hi hr'
      simp only [hs, Bool.false_eq_true, if_false]
      cases hsc : scan i s with
      | none =>
        simp only [reduceCtorEq, false_iff]
        rintro ⟨h1, h2, h3, s', h4, h5⟩
        by_cases hri : r = i
        · subst hri; rw [hs] at h4; cases h4; rw [hsc] at h5; cases h5
        · have := h3 i s (by omega) (by omega) hs; rw [hsc] at this; cases this
      | some x =>
        cases x with
        | some p =>
          obtain ⟨o', l'⟩ := p
          simp only [Option.some.injEq, Prod.mk.injEq]
          constructor
          · rintro ⟨rfl, rfl, rfl⟩
            exact ⟨by omega, hr', fun j s' h1 h2 => by omega, s, hs, hsc⟩
          · rintro ⟨h1, h2, h3, s', h4, h5⟩
            by_cases hri : r = i
            · subst hri; rw [hs] at h4; cases h4; rw [hsc] at h5; cases h5; exact ⟨rfl, rfl, rfl⟩
            · have := h3 i s (by omega) (by omega) hs; rw [hsc] at this; cases this
        | none =>
          simp only []
          rw [ih (i + 1) (by omega) (by omega)]
          constructor
          · rintro ⟨h1, h2, h3, h4⟩
            refine ⟨by omega, h2, ?_, h4⟩
            intro j s' hj1 hj2 hj3
            by_cases hji : j = i
            · subst hji; rw [hs] at hj3; cases hj3; exact hsc
            · exact h3 j s' (by omega) hj2 hj3
          · rintro ⟨h1, h2, h3, s', h4, h5⟩
            have hri : r ≠ i := by
              rintro rfl; rw [hs] at h4; cases h4; rw [hsc] at h5; cases h5
            exact ⟨by omega, h2, fun j s' hj1 hj2 hj3 => h3 j s' (by omega) hj2 hj3, s', h4, h5⟩

/-- outcome of the row loop, forward: not found -/
theorem gRows_fwd_none (ls : Lines) (scan : Int → Bytes → Option (Option (Int × Int))) (f : Nat) (i : Int)
    (hi : 0 ≤ i) (hf : (ls.length : Int) + 1 ≤ f + i) :
    gRows ls 1 scan f i = some none ↔ (∀ j s, i ≤ j → lineAt ls j = some s → scan j s = some none) := by
  induction f generalizing i with
  | zero =>
    simp only [gRows, true_iff]
    intro j s h1 h2; have := lineAt_lt h2; omega
  | succ f ih =>
    rw [gRows]
    by_cases hr : i < 0 || i ≥ (ls.length : Int)
    · simp only [hr, if_true, true_iff]
      intro j s h1 h2; have := lineAt_lt h2; simp at hr; omega
    · simp only [hr]
      have hr' : i < ls.length := by simp at hr; omega
      obtain ⟨s, hs⟩ := lineAt_some ls i hi hr'
      simp only [hs, Bool.false_eq_true, if_false]
      cases hsc : scan i s with
      | none =>
        simp only [reduceCtorEq, false_iff]
        intro h; have := h i s (by omega) hs; rw [hsc] at this; cases this
      | some x =>
        cases x with
        | some p =>
          obtain ⟨o', l'⟩ := p
          simp only [Option.some.injEq, reduceCtorEq, false_iff]
          intro h; have := h i s (by omega) hs; rw [hsc] at this; cases this
        | none =>
          simp only []
          rw [ih (i + 1) (by omega) (by omega)]
          constructor
          · intro h j s' hj1 hj3
            by_cases hji : j = i
            · subst hji; rw [hs] at hj3; cases hj3; exact hsc
            · exact h j s' (by omega) hj3
          · intro h j s' hj1 hj3
            exact h j s' (by omega) hj3

/-- outcome of the row loop, backward: found -/
theorem gRows_bwd_found (ls : Lines) (scan : Int → Bytes → Option (Option (Int × Int))) (f : Nat) (i r o l : Int)
    (hf : i + 2 ≤ f) :
    gRows ls (-1) scan f i = some (some (r, o, l)) ↔
      (0 ≤ r ∧ r ≤ i ∧ i < ls.length ∧ (∀ j s, r < j → j ≤ i → lineAt ls j = some s → scan j s = some none) ∧
        ∃ s, lineAt ls r = some s ∧ scan r s = some (some (o, l))) := by
  induction f generalizing i with
  | zero =>
    simp only [gRows, Option.some.injEq, reduceCtorEq, false_iff]
    rintro ⟨h1, h2, -⟩; omega
  | succ f ih =>
    rw [gRows]
    by_cases hr : i < 0 || i ≥ (ls.length : Int)
    · simp only [hr, if_true, Option.some.injEq, reduceCtorEq, false_iff]
      rintro ⟨h1, h2, h3, -⟩; simp at hr; omega
    · simp only [hr]
      have hr' : 0 ≤ i ∧ i < ls.length := by simp at hr; omega
      obtain ⟨s, hs⟩ := lineAt_some ls i hr'.1 hr'.2
      simp only [hs, Bool.false_eq_true, if_false]
      cases hsc : scan i s with
      | none =>
        simp only [reduceCtorEq, false_iff]
        rintro ⟨h1, h2, h2', h3, s', h4, h5⟩
        by_cases hri : r = i
        · subst hri; rw [hs] at h4; cases h4; rw [hsc] at h5; cases h5
        · have := h3 i s (by omega) (by omega) hs; rw [hsc] at this; cases this
      | some x =>
        cases x with
        | some p =>
          obtain ⟨o', l'⟩ := p
          simp only [Option.some.injEq, Prod.mk.injEq]
          constructor
          · rintro ⟨rfl, rfl, rfl⟩
            exact ⟨hr'.1, by omega, hr'.2, fun j s' h1 h2 => by omega, s, hs, hsc⟩
          · rintro ⟨h1, h2, h2', h3, s', h4, h5⟩
            by_cases hri : r = i
            · subst hri; rw [hs] at h4; cases h4; rw [hsc] at h5; cases h5; exact ⟨rfl, rfl, rfl⟩
            · have := h3 i s (by omega) (by omega) hs; rw [hsc] at this; cases this
        | none =>
          simp only []
          rw [show i + -1 = i - 1 by omega, ih (i - 1) (by omega)]
          constructor
          · rintro ⟨h1, h2, h2', h3, h4⟩
            refine ⟨h1, by omega, hr'.2, ?_, h4⟩
            intro j s' hj1 hj2 hj3
            by_cases hji : j = i
            · subst hji; rw [hs] at hj3; cases hj3; exact hsc
            · exact h3 j s' hj1 (by omega) hj3
          · rintro ⟨h1, h2, h2', h3, s', h4, h5⟩
            have hri : r ≠ i := by
              rintro rfl; rw [hs] at h4; cases h4; rw [hsc] at h5; cases h5
            have hlt := (lineAt_lt h4).2
            exact ⟨h1, by omega, by omega, fun j s' hj1 hj2 hj3 => h3 j s' hj1 (by omega) hj3, s', h4, h5⟩

/-- outcome of the row loop, backward: not found -/
theorem gRows_bwd_none (ls : Lines) (scan : Int → Bytes → Option (Option (Int × Int))) (f : Nat) (i : Int)
    (hf : i + 2 ≤ f) (hl : i < ls.length) :
    gRows ls (-1) scan f i = some none ↔ (∀ j s, j ≤ i → lineAt ls j = some s → scan j s = some none) := by
  induction f generalizing i with
  | zero =>
    simp only [gRows, true_iff]
    intro j s h1 h2; have := lineAt_lt h2; omega
  | succ f ih =>
    rw [gRows]
    by_cases hr : i < 0 || i ≥ (ls.length : Int)
    · simp only [hr, if_true, true_iff]
      intro j s h1 h2; have := lineAt_lt h2; simp at hr; omega
    · simp only [hr]
      have hr' : 0 ≤ i ∧ i < ls.length := by simp at hr; omega
      obtain ⟨s, hs⟩ := lineAt_some ls i hr'.1 hr'.2
      simp only [hs, Bool.false_eq_true, if_false]
      cases hsc : scan i s with
      | none =>
        simp only [reduceCtorEq, false_iff]
        intro h; have := h i s (by omega) hs; rw [hsc] at this; cases this
      | some x =>
        cases x with
        | some p =>
          obtain ⟨o', l'⟩ := p
          simp only [Option.some.injEq, reduceCtorEq, false_iff]
          intro h; have := h i s (by omega) hs; rw [hsc] at this; cases this
        | none =>
          simp only []
          rw [show i + -1 = i - 1 by omega, ih (i - 1) (by omega) (by omega)]
          constructor
          · intro h j s' hj1 hj3
            by_cases hji : j = i
            · subst hji; rw [hs] at hj3; cases hj3; exact hsc
            · exact h j s' (by omega) hj3
          · intro h j s' hj1 hj3
            exact h j s' (by omega) hj3

end Neatvi.Lemmas.C13
