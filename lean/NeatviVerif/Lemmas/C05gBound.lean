import NeatviVerif.Lemmas.C05gRestore
/-!
# C05g lemmas, part 3: at most sixteen registers execute at a time

Along any execution — in every state visited while a command line runs (`VCommand`, `Lemmas/C05dVisit.lean`: the
states the nested handler calls return, the states at the start of the rounds of `:g`, the states a `+cmd` starts
from) — the count of executing registers lies between the count at the start and 16.
-/
namespace Neatvi.Lemmas.C05g
open Neatvi Neatvi.Lbuf Neatvi.LbufIo Neatvi.Ex Neatvi.Rset Neatvi.Lemmas.ExFrame
open Neatvi.Lemmas.C05d Neatvi.Lemmas.C06b Neatvi.Lemmas.C02c

/-- `s` is at least as deep as `ed`, and at most 16 deep -/
def Bd (ed s : Ed) : Prop := ed.atDepth ≤ s.atDepth ∧ s.atDepth ≤ 16

theorem Bd.of_eq {ed ed1 s : Ed} (h : Bd ed1 s) (e : ed1.atDepth = ed.atDepth) : Bd ed s := by
  unfold Bd at *; omega

def ExecB (f : Nat) : Prop := ∀ ed ln s, ed.atDepth ≤ 16 → VExec f ed ln s → Bd ed s
def CmdB (f : Nat) : Prop := ∀ ed ln s, ed.atDepth ≤ 16 → VCommand f ed ln s → Bd ed s
def RunB (f : Nat) : Prop := ∀ ed h loc cmd arg txt s, ed.atDepth ≤ 16 → VRun f ed h loc cmd arg txt s → Bd ed s

theorem runOne_depth {f : Nat} {ed ed1 : Ed} {p : Parsed} {ret r : Int} {rest : Bytes}
    (h : runOne f ed p ret = some ((r, ed1), rest)) : ed1.atDepth = ed.atDepth := by
  unfold runOne at h
  split at h
  · cases h; simp only [show_depth, exTxt_depth]
  · split at h
    · cases h
    · rename_i r1 e1 hr
      cases h
      rw [(all_depth f).2.2.1 _ _ _ _ _ _ _ _ hr, exTxt_depth]

theorem cmdsB (f : Nat) (hrun : RunB f) : ∀ (g : Nat) (ed : Ed) (ln : Bytes) (ret : Int) (s : Ed),
    ed.atDepth ≤ 16 → VCmds f g ed ln ret s → Bd ed s := by
  intro g
  induction g with
  | zero => intro ed ln ret s _ hv; cases hv
  | succ g ih =>
    intro ed ln ret s hd hv
    cases hv with
    | ret _ h1 =>
      have := runOne_depth h1
      unfold Bd; omega
    | inner _ hidx hr =>
      have e := exTxt_depth ed (parse1 ln).rest ‹Bytes›
      exact (hrun _ _ _ _ _ _ _ (by omega) hr).of_eq e
    | later _ h1 h2 =>
      have e := runOne_depth h1
      exact (ih _ _ _ _ (by omega) h2).of_eq e

theorem execB_succ (f : Nat) (hrun : RunB f) : ExecB (f + 1) := by
  intro ed ln s hd hv
  cases hv with
  | cmds _ hc => exact cmdsB f hrun _ _ _ _ _ hd hc

theorem cmdB_succ (f : Nat) (hx : ExecB f) : CmdB (f + 1) := by
  intro ed ln s hd hv
  cases hv with
  | exec he => exact hx _ _ _ hd he

theorem globStep_depth {f : Nat} {neg : Bool} {body : Bytes} {re : RStr} {ed ed2 : Ed} {i i2 : Int} {st : Bool}
    (h : globStep f neg body re ed i = some (st, ed2, i2)) : ed2.atDepth = ed.atDepth := by
  unfold globStep at h
  have hx := (all_depth f).1
  frame_cases
  all_goals depth_facts [hx]
  all_goals depth_omega

theorem scanB (f : Nat) (neg : Bool) (body : Bytes) (re : RStr) (dep : Nat) (hx : ExecB f) :
    ∀ (g : Nat) (ed : Ed) (i : Int) (s : Ed), ed.atDepth ≤ 16 → VScan f neg body re dep g ed i s → Bd ed s := by
  intro g
  induction g with
  | zero => intro ed i s _ hv; cases hv
  | succ g ih =>
    intro ed i s hd hv
    cases hv with
    | here _ => unfold Bd; omega
    | body _ _ _ _ he => exact (hx { ed with xrow := i } _ _ hd he).of_eq rfl
    | next _ hstep _ hrest =>
      have e1 := globStep_depth hstep
      have e2 := adv_depth dep (‹Ed›.len.toNat + 1) ‹Ed› ‹Int›
      exact (ih _ _ _ (by omega) hrest).of_eq (by omega)

theorem gPrep_depth (ed : Ed) (arg : Bytes) : (gPrep ed arg).atDepth = ed.atDepth := by
  unfold gPrep
  depth_omega

theorem gMark_depth (ed : Ed) (b e : Int) (dep : Nat) : (gMark ed b e dep).atDepth = ed.atDepth := by
  unfold gMark
  rw [foldl_ed_depth]
  intro ed a
  depth_omega

theorem runB_succ (f : Nat) (hx : ExecB f) (hc : CmdB f) : RunB (f + 2) := by
  intro ed h loc cmd arg txt s hd hv
  cases hv with
  | «at» ha =>
    cases ha with
    | @cmd _ _ _ _ _ buf rc b e ed1 _ hreg hr hrc hdp hra hvc =>
      have e1 := exRegion_depth hr
      have := hc _ _ _ (by show ed1.atDepth + 1 ≤ 16; omega) hvc
      unfold Bd at *
      have e2 : ({ ed1 with xrow := b, atDepth := ed1.atDepth + 1 } : Ed).atDepth = ed1.atDepth + 1 := rfl
      omega
  | glob hg =>
    cases hg with
    | @scan _ _ _ _ _ rc b e ed1 re _ _ hr hrc hkw hre hvs =>
      have e1 := exRegion_depth hr
      have e2 := gPrep_depth ed1 arg
      have e3 := gMark_depth (gPrep ed1 arg) b e ((gPrep ed1 arg).xgdep + 1)
      exact (scanB f _ _ _ _ hx _ _ _ _ (by omega) hvs).of_eq (by omega)
  | edit he =>
    cases he with
    | start hs _ =>
      have e1 : Ed.atDepth _ = ed.atDepth := editStage_depth hs
      unfold Bd; omega
    | plus hs _ hvc =>
      have e1 : Ed.atDepth _ = ed.atDepth := editStage_depth hs
      exact (hc _ _ _ (by omega) hvc).of_eq e1

theorem runB_zero : RunB 0 := by
  intro ed h loc cmd arg txt s _ hv; cases hv

theorem runB_one : RunB 1 := by
  intro ed h loc cmd arg txt s _ hv
  cases hv with
  | «at» ha => cases ha
  | glob hg => cases hg
  | edit he => cases he

theorem all_bound : ∀ f : Nat, ExecB f ∧ CmdB f ∧ RunB f ∧ RunB (f + 1) := by
  intro f
  induction f with
  | zero =>
    refine ⟨?_, ?_, runB_zero, runB_one⟩
    · intro ed ln s _ hv; cases hv
    · intro ed ln s _ hv; cases hv
  | succ f ih =>
    obtain ⟨hx, hc, hr0, hr1⟩ := ih
    exact ⟨execB_succ f hr0, cmdB_succ f hx, hr1, runB_succ f hx hc⟩

end Neatvi.Lemmas.C05g
