import NeatviVerif.Lemmas.C06bParse
/-!
# C06b, the loop of `ex_exec`: one iteration, lines of simple commands
-/
namespace Neatvi.Lemmas.C06b
open Neatvi Neatvi.Ex

/-- one iteration of the loop of `ex_exec` on a parsed command: fetch the text (`ex_txt`), dispatch.
    Result: (return code so far, state), rest of the line.  An unknown command only shows a message and keeps
    the return code `ret` of the previous command. -/
def runOne (f : Nat) (ed : Ed) (p : Parsed) (ret : Int) : Option ((Int × Ed) × Bytes) :=
  match p.idx with
  | none => some ((ret, (exTxt ed p.rest (abbrOf p.idx)).2.show (strOf "unknown command")),
      (exTxt ed p.rest (abbrOf p.idx)).1.2)
  | some (_, h) =>
    match runCmd f (exTxt ed p.rest (abbrOf p.idx)).2 h p.loc p.cmd p.arg (exTxt ed p.rest (abbrOf p.idx)).1.1 with
    | none => none
    | some (r, ed1) => some ((r, ed1), (exTxt ed p.rest (abbrOf p.idx)).1.2)

/-- the loop of `ex_exec`, one iteration unfolded: whatever the command returned, the loop goes on with the
    rest of the line -/
theorem cmds_succ (f g : Nat) (ed : Ed) (ln : Bytes) (ret : Int) :
    exExec.cmds f (g + 1) ed ln ret =
      if ln.isEmpty then some (ret, ed) else
      match runOne f ed (parse1 ln) ret with
      | none => none
      | some ((r, ed1), rest) => exExec.cmds f g ed1 rest r := by
  rw [exExec.cmds]
  split
  · rfl
  · unfold runOne parse1
    simp only []
    generalize exLoc ln = p1
    obtain ⟨loc, l1⟩ := p1
    simp only []
    generalize exCmd l1 = p2
    obtain ⟨cmd, l2⟩ := p2
    simp only []
    generalize exIdx cmd = idx
    cases idx with
    | none =>
      simp only [abbrOf]
    | some ah =>
      obtain ⟨a, hh⟩ := ah
      simp only [abbrOf]
      generalize exArg l2 a = p3
      obtain ⟨arg, l3⟩ := p3
      simp only []
      generalize exTxt ed l3 a = T
      obtain ⟨⟨txt, l4⟩, edT⟩ := T
      simp only []
      cases runCmd f edT hh loc cmd arg txt with
      | none => rfl
      | some x => rfl

theorem cmds_nil (f g : Nat) (ed : Ed) (ret : Int) : exExec.cmds f g ed [] ret = some (ret, ed) := by
  cases g with
  | zero => rw [exExec.cmds]
  | succ g => rw [exExec.cmds]; rfl

/-- the command is `rs` (which may take its text from the rest of the line) -/
def isRs (abbr : Bytes) : Bool :=
  let c0 := abbr.headD 0
  let c1 := if c0 != 0 then abbr.getD 1 0 else 0
  c0 == 114 && c1 == 115

/-- `ex_txt` leaves the rest of the line alone, except for `rs` -/
theorem exTxt_rest_notRs (ed : Ed) (src abbr : Bytes) (h : isRs abbr = false) : (exTxt ed src abbr).1.2 = src := by
  unfold isRs at h
  simp only [] at h
  unfold exTxt
  simp only [h, Bool.false_and, Bool.false_eq_true, if_false, Bool.false_or]
  repeat' split
  all_goals rfl

/-- `ex_txt` fetches a text only for `a`, `i`, `c` (and `rs`) -/
def takesText (abbr : Bytes) : Bool :=
  let c0 := abbr.headD 0
  let c1 := if c0 != 0 then abbr.getD 1 0 else 0
  (c0 == 114 && c1 == 115) || (c1 == 0 && (c0 == 105 || c0 == 97 || c0 == 99))

theorem exTxt_noText (ed : Ed) (src abbr : Bytes) (h : takesText abbr = false) : exTxt ed src abbr = ((none, src), ed) := by
  unfold takesText at h
  simp only [Bool.or_eq_false_iff] at h
  unfold exTxt
  simp only [h.1, h.2, Bool.false_and, Bool.false_eq_true, if_false, Bool.false_or]

/-- a known command does not look at the previous return code -/
theorem runOne_ret (f : Nat) (ed : Ed) (p : Parsed) (ret ret' : Int) (h : p.idx.isSome) :
    runOne f ed p ret = runOne f ed p ret' := by
  unfold runOne
  cases hi : p.idx with
  | none => rw [hi] at h; cases h
  | some x => rfl

/-- a known command that takes no text is just dispatched -/
theorem runOne_known (f : Nat) (ed : Ed) (p : Parsed) (ret : Int) (a : Bytes) (hd : String)
    (hi : p.idx = some (a, hd)) (ht : takesText a = false) :
    runOne f ed p ret = (runCmd f ed hd p.loc p.cmd p.arg none).map (fun x => (x, p.rest)) := by
  unfold runOne
  rw [hi]
  simp only [abbrOf, exTxt_noText ed p.rest a ht]
  cases runCmd f ed hd p.loc p.cmd p.arg none with
  | none => rfl
  | some x => rfl

/-! ### lines of simple commands -/

/-- a simple command in pieces: address, letters of the name, `!`/`=`/`@` suffix, blanks, argument -/
structure Cmd1 where
  loc : Bytes
  w : Bytes
  sfx : Bytes
  sp : Bytes
  arg : Bytes

def Cmd1.bytes (c : Cmd1) : Bytes := c.loc ++ c.w ++ c.sfx ++ c.sp ++ c.arg
def Cmd1.cmd (c : Cmd1) : Bytes := c.w ++ c.sfx
/-- what `ex_exec` makes of it when `rest` follows -/
def Cmd1.parsed (c : Cmd1) (rest : Bytes) : Parsed := ⟨c.loc, c.cmd, exIdx c.cmd, c.arg, rest⟩

/-- the command is well-formed in front of `t` (nothing, or `|…`), takes a plain argument, and is not `rs` -/
structure Cmd1.Ok (c : Cmd1) (t : Bytes) : Prop where
  simple : SimpleCmd c.loc c.w c.sfx c.sp c.arg t
  plain : plainAbbr (abbrOf (exIdx c.cmd)) c.arg = true
  notRs : isRs (abbrOf (exIdx c.cmd)) = false

/-- the commands joined by `|` -/
def joinBar : List Cmd1 → Bytes
  | [] => []
  | [c] => c.bytes
  | c :: d :: cs => c.bytes ++ 124 :: joinBar (d :: cs)

/-- every command is well-formed in front of what follows it, and the last one is not empty -/
def LineOk : List Cmd1 → Prop
  | [] => True
  | [c] => c.Ok [] ∧ c.bytes ≠ []
  | c :: d :: cs => c.Ok (124 :: joinBar (d :: cs)) ∧ LineOk (d :: cs)

/-- the reference run of a line: every command in order, none skipped, the return code handed on -/
def runLine (f : Nat) : Ed → List Cmd1 → Int → R Int
  | ed, [], ret => some (ret, ed)
  | ed, c :: cs, ret =>
    match runOne f ed (c.parsed (joinBar cs)) ret with
    | none => none
    | some ((r, ed1), _) => runLine f ed1 cs r

theorem parse1_cmd1 (c : Cmd1) (t : Bytes) (h : c.Ok t) : parse1 (c.bytes ++ t) = c.parsed (t.drop 1) := by
  have := parse1_simple h.simple h.plain
  unfold Cmd1.bytes Cmd1.parsed Cmd1.cmd
  rw [this]

theorem cmds_line (f : Nat) : ∀ (cs : List Cmd1) (g : Nat) (ed : Ed) (ret : Int), LineOk cs → cs.length ≤ g →
    exExec.cmds f g ed (joinBar cs) ret = runLine f ed cs ret := by
  intro cs
  induction cs with
  | nil => intro g ed ret _ _; rw [joinBar, cmds_nil]; rfl
  | cons c cs ih =>
    intro g ed ret hok hg
    obtain ⟨g, rfl⟩ : ∃ k, g = k + 1 := ⟨g - 1, by simp at hg; omega⟩
    cases cs with
    | nil =>
      obtain ⟨h1, h2⟩ := hok
      have hp : parse1 c.bytes = c.parsed [] := by
        have := parse1_cmd1 c [] h1
        simpa using this
      have hne : c.bytes.isEmpty = false := by
        cases hb : c.bytes with
        | nil => exact absurd hb h2
        | cons x xs => rfl
      rw [joinBar, cmds_succ, hne, hp, runLine]
      simp only [Bool.false_eq_true, if_false, joinBar]
      cases hr : runOne f ed (c.parsed []) ret with
      | none => rfl
      | some x =>
        obtain ⟨⟨r, ed1⟩, rest⟩ := x
        have hrest : rest = [] := by
          unfold runOne at hr
          have ht := exTxt_rest_notRs ed [] (abbrOf (exIdx c.cmd)) h1.notRs
          simp only [Cmd1.parsed] at hr
          split at hr
          · cases hr; exact ht
          · split at hr
            · cases hr
            · cases hr; exact ht
        subst hrest
        simp only [cmds_nil, runLine]
    | cons d ds =>
      obtain ⟨h1, h2⟩ := hok
      have hp : parse1 (c.bytes ++ 124 :: joinBar (d :: ds)) = c.parsed (joinBar (d :: ds)) := by
        have := parse1_cmd1 c (124 :: joinBar (d :: ds)) h1
        simpa using this
      have hne : (c.bytes ++ 124 :: joinBar (d :: ds)).isEmpty = false := by simp
      rw [joinBar, cmds_succ, hne, hp, runLine]
      simp only [Bool.false_eq_true, if_false]
      cases hr : runOne f ed (c.parsed (joinBar (d :: ds))) ret with
      | none => rfl
      | some x =>
        obtain ⟨⟨r, ed1⟩, rest⟩ := x
        have hrest : rest = joinBar (d :: ds) := by
          unfold runOne at hr
          have ht := exTxt_rest_notRs ed (joinBar (d :: ds)) (abbrOf (exIdx c.cmd)) h1.notRs
          simp only [Cmd1.parsed] at hr
          split at hr
          · cases hr; exact ht
          · split at hr
            · cases hr
            · cases hr; exact ht
        subst hrest
        simp only []
        exact ih g ed1 r h2 (by simp at hg ⊢; omega)

theorem joinBar_length (cs : List Cmd1) : cs.length ≤ (joinBar cs).length + 1 := by
  induction cs with
  | nil => simp
  | cons c cs ih =>
    cases cs with
    | nil => simp
    | cons d ds =>
      simp only [joinBar, List.length_cons, List.length_append] at ih ⊢
      omega

end Neatvi.Lemmas.C06b
