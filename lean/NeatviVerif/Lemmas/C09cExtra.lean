import NeatviVerif.Lemmas.C09cMain
/-!
# C09c, part 16: the relation is "equal up to a monotone renumbering"; boolean checkers for the hypotheses
-/
namespace Neatvi.Lemmas.C09c
open Neatvi Neatvi.Uc Neatvi.Lbuf Neatvi.Ex Neatvi.Vi Neatvi.Mot

/-! ### renumbering -/

/-- the line buffer with every sequence number `n` replaced by `f n` -/
def renumber (f : Nat → Nat) (a : Lb) : Lb :=
  { a with hist := a.hist.map (fun e => { e with seq := f e.seq }), useq := f a.useq, useqZero := f a.useqZero,
           useqLast := f a.useqLast }

/-- the sequence numbers that occur in a line buffer -/
def SeqVal (a : Lb) (n : Nat) : Prop := n = a.useq ∨ n = a.useqZero ∨ n = a.useqLast ∨ ∃ e ∈ a.hist, e.seq = n

theorem hp_map (f : Nat → Nat) : ∀ (l : List Entry) (p : Nat × Nat),
    HP l (l.map (fun e => { e with seq := f e.seq })) p → ∃ e ∈ l, p = (e.seq, f e.seq) := by
  intro l
  induction l with
  | nil => intro p h; cases h
  | cons a l ih =>
    intro p h
    cases h with
    | head => exact ⟨a, by simp, rfl⟩
    | tail h =>
      obtain ⟨e, he, hp⟩ := ih p h
      exact ⟨e, by simp [he], hp⟩

theorem all2_map (f : Nat → Nat) : ∀ l : List Entry, All2 EntRel l (l.map (fun e => { e with seq := f e.seq })) := by
  intro l
  induction l with
  | nil => exact All2.nil
  | cons a l ih => exact All2.cons ⟨rfl, rfl, rfl, rfl, rfl, rfl, rfl⟩ ih

/-- **sufficiency**: a renumbering that preserves the order (hence the groups) of the numbers that occur gives a
related line buffer -/
theorem renumber_rel (f : Nat → Nat) (a : Lb) (hok : SeqOk a)
    (hf : ∀ x y, SeqVal a x → SeqVal a y → (x ≤ y ↔ f x ≤ f y)) : LbRel false a (renumber f a) := by
  have key : ∀ p, SeqP a (renumber f a) p → SeqVal a p.1 ∧ p.2 = f p.1 := by
    intro p hp
    rcases hp with rfl | rfl | rfl | hp
    · exact ⟨Or.inl rfl, rfl⟩
    · exact ⟨Or.inr (Or.inl rfl), rfl⟩
    · exact ⟨Or.inr (Or.inr (Or.inl rfl)), rfl⟩
    · obtain ⟨e, he, rfl⟩ := hp_map f a.hist p hp
      exact ⟨Or.inr (Or.inr (Or.inr ⟨e, he, rfl⟩)), rfl⟩
  have hle : ∀ x, SeqVal a x → x ≤ a.useq := by
    intro x hx
    obtain ⟨h1, h2, h3⟩ := hok
    rcases hx with rfl | rfl | rfl | ⟨e, he, rfl⟩
    · exact Nat.le_refl _
    · exact h1
    · exact h2
    · exact h3 e he
  refine ⟨rfl, rfl, rfl, fun _ => rfl, fun _ => rfl, rfl, rfl, rfl, all2_map f a.hist, ?_, ?_⟩
  · intro p q hp hq
    obtain ⟨p1, p2⟩ := key p hp
    obtain ⟨q1, q2⟩ := key q hq
    rw [p2, q2]
    exact hf _ _ p1 q1
  · intro p hp
    obtain ⟨p1, p2⟩ := key p hp
    refine ⟨hle _ p1, ?_⟩
    rw [p2]
    exact (hf _ _ p1 (Or.inl rfl)).mp (hle _ p1)

/-! ### boolean checkers -/

def seqOkB (a : Lb) : Bool :=
  decide (a.useqZero ≤ a.useq) && decide (a.useqLast ≤ a.useq) && a.hist.all (fun e => decide (e.seq ≤ a.useq))

def seqStrictB (a : Lb) : Bool :=
  decide (a.useqZero < a.useq) && decide (a.useqLast < a.useq) && a.hist.all (fun e => decide (e.seq < a.useq))

theorem seqOk_of_b {a : Lb} (h : seqOkB a = true) : SeqOk a := by
  unfold seqOkB at h
  simp only [Bool.and_eq_true, decide_eq_true_eq, List.all_eq_true] at h
  exact ⟨h.1.1, h.1.2, h.2⟩

theorem seqStrict_of_b {a : Lb} (h : seqStrictB a = true) : SeqStrict a := by
  unfold seqStrictB at h
  simp only [Bool.and_eq_true, decide_eq_true_eq, List.all_eq_true] at h
  exact ⟨h.1.1, h.1.2, h.2⟩

/-- every buffer weakly, the current one strictly -/
def dotSeqOkB (ed : Ed) : Bool :=
  ed.bufs.all (fun o => match o with | some b => seqOkB b.lb | none => true) &&
  (match ed.cur with | some b => seqStrictB b.lb | none => true)

theorem dotSeqOk_of_b {ed : Ed} (h : dotSeqOkB ed = true) : DotSeqOk ed := by
  unfold dotSeqOkB at h
  simp only [Bool.and_eq_true, List.all_eq_true] at h
  refine ⟨fun b hb => seqOk_of_b (h.1 (some b) hb), fun b hb => ?_⟩
  have := h.2
  rw [hb] at this
  exact seqStrict_of_b this

def edSeqOkB (ed : Ed) : Bool := ed.bufs.all (fun o => match o with | some b => seqOkB b.lb | none => true)

theorem edSeqOk_of_b {ed : Ed} (h : edSeqOkB ed = true) : EdSeqOk ed := by
  unfold edSeqOkB at h
  simp only [List.all_eq_true] at h
  exact fun b hb => seqOk_of_b (h (some b) hb)

instance (s : VS) (rest : Bytes) : Decidable (DotSettled s rest) := by unfold DotSettled; infer_instance

end Neatvi.Lemmas.C09c
