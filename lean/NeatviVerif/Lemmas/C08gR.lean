import NeatviVerif.Lemmas.C08gQ
/-!
# C08g: the change commands as whole iterations of `vi()`: `cw_step`, `C_step`, `s_step`, `cc_step`

`vi_change` keeps `xquit`, `out`, `xtd` (`ek_viChange`, through the insert-mode line editor), so `viPost` runs after it as
after the delete and yank operators.
-/
set_option linter.unusedSimpArgs false
set_option linter.unusedVariables false
namespace Neatvi.Lemmas.C08g
open Neatvi Neatvi.Uc Neatvi.Vi Neatvi.Ex Neatvi.Lbuf Neatvi.Mot Neatvi.Spec
open Neatvi.Lemmas.C08 Neatvi.Lemmas.C08b Neatvi.Lemmas.C08f
open Neatvi.Lemmas.C09 (finRec pending)
open Neatvi.Props.C07c (Utf8Buf refBufU)
open Neatvi.Props.C08f

/-! ### `EK` through insert mode -/

theorem EK.of_ed {α : Type} {m : M α} (h : ∀ s a s', m s = Res.ok a s' → s'.ed = s.ed) : EK m := by
  constructor
  intro s a s' hm
  unfold edk
  rw [h s a s' hm]

theorem ek_termRead : EK termRead := EK.of_ed (fun s a s' h => (Lemmas.C07.termRead_ed s a s' h).1)

theorem ek_more (k : Nat) (acc : Bytes) : EK (readCharS.more k acc) := by
  induction k generalizing acc with
  | zero => unfold readCharS.more; ek
  | succ k ih => unfold readCharS.more; ek; all_goals first | exact ek_termRead | apply ih

theorem ek_readKey_more (k : Nat) : EK (readKey.more k) := by
  induction k with
  | zero => unfold readKey.more; ek
  | succ k ih => unfold readKey.more; ek; all_goals first | exact ek_termRead | exact ih

/-- `led_readkey()` keeps the editor record, like `termRead` -/
theorem ek_readKey : EK readKey := by
  unfold readKey
  ek
  all_goals first | exact ek_termRead | apply ek_readKey_more

theorem ek_readCharS (c : Int) (kmap : Nat) : EK (readCharS c kmap) := by
  unfold readCharS
  ek
  all_goals first | exact ek_termRead | exact ek_readKey | apply ek_more

theorem ek_ledLine_go (post : Bytes) (aiMax : Nat) (im pe : Bool) (setKmap : Option Nat → M Unit)
    (getKmap : M Nat) (redraw : Bytes → Bytes → Bytes → M Unit)
    (h1 : ∀ k, EK (setKmap k)) (h2 : EK getKmap) (h3 : ∀ a b c, EK (redraw a b c))
    (f : Nat) (sb ai : Bytes) (c1 : Int) :
    EK (ledLine.go post aiMax im pe setKmap getKmap redraw f sb ai c1) := by
  induction f generalizing sb ai c1 with
  | zero => unfold ledLine.go; ek
  | succ f ih =>
    unfold ledLine.go
    ek
    all_goals first | apply ih | apply h1 | apply h3 | exact ek_termRead | exact ek_readKey | apply ek_readCharS | exact h2

theorem ek_ledLine (pref post ai0 : Bytes) (aiMax : Nat) (im ex : Bool) : EK (ledLine pref post ai0 aiMax im ex) := by
  unfold ledLine
  apply ek_ledLine_go
  · intro k
    apply EK.modify
    intro s
    split <;> (simp only []; split <;> rfl)
  · exact EK.of_ed (fun s a s' h => by cases h; rfl)
  · intro a b c
    split
    · apply EK.modify; intro s; rfl
    · exact EK.pure _

theorem ek_viNextlineR : EK viNextlineR := by
  unfold viNextlineR
  apply EK.bind EK.get
  intro s
  apply EK.withEd
  intro t
  split <;> rfl

theorem ek_repeatM (n : Nat) (m : M Unit) (h : EK m) : EK (Vi.repeatM n m) := by
  induction n with
  | zero => unfold Vi.repeatM; exact EK.pure _
  | succ n ih => unfold Vi.repeatM; exact EK.bind h (fun _ => ih)

theorem ek_ledInput_loop (xai : Bool) (f : Nat) (sb : Bytes) (pref : Option Bytes) (post ai : Bytes) :
    EK (ledInput.loop xai f sb pref post ai) := by
  induction f generalizing sb pref post ai with
  | zero => unfold ledInput.loop; exact EK.pure _
  | succ f ih =>
    unfold ledInput.loop
    ek
    all_goals first | apply ih | apply ek_ledLine | exact ek_repeatM _ _ ek_viNextlineR

theorem ek_ledInput (pref post : Bytes) : EK (ledInput pref post) := by
  unfold ledInput
  ek
  apply ek_ledInput_loop

theorem ek_viInput (pref post : Bytes) : EK (viInput pref post) := by
  unfold viInput
  ek
  apply ek_ledInput

theorem ek_setTop (t : Int) : EK (setTop t) := EK.withEd (fun _ => rfl)

theorem ek_viChange (r1 o1 r2 o2 : Int) (ln : Bool) : EK (viChange r1 o1 r2 o2 ln) := by
  unfold viChange drawfixTop
  ek
  all_goals first | apply ek_viInput | exact ek_setTop _

theorem edk_lands_change (s s1 sm : VS) (a2 k mv : Int) (body : List Nat) (o t : Nat)
    (hrow : OnRow s body o) (hl : Lands s s1 sm a2 k mv body o t) (m : Nat) (s' : VS)
    (h : vcMotion 99 s = Res.ok m s') : edk s' = edk s := by
  rw [vcMotion_lands 99 (by simp) s s1 sm a2 k mv body o t hrow hl] at h
  have hs1 : edk sm = edk s := by unfold edk; rw [hl.ed]
  exact ((ek_viChange _ _ _ _ _).keep _ _ _ h).trans hs1

theorem edk_line_change (s s1 : VS) (a2 k t : Int) (hk : Prefixed s a2 k s1) (hkpos : 0 < k)
    (ht : lnTarget (setArg2 a2 s) s.ed.xrow 99 k = some t) (ht0 : 0 ≤ t) (m : Nat) (s' : VS)
    (h : vcMotion 99 s = Res.ok m s') : edk s' = edk s := by
  obtain ⟨a, b, e⟩ := vcMotion_line 99 s s1 a2 k t hk hkpos ht ht0
  rw [e] at h
  have hs1 : edk (setArg2 a2 s1) = edk s := by unfold edk; show (s1.ed.xquit, s1.ed.out, s1.ed.xtd) = _; rw [hk.frame.ed]
  exact ((ek_viChange _ _ _ _ _).keep _ _ _ h).trans hs1

/-! ### the steps -/

/-- **a shorthand key as one iteration** -/
theorem step_short (c op : Nat) (k : Int) (hs : isShort c op k) (s : VS) (rest : Bytes) (hi : Idle s) (hp : pending s = c :: rest) :
    ∃ sm, CmdStart s sm ∧ pending sm = rest ∧ sm.vibuf = [] ∧ Prefixed { sm with vibuf := [k] } 0 k sm ∧
      ∀ m s', vcMotion op { sm with vibuf := [k] } = Res.ok m s' → edk s' = edk s →
        ∃ s'', viStep s = Res.ok () s'' ∧ Settled s' s'' := by
  have hck : isCmdKey c := by
    unfold isCmdKey
    rcases hs with ⟨rfl, _, _⟩ | ⟨rfl, _, _⟩ | ⟨rfl, _, _⟩ | ⟨rfl, _, _⟩ | ⟨rfl, _, _⟩ | ⟨rfl, _, _⟩ | ⟨rfl, _, _⟩ | ⟨rfl, _, _⟩ <;> omega
  obtain ⟨s0, s1, hr, hed, hvb, hpe, ha1, hyb, hkm, hai, hic, hfin⟩ := viStep_via c hck s rest hi hp
  obtain ⟨sm, hk0, hv, hpend, hpre, hct⟩ := keys_short c op k hs s0 s1 hr hvb
  have hcs := cmdStart_of hed ha1 hyb hkm hai hk0
  refine ⟨sm, hcs, by rw [hpend]; exact hpe, hv, hpre, ?_⟩
  intro m s' hm hek
  refine hfin 0 m s' (hct m s' hm) ?_
  rw [hek]
  unfold edk; rw [hed]

/-- a change on the row, settled: the cursor is on the last typed character -/
theorem settle_rowChanged {K : Bytes} {s0 sm s' s'' : VS} {body cs : List Nat} {a b : Nat}
    (hd : RowChanged K s0 sm s' s0.ed.xrow body cs a b) (hs : Settled s' s'') (hrow0 : 0 ≤ s0.ed.xrow)
    (hline : (lines s0)[s0.ed.xrow.toNat]? = some (encStr (body ++ [10])))
    (hv : ∀ c ∈ body, ValidCp c) (h10 : 10 ∉ body) (hcv : ∀ c ∈ cs, ValidCp c) (hc10 : 10 ∉ cs) (hcne : cs ≠ [])
    (hab : a ≤ b) (hb : b ≤ body.length) :
    s''.ed.xrow = s0.ed.xrow ∧ s''.ed.xoff = ((a + cs.length - 1 : Nat) : Int) := by
  have hrlt : s0.ed.xrow.toNat < (lines s0).length := (List.getElem?_eq_some_iff.mp hline).1
  have hcl : 0 < cs.length := by cases cs with | nil => exact absurd rfl hcne | cons _ _ => simp
  have hv' : ∀ c ∈ body.take a ++ cs ++ body.drop b, ValidCp c := by
    intro c hc
    rcases List.mem_append.mp hc with hc | hc
    · rcases List.mem_append.mp hc with hc | hc
      · exact hv c (List.mem_of_mem_take hc)
      · exact hcv c hc
    · exact hv c (List.mem_of_mem_drop hc)
  have h10' : 10 ∉ body.take a ++ cs ++ body.drop b := by
    intro hc
    rcases List.mem_append.mp hc with hc | hc
    · rcases List.mem_append.mp hc with hc | hc
      · exact h10 (List.mem_of_mem_take hc)
      · exact hc10 hc
    · exact h10 (List.mem_of_mem_drop hc)
  have hrow' : OnRow s' (body.take a ++ cs ++ body.drop b) (a + cs.length - 1) := by
    refine ⟨by rw [hd.xrow]; exact hrow0, ?_, hv', h10', by rw [hd.xoff]; omega,
      by simp [List.length_take, List.length_drop]; omega⟩
    rw [hd.lines, hd.xrow, List.append_assoc, List.getElem?_append_right (by simp; omega)]
    simp only [List.length_take]
    rw [show s0.ed.xrow.toNat - min s0.ed.xrow.toNat (lines s0).length = 0 by omega]
    rfl
  have hlen : s'.ed.xrow < lenOf s' := by
    have := (List.getElem?_eq_some_iff.mp hrow'.line).1
    show s'.ed.xrow < ((lines s').length : Int)
    have := hrow'.row0
    omega
  exact ⟨by rw [hs.xrow, wfixRow_valid s' hrow'.row0 hlen, hd.xrow], by rw [hs.xoff, wfixOff_onRow s' _ _ hrow']⟩

theorem typedText_ne {K : Bytes} {cs : List Nat} (h : TypedText K cs) : cs ≠ [] := by
  intro he
  have := h.head.1
  rw [he] at this
  exact this rfl

/-- the frame of a change: the queue side outside the editor record -/
theorem readsEd_frame {K : Bytes} {sm s' : VS} (h : ReadsEd K sm s') :
    s'.vibuf = sm.vibuf ∧ s'.xkmap = sm.xkmap ∧ s'.xai = sm.xai := by
  obtain ⟨ib, ip, ty, e⟩ := h
  refine ⟨?_, ?_, ?_⟩ <;> rw [e]

/-- **`cw`, text, ESC as one iteration** (no count), when the next word starts at `t` on the same row: the characters
`[min o t, max o t)` are replaced by the typed text, the unnamed register holds them, the cursor is on the last typed
character -/
theorem cw_step (s : VS) (body cs : List Nat) (o t : Nat) (K rest : Bytes) (hi : Idle s) (hwf : RegsWf s.ed.regs)
    (hp : pending s = 99 :: 119 :: (K ++ rest)) (hrow : OnRow s body o) (hu : Utf8Buf (lines s))
    (href : Motion.wordFwdRaw false (refBufU (lines s)) ⟨s.ed.xrow.toNat, o⟩ 1 = ⟨s.ed.xrow.toNat, t⟩)
    (htb : t ≤ body.length) (ht : TypedText K cs) (hkm : s.xkmap = 0) :
    ∃ s'', viStep s = Res.ok () s'' ∧ StepDone s s'' rest ∧
      RowIs s s'' (body.take (min o t) ++ cs ++ body.drop (max o t)) ∧
      s''.ed.xrow = s.ed.xrow ∧ s''.ed.xoff = ((min o t + cs.length - 1 : Nat) : Int) ∧
      s''.ed.regs.getRaw 0 = (some (encStr ((body.take (max o t)).drop (min o t))), 0) := by
  obtain ⟨sm, s2, hcs, hpre, hpend, hv2, hfin⟩ := step_op 99 (by simp) 119 (by omega) s (K ++ rest) hi hp
  have hrow0 : OnRow sm body o := hcs.onRow hrow
  have href0 : Motion.wordFwdRaw false (refBufU (lines sm)) ⟨sm.ed.xrow.toNat, o⟩ (opCount sm 0).toNat = ⟨sm.ed.xrow.toNat, t⟩ := by
    rw [hcs.lines, hcs.xrow, hcs.opCount]; exact href
  have hu0 : Utf8Buf (lines sm) := by rw [hcs.lines]; exact hu
  obtain ⟨s', hd, hpe, hld⟩ := cw_spec sm s2 0 body cs o K rest t hpre hrow0 hu0 href0 ht hpend (by rw [hcs.xkmap]; exact hkm)
  have hek : edk s' = edk s := by
    rw [← hcs.edk]
    exact edk_lands_change sm s2 (setArg2 0 s2) 0 119 119 body o t hrow0 (lands_w sm s2 0 body o t hpre hrow0 hu0 href0) _ _ hd
  obtain ⟨s'', e, hs⟩ := hfin _ _ hd hek
  have hregs : s'.ed.regs = s.ed.regs.put 0 (encStr ((body.take (max o t)).drop (min o t))) 0 := by
    rw [hld.regs, hcs.regs, hcs.ybuf]
  have hwf' : RegsWf s'.ed.regs := by rw [hregs]; exact Props.C08.put_wf _ _ _ _ hwf
  obtain ⟨f1, f2, f3⟩ := readsEd_frame hld.frame
  have ho := hrow.onChar
  obtain ⟨hx, hoff⟩ := settle_rowChanged hld hs hrow0.row0 hrow0.line hrow.valid hrow.no10 ht.valid ht.no10 (typedText_ne ht)
    (by omega) (by omega)
  refine ⟨s'', e, ⟨hs.idle (by rw [f1]; exact hv2), hs.wf hwf', by rw [hs.pending]; exact hpe, ?_, ?_, ?_⟩, ?_, ?_, hoff, ?_⟩
  · rw [hs.xkmap, f2]; show s2.xkmap = _; rw [hpre.frame.xkmap, hcs.xkmap]
  · rw [hs.xai, f3]; show s2.xai = _; rw [(prefixed_qonly hpre).xai, hcs.xai]
  · rw [hs.xtd]
    have := congrArg (fun t => t.2.2) hek
    simp only [edk] at this
    exact this
  · unfold RowIs
    rw [hs.lines, hld.lines, hcs.lines, hcs.xrow]
  · rw [hx]; exact hcs.xrow
  · rw [hs.regs hwf' 0 (by omega), hregs, getRaw0_put0 _ _ _ hwf]

/-- **`C` / `s`, text, ESC as one iteration** (no count): `C` replaces the characters from the cursor to the end of the
line, `s` the cursor character -/
theorem Cs_step (c : Nat) (hc : c = 67 ∨ c = 115) (s : VS) (body cs : List Nat) (o : Nat) (K rest : Bytes) (hi : Idle s)
    (hwf : RegsWf s.ed.regs) (hp : pending s = c :: (K ++ rest)) (hrow : OnRow s body o) (ht : TypedText K cs) (hkm : s.xkmap = 0) :
    ∃ s'', viStep s = Res.ok () s'' ∧ StepDone s s'' rest ∧
      RowIs s s'' (body.take o ++ cs ++ body.drop (if c = 67 then body.length else o + 1)) ∧
      s''.ed.xrow = s.ed.xrow ∧ s''.ed.xoff = ((o + cs.length - 1 : Nat) : Int) ∧
      s''.ed.regs.getRaw 0 = (some (encStr ((body.take (if c = 67 then body.length else o + 1)).drop o)), 0) := by
  have ho := hrow.onChar
  obtain ⟨k, hshort⟩ : ∃ k : Int, isShort c 99 k ∧ (c = 67 → k = 36) ∧ (c = 115 → k = 32) := by
    rcases hc with rfl | rfl
    · exact ⟨36, by simp [isShort], fun _ => rfl, fun h => by omega⟩
    · exact ⟨32, by simp [isShort], fun h => by omega, fun _ => rfl⟩
  obtain ⟨sm, hcs, hpend, hvb, hpre, hfin⟩ := step_short c 99 k hshort.1 s (K ++ rest) hi hp
  have hrow0 : OnRow { sm with vibuf := [k] } body o := onRow_vibuf (hcs.onRow hrow) _
  obtain ⟨b, hb⟩ : ∃ b, b = (if c = 67 then body.length else o + 1) := ⟨_, rfl⟩
  rw [← hb]
  obtain ⟨s', hd, hpe, hld, hl⟩ : ∃ s', vcMotion 99 { sm with vibuf := [k] } = Res.ok VC_OK s' ∧ pending s' = rest ∧
      RowChanged K { sm with vibuf := [k] } (setArg2 0 sm) s' sm.ed.xrow body cs o b ∧
      ∃ mv, Lands { sm with vibuf := [k] } sm (setArg2 0 sm) 0 k mv body o (if c = 67 then body.length else min (o + 1) body.length) := by
    rcases hc with rfl | rfl
    · have hk36 := hshort.2.1 rfl
      subst hk36
      obtain ⟨s', a1, a2, a3⟩ := c_dollar_spec { sm with vibuf := [36] } sm 0 body cs o K rest hpre hrow0 ht hpend
        (by show sm.xkmap = 0; rw [hcs.xkmap]; exact hkm)
      exact ⟨s', a1, a2, by rw [hb]; simpa using a3, 36, by simpa using lands_dollar _ sm 0 body o hpre hrow0⟩
    · have hk32 := hshort.2.2 rfl
      subst hk32
      obtain ⟨s', a1, a2, a3⟩ := c_spc_spec { sm with vibuf := [32] } sm 0 body cs o K rest hpre hrow0 ht hpend
        (by show sm.xkmap = 0; rw [hcs.xkmap]; exact hkm)
      have hoc : opCount { sm with vibuf := [32] } 0 = 1 := hcs.opCount
      rw [hoc, show min (o + (1 : Int).toNat) body.length = o + 1 by simp; omega] at a3
      refine ⟨s', a1, a2, by rw [hb]; simpa using a3, 32, ?_⟩
      have := lands_spc _ sm 0 body o hpre hrow0
      rw [hoc] at this
      simpa using this
  obtain ⟨mv, hlands⟩ := hl
  have hek : edk s' = edk s := by
    rw [← hcs.edk]
    exact edk_lands_change { sm with vibuf := [k] } sm (setArg2 0 sm) 0 k mv body o _ hrow0 hlands _ _ hd
  obtain ⟨s'', e, hs⟩ := hfin _ _ hd hek
  have hregs : s'.ed.regs = s.ed.regs.put 0 (encStr ((body.take b).drop o)) 0 := by
    rw [hld.regs]; show sm.ed.regs.put sm.ybuf _ 0 = _; rw [hcs.regs, hcs.ybuf]
  have hwf' : RegsWf s'.ed.regs := by rw [hregs]; exact Props.C08.put_wf _ _ _ _ hwf
  obtain ⟨f1, f2, f3⟩ := readsEd_frame hld.frame
  have hbb : o ≤ b ∧ b ≤ body.length := by rw [hb]; split <;> omega
  obtain ⟨hx, hoff⟩ := settle_rowChanged hld hs hrow0.row0 hrow0.line hrow.valid hrow.no10 ht.valid ht.no10 (typedText_ne ht)
    hbb.1 hbb.2
  refine ⟨s'', e, ⟨hs.idle (by rw [f1]; exact hvb), hs.wf hwf', by rw [hs.pending]; exact hpe, ?_, ?_, ?_⟩, ?_, ?_, hoff, ?_⟩
  · rw [hs.xkmap, f2]; exact hcs.xkmap
  · rw [hs.xai, f3]; exact hcs.xai
  · rw [hs.xtd]
    have := congrArg (fun t => t.2.2) hek
    simp only [edk] at this
    exact this
  · unfold RowIs
    rw [hs.lines, hld.lines]
    show (lines sm).take sm.ed.xrow.toNat ++ _ ++ (lines sm).drop _ = _
    rw [hcs.lines, hcs.xrow]
  · rw [hx]; exact hcs.xrow
  · rw [hs.regs hwf' 0 (by omega), hregs, getRaw0_put0 _ _ _ hwf]

/-- **`cc`, text, ESC as one iteration** (no count): the cursor line `body` becomes `indentation ++ text`, the unnamed
register holds the old line in line mode, the cursor is on the last typed character -/
theorem cc_step (s : VS) (body cs : List Nat) (K rest : Bytes) (hi : Idle s) (hwf : RegsWf s.ed.regs)
    (hp : pending s = 99 :: 99 :: (K ++ rest)) (h0 : 0 ≤ s.ed.xrow)
    (hline : (lines s)[s.ed.xrow.toNat]? = some (encStr (body ++ [10]))) (hb : ∀ c ∈ body, ValidCp c) (hb10 : 10 ∉ body)
    (ht : TypedText K cs) (hkm : s.xkmap = 0) :
    ∃ s'', viStep s = Res.ok () s'' ∧ StepDone s s'' rest ∧ RowIs s s'' (indentOf s body ++ cs) ∧
      s''.ed.xrow = s.ed.xrow ∧ s''.ed.xoff = (((indentOf s body).length + cs.length - 1 : Nat) : Int) ∧
      s''.ed.regs.getRaw 0 = (some (encStr (body ++ [10])), 1) := by
  have hrlt : s.ed.xrow.toNat < (lines s).length := (List.getElem?_eq_some_iff.mp hline).1
  have h1 : s.ed.xrow < lenOf s := by show s.ed.xrow < ((lines s).length : Int); omega
  obtain ⟨sm, s2, hcs, hpre, hpend, hv2, hfin⟩ := step_op 99 (by simp) 99 (by omega) s (K ++ rest) hi hp
  obtain ⟨s', hd, hpe, hld⟩ := cc_spec sm s2 0 body cs K rest hpre (by rw [hcs.arg1]; decide) (by rw [hcs.xrow]; exact h0)
    (by rw [hcs.xrow, hcs.lenOf]; exact h1) (by rw [hcs.lines, hcs.xrow]; exact hline) hb hb10 ht hpend
    (by rw [hcs.xkmap]; exact hkm)
  rw [hcs.opCount, hcs.xrow, hcs.lenOf, show min (s.ed.xrow + 1 - 1) (lenOf s - 1) = s.ed.xrow by omega] at hld
  have hind : indentOf sm body = indentOf s body := indentOf_congr _ _ _ hcs.xai
  have hek : edk s' = edk s := by
    rw [← hcs.edk]
    exact edk_line_change sm s2 0 99 (min (sm.ed.xrow + opCount sm 0 - 1) (lenOf sm - 1)) hpre (by decide) rfl
      (by rw [hcs.opCount, hcs.xrow, hcs.lenOf]; omega) _ _ hd
  obtain ⟨s'', e, hs⟩ := hfin _ _ hd hek
  have hregs : s'.ed.regs = s.ed.regs.put 0 (encStr (body ++ [10])) 1 := by
    rw [hld.regs, hcs.regs, hcs.ybuf, hcs.lines, rowsText_one _ _ _ h0 hline]
    simp
  have hwf' : RegsWf s'.ed.regs := by rw [hregs]; exact Props.C08.put_wf _ _ _ _ hwf
  obtain ⟨f1, f2, f3⟩ := readsEd_frame hld.frame
  obtain ⟨hiv, hi10⟩ := indentOf_valid s body hb hb10
  have hcl : 0 < cs.length := by
    have := typedText_ne ht
    cases cs with | nil => exact absurd rfl this | cons _ _ => simp
  have hv' : ∀ c ∈ indentOf s body ++ cs, ValidCp c := by
    intro c hc
    rcases List.mem_append.mp hc with hc | hc
    · exact hiv c hc
    · exact ht.valid c hc
  have h10' : 10 ∉ indentOf s body ++ cs := by
    intro hc
    rcases List.mem_append.mp hc with hc | hc
    · exact hi10 hc
    · exact ht.no10 hc
  have hlines : lines s' = (lines s).take s.ed.xrow.toNat ++ [encStr (indentOf s body ++ cs ++ [10])] ++
      (lines s).drop (s.ed.xrow.toNat + 1) := by
    rw [hld.lines, hcs.lines, hind]
  have hrow' : OnRow s' (indentOf s body ++ cs) ((indentOf s body).length + cs.length - 1) := by
    refine ⟨by rw [hld.xrow]; exact h0, ?_, hv', h10', by rw [hld.xoff, hind]; omega, by simp; omega⟩
    rw [hlines, hld.xrow, List.append_assoc, List.getElem?_append_right (by simp; omega)]
    simp only [List.length_take]
    rw [show s.ed.xrow.toNat - min s.ed.xrow.toNat (lines s).length = 0 by omega]
    rfl
  have hlen : s'.ed.xrow < lenOf s' := by
    have := (List.getElem?_eq_some_iff.mp hrow'.line).1
    show s'.ed.xrow < ((lines s').length : Int)
    have := hrow'.row0
    omega
  refine ⟨s'', e, ⟨hs.idle (by rw [f1]; exact hv2), hs.wf hwf', by rw [hs.pending]; exact hpe, ?_, ?_, ?_⟩, ?_, ?_, ?_, ?_⟩
  · rw [hs.xkmap, f2]; show s2.xkmap = _; rw [hpre.frame.xkmap, hcs.xkmap]
  · rw [hs.xai, f3]; show s2.xai = _; rw [(prefixed_qonly hpre).xai, hcs.xai]
  · rw [hs.xtd]
    have := congrArg (fun t => t.2.2) hek
    simp only [edk] at this
    exact this
  · unfold RowIs
    rw [hs.lines, hlines]
  · rw [hs.xrow, wfixRow_valid s' hrow'.row0 hlen, hld.xrow]
  · rw [hs.xoff, wfixOff_onRow s' _ _ hrow']
  · rw [hs.regs hwf' 0 (by omega), hregs, getRaw0_put0 _ _ _ hwf]

end Neatvi.Lemmas.C08g
