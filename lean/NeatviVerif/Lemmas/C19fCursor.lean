import NeatviVerif.Lemmas.C19fPost
import NeatviVerif.Props.C17b
import NeatviVerif.Props.C19e
import NeatviVerif.Lemmas.C08Uc
/-!
# C19f helper lemmas: the cursor cell

`vi()` ends an iteration with `term_pos(xrow - xtop, vi_pos(ln, ren_cursor(ln, xcol)))` (vi.c:1892).
The model has no terminal cursor, so it is defined here from the model's `ren_cursor` / `led_pos`:

* `cursorCol s` — `ren_cursor(ln, xcol)`, the visual column the cursor is put on;
* `termCursor s` — `vi_pos(ln, cursorCol)`, the cell of the window (`led_pos` with the window
  `[xleft, xleft + xcols)`, mirrored in a right-to-left context);
* `colCell s` — `vi_pos(ln, xcol)`, the cell of the sticky column itself.

`cursor_cells`: when `xcol` is the column of the cursor character `off` of a valid UTF-8 line
(`xcol = vi_off2col(xrow, xoff)`, which `viPost` establishes when `mod ≠ 0`), `xcol` is the lowest
visual column of the character, every column of its cell range maps back to `off`, `ren_cursor` is
its highest visual column; and when all its cells are inside the window both `colCell` and
`termCursor` are cells of the window and the rendered row shows character `off` there.
-/
set_option linter.unusedSimpArgs false
set_option linter.unusedVariables false

namespace Neatvi.Lemmas.C19f
open Neatvi Neatvi.Uc Neatvi.Spec Neatvi.Ren Neatvi.Render Neatvi.Vi
open Neatvi.Lemmas.C17b Neatvi.Lemmas.C19d Neatvi.Lemmas.C19c
open Neatvi.Props.C19d (showsAt)
open Neatvi.Props.C19e (visCol)

/-- `ren_cursor(lbuf_get(xb, xrow), xcol)` (0 for a missing line) -/
def cursorCol (s : VS) : Int := match lineOf s s.ed.xrow with
  | none => 0
  | some ln => renCursorT ln (posTab s ln) (ucSlen ln) s.xcol

/-- the context direction of the cursor line (`dir_context(ln ? ln : "")`) -/
def curCtx (s : VS) : Int := dirCtx s ((lineOf s s.ed.xrow).getD [])

/-- `vi_pos(ln, p)`: the window cell of visual column `p` -/
def viPos (s : VS) (p : Int) : Int := ledPos (curCtx s) p s.ed.xleft (s.ed.xleft + s.xcols)

/-- the terminal column of the cursor: `vi_pos(ln, ren_cursor(ln, xcol))` -/
def termCursor (s : VS) : Int := viPos s (cursorCol s)

/-- the window cell of the sticky column: `vi_pos(ln, xcol)` -/
def colCell (s : VS) : Int := viPos s s.xcol

/-- what the cells of the row of the cursor line show (`C19d.showsAt` on the window
    `[xleft, xleft + xcols)` with the table and the context of the line) -/
def rowShows (s : VS) (ln : Bytes) (k : Nat) : Option Nat :=
  showsAt (chrs ln) (posTab s ln)
    (items (offTable (chrs ln) (posTab s ln) (dirCtx s ln) s.ed.xleft (s.ed.xleft + s.xcols))
      s.ed.xleft (s.ed.xleft + s.xcols)) k

/-! ### the model's table of a valid UTF-8 line is tiled -/

/-- whether `ren_position` succeeds or the model falls back on the left-to-right table -/
theorem posTab_tiled (s : VS) (cps : List Nat) (hv : ∀ c ∈ cps, ValidCp c) : Tiled cps (posTab s (encStr cps)) := by
  unfold posTab
  cases h : renPosition dirOracle (renOpts s) (encStr cps) with
  | none => exact fast_tiled cps hv
  | some pos => exact Props.C17b.renPosition_tiled dirOracle (renOpts s) cps hv pos h

theorem posTab_disjoint (s : VS) (cps : List Nat) (hv : ∀ c ∈ cps, ValidCp c) :
    Props.C19e.Disjoint (chrs (encStr cps)) (posTab s (encStr cps)) := by
  have ht := posTab_tiled s cps hv
  have hlen := chrs_enc_length hv
  intro i j hi hj hij
  rw [hlen] at hi hj
  rw [cwid_chr hv i hi, cwid_chr hv j hj]
  exact Props.C17b.cells_disjoint ht i j hi hj hij

/-! ### the column of the cursor character -/

/-- `vi_off2col` on a line of `n` characters: the table entry -/
theorem off2col_eq (s : VS) (cps : List Nat) (hv : ∀ c ∈ cps, ValidCp c)
    (hln : lineOf s s.ed.xrow = some (encStr cps)) (off : Nat) (hoff : off < cps.length) :
    off2col s s.ed.xrow (off : Int) = ((posTab s (encStr cps)).getD off 0 : Nat) := by
  unfold off2col
  rw [hln]
  simp only [renPosT, Props.C16.slen_spec hv, Int.toNat_natCast, hoff, if_true]

/-- **the columns of the cursor character.**  For a state whose sticky column is the column of the
    cursor character `off` (not the newline) of the valid UTF-8 line under the cursor, with `pos` the
    model's position table and `w` the reference cell width of the character:
    * `xcol = pos[off]`: the lowest visual column of the character, and `1 ≤ w`;
    * every column `p` of the cell range `[pos[off], pos[off] + w)` maps back to the character
      (`vi_col2off(p) = off`) and has `ren_cursor(p) = pos[off] + w - 1`;
    * so `cursorCol = xcol + w - 1`: the terminal cursor is put on the highest visual column of the
      character. -/
theorem cursor_columns (s : VS) (cps : List Nat) (hv : ∀ c ∈ cps, ValidCp c)
    (hln : lineOf s s.ed.xrow = some (encStr cps)) (off : Nat) (hxo : s.ed.xoff = (off : Int))
    (hoff : off < cps.length) (hnl : cps.getD off 0 ≠ 10)
    (hx : s.xcol = off2col s s.ed.xrow s.ed.xoff) :
    let pos := posTab s (encStr cps)
    let w := cellWidth (cps.getD off 0) (pos.getD off 0)
    s.xcol = (pos.getD off 0 : Nat) ∧ 1 ≤ w ∧
    (∀ p : Int, (pos.getD off 0 : Nat) ≤ p → p < (pos.getD off 0 : Nat) + (w : Int) →
      col2off s s.ed.xrow p = (off : Nat) ∧
      renCursorT (encStr cps) pos (ucSlen (encStr cps)) p = (pos.getD off 0 : Nat) + (w : Int) - 1) ∧
    cursorCol s = s.xcol + (w : Int) - 1 := by
  intro pos w
  have ht := posTab_tiled s cps hv
  have hw : 1 ≤ w := ht.width_pos off hoff
  have hxc : s.xcol = (pos.getD off 0 : Nat) := by
    rw [hx, hxo]; exact off2col_eq s cps hv hln off hoff
  have hcur : ∀ p : Int, (pos.getD off 0 : Nat) ≤ p → p < (pos.getD off 0 : Nat) + (w : Int) →
      renOffT pos (ucSlen (encStr cps)) p = off ∧
      renCursorT (encStr cps) pos (ucSlen (encStr cps)) p = (pos.getD off 0 : Nat) + (w : Int) - 1 := by
    intro p hp1 hp2
    rw [Props.C16.slen_spec hv]
    exact Props.C17b.renCursorT_tiled _ ht off hoff
      (fun hc => hnl ((chrHd_enc_eq_10 hv off hoff).mp hc)) p hp1 hp2
  refine ⟨hxc, hw, ?_, ?_⟩
  · intro p hp1 hp2
    obtain ⟨a, b⟩ := hcur p hp1 hp2
    refine ⟨?_, b⟩
    unfold col2off
    rw [hln]
    show ((renOffT pos (ucSlen (encStr cps)) p : Nat) : Int) = _
    rw [a]
  · unfold cursorCol
    rw [hln]
    show renCursorT (encStr cps) pos (ucSlen (encStr cps)) s.xcol = _
    rw [(hcur s.xcol (by omega) (by omega)).2, hxc]

/-! ### the cells -/

/-- `led_pos` maps the columns of the window onto its cells -/
theorem ledPos_range (ctx p beg end_ : Int) (h1 : beg ≤ p) (h2 : p < end_) :
    0 ≤ ledPos ctx p beg end_ ∧ ledPos ctx p beg end_ < end_ - beg := by
  unfold ledPos
  split <;> omega

/-- a visual column `p` of the window that is a cell of a character `i` whose cells are all inside
    the window: the window cell `vi_pos(p)` shows `i` -/
theorem rowShows_at (s : VS) (cps : List Nat) (hv : ∀ c ∈ cps, ValidCp c) (hc : 0 < s.xcols)
    (i : Nat) (hi : i < cps.length) (p : Int)
    (hp1 : ((posTab s (encStr cps)).getD i 0 : Nat) ≤ p)
    (hp2 : p < ((posTab s (encStr cps)).getD i 0 : Nat) +
      (cellWidth (cps.getD i 0) ((posTab s (encStr cps)).getD i 0) : Int))
    (hin1 : s.ed.xleft ≤ ((posTab s (encStr cps)).getD i 0 : Nat))
    (hin2 : ((posTab s (encStr cps)).getD i 0 : Nat) +
      (cellWidth (cps.getD i 0) ((posTab s (encStr cps)).getD i 0) : Int) ≤ s.ed.xleft + s.xcols) :
    let k := ledPos (dirCtx s (encStr cps)) p s.ed.xleft (s.ed.xleft + s.xcols)
    0 ≤ k ∧ k < s.xcols ∧ rowShows s (encStr cps) k.toNat = some i := by
  intro k
  obtain ⟨k0, k1⟩ := ledPos_range (dirCtx s (encStr cps)) p s.ed.xleft (s.ed.xleft + s.xcols) (by omega) (by omega)
  refine ⟨k0, by omega, ?_⟩
  unfold rowShows
  rw [Props.C19e.showsAt_spec_any _ _ _ _ _ (by omega) (posTab_disjoint s cps hv),
    Props.C19e.visCol_ledPos _ _ _ _ k0, chrs_enc_length hv, cwid_chr hv i hi]
  exact ⟨hi, hp1, hp2, hin1, hin2⟩

/-- **the cells of the cursor.**  Under the hypotheses of `cursor_columns`, when the sticky column is
    inside the window and all cells of the cursor character are (`xcol + w ≤ xleft + xcols`): the
    cell of the sticky column and the cell of the terminal cursor are cells of the window, and the
    rendered row shows the cursor character in both.  In a left-to-right context the sticky column
    is the leftmost cell of the character and the terminal cursor its rightmost cell
    (`termCursor = colCell + (w - 1)`); in a right-to-left context the window is mirrored: the sticky
    column is the rightmost cell and the terminal cursor the leftmost (`termCursor = colCell - (w - 1)`). -/
theorem cursor_cells (s : VS) (cps : List Nat) (hv : ∀ c ∈ cps, ValidCp c) (hc : 0 < s.xcols)
    (hln : lineOf s s.ed.xrow = some (encStr cps)) (off : Nat) (hxo : s.ed.xoff = (off : Int))
    (hoff : off < cps.length) (hnl : cps.getD off 0 ≠ 10)
    (hx : s.xcol = off2col s s.ed.xrow s.ed.xoff)
    (hl : s.ed.xleft ≤ s.xcol)
    (hr : s.xcol + (cellWidth (cps.getD off 0) ((posTab s (encStr cps)).getD off 0) : Int) ≤ s.ed.xleft + s.xcols) :
    let w : Int := cellWidth (cps.getD off 0) ((posTab s (encStr cps)).getD off 0)
    0 ≤ colCell s ∧ colCell s < s.xcols ∧ rowShows s (encStr cps) (colCell s).toNat = some off ∧
    0 ≤ termCursor s ∧ termCursor s < s.xcols ∧ rowShows s (encStr cps) (termCursor s).toNat = some off ∧
    (0 ≤ curCtx s → termCursor s = colCell s + (w - 1)) ∧
    (curCtx s < 0 → termCursor s = colCell s - (w - 1)) := by
  intro w
  obtain ⟨hxc, hw, _, hcc⟩ := cursor_columns s cps hv hln off hxo hoff hnl hx
  have hctx : curCtx s = dirCtx s (encStr cps) := by unfold curCtx; rw [hln]; rfl
  have a := rowShows_at s cps hv hc off hoff s.xcol (by omega) (by omega) (by omega) (by omega)
  have b := rowShows_at s cps hv hc off hoff (cursorCol s) (by omega) (by omega) (by omega) (by omega)
  simp only [] at a b
  unfold colCell termCursor viPos
  rw [hctx]
  refine ⟨a.1, a.2.1, a.2.2, b.1, b.2.1, b.2.2, ?_, ?_⟩
  · intro h0
    unfold ledPos
    rw [if_pos h0, if_pos h0, hcc]
    omega
  · intro h0
    unfold ledPos
    rw [if_neg (by omega), if_neg (by omega), hcc]
    omega

/-! ### the sticky column anywhere on a character -/

/-- the sticky column on any cell of character `i` (not the newline) of the cursor line: `ren_cursor`
    is the highest visual column of `i`, and `vi_col2off(xcol) = i` -/
theorem cursorCol_on_char (s : VS) (cps : List Nat) (hv : ∀ c ∈ cps, ValidCp c)
    (hln : lineOf s s.ed.xrow = some (encStr cps)) (i : Nat) (hi : i < cps.length) (hnl : cps.getD i 0 ≠ 10)
    (h1 : ((posTab s (encStr cps)).getD i 0 : Nat) ≤ s.xcol)
    (h2 : s.xcol < ((posTab s (encStr cps)).getD i 0 : Nat) +
      (cellWidth (cps.getD i 0) ((posTab s (encStr cps)).getD i 0) : Int)) :
    cursorCol s = ((posTab s (encStr cps)).getD i 0 : Nat) +
      (cellWidth (cps.getD i 0) ((posTab s (encStr cps)).getD i 0) : Int) - 1 ∧
    col2off s s.ed.xrow s.xcol = (i : Nat) := by
  have ht := posTab_tiled s cps hv
  have key := Props.C17b.renCursorT_tiled (encStr cps) ht i hi
    (fun hc => hnl ((chrHd_enc_eq_10 hv i hi).mp hc)) s.xcol h1 h2
  rw [← Props.C16.slen_spec hv] at key
  constructor
  · unfold cursorCol
    rw [hln]
    exact key.2
  · unfold col2off
    rw [hln]
    show ((renOffT (posTab s (encStr cps)) (ucSlen (encStr cps)) s.xcol : Nat) : Int) = _
    rw [key.1]

/-- ... and when all cells of `i` are inside the window, the cell of the sticky column and the cell of
    the terminal cursor are cells of the window that show `i` -/
theorem cursor_cells_on_char (s : VS) (cps : List Nat) (hv : ∀ c ∈ cps, ValidCp c) (hc : 0 < s.xcols)
    (hln : lineOf s s.ed.xrow = some (encStr cps)) (i : Nat) (hi : i < cps.length) (hnl : cps.getD i 0 ≠ 10)
    (h1 : ((posTab s (encStr cps)).getD i 0 : Nat) ≤ s.xcol)
    (h2 : s.xcol < ((posTab s (encStr cps)).getD i 0 : Nat) +
      (cellWidth (cps.getD i 0) ((posTab s (encStr cps)).getD i 0) : Int))
    (hin1 : s.ed.xleft ≤ ((posTab s (encStr cps)).getD i 0 : Nat))
    (hin2 : ((posTab s (encStr cps)).getD i 0 : Nat) +
      (cellWidth (cps.getD i 0) ((posTab s (encStr cps)).getD i 0) : Int) ≤ s.ed.xleft + s.xcols) :
    0 ≤ colCell s ∧ colCell s < s.xcols ∧ rowShows s (encStr cps) (colCell s).toNat = some i ∧
    0 ≤ termCursor s ∧ termCursor s < s.xcols ∧ rowShows s (encStr cps) (termCursor s).toNat = some i := by
  have hw := (posTab_tiled s cps hv).width_pos i hi
  obtain ⟨hcc, _⟩ := cursorCol_on_char s cps hv hln i hi hnl h1 h2
  have hctx : curCtx s = dirCtx s (encStr cps) := by unfold curCtx; rw [hln]; rfl
  have a := rowShows_at s cps hv hc i hi s.xcol h1 h2 hin1 hin2
  have b := rowShows_at s cps hv hc i hi (cursorCol s) (by omega) (by omega) hin1 hin2
  simp only [] at a b
  unfold colCell termCursor viPos
  rw [hctx]
  exact ⟨a.1, a.2.1, a.2.2, b.1, b.2.1, b.2.2⟩

/-! ### buffer lines: the cursor `vi_wfix()` leaves is on a character that is not the newline -/

/-- a buffer line `body ++ "\n"` with a non-empty body of valid code points other than the newline -/
theorem body_line (body : List Nat) (hv : ∀ c ∈ body, ValidCp c) (h10 : 10 ∉ body) (hne : body ≠ []) :
    (∀ c ∈ body ++ [10], ValidCp c) ∧ C07.WfLine (encStr (body ++ [10])) ∧ 0 ∉ encStr (body ++ [10]) ∧
    encStr (body ++ [10]) ≠ [10] := by
  have hvc : ∀ c ∈ body ++ [10], ValidCp c := by
    intro c hc
    rcases List.mem_append.mp hc with hc | hc
    · exact hv c hc
    · have : c = 10 := by simpa using hc
      rw [this]; decide
  have he : encStr (body ++ [10]) = encStr body ++ [10] := by rw [encStr_append]; rfl
  refine ⟨hvc, ⟨encStr body, he, C08.ten_notin_encStr h10⟩, ?_, ?_⟩
  · intro hm
    have := (encStr_wf hvc) 0 hm
    omega
  · rw [he]
    intro hc
    have hnil : encStr body = [] := by
      have := congrArg List.length hc
      simpa using this
    cases body with
    | nil => exact hne rfl
    | cons a t =>
      rw [encStr_cons] at hnil
      exact enc_ne_nil a (List.append_eq_nil_iff.mp hnil).1

/-- on a buffer line other than the empty line, a valid cursor with a non-negative offset is on a
    character of the line that is not its newline -/
theorem valid_cursor_char (s : VS) (hcv : Props.C07.CursorValid s) (h0 : 0 ≤ s.ed.xoff)
    (body : List Nat) (hv : ∀ c ∈ body, ValidCp c) (h10 : 10 ∉ body) (hne : body ≠ [])
    (hln : lineOf s s.ed.xrow = some (encStr (body ++ [10]))) :
    s.ed.xoff = (s.ed.xoff.toNat : Int) ∧ s.ed.xoff.toNat < body.length ∧
    (body ++ [10]).getD s.ed.xoff.toNat 0 ≠ 10 := by
  obtain ⟨hvc, hw, hz, hn1⟩ := body_line body hv h10 hne
  obtain ⟨a, _, c⟩ := Props.C07.cursor_on_character s hcv h0 _ hln hw hz
  rw [Props.C16.slen_spec hvc] at a
  have hlt : s.ed.xoff.toNat < (body ++ [10]).length := by omega
  have hnl : (body ++ [10]).getD s.ed.xoff.toNat 0 ≠ 10 := fun h10' =>
    hn1 (c ((chrHd_enc_eq_10 hvc _ hlt).mpr h10')).1
  refine ⟨by omega, ?_, hnl⟩
  by_cases hb : s.ed.xoff.toNat < body.length
  · exact hb
  · exfalso
    apply hnl
    have : s.ed.xoff.toNat = body.length := by simp at hlt; omega
    rw [this]
    simp

end Neatvi.Lemmas.C19f
